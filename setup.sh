#!/bin/sh
# Fresh-restore setup: build the translator, generate coq/gen from /repo, build the whole
# Coq development (full .vo), prebuild the harness test binaries.  Offline.
set -e
cd "$(dirname "$0")"
export GOFLAGS=-mod=mod GOPROXY=off GOSUMDB=off GOTOOLCHAIN=local
REPO="${VERIF_REPO:-/repo}"
mkdir -p build coq/gen evidence
(cd gen && go build -o ../build/verifgen .)
./build/verifgen -repo "$REPO" -spec gen/spec.json -out coq/gen
cd coq
{ printf -- '-R . Verif\n'; find . -name '*.v' | sed 's|^\./||' | LC_ALL=C sort; } > _CoqProject
coq_makefile -f _CoqProject -o Makefile >/dev/null
timeout 3000 make -j16 -k >../build/coq_build.log 2>&1 || { tail -30 ../build/coq_build.log; echo "setup: some Coq files did not build (checks report which)"; }
cd ..
python3 - <<'PY'
import glob, json, os
for pkg, dest in (("signaling", os.environ.get("VERIF_REPO", "/repo")), ("proxy", os.path.join(os.environ.get("VERIF_REPO", "/repo"), "proxy"))):
    files = sorted(glob.glob("/verif/harness/%s/*.go" % pkg))
    if not files:
        continue
    ov = {"Replace": {os.path.join(dest, os.path.basename(f)): f for f in files}}
    json.dump(ov, open("/verif/build/overlay_%s.json" % pkg, "w"))
PY
[ -f build/overlay_signaling.json ] && (cd "$REPO" && go test -c -tags verif -overlay /verif/build/overlay_signaling.json -vet=off -o /verif/build/signaling.test .)
[ -f build/overlay_proxy.json ] && (cd "$REPO/proxy" && go test -c -tags verif -overlay /verif/build/overlay_proxy.json -vet=off -o /verif/build/proxy.test .)
echo "setup done"
