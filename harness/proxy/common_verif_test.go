//go:build verif

// Shared helpers of the verification harness.  These files live in
// /verif/harness/proxy and are added to package main (/repo/proxy) at build time
// with `go test -overlay`; nothing of this is part of the repository.
package main

import (
	"encoding/json"
	"fmt"
	"os"
	"path/filepath"
	"sort"
	"strconv"
	"strings"
	"testing"
)

// ---- deterministic PRNG (splitmix64): every random choice derives from it --

type vrng struct{ s uint64 }

func newVrng(seed int64, stream uint64) *vrng {
	r := &vrng{s: uint64(seed)*0x9E3779B97F4A7C15 + stream*0xD1B54A32D192ED03 + 0x1234567}
	r.next()
	return r
}

func (r *vrng) next() uint64 {
	r.s += 0x9E3779B97F4A7C15
	z := r.s
	z = (z ^ (z >> 30)) * 0xBF58476D1CE4E5B9
	z = (z ^ (z >> 27)) * 0x94D049BB133111EB
	return z ^ (z >> 31)
}

func (r *vrng) intn(n int) int {
	if n <= 0 {
		return 0
	}
	return int(r.next() % uint64(n))
}

func (r *vrng) chance(percent int) bool { return r.intn(100) < percent }

func pick[T any](r *vrng, l []T) T { return l[r.intn(len(l))] }

// ---- environment -----------------------------------------------------------

type verifEnv struct {
	out    string
	seed   int64
	tier   string
	replay string
}

func getVerifEnv(t *testing.T, id string) verifEnv {
	out := os.Getenv("VERIF_OUT")
	if out == "" {
		t.Skip("VERIF_OUT not set: harness scenarios run only from /verif/check")
	}
	seed, _ := strconv.ParseInt(os.Getenv("VERIF_SEED"), 10, 64)
	tier := os.Getenv("VERIF_TIER")
	if tier == "" {
		tier = "quick"
	}
	if err := os.MkdirAll(out, 0o755); err != nil {
		t.Fatal(err)
	}
	return verifEnv{out: out, seed: seed, tier: tier, replay: os.Getenv("VERIF_REPLAY")}
}

func (e verifEnv) thorough() bool { return e.tier == "thorough" }

// ---- output: cases files for coqc, cases.jsonl for replay, stats.json -------

type directViolation struct {
	Id   int         `json:"id"`
	What string      `json:"what"`
	Case interface{} `json:"case"`
}

type verifStats struct {
	Evaluations        int                `json:"evaluations"`
	DistinctNontrivial int                `json:"distinct_nontrivial"`
	Rule               string             `json:"rule"`
	Samples            []interface{}      `json:"samples"`
	Histogram          map[string]int     `json:"histogram"`
	DirectViolations   []directViolation  `json:"direct_violations"`
	Notes              []string           `json:"notes"`
	Extra              map[string]float64 `json:"extra,omitempty"`
}

type caseSink struct {
	env       verifEnv
	prop      string
	runModule string // e.g. "corr.Run_C17"
	shardSize int
	shard     int
	cur       []string
	jsonl     *os.File
	stats     verifStats
	distinct  map[string]bool
	preamble  string
}

func newCaseSink(t *testing.T, env verifEnv, prop, runModule string, shardSize int) *caseSink {
	f, err := os.Create(filepath.Join(env.out, "cases.jsonl"))
	if err != nil {
		t.Fatal(err)
	}
	// remove stale shards
	old, _ := filepath.Glob(filepath.Join(env.out, "cases_*.v"))
	for _, o := range old {
		os.Remove(o)
	}
	return &caseSink{env: env, prop: prop, runModule: runModule, shardSize: shardSize, jsonl: f,
		stats: verifStats{Histogram: map[string]int{}}, distinct: map[string]bool{}}
}

// add records one executed case: coqTerm is the Coq term of type `case`,
// js the JSON form (for replay), nontrivial/key feed the evidence counters.
func (s *caseSink) add(coqTerm string, js interface{}, nontrivial bool, key string) {
	s.cur = append(s.cur, coqTerm)
	b, _ := json.Marshal(js)
	s.jsonl.Write(append(b, '\n'))
	s.stats.Evaluations++
	if nontrivial && !s.distinct[key] {
		s.distinct[key] = true
		s.stats.DistinctNontrivial++
	}
	if len(s.stats.Samples) < 3 {
		s.stats.Samples = append(s.stats.Samples, js)
	}
	if len(s.cur) >= s.shardSize {
		s.flush()
	}
}

func (s *caseSink) count(key string) { s.stats.Histogram[key]++ }

func (s *caseSink) flush() {
	if len(s.cur) == 0 {
		return
	}
	var b strings.Builder
	fmt.Fprintf(&b, "From Coq Require Import List ZArith NArith String.\nFrom Verif Require Import %s.\nImport ListNotations.\nOpen Scope Z_scope.\n", s.runModule)
	b.WriteString(s.preamble)
	b.WriteString("Definition cases : list case := [\n")
	b.WriteString(strings.Join(s.cur, ";\n"))
	b.WriteString("\n].\nDefinition result := Eval vm_compute in judge_all cases.\nPrint result.\n")
	name := filepath.Join(s.env.out, fmt.Sprintf("cases_%03d.v", s.shard))
	os.WriteFile(name, []byte(b.String()), 0o644)
	s.shard++
	s.cur = nil
}

// extraFile writes an additional .v file evaluated by the driver (its
// `result` must print as the empty list as well).
func (s *caseSink) extraFile(name, content string) {
	os.WriteFile(filepath.Join(s.env.out, "cases_x_"+name+".v"), []byte(content), 0o644)
}

func (s *caseSink) violation(id int, what string, c interface{}) {
	s.stats.DirectViolations = append(s.stats.DirectViolations, directViolation{Id: id, What: what, Case: c})
}

func (s *caseSink) close(rule string) {
	s.flush()
	s.jsonl.Close()
	s.stats.Rule = rule
	b, _ := json.MarshalIndent(s.stats, "", " ")
	os.WriteFile(filepath.Join(s.env.out, "stats.json"), b, 0o644)
}

// ---- small Coq printers ------------------------------------------------------

func coqZ(v int64) string {
	if v < 0 {
		return fmt.Sprintf("(%d)", v)
	}
	return strconv.FormatInt(v, 10)
}

func coqBool(b bool) string {
	if b {
		return "true"
	}
	return "false"
}

func coqList(items []string) string { return "[" + strings.Join(items, "; ") + "]" }

func coqStr(s string) string {
	var b strings.Builder
	b.WriteByte('"')
	for _, c := range []byte(s) {
		if c == '"' {
			b.WriteString(`""`)
		} else {
			b.WriteByte(c)
		}
	}
	b.WriteString(`"%string`)
	return b.String()
}

func sortedKeys(m map[string]int) []string {
	var ks []string
	for k := range m {
		ks = append(ks, k)
	}
	sort.Strings(ks)
	return ks
}

// readReplay loads the cases of a replay file: {"property": "...", "cases": [ ... ]}.
func readReplay(t *testing.T, path string, into interface{}) {
	data, err := os.ReadFile(path)
	if err != nil {
		t.Fatal(err)
	}
	var doc struct {
		Cases json.RawMessage `json:"cases"`
	}
	if err := json.Unmarshal(data, &doc); err != nil {
		t.Fatal(err)
	}
	if err := json.Unmarshal(doc.Cases, into); err != nil {
		t.Fatal(err)
	}
}
