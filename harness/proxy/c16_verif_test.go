//go:build verif

// C16 on the media proxy: its own copy of allowStatsAccess / validateStatsRequest
// in front of /stats and /metrics, and GetRealUserIP with the proxy's trusted
// proxies.  Judged by the same Coq module as the signaling server's harness
// (corr.Run_C16), endpoints 3 (/stats) and 4 (/metrics).
//
// This file is self-contained (all helper names carry the prefix c16p) so that
// it cannot clash with the shared helpers of other properties in this package.
package main

import (
	"bufio"
	"crypto/rand"
	"crypto/rsa"
	"crypto/x509"
	"encoding/json"
	"encoding/pem"
	"fmt"
	"io"
	"log"
	"math/big"
	"net"
	"net/http"
	"net/http/httptest"
	"os"
	"path/filepath"
	"sort"
	"strconv"
	"strings"
	"sync"
	"testing"
	"time"

	"github.com/dlintw/goconf"
	"github.com/gorilla/mux"

	signaling "github.com/strukturag/nextcloud-spreed-signaling"
)

type c16pRng struct{ s uint64 }

func c16pNewRng(seed int64, stream uint64) *c16pRng {
	r := &c16pRng{s: uint64(seed)*0x9E3779B97F4A7C15 + stream*0xD1B54A32D192ED03 + 0x7654321}
	r.next()
	return r
}

func (r *c16pRng) next() uint64 {
	r.s += 0x9E3779B97F4A7C15
	z := r.s
	z = (z ^ (z >> 30)) * 0xBF58476D1CE4E5B9
	z = (z ^ (z >> 27)) * 0x94D049BB133111EB
	return z ^ (z >> 31)
}

func (r *c16pRng) intn(n int) int {
	if n <= 0 {
		return 0
	}
	return int(r.next() % uint64(n))
}

func (r *c16pRng) chance(p int) bool { return r.intn(100) < p }

func c16pPick[T any](r *c16pRng, l []T) T { return l[r.intn(len(l))] }

type c16pOp struct {
	K        string   `json:"k"` // realip | stats | socket
	Trusted  string   `json:"trusted"`
	Allow    string   `json:"allow,omitempty"`
	Endpoint int      `json:"endpoint,omitempty"` // 3 /stats, 4 /metrics
	Peer     string   `json:"peer,omitempty"`
	XR       []string `json:"xr,omitempty"`
	XFF      []string `json:"xff,omitempty"`
	// hist: a proxy started with Hist[0] and reloaded (ProxyServer.Reload) with Hist[1:] in turn;
	// the request is made after the last reload.  The op carries its whole history.
	Hist []c16pConf `json:"hist,omitempty"`
}

// the two options of a configuration file: absent (nil) or present with a text
type c16pConf struct {
	Trusted *string `json:"t,omitempty"` // [app] trustedproxies
	Allow   *string `json:"a,omitempty"` // [stats] allowed_ips
}

func c16pOptText(o *string) string {
	if o == nil {
		return ""
	}
	return *o
}

func c16pOptEq(a, b *string) bool { return (a == nil) == (b == nil) && c16pOptText(a) == c16pOptText(b) }

func c16pCoqOpt(o *string) string {
	if o == nil {
		return "None"
	}
	return "(Some " + c16pCoqStr(*o) + ")"
}

func c16pSetOption(config *goconf.ConfigFile, section, option string, v *string) {
	config.RemoveOption(section, option)
	if v != nil {
		config.AddOption(section, option, *v)
	}
}

// the proxy of the history ops
type c16pHist struct {
	t        *testing.T
	tokenOpt [2]string // the [tokens] entry every configuration file of a proxy needs
	proxy    *ProxyServer
	handler  http.Handler
	config   *goconf.ConfigFile
	applied  []c16pConf
	starts   int
	reloads  int
}

// server: a proxy that has gone through exactly this history; the proxy of the previous op is
// used again when its history is a prefix of the wanted one
func (h *c16pHist) server(hist []c16pConf) http.Handler {
	reuse := h.proxy != nil && len(h.applied) <= len(hist)
	if reuse {
		for i, c := range h.applied {
			if !c16pOptEq(c.Trusted, hist[i].Trusted) || !c16pOptEq(c.Allow, hist[i].Allow) {
				reuse = false
				break
			}
		}
	}
	if !reuse {
		if h.proxy != nil {
			h.proxy.Stop()
		}
		config := goconf.NewConfigFile()
		config.AddOption("tokens", h.tokenOpt[0], h.tokenOpt[1])
		c16pSetOption(config, "app", "trustedproxies", hist[0].Trusted)
		c16pSetOption(config, "stats", "allowed_ips", hist[0].Allow)
		r := mux.NewRouter()
		proxy, err := NewProxyServer(r, "0.0", config)
		if err != nil {
			h.t.Fatalf("NewProxyServer: %v", err)
		}
		proxy.mcu = &TestMCU{t: h.t}
		h.t.Cleanup(proxy.Stop)
		h.proxy, h.handler, h.config = proxy, r, config
		h.applied = []c16pConf{hist[0]}
		h.starts++
	}
	for _, c := range hist[len(h.applied):] {
		c16pSetOption(h.config, "app", "trustedproxies", c.Trusted)
		c16pSetOption(h.config, "stats", "allowed_ips", c.Allow)
		h.proxy.Reload(h.config) // proxy/main.go on SIGHUP
		h.applied = append(h.applied, c)
		h.reloads++
	}
	return h.handler
}

func c16pGenConfText(r *c16pRng, pool []string, allowRefused bool) *string {
	var v string
	switch k := r.intn(100); {
	case k < 30:
		return nil
	case k < 40:
		v = c16pPick(r, []string{"", "", " ", ",", " , "})
	case k < 48 && allowRefused:
		v = c16pPick(r, []string{"10.0.0.1/33", "nonsense", "10.0.0.1, nonsense", "fe80::1%eth0", "[::1]", "1.2.3.4:80"})
	default:
		v = c16pPick(r, pool)
	}
	return &v
}

func c16pGenHist(r *c16pRng, id int, sink *c16pSink) *c16pCase {
	c := &c16pCase{Id: id}
	nreload := c16pPick(r, []int{1, 1, 2, 2, 3, 4})
	var hist []c16pConf
	for i := 0; i <= nreload; i++ {
		hist = append(hist, c16pConf{Trusted: c16pGenConfText(r, c16pTrusted, i > 0), Allow: c16pGenConfText(r, c16pAllow, i > 0)})
	}
	if r.chance(50) {
		// something was configured and the option is then taken out
		i := 1 + r.intn(nreload)
		if r.chance(70) {
			if strings.TrimSpace(c16pOptText(hist[i-1].Allow)) == "" {
				v := c16pPick(r, c16pAllow[2:])
				hist[i-1].Allow = &v
			}
			hist[i].Allow = nil
		} else {
			if strings.TrimSpace(c16pOptText(hist[i-1].Trusted)) == "" {
				v := c16pPick(r, c16pTrusted[2:])
				hist[i-1].Trusted = &v
			}
			hist[i].Trusted = nil
		}
	}
	nops := 2 + r.intn(3)
	for i := 0; i < nops; i++ {
		upto := len(hist)
		if i < nops-2 {
			upto = 1 + r.intn(len(hist))
		}
		w := &c16pWorld{r: r, sink: sink, trusted: c16pParse("", "127.0.0.0/8,10.0.0.0/8,172.16.0.0/12,192.168.0.0/16"), allow: c16pParse("", "127.0.0.1")}
		for _, cf := range hist[:upto] {
			if t := c16pOptText(cf.Trusted); strings.TrimSpace(t) != "" {
				w.trusted = append(w.trusted, c16pParse(t, "127.0.0.1")...)
			}
			if a := c16pOptText(cf.Allow); strings.TrimSpace(a) != "" {
				w.allow = append(w.allow, c16pParse(a, "127.0.0.1")...)
			}
		}
		o := c16pOp{K: "hist", Hist: append([]c16pConf(nil), hist[:upto]...), Endpoint: 3 + r.intn(2)}
		if r.chance(45) {
			text := c16pAddrIn(r, c16pPick(r, w.allow)).String()
			if strings.Contains(text, ":") {
				text = "[" + text + "]"
			}
			o.Peer = fmt.Sprintf("%s:%d", text, 1+r.intn(65535))
		} else {
			o.Peer = w.peer()
			if r.chance(70) {
				o.XR = append(o.XR, w.addr("xreal", 34))
			}
			if r.chance(40) {
				o.XFF = append(o.XFF, w.hop()+", "+w.hop())
			}
		}
		c.Ops = append(c.Ops, o)
	}
	sink.count("case_history")
	return c
}

type c16pCase struct {
	Id   int      `json:"id"`
	Ops  []c16pOp `json:"ops"`
	Outs []string `json:"outs,omitempty"`
}

func c16pPlain(s string) bool {
	for i := 0; i < len(s); i++ {
		if s[i] < 0x20 || s[i] > 0x7e {
			return false
		}
	}
	return true
}

func c16pCoqStr(s string) string {
	if c16pPlain(s) {
		return `"` + strings.ReplaceAll(s, `"`, `""`) + `"`
	}
	var parts []string
	for i := 0; i < len(s); i++ {
		parts = append(parts, fmt.Sprint(int(s[i])))
	}
	return "(bytes [" + strings.Join(parts, ";") + "])"
}

func c16pCoqList(items []string) string { return "[" + strings.Join(items, "; ") + "]" }

func c16pCoqStrs(l []string) string {
	var items []string
	for _, s := range l {
		items = append(items, c16pCoqStr(s))
	}
	return c16pCoqList(items)
}

func c16pCoqIp(ip net.IP) string {
	if v4 := ip.To4(); v4 != nil {
		return fmt.Sprintf("(V4 0x%s)", new(big.Int).SetBytes(v4).Text(16))
	}
	return fmt.Sprintf("(V6 0x%s)", new(big.Int).SetBytes(ip.To16()).Text(16))
}

type c16pTables struct {
	parse map[string]net.IP
	split map[string]string
	cidr  map[string]*net.IPNet
}

// what the library says about the entries of a configuration text: net.ParseCIDR for
// entries with a "/", net.ParseIP for the others (splitting and trimming are the model's)
func (tb *c16pTables) seeConfig(cfg string) {
	for _, e := range strings.Split(cfg, ",") {
		for _, t := range []string{e, strings.TrimSpace(e)} {
			if strings.Contains(t, "/") {
				if _, n, err := net.ParseCIDR(t); err == nil {
					tb.cidr[t] = n
				}
			} else {
				tb.see(t)
			}
		}
	}
}

// a *net.IPNet as (base, prefix length), following networkNumberAndMask
func c16pCoqNet(n *net.IPNet) string {
	mask := n.Mask
	if v4 := n.IP.To4(); v4 != nil {
		if len(mask) == 16 {
			mask = mask[12:]
		}
		ones, _ := mask.Size()
		return fmt.Sprintf("n4 0x%s %d", new(big.Int).SetBytes(v4).Text(16), ones)
	}
	ones, _ := mask.Size()
	return fmt.Sprintf("n6 0x%s %d", new(big.Int).SetBytes(n.IP.To16()).Text(16), ones)
}

func (tb *c16pTables) coqCidr() string {
	var ks []string
	for k := range tb.cidr {
		ks = append(ks, k)
	}
	sort.Strings(ks)
	var items []string
	for _, k := range ks {
		items = append(items, fmt.Sprintf("(%s, %s)", c16pCoqStr(k), c16pCoqNet(tb.cidr[k])))
	}
	return c16pCoqList(items)
}

func (tb *c16pTables) see(s string) {
	if ip := net.ParseIP(s); len(ip) > 0 {
		tb.parse[s] = ip
	}
	if host, _, err := net.SplitHostPort(s); err == nil {
		tb.split[s] = host
		if ip := net.ParseIP(host); len(ip) > 0 {
			tb.parse[host] = ip
		}
	}
}

func (tb *c16pTables) seeRequest(peer string, xr, xff []string) {
	tb.see("")
	tb.see(peer)
	for _, v := range xr {
		tb.see(v)
	}
	for _, hop := range strings.Split(strings.Join(xff, ","), ",") {
		tb.see(hop)
		tb.see(strings.TrimSpace(hop))
	}
}

func (tb *c16pTables) coq() (string, string) {
	var pk, sk []string
	for k := range tb.parse {
		pk = append(pk, k)
	}
	for k := range tb.split {
		sk = append(sk, k)
	}
	sort.Strings(pk)
	sort.Strings(sk)
	var p, s []string
	for _, k := range pk {
		p = append(p, fmt.Sprintf("(%s, %s)", c16pCoqStr(k), c16pCoqIp(tb.parse[k])))
	}
	for _, k := range sk {
		s = append(s, fmt.Sprintf("(%s, %s)", c16pCoqStr(k), c16pCoqStr(tb.split[k])))
	}
	return c16pCoqList(p), c16pCoqList(s)
}

// ---- output in the format the driver expects --------------------------------------

type c16pSink struct {
	out       string
	shard     int
	cur       []string
	jsonl     *os.File
	evals     int
	distinct  map[string]bool
	nontriv   int
	histogram map[string]int
	samples   []interface{}
}

func (s *c16pSink) count(k string) { s.histogram[k]++ }

func (s *c16pSink) add(term string, js interface{}, nontrivial bool) {
	s.cur = append(s.cur, term)
	b, _ := json.Marshal(js)
	s.jsonl.Write(append(b, '\n'))
	s.evals++
	if nontrivial && !s.distinct[term] {
		s.distinct[term] = true
		s.nontriv++
	}
	if len(s.samples) < 3 {
		s.samples = append(s.samples, js)
	}
	if len(s.cur) >= 80 {
		s.flush()
	}
}

func (s *c16pSink) flush() {
	if len(s.cur) == 0 {
		return
	}
	var b strings.Builder
	b.WriteString("From Coq Require Import List ZArith NArith String.\nFrom Verif Require Import corr.Run_C16.\nImport ListNotations.\n")
	b.WriteString("Open Scope string_scope.\nOpen Scope N_scope.\nDefinition n4 (a l : N) : net := (V4 a, l).\nDefinition n6 (a l : N) : net := (V6 a, l).\n")
	b.WriteString("Definition cases : list case := [\n")
	b.WriteString(strings.Join(s.cur, ";\n"))
	b.WriteString("\n].\nDefinition result := Eval vm_compute in judge_all cases.\nPrint result.\n")
	os.WriteFile(filepath.Join(s.out, fmt.Sprintf("cases_%03d.v", s.shard)), []byte(b.String()), 0o644)
	s.shard++
	s.cur = nil
}

func (s *c16pSink) close(rule string) {
	s.flush()
	s.jsonl.Close()
	stats := map[string]interface{}{
		"evaluations": s.evals, "distinct_nontrivial": s.nontriv, "rule": rule, "samples": s.samples,
		"histogram": s.histogram, "direct_violations": []interface{}{}, "notes": []string{},
	}
	b, _ := json.MarshalIndent(stats, "", " ")
	os.WriteFile(filepath.Join(s.out, "stats.json"), b, 0o644)
}

// ---- the proxy under test ------------------------------------------------------------

type c16pServer struct {
	proxy   *ProxyServer
	handler http.Handler
	front   *httptest.Server
	cfgKey  string
	mu      sync.Mutex
	seen    bool
	sPeer   string
	sXR     []string
	sXFF    []string
}

// the real reload path of the proxy for app.trustedproxies and stats.allowed_ips
func (s *c16pServer) configure(trusted, allow string) {
	key := trusted + "\x00" + allow
	if key == s.cfgKey {
		return
	}
	config := goconf.NewConfigFile()
	if trusted != "" {
		config.AddOption("app", "trustedproxies", trusted)
	}
	if allow != "" {
		config.AddOption("stats", "allowed_ips", allow)
	}
	s.proxy.Reload(config)
	s.cfgKey = key
}

var c16pPaths = map[int]string{3: "/stats", 4: "/metrics"}

var (
	c16pRealKeys = []string{"X-Real-IP", "X-Real-Ip", "x-real-ip", "X-REAL-IP"}
	c16pFwdKeys  = []string{"X-Forwarded-For", "x-forwarded-for", "X-FORWARDED-FOR", "X-forwarded-FOR"}
)

func c16pHeader(xr, xff []string) http.Header {
	h := http.Header{}
	h.Add("Forwarded", "for=127.0.0.1")
	h.Add("X-Real-Ip2", "127.0.0.1")
	n := len(xr)
	if len(xff) > n {
		n = len(xff)
	}
	for i := 0; i < n; i++ {
		if i < len(xff) {
			h.Add(c16pFwdKeys[(i+len(xff[i]))%len(c16pFwdKeys)], xff[i])
		}
		if i < len(xr) {
			h.Add(c16pRealKeys[(i+len(xr[i]))%len(c16pRealKeys)], xr[i])
		}
	}
	return h
}

func c16pSocket(s *c16pServer, path string, o c16pOp) (int, bool) {
	s.mu.Lock()
	s.seen = false
	s.mu.Unlock()
	conn, err := net.DialTimeout("tcp", s.front.Listener.Addr().String(), 5*time.Second)
	if err != nil {
		return 0, false
	}
	defer conn.Close()
	conn.SetDeadline(time.Now().Add(10 * time.Second))
	var b strings.Builder
	fmt.Fprintf(&b, "GET %s HTTP/1.1\r\nHost: verif\r\nConnection: close\r\n", path)
	for i, v := range o.XFF {
		fmt.Fprintf(&b, "%s: %s\r\n", c16pFwdKeys[(i+len(v))%len(c16pFwdKeys)], v)
	}
	for i, v := range o.XR {
		fmt.Fprintf(&b, "%s:%s\r\n", c16pRealKeys[(i+len(v))%len(c16pRealKeys)], v)
	}
	b.WriteString("\r\n")
	if _, err := io.WriteString(conn, b.String()); err != nil {
		return 0, false
	}
	resp, err := http.ReadResponse(bufio.NewReader(conn), nil)
	if err != nil {
		return 0, false
	}
	io.Copy(io.Discard, resp.Body)
	resp.Body.Close()
	s.mu.Lock()
	seen := s.seen
	s.mu.Unlock()
	return resp.StatusCode, seen
}

// ---- generator ----------------------------------------------------------------------------

var c16pTrusted = []string{"", "", "1.2.3.4", "192.168.0.0/16", "2001:db8::/32, 192.168.1.0/24", "0.0.0.0/0", "fd00::/8,10.1.0.0/16",
	"::ffff:10.0.0.0/104", "::1, 127.0.0.1", "10.1.2.3/8", "198.51.100.0/25,198.51.100.128/26", "2001:db8::1",
	"2001:db8:1234::5, 10.0.0.7", "fd00::1", "::ffff:10.0.0.7", "10.0.0.7/32, 2001:db8:0:1::5/128", "::/0, 0.0.0.0/0", "\t10.0.0.7 ,\u00a0fd00::1", "10.0.0.1/33", "10.0.0.1, nonsense"}
var c16pAllow = []string{"", "", "127.0.0.1, 192.168.0.1, 192.168.1.1/24", "0.0.0.0/0", "::/0", "8.8.8.8", "2001:db8::/32", "10.0.0.0/8,::1",
	"127.0.0.1, 2001:db8::100", "2001:db8:5::9", "::1", "::ffff:127.0.0.1", "fd00::1/128, 8.8.8.8/32", "2001:db8::/129"}
var c16pPublic = []string{"8.8.8.8", "1.1.1.1", "203.0.113.7", "198.51.100.77", "198.51.100.130", "172.32.0.1", "192.169.0.1", "11.0.0.1", "1.2.3.4", "6.6.6.6",
	"2001:db8::1", "2001:db9::1", "2002:db8::1", "fe80::1", "fd00::1", "::1", "2606:4700:4700::1111"}
var c16pJunk = []string{"", "unknown", "garbage", "1.2.3.4.5", "300.1.1.1", "01.2.3.4", "1.2.3.4:", ":80", "fe80::1%eth0", "[::1]:", "[2001:db8::1]", "[10.0.0.1]",
	"::ffff:7f00:1", "[::ffff:10.0.0.1]:443", "localhost", "127.1", "10.0.0.1/8"}
var c16pSpaces = []string{" ", " ", "  ", "\t", "\u00a0", "\u2003", "\u3000", "\u200b", "\u0085"}

func c16pAddrIn(r *c16pRng, n *net.IPNet) net.IP {
	base := n.IP
	mask := n.Mask
	ip := make(net.IP, len(base))
	for i := range base {
		ip[i] = (base[i] & mask[i]) | (byte(r.next()) &^ mask[i])
	}
	return ip
}

func c16pJustOutside(r *c16pRng, n *net.IPNet) net.IP {
	ip := c16pAddrIn(r, n)
	ones, _ := n.Mask.Size()
	if ones == 0 {
		return net.ParseIP("8.8.4.4")
	}
	bit := ones - 1
	if r.chance(50) {
		// any bit of the prefix, the bits below it free
		bit = r.intn(ones)
		for i := bit + 1; i < len(ip)*8; i++ {
			if r.chance(50) {
				ip[i/8] ^= 0x80 >> (i % 8)
			}
		}
	}
	ip[bit/8] ^= 0x80 >> (bit % 8)
	return ip
}

type c16pWorld struct {
	r       *c16pRng
	trusted []*net.IPNet
	allow   []*net.IPNet
	sink    *c16pSink
}

func (w *c16pWorld) addr(hint string, pTrusted int) string {
	r := w.r
	var ip net.IP
	k := r.intn(100)
	switch {
	case k < pTrusted && len(w.trusted) > 0:
		ip = c16pAddrIn(r, c16pPick(r, w.trusted))
		w.sink.count(hint + "_in_trusted_net")
	case k < pTrusted+10 && len(w.trusted) > 0:
		ip = c16pJustOutside(r, c16pPick(r, w.trusted))
		w.sink.count(hint + "_next_to_trusted_net")
	case k < pTrusted+24 && len(w.allow) > 0:
		ip = c16pAddrIn(r, c16pPick(r, w.allow))
		w.sink.count(hint + "_in_allowed_net")
	case k < pTrusted+30 && len(w.allow) > 0:
		ip = c16pJustOutside(r, c16pPick(r, w.allow))
		w.sink.count(hint + "_next_to_allowed_net")
	default:
		ip = net.ParseIP(c16pPick(r, c16pPublic))
		w.sink.count(hint + "_public")
	}
	if v4 := ip.To4(); v4 != nil {
		if r.chance(6) {
			return "::ffff:" + v4.String()
		}
		return v4.String()
	}
	if r.chance(10) {
		return strings.ToUpper(ip.String())
	}
	return ip.String()
}

func (w *c16pWorld) hop() string {
	r := w.r
	var s string
	if r.chance(18) {
		s = c16pPick(r, c16pJunk)
	} else {
		text := w.addr("hop", 34)
		switch k := r.intn(100); {
		case k < 65:
			s = text
		case k < 85:
			if strings.Contains(text, ":") {
				s = fmt.Sprintf("[%s]:%d", text, 1+r.intn(65535))
			} else {
				s = fmt.Sprintf("%s:%d", text, 1+r.intn(65535))
			}
		case k < 92:
			s = "[" + text + "]"
		default:
			s = text + "%eth0"
		}
	}
	if r.chance(30) {
		s = c16pPick(r, c16pSpaces) + s
	}
	if r.chance(12) {
		s += c16pPick(r, c16pSpaces)
	}
	return s
}

func (w *c16pWorld) peer() string {
	r := w.r
	if r.chance(7) {
		return c16pPick(r, []string{"", "@", "garbage", "[fe80::1%eth0]:1234", ":80", "[::1]", "10.0.0.1:80:90"})
	}
	text := w.addr("peer", 55)
	if r.chance(7) {
		return text
	}
	if strings.Contains(text, ":") {
		return fmt.Sprintf("[%s]:%d", text, 1+r.intn(65535))
	}
	return fmt.Sprintf("%s:%d", text, 1+r.intn(65535))
}

// The generator's own reading of a configuration text (deliberately not the server's
// ParseAllowedIps: the neighbours of an entry must not move with the server's reading).
func c16pParse(cfg string, def string) []*net.IPNet {
	var nets []*net.IPNet
	for _, e := range strings.Split(cfg, ",") {
		e = strings.TrimSpace(e)
		if e == "" {
			continue
		}
		if strings.Contains(e, "/") {
			if _, n, err := net.ParseCIDR(e); err == nil {
				if v4 := n.IP.To4(); v4 != nil && len(n.Mask) == 16 {
					n = &net.IPNet{IP: v4, Mask: n.Mask[12:]}
				}
				nets = append(nets, n)
			}
		} else if ip := net.ParseIP(e); ip != nil {
			if v4 := ip.To4(); v4 != nil {
				nets = append(nets, &net.IPNet{IP: v4, Mask: net.CIDRMask(32, 32)})
			} else {
				nets = append(nets, &net.IPNet{IP: ip, Mask: net.CIDRMask(128, 128)})
			}
		}
	}
	if len(nets) == 0 && def != "" {
		return c16pParse(def, "")
	}
	return nets
}

func c16pGen(r *c16pRng, id int, sink *c16pSink) *c16pCase {
	c := &c16pCase{Id: id}
	trusted := c16pPick(r, c16pTrusted)
	allow := c16pPick(r, c16pAllow)
	w := &c16pWorld{r: r, sink: sink, trusted: c16pParse(trusted, "127.0.0.0/8,10.0.0.0/8,172.16.0.0/12,192.168.0.0/16"), allow: c16pParse(allow, "127.0.0.1")}
	for i := 1 + r.intn(4); i > 0; i-- {
		o := c16pOp{Trusted: trusted, Allow: allow}
		switch k := r.intn(100); {
		case k < 25:
			o.K = "realip"
			o.Allow = ""
		case k < 92:
			o.K = "stats"
			o.Endpoint = 3 + r.intn(2)
		default:
			o.K = "socket"
			o.Endpoint = 3 + r.intn(2)
		}
		o.Peer = w.peer()
		for j := c16pPick(r, []int{0, 0, 0, 1, 1, 1, 2, 3}); j > 0; j-- {
			switch k := r.intn(100); {
			case k < 65:
				o.XR = append(o.XR, w.addr("xreal", 34))
			case k < 80:
				o.XR = append(o.XR, w.hop())
			case k < 88:
				o.XR = append(o.XR, "")
			default:
				o.XR = append(o.XR, c16pPick(r, c16pJunk))
			}
		}
		for j := c16pPick(r, []int{0, 1, 1, 1, 2, 2, 3}); j > 0; j-- {
			var hops []string
			for k := c16pPick(r, []int{0, 1, 1, 2, 2, 3, 3, 4, 5}); k > 0; k-- {
				hops = append(hops, w.hop())
			}
			o.XFF = append(o.XFF, strings.Join(hops, c16pPick(r, []string{", ", ", ", ",", " , "})))
		}
		c.Ops = append(c.Ops, o)
	}
	return c
}

func c16pDirected() []*c16pCase {
	var cs []*c16pCase
	for ep := 3; ep <= 4; ep++ {
		cs = append(cs, &c16pCase{Ops: []c16pOp{
			{K: "stats", Endpoint: ep, Peer: "8.8.8.8:4711", XR: []string{"127.0.0.1"}, XFF: []string{"127.0.0.1"}},
			{K: "stats", Endpoint: ep, Peer: "127.0.0.1:4711"},
			{K: "stats", Endpoint: ep, Peer: "127.0.0.1:4711", XFF: []string{"8.8.8.8"}},
			{K: "stats", Endpoint: ep, Peer: "10.0.0.5:80", XFF: []string{"127.0.0.1, 8.8.8.8"}},
			{K: "stats", Endpoint: ep, Peer: "10.0.0.5:80", XFF: []string{"127.0.0.1, 192.168.1.50"}},
			{K: "stats", Endpoint: ep, Trusted: "1.2.3.4", Allow: "127.0.0.1, 192.168.0.1, 192.168.1.1/24", Peer: "1.2.3.4:12345", XR: []string{"192.168.1.100"}},
			{K: "stats", Endpoint: ep, Trusted: "1.2.3.4", Allow: "127.0.0.1, 192.168.0.1, 192.168.1.1/24", Peer: "1.2.3.5:12345", XR: []string{"192.168.1.100"}},
			{K: "socket", Endpoint: ep, XFF: []string{"8.8.8.8"}},
			{K: "socket", Endpoint: ep},
		}})
	}
	// configuration histories: one change of the allow-list after start (removed, emptied, changed,
	// refused, added), and a trusted proxy that is taken out again
	o := func(v string) *string { return &v }
	var none *string
	for _, tr := range [][2]*string{{o("127.0.0.1, 10.9.9.9"), none}, {o("10.9.9.9"), none}, {o("10.9.9.9"), o("")}, {o("10.9.9.9"), o("10.1.2.3")},
		{o("10.9.9.9"), o("10.1.2.3/33")}, {none, o("10.9.9.9")}, {none, none}} {
		h := []c16pConf{{Allow: tr[0]}, {Allow: tr[1]}}
		cs = append(cs, &c16pCase{Ops: []c16pOp{
			{K: "hist", Hist: h, Endpoint: 3, Peer: "10.9.9.9:12345"}, {K: "hist", Hist: h, Endpoint: 4, Peer: "127.0.0.1:12345"},
			{K: "hist", Hist: h, Endpoint: 3, Peer: "10.1.2.3:12345"}, {K: "hist", Hist: h[:1], Endpoint: 4, Peer: "10.9.9.9:12345"}}})
	}
	h3 := []c16pConf{{Trusted: o("8.8.8.8")}, {}, {Trusted: o("1.2.3.4/31")}, {Trusted: o("1.2.3.4/33")}, {Trusted: o(" ")}}
	var hops []c16pOp
	for n := 1; n <= len(h3); n++ {
		for _, peer := range []string{"8.8.8.8:7", "10.0.0.5:80", "1.2.3.5:9"} {
			hops = append(hops, c16pOp{K: "hist", Hist: h3[:n], Endpoint: 3 + n%2, Peer: peer, XR: []string{"127.0.0.1"}})
		}
	}
	cs = append(cs, &c16pCase{Ops: hops})
	return cs
}

// a public key file for the [tokens] section of the history proxies
func c16pWritePubKey(t *testing.T) string {
	key, err := rsa.GenerateKey(rand.Reader, KeypairSizeForTest)
	if err != nil {
		t.Fatal(err)
	}
	pubData, err := x509.MarshalPKIXPublicKey(&key.PublicKey)
	if err != nil {
		t.Fatal(err)
	}
	f, err := os.CreateTemp(t.TempDir(), "pubkey*.pem")
	if err != nil {
		t.Fatal(err)
	}
	defer f.Close()
	if err := pem.Encode(f, &pem.Block{Type: "RSA PUBLIC KEY", Bytes: pubData}); err != nil {
		t.Fatal(err)
	}
	return f.Name()
}

func TestVerifC16Proxy(t *testing.T) {
	out := os.Getenv("VERIF_OUT")
	if out == "" {
		t.Skip("VERIF_OUT not set: harness scenarios run only from /verif/check")
	}
	seed, _ := strconv.ParseInt(os.Getenv("VERIF_SEED"), 10, 64)
	thorough := os.Getenv("VERIF_TIER") == "thorough"
	replay := os.Getenv("VERIF_REPLAY")
	if err := os.MkdirAll(out, 0o755); err != nil {
		t.Fatal(err)
	}
	old, _ := filepath.Glob(filepath.Join(out, "cases_*.v"))
	for _, o := range old {
		os.Remove(o)
	}
	jf, err := os.Create(filepath.Join(out, "cases.jsonl"))
	if err != nil {
		t.Fatal(err)
	}
	sink := &c16pSink{out: out, jsonl: jf, distinct: map[string]bool{}, histogram: map[string]int{}}

	prevOut, prevFlags := log.Writer(), log.Flags()
	log.SetOutput(io.Discard)
	defer func() { log.SetOutput(prevOut); log.SetFlags(prevFlags) }()

	proxy, _, server := newProxyServerForTest(t)
	proxy.mcu = &TestMCU{t: t}
	s := &c16pServer{proxy: proxy, handler: server.Config.Handler, cfgKey: "\x00unset"}
	s.front = httptest.NewServer(http.HandlerFunc(func(w http.ResponseWriter, req *http.Request) {
		s.mu.Lock()
		s.seen = true
		s.sPeer = req.RemoteAddr
		s.sXR = append([]string(nil), req.Header.Values("X-Real-Ip")...)
		s.sXFF = append([]string(nil), req.Header.Values("X-Forwarded-For")...)
		s.mu.Unlock()
		s.handler.ServeHTTP(w, req)
	}))
	t.Cleanup(s.front.Close)
	hist := &c16pHist{t: t, tokenOpt: [2]string{TokenIdForTest, c16pWritePubKey(t)}}

	var cases []*c16pCase
	if replay != "" {
		data, err := os.ReadFile(replay)
		if err != nil {
			t.Fatal(err)
		}
		var doc struct {
			Cases []c16pCase `json:"cases"`
		}
		if err := json.Unmarshal(data, &doc); err != nil {
			t.Fatal(err)
		}
		for i := range doc.Cases {
			cases = append(cases, &doc.Cases[i])
		}
	} else {
		for i, c := range c16pDirected() {
			c.Id = i
			cases = append(cases, c)
		}
		n := 600
		if thorough {
			n = 8000
		}
		base := len(cases)
		for i := 0; i < n; i++ {
			cases = append(cases, c16pGen(c16pNewRng(seed, uint64(i)), base+i, sink))
		}
		base = len(cases)
		for i := 0; i < n/10; i++ {
			cases = append(cases, c16pGenHist(c16pNewRng(seed, uint64(1000000+i)), base+i, sink))
		}
	}

	for _, c := range cases {
		tb := &c16pTables{parse: map[string]net.IP{}, split: map[string]string{}, cidr: map[string]*net.IPNet{}}
		tb.see("")
		var trace, outs []string
		nontrivial := false
		for _, o := range c.Ops {
			if o.K == "hist" {
				if len(o.Hist) == 0 {
					continue
				}
				for _, cf := range o.Hist {
					tb.seeConfig(c16pOptText(cf.Trusted))
					tb.seeConfig(c16pOptText(cf.Allow))
				}
				// a proxy cannot be started with a text that is refused
				refused := false
				for _, cfg := range []string{c16pOptText(o.Hist[0].Trusted), c16pOptText(o.Hist[0].Allow)} {
					if _, err := signaling.ParseAllowedIps(cfg); err != nil && !refused {
						sink.count("config_rejected")
						trace = append(trace, fmt.Sprintf("(OCfgParse %s, VReject)", c16pCoqStr(cfg)))
						outs = append(outs, "rejected")
						refused = true
					}
				}
				if refused {
					continue
				}
				sink.count("op_hist")
				sink.count(fmt.Sprintf("hist_reloads_%d", len(o.Hist)-1))
				if last := o.Hist[len(o.Hist)-1]; len(o.Hist) > 1 && last.Allow == nil {
					sink.count("hist_last_reload_allow_removed")
				}
				handler := hist.server(o.Hist)
				ep := o.Endpoint
				if ep != 3 && ep != 4 {
					ep = 3
				}
				req := httptest.NewRequest("GET", c16pPaths[ep], nil)
				req.RemoteAddr = o.Peer
				req.Header = c16pHeader(o.XR, o.XFF)
				rec := httptest.NewRecorder()
				handler.ServeHTTP(rec, req)
				tb.seeRequest(o.Peer, o.XR, o.XFF)
				nontrivial = true
				var rl []string
				for _, cf := range o.Hist[1:] {
					rl = append(rl, fmt.Sprintf("(%s, %s)", c16pCoqOpt(cf.Trusted), c16pCoqOpt(cf.Allow)))
				}
				sink.count(fmt.Sprintf("hist_status_%d", rec.Code))
				trace = append(trace, fmt.Sprintf("(OHistStats %d (%s, %s) %s %s %s %s, VStatus %d)", ep, c16pCoqOpt(o.Hist[0].Trusted), c16pCoqOpt(o.Hist[0].Allow),
					c16pCoqList(rl), c16pCoqStr(o.Peer), c16pCoqStrs(o.XR), c16pCoqStrs(o.XFF), rec.Code))
				outs = append(outs, fmt.Sprintf("status:%d", rec.Code))
				continue
			}
			// configurations go to the model as the texts they are; one the real
			// ParseAllowedIps refuses becomes "this text is refused"
			tb.seeConfig(o.Trusted)
			tb.seeConfig(o.Allow)
			refused := false
			for _, cfg := range []string{o.Trusted, o.Allow} {
				if _, err := signaling.ParseAllowedIps(cfg); err != nil && !refused {
					sink.count("config_rejected")
					trace = append(trace, fmt.Sprintf("(OCfgParse %s, VReject)", c16pCoqStr(cfg)))
					outs = append(outs, "rejected")
					refused = true
				}
			}
			if refused {
				continue
			}
			sink.count("op_" + o.K)
			s.configure(o.Trusted, o.Allow)
			tcoq, acoq := c16pCoqStr(o.Trusted), c16pCoqStr(o.Allow)
			if len(o.XR)+len(o.XFF) > 0 {
				nontrivial = true
			}
			switch o.K {
			case "realip":
				req := &http.Request{RemoteAddr: o.Peer, Header: c16pHeader(o.XR, o.XFF)}
				res := signaling.GetRealUserIP(req, proxy.trustedProxies.Load())
				tb.seeRequest(o.Peer, o.XR, o.XFF)
				tb.see(res)
				trace = append(trace, fmt.Sprintf("(OCfgHub %s %s %s %s, VAddr %s)", tcoq, c16pCoqStr(o.Peer), c16pCoqStrs(o.XR), c16pCoqStrs(o.XFF), c16pCoqStr(res)))
				outs = append(outs, "addr:"+res)
			case "stats", "socket":
				ep := o.Endpoint
				if ep != 3 && ep != 4 {
					ep = 3
				}
				peer, xr, xff := o.Peer, o.XR, o.XFF
				status := 0
				if o.K == "stats" {
					req := httptest.NewRequest("GET", c16pPaths[ep], nil)
					req.RemoteAddr = peer
					req.Header = c16pHeader(xr, xff)
					rec := httptest.NewRecorder()
					s.handler.ServeHTTP(rec, req)
					status = rec.Code
				} else {
					var ok bool
					status, ok = c16pSocket(s, c16pPaths[ep], o)
					if !ok {
						sink.count("socket_request_not_delivered")
						continue
					}
					s.mu.Lock()
					peer, xr, xff = s.sPeer, s.sXR, s.sXFF
					s.mu.Unlock()
				}
				tb.seeRequest(peer, xr, xff)
				sink.count(fmt.Sprintf("status_%s_%d", c16pPaths[ep], status))
				trace = append(trace, fmt.Sprintf("(OCfgStats %d %s %s %s %s %s, VStatus %d)", ep, tcoq, acoq, c16pCoqStr(peer), c16pCoqStrs(xr), c16pCoqStrs(xff), status))
				outs = append(outs, fmt.Sprintf("status:%d", status))
			}
		}
		c.Outs = outs
		ptbl, stbl := tb.coq()
		sink.add(fmt.Sprintf("mkcase_cfg %d %s %s %s %s", c.Id, ptbl, stbl, tb.coqCidr(), c16pCoqList(trace)), c, nontrivial)
	}
	sink.close("seeded requests on the real proxy: /stats and /metrics through the proxy's router after ProxyServer.Reload with the case's trusted proxies and allow-list, and GetRealUserIP with the proxy's trusted proxies; non-trivial = forwarding headers present; distinct = distinct (inputs, outputs)")
}
