//go:build verif

package main

// C18: the real ProxyServer (websocket endpoint, token check, session and client
// tables, cleanup) driven by seeded scripts; a fake media server with gated
// completion of NewPublisher / NewSubscriber; RSA keys for two issuers.

import (
	"context"
	"crypto/ecdsa"
	"crypto/ed25519"
	"crypto/elliptic"
	"crypto/rand"
	"crypto/rsa"
	"crypto/x509"
	"encoding/base64"
	"encoding/json"
	"encoding/pem"
	"errors"
	"fmt"
	"io"
	"log"
	"net/http/httptest"
	"os"
	"path/filepath"
	"runtime"
	"sort"
	"strings"
	"sync"
	"sync/atomic"
	"testing"
	"time"

	"github.com/dlintw/goconf"
	"github.com/golang-jwt/jwt/v5"
	"github.com/gorilla/mux"
	"github.com/gorilla/websocket"
	signaling "github.com/strukturag/nextcloud-spreed-signaling"
)

// ---- keys -------------------------------------------------------------------

type c18KeySet struct {
	rsa     [3]*rsa.PrivateKey // 0, 1: configured for iss0, iss1; 2: not configured
	pubPem  [3][]byte
	pubFile [2]string
	ec      *ecdsa.PrivateKey
	ed      ed25519.PrivateKey
}

var c18Issuers = []string{"iss0", "iss1"}

func c18MakeKeys(t *testing.T, dir string) *c18KeySet {
	ks := &c18KeySet{}
	for i := range ks.rsa {
		k, err := rsa.GenerateKey(rand.Reader, 2048)
		if err != nil {
			t.Fatal(err)
		}
		ks.rsa[i] = k
		der, err := x509.MarshalPKIXPublicKey(&k.PublicKey)
		if err != nil {
			t.Fatal(err)
		}
		ks.pubPem[i] = pem.EncodeToMemory(&pem.Block{Type: "PUBLIC KEY", Bytes: der})
		if i < 2 {
			ks.pubFile[i] = filepath.Join(dir, fmt.Sprintf("pub%d.pem", i))
			if err := os.WriteFile(ks.pubFile[i], ks.pubPem[i], 0o644); err != nil {
				t.Fatal(err)
			}
		}
	}
	var err error
	if ks.ec, err = ecdsa.GenerateKey(elliptic.P256(), rand.Reader); err != nil {
		t.Fatal(err)
	}
	if _, ks.ed, err = ed25519.GenerateKey(rand.Reader); err != nil {
		t.Fatal(err)
	}
	return ks
}

// ---- fake media server ---------------------------------------------------------

const (
	c18Pub = 0
	c18Sub = 1
)

type c18Pending struct {
	tok     int
	kind    int
	creator uint64
	remote  bool        // NewRemotePublisher + NewRemoteSubscriber of one remote create-subscriber
	ch      chan string // "ok" | "fail" | "timeout"; remote only: "subfail" | "subtimeout" (publisher created, attaching fails)
}

type c18Obj struct {
	mcu     *c18Mcu
	num     int
	kind    int
	creator uint64
	closes  atomic.Int32
}

func (o *c18Obj) Id() string                       { return fmt.Sprintf("obj-%d", o.num) }
func (o *c18Obj) Sid() string                      { return fmt.Sprintf("sid-%d", o.num) }
func (o *c18Obj) StreamType() signaling.StreamType { return signaling.StreamTypeVideo }
func (o *c18Obj) MaxBitrate() int                  { return 0 }
func (o *c18Obj) Close(ctx context.Context) {
	o.closes.Add(1)
	o.mcu.mu.Lock()
	delete(o.mcu.open, o.num)
	o.mcu.mu.Unlock()
	o.mcu.touch()
}
func (o *c18Obj) SendMessage(ctx context.Context, message *signaling.MessageClientMessage, data *signaling.MessageClientMessageData, callback func(error, map[string]interface{})) {
	callback(nil, map[string]interface{}{"ok": true})
}

type c18Publisher struct{ c18Obj }

func (p *c18Publisher) HasMedia(signaling.MediaType) bool { return false }
func (p *c18Publisher) SetMedia(signaling.MediaType)      {}
func (p *c18Publisher) GetStreams(ctx context.Context) ([]signaling.PublisherStream, error) {
	return []signaling.PublisherStream{{Mid: "0", Type: "video"}}, nil
}
func (p *c18Publisher) PublishRemote(ctx context.Context, remoteId string, hostname string, port int, rtcpPort int) error {
	return errors.New("not supported")
}
func (p *c18Publisher) UnpublishRemote(ctx context.Context, remoteId string, hostname string, port int, rtcpPort int) error {
	return errors.New("not supported")
}

type c18Subscriber struct{ c18Obj }

func (s *c18Subscriber) Publisher() string { return "pub" }

type c18Numbered interface{ object() *c18Obj }

func (o *c18Obj) object() *c18Obj { return o }

type c18Mcu struct {
	TestMCU
	activity *atomic.Int64
	mu       sync.Mutex
	next     int
	pending  map[int]*c18Pending
	open     map[int]*c18Obj
	// every remote publisher ever handed out (NewRemotePublisher), by the number of its creation request
	rpubs map[int]*c18RemotePublisher
	// stress mode: complete successfully at the moment the request context is cancelled
	completeOnCancel bool
	cancelRes        string // stress mode, remote creations: "ok" | "subfail"
}

func newC18Mcu(activity *atomic.Int64) *c18Mcu {
	return &c18Mcu{activity: activity, pending: map[int]*c18Pending{}, open: map[int]*c18Obj{}, rpubs: map[int]*c18RemotePublisher{}, cancelRes: "ok"}
}

func (m *c18Mcu) touch() { m.activity.Add(1) }

// gate blocks until the harness decides what the media server answers
func (m *c18Mcu) gate(ctx context.Context, listener signaling.McuListener, kind int) (tok int, creator uint64, err error) {
	tok, creator, _, err = m.gateRes(ctx, listener, kind, false)
	return
}

func c18ResErr(res string) error {
	switch res {
	case "timeout", "subtimeout":
		return context.DeadlineExceeded
	}
	return errors.New("media server refused")
}

func (m *c18Mcu) gateRes(ctx context.Context, listener signaling.McuListener, kind int, remote bool) (tok int, creator uint64, res string, err error) {
	if s, ok := listener.(*ProxySession); ok {
		creator = s.Sid()
	}
	m.mu.Lock()
	p := &c18Pending{tok: m.next, kind: kind, creator: creator, remote: remote, ch: make(chan string, 1)}
	m.next++
	m.pending[p.tok] = p
	m.mu.Unlock()
	m.touch()
	if m.completeOnCancel {
		<-ctx.Done()
		res = "ok"
		if remote {
			res = m.cancelRes
		}
	} else {
		res = <-p.ch // the harness decides; the request context is deliberately not consulted
	}
	if !remote && (res == "subfail" || res == "subtimeout") {
		res = strings.TrimPrefix(res, "sub") // a local creation has one step only
	}
	if res == "ok" || (remote && (res == "subfail" || res == "subtimeout")) {
		return p.tok, creator, res, nil
	}
	err = c18ResErr(res)
	m.mu.Lock()
	delete(m.pending, p.tok)
	m.mu.Unlock()
	m.touch()
	return p.tok, creator, res, err
}

func (m *c18Mcu) opened(o *c18Obj) {
	m.mu.Lock()
	delete(m.pending, o.num)
	m.open[o.num] = o
	m.mu.Unlock()
	m.touch()
}

func (m *c18Mcu) NewPublisher(ctx context.Context, listener signaling.McuListener, id string, sid string, streamType signaling.StreamType, settings signaling.NewPublisherSettings, initiator signaling.McuInitiator) (signaling.McuPublisher, error) {
	tok, creator, err := m.gate(ctx, listener, c18Pub)
	if err != nil {
		return nil, err
	}
	p := &c18Publisher{}
	p.mcu, p.num, p.kind, p.creator = m, tok, c18Pub, creator
	m.opened(&p.c18Obj)
	return p, nil
}

func (m *c18Mcu) NewSubscriber(ctx context.Context, listener signaling.McuListener, publisher string, streamType signaling.StreamType, initiator signaling.McuInitiator) (signaling.McuSubscriber, error) {
	tok, creator, err := m.gate(ctx, listener, c18Sub)
	if err != nil {
		return nil, err
	}
	s := &c18Subscriber{}
	s.mcu, s.num, s.kind, s.creator = m, tok, c18Sub, creator
	m.opened(&s.c18Obj)
	return s, nil
}

// ---- remote subscribers (create-subscriber with remoteUrl + remoteToken) -----------
//
// Like mcuJanus: NewRemotePublisher hands out a reference-counted remote publisher
// (count 1 = the creator's reference), NewRemoteSubscriber takes a reference for the
// subscriber it attaches, the subscriber's Close gives that one back (once), and the
// publisher is closed at the media server when its count reaches 0.  One gate for the
// whole request: the harness's answer says how far it gets
// (ok | fail, timeout: NewRemotePublisher fails | subfail, subtimeout: NewRemoteSubscriber fails).
type c18RemotePublisher struct {
	c18Obj
	refcnt  atomic.Int32
	handed  int32 // references handed out in total
	subRes  string
	negative atomic.Int32 // Close calls that found the count at 0 already
}

func (p *c18RemotePublisher) Port() int     { return 10000 + p.num }
func (p *c18RemotePublisher) RtcpPort() int { return 20000 + p.num }
func (p *c18RemotePublisher) Close(ctx context.Context) {
	p.closes.Add(1)
	if n := p.refcnt.Add(-1); n < 0 {
		p.refcnt.Add(1)
		p.negative.Add(1)
	}
	p.mcu.touch()
}

type c18RemoteSubscriber struct {
	c18Subscriber
	remote atomic.Pointer[c18RemotePublisher]
}

func (s *c18RemoteSubscriber) Close(ctx context.Context) {
	s.c18Subscriber.Close(ctx)
	if r := s.remote.Swap(nil); r != nil {
		r.Close(context.Background())
	}
}

func (m *c18Mcu) NewRemotePublisher(ctx context.Context, listener signaling.McuListener, controller signaling.RemotePublisherController, streamType signaling.StreamType) (signaling.McuRemotePublisher, error) {
	tok, creator, res, err := m.gateRes(ctx, listener, c18Sub, true)
	if err != nil {
		return nil, err
	}
	p := &c18RemotePublisher{subRes: res, handed: 1}
	p.mcu, p.num, p.kind, p.creator = m, tok, c18Sub, creator
	p.refcnt.Store(1)
	m.mu.Lock()
	m.rpubs[tok] = p // the request stays pending until NewRemoteSubscriber has answered
	m.mu.Unlock()
	m.touch()
	return p, nil
}

func (m *c18Mcu) NewRemoteSubscriber(ctx context.Context, listener signaling.McuListener, publisher signaling.McuRemotePublisher) (signaling.McuRemoteSubscriber, error) {
	p, ok := publisher.(*c18RemotePublisher)
	if !ok {
		return nil, errors.New("not a remote publisher of this media server")
	}
	if p.subRes != "ok" {
		m.mu.Lock()
		delete(m.pending, p.num)
		m.mu.Unlock()
		m.touch()
		return nil, c18ResErr(p.subRes)
	}
	p.refcnt.Add(1)
	s := &c18RemoteSubscriber{}
	s.mcu, s.num, s.kind, s.creator = m, p.num, c18Sub, p.creator
	s.remote.Store(p)
	m.opened(&s.c18Obj)
	return s, nil
}

// ---- case description (replayable) -----------------------------------------------

type c18Tok struct {
	Alg    string `json:"alg"`           // method that produces the signature
	HdrAlg string `json:"hdr,omitempty"` // "alg" written into the header when different ("-" = no alg field)
	Iss    string `json:"iss"`           // issuer claim
	Key    int    `json:"key"`           // signing key: 0,1 configured, 2 foreign
	Iat    *int64 `json:"iat,omitempty"` // offsets to the current time in seconds
	Exp    *int64 `json:"exp,omitempty"`
	Nbf    *int64 `json:"nbf,omitempty"`
	Mut    string `json:"mut,omitempty"` // mutation applied to the finished token
	Pos    int    `json:"pos,omitempty"`
	Class  string `json:"class,omitempty"` // generator's label (statistics only)
}

type c18Op struct {
	K   string  `json:"k"`             // hello resume resumebad cmd payload bye unknown malformed drop expire mculost done
	C   int     `json:"c,omitempty"`   // connection
	Tok *c18Tok `json:"tok,omitempty"` // hello
	Sid int     `json:"sid,omitempty"` // resume, expire
	Cmd string  `json:"cmd,omitempty"` // create-pub create-sub delete-pub delete-sub streams other
	Id  int     `json:"id,omitempty"`  // object number (delete, streams, payload)
	P   string  `json:"p,omitempty"`   // payload: end fwd bad; malformed: json notype nobody
	T   int     `json:"t,omitempty"`   // done: token
	R   string  `json:"r,omitempty"`   // done: ok fail timeout; subfail subtimeout (remote: the publisher was created, attaching the subscriber fails; model: MFail / MTimeout)
	// create-sub: the remote form (remoteUrl + remoteToken: NewRemotePublisher, then NewRemoteSubscriber).
	// Model: CCreateSubRemote, which `step` treats like CCreateSub: on the code as it should be the remote form differs
	// from the local one in nothing the observation contains (the remote publisher lives exactly as long as its subscriber).
	Remote bool `json:"remote,omitempty"`
	// bye, expire: creations that complete while the close of the session is frozen in a window
	In []c18Slot `json:"in,omitempty"`
}

// c18Slot: creation T completes with R while ProxySession.Close is in window W:
//
//	"list"   removed from the sessions list, Close waits for the session's clientLock (model PhList)
//	"ctx"    context cancelled, Close waits for publishersLock in clearPublishers (PhCtx)
//	"subs"   publishers and subscribers cleared, Close waits for remotePublishersLock (PhSubs)
//	"remote" Close waits in proxy.DeleteSession for the write lock of the sessions list, a reader holds it (PhRemote)
type c18Slot struct {
	W string `json:"w"`
	T int    `json:"t"`
	R string `json:"r,omitempty"`
}

var c18Windows = []string{"list", "ctx", "subs", "remote"}
var c18WindowPhase = map[string]string{"list": "PhList", "ctx": "PhCtx", "subs": "PhSubs", "remote": "PhRemote"}
var c18ResTerm = map[string]string{"ok": "MOk", "fail": "MFail", "timeout": "MTimeout", "subfail": "MFail", "subtimeout": "MTimeout"}

func c18SlotsTerm(l []c18Slot) string {
	var s []string
	for _, x := range l {
		r := c18ResTerm[x.R]
		if r == "" {
			r = "MOk"
		}
		s = append(s, fmt.Sprintf("(%s, %d, %s)", c18WindowPhase[x.W], x.T, r))
	}
	return coqList(s)
}

type c18Case struct {
	Id      int      `json:"id"`
	Family  string   `json:"family,omitempty"`
	Finding string   `json:"finding,omitempty"`
	Ops     []c18Op  `json:"ops"`
	Outs    []string `json:"outs,omitempty"`
}

// ---- one run of a case against a fresh ProxyServer ---------------------------------

type c18Wire struct {
	Id    string `json:"id"`
	Type  string `json:"type"`
	Error *struct {
		Code string `json:"code"`
	} `json:"error"`
	Hello *struct {
		SessionId string `json:"sessionid"`
	} `json:"hello"`
	Bye *struct {
		Reason string `json:"reason"`
	} `json:"bye"`
	Command *struct {
		Id string `json:"id"`
	} `json:"command"`
	Payload *struct {
		Type     string `json:"type"`
		ClientId string `json:"clientId"`
	} `json:"payload"`
	Event *struct {
		Type string `json:"type"`
	} `json:"event"`
}

type c18Conn struct {
	num     int
	ws      *websocket.Conn
	mu      sync.Mutex
	inbox   []c18Wire
	closed  bool // the read loop ended (server closed, or we did)
	dropped bool
	busy    int // token of the creation that blocks this connection's message loop, -1
}

type c18Run struct {
	t        *testing.T
	keys     *c18KeySet
	proxy    *ProxyServer
	server   *httptest.Server
	mcu      *c18Mcu
	activity atomic.Int64
	conns    map[int]*c18Conn
	uuidNum  map[string]int
	numUuid  map[int]string
	pubSid   map[string]uint64
	sidPub   map[uint64]string
	texts    map[string]int
	sigs     map[string]int
	issuers  map[string]int
	sigtable []string
	notes    map[string]int
	msgid    int
	connSid  map[int]uint64 // session a connection was last welcomed to (from the hello answers)
}

func c18NewRun(t *testing.T, keys *c18KeySet) *c18Run {
	h := &c18Run{t: t, keys: keys, conns: map[int]*c18Conn{}, uuidNum: map[string]int{}, numUuid: map[int]string{},
		pubSid: map[string]uint64{}, sidPub: map[uint64]string{}, texts: map[string]int{}, sigs: map[string]int{},
		issuers: map[string]int{"iss0": 0, "iss1": 1}, notes: map[string]int{}, connSid: map[int]uint64{}}
	r := mux.NewRouter()
	config := goconf.NewConfigFile()
	config.AddOption("tokens", "iss0", keys.pubFile[0])
	config.AddOption("tokens", "iss1", keys.pubFile[1])
	proxy, err := NewProxyServer(r, "0.0", config)
	if err != nil {
		t.Fatal(err)
	}
	h.mcu = newC18Mcu(&h.activity)
	proxy.mcu = h.mcu
	// remote subscribers are enabled (app.token_id / token_key / hostname of the configuration)
	proxy.tokenId = "iss0"
	proxy.tokenKey = keys.rsa[0]
	proxy.remoteHostname = "c18-proxy.invalid"
	h.proxy = proxy
	h.server = httptest.NewServer(r)
	return h
}

func (h *c18Run) shutdown() {
	// let everything that is still waiting at the media server fail
	h.mcu.mu.Lock()
	for _, p := range h.mcu.pending {
		select {
		case p.ch <- "fail":
		default:
		}
	}
	h.mcu.mu.Unlock()
	for _, c := range h.conns {
		if c.ws != nil {
			c.ws.Close()
		}
	}
	h.proxy.Stop()
	h.server.Close()
}

func (h *c18Run) conn(n int, dial bool) *c18Conn {
	if c, ok := h.conns[n]; ok {
		return c
	}
	c := &c18Conn{num: n, busy: -1}
	h.conns[n] = c
	if !dial {
		return c
	}
	ws, _, err := websocket.DefaultDialer.Dial(getWebsocketUrl(h.server.URL), nil)
	if err != nil {
		h.t.Fatalf("dial: %v", err)
	}
	c.ws = ws
	go func() {
		for {
			_, data, err := ws.ReadMessage()
			if err != nil {
				c.mu.Lock()
				c.closed = true
				c.mu.Unlock()
				h.activity.Add(1)
				return
			}
			var w c18Wire
			if err := json.Unmarshal(data, &w); err != nil {
				w = c18Wire{Type: "undecodable"}
			}
			c.mu.Lock()
			c.inbox = append(c.inbox, w)
			c.mu.Unlock()
			h.activity.Add(1)
		}
	}()
	return c
}

func (c *c18Conn) isClosed() bool {
	c.mu.Lock()
	defer c.mu.Unlock()
	return c.closed || c.dropped
}

// quiescence: no harness-visible activity and no goroutine running, runnable or
// in a system call, observed several times in a row
func c18GoroutinesQuiet(buf []byte) bool {
	n := runtime.Stack(buf, true)
	s := string(buf[:n])
	first := true
	for len(s) > 0 {
		i := strings.Index(s, "goroutine ")
		if i < 0 {
			break
		}
		s = s[i:]
		j := strings.Index(s, "[")
		k := strings.Index(s, "]")
		if j < 0 || k < j {
			break
		}
		state := s[j+1 : k]
		rest := s[k:]
		next := strings.Index(rest, "\n\n")
		body := rest
		if next >= 0 {
			body = rest[:next]
		}
		if i := strings.IndexAny(state, ", "); i >= 0 {
			state = state[:i]
		}
		if !first {
			switch state {
			case "running", "runnable":
				return false
			case "syscall":
				if !strings.Contains(body, "os/signal") {
					return false
				}
			}
		}
		first = false
		if next < 0 {
			break
		}
		s = rest[next:]
	}
	return true
}

var c18StackBuf = make([]byte, 4<<20)

func (h *c18Run) settle(rounds int) {
	deadline := time.Now().Add(5 * time.Second)
	stable := 0
	last := int64(-1)
	for stable < rounds {
		time.Sleep(400 * time.Microsecond)
		cur := h.activity.Load()
		if cur == last && c18GoroutinesQuiet(c18StackBuf) {
			stable++
		} else {
			stable = 0
			last = cur
		}
		if time.Now().After(deadline) {
			h.notes["settle_timeout"]++
			return
		}
	}
}

// wait for the first visible reaction to a message, then for quiescence
func (h *c18Run) react(before int64) {
	deadline := time.Now().Add(3 * time.Second)
	for h.activity.Load() == before {
		if time.Now().After(deadline) {
			h.notes["no_reaction"]++
			break
		}
		time.Sleep(200 * time.Microsecond)
	}
	h.settle(3)
}

func (h *c18Run) send(c *c18Conn, v interface{}) {
	var data []byte
	if s, ok := v.(string); ok {
		data = []byte(s)
	} else {
		data, _ = json.Marshal(v)
	}
	before := h.activity.Load()
	if err := c.ws.WriteMessage(websocket.TextMessage, data); err != nil {
		h.notes["write_error"]++
	}
	h.react(before)
}

func (h *c18Run) nextId() string {
	h.msgid++
	return fmt.Sprintf("m%d", h.msgid)
}

// ---- tokens ---------------------------------------------------------------------------

func c18b64(b []byte) string { return base64.RawURLEncoding.EncodeToString(b) }

func (h *c18Run) buildToken(tk *c18Tok, now time.Time) string {
	hdrAlg := tk.Alg
	if tk.HdrAlg != "" {
		hdrAlg = tk.HdrAlg
	}
	hdr := map[string]interface{}{"typ": "JWT"}
	switch hdrAlg {
	case "-":
	case "#":
		hdr["alg"] = 256
	default:
		hdr["alg"] = hdrAlg
	}
	claims := map[string]interface{}{}
	if tk.Iss != "-" {
		claims["iss"] = tk.Iss
	}
	if tk.Iat != nil {
		claims["iat"] = now.Unix() + *tk.Iat
	}
	if tk.Exp != nil {
		claims["exp"] = now.Unix() + *tk.Exp
	}
	if tk.Nbf != nil {
		claims["nbf"] = now.Unix() + *tk.Nbf
	}
	hb, _ := json.Marshal(hdr)
	cb, _ := json.Marshal(claims)
	text := c18b64(hb) + "." + c18b64(cb)
	var sig []byte
	var err error
	ki := tk.Key % 3
	switch tk.Alg {
	case "none":
		sig, err = jwt.SigningMethodNone.Sign(text, jwt.UnsafeAllowNoneSignatureType)
	case "HS256", "HS384", "HS512":
		// the classic confusion: HMAC with the (public) key file as the secret
		sig, err = jwt.GetSigningMethod(tk.Alg).Sign(text, h.keys.pubPem[ki])
	case "ES256":
		sig, err = jwt.SigningMethodES256.Sign(text, h.keys.ec)
	case "EdDSA":
		sig, err = jwt.SigningMethodEdDSA.Sign(text, h.keys.ed)
	default: // RS*, PS*
		m := jwt.GetSigningMethod(tk.Alg)
		if m == nil {
			m = jwt.SigningMethodRS256
		}
		sig, err = m.Sign(text, h.keys.rsa[ki])
	}
	if err != nil {
		sig = []byte("unsigned")
	}
	token := text + "." + c18b64(sig)
	flip := func(b []byte) []byte {
		if len(b) == 0 {
			return b
		}
		c := append([]byte{}, b...)
		p := tk.Pos % (len(c) * 8)
		c[p/8] ^= 1 << (p % 8)
		return c
	}
	switch tk.Mut {
	case "sigbit":
		token = text + "." + c18b64(flip(sig))
	case "paybit":
		token = c18b64(hb) + "." + c18b64(flip(cb)) + "." + c18b64(sig)
	case "hdrbit":
		token = c18b64(flip(hb)) + "." + c18b64(cb) + "." + c18b64(sig)
	case "paychar":
		seg := []byte(c18b64(cb))
		p := tk.Pos % len(seg)
		if seg[p] == 'A' {
			seg[p] = 'B'
		} else {
			seg[p] = 'A'
		}
		token = c18b64(hb) + "." + string(seg) + "." + c18b64(sig)
	case "seg2":
		token = text
	case "seg4":
		token = token + ".x"
	case "garbage":
		token = "not-a-token"
	case "pad":
		token = token + "="
	case "nosig":
		token = text + "."
	case "sigtail":
		// another spelling of the same signature bytes (unused trailing bits of the last character)
		s := c18b64(sig)
		if len(s)%4 == 2 || len(s)%4 == 3 {
			const alpha = "ABCDEFGHIJKLMNOPQRSTUVWXYZabcdefghijklmnopqrstuvwxyz0123456789-_"
			i := strings.IndexByte(alpha, s[len(s)-1])
			token = text + "." + s[:len(s)-1] + string(alpha[i^1])
		}
	}
	return token
}

// what the library extracts from the token, independent of the proxy; the
// verification results for the configured keys go to the case's signature table
func (h *c18Run) abstractToken(token string, now time.Time, vnow int64) (coq string, nearBoundary bool) {
	bad := "(tk false \"\" false 0 None None None 0 0)"
	claims := &signaling.TokenClaims{}
	p := jwt.NewParser()
	tok, parts, err := p.ParseUnverified(token, claims)
	if err != nil || tok == nil || tok.Method == nil {
		return bad, false
	}
	alg := tok.Method.Alg()
	text := parts[0] + "." + parts[1]
	sig, serr := p.DecodeSegment(parts[2])
	intern := func(m map[string]int, s string) int {
		if v, ok := m[s]; ok {
			return v
		}
		v := len(m)
		m[s] = v
		return v
	}
	tx := intern(h.texts, text)
	sg := 0
	if serr == nil {
		sg = intern(h.sigs, string(sig))
		for k := 0; k < 2; k++ {
			if tok.Method.Verify(text, sig, &h.keys.rsa[k].PublicKey) == nil {
				h.sigtable = append(h.sigtable, fmt.Sprintf("(%s, %d, %d, %d)", coqStr(alg), k, tx, sg))
			}
		}
	}
	iss := intern(h.issuers, claims.Issuer)
	off := func(d *jwt.NumericDate, bounds ...int64) string {
		if d == nil {
			return "None"
		}
		o := d.Time.UnixNano() - now.UnixNano()
		for _, b := range bounds {
			if diff := o - b*int64(time.Second); diff > -2*int64(time.Second) && diff < 2*int64(time.Second) {
				nearBoundary = true
			}
		}
		return fmt.Sprintf("(Some (%d)%%Z)", vnow+o)
	}
	if claims.IssuedAt != nil && (claims.IssuedAt.Unix() > now.Unix()+(1<<40) || claims.IssuedAt.Unix() < -(1<<40)) {
		nearBoundary = true // outside the range in which nanosecond arithmetic is exact
	}
	iat := off(claims.IssuedAt, -360, 60)
	exp := off(claims.ExpiresAt, -60)
	nbf := off(claims.NotBefore, 60)
	return fmt.Sprintf("(tk true %s %s %d %s %s %s %d %d)", coqStr(alg), coqBool(serr == nil), iss, iat, exp, nbf, tx, sg), nearBoundary
}

// ---- observation -------------------------------------------------------------------

var c18ErrNames = map[string]string{
	"hello_expected": "EHelloExpected", "invalid_format": "EInvalidFormat", "auth_failed": "EAuthFailed",
	"token_expired": "ETokenExpired", "token_not_valid_yet": "ETokenNotValidYet", "no_such_session": "ENoSuchSession",
	"unknown_client": "EUnknownClient", "bad_request": "EBadRequest", "unsupported_payload": "EUnsupportedPayload",
	"internal_error": "EInternal", "timeout": "ETimeout",
}

func (h *c18Run) msgTerm(w c18Wire) string {
	switch w.Type {
	case "hello":
		if w.Hello != nil {
			if sid, ok := h.pubSid[w.Hello.SessionId]; ok {
				return fmt.Sprintf("MHello %d", sid)
			}
		}
		return "MOther 4"
	case "error":
		if w.Error != nil {
			if n, ok := c18ErrNames[w.Error.Code]; ok {
				return "MErr " + n
			}
			h.notes["error_code:"+w.Error.Code]++
		}
		return "MErr (EOtherErr 0)"
	case "bye":
		if w.Bye != nil {
			switch w.Bye.Reason {
			case "session_closed":
				return "MBye RClosed"
			case "session_expired":
				return "MBye RExpired"
			case "session_resumed":
				return "MBye RResumed"
			}
		}
		return "MBye (ROtherReason 0)"
	case "command":
		if w.Command != nil {
			if n, ok := h.uuidNum[w.Command.Id]; ok {
				return fmt.Sprintf("MCmd %d", n)
			}
		}
		return "MOther 1"
	case "payload":
		if w.Payload != nil {
			if n, ok := h.uuidNum[w.Payload.ClientId]; ok {
				return fmt.Sprintf("MPayload %d", n)
			}
		}
		return "MOther 5"
	case "event":
		if w.Event != nil {
			switch w.Event.Type {
			case "update-load":
				return "MEvLoad"
			case "backend-disconnected":
				return "MEvBackendDisc"
			}
		}
		return "MOther 2"
	}
	return "MOther 3"
}

func c18KindName(k int) string {
	if k == c18Pub {
		return "Pub"
	}
	return "Sub"
}

func c18Ints(l []int) string {
	sort.Ints(l)
	s := make([]string, len(l))
	for i, v := range l {
		s[i] = fmt.Sprint(v)
	}
	return coqList(s)
}

// observe reads the tables of the proxy and of the fake media server and drains
// the inboxes; returns the Coq term of the observation
func (h *c18Run) observe(applied bool) string {
	p := h.proxy
	// sessions and their tables (values are the fake objects, which know their number)
	type row struct {
		sid        uint64
		pubs, subs []int
	}
	var rows []row
	p.sessionsLock.RLock()
	for sid, s := range p.sessions {
		h.pubSid[s.PublicId()] = sid
		h.sidPub[sid] = s.PublicId()
		r := row{sid: sid}
		s.publishersLock.Lock()
		for id, pub := range s.publishers {
			if o, ok := pub.(c18Numbered); ok {
				r.pubs = append(r.pubs, o.object().num)
				h.uuidNum[id], h.numUuid[o.object().num] = o.object().num, id
			}
		}
		s.publishersLock.Unlock()
		s.subscribersLock.Lock()
		for id, sub := range s.subscribers {
			if o, ok := sub.(c18Numbered); ok {
				r.subs = append(r.subs, o.object().num)
				h.uuidNum[id], h.numUuid[o.object().num] = o.object().num, id
			}
		}
		s.subscribersLock.Unlock()
		rows = append(rows, r)
	}
	p.sessionsLock.RUnlock()
	sort.Slice(rows, func(i, j int) bool { return rows[i].sid < rows[j].sid })
	var srows []string
	for _, r := range rows {
		srows = append(srows, fmt.Sprintf("(%d, %s, %s)", r.sid, c18Ints(r.pubs), c18Ints(r.subs)))
	}
	// client table
	type ent struct {
		num, kind int
		creator   uint64
	}
	var cl []ent
	p.clientsLock.RLock()
	for id, c := range p.clients {
		if o, ok := c.(c18Numbered); ok {
			ob := o.object()
			cl = append(cl, ent{ob.num, ob.kind, ob.creator})
			h.uuidNum[id], h.numUuid[ob.num] = ob.num, id
		}
	}
	p.clientsLock.RUnlock()
	sort.Slice(cl, func(i, j int) bool { return cl[i].num < cl[j].num })
	// media server
	var op []ent
	var pend []int
	h.mcu.mu.Lock()
	for _, o := range h.mcu.open {
		op = append(op, ent{o.num, o.kind, o.creator})
	}
	// a remote publisher somebody still holds a reference to is open at the media server.  It is
	// listed under the creation request it was made for (one entry per request: the remote
	// subscriber and the remote publisher behind it), so it appears on its own exactly when it
	// is open without its subscriber.
	for num, rp := range h.mcu.rpubs {
		if rp.refcnt.Load() > 0 {
			if _, dup := h.mcu.open[num]; !dup {
				op = append(op, ent{rp.num, rp.kind, rp.creator})
			}
		}
		if rp.negative.Load() > 0 {
			h.notes["remote_publisher_released_too_often"]++
		}
	}
	for tok := range h.mcu.pending {
		pend = append(pend, tok)
	}
	h.mcu.mu.Unlock()
	sort.Slice(op, func(i, j int) bool { return op[i].num < op[j].num })
	ents := func(l []ent) string {
		var s []string
		for _, e := range l {
			s = append(s, fmt.Sprintf("(%d, %s, %d)", e.num, c18KindName(e.kind), e.creator))
		}
		return coqList(s)
	}
	// messages, by connection
	var nums []int
	for n := range h.conns {
		nums = append(nums, n)
	}
	sort.Ints(nums)
	var ms []string
	for _, n := range nums {
		c := h.conns[n]
		c.mu.Lock()
		in := c.inbox
		c.inbox = nil
		c.mu.Unlock()
		for _, w := range in {
			if w.Type == "hello" && w.Hello != nil {
				if sid, ok := h.pubSid[w.Hello.SessionId]; ok {
					h.connSid[n] = sid
				}
			}
			ms = append(ms, fmt.Sprintf("(%d, %s)", n, h.msgTerm(w)))
		}
	}
	return fmt.Sprintf("ob %s %s %s %s %s %s", coqBool(applied), coqList(ms), coqList(srows), ents(cl), ents(op), c18Ints(pend))
}

// ---- executing operations ---------------------------------------------------------

const c18VirtualEpoch = int64(1000000000) * int64(time.Second)

// remoteToken: what the signaling server sends along with remoteUrl: a token of a configured
// issuer, issued now, whose subject is the publisher id
func (h *c18Run) remoteToken(subject string) string {
	claims := &signaling.TokenClaims{RegisteredClaims: jwt.RegisteredClaims{
		IssuedAt: jwt.NewNumericDate(time.Now().Add(-10 * time.Second)), Issuer: "iss0", Subject: subject}}
	tok, err := jwt.NewWithClaims(jwt.SigningMethodRS256, claims).SignedString(h.keys.rsa[0])
	if err != nil {
		h.t.Fatal(err)
	}
	return tok
}

func (h *c18Run) uuidOf(num int) string {
	if u, ok := h.numUuid[num]; ok {
		return u
	}
	return fmt.Sprintf("nonexistent-%d", num)
}

// complete lets the media server answer creation tok
func (h *c18Run) complete(tok int, res string) {
	if res == "" {
		res = "ok"
	}
	h.mcu.mu.Lock()
	p := h.mcu.pending[tok]
	h.mcu.mu.Unlock()
	if p == nil {
		return
	}
	before := h.activity.Load()
	p.ch <- res
	h.react(before)
	for _, c := range h.conns {
		if c.busy == tok {
			c.busy = -1
		}
	}
}

// phasedClose starts the close of sess (trigger: the bye message / the expiry pass)
// and freezes ProxySession.Close in the windows named by the slots, one after the
// other, by holding the lock Close needs next; inside each window the creations
// of the slots complete (the handler runs as far as it can), then the next lock
// is taken and the current one released.  Nothing is observed before Close has
// returned.
func (h *c18Run) phasedClose(sid uint64, sess *ProxySession, slots []c18Slot, trigger func()) {
	if sess == nil {
		// nothing to close: no completions either (as in the model)
		before := h.activity.Load()
		trigger()
		h.react(before)
		return
	}
	used := map[string]bool{}
	for _, sl := range slots {
		if _, ok := c18WindowPhase[sl.W]; !ok {
			h.t.Fatalf("unknown window %q", sl.W)
		}
		used[sl.W] = true
	}
	if used["remote"] {
		// the read lock of the sessions list can only be taken once Close is under way
		// (bye / expiry need the write lock first): step there through the window before
		used["subs"] = true
	}
	var seq []string
	for _, w := range c18Windows {
		if used[w] {
			seq = append(seq, w)
		}
	}
	lock := func(w string) {
		switch w {
		case "list":
			sess.clientLock.Lock()
		case "ctx":
			sess.publishersLock.Lock()
		case "subs":
			sess.remotePublishersLock.Lock()
		case "remote":
			// what IterateSessions / GetSession / PublisherDeleted hold while they run
			h.proxy.sessionsLock.RLock()
		}
	}
	unlock := func(w string) {
		switch w {
		case "list":
			sess.clientLock.Unlock()
		case "ctx":
			sess.publishersLock.Unlock()
		case "subs":
			sess.remotePublishersLock.Unlock()
		case "remote":
			h.proxy.sessionsLock.RUnlock()
		}
	}
	if len(seq) == 0 {
		before := h.activity.Load()
		trigger()
		h.react(before)
		return
	}
	lock(seq[0])
	trigger()
	// Close is under way once the session left the list
	deadline := time.Now().Add(3 * time.Second)
	for h.proxy.GetSession(sid) != nil && time.Now().Before(deadline) {
		time.Sleep(200 * time.Microsecond)
	}
	if h.proxy.GetSession(sid) != nil {
		h.notes["phased_close_not_started"]++
	}
	h.settle(3)
	for i, w := range seq {
		for _, sl := range slots {
			if sl.W == w {
				h.complete(sl.T, sl.R)
			}
		}
		if i+1 < len(seq) {
			lock(seq[i+1])
		}
		unlock(w)
		h.settle(3)
	}
	h.notes["phased_close"]++
}

// returns the Coq term of the operation and of the observation; skipCase is set
// when a generated token lies too close to a time boundary to be judged
func (h *c18Run) exec(i int, o c18Op) (opTerm, obTerm string, skipCase bool) {
	vnow := c18VirtualEpoch + int64(i)*int64(time.Second)
	connOp := func(f func(c *c18Conn)) bool {
		if c, ok := h.conns[o.C]; ok && (c.isClosed() || c.busy >= 0) {
			return false
		}
		f(h.conn(o.C, true))
		return true
	}
	applied := true
	switch o.K {
	case "hello":
		now := time.Now()
		token := h.buildToken(o.Tok, now)
		abs, near := h.abstractToken(token, now, vnow)
		if near {
			skipCase = true
		}
		opTerm = fmt.Sprintf("OHello %d (%d)%%Z %s", o.C, vnow, abs)
		applied = connOp(func(c *c18Conn) {
			h.send(c, map[string]interface{}{"id": h.nextId(), "type": "hello", "hello": map[string]interface{}{"version": "1.0", "token": token}})
		})
	case "resume", "resumebad":
		rid := "never-issued"
		if o.K == "resume" {
			opTerm = fmt.Sprintf("OResume %d %d", o.C, o.Sid)
			if p, ok := h.sidPub[uint64(o.Sid)]; ok {
				rid = p
			}
		} else {
			opTerm = fmt.Sprintf("OResumeBad %d", o.C)
			// a different spelling of an id the server did issue, when there is one
			var pubs []string
			for _, p := range h.sidPub {
				pubs = append(pubs, p)
			}
			sort.Strings(pubs)
			if len(pubs) > 0 {
				p := pubs[0]
				last := p[len(p)-1]
				repl := byte('A')
				if last == 'A' {
					repl = 'B'
				}
				rid = p[:len(p)-1] + string(repl)
			}
		}
		applied = connOp(func(c *c18Conn) {
			h.send(c, map[string]interface{}{"id": h.nextId(), "type": "hello", "hello": map[string]interface{}{"version": "1.0", "resumeid": rid}})
		})
	case "cmd":
		var body map[string]interface{}
		switch o.Cmd {
		case "create-pub":
			opTerm = fmt.Sprintf("OCmd %d CCreatePub", o.C)
			body = map[string]interface{}{"type": "create-publisher", "streamType": "video"}
		case "create-sub":
			opTerm = fmt.Sprintf("OCmd %d CCreateSub", o.C)
			body = map[string]interface{}{"type": "create-subscriber", "streamType": "video", "publisherId": "pub"}
			if o.Remote {
				opTerm = fmt.Sprintf("OCmd %d CCreateSubRemote", o.C)
				body["remoteUrl"] = "https://c18-remote.invalid"
				body["remoteToken"] = h.remoteToken("pub")
			}
		case "delete-pub":
			opTerm = fmt.Sprintf("OCmd %d (CDeletePub %d)", o.C, o.Id)
			body = map[string]interface{}{"type": "delete-publisher", "clientId": h.uuidOf(o.Id)}
		case "delete-sub":
			opTerm = fmt.Sprintf("OCmd %d (CDeleteSub %d)", o.C, o.Id)
			body = map[string]interface{}{"type": "delete-subscriber", "clientId": h.uuidOf(o.Id)}
		case "streams":
			opTerm = fmt.Sprintf("OCmd %d (CStreams %d)", o.C, o.Id)
			body = map[string]interface{}{"type": "get-publisher-streams", "clientId": h.uuidOf(o.Id)}
		default:
			opTerm = fmt.Sprintf("OCmd %d COther", o.C)
			body = map[string]interface{}{"type": "frobnicate"}
		}
		applied = connOp(func(c *c18Conn) {
			known := map[int]bool{}
			h.mcu.mu.Lock()
			for tok := range h.mcu.pending {
				known[tok] = true
			}
			h.mcu.mu.Unlock()
			h.send(c, map[string]interface{}{"id": h.nextId(), "type": "command", "command": body})
			h.mcu.mu.Lock()
			for tok := range h.mcu.pending {
				if !known[tok] {
					c.busy = tok
				}
			}
			h.mcu.mu.Unlock()
		})
	case "payload":
		pk, ty := "PBad", "bogus"
		switch o.P {
		case "end":
			pk, ty = "PEnd", "endOfCandidates"
		case "fwd":
			pk, ty = "PFwd", "requestoffer"
		}
		opTerm = fmt.Sprintf("OPayload %d %d %s", o.C, o.Id, pk)
		applied = connOp(func(c *c18Conn) {
			h.send(c, map[string]interface{}{"id": h.nextId(), "type": "payload", "payload": map[string]interface{}{"type": ty, "clientId": h.uuidOf(o.Id)}})
		})
	case "bye":
		if len(o.In) > 0 {
			opTerm = fmt.Sprintf("OByeIn %d %s", o.C, c18SlotsTerm(o.In))
			applied = connOp(func(c *c18Conn) {
				var sess *ProxySession
				sid, bound := h.connSid[o.C]
				if bound {
					sess = h.proxy.GetSession(sid)
					if sess != nil {
						sess.clientLock.Lock()
						attached := sess.client != nil
						sess.clientLock.Unlock()
						if !attached {
							sess = nil
						}
					}
				}
				data, _ := json.Marshal(map[string]interface{}{"id": h.nextId(), "type": "bye"})
				h.phasedClose(sid, sess, o.In, func() {
					if err := c.ws.WriteMessage(websocket.TextMessage, data); err != nil {
						h.notes["write_error"]++
					}
				})
			})
			break
		}
		opTerm = fmt.Sprintf("OBye %d", o.C)
		applied = connOp(func(c *c18Conn) { h.send(c, map[string]interface{}{"id": h.nextId(), "type": "bye"}) })
	case "unknown":
		opTerm = fmt.Sprintf("OUnknownType %d", o.C)
		applied = connOp(func(c *c18Conn) { h.send(c, map[string]interface{}{"id": h.nextId(), "type": "frobnicate"}) })
	case "malformed":
		var raw interface{}
		switch o.P {
		case "json":
			opTerm = fmt.Sprintf("OMalformed %d BJson", o.C)
			raw = "{not json"
		case "notype":
			opTerm = fmt.Sprintf("OMalformed %d BNoType", o.C)
			raw = map[string]interface{}{"id": h.nextId()}
		default:
			opTerm = fmt.Sprintf("OMalformed %d BNoBody", o.C)
			raw = map[string]interface{}{"id": h.nextId(), "type": "command"}
		}
		applied = connOp(func(c *c18Conn) { h.send(c, raw) })
	case "drop":
		opTerm = fmt.Sprintf("ODrop %d", o.C)
		if c, ok := h.conns[o.C]; ok && c.isClosed() {
			applied = false
		} else {
			c := h.conn(o.C, true)
			c.mu.Lock()
			c.dropped = true
			c.mu.Unlock()
			c.ws.Close()
			h.settle(5)
		}
	case "expire":
		if len(o.In) > 0 {
			opTerm = fmt.Sprintf("OExpireIn %d %s", o.Sid, c18SlotsTerm(o.In))
			sess := h.proxy.GetSession(uint64(o.Sid))
			finished := make(chan struct{})
			h.phasedClose(uint64(o.Sid), sess, o.In, func() {
				go func() {
					defer close(finished)
					for try := 0; try < 40; try++ {
						s := h.proxy.GetSession(uint64(o.Sid))
						if s == nil {
							break
						}
						s.lastUsed.Store(time.Now().Add(-sessionExpirationTime - 2*time.Second).UnixNano())
						h.proxy.expireSessions()
						if h.proxy.GetSession(uint64(o.Sid)) == nil {
							break
						}
						time.Sleep(time.Millisecond)
					}
					h.activity.Add(1)
				}()
			})
			select {
			case <-finished:
			case <-time.After(5 * time.Second):
				h.notes["expiry_pass_stuck"]++
			}
			h.settle(3)
			break
		}
		opTerm = fmt.Sprintf("OExpire %d", o.Sid)
		// the session has not been used for longer than sessionExpirationTime, and the
		// expiry pass runs (a late MarkUsed of a connection that just closed is repeated over)
		for try := 0; try < 40; try++ {
			s := h.proxy.GetSession(uint64(o.Sid))
			if s == nil {
				break
			}
			s.lastUsed.Store(time.Now().Add(-sessionExpirationTime - 2*time.Second).UnixNano())
			h.proxy.expireSessions()
			if h.proxy.GetSession(uint64(o.Sid)) == nil {
				break
			}
			time.Sleep(time.Millisecond)
		}
		h.settle(3)
	case "mculost":
		opTerm = "OMcuLost"
		h.proxy.onMcuDisconnected()
		h.settle(3)
	case "done":
		r := c18ResTerm[o.R]
		if r == "" {
			r, o.R = "MOk", "ok"
		}
		opTerm = fmt.Sprintf("OMcuDone %d %s", o.T, r)
		h.complete(o.T, o.R)
	default:
		opTerm = "OMcuLost"
		h.t.Fatalf("unknown op kind %q", o.K)
	}
	obTerm = h.observe(applied)
	return
}

func c18RunCase(t *testing.T, keys *c18KeySet, c *c18Case) (term string, outs []string, notes map[string]int, skip bool) {
	h := c18NewRun(t, keys)
	defer h.shutdown()
	var steps []string
	for i, o := range c.Ops {
		ot, bt, sk := h.exec(i, o)
		if sk {
			skip = true
		}
		steps = append(steps, fmt.Sprintf("(%s, %s)", ot, bt))
		outs = append(outs, bt)
	}
	term = fmt.Sprintf("mkcase %d %s [(0, 0); (1, 1)] %s", c.Id, coqList(h.sigtable), "[\n  "+strings.Join(steps, ";\n  ")+"]")
	return term, outs, h.notes, skip
}

// ---- generators -----------------------------------------------------------------------

func i64(v int64) *int64 { return &v }

var c18IatIn = []int64{-357, -340, -300, -200, -100, -60, -10, -3, 0, 0, 0, 2, 20, 40, 57}
var c18IatOld = []int64{-363, -400, -1000, -3600, -100000}
var c18IatFuture = []int64{63, 90, 120, 3600}
var c18RsAlgs = []string{"RS256", "RS256", "RS384", "RS512"}

func c18ValidTok(r *vrng) *c18Tok {
	k := r.intn(2)
	tk := &c18Tok{Alg: pick(r, c18RsAlgs), Iss: c18Issuers[k], Key: k, Iat: i64(pick(r, c18IatIn)), Class: "valid"}
	if r.chance(30) {
		tk.Exp = i64(pick(r, []int64{-57, -30, 10, 300, 3600}))
	}
	if r.chance(15) {
		tk.Nbf = i64(pick(r, []int64{-3600, -10, 30, 57}))
	}
	return tk
}

func c18BadTok(r *vrng) *c18Tok {
	tk := c18ValidTok(r)
	classes := []string{"alg-none", "alg-hs", "alg-ps", "alg-es", "alg-ed", "alg-hdr-swap", "alg-hdr-lower", "alg-hdr-missing", "alg-hdr-number",
		"iss-unknown", "iss-missing", "iss-other", "key-foreign", "iat-old", "iat-future", "iat-missing", "exp-past", "nbf-future",
		"mut-sigbit", "mut-sigbit", "mut-paybit", "mut-paybit", "mut-hdrbit", "mut-paychar", "mut-seg2", "mut-seg4", "mut-garbage", "mut-pad", "mut-nosig", "mut-sigtail"}
	cl := pick(r, classes)
	tk.Class = cl
	switch cl {
	case "alg-none":
		tk.Alg = "none"
	case "alg-hs":
		tk.Alg = pick(r, []string{"HS256", "HS384", "HS512"})
	case "alg-ps":
		tk.Alg = pick(r, []string{"PS256", "PS384"})
	case "alg-es":
		tk.Alg = "ES256"
	case "alg-ed":
		tk.Alg = "EdDSA"
	case "alg-hdr-swap":
		// signature made with one method, header names another
		tk.HdrAlg = pick(r, []string{"RS256", "RS384", "RS512", "PS256", "HS256", "none"})
		if tk.HdrAlg == tk.Alg {
			tk.HdrAlg = "RS384"
			if tk.Alg == "RS384" {
				tk.HdrAlg = "RS512"
			}
		}
	case "alg-hdr-lower":
		tk.HdrAlg = strings.ToLower(tk.Alg)
	case "alg-hdr-missing":
		tk.HdrAlg = "-"
	case "alg-hdr-number":
		tk.HdrAlg = "#"
	case "iss-unknown":
		tk.Iss = pick(r, []string{"iss2", "ISS0", "iss0 ", "", "foo"})
	case "iss-missing":
		tk.Iss = "-"
	case "iss-other":
		// valid signature of the other configured issuer's key
		tk.Iss = c18Issuers[1-tk.Key]
	case "key-foreign":
		tk.Key = 2
	case "iat-old":
		tk.Iat = i64(pick(r, c18IatOld))
	case "iat-future":
		tk.Iat = i64(pick(r, c18IatFuture))
	case "iat-missing":
		tk.Iat = nil
	case "exp-past":
		tk.Exp = i64(pick(r, []int64{-63, -100, -3600}))
	case "nbf-future":
		tk.Nbf = i64(pick(r, []int64{63, 120, 3600}))
	default:
		tk.Mut = strings.TrimPrefix(cl, "mut-")
		tk.Pos = r.intn(1 << 16)
	}
	return tk
}

func c18GenTokenCase(r *vrng, id int) *c18Case {
	c := &c18Case{Id: id, Family: "token"}
	n := 1 + r.intn(4)
	obj := 0
	for i := 0; i < n; i++ {
		var tk *c18Tok
		valid := r.chance(30)
		if valid {
			tk = c18ValidTok(r)
		} else {
			tk = c18BadTok(r)
		}
		if r.chance(25) {
			// something else first: refused before hello
			c.Ops = append(c.Ops, pick(r, []c18Op{{K: "cmd", C: i, Cmd: "create-pub"}, {K: "payload", C: i, Id: 0, P: "end"}, {K: "unknown", C: i}, {K: "cmd", C: i, Cmd: "delete-pub", Id: 0}}))
		}
		c.Ops = append(c.Ops, c18Op{K: "hello", C: i, Tok: tk})
		// what a welcomed connection can do and a refused one cannot
		switch r.intn(4) {
		case 0:
			c.Ops = append(c.Ops, c18Op{K: "cmd", C: i, Cmd: pick(r, []string{"create-pub", "create-sub"})})
			if valid {
				c.Ops = append(c.Ops, c18Op{K: "done", T: obj, R: "ok"})
				obj++
			}
		case 1:
			c.Ops = append(c.Ops, c18Op{K: "payload", C: i, Id: 0, P: pick(r, []string{"end", "fwd"})})
		case 2:
			c.Ops = append(c.Ops, c18Op{K: "bye", C: i})
		}
		if r.chance(15) {
			// a second hello on the same connection
			c.Ops = append(c.Ops, c18Op{K: "hello", C: i, Tok: c18ValidTok(r)})
		}
	}
	return c
}

// scripts: generator-side bookkeeping is only a heuristic to make most ops meaningful
func c18GenScriptCase(r *vrng, id int) *c18Case {
	c := &c18Case{Id: id, Family: "script"}
	nsess := 1 + r.intn(3)
	type gconn struct {
		sid    int
		closed bool
		busy   int
	}
	conns := map[int]*gconn{}
	nextConn := 0
	nextSid := 1
	nextObj := 0
	var pend []int
	live := map[int]int{} // sid -> conn
	hello := func() {
		cn := nextConn
		nextConn++
		c.Ops = append(c.Ops, c18Op{K: "hello", C: cn, Tok: c18ValidTok(r)})
		conns[cn] = &gconn{sid: nextSid, busy: -1}
		live[nextSid] = cn
		nextSid++
	}
	for i := 0; i < nsess; i++ {
		hello()
	}
	liveConn := func() int {
		var l []int
		for cn, g := range conns {
			if !g.closed && g.busy < 0 && g.sid > 0 {
				l = append(l, cn)
			}
		}
		sort.Ints(l)
		if len(l) == 0 || r.chance(4) {
			return r.intn(nextConn + 1)
		}
		return pick(r, l)
	}
	anyObj := func() int {
		if nextObj == 0 || r.chance(8) {
			return r.intn(nextObj + 2)
		}
		return r.intn(nextObj)
	}
	anySid := func() int {
		if r.chance(10) {
			return r.intn(nextSid + 1)
		}
		var l []int
		for s := range live {
			l = append(l, s)
		}
		sort.Ints(l)
		if len(l) == 0 {
			return r.intn(nextSid + 1)
		}
		return pick(r, l)
	}
	closeSid := func(s int) {
		if cn, ok := live[s]; ok {
			conns[cn].closed = true
			delete(live, s)
		}
	}
	// creations that complete while the close of a session runs: any pending ones,
	// in any of the windows, with any answer
	inside := func() []c18Slot {
		if len(pend) == 0 || !r.chance(60) {
			return nil
		}
		var in []c18Slot
		var rest []int
		for _, t := range pend {
			if r.chance(70) {
				in = append(in, c18Slot{W: pick(r, c18Windows), T: t, R: pick(r, []string{"ok", "ok", "ok", "ok", "fail", "timeout"})})
				for _, g := range conns {
					if g.busy == t {
						g.busy = -1
					}
				}
			} else {
				rest = append(rest, t)
			}
		}
		pend = rest
		return in
	}
	n := 8 + r.intn(22)
	for i := 0; i < n; i++ {
		x := r.intn(100)
		switch {
		case x < 22: // create
			cn := liveConn()
			c.Ops = append(c.Ops, c18Op{K: "cmd", C: cn, Cmd: pick(r, []string{"create-pub", "create-pub", "create-sub"})})
			if g, ok := conns[cn]; ok && !g.closed && g.busy < 0 && g.sid > 0 {
				g.busy = nextObj
				pend = append(pend, nextObj)
				nextObj++
				if r.chance(65) { // complete at once
					t := pend[len(pend)-1]
					pend = pend[:len(pend)-1]
					c.Ops = append(c.Ops, c18Op{K: "done", T: t, R: pick(r, []string{"ok", "ok", "ok", "ok", "fail", "timeout"})})
					g.busy = -1
				} else if r.chance(50) {
					// the session goes on on a new connection while the media server is working
					nc := nextConn
					nextConn++
					c.Ops = append(c.Ops, c18Op{K: "resume", C: nc, Sid: g.sid})
					g.closed = true
					conns[nc] = &gconn{sid: g.sid, busy: -1}
					live[g.sid] = nc
				}
			}
		case x < 34 && len(pend) > 0: // a creation completes
			j := r.intn(len(pend))
			t := pend[j]
			pend = append(pend[:j], pend[j+1:]...)
			c.Ops = append(c.Ops, c18Op{K: "done", T: t, R: pick(r, []string{"ok", "ok", "ok", "fail", "timeout"})})
			for _, g := range conns {
				if g.busy == t {
					g.busy = -1
				}
			}
		case x < 48: // delete, also of other sessions' objects and with the wrong kind
			c.Ops = append(c.Ops, c18Op{K: "cmd", C: liveConn(), Cmd: pick(r, []string{"delete-pub", "delete-pub", "delete-sub"}), Id: anyObj()})
		case x < 56:
			c.Ops = append(c.Ops, c18Op{K: "payload", C: liveConn(), Id: anyObj(), P: pick(r, []string{"end", "fwd", "bad"})})
		case x < 61:
			c.Ops = append(c.Ops, c18Op{K: "cmd", C: liveConn(), Cmd: pick(r, []string{"streams", "streams", "other"}), Id: anyObj()})
		case x < 66: // bye
			cn := liveConn()
			if g, ok := conns[cn]; ok && g.sid > 0 && !g.closed && g.busy < 0 {
				c.Ops = append(c.Ops, c18Op{K: "bye", C: cn, In: inside()})
				closeSid(g.sid)
			} else {
				c.Ops = append(c.Ops, c18Op{K: "bye", C: cn})
			}
		case x < 72: // drop
			cn := liveConn()
			if r.chance(30) {
				cn = r.intn(nextConn + 1)
			}
			c.Ops = append(c.Ops, c18Op{K: "drop", C: cn})
			if g, ok := conns[cn]; ok {
				g.closed = true
			}
		case x < 80: // resume on a new connection
			s := anySid()
			cn := nextConn
			nextConn++
			c.Ops = append(c.Ops, c18Op{K: "resume", C: cn, Sid: s})
			if old, ok := live[s]; ok {
				conns[old].closed = true
				conns[cn] = &gconn{sid: s, busy: -1}
				live[s] = cn
			} else {
				conns[cn] = &gconn{busy: -1}
			}
		case x < 85:
			s := anySid()
			if _, ok := live[s]; ok {
				c.Ops = append(c.Ops, c18Op{K: "expire", Sid: s, In: inside()})
			} else {
				c.Ops = append(c.Ops, c18Op{K: "expire", Sid: s})
			}
			closeSid(s)
		case x < 88:
			c.Ops = append(c.Ops, c18Op{K: "mculost"})
		case x < 91:
			hello()
		case x < 94: // not welcomed: fresh connection
			cn := nextConn
			nextConn++
			conns[cn] = &gconn{busy: -1}
			c.Ops = append(c.Ops, pick(r, []c18Op{{K: "cmd", C: cn, Cmd: "create-pub"}, {K: "cmd", C: cn, Cmd: "delete-pub", Id: anyObj()},
				{K: "payload", C: cn, Id: anyObj(), P: "fwd"}, {K: "bye", C: cn}, {K: "unknown", C: cn}, {K: "resumebad", C: cn},
				{K: "hello", C: cn, Tok: c18BadTok(r)}}))
		case x < 97:
			c.Ops = append(c.Ops, c18Op{K: "malformed", C: liveConn(), P: pick(r, []string{"json", "notype", "nobody"})})
		default:
			c.Ops = append(c.Ops, pick(r, []c18Op{{K: "hello", C: liveConn(), Tok: c18ValidTok(r)}, {K: "unknown", C: liveConn()}, {K: "resume", C: liveConn(), Sid: anySid()}}))
		}
	}
	// let everything in flight complete, in random order
	for len(pend) > 0 {
		j := r.intn(len(pend))
		c.Ops = append(c.Ops, c18Op{K: "done", T: pend[j], R: pick(r, []string{"ok", "ok", "fail"})})
		pend = append(pend[:j], pend[j+1:]...)
	}
	return c18Remotify(r, c)
}

// sessions that end with creations in flight: 1-3 sessions, each with 0-2 objects and 1-3
// creations held at the media server (every further one on a connection the session was
// resumed on), then every session ends by bye or expiry with a random part of ALL held
// creations (its own and the others') completing in random windows of its close, with any
// answer; what is still held afterwards completes outside; at the end a fresh session
// addresses every object number
func c18GenCloseCase(r *vrng, id int) *c18Case {
	c := &c18Case{Id: id, Family: "closing"}
	nsess := 1 + r.intn(3)
	type gs struct {
		sid, conn int
	}
	var ss []*gs
	nextConn, nextObj := 0, 0
	var pend []int
	for i := 0; i < nsess; i++ {
		c.Ops = append(c.Ops, c18Op{K: "hello", C: nextConn, Tok: c18ValidTok(r)})
		ss = append(ss, &gs{sid: i + 1, conn: nextConn})
		nextConn++
	}
	kinds := []string{"create-pub", "create-pub", "create-sub"}
	for _, g := range ss {
		for j := r.intn(3); j > 0; j-- {
			c.Ops = append(c.Ops, c18Op{K: "cmd", C: g.conn, Cmd: pick(r, kinds)}, c18Op{K: "done", T: nextObj, R: "ok"})
			nextObj++
		}
	}
	for _, g := range ss {
		for j := 1 + r.intn(3); j > 0; j-- {
			c.Ops = append(c.Ops, c18Op{K: "cmd", C: g.conn, Cmd: pick(r, kinds)})
			pend = append(pend, nextObj)
			nextObj++
			// the message loop of g.conn is blocked now: the session goes on elsewhere
			c.Ops = append(c.Ops, c18Op{K: "resume", C: nextConn, Sid: g.sid})
			g.conn = nextConn
			nextConn++
		}
	}
	order := r.intn(2)
	for i := range ss {
		g := ss[i]
		if order == 1 {
			g = ss[len(ss)-1-i]
		}
		var in []c18Slot
		var rest []int
		for _, t := range pend {
			if r.chance(60) {
				in = append(in, c18Slot{W: pick(r, c18Windows), T: t, R: pick(r, []string{"ok", "ok", "ok", "ok", "ok", "fail", "timeout"})})
			} else {
				rest = append(rest, t)
			}
		}
		pend = rest
		// the order of the schedule is the order inside a window
		for j := len(in) - 1; j > 0; j-- {
			k := r.intn(j + 1)
			in[j], in[k] = in[k], in[j]
		}
		if r.chance(50) {
			c.Ops = append(c.Ops, c18Op{K: "bye", C: g.conn, In: in})
		} else {
			if r.chance(50) {
				c.Ops = append(c.Ops, c18Op{K: "drop", C: g.conn})
			}
			c.Ops = append(c.Ops, c18Op{K: "expire", Sid: g.sid, In: in})
		}
		if r.chance(30) && len(pend) > 0 {
			j := r.intn(len(pend))
			c.Ops = append(c.Ops, c18Op{K: "done", T: pend[j], R: pick(r, []string{"ok", "ok", "fail"})})
			pend = append(pend[:j], pend[j+1:]...)
		}
	}
	for _, t := range pend {
		c.Ops = append(c.Ops, c18Op{K: "done", T: t, R: "ok"})
	}
	c.Ops = append(c.Ops, c18Op{K: "hello", C: nextConn, Tok: c18ValidTok(r)})
	for t := 0; t < nextObj; t++ {
		c.Ops = append(c.Ops, c18Op{K: "payload", C: nextConn, Id: t, P: "end"})
	}
	return c18Remotify(r, c)
}

// directed histories: the schedule "creation completes after the session was
// closed" in its variants, deletes across sessions, loss of the media server
// c18Remotify turns about half of the create-subscriber requests of a generated case into
// the remote form, and about half of the failing answers of the media server into "the
// remote publisher was created, attaching the subscriber failed" (for a local creation
// that is the plain failure).  The model's operations stay what they were.
func c18Remotify(r *vrng, c *c18Case) *c18Case {
	sub := func(res string) string {
		if (res == "fail" || res == "timeout") && r.chance(50) {
			return "sub" + res
		}
		return res
	}
	for i := range c.Ops {
		o := &c.Ops[i]
		if o.K == "cmd" && o.Cmd == "create-sub" && r.chance(55) {
			o.Remote = true
		}
		if o.K == "done" {
			o.R = sub(o.R)
		}
		for j := range o.In {
			o.In[j].R = sub(o.In[j].R)
		}
	}
	if c.Family != "" {
		c.Family += "+remote"
	}
	return c
}

func c18Directed() []*c18Case {
	v := func() *c18Tok { return &c18Tok{Alg: "RS256", Iss: "iss0", Key: 0, Iat: i64(0), Class: "valid"} }
	var out []*c18Case
	add := func(name string, ops ...c18Op) {
		c := &c18Case{Family: "directed:" + name, Ops: ops}
		if strings.HasPrefix(name, "create-after-bye") || strings.HasPrefix(name, "create-after-expiry") {
			// the witness schedules of the defect repaired by fixes/C18/01-*.patch
			c.Finding = "C18/create-after-close"
		}
		out = append(out, c)
	}
	for _, kind := range []string{"create-pub", "create-sub"} {
		// another connection resumes the session and says bye while the media server is still working
		add("create-after-bye/"+kind,
			c18Op{K: "hello", C: 0, Tok: v()}, c18Op{K: "cmd", C: 0, Cmd: kind}, c18Op{K: "resume", C: 1, Sid: 1}, c18Op{K: "bye", C: 1},
			c18Op{K: "done", T: 0, R: "ok"}, c18Op{K: "hello", C: 2, Tok: v()}, c18Op{K: "payload", C: 2, Id: 0, P: "end"})
		add("create-after-expiry/"+kind,
			c18Op{K: "hello", C: 0, Tok: v()}, c18Op{K: "cmd", C: 0, Cmd: kind}, c18Op{K: "drop", C: 0}, c18Op{K: "expire", Sid: 1},
			c18Op{K: "done", T: 0, R: "ok"})
		add("create-after-mculost/"+kind,
			c18Op{K: "hello", C: 0, Tok: v()}, c18Op{K: "cmd", C: 0, Cmd: kind}, c18Op{K: "mculost"}, c18Op{K: "done", T: 0, R: "ok"}, c18Op{K: "bye", C: 0})
		add("create-fails-after-bye/"+kind,
			c18Op{K: "hello", C: 0, Tok: v()}, c18Op{K: "cmd", C: 0, Cmd: kind}, c18Op{K: "resume", C: 1, Sid: 1}, c18Op{K: "bye", C: 1},
			c18Op{K: "done", T: 0, R: "fail"})
	}
	// the close of the session in its phases: the creation completes while ProxySession.Close
	// is frozen in each window that can be forced on the real code (bye and expiry go through
	// the same Close); afterwards a new session addresses the object
	for _, kind := range []string{"create-pub", "create-sub"} {
		for _, w := range c18Windows {
			add("create-inside-bye/"+w+"/"+kind,
				c18Op{K: "hello", C: 0, Tok: v()}, c18Op{K: "cmd", C: 0, Cmd: kind}, c18Op{K: "resume", C: 1, Sid: 1},
				c18Op{K: "bye", C: 1, In: []c18Slot{{W: w, T: 0, R: "ok"}}},
				c18Op{K: "hello", C: 2, Tok: v()}, c18Op{K: "payload", C: 2, Id: 0, P: "end"})
			add("create-inside-expiry/"+w+"/"+kind,
				c18Op{K: "hello", C: 0, Tok: v()}, c18Op{K: "cmd", C: 0, Cmd: kind}, c18Op{K: "drop", C: 0},
				c18Op{K: "expire", Sid: 1, In: []c18Slot{{W: w, T: 0, R: "ok"}}},
				c18Op{K: "hello", C: 1, Tok: v()}, c18Op{K: "payload", C: 1, Id: 0, P: "end"})
		}
	}
	// several creations of the closing session (one per connection it was resumed from), one of
	// another session, a failure and a timeout, spread over the windows of one close; the session
	// already owns objects
	add("create-inside-bye/mixed",
		c18Op{K: "hello", C: 0, Tok: v()}, c18Op{K: "hello", C: 1, Tok: v()},
		c18Op{K: "cmd", C: 0, Cmd: "create-pub"}, c18Op{K: "done", T: 0, R: "ok"},
		c18Op{K: "cmd", C: 0, Cmd: "create-sub"}, c18Op{K: "done", T: 1, R: "ok"},
		c18Op{K: "cmd", C: 0, Cmd: "create-pub"}, c18Op{K: "resume", C: 2, Sid: 1},
		c18Op{K: "cmd", C: 2, Cmd: "create-sub"}, c18Op{K: "resume", C: 3, Sid: 1},
		c18Op{K: "cmd", C: 3, Cmd: "create-pub"}, c18Op{K: "resume", C: 4, Sid: 1},
		c18Op{K: "cmd", C: 4, Cmd: "create-sub"}, c18Op{K: "resume", C: 5, Sid: 1},
		c18Op{K: "cmd", C: 1, Cmd: "create-pub"},
		c18Op{K: "bye", C: 5, In: []c18Slot{{W: "ctx", T: 3, R: "ok"}, {W: "subs", T: 2, R: "ok"}, {W: "subs", T: 6, R: "ok"}, {W: "remote", T: 4, R: "fail"}, {W: "remote", T: 5, R: "ok"}}},
		c18Op{K: "payload", C: 1, Id: 2, P: "end"}, c18Op{K: "payload", C: 1, Id: 5, P: "fwd"}, c18Op{K: "payload", C: 1, Id: 6, P: "end"},
		c18Op{K: "cmd", C: 1, Cmd: "delete-pub", Id: 2})
	add("create-inside-expiry/mixed",
		c18Op{K: "hello", C: 0, Tok: v()}, c18Op{K: "hello", C: 1, Tok: v()},
		c18Op{K: "cmd", C: 0, Cmd: "create-sub"}, c18Op{K: "done", T: 0, R: "ok"},
		c18Op{K: "cmd", C: 0, Cmd: "create-sub"}, c18Op{K: "resume", C: 2, Sid: 1},
		c18Op{K: "cmd", C: 2, Cmd: "create-pub"}, c18Op{K: "resume", C: 3, Sid: 1},
		c18Op{K: "cmd", C: 3, Cmd: "create-pub"}, c18Op{K: "drop", C: 3},
		c18Op{K: "cmd", C: 1, Cmd: "create-sub"},
		c18Op{K: "expire", Sid: 1, In: []c18Slot{{W: "list", T: 2, R: "ok"}, {W: "ctx", T: 1, R: "ok"}, {W: "subs", T: 4, R: "ok"}, {W: "remote", T: 3, R: "timeout"}}},
		c18Op{K: "payload", C: 1, Id: 1, P: "end"}, c18Op{K: "payload", C: 1, Id: 2, P: "end"}, c18Op{K: "cmd", C: 1, Cmd: "streams", Id: 4},
		c18Op{K: "bye", C: 1, In: []c18Slot{{W: "remote", T: 9, R: "ok"}}})
	// remote create-subscriber (remoteUrl + remoteToken): every outcome of the two calls at the
	// media server, with the session alive afterwards (the request's connection goes on, a second
	// request follows), ending, ended before the answer, and closing while the answer arrives
	rs := func(cn int) c18Op { return c18Op{K: "cmd", C: cn, Cmd: "create-sub", Remote: true} }
	for _, res := range []string{"ok", "fail", "timeout", "subfail", "subtimeout"} {
		add("remote-sub/"+res+"/bye",
			c18Op{K: "hello", C: 0, Tok: v()}, rs(0), c18Op{K: "done", T: 0, R: res},
			c18Op{K: "payload", C: 0, Id: 0, P: "end"}, rs(0), c18Op{K: "done", T: 1, R: "ok"},
			c18Op{K: "cmd", C: 0, Cmd: "delete-sub", Id: 0}, c18Op{K: "bye", C: 0},
			c18Op{K: "hello", C: 1, Tok: v()}, c18Op{K: "payload", C: 1, Id: 1, P: "end"})
		add("remote-sub/"+res+"/expiry",
			c18Op{K: "hello", C: 0, Tok: v()}, c18Op{K: "hello", C: 1, Tok: v()}, rs(0), rs(1), c18Op{K: "done", T: 1, R: "ok"},
			c18Op{K: "done", T: 0, R: res}, c18Op{K: "drop", C: 0}, c18Op{K: "expire", Sid: 1}, c18Op{K: "cmd", C: 1, Cmd: "delete-sub", Id: 1},
			c18Op{K: "cmd", C: 1, Cmd: "delete-sub", Id: 0}, c18Op{K: "bye", C: 1})
		add("remote-sub/"+res+"/mculost",
			c18Op{K: "hello", C: 0, Tok: v()}, rs(0), c18Op{K: "done", T: 0, R: res}, c18Op{K: "mculost"},
			rs(0), c18Op{K: "mculost"}, c18Op{K: "done", T: 1, R: res}, c18Op{K: "bye", C: 0})
		add("remote-sub/"+res+"/after-bye",
			c18Op{K: "hello", C: 0, Tok: v()}, rs(0), c18Op{K: "resume", C: 1, Sid: 1}, c18Op{K: "bye", C: 1},
			c18Op{K: "done", T: 0, R: res}, c18Op{K: "hello", C: 2, Tok: v()}, c18Op{K: "payload", C: 2, Id: 0, P: "end"})
		add("remote-sub/"+res+"/after-expiry",
			c18Op{K: "hello", C: 0, Tok: v()}, rs(0), c18Op{K: "drop", C: 0}, c18Op{K: "expire", Sid: 1},
			c18Op{K: "done", T: 0, R: res})
		for _, w := range c18Windows {
			add("remote-sub/"+res+"/inside-bye/"+w,
				c18Op{K: "hello", C: 0, Tok: v()}, rs(0), c18Op{K: "resume", C: 1, Sid: 1},
				c18Op{K: "bye", C: 1, In: []c18Slot{{W: w, T: 0, R: res}}},
				c18Op{K: "hello", C: 2, Tok: v()}, c18Op{K: "payload", C: 2, Id: 0, P: "end"})
		}
	}
	add("remote-sub/before-hello", rs(0), c18Op{K: "hello", C: 0, Tok: v()}, rs(0), c18Op{K: "done", T: 0, R: "subfail"})
	add("delete-across-sessions",
		c18Op{K: "hello", C: 0, Tok: v()}, c18Op{K: "hello", C: 1, Tok: v()},
		c18Op{K: "cmd", C: 0, Cmd: "create-pub"}, c18Op{K: "done", T: 0, R: "ok"},
		c18Op{K: "cmd", C: 1, Cmd: "create-sub"}, c18Op{K: "done", T: 1, R: "ok"},
		c18Op{K: "cmd", C: 1, Cmd: "delete-pub", Id: 0}, c18Op{K: "cmd", C: 0, Cmd: "delete-sub", Id: 1},
		c18Op{K: "cmd", C: 0, Cmd: "delete-sub", Id: 0}, c18Op{K: "cmd", C: 1, Cmd: "delete-pub", Id: 1},
		c18Op{K: "cmd", C: 0, Cmd: "delete-pub", Id: 0}, c18Op{K: "cmd", C: 1, Cmd: "delete-sub", Id: 1},
		c18Op{K: "cmd", C: 0, Cmd: "delete-pub", Id: 0})
	add("cleanup-bye-expire-lost",
		c18Op{K: "hello", C: 0, Tok: v()}, c18Op{K: "hello", C: 1, Tok: v()}, c18Op{K: "hello", C: 2, Tok: v()},
		c18Op{K: "cmd", C: 0, Cmd: "create-pub"}, c18Op{K: "done", T: 0, R: "ok"}, c18Op{K: "cmd", C: 0, Cmd: "create-sub"}, c18Op{K: "done", T: 1, R: "ok"},
		c18Op{K: "cmd", C: 1, Cmd: "create-pub"}, c18Op{K: "done", T: 2, R: "ok"}, c18Op{K: "cmd", C: 2, Cmd: "create-sub"}, c18Op{K: "done", T: 3, R: "ok"},
		c18Op{K: "bye", C: 0}, c18Op{K: "payload", C: 1, Id: 0, P: "fwd"}, c18Op{K: "drop", C: 1}, c18Op{K: "expire", Sid: 2},
		c18Op{K: "cmd", C: 2, Cmd: "streams", Id: 2}, c18Op{K: "mculost"}, c18Op{K: "payload", C: 2, Id: 3, P: "end"})
	add("resume-takes-over",
		c18Op{K: "hello", C: 0, Tok: v()}, c18Op{K: "cmd", C: 0, Cmd: "create-pub"}, c18Op{K: "done", T: 0, R: "ok"},
		c18Op{K: "resume", C: 1, Sid: 1}, c18Op{K: "cmd", C: 0, Cmd: "delete-pub", Id: 0}, c18Op{K: "cmd", C: 1, Cmd: "delete-pub", Id: 0},
		c18Op{K: "resumebad", C: 2}, c18Op{K: "resume", C: 3, Sid: 7}, c18Op{K: "bye", C: 1}, c18Op{K: "resume", C: 4, Sid: 1})
	add("before-hello",
		c18Op{K: "cmd", C: 0, Cmd: "create-pub"}, c18Op{K: "cmd", C: 0, Cmd: "create-sub"}, c18Op{K: "cmd", C: 0, Cmd: "delete-pub", Id: 0},
		c18Op{K: "payload", C: 0, Id: 0, P: "end"}, c18Op{K: "payload", C: 0, Id: 0, P: "fwd"}, c18Op{K: "unknown", C: 0},
		c18Op{K: "malformed", C: 0, P: "json"}, c18Op{K: "malformed", C: 0, P: "notype"}, c18Op{K: "malformed", C: 0, P: "nobody"},
		c18Op{K: "bye", C: 0}, c18Op{K: "hello", C: 0, Tok: v()}, c18Op{K: "cmd", C: 0, Cmd: "create-pub"}, c18Op{K: "done", T: 0, R: "ok"})
	return out
}

// ---- stress: completion racing with the close of the session (test, not proof) -------

func c18Stress(t *testing.T, env verifEnv, keys *c18KeySet, sink *caseSink) {
	rounds := 40
	if env.thorough() {
		rounds = 600
	}
	left := 0
	for round := 0; round < rounds; round++ {
		h := c18NewRun(t, keys)
		h.mcu.completeOnCancel = true
		v := &c18Tok{Alg: "RS256", Iss: "iss0", Key: 0, Iat: i64(0)}
		h.exec(0, c18Op{K: "hello", C: 0, Tok: v})
		kind := "create-pub"
		if round%2 == 1 {
			kind = "create-sub"
		}
		// every fourth round the subscriber is a remote one; every eighth its attach fails at that moment
		remote := round%4 == 3
		if remote {
			kind = "create-sub(remote)"
			if round%8 == 7 {
				h.mcu.cancelRes = "subfail"
				kind = "create-sub(remote, attach fails)"
			}
		}
		h.exec(1, c18Op{K: "cmd", C: 0, Cmd: strings.SplitN(kind, "(", 2)[0], Remote: remote})
		h.exec(2, c18Op{K: "resume", C: 1, Sid: 1})
		// bye cancels the request context; the fake media server answers "created" at that very moment
		h.exec(3, c18Op{K: "bye", C: 1})
		h.settle(5)
		h.proxy.clientsLock.RLock()
		nclients := len(h.proxy.clients)
		h.proxy.clientsLock.RUnlock()
		h.mcu.mu.Lock()
		nopen := len(h.mcu.open)
		for _, rp := range h.mcu.rpubs {
			if rp.refcnt.Load() > 0 {
				nopen++ // a remote publisher somebody still holds a reference to
			}
		}
		h.mcu.mu.Unlock()
		if nclients != 0 || nopen != 0 {
			left++
			if left == 1 {
				sink.violation(200000+round, fmt.Sprintf("a %s completing at the moment its session is closed leaves %d registered client id(s) and %d open object(s) behind although no session exists", kind, nclients, nopen),
					map[string]interface{}{"scenario": "c18Stress", "round": round, "kind": kind})
			}
		}
		h.shutdown()
	}
	sink.stats.Histogram["stress_rounds"] = rounds
	sink.stats.Histogram["stress_rounds_with_leftover"] = left
}

// ---- the scenario ----------------------------------------------------------------------

func TestVerifC18(t *testing.T) {
	env := getVerifEnv(t, "C18")
	log.SetOutput(io.Discard)
	sink := newCaseSink(t, env, "C18", "corr.Run_C18", 40)
	sink.preamble = "Open Scope N_scope.\n"
	keys := c18MakeKeys(t, t.TempDir())

	var cases []*c18Case
	if env.replay != "" {
		var cs []c18Case
		readReplay(t, env.replay, &cs)
		for i := range cs {
			cases = append(cases, &cs[i])
		}
	} else {
		for _, c := range c18Directed() {
			c.Id = len(cases)
			cases = append(cases, c)
		}
		n := 260
		if env.thorough() {
			n = 3600
		}
		for i := 0; i < n; i++ {
			r := newVrng(env.seed, uint64(i))
			id := len(cases)
			if i%5 < 2 {
				cases = append(cases, c18GenTokenCase(r, id))
			} else if i%10 == 4 {
				cases = append(cases, c18GenCloseCase(r, id))
			} else {
				cases = append(cases, c18GenScriptCase(r, id))
			}
		}
	}
	notes := map[string]int{}
	for _, c := range cases {
		var term string
		var outs []string
		var skip bool
		for attempt := 0; attempt < 3; attempt++ {
			var nn map[string]int
			term, outs, nn, skip = c18RunCase(t, keys, c)
			for k, v := range nn {
				notes[k] += v
			}
			if !skip {
				break
			}
			sink.count("rerun_token_near_time_boundary")
		}
		if skip {
			continue
		}
		c.Outs = nil
		fam := c.Family
		if i := strings.Index(fam, ":"); i >= 0 {
			fam = fam[:i]
		}
		sink.count("family_" + fam)
		accepted, refused, created := 0, 0, 0
		for i, o := range c.Ops {
			sink.count("op_" + o.K)
			if o.K == "cmd" && o.Cmd == "create-sub" && o.Remote {
				sink.count("remote_create_subscriber")
			}
			if o.K == "done" && strings.HasPrefix(o.R, "sub") {
				sink.count("answer_remote_attach_" + strings.TrimPrefix(o.R, "sub"))
			}
			for _, sl := range o.In {
				sink.count("completion_inside_close_" + sl.W)
			}
			if o.K == "hello" && o.Tok != nil {
				sink.count("token_" + o.Tok.Class)
				if strings.Contains(outs[i], "MHello") {
					accepted++
					sink.count("hello_accepted")
				} else if strings.Contains(outs[i], "ob true") {
					refused++
					sink.count("hello_refused")
				}
			}
			if o.K == "done" && strings.Contains(outs[i], "MCmd") {
				created++
			}
			for _, e := range []string{"EHelloExpected", "EAuthFailed", "ETokenExpired", "ETokenNotValidYet", "ENoSuchSession", "EUnknownClient", "EBadRequest", "EUnsupportedPayload", "EInvalidFormat", "EInternal", "ETimeout", "EOtherErr", "MOther", "ob false"} {
				if strings.Contains(outs[i], e) {
					sink.count("reply_" + strings.ReplaceAll(e, " ", "_"))
				}
			}
		}
		sink.count(fmt.Sprintf("len_%02d-%02d", len(c.Ops)/10*10, len(c.Ops)/10*10+9))
		sink.add(term, c, accepted > 0 && (created > 0 || refused > 0), strings.Join(outs, "|"))
	}
	for k, v := range notes {
		sink.stats.Histogram["note_"+k] = v
		sink.stats.Notes = append(sink.stats.Notes, fmt.Sprintf("%s: %d", k, v))
	}
	if env.replay == "" {
		c18Stress(t, env, keys, sink)
	}
	sink.close("directed schedules (incl. creations completing inside each forcible window of ProxySession.Close) + seeded sessions ending with creations in flight + seeded token cases (valid tokens and 30 mutation classes) + seeded command scripts of 1-3 sessions (create-subscriber local and remote: remote publisher created / refused, subscriber attached / attach fails, reference counts of the remote publishers observed) on the real ProxyServer over websockets with a gated fake media server; non-trivial = at least one accepted hello and (an object created or a hello refused); distinct = distinct observation sequences")
}
