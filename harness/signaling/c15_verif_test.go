//go:build verif

package signaling

import (
	"bytes"
	"context"
	"crypto/aes"
	"crypto/cipher"
	"crypto/hmac"
	"crypto/sha256"
	"encoding/base64"
	"encoding/hex"
	"encoding/json"
	"errors"
	"fmt"
	"io"
	"log"
	"net/http/httptest"
	"sort"
	"strconv"
	"strings"
	"sync"
	"testing"
	"time"
	"unicode/utf8"

	"github.com/gorilla/mux"
	"google.golang.org/protobuf/proto"
	"google.golang.org/protobuf/types/known/timestamppb"
)

// ---- C15: the real SessionIdCodec, the real hub lookups, the real LRU ---------------
//
// Every operation is executed on the implementation; next to what the
// implementation answered the harness records the answers of the real
// libraries (crypto/hmac, AES-CTR, protobuf) for the queries the operation
// makes.  The Coq side evaluates the model with those answers as oracle
// tables and compares; the trace predicates P_C15 / P_C15_hub are evaluated on
// the implementation's answers.

const (
	c15Private = 0
	c15Public  = 1
)

var c15RoleCoq = []string{"Private", "Public"}
var c15RoleName = []string{privateSessionName, publicSessionName}

func c15Chk(b []byte) uint64 {
	h := uint64(len(b))
	for _, c := range b {
		h = (h*33 + uint64(c) + 1) % (1 << 40)
	}
	return h
}

// bytes as a Coq term: bx <len> 0x<hex>
func c15Bx(b []byte) string {
	if len(b) == 0 {
		return "(bx 0 0)"
	}
	return fmt.Sprintf("(bx %d 0x%s)", len(b), hex.EncodeToString(b))
}

// ---- key sets ------------------------------------------------------------------------

type c15Keyset struct {
	HashHex  string `json:"hash"`
	BlockHex string `json:"block,omitempty"` // empty: no block key

	// mode 3 (hubs built from their configuration): the texts of the options hashkey / blockkey of
	// section [sessions]; Absent: the option blockkey is not in the configuration at all
	Absent bool `json:"absent,omitempty"`

	hash, block []byte
	hashNo      string // the number of the hash key as a Coq term
	blockNo     string // "": none
	codec       *SessionIdCodec
}

type c15Universe struct {
	keyNo  map[string]int // key material -> number
	dataNo map[string]int // SessionIdData value -> number
}

func newC15Universe() *c15Universe {
	return &c15Universe{keyNo: map[string]int{}, dataNo: map[string]int{}}
}

func (u *c15Universe) intern(m map[string]int, k string) int {
	if n, ok := m[k]; ok {
		return n
	}
	n := len(m) + 1
	m[k] = n
	return n
}

func (u *c15Universe) initKeyset(k *c15Keyset) {
	k.hash, _ = hex.DecodeString(k.HashHex)
	k.hashNo = strconv.Itoa(u.intern(u.keyNo, "h"+k.HashHex))
	k.blockNo = ""
	k.block = nil
	if k.BlockHex != "" {
		k.block, _ = hex.DecodeString(k.BlockHex)
		k.blockNo = strconv.Itoa(u.intern(u.keyNo, "b"+k.BlockHex))
	}
	k.codec = NewSessionIdCodec(k.hash, k.block)
}

// the number of a key of a configured hub: key_num of corr/Run_C15.v (a leading 1, then the bytes)
func c15KeyNum(b []byte) string { return "0x01" + hex.EncodeToString(b) }

// a configured key set: the keys are the bytes of the configuration texts; the codec is the one
// of the hub NewHub built (set by the runner; nil when NewHub refused the configuration)
func (u *c15Universe) initConfigKeyset(k *c15Keyset) {
	k.hash, _ = hex.DecodeString(k.HashHex)
	k.hashNo = c15KeyNum(k.hash)
	k.blockNo = ""
	k.block = nil
	if k.BlockHex != "" && !k.Absent {
		k.block, _ = hex.DecodeString(k.BlockHex)
		k.blockNo = c15KeyNum(k.block)
	}
	k.codec = nil
}

func (k *c15Keyset) coq() string {
	if k.blockNo == "" {
		return fmt.Sprintf("kx %s", k.hashNo)
	}
	return fmt.Sprintf("kb %s %s", k.hashNo, k.blockNo)
}

func (k *c15Keyset) coqCfg() string {
	return fmt.Sprintf("cf %s %s", c15Bx(k.hash), c15Bx(k.block))
}

// ---- data values ------------------------------------------------------------------------

type c15Data struct {
	Sid        uint64 `json:"sid"`
	HasCreated bool   `json:"hc,omitempty"`
	Sec        int64  `json:"sec,omitempty"`
	Nanos      int32  `json:"ns,omitempty"`
	BackendHex string `json:"b,omitempty"`
}

func (d *c15Data) msg() *SessionIdData {
	b, _ := hex.DecodeString(d.BackendHex)
	m := &SessionIdData{Sid: d.Sid, BackendId: string(b)}
	if d.HasCreated {
		m.Created = &timestamppb.Timestamp{Seconds: d.Sec, Nanos: d.Nanos}
	}
	return m
}

func (d *c15Data) empty() bool { return d.Sid == 0 && !d.HasCreated && d.BackendHex == "" }

// the value as a Coq term: cd <Sid> <number of the value>
func (u *c15Universe) cd(m *SessionIdData) string {
	var cs, cn, cu string
	if m.Created != nil {
		cs = fmt.Sprintf("%d.%d", m.Created.Seconds, m.Created.Nanos)
		cu = hex.EncodeToString(m.Created.ProtoReflect().GetUnknown())
		cn = "c"
	}
	key := fmt.Sprintf("%d/%s%s/%s/%x/%x", m.Sid, cn, cs, cu, m.BackendId, []byte(m.ProtoReflect().GetUnknown()))
	return fmt.Sprintf("(cd %d %d)", m.Sid, u.intern(u.dataNo, key))
}

// ---- answers of the real libraries -----------------------------------------------------

type c15Answers struct {
	macs, ctrs, desers, sers []string
}

func (a *c15Answers) coq() string {
	if len(a.macs)+len(a.ctrs)+len(a.desers)+len(a.sers) == 0 {
		return "no_answers"
	}
	return fmt.Sprintf("(mkans %s %s %s %s)", coqList(a.macs), coqList(a.ctrs), coqList(a.desers), coqList(a.sers))
}

func c15Hmac(key, msg []byte) []byte {
	h := hmac.New(sha256.New, key)
	h.Write(msg)
	return h.Sum(nil)
}

func c15Ctr(key, iv, text []byte) []byte {
	block, err := aes.NewCipher(key)
	if err != nil {
		panic(err)
	}
	out := make([]byte, len(text))
	cipher.NewCTR(block, iv).XORKeyStream(out, text)
	return out
}

func (a *c15Answers) addMac(k *c15Keyset, msg []byte) []byte {
	mac := c15Hmac(k.hash, msg)
	a.macs = append(a.macs, fmt.Sprintf("am %s %d %s", k.hashNo, c15Chk(msg), c15Bx(mac)))
	return mac
}

func (a *c15Answers) addCtr(k *c15Keyset, iv, text []byte) []byte {
	out := c15Ctr(k.block, iv, text)
	a.ctrs = append(a.ctrs, fmt.Sprintf("am %s %d %s", k.blockNo, c15Chk(append(append([]byte{}, iv...), text...)), c15Bx(out)))
	return out
}

func (a *c15Answers) addDeser(u *c15Universe, p []byte) {
	var d SessionIdData
	if err := proto.Unmarshal(p, &d); err != nil {
		a.desers = append(a.desers, fmt.Sprintf("ad_none %d", c15Chk(p)))
	} else {
		a.desers = append(a.desers, fmt.Sprintf("ad_some %d %s", c15Chk(p), u.cd(&d)))
	}
}

func (a *c15Answers) addSer(u *c15Universe, m *SessionIdData) ([]byte, bool) {
	p, err := proto.Marshal(m)
	if err != nil {
		a.sers = append(a.sers, fmt.Sprintf("as_none %s", u.cd(m)))
		return nil, false
	}
	a.sers = append(a.sers, fmt.Sprintf("as_some %s %s", u.cd(m), c15Bx(p)))
	return p, true
}

func c15Reverse(b []byte) []byte {
	r := make([]byte, len(b))
	for i := range b {
		r[len(b)-1-i] = b[i]
	}
	return r
}

// the queries a decode of s makes, answered by the real libraries; outerOK =
// the whole string is base64 for Go's decoder
func (u *c15Universe) decAnswers(role int, k *c15Keyset, s string, a *c15Answers) (outerOK bool) {
	b, err := base64.URLEncoding.DecodeString(s)
	if err != nil {
		return false
	}
	if role == c15Public {
		b = c15Reverse(b)
	}
	parts := bytes.SplitN(b, []byte("|"), 3)
	if len(parts) != 3 {
		return true
	}
	msg := []byte(c15RoleName[role] + "|" + string(parts[0]) + "|" + string(parts[1]))
	mac := a.addMac(k, msg)
	if !hmac.Equal(mac, parts[2]) {
		return true
	}
	c, err := base64.URLEncoding.DecodeString(string(parts[1]))
	if err != nil {
		return true
	}
	p := c
	if k.block != nil {
		if len(c) <= aes.BlockSize {
			return true
		}
		p = a.addCtr(k, c[:aes.BlockSize], c[aes.BlockSize:])
	}
	a.addDeser(u, p)
	return true
}

// time stamp and initialisation vector of a minted id (inputs of the encoder
// that the harness does not control), and the answers for its queries
func (u *c15Universe) mintAnswers(role int, k *c15Keyset, m *SessionIdData, id string, a *c15Answers) (ts string, iv []byte) {
	ts = strconv.FormatInt(time.Now().Unix(), 10)
	iv = make([]byte, aes.BlockSize)
	if id != "" {
		b, err := base64.URLEncoding.DecodeString(id)
		if err == nil {
			if role == c15Public {
				b = c15Reverse(b)
			}
			parts := bytes.SplitN(b, []byte("|"), 3)
			if len(parts) == 3 {
				ts = string(parts[0])
				if c, err := base64.URLEncoding.DecodeString(string(parts[1])); err == nil && k.block != nil && len(c) >= aes.BlockSize {
					iv = c[:aes.BlockSize]
				}
			}
		}
	}
	p, ok := a.addSer(u, m)
	if !ok {
		return
	}
	c := p
	if k.block != nil {
		c = append(append([]byte{}, iv...), a.addCtr(k, iv, p)...)
	}
	v := base64.URLEncoding.EncodeToString(c)
	a.addMac(k, []byte(c15RoleName[role]+"|"+ts+"|"+v))
	return
}

// ---- error classes (names of the constructors of [err] in model/SessionId.v) -----------

func c15ClassifyDec(err error, outerOK bool) string {
	var corrupt base64.CorruptInputError
	msg := err.Error()
	switch {
	case strings.Contains(msg, "canonical"):
		return "ENotCanonical"
	case errors.As(err, &corrupt) && !strings.Contains(msg, "securecookie"):
		return "EBase64"
	case strings.Contains(msg, "the value is too long"):
		return "ETooLong"
	case strings.Contains(msg, "base64 decode failed"):
		if outerOK {
			return "EInner"
		}
		return "EBase64"
	case strings.Contains(msg, "the value is not valid"):
		return "EMac"
	case strings.Contains(msg, "invalid timestamp"):
		return "ETimestamp"
	case strings.Contains(msg, "could not be decrypted"):
		return "EDecrypt"
	case strings.Contains(msg, "securecookie: error - caused by"):
		return "EDeser"
	}
	return "EUnknown (* " + strings.ReplaceAll(msg, "*)", "* )") + " *)"
}

func c15ClassifyEnc(err error) string {
	msg := err.Error()
	switch {
	case strings.Contains(msg, "the value is too long"):
		return "EEncTooLong"
	case strings.Contains(msg, "securecookie: error - caused by"):
		return "ESer"
	}
	return "EUnknown (* " + strings.ReplaceAll(msg, "*)", "* )") + " *)"
}

// ---- mutations (same semantics as apply_mut in corr/Run_C15.v) ---------------------------

const c15Alpha = "ABCDEFGHIJKLMNOPQRSTUVWXYZabcdefghijklmnopqrstuvwxyz0123456789-_"

type c15Mut struct {
	K   string `json:"k"` // id flip trunc dropfront append insert set delete reverse std strippad recode respell
	Pos int    `json:"pos,omitempty"`
	Bit int    `json:"bit,omitempty"`
	N   int    `json:"n,omitempty"`
	C   int    `json:"c,omitempty"`
	Hex string `json:"hex,omitempty"`
}

func (m c15Mut) apply(s []byte) []byte {
	out := append([]byte{}, s...)
	switch m.K {
	case "flip":
		if m.Pos < len(out) {
			out[m.Pos] ^= 1 << uint(m.Bit)
		}
	case "trunc":
		if m.N < len(out) {
			out = out[:m.N]
		}
	case "dropfront":
		if m.N < len(out) {
			out = out[m.N:]
		} else {
			out = nil
		}
	case "append":
		b, _ := hex.DecodeString(m.Hex)
		out = append(out, b...)
	case "insert":
		p := m.Pos
		if p > len(out) {
			p = len(out)
		}
		out = append(append(append([]byte{}, s[:p]...), byte(m.C)), s[p:]...)
	case "set":
		if m.Pos < len(out) {
			out[m.Pos] = byte(m.C)
		}
	case "delete":
		if m.Pos < len(out) {
			out = append(append([]byte{}, s[:m.Pos]...), s[m.Pos+1:]...)
		}
	case "reverse":
		if r, err := reverseSessionId(string(s)); err == nil {
			out = []byte(r)
		}
	case "std":
		out = []byte(strings.NewReplacer("-", "+", "_", "/").Replace(string(s)))
	case "strippad":
		out = []byte(strings.TrimRight(string(s), "="))
	case "recode":
		if b, err := base64.URLEncoding.DecodeString(string(s)); err == nil {
			out = []byte(base64.URLEncoding.EncodeToString(b))
		}
	case "respell":
		// the unused low bits of the character before the padding are set to N
		p := bytes.IndexByte(s, '=')
		if p > 0 {
			free := uint(4)
			if len(s)-p == 1 {
				free = 2
			}
			if idx := strings.IndexByte(c15Alpha, s[p-1]); idx >= 0 {
				out[p-1] = c15Alpha[(idx>>free)<<free|(m.N&(1<<free-1))]
			}
		}
	}
	return out
}

func (m c15Mut) coq() string {
	switch m.K {
	case "flip":
		return fmt.Sprintf("(MFlip %d %d)", m.Pos, m.Bit)
	case "trunc":
		return fmt.Sprintf("(MTrunc %d)", m.N)
	case "dropfront":
		return fmt.Sprintf("(MDropFront %d)", m.N)
	case "append":
		b, _ := hex.DecodeString(m.Hex)
		return fmt.Sprintf("(MAppend %s)", c15Bx(b))
	case "insert":
		return fmt.Sprintf("(MInsert %d %d)", m.Pos, m.C)
	case "set":
		return fmt.Sprintf("(MSet %d %d)", m.Pos, m.C)
	case "delete":
		return fmt.Sprintf("(MDelete %d)", m.Pos)
	case "reverse":
		return "MReverse"
	case "std":
		return "MStdAlphabet"
	case "strippad":
		return "MStripPad"
	case "recode":
		return "MRecode"
	case "respell":
		return fmt.Sprintf("(MRespell %d)", m.N)
	}
	return "MId"
}

// ---- cases ---------------------------------------------------------------------------------

type c15Src struct {
	Lit   *string `json:"lit,omitempty"`
	Base  int     `json:"base,omitempty"`  // label of the mint / register operation
	Which int     `json:"which,omitempty"` // role of the id taken from it
	Mut   c15Mut  `json:"mut"`
}

type c15Op struct {
	K     string `json:"k"` // mint dec declax | register remove lookup resume decode dump | register_internal addsession removesession drop both prefill invalidate
	Label int    `json:"label,omitempty"`
	// addsession: label of the internal client that asks, and the session id it names the virtual session with
	Parent int      `json:"parent,omitempty"`
	Sess   string   `json:"sess,omitempty"`
	Role   int      `json:"role,omitempty"`
	Ks     int      `json:"ks,omitempty"`
	Data   *c15Data `json:"data,omitempty"`
	Src    *c15Src  `json:"src,omitempty"`
}

type c15Case struct {
	Id      int         `json:"id"`
	Mode    int         `json:"mode"` // 0 codec/model only, 1 codec + P_C15, 2 hub, 3 codecs of hubs built from configurations + P_C15
	Keys    []c15Keyset `json:"keys,omitempty"`
	NCaches int         `json:"ncaches,omitempty"`
	Size    int         `json:"size,omitempty"`
	Ops     []c15Op     `json:"ops"`
	Finding string      `json:"finding,omitempty"`
	Note    string      `json:"note,omitempty"`
	Outs    []string    `json:"outs,omitempty"`

	built []bool // mode 3: NewHub returned a hub for the configuration
}

type c15Minted struct {
	index int
	ids   [2]string
	has   [2]bool
}

// resolves the string of an operation: the text, and the Coq term of its source
func c15Resolve(src *c15Src, minted map[int]*c15Minted) (string, string, bool) {
	if src.Lit != nil {
		return *src.Lit, fmt.Sprintf("(SLit %s)", coqStr(*src.Lit)), true
	}
	m, ok := minted[src.Base]
	if !ok || !m.has[src.Which] {
		return "", "", false
	}
	s := string(src.Mut.apply([]byte(m.ids[src.Which])))
	return s, fmt.Sprintf("(SMut %d %s %s)", m.index, c15RoleCoq[src.Which], src.Mut.coq()), true
}

type c15RunStats struct {
	accepted, rejected, minted int
	errs                       map[string]int
}

// runs a codec case on the real codec; returns the Coq terms of the (op, observation) pairs
func c15RunCodec(u *c15Universe, c *c15Case, st *c15RunStats) []string {
	for i := range c.Keys {
		u.initKeyset(&c.Keys[i])
	}
	return c15RunCodecOps(u, c, st)
}

// the operations of a codec case on the codecs of its key sets (already set up)
func c15RunCodecOps(u *c15Universe, c *c15Case, st *c15RunStats) []string {
	minted := map[int]*c15Minted{}
	var trace []string
	c.Outs = nil
	for _, o := range c.Ops {
		if o.Ks < 0 || o.Ks >= len(c.Keys) {
			continue
		}
		k := &c.Keys[o.Ks]
		if k.codec == nil {
			continue // no hub was built from this configuration
		}
		switch o.K {
		case "mint":
			if o.Data == nil {
				continue
			}
			m := o.Data.msg()
			var id string
			var err error
			for try := 0; ; try++ {
				if o.Role == c15Private {
					id, err = k.codec.EncodePrivate(m)
				} else {
					id, err = k.codec.EncodePublic(m)
				}
				// Configured hubs that share the hash key and differ in the block key are the region of
				// the known finding C15/codec/blockkey-not-authenticated (the other block key turns the
				// value into other bytes, and protobuf accepts about 0.7% of those).  The cases of mode 3
				// stay outside it: an id whose value part, read with the CONFIGURED keys of another
				// key set of the case by the real AES / protobuf, happens to parse is not used; the
				// next Sid is minted instead.
				if c.Mode != 3 || err != nil || try >= 40 || !c15InBlockKeyFindingRegion(c, o.Ks, o.Role, id) {
					break
				}
				m.Sid++
			}
			var a c15Answers
			ts, iv := u.mintAnswers(o.Role, k, m, id, &a)
			obs := ""
			if err != nil {
				obs = "VErr " + c15ClassifyEnc(err)
			} else {
				obs = "VId " + coqStr(id)
				e := &c15Minted{index: len(trace)}
				e.ids[o.Role] = id
				e.has[o.Role] = true
				minted[o.Label] = e
				st.minted++
			}
			trace = append(trace, fmt.Sprintf("(CMint %s %d %s %s %s %s, %s)", c15RoleCoq[o.Role], o.Ks, u.cd(m), coqStr(ts), c15Bx(iv), a.coq(), obs))
			c.Outs = append(c.Outs, obs)
		case "dec", "declax":
			if o.Src == nil {
				continue
			}
			s, srcTerm, ok := c15Resolve(o.Src, minted)
			if !ok {
				continue
			}
			var d *SessionIdData
			var err error
			if o.K == "dec" {
				if o.Role == c15Private {
					d, err = k.codec.DecodePrivate(s)
				} else {
					d, err = k.codec.DecodePublic(s)
				}
			} else {
				// the decoders without the canonical-form check: the library call
				// under DecodePrivate, and reverseSessionId followed by it for public ids
				var data SessionIdData
				if o.Role == c15Private {
					err = k.codec.cookie.Decode(privateSessionName, s, &data)
				} else {
					var rs string
					if rs, err = reverseSessionId(s); err == nil {
						err = k.codec.cookie.Decode(publicSessionName, rs, &data)
					}
				}
				d = &data
			}
			var a c15Answers
			outerOK := u.decAnswers(o.Role, k, s, &a)
			obs := ""
			if err != nil {
				cls := c15ClassifyDec(err, outerOK)
				obs = "VErr " + cls
				st.rejected++
				st.errs[cls]++
			} else {
				obs = "VData " + u.cd(d)
				st.accepted++
			}
			cons := "CDec"
			if o.K == "declax" {
				cons = "CDecLax"
			}
			trace = append(trace, fmt.Sprintf("(%s %s %d %s %d %s, %s)", cons, c15RoleCoq[o.Role], o.Ks, srcTerm, c15Chk([]byte(s)), a.coq(), obs))
			c.Outs = append(c.Outs, obs)
		}
	}
	return trace
}

func (c *c15Case) term(trace []string) string {
	if c.Mode == 2 {
		return fmt.Sprintf("mkhub %d (%s) %d %d %s", c.Id, c.Keys[0].coq(), c.NCaches, c.Size, coqList(trace))
	}
	if c.Mode == 3 {
		var cfgs, built []string
		for i := range c.Keys {
			cfgs = append(cfgs, c.Keys[i].coqCfg())
			b := "false"
			if i < len(c.built) && c.built[i] {
				b = "true"
			}
			built = append(built, b)
		}
		return fmt.Sprintf("mkconfig %d %s %s %s", c.Id, coqList(cfgs), coqList(built), coqList(trace))
	}
	var ks []string
	for i := range c.Keys {
		ks = append(ks, c.Keys[i].coq())
	}
	return fmt.Sprintf("mkcodec %d %d %s %s", c.Id, c.Mode, coqList(ks), coqList(trace))
}

// ---- generators ---------------------------------------------------------------------------------

func c15RandBytes(r *vrng, n int) []byte {
	b := make([]byte, n)
	for i := range b {
		b[i] = byte(r.next())
	}
	return b
}

var c15Backends = []string{"", "backend1", "https://cloud.example.org/", "b", "bäckend-日本語-😀", "with|pipe|s", "line\nbreak", "compat", "a-very-long-backend-id-" + strings.Repeat("x", 200)}

func c15GenData(r *vrng, allowEmpty bool) *c15Data {
	d := &c15Data{}
	switch r.intn(8) {
	case 0:
		d.Sid = ^uint64(0)
	case 1:
		d.Sid = 1 << 63
	case 2:
		d.Sid = r.next()
	case 3:
		d.Sid = uint64(r.intn(1 << 20))
	case 4:
		d.Sid = 0
	default:
		d.Sid = uint64(1 + r.intn(1000))
	}
	if r.chance(80) {
		d.HasCreated = true
		switch r.intn(5) {
		case 0:
			d.Sec, d.Nanos = 0, 0
		case 1:
			d.Sec, d.Nanos = -int64(r.intn(1<<30)), int32(r.intn(1000000000))
		case 2:
			d.Sec, d.Nanos = int64(r.next()>>1), int32(r.intn(1<<31))
		default:
			d.Sec, d.Nanos = 1700000000+int64(r.intn(100000000)), int32(r.intn(1000000000))
		}
	}
	b := pick(r, c15Backends)
	if r.chance(8) {
		b = string(c15RandBytes(r, 1+r.intn(12))) // mostly not UTF-8: Marshal refuses
	}
	d.BackendHex = hex.EncodeToString([]byte(b))
	if d.empty() && !allowEmpty {
		d.Sid = 7
	}
	return d
}

func c15GenKeys(r *vrng) []c15Keyset {
	// pairwise different hash keys; block key absent / 16 / 24 / 32 bytes;
	// the last key set has the same keys as the first ("a server holding the same keys")
	var ks []c15Keyset
	n := 3
	for i := 0; i < n; i++ {
		k := c15Keyset{HashHex: hex.EncodeToString(c15RandBytes(r, pick(r, []int{16, 32, 64})))}
		if r.chance(60) {
			k.BlockHex = hex.EncodeToString(c15RandBytes(r, pick(r, []int{16, 24, 32})))
		}
		ks = append(ks, k)
	}
	ks = append(ks, c15Keyset{HashHex: ks[0].HashHex, BlockHex: ks[0].BlockHex})
	return ks
}

// the mutations applied to one minted id (the id text is needed for the positions)
func c15Mutations(r *vrng, id string, thorough bool) []c15Mut {
	n := len(id)
	var ms []c15Mut
	edge := 6
	if thorough {
		edge = 10
	}
	seen := map[int]bool{}
	addFlips := func(pos int) {
		if pos < 0 || pos >= n || seen[pos] {
			return
		}
		seen[pos] = true
		for bit := 0; bit < 8; bit++ {
			ms = append(ms, c15Mut{K: "flip", Pos: pos, Bit: bit})
		}
	}
	for i := 0; i < edge; i++ {
		addFlips(i)
		addFlips(n - 1 - i)
	}
	for i := 0; i < 3; i++ {
		addFlips(r.intn(n))
	}
	for i := 0; i < 12; i++ {
		ms = append(ms, c15Mut{K: "flip", Pos: r.intn(n), Bit: r.intn(8)})
	}
	// truncation / extension
	for _, k := range []int{0, 1, n - 1, n - 2, n - 4, n / 2, (n / 4) * 4 / 2} {
		if k >= 0 && k < n {
			ms = append(ms, c15Mut{K: "trunc", N: k})
		}
	}
	ms = append(ms, c15Mut{K: "dropfront", N: 1}, c15Mut{K: "dropfront", N: 4}, c15Mut{K: "delete", Pos: r.intn(n)})
	for _, ext := range []string{"41", "3d", "20", "00", "41414141", "7c", "0a", "0d", "0d0a", "0a0a0a", "41413d3d", "2e"} {
		ms = append(ms, c15Mut{K: "append", Hex: ext})
	}
	ms = append(ms, c15Mut{K: "append", Hex: hex.EncodeToString(c15RandBytes(r, 1+r.intn(6)))})
	// line breaks and other bytes inserted
	for i := 0; i < 5; i++ {
		ms = append(ms, c15Mut{K: "insert", Pos: r.intn(n + 1), C: pick(r, []int{10, 13})})
	}
	ms = append(ms, c15Mut{K: "insert", Pos: 0, C: 10}, c15Mut{K: "insert", Pos: n, C: 13},
		c15Mut{K: "insert", Pos: n - 1, C: 10}, c15Mut{K: "insert", Pos: 4 * (r.intn(n/4 + 1)), C: 10},
		c15Mut{K: "insert", Pos: r.intn(n + 1), C: 32}, c15Mut{K: "insert", Pos: r.intn(n + 1), C: 'A'},
		c15Mut{K: "insert", Pos: r.intn(n + 1), C: '='}, c15Mut{K: "insert", Pos: r.intn(n + 1), C: 0})
	// trailing-bit re-spellings: every other character in the place before the padding
	if strings.HasSuffix(id, "=") {
		free := 2
		if strings.HasSuffix(id, "==") {
			free = 4
		}
		for v := 0; v < 1<<free; v++ { // v = 0 is the id itself
			ms = append(ms, c15Mut{K: "respell", N: v})
		}
		ms = append(ms, c15Mut{K: "set", Pos: strings.IndexByte(id, '='), C: 'A'})
	}
	ms = append(ms, c15Mut{K: "set", Pos: r.intn(n), C: r.intn(256)}, c15Mut{K: "set", Pos: r.intn(n), C: '|'})
	// other spellings
	ms = append(ms, c15Mut{K: "std"}, c15Mut{K: "strippad"}, c15Mut{K: "recode"}, c15Mut{K: "reverse"})
	return ms
}

// one minted id with all its mutations, cross-key and cross-role decodes
func c15GenCodecCase(t *testing.T, u *c15Universe, r *vrng, id int, thorough bool) *c15Case {
	c := &c15Case{Id: id, Mode: 1, Keys: c15GenKeys(r)}
	role := r.intn(2)
	d := c15GenData(r, false)
	if c.Keys[0].BlockHex == "" && r.chance(5) {
		d = &c15Data{} // the empty value round-trips without a block key
	}
	c.Ops = append(c.Ops, c15Op{K: "mint", Label: 1, Role: role, Ks: 0, Data: d})
	c.Ops = append(c.Ops, c15Op{K: "mint", Label: 2, Role: 1 - role, Ks: 0, Data: d})
	c.Ops = append(c.Ops, c15Op{K: "mint", Label: 3, Role: role, Ks: 1, Data: d})
	// the positions of the mutations depend on the text of the id: mint once to learn its length
	u.initKeyset(&c.Keys[0])
	var probe string
	var err error
	if role == c15Private {
		probe, err = c.Keys[0].codec.EncodePrivate(d.msg())
	} else {
		probe, err = c.Keys[0].codec.EncodePublic(d.msg())
	}
	dec := func(role, ks, base, which int, m c15Mut) {
		c.Ops = append(c.Ops, c15Op{K: "dec", Role: role, Ks: ks, Src: &c15Src{Base: base, Which: which, Mut: m}})
	}
	idm := c15Mut{K: "id"}
	// round trip, same keys in another codec object, other keys, other role
	dec(role, 0, 1, role, idm)
	dec(1-role, 0, 2, 1-role, idm)
	dec(role, 3, 1, role, idm)
	dec(role, 1, 1, role, idm)
	dec(role, 2, 1, role, idm)
	dec(role, 0, 3, role, idm)
	dec(1-role, 0, 1, role, idm)
	dec(role, 0, 2, 1-role, idm)
	dec(1-role, 0, 1, role, c15Mut{K: "reverse"})
	dec(role, 0, 2, 1-role, c15Mut{K: "reverse"})
	dec(1-role, 1, 1, role, c15Mut{K: "reverse"})
	if err != nil {
		return c
	}
	for _, m := range c15Mutations(r, probe, thorough) {
		dec(role, 0, 1, role, m)
	}
	// a handful of mutations of the id of the other role and under the twin key set
	for i := 0; i < 6; i++ {
		dec(1-role, 3, 2, 1-role, c15Mut{K: "flip", Pos: r.intn(len(probe)), Bit: r.intn(8)})
	}
	dec(1-role, 0, 2, 1-role, c15Mut{K: "insert", Pos: r.intn(len(probe)), C: 10})
	dec(1-role, 0, 2, 1-role, c15Mut{K: "append", Hex: "0a"})
	// what the unrepaired decoders say to re-spellings (model comparison only)
	c.Ops = append(c.Ops, c15Op{K: "declax", Role: role, Ks: 0, Src: &c15Src{Base: 1, Which: role, Mut: c15Mut{K: "append", Hex: "0a"}}})
	c.Ops = append(c.Ops, c15Op{K: "declax", Role: role, Ks: 0, Src: &c15Src{Base: 1, Which: role, Mut: c15Mut{K: "insert", Pos: r.intn(len(probe)), C: 13}}})
	c.Ops = append(c.Ops, c15Op{K: "declax", Role: 1 - role, Ks: 0, Src: &c15Src{Base: 1, Which: role, Mut: idm}})
	return c
}

// crafted strings: built by the harness with the real keys (valid MAC unless
// said otherwise) to reach every later check of the decoder.  Mode 0.
func c15GenCraftCase(u *c15Universe, r *vrng, id int) *c15Case {
	c := &c15Case{Id: id, Mode: 0, Keys: c15GenKeys(r)}
	for i := range c.Keys {
		u.initKeyset(&c.Keys[i])
	}
	tss := []string{"1700000000", "0", "+5", "-5", "-9223372036854775808", "-9223372036854775809", "9223372036854775807",
		"9223372036854775808", "18446744073709551616", "", "12a", "0x10", "1_000", " 1", "1 ", "00012", "+", "-", "--1", "+-1", "١٢٣", "1.5", "1e3",
		"99999999999999999999999999999999", "-0", "+0"}
	for n := 0; n < 14; n++ {
		ks := r.intn(len(c.Keys))
		k := &c.Keys[ks]
		role := r.intn(2)
		d := c15GenData(r, true)
		for d.msg() == nil || !utf8.ValidString(d.msg().BackendId) {
			d = c15GenData(r, true)
		}
		p, _ := proto.Marshal(d.msg())
		ts := "1700000000"
		if r.chance(70) {
			ts = pick(r, tss)
		}
		// the value part
		var inner []byte
		switch r.intn(10) {
		case 0: // garbage plaintext
			inner = c15RandBytes(r, r.intn(40))
		case 1: // short: no room for an initialisation vector
			inner = c15RandBytes(r, r.intn(17))
		case 2:
			inner = nil
		default:
			inner = p
			if k.block != nil {
				iv := c15RandBytes(r, aes.BlockSize)
				inner = append(append([]byte{}, iv...), c15Ctr(k.block, iv, p)...)
			}
		}
		v := base64.URLEncoding.EncodeToString(inner)
		switch r.intn(12) {
		case 0:
			v = "!!" + v
		case 1: // inner re-spelling, covered by the MAC
			if len(v) > 3 {
				v = v[:2] + "\n" + v[2:]
			}
		case 2:
			v = strings.TrimRight(v, "=")
		case 3:
			v = v + "|" + v // a pipe inside the value moves the split
		}
		msg := []byte(c15RoleName[role] + "|" + ts + "|" + v)
		mac := c15Hmac(k.hash, msg)
		switch r.intn(10) {
		case 0:
			mac = mac[:31]
		case 1:
			mac = append(mac, 0)
		case 2:
			mac = nil
		case 3:
			mac[r.intn(32)] ^= 1 << uint(r.intn(8))
		case 4: // MAC under the other role's name
			mac = c15Hmac(k.hash, []byte(c15RoleName[1-role]+"|"+ts+"|"+v))
		case 5: // MAC over the fields in another order
			mac = c15Hmac(k.hash, []byte(c15RoleName[role]+"|"+v+"|"+ts))
		}
		triple := append([]byte(ts+"|"+v+"|"), mac...)
		switch r.intn(12) {
		case 0:
			triple = []byte(ts + "|" + v) // two parts only
		case 1:
			triple = []byte(ts)
		}
		if role == c15Public {
			triple = c15Reverse(triple)
		}
		s := base64.URLEncoding.EncodeToString(triple)
		if r.chance(6) {
			s = s + "\n"
		}
		lit := s
		c.Ops = append(c.Ops, c15Op{K: "dec", Role: role, Ks: ks, Src: &c15Src{Lit: &lit}})
		if r.chance(30) {
			lit2 := s
			c.Ops = append(c.Ops, c15Op{K: "dec", Role: 1 - role, Ks: ks, Src: &c15Src{Lit: &lit2}})
		}
		if r.chance(30) {
			lit3 := s
			c.Ops = append(c.Ops, c15Op{K: "declax", Role: role, Ks: ks, Src: &c15Src{Lit: &lit3}})
		}
	}
	// strings that are not even triples
	for _, s := range []string{"", "QUJD", "fHx8", "fHw=", "fA==", "====", "QQ==", "QQ=\n=", "Q\nQ\r==\n", "QQ", "QUJDRA", "this-is-invalid", strings.Repeat("A", 4096), strings.Repeat("A", 4100), strings.Repeat("A", 4097), strings.Repeat("\n", 5000)} {
		lit := s
		c.Ops = append(c.Ops, c15Op{K: "dec", Role: r.intn(2), Ks: 0, Src: &c15Src{Lit: &lit}})
		lit2 := s
		c.Ops = append(c.Ops, c15Op{K: "declax", Role: r.intn(2), Ks: 0, Src: &c15Src{Lit: &lit2}})
	}
	return c
}

// the length limit: ids of exactly 4096 characters are minted and decode, longer ones are refused
func c15GenLengthCase(u *c15Universe, r *vrng, id int) *c15Case {
	c := &c15Case{Id: id, Mode: 1, Keys: c15GenKeys(r)}
	u.initKeyset(&c.Keys[0])
	k := &c.Keys[0]
	// find the backend id lengths around the limit
	lo, hi := 2800, 3100
	for n := lo; n < hi; n++ {
		m := &SessionIdData{Sid: 5, BackendId: strings.Repeat("y", n)}
		id1, err1 := k.codec.EncodePrivate(m)
		m2 := &SessionIdData{Sid: 5, BackendId: strings.Repeat("y", n+1)}
		_, err2 := k.codec.EncodePrivate(m2)
		if err1 == nil && err2 != nil {
			for j, delta := range []int{-2, -1, 0, 1, 2, 5} {
				d := &c15Data{Sid: 5, BackendHex: hex.EncodeToString([]byte(strings.Repeat("y", n+delta)))}
				role := j % 2
				c.Ops = append(c.Ops, c15Op{K: "mint", Label: j + 1, Role: role, Ks: 0, Data: d})
				c.Ops = append(c.Ops, c15Op{K: "dec", Role: role, Ks: 0, Src: &c15Src{Base: j + 1, Which: role, Mut: c15Mut{K: "id"}}})
				c.Ops = append(c.Ops, c15Op{K: "dec", Role: role, Ks: 0, Src: &c15Src{Base: j + 1, Which: role, Mut: c15Mut{K: "append", Hex: "0a"}}})
				c.Ops = append(c.Ops, c15Op{K: "declax", Role: role, Ks: 0, Src: &c15Src{Base: j + 1, Which: role, Mut: c15Mut{K: "append", Hex: "0a"}}})
				c.Ops = append(c.Ops, c15Op{K: "dec", Role: role, Ks: 0, Src: &c15Src{Base: j + 1, Which: role, Mut: c15Mut{K: "append", Hex: "41414141"}}})
			}
			c.Note = fmt.Sprintf("longest id that is minted has %d characters", len(id1))
			break
		}
	}
	return c
}

// ---- directed witnesses ---------------------------------------------------------------------------

// the id and key of the refutation theorems in props/C15.v (C15_witness_*)
const (
	c15WitnessKey = "12345678901234567890123456789012"
	c15WitnessId  = "MTc5MDc5MzA3MHxDQUVhQVdJPXyAP1N2Jrhx1GLVCx0g8Jtpu4aZDy_xsMj3O0pm8vfQTw=="
)

func c15WitnessCases(t *testing.T, u *c15Universe, r *vrng, nextId int) []*c15Case {
	var cs []*c15Case
	// (1) re-spelling of the witness id of C15_modification_lax_refuted
	{
		c := &c15Case{Id: nextId, Mode: 0, Keys: []c15Keyset{{HashHex: hex.EncodeToString([]byte(c15WitnessKey))}}, Note: "witness of C15_modification_lax_refuted"}
		for _, s := range []string{c15WitnessId, c15WitnessId + "\n", c15WitnessId[:len(c15WitnessId)-3] + "x==", c15WitnessId[:5] + "\r\n" + c15WitnessId[5:]} {
			l1, l2 := s, s
			c.Ops = append(c.Ops, c15Op{K: "declax", Role: c15Private, Ks: 0, Src: &c15Src{Lit: &l1}})
			c.Ops = append(c.Ops, c15Op{K: "dec", Role: c15Private, Ks: 0, Src: &c15Src{Lit: &l2}})
		}
		cs = append(cs, c)
		nextId++
	}
	// (2) the empty data value under a block key does not come back
	{
		c := &c15Case{Id: nextId, Mode: 1, Finding: "C15/codec/empty-data-blockkey",
			Keys: []c15Keyset{{HashHex: hex.EncodeToString(c15RandBytes(r, 32)), BlockHex: hex.EncodeToString(c15RandBytes(r, 16))}},
			Note: "SessionIdData{} serializes to no bytes; securecookie refuses to decrypt a value that holds only the initialisation vector"}
		role := r.intn(2)
		c.Ops = append(c.Ops, c15Op{K: "mint", Label: 1, Role: role, Ks: 0, Data: &c15Data{}})
		c.Ops = append(c.Ops, c15Op{K: "dec", Role: role, Ks: 0, Src: &c15Src{Base: 1, Which: role, Mut: c15Mut{K: "id"}}})
		cs = append(cs, c)
		nextId++
	}
	// (3) same hash key, other block key: the stream cipher is not authenticated
	{
		hk := c15RandBytes(r, 32)
		c := &c15Case{Id: nextId, Mode: 1, Finding: "C15/codec/blockkey-not-authenticated",
			Keys: []c15Keyset{{HashHex: hex.EncodeToString(hk), BlockHex: hex.EncodeToString(c15RandBytes(r, 16))},
				{HashHex: hex.EncodeToString(hk), BlockHex: hex.EncodeToString(c15RandBytes(r, 16))}},
			Note: "key sets that share the hash key and differ in the block key"}
		for i := range c.Keys {
			u.initKeyset(&c.Keys[i])
		}
		found := false
		for try := 0; try < 40000 && !found; try++ {
			m := &SessionIdData{Sid: uint64(try + 1), BackendId: hex.EncodeToString(c15RandBytes(r, 6))}
			id, err := c.Keys[0].codec.EncodePrivate(m)
			if err != nil {
				break
			}
			if _, err := c.Keys[1].codec.DecodePrivate(id); err == nil {
				lit := id
				c.Ops = append(c.Ops, c15Op{K: "dec", Role: c15Private, Ks: 1, Src: &c15Src{Lit: &lit}})
				found = true
			}
		}
		if found {
			cs = append(cs, c)
			nextId++
		}
	}
	return cs
}

// ---- hubs built from their configuration (NewHub) ---------------------------------------------------

// a hub as CreateHubForTestWithConfig builds it, from the test configuration with the two key
// options replaced; the error of NewHub is returned, not asserted
func c15HubFromConfig(t *testing.T, k *c15Keyset) (*Hub, error) {
	r := mux.NewRouter()
	registerBackendHandler(t, r)
	server := httptest.NewServer(r)
	t.Cleanup(server.Close)
	events := getAsyncEventsForTest(t)
	config, err := getTestConfig(server)
	if err != nil {
		t.Fatal(err)
	}
	config.RemoveOption("sessions", "hashkey")
	config.RemoveOption("sessions", "blockkey")
	config.AddOption("sessions", "hashkey", string(k.hash))
	if !k.Absent {
		b, _ := hex.DecodeString(k.BlockHex)
		config.AddOption("sessions", "blockkey", string(b))
	}
	h, err := NewHub(config, events, nil, nil, nil, r, "no-version")
	if err != nil {
		return nil, err
	}
	b, err := NewBackendServer(config, h, "no-version")
	if err != nil {
		t.Fatal(err)
	}
	if err := b.Start(r); err != nil {
		t.Fatal(err)
	}
	go h.Run()
	t.Cleanup(func() {
		ctx, cancel := context.WithTimeout(context.Background(), testTimeout)
		defer cancel()
		WaitForHub(ctx, t, h)
	})
	return h, nil
}

// reads the value part of an id (minted under key set [from] of the case) with the configured keys
// of every other key set of the case that has the same hash key and another block key (or none),
// using the real AES-CTR and protobuf: true when one of them yields bytes that protobuf parses
func c15InBlockKeyFindingRegion(c *c15Case, from int, role int, id string) bool {
	b, err := base64.URLEncoding.DecodeString(id)
	if err != nil {
		return false
	}
	if role == c15Public {
		b = c15Reverse(b)
	}
	parts := bytes.SplitN(b, []byte("|"), 3)
	if len(parts) != 3 {
		return false
	}
	v, err := base64.URLEncoding.DecodeString(string(parts[1]))
	if err != nil {
		return false
	}
	kf := &c.Keys[from]
	for j := range c.Keys {
		kj := &c.Keys[j]
		if j == from || kj.codec == nil || !bytes.Equal(kj.hash, kf.hash) || bytes.Equal(kj.block, kf.block) {
			continue
		}
		p := v
		if kj.block != nil {
			if len(v) <= aes.BlockSize {
				continue
			}
			block, err := aes.NewCipher(kj.block)
			if err != nil {
				continue
			}
			p = make([]byte, len(v)-aes.BlockSize)
			cipher.NewCTR(block, v[:aes.BlockSize]).XORKeyStream(p, v[aes.BlockSize:])
		}
		var d SessionIdData
		if proto.Unmarshal(p, &d) == nil {
			return true
		}
	}
	return false
}

// runs a case of mode 3: one hub per configuration, through NewHub; then the codec operations on
// the codecs these hubs hold (hub.cookie: what processRegister mints with and what
// decodePrivateSessionId / decodePublicSessionId decode with)
func c15RunConfig(t *testing.T, u *c15Universe, c *c15Case, st *c15RunStats) []string {
	c.built = nil
	for i := range c.Keys {
		k := &c.Keys[i]
		u.initConfigKeyset(k)
		hub, err := c15HubFromConfig(t, k)
		c.built = append(c.built, err == nil)
		if err == nil {
			k.codec = hub.cookie
		}
	}
	return c15RunCodecOps(u, c, st)
}

// texts for key options: bytes that the configuration layer hands through unchanged (no '$' and no
// '%': GetStringOptionWithEnv / goconf expand them); now and then two-byte UTF-8 characters, so
// that the number of characters and the number of bytes differ
func c15KeyText(r *vrng, n int) []byte {
	const alpha = "ABCDEFGHIJKLMNOPQRSTUVWXYZabcdefghijklmnopqrstuvwxyz0123456789-_.:,;!?+*/=<>()[]{}|~^@& "
	var b []byte
	for len(b) < n {
		if n-len(b) >= 2 && r.chance(6) {
			b = append(b, []byte(pick(r, []string{"é", "ü", "ß", "ж"}))...)
		} else {
			b = append(b, alpha[r.intn(len(alpha))])
		}
	}
	return b
}

var c15BadBlockLens = []int{1, 8, 15, 17, 20, 23, 25, 31, 33, 40, 48, 64}

// the ops of a mode 3 case: every valid configuration mints one value under both roles; every id is
// decoded under its own configuration and under every other one (own role; now and then the other)
func c15ConfigOps(r *vrng, c *c15Case, valid []int, all bool) {
	label := 0
	type mint struct{ label, ks, role int }
	var mints []mint
	for _, i := range valid {
		d := c15GenData(r, false)
		for !utf8.ValidString(d.msg().BackendId) {
			d = c15GenData(r, false)
		}
		if d.Sid > 1<<62 {
			d.Sid = uint64(1 + r.intn(1000)) // room for the next Sid
		}
		for role := 0; role < 2; role++ {
			label++
			c.Ops = append(c.Ops, c15Op{K: "mint", Label: label, Role: role, Ks: i, Data: d})
			mints = append(mints, mint{label, i, role})
		}
	}
	idm := c15Mut{K: "id"}
	for _, m := range mints {
		for _, j := range valid {
			if !all && j != m.ks && !r.chance(60) {
				continue
			}
			c.Ops = append(c.Ops, c15Op{K: "dec", Role: m.role, Ks: j, Src: &c15Src{Base: m.label, Which: m.role, Mut: idm}})
			if r.chance(10) {
				c.Ops = append(c.Ops, c15Op{K: "dec", Role: 1 - m.role, Ks: j, Src: &c15Src{Base: m.label, Which: m.role, Mut: idm}})
			}
			if r.chance(10) {
				c.Ops = append(c.Ops, c15Op{K: "dec", Role: 1 - m.role, Ks: j, Src: &c15Src{Base: m.label, Which: m.role, Mut: c15Mut{K: "reverse"}}})
			}
		}
	}
}

// directed: one hash key; two different block keys of each valid length, no block key (option
// absent / empty), a twin of the first configuration, the first block key under another hash key;
// block keys of invalid lengths (NewHub must refuse them)
func c15DirectedConfigCase(r *vrng, id int) *c15Case {
	c := &c15Case{Id: id, Mode: 3, Note: "hubs built by NewHub: block keys of 16 / 24 / 32 bytes, none, invalid lengths; one hash key"}
	hk := hex.EncodeToString(c15KeyText(r, pick(r, []int{32, 64, 16, 20})))
	var valid []int
	add := func(k c15Keyset, ok bool) {
		if ok {
			valid = append(valid, len(c.Keys))
		}
		c.Keys = append(c.Keys, k)
	}
	for _, n := range []int{16, 24, 32} {
		add(c15Keyset{HashHex: hk, BlockHex: hex.EncodeToString(c15KeyText(r, n))}, true)
		add(c15Keyset{HashHex: hk, BlockHex: hex.EncodeToString(c15KeyText(r, n))}, true)
	}
	add(c15Keyset{HashHex: hk, Absent: true}, true)
	add(c15Keyset{HashHex: hk}, true)
	twin := r.intn(6)
	add(c15Keyset{HashHex: hk, BlockHex: c.Keys[twin].BlockHex}, true)
	add(c15Keyset{HashHex: hex.EncodeToString(c15KeyText(r, 32)), BlockHex: c.Keys[r.intn(6)].BlockHex}, true)
	for i := 0; i < 4; i++ {
		add(c15Keyset{HashHex: hk, BlockHex: hex.EncodeToString(c15KeyText(r, pick(r, c15BadBlockLens)))}, false)
	}
	// 16 characters that are 32 bytes, 8 that are 16, 16 that are 17
	add(c15Keyset{HashHex: hk, BlockHex: hex.EncodeToString([]byte(strings.Repeat("é", 16)))}, true)
	add(c15Keyset{HashHex: hk, BlockHex: hex.EncodeToString([]byte(strings.Repeat("ü", 8)))}, true)
	add(c15Keyset{HashHex: hk, BlockHex: hex.EncodeToString([]byte("é" + strings.Repeat("k", 15)))}, false)
	c15ConfigOps(r, c, valid, true)
	return c
}

// random: 3 to 5 configurations, hash keys mostly shared, block key lengths valid and invalid
func c15GenConfigCase(r *vrng, id int) *c15Case {
	c := &c15Case{Id: id, Mode: 3, Note: "hubs built by NewHub from random key options"}
	hks := []string{hex.EncodeToString(c15KeyText(r, pick(r, []int{32, 64, 16, 1, 33}))), hex.EncodeToString(c15KeyText(r, pick(r, []int{32, 64})))}
	var valid []int
	var oks []bool
	n := 3 + r.intn(3)
	for i := 0; i < n; i++ {
		k := c15Keyset{HashHex: hks[0]}
		if r.chance(20) {
			k.HashHex = hks[1]
		}
		ok := true
		switch x := r.intn(100); {
		case x < 65:
			k.BlockHex = hex.EncodeToString(c15KeyText(r, pick(r, []int{16, 24, 32})))
		case x < 75 && i > 0: // the block key option of an earlier configuration
			j := r.intn(i)
			k.BlockHex, k.Absent = c.Keys[j].BlockHex, c.Keys[j].Absent
			ok = oks[j]
		case x < 85:
			k.Absent = r.chance(50)
		default:
			k.BlockHex = hex.EncodeToString(c15KeyText(r, pick(r, c15BadBlockLens)))
			ok = false
		}
		if ok {
			valid = append(valid, i)
		}
		oks = append(oks, ok)
		c.Keys = append(c.Keys, k)
	}
	c15ConfigOps(r, c, valid, false)
	return c
}

// ---- hub -------------------------------------------------------------------------------------------

type c15NoThrottle struct{}

func (c15NoThrottle) Close() {}
func (c15NoThrottle) CheckBruteforce(ctx context.Context, client string, action string) (ThrottleFunc, error) {
	return func(ctx context.Context) {}, nil
}

// a test client with a generous timeout for the welcome message (the suite's
// NewTestClient allows one second, too little on a loaded machine)
func c15Client(t *testing.T, server *httptest.Server, hub *Hub) *TestClient {
	ctx, cancel := context.WithTimeout(context.Background(), 20*time.Second)
	defer cancel()
	client := NewTestClientContext(ctx, t, server, hub)
	msg, err := client.RunUntilMessage(ctx)
	if err != nil || msg.Type != "welcome" {
		t.Fatalf("no welcome message: %v %+v", err, msg)
	}
	return client
}

type c15Live struct {
	sid    uint64
	priv   string
	pub    string
	client *TestClient
	// sessions of the other request paths
	internal bool   // hello of an internal client
	parent   int    // virtual session: label of the internal client it belongs to
	vsess    string // virtual session: the session id the internal client gave it
}

const c15RoomId = "c15-room"

// All messages of one connection are processed in order: the answer to a message the hub refuses
// right away tells that everything sent before has been processed completely.
func c15Barrier(t *testing.T, ctx context.Context, client *TestClient, n int) {
	id := fmt.Sprintf("c15sync%d", n)
	// (a map: TestClient.WriteJSON refuses to send an invalid *ClientMessage)
	if err := client.WriteJSON(map[string]string{"id": id, "type": "room"}); err != nil {
		t.Fatal(err)
	}
	for {
		msg, err := client.RunUntilMessage(ctx)
		if err != nil {
			t.Fatalf("no answer to the barrier message: %v", err)
		}
		if msg.Id == id {
			return
		}
	}
}

func c15WaitFor(t *testing.T, what string, f func() bool) {
	deadline := time.Now().Add(10 * time.Second)
	for time.Now().Before(deadline) {
		if f() {
			return
		}
		time.Sleep(200 * time.Microsecond)
	}
	t.Fatalf("timeout waiting for %s", what)
}

func c15Opt(u *c15Universe, d *SessionIdData) string {
	if d == nil {
		return "None"
	}
	return "(Some " + u.cd(d) + ")"
}

func c15HubSession(hub *Hub, pub string) Session {
	hub.mu.RLock()
	defer hub.mu.RUnlock()
	for _, s := range hub.sessions {
		if s.PublicId() == pub {
			return s
		}
	}
	return nil
}

func c15WaitGone(hub *Hub, sid uint64) bool {
	deadline := time.Now().Add(5 * time.Second)
	for time.Now().Before(deadline) {
		hub.mu.RLock()
		_, found := hub.sessions[sid]
		hub.mu.RUnlock()
		if !found {
			return true
		}
		time.Sleep(200 * time.Microsecond)
	}
	return false
}

func c15Dump(u *c15Universe, hub *Hub) string {
	var caches []string
	for _, c := range hub.decodeCaches {
		c.mu.Lock()
		var es []string
		for e := c.entries.Front(); e != nil; e = e.Next() {
			ce := e.Value.(*cacheEntry)
			es = append(es, fmt.Sprintf("ce %d %s", c15Chk([]byte(ce.key)), u.cd(ce.value.(*SessionIdData))))
		}
		c.mu.Unlock()
		caches = append(caches, coqList(es))
	}
	return "WCaches " + coqList(caches)
}

func c15RunHub(t *testing.T, u *c15Universe, c *c15Case, st *c15RunStats) (trace []string) {
	hub, _, _, server := CreateHubForTest(t)
	hub.throttler = c15NoThrottle{}
	caches := make([]*LruCache, 0, c.NCaches)
	for i := 0; i < c.NCaches; i++ {
		caches = append(caches, NewLruCache(c.Size))
	}
	hub.decodeCaches = caches
	// the keys of the hub (getTestConfig)
	c.Keys = []c15Keyset{{HashHex: hex.EncodeToString([]byte("12345678901234567890123456789012")), BlockHex: hex.EncodeToString([]byte("09876543210987654321098765432109"))}}
	u.initKeyset(&c.Keys[0])
	k := &c.Keys[0]
	ctx, cancel := context.WithTimeout(context.Background(), 30*time.Second)
	defer cancel()

	minted := map[int]*c15Minted{}
	live := map[int]*c15Live{} // by label
	var conns []*TestClient
	c.Outs = nil
	defer func() {
		for _, l := range live {
			if l.client != nil {
				l.client.SendBye() // nolint
			}
		}
		for _, l := range live {
			c15WaitGone(hub, l.sid)
		}
		for _, cl := range conns {
			cl.conn.Close()
		}
	}()
	emit := func(op, obs string) {
		trace = append(trace, "("+op+", "+obs+")")
		c.Outs = append(c.Outs, obs)
	}
	for _, o := range c.Ops {
		switch o.K {
		case "register", "register_internal":
			client := c15Client(t, server, hub)
			conns = append(conns, client)
			if o.K == "register_internal" {
				if err := client.SendHelloInternal(); err != nil {
					t.Fatal(err)
				}
			} else if err := client.SendHello(testDefaultUserId); err != nil {
				t.Fatal(err)
			}
			hello, err := client.RunUntilHello(ctx)
			if err != nil {
				t.Fatal(err)
			}
			pub, priv := hello.Hello.SessionId, hello.Hello.ResumeId
			sess := c15HubSession(hub, pub)
			if sess == nil {
				t.Fatalf("session %s not in the hub", pub)
			}
			d := sess.Data()
			var a c15Answers
			ts1, iv1 := u.mintAnswers(c15Private, k, d, priv, &a)
			var a2 c15Answers
			ts2, iv2 := u.mintAnswers(c15Public, k, d, pub, &a2)
			a.macs = append(a.macs, a2.macs...)
			a.ctrs = append(a.ctrs, a2.ctrs...)
			e := &c15Minted{index: len(trace), ids: [2]string{priv, pub}, has: [2]bool{true, true}}
			minted[o.Label] = e
			live[o.Label] = &c15Live{sid: d.Sid, priv: priv, pub: pub, client: client, internal: o.K == "register_internal"}
			st.minted += 2
			emit(fmt.Sprintf("XRegister %s %s %s %s %s %s", u.cd(d), coqStr(ts1), c15Bx(iv1), coqStr(ts2), c15Bx(iv2), a.coq()),
				fmt.Sprintf("WIds %s %s", coqStr(priv), coqStr(pub)))
		case "remove", "drop":
			// remove: bye.  drop: the connection goes away without a bye, the session expires
			// (housekeeping with a clock past the expiry time).  Both end in Hub.removeSession;
			// the virtual sessions of an internal client end with it.
			l, ok := live[o.Label]
			if !ok || l.client == nil {
				continue
			}
			if o.K == "remove" {
				l.client.SendBye() // nolint
			} else {
				l.client.conn.Close()
				c15WaitFor(t, "unregistered client", func() bool {
					hub.mu.RLock()
					defer hub.mu.RUnlock()
					_, found := hub.clients[l.sid]
					return !found
				})
				hub.performHousekeeping(time.Now().Add(sessionExpireDuration + time.Minute))
			}
			var gone []int
			for lb, v := range live {
				if v.parent == o.Label && v.client == nil {
					gone = append(gone, lb)
				}
			}
			sort.Ints(gone)
			gone = append(gone, o.Label)
			for _, lb := range gone {
				if !c15WaitGone(hub, live[lb].sid) {
					t.Fatalf("session %d was not removed", live[lb].sid)
				}
			}
			for _, lb := range gone {
				emit(fmt.Sprintf("XRemove %d", live[lb].sid), "WNone")
				delete(live, lb)
			}
		case "addsession":
			// processInternalMsg "addsession": the hub mints the ids of a virtual session
			pl, ok := live[o.Parent]
			if !ok || !pl.internal || pl.client == nil || o.Sess == "" {
				continue
			}
			hub.mu.RLock()
			parent, _ := hub.sessions[pl.sid].(*ClientSession)
			hub.mu.RUnlock()
			if parent == nil {
				t.Fatalf("no client session %d", pl.sid)
			}
			hub.ru.Lock()
			if _, found := hub.rooms[getRoomIdForBackend(c15RoomId, parent.Backend())]; !found {
				if _, err := hub.createRoom(c15RoomId, json.RawMessage("{}"), parent.Backend()); err != nil {
					hub.ru.Unlock()
					t.Fatal(err)
				}
			}
			hub.ru.Unlock()
			vid := GetVirtualSessionId(parent, o.Sess)
			hub.mu.RLock()
			prevSid, hadPrev := hub.virtualSessions[vid]
			hub.mu.RUnlock()
			msg := &AddSessionInternalClientMessage{
				CommonSessionInternalClientMessage: CommonSessionInternalClientMessage{SessionId: o.Sess, RoomId: c15RoomId},
				UserId:                             "vuser-" + o.Sess,
			}
			if o.Ks == 1 {
				msg.Options = &AddSessionOptions{ActorId: "actor-" + o.Sess, ActorType: "type"}
			}
			if err := pl.client.SendInternalAddSession(msg); err != nil {
				t.Fatal(err)
			}
			c15Barrier(t, ctx, pl.client, len(trace))
			hub.mu.RLock()
			newSid, found := hub.virtualSessions[vid]
			var vs Session
			if found {
				vs = hub.sessions[newSid]
			}
			hub.mu.RUnlock()
			if !found || vs == nil || (hadPrev && newSid == prevSid) {
				t.Fatalf("addsession %s: no new virtual session (found %v, sid %d, previous %d)", o.Sess, found, newSid, prevSid)
			}
			d := vs.Data()
			priv, pub := vs.PrivateId(), vs.PublicId()
			var a c15Answers
			ts1, iv1 := u.mintAnswers(c15Private, k, d, priv, &a)
			var a2 c15Answers
			ts2, iv2 := u.mintAnswers(c15Public, k, d, pub, &a2)
			a.macs = append(a.macs, a2.macs...)
			a.ctrs = append(a.ctrs, a2.ctrs...)
			minted[o.Label] = &c15Minted{index: len(trace), ids: [2]string{priv, pub}, has: [2]bool{true, true}}
			st.minted += 2
			emit(fmt.Sprintf("XAddSession %s %s %s %s %s %s", u.cd(d), coqStr(ts1), c15Bx(iv1), coqStr(ts2), c15Bx(iv2), a.coq()),
				fmt.Sprintf("WIds %s %s", coqStr(priv), coqStr(pub)))
			if hadPrev {
				// a virtual session with the same id was replaced: the hub closes the previous one
				if !c15WaitGone(hub, prevSid) {
					t.Fatalf("replaced virtual session %d was not removed", prevSid)
				}
				for lb, v := range live {
					if v.sid == prevSid {
						delete(live, lb)
					}
				}
				emit(fmt.Sprintf("XRemove %d", prevSid), "WNone")
			}
			live[o.Label] = &c15Live{sid: d.Sid, priv: priv, pub: pub, parent: o.Parent, vsess: o.Sess}
		case "removesession":
			l, ok := live[o.Label]
			if !ok || l.parent == 0 {
				continue
			}
			pl, ok := live[l.parent]
			if !ok || pl.client == nil {
				continue
			}
			if err := pl.client.SendInternalRemoveSession(&RemoveSessionInternalClientMessage{
				CommonSessionInternalClientMessage: CommonSessionInternalClientMessage{SessionId: l.vsess, RoomId: c15RoomId}}); err != nil {
				t.Fatal(err)
			}
			c15Barrier(t, ctx, pl.client, len(trace))
			if !c15WaitGone(hub, l.sid) {
				t.Fatalf("virtual session %d was not removed", l.sid)
			}
			delete(live, o.Label)
			emit(fmt.Sprintf("XRemove %d", l.sid), "WNone")
		case "both":
			// the hub's decoder of a role and the codec the hub holds (no cache), on the same string
			if o.Src == nil {
				continue
			}
			s, srcTerm, ok := c15Resolve(o.Src, minted)
			if !ok {
				continue
			}
			var a c15Answers
			u.decAnswers(o.Role, k, s, &a)
			var dh, dc *SessionIdData
			var err error
			if o.Role == c15Private {
				dh = hub.decodePrivateSessionId(s)
				dc, err = hub.cookie.DecodePrivate(s)
			} else {
				dh = hub.decodePublicSessionId(s)
				dc, err = hub.cookie.DecodePublic(s)
			}
			if err != nil {
				dc = nil
			}
			if dh != nil {
				st.accepted++
			} else {
				st.rejected++
			}
			emit(fmt.Sprintf("XBoth %s %s %d %s", c15RoleCoq[o.Role], srcTerm, c15Chk([]byte(s)), a.coq()),
				fmt.Sprintf("WBoth %s %s", c15Opt(u, dh), c15Opt(u, dc)))
		case "prefill", "invalidate":
			// the cache operations of the request paths by themselves: setDecodedSessionId with
			// what the codec answers for the string / invalidateSessionId
			if o.Src == nil {
				continue
			}
			s, srcTerm, ok := c15Resolve(o.Src, minted)
			if !ok {
				continue
			}
			name := privateSessionName
			if o.Role == c15Public {
				name = publicSessionName
			}
			if o.K == "invalidate" {
				hub.invalidateSessionId(s, name)
				emit(fmt.Sprintf("XInvalidate %s %s %d", c15RoleCoq[o.Role], srcTerm, c15Chk([]byte(s))), "WNone")
				continue
			}
			var a c15Answers
			u.decAnswers(o.Role, k, s, &a)
			var dc *SessionIdData
			var err error
			if o.Role == c15Private {
				dc, err = hub.cookie.DecodePrivate(s)
			} else {
				dc, err = hub.cookie.DecodePublic(s)
			}
			if err == nil {
				hub.setDecodedSessionId(s, name, dc)
			}
			emit(fmt.Sprintf("XPrefill %s %s %d %s", c15RoleCoq[o.Role], srcTerm, c15Chk([]byte(s)), a.coq()), "WNone")
		case "lookup", "resume", "foreign":
			var s, srcTerm string
			if o.K == "foreign" {
				// a valid id for the Sid of one of this hub's sessions that this hub did not hand out
				// (minted with the same keys, as another server of a cluster would)
				l, ok := live[o.Label]
				if !ok {
					continue
				}
				fd := &SessionIdData{Sid: l.sid, Created: timestamppb.New(time.Unix(int64(1000+len(trace)), 0)), BackendId: "foreign"}
				var err error
				if o.Role == c15Private {
					s, err = hub.cookie.EncodePrivate(fd)
				} else {
					s, err = hub.cookie.EncodePublic(fd)
				}
				if err != nil {
					t.Fatal(err)
				}
				srcTerm = fmt.Sprintf("(SLit %s)", coqStr(s))
				o.K = "lookup"
				if o.Ks == 1 && o.Role == c15Private {
					o.K = "resume"
				}
				st.minted++
			} else {
				if o.Src == nil {
					continue
				}
				var ok bool
				s, srcTerm, ok = c15Resolve(o.Src, minted)
				if !ok {
					continue
				}
			}
			var a c15Answers
			role := o.Role
			if o.K == "resume" {
				role = c15Private
				if !utf8.ValidString(s) || s == "" {
					continue // does not survive the JSON transport unchanged / is not a resume
				}
			}
			u.decAnswers(role, k, s, &a)
			var found Session
			if o.K == "lookup" {
				if role == c15Private {
					found = hub.GetSessionByResumeId(s)
				} else {
					found = hub.GetSessionByPublicId(s)
				}
			} else {
				client := c15Client(t, server, hub)
				conns = append(conns, client)
				if err := client.SendHelloResume(s); err != nil {
					t.Fatal(err)
				}
				msg, err := client.RunUntilMessage(ctx)
				if err != nil {
					t.Fatal(err)
				}
				switch {
				case msg.Type == "hello" && msg.Hello != nil:
					found = c15HubSession(hub, msg.Hello.SessionId)
					for _, l := range live {
						if l.pub == msg.Hello.SessionId {
							l.client = client
						}
					}
				case msg.Type == "error" && msg.Error != nil && msg.Error.Code == "no_such_session":
				default:
					t.Fatalf("unexpected answer to a resume: %+v", msg)
				}
			}
			obs := "WNotFound"
			if found != nil {
				obs = fmt.Sprintf("WFound %d", found.Data().Sid)
				st.accepted++
			} else {
				st.rejected++
			}
			if o.K == "lookup" {
				emit(fmt.Sprintf("XLookup %s %s %d %s", c15RoleCoq[role], srcTerm, c15Chk([]byte(s)), a.coq()), obs)
			} else {
				emit(fmt.Sprintf("XResume %s %d %s", srcTerm, c15Chk([]byte(s)), a.coq()), obs)
			}
		case "decode":
			// the hub's own decoder of a role (every lookup, the resume branch of hello and the
			// recipient of a message go through it)
			if o.Src == nil {
				continue
			}
			s, srcTerm, ok := c15Resolve(o.Src, minted)
			if !ok {
				continue
			}
			var a c15Answers
			u.decAnswers(o.Role, k, s, &a)
			var d *SessionIdData
			if o.Role == c15Private {
				d = hub.decodePrivateSessionId(s)
			} else {
				d = hub.decodePublicSessionId(s)
			}
			obs := "WNoData"
			if d != nil {
				obs = "WData " + u.cd(d)
				st.accepted++
			} else {
				st.rejected++
			}
			emit(fmt.Sprintf("XDecode %s %s %d %s", c15RoleCoq[o.Role], srcTerm, c15Chk([]byte(s)), a.coq()), obs)
		case "dump":
			emit("XDump", c15Dump(u, hub))
		}
	}
	return trace
}

// Applications of the hub's decoders to the ids handed out so far: under their own role and
// under the other one (right after the registration, which puts both ids of the session into
// the caches; later, when they may have been evicted, looked up, or invalidated by a removal),
// the codec's reversal of an id (how a public id is derived), re-spellings, and texts never
// minted.  Inserted with a generator of its own so that the rest of the case stays what it was.
func c15AddDecodes(r *vrng, ops []c15Op) []c15Op {
	var out []c15Op
	var labels []int
	dec := func(base, which, role int, m c15Mut) {
		out = append(out, c15Op{K: "decode", Role: role, Src: &c15Src{Base: base, Which: which, Mut: m}})
	}
	for _, o := range ops {
		out = append(out, o)
		if o.K == "register" {
			labels = append(labels, o.Label)
			if r.chance(60) {
				which := r.intn(2)
				dec(o.Label, which, 1-which, c15Mut{K: "id"})
			}
		}
		if len(labels) == 0 || !r.chance(35) {
			continue
		}
		for n := 1 + r.intn(2); n > 0; n-- {
			base, which := pick(r, labels), r.intn(2)
			role := which
			if r.chance(50) {
				role = 1 - which
			}
			switch x := r.intn(100); {
			case x < 60:
				dec(base, which, role, c15Mut{K: "id"})
			case x < 72:
				dec(base, which, role, c15Mut{K: "reverse"})
			case x < 80:
				dec(base, which, role, c15Mut{K: "append", Hex: pick(r, []string{"0a", "0d0a", "41"})})
			case x < 88:
				dec(base, which, role, c15Mut{K: "flip", Pos: r.intn(60), Bit: r.intn(7)})
			case x < 94:
				dec(base, which, role, c15Mut{K: "respell", N: 1 + r.intn(15)})
			default:
				lit := pick(r, []string{"", "x", "AAAA", "MTIzfHh8eQ==", "private-session", "|"})
				out = append(out, c15Op{K: "decode", Role: role, Src: &c15Src{Lit: &lit}})
			}
		}
	}
	return out
}

// roles at the hub, directed: both ids of a session under both roles right after the
// registration, again after each was decoded under its own role, after another registration
// (small caches: the entries are evicted), and after the session was removed
func c15DirectedHubCases(id int) []*c15Case {
	var cs []*c15Case
	for _, shape := range [][2]int{{1, 0}, {1, 1}, {1, 2}, {2, 2}, {3, 6}} {
		c := &c15Case{Id: id, Mode: 2, NCaches: shape[0], Size: shape[1], Note: "roles at the hub's decoders"}
		id++
		all := func(label int) {
			for _, p := range [][2]int{{c15Public, c15Private}, {c15Private, c15Public}, {c15Private, c15Private}, {c15Public, c15Public},
				{c15Public, c15Private}, {c15Private, c15Public}} {
				c.Ops = append(c.Ops, c15Op{K: "decode", Role: p[1], Src: &c15Src{Base: label, Which: p[0], Mut: c15Mut{K: "id"}}})
			}
		}
		c.Ops = append(c.Ops, c15Op{K: "register", Label: 1})
		all(1)
		c.Ops = append(c.Ops, c15Op{K: "dump"}, c15Op{K: "register", Label: 2})
		all(2)
		all(1)
		c.Ops = append(c.Ops,
			c15Op{K: "lookup", Role: c15Private, Src: &c15Src{Base: 1, Which: c15Public, Mut: c15Mut{K: "id"}}},
			c15Op{K: "lookup", Role: c15Public, Src: &c15Src{Base: 2, Which: c15Private, Mut: c15Mut{K: "id"}}},
			c15Op{K: "resume", Role: c15Private, Src: &c15Src{Base: 2, Which: c15Public, Mut: c15Mut{K: "id"}}},
			c15Op{K: "decode", Role: c15Public, Src: &c15Src{Base: 1, Which: c15Private, Mut: c15Mut{K: "reverse"}}},
			c15Op{K: "decode", Role: c15Private, Src: &c15Src{Base: 1, Which: c15Public, Mut: c15Mut{K: "reverse"}}},
			c15Op{K: "dump"}, c15Op{K: "remove", Label: 1})
		all(1)
		all(2)
		c.Ops = append(c.Ops, c15Op{K: "dump"})
		cs = append(cs, c)
	}
	return cs
}

func c15GenHubCase(r *vrng, id int) *c15Case {
	c := &c15Case{Id: id, Mode: 2, NCaches: 1 + r.intn(3), Size: pick(r, []int{1, 2, 3, 4, 6, 0})}
	n := 14 + r.intn(22)
	label := 0
	var liveLabels, allLabels []int
	reg := func() {
		label++
		c.Ops = append(c.Ops, c15Op{K: "register", Label: label})
		liveLabels = append(liveLabels, label)
		allLabels = append(allLabels, label)
	}
	reg()
	reg()
	for i := 0; i < n; i++ {
		switch x := r.intn(100); {
		case x < 12:
			reg()
		case x < 20 && len(liveLabels) > 1:
			j := r.intn(len(liveLabels))
			c.Ops = append(c.Ops, c15Op{K: "remove", Label: liveLabels[j]})
			liveLabels = append(liveLabels[:j], liveLabels[j+1:]...)
		case x < 30:
			c.Ops = append(c.Ops, c15Op{K: "dump"})
		case x < 38:
			// Ks = 1 asks for the hello-resume path (private ids only)
			c.Ops = append(c.Ops, c15Op{K: "foreign", Label: pick(r, liveLabels), Role: r.intn(2), Ks: r.intn(2)})
		default:
			base := pick(r, allLabels)
			which := r.intn(2)
			role := which
			if r.chance(15) {
				role = 1 - which
			}
			m := c15Mut{K: "id"}
			switch y := r.intn(100); {
			case y < 45:
			case y < 55:
				m = c15Mut{K: "append", Hex: pick(r, []string{"0a", "0d0a", "41", "3d"})}
			case y < 65:
				m = c15Mut{K: "insert", Pos: r.intn(60), C: pick(r, []int{10, 13})}
			case y < 80:
				m = c15Mut{K: "flip", Pos: r.intn(60), Bit: r.intn(7)}
			case y < 84:
				m = c15Mut{K: "respell", N: 1 + r.intn(15)}
			case y < 88:
				m = c15Mut{K: "reverse"}
			case y < 92:
				m = c15Mut{K: "trunc", N: r.intn(80)}
			default:
				m = c15Mut{K: "set", Pos: r.intn(100), C: pick(r, []int{'A', 'B', 'Q', 'g', 'w', '-', '_'})}
			}
			kind := "lookup"
			if r.chance(22) {
				kind = "resume"
			}
			c.Ops = append(c.Ops, c15Op{K: kind, Role: role, Src: &c15Src{Base: base, Which: which, Mut: m}})
		}
	}
	c.Ops = c15AddDecodes(newVrng(int64(r.next()>>1), 1500+uint64(id)), c.Ops)
	c.Ops = append(c.Ops, c15Op{K: "dump"})
	return c
}

// ---- ids made by the hub's request paths ------------------------------------------------------------
// hello of ordinary and of internal clients (processRegister: mints both ids, stores the session,
// pre-fills the decode caches), addsession (processInternalMsg: mints both ids of a virtual session,
// stores it), and the ways sessions end (bye, removesession, a virtual session replaced by one with the
// same id, the virtual sessions of an internal client that leaves, expiry after a lost connection; all
// through removeSession, which deletes both cache entries).  After every step every id seen so far --
// private and public, of live and of ended sessions -- is put to the hub's decoder of its role and to
// the codec the hub holds (op "both"): the two must agree, and answer the data the id was made with.

// the ids of the labels, each under its own role (now and then under the other one as well)
func c15Sweep(r *vrng, ops []c15Op, labels []int) []c15Op {
	type ent struct{ base, which int }
	var es []ent
	for _, l := range labels {
		es = append(es, ent{l, c15Private}, ent{l, c15Public})
	}
	for i := len(es) - 1; i > 0; i-- {
		j := r.intn(i + 1)
		es[i], es[j] = es[j], es[i]
	}
	for _, e := range es {
		ops = append(ops, c15Op{K: "both", Role: e.which, Src: &c15Src{Base: e.base, Which: e.which, Mut: c15Mut{K: "id"}}})
		if r.chance(8) {
			ops = append(ops, c15Op{K: "both", Role: 1 - e.which, Src: &c15Src{Base: e.base, Which: e.which, Mut: c15Mut{K: "id"}}})
		}
	}
	return ops
}

func c15DirectedPathCases(r *vrng, id int) []*c15Case {
	var cs []*c15Case
	// the shortest histories first: one session of each request path, every id right after it was made,
	// looked up, and again after the session ended
	for _, shape := range [][2]int{{1, 0}, {2, 2}} {
		c := &c15Case{Id: id, Mode: 2, NCaches: shape[0], Size: shape[1], Note: "ids made by the hub's request paths (short)"}
		id++
		src := func(base, which int) *c15Src { return &c15Src{Base: base, Which: which, Mut: c15Mut{K: "id"}} }
		c.Ops = append(c.Ops, c15Op{K: "register_internal", Label: 1})
		c.Ops = c15Sweep(r, c.Ops, []int{1})
		c.Ops = append(c.Ops, c15Op{K: "addsession", Label: 2, Parent: 1, Sess: "v1"})
		c.Ops = c15Sweep(r, c.Ops, []int{1, 2})
		c.Ops = append(c.Ops,
			c15Op{K: "lookup", Role: c15Private, Src: src(2, c15Private)},
			c15Op{K: "lookup", Role: c15Public, Src: src(2, c15Public)},
			c15Op{K: "dump"},
			c15Op{K: "removesession", Label: 2})
		c.Ops = c15Sweep(r, c.Ops, []int{1, 2})
		c.Ops = append(c.Ops, c15Op{K: "lookup", Role: c15Private, Src: src(2, c15Private)}, c15Op{K: "dump"})
		cs = append(cs, c)
	}
	for _, shape := range [][2]int{{1, 0}, {1, 2}, {2, 3}, {3, 6}, {1, 1}} {
		c := &c15Case{Id: id, Mode: 2, NCaches: shape[0], Size: shape[1], Note: "ids made by the hub's request paths"}
		id++
		var labels []int
		step := func(o c15Op) {
			c.Ops = append(c.Ops, o)
			if o.Label != 0 && (o.K == "register" || o.K == "register_internal" || o.K == "addsession") {
				labels = append(labels, o.Label)
			}
			c.Ops = c15Sweep(r, c.Ops, labels)
		}
		src := func(base, which int) *c15Src { return &c15Src{Base: base, Which: which, Mut: c15Mut{K: "id"}} }
		step(c15Op{K: "register_internal", Label: 1})
		step(c15Op{K: "register", Label: 2})
		step(c15Op{K: "addsession", Label: 3, Parent: 1, Sess: "v1"})
		c.Ops = append(c.Ops, c15Op{K: "dump"})
		step(c15Op{K: "addsession", Label: 4, Parent: 1, Sess: "v2", Ks: 1})
		c.Ops = append(c.Ops,
			c15Op{K: "lookup", Role: c15Private, Src: src(3, c15Private)},
			c15Op{K: "lookup", Role: c15Public, Src: src(3, c15Public)},
			c15Op{K: "lookup", Role: c15Private, Src: src(4, c15Public)},
			c15Op{K: "lookup", Role: c15Private, Src: src(1, c15Private)})
		step(c15Op{K: "addsession", Label: 5, Parent: 1, Sess: "v1"}) // replaces 3
		step(c15Op{K: "removesession", Label: 4})
		c.Ops = append(c.Ops, c15Op{K: "dump"},
			c15Op{K: "lookup", Role: c15Private, Src: src(3, c15Private)},
			c15Op{K: "lookup", Role: c15Public, Src: src(4, c15Public)},
			c15Op{K: "lookup", Role: c15Private, Src: src(5, c15Private)})
		step(c15Op{K: "prefill", Role: c15Private, Src: src(5, c15Private)})
		step(c15Op{K: "prefill", Role: c15Public, Src: src(5, c15Private)}) // the codec refuses: nothing stored
		step(c15Op{K: "invalidate", Role: c15Public, Src: src(5, c15Public)})
		step(c15Op{K: "invalidate", Role: c15Private, Src: src(2, c15Public)})
		c.Ops = append(c.Ops, c15Op{K: "dump"})
		step(c15Op{K: "register_internal", Label: 6})
		step(c15Op{K: "addsession", Label: 7, Parent: 6, Sess: "v1"})
		step(c15Op{K: "drop", Label: 6})   // 7 ends with it
		step(c15Op{K: "remove", Label: 1}) // 5 ends with it
		step(c15Op{K: "remove", Label: 2})
		c.Ops = append(c.Ops, c15Op{K: "dump"})
		cs = append(cs, c)
	}
	return cs
}

func c15GenPathCase(r *vrng, id int) *c15Case {
	c := &c15Case{Id: id, Mode: 2, NCaches: 1 + r.intn(3), Size: pick(r, []int{1, 2, 3, 4, 6, 0}), Note: "ids made by the hub's request paths"}
	label := 0
	var all []int                // every label that got ids
	var clients, internals []int // live, by kind
	virt := map[int]int{}        // live virtual session -> its internal client
	vname := map[int]string{}
	add := func(o c15Op) { c.Ops = append(c.Ops, o) }
	del := func(l []int, x int) []int {
		var out []int
		for _, y := range l {
			if y != x {
				out = append(out, y)
			}
		}
		return out
	}
	endInternal := func(p int) {
		internals = del(internals, p)
		for v, q := range virt {
			if q == p {
				delete(virt, v)
			}
		}
	}
	virtuals := func() []int {
		var out []int
		for v := range virt {
			out = append(out, v)
		}
		sort.Ints(out)
		return out
	}
	label++
	add(c15Op{K: "register_internal", Label: label})
	internals, all = append(internals, label), append(all, label)
	c.Ops = c15Sweep(r, c.Ops, all)
	for n := 7 + r.intn(5); n > 0; n-- {
		switch x := r.intn(100); {
		case x < 14 && len(all) < 9:
			label++
			add(c15Op{K: "register", Label: label})
			clients, all = append(clients, label), append(all, label)
		case x < 22 && len(all) < 9:
			label++
			add(c15Op{K: "register_internal", Label: label})
			internals, all = append(internals, label), append(all, label)
		case x < 52 && len(internals) > 0 && len(all) < 10:
			p := pick(r, internals)
			name := pick(r, []string{"v1", "v2", "v3"})
			for v, q := range virt {
				if q == p && vname[v] == name {
					delete(virt, v) // replaced
				}
			}
			label++
			add(c15Op{K: "addsession", Label: label, Parent: p, Sess: name, Ks: r.intn(2)})
			virt[label], vname[label] = p, name
			all = append(all, label)
		case x < 62 && len(virt) > 0:
			v := pick(r, virtuals())
			add(c15Op{K: "removesession", Label: v})
			delete(virt, v)
		case x < 68 && len(clients) > 0:
			l := pick(r, clients)
			add(c15Op{K: pick(r, []string{"remove", "drop"}), Label: l})
			clients = del(clients, l)
		case x < 74 && len(internals) > 0:
			p := pick(r, internals)
			add(c15Op{K: pick(r, []string{"remove", "drop"}), Label: p})
			endInternal(p)
		case x < 86:
			base, which := pick(r, all), r.intn(2)
			role := which
			if r.chance(20) {
				role = 1 - which
			}
			kind := "lookup"
			isClient := false
			for _, l := range append(append([]int{}, clients...), internals...) {
				isClient = isClient || l == base
			}
			if isClient && r.chance(30) {
				kind = "resume" // hello with a resume id: for the sessions of clients only (a virtual session is not resumed)
			}
			add(c15Op{K: kind, Role: role, Src: &c15Src{Base: base, Which: which, Mut: c15Mut{K: "id"}}})
		case x < 92:
			base, which := pick(r, all), r.intn(2)
			role := which
			if r.chance(25) {
				role = 1 - which
			}
			add(c15Op{K: "prefill", Role: role, Src: &c15Src{Base: base, Which: which, Mut: c15Mut{K: "id"}}})
		case x < 97:
			base, which := pick(r, all), r.intn(2)
			add(c15Op{K: "invalidate", Role: which, Src: &c15Src{Base: base, Which: which, Mut: c15Mut{K: "id"}}})
		default:
			add(c15Op{K: "dump"})
			continue
		}
		c.Ops = c15Sweep(r, c.Ops, all)
	}
	add(c15Op{K: "dump"})
	return c
}

// Concurrent lookups on one hub with small caches (a test, not a proof): while
// goroutines look up live ids, re-spellings, foreign ids and ids of the other
// role, every session returned must own exactly the string that was presented,
// and every live id must be found.
func c15Stress(t *testing.T, sink *caseSink, seed int64, rounds int) {
	hub, _, _, server := CreateHubForTest(t)
	hub.throttler = c15NoThrottle{}
	hub.decodeCaches = []*LruCache{NewLruCache(3), NewLruCache(2)}
	ctx, cancel := context.WithTimeout(context.Background(), 60*time.Second)
	defer cancel()
	type entry struct {
		s       string
		private bool
		sid     uint64 // 0: must not be found
	}
	var pool []entry
	var clients []*TestClient
	for i := 0; i < 6; i++ {
		client := c15Client(t, server, hub)
		clients = append(clients, client)
		if err := client.SendHello(testDefaultUserId); err != nil {
			t.Fatal(err)
		}
		hello, err := client.RunUntilHello(ctx)
		if err != nil {
			t.Fatal(err)
		}
		sess := c15HubSession(hub, hello.Hello.SessionId)
		sid := sess.Data().Sid
		priv, pub := hello.Hello.ResumeId, hello.Hello.SessionId
		pool = append(pool, entry{priv, true, sid}, entry{pub, false, sid},
			entry{priv + "\n", true, 0}, entry{pub + "\n", false, 0}, entry{priv, false, 0}, entry{pub, true, 0},
			entry{string(c15Mut{K: "respell", N: 1}.apply([]byte(priv))), true, 0},
			entry{string(c15Mut{K: "respell", N: 1}.apply([]byte(pub))), false, 0})
		fd := &SessionIdData{Sid: sid, BackendId: "foreign"}
		f1, _ := hub.cookie.EncodePrivate(fd)
		f2, _ := hub.cookie.EncodePublic(fd)
		pool = append(pool, entry{f1, true, 0}, entry{f2, false, 0})
	}
	// respell with N = 1 leaves an id without padding (or whose free bits are already 1) unchanged
	for i := range pool {
		for j := range pool {
			if i != j && pool[i].s == pool[j].s && pool[i].private == pool[j].private && pool[j].sid != 0 {
				pool[i].sid = pool[j].sid
			}
		}
	}
	var wg sync.WaitGroup
	var mu sync.Mutex
	bad := 0
	for w := 0; w < 8; w++ {
		wg.Add(1)
		go func(w int) {
			defer wg.Done()
			r := newVrng(seed, uint64(5000+w))
			for i := 0; i < rounds; i++ {
				e := pool[r.intn(len(pool))]
				var got Session
				if e.private {
					got = hub.GetSessionByResumeId(e.s)
				} else {
					got = hub.GetSessionByPublicId(e.s)
				}
				ok := (got == nil && e.sid == 0) || (got != nil && e.sid != 0 && got.Data().Sid == e.sid &&
					((e.private && got.PrivateId() == e.s) || (!e.private && got.PublicId() == e.s)))
				if !ok {
					mu.Lock()
					bad++
					if bad == 1 {
						sink.violation(200000+i, fmt.Sprintf("concurrent lookups: the lookup of %q (private=%v) returned %v, expected session %d (0 = none)", e.s, e.private, got, e.sid),
							map[string]interface{}{"scenario": "c15Stress", "string": e.s, "private": e.private})
					}
					mu.Unlock()
				}
			}
		}(w)
	}
	wg.Wait()
	for _, cl := range clients {
		cl.SendBye() // nolint
	}
	for _, e := range pool {
		if e.sid != 0 {
			c15WaitGone(hub, e.sid)
		}
	}
	for _, cl := range clients {
		cl.conn.Close()
	}
	sink.stats.Histogram["stress_lookups"] = 8 * rounds
	sink.stats.Histogram["stress_wrong_answers"] = bad
}

// ---- base64: the decoder of lib/B64.v against encoding/base64 on short strings ----------------------

func c15B64Table(r *vrng, n int) string {
	alpha := []byte("AQgw-_9+/=\n\r |.\x00\xff")
	var rows []string
	add := func(in []byte) {
		out, err := base64.URLEncoding.DecodeString(string(in))
		enc := base64.URLEncoding.EncodeToString(in)
		res := "None"
		if err == nil {
			res = "(Some " + c15Bx(out) + ")"
		}
		rows = append(rows, fmt.Sprintf("(%s, %s, %s)", c15Bx(in), res, coqStr(enc)))
	}
	for _, s := range []string{"", "QQ==", "QQ=", "QQ", "Q", "QR==", "QUI=", "QUJ=", "QUJD", "QQ==\n", "QQ=\n=", "QQ\n==", "\nQQ==", "QQ==QQ==", "QQ== ", "=", "==", "Q===", "QUJDQQ", "QUJD\r\nQUJD", "QUJDQUI=\r\n\r\n", "QUJDQUI=\n="} {
		add([]byte(s))
	}
	for i := 0; i < n; i++ {
		l := r.intn(13)
		b := make([]byte, l)
		for j := range b {
			if r.chance(90) {
				b[j] = alpha[r.intn(10+2)] // mostly alphabet, padding, line breaks
			} else {
				b[j] = alpha[r.intn(len(alpha))]
			}
		}
		add(b)
		if r.chance(30) {
			add(c15RandBytes(r, r.intn(9))) // for the encoder column
		}
	}
	return "From Coq Require Import List NArith String.\nFrom Verif Require Import corr.Run_C15.\nImport ListNotations.\n" +
		"Definition result := Eval vm_compute in b64_table_mismatches " + coqList(rows) + ".\nPrint result.\n"
}

// ---- the scenario ----------------------------------------------------------------------------------------

func TestVerifC15(t *testing.T) {
	env := getVerifEnv(t, "C15")
	sink := newCaseSink(t, env, "C15", "corr.Run_C15", 8)
	prevOut := log.Writer()
	log.SetOutput(io.Discard)
	defer log.SetOutput(prevOut)

	u := newC15Universe()
	nCodec, nCraft, nHub, nConfig, nPath := 40, 12, 14, 2, 5
	if env.thorough() {
		nCodec, nCraft, nHub, nConfig, nPath = 640, 160, 160, 40, 60
	}
	var cases []*c15Case
	if env.replay != "" {
		var cs []c15Case
		readReplay(t, env.replay, &cs)
		for i := range cs {
			cases = append(cases, &cs[i])
		}
	} else {
		id := 0
		for i := 0; i < nCodec; i++ {
			cases = append(cases, c15GenCodecCase(t, u, newVrng(env.seed, uint64(id)), id, env.thorough()))
			id++
		}
		for i := 0; i < nCraft; i++ {
			cases = append(cases, c15GenCraftCase(u, newVrng(env.seed, uint64(id)), id))
			id++
		}
		cases = append(cases, c15GenLengthCase(u, newVrng(env.seed, uint64(id)), id))
		id++
		for i := 0; i < nHub; i++ {
			cases = append(cases, c15GenHubCase(newVrng(env.seed, uint64(id)), id))
			id++
		}
		cases = append(cases, c15DirectedHubCases(8000000)...)
		cases = append(cases, c15DirectedPathCases(newVrng(env.seed, 88200), 8200000)...)
		for i := 0; i < nPath; i++ {
			cases = append(cases, c15GenPathCase(newVrng(env.seed, uint64(88300+i)), 8200100+i))
		}
		cases = append(cases, c15DirectedConfigCase(newVrng(env.seed, 88001), 8100000))
		for i := 0; i < nConfig; i++ {
			cases = append(cases, c15GenConfigCase(newVrng(env.seed, uint64(88100+i)), 8100001+i))
		}
		cases = append(cases, c15WitnessCases(t, u, newVrng(env.seed, 99991), id)...)
	}
	st := &c15RunStats{errs: map[string]int{}}
	ops := 0
	for _, c := range cases {
		var trace []string
		before := *st
		if c.Mode == 2 {
			if c.NCaches <= 0 {
				c.NCaches = 1
			}
			t.Run(fmt.Sprintf("hub%d", c.Id), func(t *testing.T) {
				trace = c15RunHub(t, u, c, st)
			})
		} else if c.Mode == 3 {
			t.Run(fmt.Sprintf("config%d", c.Id), func(t *testing.T) {
				trace = c15RunConfig(t, u, c, st)
			})
		} else {
			trace = c15RunCodec(u, c, st)
		}
		ops += len(trace)
		sink.count(fmt.Sprintf("mode%d_cases", c.Mode))
		sink.stats.Histogram[fmt.Sprintf("mode%d_ops", c.Mode)] += len(trace)
		// non-trivial: at least one id was minted and at least one string accepted and one rejected
		nontrivial := st.minted > before.minted && st.accepted > before.accepted && st.rejected > before.rejected
		sink.add(c.term(trace), c, nontrivial, strings.Join(c.Outs, ","))
	}
	for k, v := range st.errs {
		sink.stats.Histogram["rejected_"+strings.Fields(k)[0]] += v
	}
	sink.stats.Histogram["accepted"] = st.accepted
	sink.stats.Histogram["rejected"] = st.rejected
	sink.stats.Histogram["ids_minted"] = st.minted
	sink.stats.Histogram["operations"] = ops
	if env.replay == "" {
		n := 600
		if env.thorough() {
			n = 6000
		}
		sink.extraFile("b64", c15B64Table(newVrng(env.seed, 77777), n))
		sink.stats.Histogram["b64_table_rows"] = n
		rounds := 2000
		if env.thorough() {
			rounds = 60000
		}
		t.Run("stress", func(t *testing.T) { c15Stress(t, sink, env.seed, rounds) })
	}
	sink.stats.Notes = append(sink.stats.Notes,
		"codec cases: one data value minted as private and public id under key set 0 and under another key set; every single-bit flip of the first/last bytes and of random positions, truncations, extensions, CR/LF and other bytes inserted, every trailing-bit re-spelling, standard alphabet, no padding, re-encoding, reversal, other role, other keys, twin key set",
		"craft cases: strings built with the real keys (time stamp strings, value parts, MAC variants) to reach every check of the decoder; length cases around 4096 characters",
		"config cases: one hub per configuration through NewHub ([sessions] hashkey / blockkey: block keys of 16, 24, 32 bytes, none, absent, invalid lengths, multi-byte characters; shared and different hash keys); every id minted with a hub's codec is decoded with the codec of every other hub; the key sets on the Coq side are the model's reading of the configuration texts",
		"hub cases: real Hub (CreateHubForTest) with small decode caches; register (hello), remove (bye), GetSessionByResumeId / GetSessionByPublicId, hello with resume id, the hub's decoders of both roles applied to the ids handed out (own role, other role, reversal, re-spellings) and to texts never minted, cache dumps",
		"request-path cases (hub): ids made by hello of ordinary and internal clients and by addsession (virtual sessions, with and without options, replaced ones); sessions ending by bye, removesession, replacement, the internal client leaving, expiry after a lost connection; setDecodedSessionId / invalidateSessionId by themselves; after every step every id seen so far (live and ended, both roles) goes through the hub's decoder of its role and through hub.cookie.DecodePrivate / DecodePublic")
	sink.close("seeded cases on the real SessionIdCodec / Hub; non-trivial = an id was minted, at least one string accepted and one rejected; distinct = distinct observation sequences")
}
