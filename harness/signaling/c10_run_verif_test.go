//go:build verif

package signaling

// C10, part 2: the child process.  One real hub (hubdrv), a bystander session in a
// room, one fixture per session state of the sender; every frame is sent by a real
// websocket client, followed by a marker message whose answer tells that the
// synchronous part of the processing is over.

import (
	"bufio"
	"bytes"
	"encoding/base64"
	"encoding/json"
	"fmt"
	"io"
	"log"
	"net/http"
	"net/url"
	"os"
	"sort"
	"strings"
	"testing"
	"time"

	"github.com/gorilla/websocket"
	"github.com/pion/sdp/v3"
)

type c10WorkItem struct {
	K    int     `json:"k"` // global index of the step
	Step c10Step `json:"step"`
}

type c10LogLine struct {
	K    int      `json:"k"`
	Ph   string   `json:"ph"` // start, done, end, ready
	Obs  *c10Step `json:"obs,omitempty"`
	Note string   `json:"note,omitempty"`
}

type c10StateFix struct {
	conn *hdClient
	pub  string
	priv string
	rid  string // private id of a disconnected session (state 0)
}

type c10Fix struct {
	t        *testing.T
	sys      *hdSystem
	nextConn int
	seq      int
	by       *hdClient
	byPub    string
	offPub   string // the session without connection: public id, resume id, numeric id in the digest
	offPriv  string
	offSid   uint64
	fix      map[int]*c10StateFix
	apiRes   chan int
	pending  string
	pendAt   time.Time
	rebuilds int
	blocked  bool // the hub of this child no longer serves (liveness probe failed): the child must be replaced
}

// dial opens a websocket connection to the hub (like hdSystem.connect, but with a bound on the
// handshake and an error instead of the end of the test: the liveness probe connects to a hub that may
// serve nobody any more; the reader never answers a dial-out request by itself - in state 4 the request
// must stay pending until the frame under test arrives).
func (f *c10Fix) dial(handshake time.Duration) (*hdClient, error) {
	f.nextConn++
	u := "ws" + strings.TrimPrefix(f.sys.server.URL, "http") + "/spreed"
	hdr := http.Header{}
	hdr.Set("User-Agent", fmt.Sprintf("hdconn-%d", f.nextConn))
	hdr.Set("X-Real-IP", fmt.Sprintf("198.51.100.%d", 1+f.nextConn%200)) // the test server's peer is loopback = trusted by default
	dialer := *websocket.DefaultDialer
	dialer.HandshakeTimeout = handshake
	conn, _, err := dialer.Dial(u, hdr)
	if err != nil {
		return nil, err
	}
	c := &hdClient{idx: f.nextConn, conn: conn, gone: make(chan struct{})}
	f.sys.clients[c.idx] = c
	go func() {
		defer close(c.gone)
		for {
			_, data, err := c.conn.ReadMessage()
			c.mu.Lock()
			if err != nil {
				c.closed = true
				c.mu.Unlock()
				return
			}
			c.msgs = append(c.msgs, data)
			c.mu.Unlock()
		}
	}()
	return c, nil
}

func (f *c10Fix) newConn() *hdClient {
	c, err := f.dial(45 * time.Second)
	if err != nil {
		f.t.Fatalf("dial: %v", err)
	}
	f.sync(c) // the welcome message has arrived by then
	c.take()
	return c
}

// sync sends a marker (an invalid message that is answered with an error carrying its
// id); true when the answer arrived, false when the connection was closed instead.
func (f *c10Fix) sync(c *hdClient) bool {
	f.seq++
	id := fmt.Sprintf("hdsync-c10-%d", f.seq)
	if err := c.send([]byte(fmt.Sprintf(`{"id":"%s","type":"message"}`, id))); err != nil {
		<-c.gone
		return false
	}
	return c.waitForId(id, 20*time.Second)
}

// ---- liveness ("other sessions keep working") ----------------------------------------------------------
// After every frame: (1) a request of the bystander that needs the hub's session table (a message
// addressed to a session id: its own, so nothing is delivered) must have been processed - told by the
// answer to the marker behind it - and (2) a new connection must be greeted (the welcome message is sent
// after the connection has been entered into the hub's tables) and removed again, each within
// c10LiveBound.  (3) reading the hub's tables for the digest must end within the bound as well.  A miss
// is the direct observation "blocked" (o_live = false), like the exit of the process is for o_alive:
// the process is alive, but somebody holds a lock of the hub for ever.  The hub of this child is then
// useless; the child ends and the parent continues with a new one.
const c10LiveBound = 10 * time.Second

func (f *c10Fix) syncWithin(c *hdClient, bound time.Duration) bool {
	f.seq++
	id := fmt.Sprintf("hdsync-c10-%d", f.seq)
	if err := c.send([]byte(fmt.Sprintf(`{"id":"%s","type":"message"}`, id))); err != nil {
		return false
	}
	return c.waitForId(id, bound)
}

func c10Within(bound time.Duration, fn func()) bool {
	done := make(chan struct{})
	go func() {
		defer close(done)
		fn()
	}()
	select {
	case <-done:
		return true
	case <-time.After(bound):
		return false
	}
}

func (f *c10Fix) probeLive() (live bool, note string) {
	// a new connection
	c, err := f.dial(c10LiveBound)
	if err != nil {
		return false, "a new connection was not accepted within the bound: " + err.Error()
	}
	conn := c.conn
	welcome := func() bool {
		c.mu.Lock()
		defer c.mu.Unlock()
		for _, m := range c.msgs {
			var sm ServerMessage
			if sm.UnmarshalJSON(m) == nil && sm.Type == "welcome" && sm.Welcome != nil {
				return true
			}
		}
		return false
	}
	start := time.Now()
	stuck := false
	for !welcome() && !stuck && time.Since(start) < c10LiveBound && !c.isClosed() {
		time.Sleep(100 * time.Microsecond)
		// Not greeted after a second (normally: well under a millisecond): look at the hub's lock.  When it
		// cannot be taken at any of 100 attempts spread over half a second, somebody holds it for good (the
		// hub holds it for microseconds) and there is no point in waiting for the rest of the bound.
		if time.Since(start) > time.Second && time.Since(start) < c10LiveBound-time.Second {
			stuck = true
			for i := 0; i < 100 && stuck && !welcome(); i++ {
				if f.sys.hub.mu.TryLock() {
					f.sys.hub.mu.Unlock()
					stuck = false
				} else {
					time.Sleep(5 * time.Millisecond)
				}
			}
			if !stuck {
				time.Sleep(20 * time.Millisecond)
			}
		}
	}
	if !welcome() {
		conn.Close()
		if stuck {
			return false, "a new connection did not get the welcome message (1.5 s; the hub's lock was held all the time)"
		}
		return false, "a new connection did not get the welcome message within the bound"
	}
	// ... is served (the marker is answered) and is forgotten again when it closes
	if !f.syncWithin(c, c10LiveBound) {
		conn.Close()
		return false, "a new connection was greeted but its first message was not answered within the bound"
	}
	conn.Close()
	select {
	case <-c.gone:
	case <-time.After(c10LiveBound):
		return false, "closing a new connection did not end within the bound"
	}
	delete(f.sys.clients, c.idx)
	// ... which the hub has done when the connection is no longer in its list of connections
	// without session (removed under the hub's lock when the read pump has ended)
	agent := fmt.Sprintf("hdconn-%d", c.idx)
	if !c10Within(c10LiveBound, func() {
		for {
			found := false
			f.sys.hub.mu.RLock()
			for hc := range f.sys.hub.expectHelloClients {
				if hc.UserAgent() == agent {
					found = true
				}
			}
			f.sys.hub.mu.RUnlock()
			if !found {
				return
			}
			time.Sleep(100 * time.Microsecond)
		}
	}) {
		return false, "the hub did not let go of a closed connection within the bound"
	}
	return true, ""
}

func (f *c10Fix) request(c *hdClient, id string, msg map[string]interface{}) *ServerMessage {
	msg["id"] = id
	data, _ := json.Marshal(msg)
	if err := c.send(data); err != nil {
		return nil
	}
	f.sync(c)
	f.sys.settle()
	c.mu.Lock()
	defer c.mu.Unlock()
	for _, m := range c.msgs {
		var sm ServerMessage
		if sm.UnmarshalJSON(m) == nil && sm.Id == id {
			return &sm
		}
	}
	return nil
}

func (f *c10Fix) hello(c *hdClient, hello map[string]interface{}) (pub, priv string) {
	f.seq++
	m := f.request(c, fmt.Sprintf("fxhello%d", f.seq), map[string]interface{}{"type": "hello", "hello": hello})
	if m == nil || m.Type != "hello" || m.Hello == nil {
		f.t.Fatalf("C10 fixture: hello %v answered with %+v", hello, m)
	}
	c.take()
	return m.Hello.SessionId, m.Hello.ResumeId
}

func (f *c10Fix) helloV1(c *hdClient, user string) (string, string) {
	return f.hello(c, map[string]interface{}{"version": "1.0", "auth": map[string]interface{}{
		"url": f.sys.backendUrl(0) + "/ocs/v2.php/apps/spreed/api/v1/signaling/backend", "params": map[string]interface{}{"u": user}}})
}

func (f *c10Fix) helloInternal(c *hdClient, features []string) (string, string) {
	h := map[string]interface{}{"version": "1.0", "auth": map[string]interface{}{"type": "internal",
		"params": map[string]interface{}{"random": c10Random, "token": c10InternalToken(c10Random), "backend": f.sys.backendUrl(0)}}}
	if len(features) > 0 {
		h["features"] = features
	}
	return f.hello(c, h)
}

func (f *c10Fix) join(c *hdClient, room string, perms []string) string {
	f.sys.backend.mu.Lock()
	f.sys.backend.roomReply = hdRoomReply{Permissions: perms, HasPerm: perms != nil}
	f.sys.backend.mu.Unlock()
	f.seq++
	rs := fmt.Sprintf("c10-rs-%d", f.seq)
	m := f.request(c, fmt.Sprintf("fxjoin%d", f.seq), map[string]interface{}{"type": "room", "room": map[string]interface{}{"roomid": room, "sessionid": rs}})
	if m == nil || m.Type != "room" {
		f.t.Fatalf("C10 fixture: join answered with %+v", m)
	}
	c.take()
	return rs
}

func (f *c10Fix) drop(c *hdClient) {
	if c == nil {
		return
	}
	if !c.isClosed() {
		c.conn.Close()
	}
	<-c.gone
	delete(f.sys.clients, c.idx)
}

// release ends a fixture: a session is closed with bye so nothing of it stays behind
func (f *c10Fix) release(sf *c10StateFix) {
	if sf == nil || sf.conn == nil {
		return
	}
	c := sf.conn
	if !c.isClosed() {
		c.send([]byte(`{"id":"fxbye","type":"bye"}`)) // nolint
		f.sync(c)
	}
	f.drop(c)
	f.sys.settle()
}

func (f *c10Fix) ensureBystander() {
	if f.by != nil && !f.by.isClosed() {
		return
	}
	if f.by != nil {
		f.drop(f.by)
	}
	c := f.newConn()
	f.byPub, _ = f.helloV1(c, "user7")
	f.join(c, c10RoomId, nil)
	f.by = c
	f.sys.settle()
	c.take()
}

// A member of the bystander's room whose connection was interrupted: the session stays
// (housekeeping does not run in this hub, so it never expires) and everything sent to
// it is stored for the resume.
func (f *c10Fix) ensureOffline() {
	if f.offPub != "" {
		if sess := f.sys.hub.GetSessionByPublicId(f.offPub); sess != nil && sess.GetRoom() != nil {
			if cs, ok := sess.(*ClientSession); ok && cs.GetClient() == nil {
				return
			}
		}
		f.t.Fatalf("C10 fixture: the session without connection is gone or changed")
	}
	c := f.newConn()
	f.offPub, f.offPriv = f.helloV1(c, c10OffUser)
	rs := f.join(c, c10RoomId, nil)
	f.sys.settle()
	f.drop(c)
	f.sys.settle()
	f.offSid = f.sys.sidOf(f.offPub)
	// the backend says it is in the call (so that messages to the call reach it)
	user := map[string]interface{}{"sessionId": rs, "inCall": 7}
	body, _ := json.Marshal(map[string]interface{}{"type": "incall", "incall": map[string]interface{}{"incall": 7,
		"changed": []interface{}{user}, "users": []interface{}{user}}})
	if st := f.sys.roomApi(0, 0, c10RoomId, body); st != 200 {
		f.t.Fatalf("C10 fixture: incall request answered with %d", st)
	}
	f.sys.settle()
	sess := f.sys.hub.GetSessionByPublicId(f.offPub)
	if sess == nil || sess.GetRoom() == nil || f.offSid == 0 {
		f.t.Fatalf("C10 fixture: the session without connection was not kept")
	}
	if !sess.GetRoom().IsSessionInCall(sess) {
		f.t.Fatalf("C10 fixture: the session without connection is not in the call")
	}
	if f.by != nil {
		f.by.take()
	}
}

// number of messages stored for the session without connection (as the digest counts them)
func (f *c10Fix) offPending(d *hdDigest) int {
	for i := range d.Sessions {
		if d.Sessions[i].Sid == f.offSid {
			return d.Sessions[i].Pending
		}
	}
	return -1
}

var c10AllPerms = []string{"publish-audio", "publish-video", "publish-screen", "publish-media", "control", "transient-data"}
var c10NoControlPerms = []string{"publish-audio", "publish-video", "publish-screen", "publish-media", "transient-data"}

func (f *c10Fix) ensure(st int) *c10StateFix {
	f.ensureBystander()
	f.ensureOffline()
	if sf := f.fix[st]; sf != nil && !sf.conn.isClosed() {
		return sf
	}
	f.rebuilds++
	sf := &c10StateFix{}
	switch st {
	case 0:
		v := f.newConn()
		_, sf.rid = f.helloV1(v, "user8")
		f.drop(v)
		f.sys.settle()
		sf.conn = f.newConn()
	case 1:
		sf.conn = f.newConn()
		sf.pub, sf.priv = f.helloV1(sf.conn, c10SelfUser)
	case 2, 5, 8:
		sf.conn = f.newConn()
		sf.pub, sf.priv = f.helloV1(sf.conn, c10SelfUser)
		perms := c10AllPerms
		if st == 8 {
			perms = c10NoControlPerms
		}
		f.join(sf.conn, c10RoomId, perms)
		if st == 5 {
			f.drop(sf.conn)
			f.sys.settle()
			sf.conn = f.newConn()
			pub, _ := f.hello(sf.conn, map[string]interface{}{"version": "1.0", "resumeid": sf.priv})
			if pub != sf.pub {
				f.t.Fatalf("C10 fixture: resume gave another session")
			}
		}
	case 3:
		sf.conn = f.newConn()
		sf.pub, sf.priv = f.helloInternal(sf.conn, nil)
		f.join(sf.conn, c10RoomId, nil)
	case 4:
		sf.conn = f.newConn()
		sf.pub, sf.priv = f.helloInternal(sf.conn, []string{ClientFeatureStartDialout})
		f.pending = ""
		f.apiRes = nil
	}
	f.sys.settle()
	sf.conn.take()
	f.by.take()
	f.fix[st] = sf
	return sf
}

// a room API dialout request in its own goroutine: the response handler is installed
// and the request waits (up to 10 s) for the internal client's answer
func (f *c10Fix) ensurePending(sf *c10StateFix) {
	if f.pending != "" && time.Since(f.pendAt) < 4*time.Second {
		return
	}
	if f.pending != "" {
		// answer the old one
		sf.conn.send([]byte(fmt.Sprintf(`{"id":%q,"type":"internal","internal":{"type":"dialout","dialout":{"type":"error","error":{"code":"x","message":"y"}}}}`, f.pending))) // nolint
		select {
		case <-f.apiRes:
		case <-time.After(15 * time.Second):
			f.t.Fatalf("C10 fixture: pending dialout did not end")
		}
		f.pending = ""
		f.sys.settle()
		sf.conn.take()
	}
	body := []byte(`{"type":"dialout","dialout":{"number":"+4912345678"}}`)
	res := make(chan int, 1) // one channel per request: a request of an abandoned fixture ends later and is ignored
	f.apiRes = res
	go func() {
		st := f.sys.roomApi(0, 0, c10RoomId, body)
		if st < 0 {
			st = -1
		}
		res <- st
	}()
	deadline := time.Now().Add(20 * time.Second)
	for time.Now().Before(deadline) {
		sf.conn.mu.Lock()
		for _, m := range sf.conn.msgs {
			var sm ServerMessage
			if sm.UnmarshalJSON(m) == nil && sm.Type == "internal" && sm.Internal != nil && sm.Internal.Type == "dialout" {
				f.pending = sm.Id
			}
		}
		sf.conn.mu.Unlock()
		if f.pending != "" {
			break
		}
		select {
		case st := <-f.apiRes:
			f.t.Fatalf("C10 fixture: dialout request ended with %d before reaching the client", st)
		default:
		}
		time.Sleep(200 * time.Microsecond)
	}
	if f.pending == "" {
		f.t.Fatalf("C10 fixture: no dialout request reached the internal client")
	}
	f.pendAt = time.Now()
	f.sys.settle()
	sf.conn.take()
}

// the digest without the queue of the session without connection, and the length of that queue
func (f *c10Fix) digestText() (string, int) {
	d := f.sys.digest()
	n := f.offPending(d)
	for i := range d.Sessions {
		if d.Sessions[i].Sid == f.offSid {
			d.Sessions[i].Pending = 0
		}
	}
	b, _ := json.Marshal(d)
	return string(b), n
}

// ---- projections -----------------------------------------------------------------------------------------

// Is the frame a JSON text?  encoding/json decides (json.Valid: grammar, escapes, UTF-8 is not its business), except
// that its scanner also gives up beyond 10000 levels of nesting - the grammar has no such limit, and the server forwards
// client data of that depth verbatim (classes nest/): a frame refused for its depth only is left to the decoder.
func c10JsonText(data []byte) bool {
	if json.Valid(data) {
		return true
	}
	var raw json.RawMessage
	err := json.Unmarshal(data, &raw)
	if se, ok := err.(*json.SyntaxError); ok && strings.Contains(se.Error(), "exceeded max depth") {
		return true
	}
	return false
}

func c10Reply(data []byte, rev *strings.Replacer) string {
	// "a well-formed reply": first of all the frame is a JSON text - for every JSON reader, not only for the
	// lenient lexer of the generated decoder (which e.g. does not look into strings of members it keeps raw)
	if !c10JsonText(data) {
		return "RBad"
	}
	var m ServerMessage
	if err := m.UnmarshalJSON(data); err != nil {
		return "RBad"
	}
	id := c10CoqString(c10Bytes([]byte(rev.Replace(m.Id))))
	switch {
	case m.Type == "error" && m.Error != nil:
		return fmt.Sprintf("(RError %s %s)", c11CoqStr(m.Error.Code), id)
	case m.Type == "hello" && m.Hello != nil:
		return "(RHello " + id + ")"
	case m.Type == "bye":
		return "(RBye " + id + ")"
	case m.Type == "room" && m.Room != nil:
		return "(RRoom " + id + ")"
	case m.Type == "message" && m.Message != nil:
		return "RMessage"
	case m.Type == "control" && m.Control != nil:
		return "RControl"
	case m.Type == "event" && m.Event != nil:
		return "REvent"
	case m.Type == "transient" && m.TransientData != nil:
		return "RTransient"
	case m.Type == "internal" && m.Internal != nil:
		return "RInternal"
	case m.Type == "dialout" && m.Dialout != nil:
		return "RDialout"
	case m.Type == "welcome" && m.Welcome != nil:
		return "RWelcome"
	}
	return "RBad"
}

func c10Bystander(data []byte, senderPub string) string {
	var m ServerMessage
	if !c10JsonText(data) {
		return "BOther" // not a JSON text: nothing a bystander may legitimately receive
	}
	if err := m.UnmarshalJSON(data); err != nil {
		return "BOther"
	}
	switch {
	case m.Type == "message" && m.Message != nil:
		return "(BMessage " + coqBool(senderPub != "" && m.Message.Sender != nil && m.Message.Sender.SessionId == senderPub) + ")"
	case m.Type == "control" && m.Control != nil:
		return "(BControl " + coqBool(senderPub != "" && m.Control.Sender != nil && m.Control.Sender.SessionId == senderPub) + ")"
	case m.Type == "event" && m.Event != nil:
		switch m.Event.Target + "/" + m.Event.Type {
		case "room/join":
			return "BJoin"
		case "room/leave":
			return "BLeave"
		case "room/change", "participants/update", "participants/flags":
			return "BUpdate"
		}
	case m.Type == "transient" && m.TransientData != nil:
		return "BTransient"
	case m.Type == "dialout" && m.Dialout != nil:
		return "BDialout"
	}
	return "BOther"
}

// oracle table: every string of the document (and the string with "/" appended, for
// the signaling URL) whose three library verdicts differ from the default
// (url.Parse ok, url.ParseRequestURI fails, SDP parser fails)
func c10Oracles(doc *vj, subst *strings.Replacer) []string {
	seen := map[string]bool{}
	var out []string
	var walk func(j *vj)
	one := func(s string) {
		if seen[s] || len(s) > 2000 {
			return
		}
		seen[s] = true
		real := subst.Replace(string(c10Raw(s)))
		_, e1 := url.Parse(real)
		_, e2 := url.ParseRequestURI(real)
		var sd sdp.SessionDescription
		e3 := sd.Unmarshal([]byte(real))
		if e1 == nil && e2 != nil && e3 != nil {
			return
		}
		out = append(out, fmt.Sprintf("(%s, (%s, %s, %s))", c10CoqString(s), coqBool(e1 == nil), coqBool(e2 == nil), coqBool(e3 == nil)))
	}
	walk = func(j *vj) {
		switch j.K {
		case "s":
			one(j.S)
			if !strings.HasSuffix(j.S, "/") {
				one(j.S + "/")
			}
		case "a", "r", "d":
			for _, x := range j.A {
				walk(x)
			}
		case "o":
			for _, m := range j.O {
				walk(m.V)
			}
		}
	}
	walk(doc)
	sort.Strings(out)
	return out
}

// ---- one step -------------------------------------------------------------------------------------------------

// the session without connection resumes on a new connection, receives what was stored for
// it, and loses the connection again
func (f *c10Fix) runResume(s *c10Step, emitStart func()) {
	f.ensureBystander()
	f.ensureOffline()
	f.sys.settle()
	f.by.take()
	before, offBefore := f.digestText()
	emitStart()
	c := f.newConn()
	f.seq++
	c.send([]byte(fmt.Sprintf(`{"id":"fxresume%d","type":"hello","hello":{"version":"1.0","resumeid":%q}}`, f.seq, f.offPriv))) // nolint
	f.sync(c)
	f.sys.settle()
	msgs, closed := c.take()
	rev := strings.NewReplacer(f.offPub, c10Oid, f.byPub, c10Bid, c10RoomId, c10Room)
	s.Alive, s.Closed = true, closed
	s.Replies = []string{}
	resumed := false
	for _, m := range msgs {
		if bytes.Contains(m, []byte(`"id":"hdsync`)) {
			continue
		}
		var sm ServerMessage
		if sm.UnmarshalJSON(m) == nil && sm.Type == "hello" && sm.Hello != nil && sm.Hello.SessionId == f.offPub {
			resumed = true
		}
		s.Replies = append(s.Replies, c10Reply(m, rev))
	}
	if !resumed {
		s.Replies = append(s.Replies, "RBad") // the session could not be resumed
	}
	f.drop(c)
	f.sys.settle()
	s.ByOk = f.sync(f.by)
	bmsgs, bclosed := f.by.take()
	s.By = []string{}
	for _, m := range bmsgs {
		if bytes.Contains(m, []byte(`"id":"hdsync`)) {
			continue
		}
		s.By = append(s.By, c10Bystander(m, ""))
	}
	sort.Strings(s.By)
	if bclosed {
		s.ByOk = false
	}
	s.Live, s.LiveNote = f.probeLive()
	if !s.Live {
		f.blocked = true
		s.DSame, s.Off, s.Api, s.Done = true, 0, 0, true
		return
	}
	after, offAfter := f.digestText()
	s.DSame = before == after
	s.Off = offAfter - offBefore // minus the number of messages that were delivered
	if offAfter != 0 {
		s.Replies = append(s.Replies, "RBad") // something stayed in the queue
	}
	s.Api = 0
	s.Done = true
	if !resumed || !s.ByOk {
		f.offPub = ""
	}
}

func (f *c10Fix) run(s *c10Step, emitStart func()) {
	if s.K == "resume" {
		f.runResume(s, emitStart)
		return
	}
	sf := f.ensure(s.St)
	if s.St == 4 {
		f.ensurePending(sf)
	}
	if th, ok := f.sys.hub.throttler.(*memoryThrottler); ok {
		th.mu.Lock()
		th.clients = make(map[string]map[string][]throttleEntry)
		th.mu.Unlock()
	}
	sid := sf.pub
	if sid == "" {
		sid = "nosession"
	}
	pid := f.pending
	if s.St != 4 || pid == "" {
		pid = "nopending"
	}
	rid := sf.rid
	if rid == "" {
		rid = sf.priv
	}
	if rid == "" {
		rid = "noresumeid"
	}
	burl := f.sys.backendUrl(0) + "/ocs/v2.php/apps/spreed/api/v1/signaling/backend"
	const authPath = "/ocs/v2.php/apps/spreed/api/v1/signaling/backend"
	pairs := []string{c10Sid, sid, c10Pid, pid, c10Bid, f.byPub, c10Rid, rid, c10Room, c10RoomId, c10Burl, burl, c10Bbase, f.sys.backendUrl(0), c10Oid, f.offPub,
		c10Burl1, f.sys.backendUrl(1) + authPath, c10BurlX, f.sys.backendUrl(f.sys.nb+1) + authPath}
	// protocol 2.0 tokens are made when the frame is sent (time claims relative to now, key pairs of this process)
	switch s.K {
	case "doc":
		pairs = append(pairs, f.tokenPairs(c10Text(s.Doc))...)
	default:
		if raw, err := base64.StdEncoding.DecodeString(s.Raw); err == nil {
			pairs = append(pairs, f.tokenPairs(string(raw))...)
		}
	}
	subst := strings.NewReplacer(pairs...)
	rev := strings.NewReplacer(sid, c10Sid, pid, c10Pid, f.byPub, c10Bid, f.offPub, c10Oid, rid, c10Rid, burl, c10Burl, f.sys.backendUrl(0), c10Bbase, c10RoomId, c10Room)
	data, binary := s.frame(subst)
	if s.K == "doc" {
		s.Orc = c10Oracles(s.Doc, subst)
	}
	f.sys.settle()
	sf.conn.take()
	f.by.take()
	before, offBefore := f.digestText()
	emitStart()
	mt := websocket.TextMessage
	if binary {
		mt = websocket.BinaryMessage
	}
	if err := sf.conn.conn.WriteMessage(mt, data); err == nil {
		f.sync(sf.conn)
	}
	f.sys.settle()
	msgs, closed := sf.conn.take()
	s.Alive, s.Closed = true, closed
	s.Replies = []string{}
	for _, m := range msgs {
		if bytes.Contains(m, []byte(`"id":"hdsync`)) {
			continue
		}
		s.Replies = append(s.Replies, c10Reply(m, rev))
	}
	// the bystander: still served (a request that needs the hub's session table - a message to a session
	// id, its own, so that nothing is delivered - and the marker behind it), still in its room
	f.seq++
	f.by.send([]byte(fmt.Sprintf(`{"id":"hdprobe-%d","type":"message","message":{"recipient":{"type":"session","sessionid":%q},"data":{"type":"hdprobe"}}}`, f.seq, f.byPub))) // nolint
	s.ByOk = f.sync(f.by)
	bmsgs, bclosed := f.by.take()
	s.By = []string{}
	for _, m := range bmsgs {
		if bytes.Contains(m, []byte(`"id":"hdsync`)) {
			continue
		}
		if bytes.Contains(m, []byte(`"hdprobe"`)) {
			s.By = append(s.By, "BOther") // its own message came back
			continue
		}
		s.By = append(s.By, c10Bystander(m, sf.pub))
	}
	sort.Strings(s.By)
	if bclosed {
		s.ByOk = false
	}
	// is the hub still serving?  (before anything that reads the hub's tables: a reader would wait for ever, too)
	if !s.ByOk && !bclosed {
		s.Live, s.LiveNote = false, "the bystander's message to a session id was not processed within the bound"
	} else {
		s.Live, s.LiveNote = f.probeLive()
	}
	var after string
	var offAfter int
	byThere := false
	if s.Live {
		if !c10Within(c10LiveBound, func() {
			sess := f.sys.hub.GetSessionByPublicId(f.byPub)
			byThere = sess != nil && sess.GetRoom() != nil
			after, offAfter = f.digestText()
		}) {
			s.Live, s.LiveNote = false, "reading the hub's tables did not end within the bound"
		}
	}
	if !s.Live {
		// nothing else can be observed on this hub
		f.blocked = true
		s.DSame, s.Off, s.Api, s.Done = true, 0, 0, true
		return
	}
	if !byThere {
		s.ByOk = false
	}
	s.DSame = before == after
	if !s.DSame {
		// where the two digests part (diagnosis only)
		k := 0
		for k < len(before) && k < len(after) && before[k] == after[k] {
			k++
		}
		lo := k - 60
		if lo < 0 {
			lo = 0
		}
		cut := func(t string) string {
			hi := k + 100
			if hi > len(t) {
				hi = len(t)
			}
			return t[lo:hi]
		}
		s.DDiff = cut(before) + " => " + cut(after)
	}
	s.Off = offAfter - offBefore
	if offBefore < 0 || offAfter < 0 {
		s.Off = -1000 // the session without connection disappeared
		f.offPub = ""
	}
	s.Api = 0
	if s.St == 4 && f.pending != "" {
		select {
		case st := <-f.apiRes:
			s.Api = st
			f.pending = ""
		default:
		}
	}
	s.Done = true
	if !s.DSame || closed {
		f.release(sf)
		delete(f.fix, s.St)
		if s.St == 4 {
			f.pending = ""
		}
	}
	if !s.ByOk {
		f.drop(f.by)
		f.by = nil
		for st, x := range f.fix {
			f.release(x)
			delete(f.fix, st)
		}
	}
}

func c10Child(t *testing.T, batchFile, logFile string) {
	data, err := os.ReadFile(batchFile)
	if err != nil {
		t.Fatal(err)
	}
	var items []c10WorkItem
	if err := json.Unmarshal(data, &items); err != nil {
		t.Fatal(err)
	}
	lf, err := os.Create(logFile)
	if err != nil {
		t.Fatal(err)
	}
	w := bufio.NewWriter(lf)
	emit := func(l c10LogLine) {
		b, _ := json.Marshal(l)
		w.Write(append(b, '\n'))
		w.Flush()
	}
	log.SetOutput(io.Discard)
	// two configured backends: 0 publishes an RSA key for protocol 2.0 tokens and supports federation,
	// 1 publishes no key (c10_tok_verif_test.go)
	sys := newHdSystem(t, []hdBackendCfg{{}, {}})
	sys.backend.mu.Lock()
	delete(sys.backend.keys, 1)
	sys.backend.features = append(sys.backend.features, FeatureFederationV2)
	sys.backend.mu.Unlock()
	f := &c10Fix{t: t, sys: sys, fix: map[int]*c10StateFix{}}
	emit(c10LogLine{K: -1, Ph: "ready"})
	for i := range items {
		it := &items[i]
		st := it.Step
		for attempt := 0; ; attempt++ {
			st = it.Step
			f.run(&st, func() { emit(c10LogLine{K: it.K, Ph: "start"}) })
			// a pending dialout that got too old during the step (stalled machine): again
			if st.St == 4 && f.pending != "" && time.Since(f.pendAt) > 8*time.Second && attempt < 3 {
				continue
			}
			break
		}
		emit(c10LogLine{K: it.K, Ph: "done", Obs: &st})
		if f.blocked {
			// the hub of this process serves nobody any more: the parent goes on with a new child
			emit(c10LogLine{K: it.K, Ph: "blocked", Note: st.LiveNote})
			w.Flush()
			lf.Close()
			os.Exit(0)
		}
	}
	emit(c10LogLine{K: len(items), Ph: "end", Note: fmt.Sprintf("rebuilds=%d unsettled=%d", f.rebuilds, sys.unsettled)})
	w.Flush()
	lf.Close()
	os.Exit(0) // no clean-up: the parent only reads the log
}
