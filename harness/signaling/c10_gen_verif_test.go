//go:build verif

package signaling

// C10, part 1: cases, steps and the generators (shape enumeration over the schema
// of ClientMessage read by reflection, raw byte stream, random mutation stream).
// Reuses the JSON trees (vj) and the seeded PRNG of the shared harness files.

import (
	"bytes"
	"crypto/hmac"
	"crypto/sha256"
	"encoding/base64"
	"encoding/hex"
	"fmt"
	"reflect"
	"strings"
)

// placeholders substituted by the child process (they stay literal in cases files)
const (
	c10Sid   = "@SID@"   // public id of the sender's session ("nosession" without session)
	c10Pid   = "@PID@"   // message id of the pending dialout request
	c10Bid   = "@BID@"   // public id of the bystander's session
	c10Rid   = "@RID@"   // private id of a disconnected session that may be resumed
	c10Room  = "@ROOM@"  // the room of the bystander
	c10Burl  = "@BURL@"  // auth URL of the fake backend
	c10Bbase = "@BBASE@" // base URL of the fake backend
	c10Oid   = "@OID@"   // public id of the session without connection (user c10OffUser, member of the bystander's room)
)

const c10OffUser = "user9"

// the user of the senders that are clients (states 1, 2, 5, 8); internal clients have no user id
const c10SelfUser = "user1"

const c10RoomId = "424242"

type c10Step struct {
	St    int    `json:"st"` // 0-5 see c10Fix.ensure; 7 resume step; 8 client in the room without the permission to send control messages
	K     string `json:"k"`  // doc, bad, bin, over, opaque; resume: no frame of the sender - the session without connection resumes (St 7)
	Doc   *vj    `json:"doc,omitempty"`
	Raw   string `json:"raw,omitempty"` // base64 of the frame (bad, bin, over, opaque); placeholders are substituted after decoding
	Class string `json:"class,omitempty"`
	// observations
	Done     bool     `json:"done,omitempty"`
	Alive    bool     `json:"alive,omitempty"`
	Replies  []string `json:"replies,omitempty"`
	Closed   bool     `json:"closed,omitempty"`
	By       []string `json:"by,omitempty"`
	ByOk     bool     `json:"byok,omitempty"`
	DSame    bool     `json:"dsame,omitempty"`
	Api      int      `json:"api,omitempty"`
	Off      int      `json:"off,omitempty"`  // messages added to the queue of the session without connection
	Live     bool     `json:"live,omitempty"` // after the frame the hub still serves: a bystander's request and a new connection within the bound
	LiveNote string   `json:"livenote,omitempty"`
	DDiff    string   `json:"ddiff,omitempty"` // where the digests before and after part (diagnosis)
	Orc      []string `json:"orc,omitempty"`
	Panic    string   `json:"panic,omitempty"`
}

type c10Case struct {
	Id      int       `json:"id"`
	Mode    int       `json:"mode"`
	Fixed   bool      `json:"fixed"`
	Finding string    `json:"finding,omitempty"`
	Ops     []c10Step `json:"ops"`
}

// ---- JSON trees with raw bytes ------------------------------------------------------------------------
// A vj string stands for a byte string: the runes U+0100..U+01FF stand for the bytes
// 0x00..0xFF (used for bytes outside printable ASCII), every other rune of the
// (otherwise ASCII) string for itself.  The shared writers of the vj type replace
// invalid UTF-8 and cannot print control characters into a cases file.

func c10Bytes(b []byte) string {
	var sb strings.Builder
	for _, c := range b {
		if c < 0x20 || c >= 0x7f {
			sb.WriteRune(rune(0x100 + int(c)))
		} else {
			sb.WriteByte(c)
		}
	}
	return sb.String()
}

func c10Raw(s string) []byte {
	var out []byte
	for _, r := range s {
		if r >= 0x100 && r <= 0x1ff {
			out = append(out, byte(r-0x100))
		} else {
			out = append(out, string(r)...)
		}
	}
	return out
}

func c10JsonString(b *bytes.Buffer, s string) {
	b.WriteByte('"')
	for _, c := range c10Raw(s) {
		switch {
		case c == '"' || c == '\\':
			b.WriteByte('\\')
			b.WriteByte(c)
		case c < 0x20:
			fmt.Fprintf(b, "\\u%04x", c)
		default:
			b.WriteByte(c)
		}
	}
	b.WriteByte('"')
}

func c10Write(b *bytes.Buffer, j *vj) {
	switch j.K {
	case "s":
		c10JsonString(b, j.S)
	case "a":
		b.WriteByte('[')
		for i, x := range j.A {
			if i > 0 {
				b.WriteByte(',')
			}
			c10Write(b, x)
		}
		b.WriteByte(']')
	case "o":
		b.WriteByte('{')
		for i, m := range j.O {
			if i > 0 {
				b.WriteByte(',')
			}
			c10JsonString(b, m.K)
			b.WriteByte(':')
			c10Write(b, m.V)
		}
		b.WriteByte('}')
	case "r":
		b.WriteByte('[')
		for i := 0; i < j.Rep; i++ {
			if i > 0 {
				b.WriteByte(',')
			}
			c10Write(b, j.A[0])
		}
		b.WriteByte(']')
	case "d":
		b.WriteString(strings.Repeat("[", j.Rep))
		c10Write(b, j.A[0])
		b.WriteString(strings.Repeat("]", j.Rep))
	default:
		b.WriteString(j.text(""))
	}
}

func c10Text(j *vj) string {
	var b bytes.Buffer
	c10Write(&b, j)
	return b.String()
}

func c10CoqString(s string) string {
	raw := c10Raw(s)
	plain := true
	for _, c := range raw {
		if c < 0x20 && c != '\n' && c != '\r' || c >= 0x7f {
			plain = false
		}
	}
	if plain {
		return c11CoqStr(string(raw))
	}
	isPlain := func(c byte) bool { return !(c < 0x20 && c != '\n' && c != '\r' || c >= 0x7f) }
	bytesTerm := func(b []byte) string {
		var l []string
		for _, c := range b {
			l = append(l, fmt.Sprint(int(c)))
		}
		return "(sb " + coqList(l) + "%nat)"
	}
	// long texts with a few such bytes (an SDP with a hostile value): literal runs joined with the byte runs
	// (a list of numbers per byte of the whole text is slow to read for Coq)
	if len(raw) > 40 {
		var parts []string
		for i := 0; i < len(raw); {
			j := i
			for j < len(raw) && isPlain(raw[j]) == isPlain(raw[i]) {
				j++
			}
			if isPlain(raw[i]) {
				parts = append(parts, c11CoqStr(string(raw[i:j])))
			} else {
				parts = append(parts, bytesTerm(raw[i:j]))
			}
			i = j
		}
		if len(parts) <= 8 {
			term := parts[len(parts)-1]
			for k := len(parts) - 2; k >= 0; k-- {
				term = "(String.append " + parts[k] + " " + term + ")"
			}
			return term
		}
	}
	return bytesTerm(raw)
}

func c10Coq(j *vj) string {
	switch j.K {
	case "s":
		if len(j.S) > 2000 && strings.Trim(j.S, "a") == "" {
			return fmt.Sprintf("(jpad %d)", len(j.S))
		}
		return "(JStr " + c10CoqString(j.S) + ")"
	case "a":
		var l []string
		for _, x := range j.A {
			l = append(l, c10Coq(x))
		}
		return "(JArr " + coqList(l) + ")"
	case "o":
		var l []string
		for _, m := range j.O {
			l = append(l, "("+c10CoqString(m.K)+", "+c10Coq(m.V)+")")
		}
		return "(JObj " + coqList(l) + ")"
	case "r":
		return fmt.Sprintf("(JArr (jrep %d %s))", j.Rep, c10Coq(j.A[0]))
	case "d":
		return fmt.Sprintf("(jnest %d %s)", j.Rep, c10Coq(j.A[0]))
	}
	return j.coq()
}

func (s *c10Step) frame(subst *strings.Replacer) (data []byte, binary bool) {
	switch s.K {
	case "doc":
		return []byte(subst.Replace(c10Text(s.Doc))), false
	default:
		raw, _ := base64.StdEncoding.DecodeString(s.Raw)
		return []byte(subst.Replace(string(raw))), s.K == "bin"
	}
}

func (s *c10Step) coqInput() string {
	switch s.K {
	case "doc":
		return "(IDoc " + c10Coq(s.Doc) + ")"
	case "bin":
		return "IBinary"
	case "over":
		return "IOversize"
	}
	return "IBad"
}

func (s *c10Step) coq() string {
	if s.K == "opaque" || s.K == "resume" {
		return fmt.Sprintf("mkopaque %d (mkobs %s %s %s %s %s %s %s %s %s)", s.St, coqBool(s.Alive), coqList(s.Replies),
			coqBool(s.Closed), coqList(s.By), coqBool(s.ByOk), coqBool(s.DSame), coqZ(int64(s.Api)), coqZ(int64(s.Off)), coqBool(s.Live))
	}
	return fmt.Sprintf("mkstep %d %s (mkobs %s %s %s %s %s %s %s %s %s)", s.St, s.coqInput(), coqBool(s.Alive), coqList(s.Replies),
		coqBool(s.Closed), coqList(s.By), coqBool(s.ByOk), coqBool(s.DSame), coqZ(int64(s.Api)), coqZ(int64(s.Off)), coqBool(s.Live))
}

func (c *c10Case) coq(fixDialout, fixLabel bool) string {
	var tr []string
	seen := map[string]bool{}
	var orc []string
	for i := range c.Ops {
		o := &c.Ops[i]
		if !o.Done {
			continue
		}
		tr = append(tr, o.coq())
		for _, e := range o.Orc {
			if !seen[e] {
				seen[e] = true
				orc = append(orc, e)
			}
		}
	}
	return fmt.Sprintf("mkcase %d %s %s %d %s %s", c.Id, coqBool(fixDialout), coqBool(fixLabel), c.Mode, coqList(orc), coqList(tr))
}

// ---- schema by reflection (embedded structs flattened, like easyjson) -------------------------------

func c10Fields(t reflect.Type) []c11Field {
	var out []c11Field
	for i := 0; i < t.NumField(); i++ {
		f := t.Field(i)
		if f.Anonymous {
			ft := f.Type
			if ft.Kind() == reflect.Ptr {
				ft = ft.Elem()
			}
			if ft.Kind() == reflect.Struct {
				out = append(out, c10Fields(ft)...)
			}
			continue
		}
		if !f.IsExported() {
			continue
		}
		parts := strings.Split(f.Tag.Get("json"), ",")
		if parts[0] == "-" {
			continue
		}
		name := parts[0]
		if name == "" {
			name = f.Name
		}
		omit := false
		for _, p := range parts[1:] {
			if p == "omitempty" {
				omit = true
			}
		}
		out = append(out, c11Field{Go: f.Name, Json: name, Type: c11TypeText(f.Type), Omit: omit, T: f.Type})
	}
	return out
}

// the fields as the translator prints them (embedded structs are one row there and are
// filtered out on the Coq side; here only the named fields of the struct itself)
func c10OwnFields(t reflect.Type) []c11Field {
	var out []c11Field
	for _, f := range c11Schema(t) {
		sf, _ := t.FieldByName(f.Go)
		if sf.Anonymous {
			continue
		}
		out = append(out, f)
	}
	return out
}

func c10StructOf(t reflect.Type) (reflect.Type, bool) {
	if t.Kind() == reflect.Ptr {
		t = t.Elem()
	}
	if t.Kind() == reflect.Struct {
		return t, true
	}
	return nil, false
}

func c10ShapesFor(t reflect.Type) []c11Shape {
	base := []c11Shape{{"absent", nil}, {"null", jz()}}
	if _, ok := c10StructOf(t); ok {
		return append(base, []c11Shape{{"bool", jb(true)}, {"num", ji(5)}, {"str", js("abc")}, {"arr", ja()}, {"arr1", ja(jo())}, {"empty", jo()}}...)
	}
	if t.Kind() == reflect.Ptr {
		t = t.Elem()
	}
	switch {
	case t == c11RawType:
		return append(base, []c11Shape{{"true", jb(true)}, {"0", ji(0)}, {"str", js("abc")}, {"arr", ja()}, {"obj", jo()}, {"obj1", jo(kv("a", ji(1)))},
			{"float", jf(15, -1)}, {"deep", jnestv(300, ji(1))}}...)
	case t.Kind() == reflect.String:
		return append(base, []c11Shape{{"empty", js("")}, {"x", js("x")}, {"num", ji(5)}, {"bool", jb(false)}, {"arr", ja(js("x"))}, {"obj", jo()}, {"float", jf(1, 0)}}...)
	case t.Kind() == reflect.Int || t.Kind() == reflect.Int64 || t.Kind() == reflect.Uint32:
		return append(base, []c11Shape{{"0", ji(0)}, {"1", ji(1)}, {"-1", ji(-1)}, {"u32max1", jbig("4294967296")}, {"i64max1", jbig("9223372036854775808")},
			{"float", jf(15, -1)}, {"exp", jf(1, 2)}, {"str", js("1")}, {"bool", jb(true)}, {"arr", ja()}, {"obj", jo()}}...)
	case t.Kind() == reflect.Slice && t.Elem().Kind() == reflect.String:
		return append(base, []c11Shape{{"empty", ja()}, {"one", ja(js("a"))}, {"elem-null", ja(jz())}, {"elem-num", ja(js("a"), ji(1))}, {"str", js("a")}, {"num", ji(5)}, {"obj", jo()}}...)
	}
	return base
}

// ---- valid messages ------------------------------------------------------------------------------------

const c10Random = "0123456789abcdef0123456789abcdef0123456789abcdef0123456789abcdef"

func c10InternalToken(rnd string) string {
	mac := hmac.New(sha256.New, []byte(hdInternalSecret))
	mac.Write([]byte(rnd))
	return hex.EncodeToString(mac.Sum(nil))
}

type c10Base struct {
	name   string
	doc    *vj
	states []int // home states: every shape is run there
}

func c10Msg(id, ty string, members ...vjm) *vj {
	return jo(append([]vjm{kv("id", js(id)), kv("type", js(ty))}, members...)...)
}

func c10Recipient(ty string, more ...vjm) *vj {
	return jo(append([]vjm{kv("type", js(ty))}, more...)...)
}

func c10SdpText() string { return hdSdp(3) }

func c10Bases() []c10Base {
	hello := func(members ...vjm) *vj { return c10Msg("h1", "hello", kv("hello", jo(members...))) }
	message := func(kind string, rc *vj, data *vj) *vj {
		return c10Msg("m1", kind, kv(kind, jo(kv("recipient", rc), kv("data", data))))
	}
	internal := func(ty string, members ...vjm) *vj {
		return c10Msg("i1", "internal", kv("internal", jo(append([]vjm{kv("type", js(ty))}, members...)...)))
	}
	common := func(more ...vjm) *vj {
		return jo(append([]vjm{kv("sessionid", js("v1")), kv("roomid", js(c10Room))}, more...)...)
	}
	plain := jo(kv("tag", ji(7)))
	pre := []int{0, 2}
	cl := []int{2, 1}
	in := []int{3, 4}
	return []c10Base{
		{"hello-v1", hello(kv("version", js("1.0")), kv("auth", jo(kv("url", js(c10Burl)), kv("params", jo(kv("u", js("user3"))))))), pre},
		{"hello-v1-features", hello(kv("version", js("1.0")), kv("features", ja(js("f1"))), kv("auth", jo(kv("type", js("client")), kv("url", js(c10Burl)), kv("params", jo(kv("u", js("user3"))))))), pre},
		{"hello-v2", hello(kv("version", js("2.0")), kv("auth", jo(kv("url", js(c10Burl)), kv("params", jo(kv("token", js("a.b.c"))))))), pre},
		{"hello-v2-federation", hello(kv("version", js("2.0")), kv("auth", jo(kv("type", js("federation")), kv("url", js(c10Burl)), kv("params", jo(kv("token", js("a.b.c"))))))), pre},
		{"hello-internal", hello(kv("version", js("1.0")), kv("auth", jo(kv("type", js("internal")), kv("params", jo(kv("random", js(c10Random)), kv("token", js(c10InternalToken(c10Random))), kv("backend", js(c10Bbase))))))), pre},
		{"hello-resume", hello(kv("version", js("1.0")), kv("resumeid", js(c10Rid))), pre},
		{"hello-resume-unknown", hello(kv("version", js("2.0")), kv("resumeid", js("no-such-resume-id"))), pre},
		{"bye", c10Msg("b1", "bye", kv("bye", jo())), []int{2, 0, 3}},
		{"room-join-same", c10Msg("r1", "room", kv("room", jo(kv("roomid", js(c10Room)), kv("sessionid", js("c10-own-rs"))))), cl},
		{"room-join-other", c10Msg("r1", "room", kv("room", jo(kv("roomid", js("c10-other-room"))))), cl},
		{"room-leave", c10Msg("r1", "room", kv("room", jo(kv("roomid", js(""))))), cl},
		{"room-federated", c10Msg("r1", "room", kv("room", jo(kv("roomid", js("c10-fed-room")), kv("sessionid", js("c10-fed-rs")),
			kv("federation", jo(kv("signaling", js("http://127.0.0.1:1")), kv("url", js("http://127.0.0.1:1/nc/")), kv("roomid", js("remote-room")), kv("token", js("fed-token"))))))), cl},
		{"message-room", message("message", c10Recipient("room"), plain), cl},
		{"message-call", message("message", c10Recipient("call"), plain), cl},
		{"message-session", message("message", c10Recipient("session", kv("sessionid", js(c10Bid))), plain), cl},
		{"message-session-self", message("message", c10Recipient("session", kv("sessionid", js(c10Sid))), plain), cl},
		{"message-user", message("message", c10Recipient("user", kv("userid", js("user7"))), plain), cl},
		{"message-offer", message("message", c10Recipient("session", kv("sessionid", js(c10Sid))),
			jo(kv("type", js("offer")), kv("roomType", js("video")), kv("payload", jo(kv("type", js("offer")), kv("sdp", js(c10SdpText())))))), cl},
		{"message-requestoffer", message("message", c10Recipient("session", kv("sessionid", js(c10Bid))),
			jo(kv("type", js("requestoffer")), kv("roomType", js("video")))), cl},
		{"message-candidate-room", message("message", c10Recipient("room"),
			jo(kv("type", js("candidate")), kv("roomType", js("screen")), kv("payload", jo(kv("candidate", jo()))))), cl},
		{"control-room", message("control", c10Recipient("room"), plain), cl},
		{"control-session", message("control", c10Recipient("session", kv("sessionid", js(c10Bid))), plain), cl},
		{"internal-addsession", internal("addsession", kv("addsession", common(kv("userid", js("vuser")), kv("flags", ji(1)), kv("incall", ji(1))))), in},
		{"internal-addsession-options", internal("addsession", kv("addsession", common(kv("user", jo(kv("n", ji(1)))), kv("options", jo(kv("actorId", js("a")), kv("actorType", js("t"))))))), in},
		{"internal-updatesession", internal("updatesession", kv("updatesession", common(kv("flags", ji(2)), kv("incall", ji(3))))), in},
		{"internal-removesession", internal("removesession", kv("removesession", common())), in},
		{"internal-incall", internal("incall", kv("incall", jo(kv("incall", ji(1))))), in},
		{"internal-dialout-status", internal("dialout", kv("dialout", jo(kv("type", js("status")), kv("roomid", js(c10Room)),
			kv("status", jo(kv("callid", js("call1")), kv("status", js("accepted"))))))), in},
		{"internal-dialout-error", internal("dialout", kv("dialout", jo(kv("type", js("error")), kv("roomid", js(c10Room)),
			kv("error", jo(kv("code", js("failed")), kv("message", js("no"))))))), in},
		{"internal-dialout-other", internal("dialout", kv("dialout", jo(kv("type", js("foo")), kv("roomid", js(c10Room))))), in},
		{"internal-unknown", internal("foo"), in},
		{"transient-set", c10Msg("t1", "transient", kv("transient", jo(kv("type", js("set")), kv("key", js("k1")), kv("value", jo(kv("v", ji(1)))), kv("ttl", ji(0))))), cl},
		{"transient-remove", c10Msg("t1", "transient", kv("transient", jo(kv("type", js("remove")), kv("key", js("k1"))))), cl},
		{"transient-other", c10Msg("t1", "transient", kv("transient", jo(kv("type", js("get"))))), cl},
		{"unknown-type", c10Msg("u1", "foo"), cl},
	}
}

// ---- generator ---------------------------------------------------------------------------------------------

type c10Item struct {
	class string
	doc   *vj
	home  []int
}

type c10Gen struct {
	items []c10Item
	hist  map[string]int
}

func c10SetPath(doc *vj, path []string, v *vj) *vj {
	if len(path) == 1 {
		return doc.with(path[0], v)
	}
	var sub *vj
	for _, m := range doc.O {
		if m.K == path[0] {
			sub = m.V
		}
	}
	if sub == nil || sub.K != "o" {
		sub = jo()
	}
	return doc.with(path[0], c10SetPath(sub, path[1:], v))
}

func c10Member(doc *vj, k string) *vj {
	if doc == nil || doc.K != "o" {
		return nil
	}
	var r *vj
	for _, m := range doc.O {
		if m.K == k {
			r = m.V
		}
	}
	return r
}

// shapes of every member of struct type t at `path` (depth = number of struct levels below the document)
func (g *c10Gen) walk(b c10Base, t reflect.Type, cur *vj, path []string, depth, maxDepth int, ownOnly string) {
	for _, f := range c10Fields(t) {
		if ownOnly != "" && f.Json != ownOnly && f.Json != "id" && f.Json != "type" {
			continue
		}
		p := append(append([]string{}, path...), f.Json)
		for _, s := range c10ShapesFor(f.T) {
			present := c10Member(cur, f.Json) != nil
			if s.v == nil && !present {
				continue
			}
			g.items = append(g.items, c10Item{fmt.Sprintf("d%d/%s/%s=%s", depth, b.name, strings.Join(p, "."), s.name), c10SetPath(b.doc, p, s.v), b.states})
			g.hist[fmt.Sprintf("shape_depth%d", depth)]++
		}
		if st, ok := c10StructOf(f.T); ok && depth < maxDepth {
			if sub := c10Member(cur, f.Json); sub != nil && sub.K == "o" {
				g.walk(b, st, sub, p, depth+1, maxDepth, "")
			}
		}
	}
}

func (g *c10Gen) enumerate(maxDepth int) {
	t := reflect.TypeOf(ClientMessage{})
	all := map[string]bool{"bye": true, "message-room": true, "hello-v1": true}
	for _, b := range c10Bases() {
		g.items = append(g.items, c10Item{"valid/" + b.name, b.doc, []int{0, 1, 2, 3, 4, 5}})
		g.hist["valid"]++
		own := ""
		if !all[b.name] {
			own = c10Member(b.doc, "type").S
		}
		g.walk(b, t, b.doc, nil, 1, maxDepth, own)
	}
	// whole-document shapes
	for _, s := range []c11Shape{{"null", jz()}, {"true", jb(true)}, {"num", ji(5)}, {"float", jf(1, -1)}, {"str", js("hello")}, {"arr", ja()}, {"arr-of-msg", ja(c10Msg("x", "bye"))},
		{"empty", jo()}, {"only-id", jo(kv("id", js("x")))}, {"deep", jnestv(1000, ji(1))}} {
		g.items = append(g.items, c10Item{"d0/" + s.name, s.v, []int{0, 1, 2, 3, 4, 5}})
		g.hist["shape_depth0"]++
	}
	// repeated member names (last scalar wins, struct members merge, null is skipped)
	bye := c10Msg("b1", "bye")
	msgRoom := c10Bases()[12].doc
	dups := []c11Shape{
		{"type-twice", jo(kv("type", js("bye")), kv("type", js("foo")))},
		{"type-then-null", jo(kv("type", js("foo")), kv("type", jz()))},
		{"type-num-then-str", jo(kv("type", ji(1)), kv("type", js("bye")))},
		{"id-twice", bye.clone().with("zz", jz()).with("id", js("second"))},
		{"message-merged", jo(kv("id", js("m")), kv("type", js("message")), kv("message", jo(kv("data", ji(1)))), kv("message", jo(kv("recipient", c10Recipient("room")))))},
		{"message-then-null", msgRoom.clone().with("zz", jz()).with("type", js("message")).with("message", c10Member(msgRoom, "message")).with("x", jz())},
		{"message-recipient-merged", jo(kv("type", js("message")), kv("message", jo(kv("data", ji(1)), kv("recipient", jo(kv("type", js("session")))), kv("recipient", jo(kv("sessionid", js(c10Bid)))))))},
		{"hello-auth-merged", jo(kv("id", js("h")), kv("type", js("hello")), kv("hello", jo(kv("version", js("1.0")), kv("auth", jo(kv("url", js(c10Burl)))))), kv("hello", jo(kv("auth", jo(kv("params", jo()))))))},
		{"upper-case-names", jo(kv("Type", js("bye")), kv("ID", js("x")))},
		{"internal-two-subs", jo(kv("id", js(c10Pid)), kv("type", js("internal")), kv("internal", jo(kv("type", js("incall")), kv("incall", jo(kv("incall", ji(1)))), kv("dialout", jo(kv("type", js("status")))))))},
	}
	for _, s := range dups {
		g.items = append(g.items, c10Item{"dup/" + s.name, s.v, []int{0, 2, 3, 4}})
		g.hist["repeated_names"]++
	}
	// nesting limit of encoding/json inside the raw members that are decoded a second time
	for _, n := range []int{9999, 10000, 10001, 20000} {
		g.items = append(g.items, c10Item{fmt.Sprintf("nest/params-%d", n), c10SetPath(c10Bases()[2].doc, []string{"hello", "auth", "params"}, jnestv(n, ji(1))), []int{0}})
		g.items = append(g.items, c10Item{fmt.Sprintf("nest/internal-params-%d", n), c10SetPath(c10Bases()[4].doc, []string{"hello", "auth", "params"}, jnestv(n, ji(1))), []int{0}})
		g.items = append(g.items, c10Item{fmt.Sprintf("nest/data-%d", n), c10SetPath(c10Bases()[14].doc, []string{"message", "data"}, jnestv(n, ji(1))), []int{2}})
		g.items = append(g.items, c10Item{fmt.Sprintf("nest/data-room-%d", n), c10SetPath(msgRoom, []string{"message", "data"}, jnestv(n, ji(1))), []int{2}})
		g.items = append(g.items, c10Item{fmt.Sprintf("nest/unknown-%d", n), bye.clone().with("x", jnestv(n, ji(1))).with("id", js("n")).with("type", js("foo")), []int{2, 0}})
		g.hist["nesting"] += 5
	}
	// ... and of the event bus, which carries messages to rooms and users as JSON text three levels deeper
	for _, n := range []int{9996, 9997, 9998} {
		g.items = append(g.items, c10Item{fmt.Sprintf("nest/data-room-%d", n), c10SetPath(msgRoom, []string{"message", "data"}, jnestv(n, ji(1))), []int{2}})
		g.items = append(g.items, c10Item{fmt.Sprintf("nest/data-offline-user-%d", n), c10Msg("n3", "message", kv("message", jo(kv("recipient", c10Recipient("user", kv("userid", js(c10OffUser)))), kv("data", jnestv(n, ji(1)))))), []int{2}})
		g.items = append(g.items, c10Item{fmt.Sprintf("nest/data-offline-%d", n+2), c10Msg("n1", "message", kv("message", jo(kv("recipient", c10Recipient("session", kv("sessionid", js(c10Oid)))), kv("data", jnestv(n+2, ji(1)))))), []int{2}})
		g.items = append(g.items, c10Item{fmt.Sprintf("nest/control-room-%d", n), c10Msg("n2", "control", kv("control", jo(kv("recipient", c10Recipient("room")), kv("data", jnestv(n, ji(1)))))), []int{2}})
		g.hist["nesting"] += 4
	}
	// the payload the hub decodes a second time when it has a media server
	data := func(members ...vjm) *vj { return jo(members...) }
	payloads := []c11Shape{
		{"offer-no-payload", data(kv("type", js("offer")))},
		{"offer-payload-null", data(kv("type", js("offer")), kv("payload", jz()))},
		{"offer-payload-empty", data(kv("type", js("offer")), kv("payload", jo()))},
		{"offer-sdp-null", data(kv("type", js("offer")), kv("payload", jo(kv("sdp", jz()))))},
		{"offer-sdp-num", data(kv("type", js("answer")), kv("payload", jo(kv("sdp", ji(5)))))},
		{"offer-sdp-bad", data(kv("type", js("offer")), kv("payload", jo(kv("sdp", js("not an sdp")))))},
		{"offer-sdp-empty", data(kv("type", js("answer")), kv("payload", jo(kv("sdp", js("")))))},
		{"offer-sdp-dup", data(kv("type", js("offer")), kv("payload", jo(kv("sdp", ji(1)), kv("sdp", js(c10SdpText())))))},
		{"offer-sdp-ok-audio", data(kv("type", js("offer")), kv("roomType", js("audio")), kv("payload", jo(kv("sdp", js(hdSdp(1))))))},
		{"roomtype-bad", data(kv("type", js("candidate")), kv("roomType", js("nope")))},
		{"roomtype-num", data(kv("type", js("candidate")), kv("roomType", ji(1)))},
		{"payload-arr", data(kv("type", js("offer")), kv("payload", ja()))},
		{"payload-float-overflow", data(kv("type", js("candidate")), kv("payload", jo(kv("x", jf(1, 400)))))},
		{"bitrate-str", data(kv("type", js("offer")), kv("bitrate", js("1")), kv("payload", jo(kv("sdp", js(c10SdpText())))))},
		{"bitrate-float", data(kv("type", js("candidate")), kv("bitrate", jf(15, -1)))},
		{"type-num", data(kv("type", ji(1)))},
		{"data-str", js("offer")},
		{"data-arr", ja(ji(1))},
		{"data-true", jb(true)},
		{"type-unshare", data(kv("type", js("unshareScreen")), kv("roomType", js("screen")))},
		{"type-sendoffer", data(kv("type", js("sendoffer")), kv("roomType", js("video")))},
		{"type-selectstream", data(kv("type", js("selectStream")), kv("roomType", js("video")))},
		{"type-endofcandidates", data(kv("type", js("endOfCandidates")), kv("roomType", js("video")))},
	}
	for _, s := range payloads {
		for _, rc := range []struct {
			n string
			v *vj
		}{{"self", c10Recipient("session", kv("sessionid", js(c10Sid)))}, {"other", c10Recipient("session", kv("sessionid", js(c10Bid)))},
			{"room", c10Recipient("room")}, {"call", c10Recipient("call")}, {"user", c10Recipient("user", kv("userid", js("user7")))},
			{"offline", c10Recipient("session", kv("sessionid", js(c10Oid)))}} {
			g.items = append(g.items, c10Item{"mcu/" + s.name + "/" + rc.n, c10Msg("p1", "message", kv("message", jo(kv("recipient", rc.v), kv("data", s.v)))), []int{2, 1, 3}})
			g.hist["mcu_payload"]++
		}
	}
	// Recipients without connection (session kept for a resume): what is sent to them is
	// stored, and storePendingMessage looks into the payload (ServerMessage.IsChatRefresh:
	// {"type":"chat","chat":{"refresh":bool}}).  Every payload to the session itself, to its
	// room, to its user, to the call (it is in the call, nobody else is), and to connected recipients.
	chats := []c11Shape{
		{"type-only", data(kv("type", js("chat")))},
		{"chat-null", data(kv("type", js("chat")), kv("chat", jz()))},
		{"chat-empty", data(kv("type", js("chat")), kv("chat", jo()))},
		{"refresh-true", data(kv("type", js("chat")), kv("chat", jo(kv("refresh", jb(true)))))},
		{"refresh-true-again", data(kv("type", js("chat")), kv("chat", jo(kv("refresh", jb(true)))), kv("n", ji(2)))},
		{"refresh-false", data(kv("type", js("chat")), kv("chat", jo(kv("refresh", jb(false)))))},
		{"refresh-null", data(kv("type", js("chat")), kv("chat", jo(kv("refresh", jz()))))},
		{"refresh-str", data(kv("type", js("chat")), kv("chat", jo(kv("refresh", js("true")))))},
		{"refresh-num", data(kv("type", js("chat")), kv("chat", jo(kv("refresh", ji(1)))))},
		{"chat-num", data(kv("type", js("chat")), kv("chat", ji(5)))},
		{"chat-str", data(kv("type", js("chat")), kv("chat", js("refresh")))},
		{"chat-arr", data(kv("type", js("chat")), kv("chat", ja(jo(kv("refresh", jb(true))))))},
		{"chat-true", data(kv("type", js("chat")), kv("chat", jb(true)))},
		{"chat-then-null", data(kv("type", js("chat")), kv("chat", jo(kv("refresh", jb(true)))), kv("chat", jz()))},
		{"null-then-chat", data(kv("chat", jz()), kv("type", js("chat")), kv("chat", jo(kv("refresh", jb(false)))))},
		{"chat-merged", data(kv("type", js("chat")), kv("chat", jo()), kv("chat", jo(kv("refresh", jb(true)))))},
		{"type-twice", data(kv("type", js("chat")), kv("type", js("other")))},
		{"type-upper", data(kv("type", js("Chat")), kv("chat", jz()))},
		{"type-num", data(kv("type", ji(1)), kv("chat", jo(kv("refresh", jb(true)))))},
		{"no-type", data(kv("chat", jo(kv("refresh", jb(true)))))},
		{"other-type-chat-null", data(kv("type", js("raisehand")), kv("chat", jz()))},
		{"data-str", js("chat")},
		{"data-arr", ja(js("chat"))},
		{"data-num", ji(0)},
		{"data-false", jb(false)},
		{"data-empty", jo()},
		{"chat-deep", data(kv("type", js("chat")), kv("chat", jo(kv("x", jnestv(300, ji(1))))))},
		{"chat-float-overflow", data(kv("type", js("chat")), kv("chat", jo(kv("x", jf(1, 400)))))},
	}
	offRcpts := []struct {
		n string
		v *vj
	}{{"offline", c10Recipient("session", kv("sessionid", js(c10Oid)))}, {"room", c10Recipient("room")}, {"offline-user", c10Recipient("user", kv("userid", js(c10OffUser)))},
		{"call", c10Recipient("call")}, {"other", c10Recipient("session", kv("sessionid", js(c10Bid)))}}
	for _, s := range chats {
		for _, rc := range offRcpts {
			home := []int{2, 1, 3}
			if rc.n == "other" {
				home = []int{2}
			}
			g.items = append(g.items, c10Item{"store/" + s.name + "/" + rc.n, c10Msg("s1", "message", kv("message", jo(kv("recipient", rc.v), kv("data", s.v)))), home})
			g.hist["offline_recipient"]++
		}
	}
	for _, s := range chats[:6] {
		for _, rc := range offRcpts[:3] {
			g.items = append(g.items, c10Item{"store-control/" + s.name + "/" + rc.n, c10Msg("s2", "control", kv("control", jo(kv("recipient", rc.v), kv("data", s.v)))), []int{2, 1, 3}})
			g.hist["offline_recipient"]++
		}
	}
	// messages of every other kind to the session without connection (and a session id nobody has)
	for _, rc := range []struct {
		n string
		v *vj
	}{{"offline", c10Recipient("session", kv("sessionid", js(c10Oid)))}, {"unknown", c10Recipient("session", kv("sessionid", js("no-such-session")))},
		{"offline-userid-too", c10Recipient("session", kv("sessionid", js(c10Oid)), kv("userid", js(c10OffUser)))},
		{"user-with-offline-sessionid", c10Recipient("user", kv("userid", js("user7")), kv("sessionid", js(c10Oid)))}} {
		for _, s := range []c11Shape{{"plain", jo(kv("tag", ji(7)))}, {"null", jz()}, {"str", js("x")}, {"empty-str", js("")}, {"deep", jnestv(300, ji(1))}} {
			for _, kind := range []string{"message", "control"} {
				g.items = append(g.items, c10Item{"store-any/" + kind + "/" + s.name + "/" + rc.n, c10Msg("s3", kind, kv(kind, jo(kv("recipient", rc.v), kv("data", s.v)))), []int{2, 1, 3}})
				g.hist["offline_recipient"]++
			}
		}
	}
	// Frames that address the sender itself: its own session id, its own user id, its room / call,
	// in both kinds that have a recipient, from senders with and without the right to send control
	// messages (state 8: in the room, permissions without "control").  The server drops them
	// ("Don't loop messages to the sender") - on an early exit of the handler, next to the look-up
	// of the recipient in the hub's tables.
	selfRcpts := []struct {
		n string
		v *vj
	}{{"session", c10Recipient("session", kv("sessionid", js(c10Sid)))},
		{"session-userid-too", c10Recipient("session", kv("sessionid", js(c10Sid)), kv("userid", js(c10SelfUser)))},
		{"user", c10Recipient("user", kv("userid", js(c10SelfUser)))},
		{"user-sessionid-too", c10Recipient("user", kv("userid", js(c10SelfUser)), kv("sessionid", js(c10Sid)))},
		{"room", c10Recipient("room")},
		{"room-sessionid-too", c10Recipient("room", kv("sessionid", js(c10Sid)), kv("userid", js(c10SelfUser)))},
		{"call", c10Recipient("call")},
		{"session-not-quite", c10Recipient("session", kv("sessionid", js(c10Sid+" ")))}}
	selfData := []c11Shape{{"plain", jo(kv("tag", ji(7)))}, {"null", jz()}, {"str", js("x")},
		{"chat-refresh", data(kv("type", js("chat")), kv("chat", jo(kv("refresh", jb(true)))))},
		{"offer", data(kv("type", js("offer")), kv("roomType", js("video")), kv("payload", jo(kv("type", js("offer")), kv("sdp", js(c10SdpText())))))},
		{"unshare", data(kv("type", js("unshareScreen")), kv("roomType", js("screen")))},
		{"sendoffer", data(kv("type", js("sendoffer")), kv("roomType", js("video")))}}
	for _, kind := range []string{"control", "message"} {
		for ri, rc := range selfRcpts {
			for di, s := range selfData {
				// the plain payload: every recipient in every state with a session; the other payloads:
				// the recipients that name the sender (and the call) in the room, as client and as internal client
				home := []int{2, 8, 3, 1, 4, 5}
				if di > 0 {
					if ri >= 4 && rc.n != "call" || rc.n == "session-userid-too" {
						continue
					}
					home = []int{2, 3}
					if kind == "message" {
						home = []int{2}
					}
				}
				if kind == "message" && di >= 4 && (rc.n == "session" || rc.n == "call") {
					continue // the media payloads x these recipients are in the class mcu/
				}
				g.items = append(g.items, c10Item{"self/" + kind + "/" + rc.n + "/" + s.name, c10Msg("o1", kind, kv(kind, jo(kv("recipient", rc.v), kv("data", s.v)))), home})
				g.hist["self_addressed"] += len(home)
			}
		}
	}
	// contents of hello.auth.params for the types that decode them
	params := []c11Shape{{"num", ji(5)}, {"str", js("abc")}, {"arr", ja()}, {"empty", jo()}, {"token-empty", jo(kv("token", js("")))}, {"token-num", jo(kv("token", ji(1)))},
		{"token-null", jo(kv("token", jz()))}, {"token-dup", jo(kv("token", js("")), kv("token", js("x.y.z")))}, {"unknown-members", jo(kv("token", js("x.y.z")), kv("zz", ja(jo())))}}
	for _, s := range params {
		g.items = append(g.items, c10Item{"params/v2/" + s.name, c10SetPath(c10Bases()[2].doc, []string{"hello", "auth", "params"}, s.v), []int{0}})
		g.items = append(g.items, c10Item{"params/federation/" + s.name, c10SetPath(c10Bases()[3].doc, []string{"hello", "auth", "params"}, s.v), []int{0}})
		g.hist["hello_params"] += 2
	}
	ip := func(members ...vjm) *vj { return jo(members...) }
	tok := c10InternalToken(c10Random)
	for _, s := range []c11Shape{{"num", ji(5)}, {"empty", jo()}, {"backend-empty", ip(kv("random", js(c10Random)), kv("token", js(tok)), kv("backend", js("")))},
		{"backend-num", ip(kv("random", js(c10Random)), kv("token", js(tok)), kv("backend", ji(1)))},
		{"backend-bad-url", ip(kv("random", js(c10Random)), kv("token", js(tok)), kv("backend", js("http://[::1")))},
		{"backend-ctl", ip(kv("random", js(c10Random)), kv("token", js(tok)), kv("backend", js("http://a b/")))},
		{"backend-unknown", ip(kv("random", js(c10Random)), kv("token", js(tok)), kv("backend", js("http://unknown.invalid/")))},
		{"token-wrong", ip(kv("random", js(c10Random)), kv("token", js(strings.Repeat("0", 64))), kv("backend", js(c10Bbase)))},
		{"random-short", ip(kv("random", js("abc")), kv("token", js(c10InternalToken("abc"))), kv("backend", js(c10Bbase)))},
		{"random-missing", ip(kv("token", js(tok)), kv("backend", js(c10Bbase)))}} {
		g.items = append(g.items, c10Item{"params/internal/" + s.name, c10SetPath(c10Bases()[4].doc, []string{"hello", "auth", "params"}, s.v), []int{0}})
		g.hist["hello_params"]++
	}
	// URLs (the oracles of the model: url.Parse, url.ParseRequestURI)
	for i, u := range []string{"", "x", "/relative", "http://[::1", "http://a b/", "%zz", "http://h/%zz", "https://unknown.invalid/x", ":", "//h/p", "mailto:a@b", c10Bbase} {
		g.items = append(g.items, c10Item{fmt.Sprintf("url/hello-%d", i), c10SetPath(c10Bases()[0].doc, []string{"hello", "auth", "url"}, js(u)), []int{0}})
		g.items = append(g.items, c10Item{fmt.Sprintf("url/fed-signaling-%d", i), c10SetPath(c10Bases()[11].doc, []string{"room", "federation", "signaling"}, js(u)), []int{1}})
		g.items = append(g.items, c10Item{fmt.Sprintf("url/fed-nextcloud-%d", i), c10SetPath(c10Bases()[11].doc, []string{"room", "federation", "url"}, js(u)), []int{1}})
		g.hist["urls"] += 3
	}
	// hello versions and auth types
	for _, v := range []string{"", "1", "1.0 ", "2.00", "3.0", "1.0x"} {
		g.items = append(g.items, c10Item{"hello/version-" + v, c10SetPath(c10Bases()[0].doc, []string{"hello", "version"}, js(v)), []int{0}})
		g.items = append(g.items, c10Item{"hello/resume-version-" + v, c10SetPath(c10Bases()[5].doc, []string{"hello", "version"}, js(v)), []int{0}})
	}
	for _, v := range []string{"virtual", "Client", "internal ", "federation"} {
		g.items = append(g.items, c10Item{"hello/authtype-" + v, c10SetPath(c10Bases()[0].doc, []string{"hello", "auth", "type"}, js(v)), []int{0}})
	}
	// strings that are not valid UTF-8, control characters (the decoder keeps the bytes as they are)
	bad := [][]byte{[]byte("by\xe2\x82e"), []byte("\xff"), []byte("a\xed\xa0\x80b"), []byte("\xc0\xaf"), []byte("\xf4\x90\x80\x80"), []byte("ok\xc3\xa9"), []byte("a\x00b"), []byte("\x7f"), []byte("h\xb9llo")}
	for i, b := range bad {
		v := js(c10Bytes(b))
		every := []int{0, 1, 2, 3, 4, 5}
		g.items = append(g.items, c10Item{fmt.Sprintf("bytes/type-%d", i), jo(kv("id", js("u")), kv("type", v)), every})
		g.items = append(g.items, c10Item{fmt.Sprintf("bytes/id-%d", i), jo(kv("id", v), kv("type", js("message"))), []int{0, 2}})
		g.items = append(g.items, c10Item{fmt.Sprintf("bytes/id-valid-%d", i), c10Bases()[12].doc.with("id", v), []int{2}})
		g.items = append(g.items, c10Item{fmt.Sprintf("bytes/name-%d", i), jo(kv("type", js("foo")), kv(c10Bytes(b), ji(1))), []int{2}})
		g.items = append(g.items, c10Item{fmt.Sprintf("bytes/internal-type-%d", i), c10Msg("i", "internal", kv("internal", jo(kv("type", v)))), []int{3, 4}})
		g.items = append(g.items, c10Item{fmt.Sprintf("bytes/transient-type-%d", i), c10Msg("t", "transient", kv("transient", jo(kv("type", v)))), []int{2}})
		g.items = append(g.items, c10Item{fmt.Sprintf("bytes/transient-key-%d", i), c10Msg("t", "transient", kv("transient", jo(kv("type", js("set")), kv("key", v), kv("value", ji(1))))), []int{2}})
		g.items = append(g.items, c10Item{fmt.Sprintf("bytes/data-type-%d", i), c10Msg("m", "message", kv("message", jo(kv("recipient", c10Recipient("session", kv("sessionid", js(c10Sid)))), kv("data", jo(kv("type", v), kv("roomType", js("video"))))))), []int{2}})
		g.items = append(g.items, c10Item{fmt.Sprintf("bytes/roomtype-%d", i), c10Msg("m", "message", kv("message", jo(kv("recipient", c10Recipient("room")), kv("data", jo(kv("type", js("candidate")), kv("roomType", v)))))), []int{2}})
		g.items = append(g.items, c10Item{fmt.Sprintf("bytes/recipient-%d", i), c10Msg("m", "message", kv("message", jo(kv("recipient", c10Recipient("session", kv("sessionid", v))), kv("data", ji(1))))), []int{2}})
		g.items = append(g.items, c10Item{fmt.Sprintf("bytes/roomid-%d", i), c10Msg("r", "room", kv("room", jo(kv("roomid", v)))), []int{1}})
		g.items = append(g.items, c10Item{fmt.Sprintf("bytes/hello-version-%d", i), c10SetPath(c10Bases()[0].doc, []string{"hello", "version"}, v), []int{0}})
		g.items = append(g.items, c10Item{fmt.Sprintf("bytes/hello-authtype-%d", i), c10SetPath(c10Bases()[0].doc, []string{"hello", "auth", "type"}, v), []int{0}})
		g.items = append(g.items, c10Item{fmt.Sprintf("bytes/hello-feature-%d", i), c10SetPath(c10Bases()[0].doc, []string{"hello", "features"}, ja(v)), []int{0}})
		g.items = append(g.items, c10Item{fmt.Sprintf("bytes/addsession-%d", i), c10Msg("i", "internal", kv("internal", jo(kv("type", js("addsession")), kv("addsession", jo(kv("sessionid", v), kv("roomid", js(c10Room)), kv("userid", v)))))), []int{3}})
		g.hist["byte_strings"] += 15
	}
	// ids in the state with a pending dialout: the pending id on every internal message
	for _, b := range c10Bases() {
		ty := c10Member(b.doc, "type").S
		if ty == "internal" || b.name == "message-room" || b.name == "bye" || b.name == "transient-set" {
			g.items = append(g.items, c10Item{"pending-id/" + b.name, b.doc.with("id", js(c10Pid)), []int{4}})
			g.hist["pending_id"]++
		}
		if ty == "internal" {
			sub := c10Member(b.doc, "internal")
			// the sub-object of the type next to a dialout member of every shape
			for _, s := range []c11Shape{{"null", jz()}, {"empty", jo()}, {"type-only-status", jo(kv("type", js("status")))}, {"type-only-error", jo(kv("type", js("error")))},
				{"type-foo", jo(kv("type", js("foo")))}, {"error", jo(kv("type", js("error")), kv("error", jo(kv("code", js("c")), kv("message", js("m")))))},
				{"status-accepted", jo(kv("type", js("status")), kv("status", jo(kv("callid", js("c9")), kv("status", js("accepted")))))},
				{"status-ringing", jo(kv("type", js("status")), kv("status", jo(kv("callid", js("c9")), kv("status", js("ringing")))))},
				{"status-with-error", jo(kv("type", js("status")), kv("status", jo(kv("callid", js("c9")), kv("status", js("accepted")))), kv("error", jo(kv("code", js("c")))))}} {
				d := b.doc.with("id", js(c10Pid)).with("internal", sub.with("dialout", s.v))
				g.items = append(g.items, c10Item{"pending-dialout/" + b.name + "/" + s.name, d, []int{4, 3}})
				g.hist["pending_id"]++
			}
			// internal types without their sub-object, with the pending id
			g.items = append(g.items, c10Item{"pending-nosub/" + b.name, c10Msg(c10Pid, "internal", kv("internal", jo(kv("type", c10Member(sub, "type"))))), []int{4}})
		}
	}
}

// witnesses of the confirmed defect (and of the second dereference found next to it)
func c10Witnesses() []c10Case {
	w1 := c10Msg(c10Pid, "internal", kv("internal", jo(kv("type", js("incall")), kv("incall", jo(kv("incall", ji(1)))))))
	w2 := c10Msg(c10Pid, "internal", kv("internal", jo(kv("type", js("incall")), kv("incall", jo(kv("incall", ji(1)))), kv("dialout", jo(kv("type", js("status")))))))
	w3 := c10Msg(c10Pid, "internal", kv("internal", jo(kv("type", js("foo")))))
	return []c10Case{
		{Ops: []c10Step{{St: 4, K: "doc", Doc: w1, Class: "witness/pending-dialout-incall"}}},
		{Ops: []c10Step{{St: 4, K: "doc", Doc: w2, Class: "witness/pending-dialout-unvalidated-status"}}},
		{Ops: []c10Step{{St: 4, K: "doc", Doc: w3, Class: "witness/pending-dialout-unknown-type"}}},
		{Ops: []c10Step{{St: 0, K: "doc", Doc: jo(kv("type", js(c10Bytes([]byte("by\xe2\x82e"))))), Class: "witness/type-not-utf8-before-hello"}}},
		{Ops: []c10Step{{St: 2, K: "doc", Doc: jo(kv("id", js("w")), kv("type", js(c10Bytes([]byte("\xff"))))), Class: "witness/type-not-utf8-in-room"}}},
	}
}

// What was stored for the session without connection is sent when it resumes: a few
// payloads of each kind to it (by session id, room, call, user), then the resume.  The
// queue holds everything the earlier steps of the same child left there as well.
func c10ResumeCases() []c10Case {
	msg := func(kind string, rc *vj, data *vj) *vj {
		return c10Msg("q1", kind, kv(kind, jo(kv("recipient", rc), kv("data", data))))
	}
	off := c10Recipient("session", kv("sessionid", js(c10Oid)))
	chat := func(members ...vjm) *vj { return jo(append([]vjm{kv("type", js("chat"))}, members...)...) }
	groups := [][]*vj{
		{msg("message", off, chat()), msg("message", c10Recipient("room"), chat(kv("chat", jz()))), msg("message", off, chat(kv("chat", jo(kv("refresh", jb(true))))))},
		{msg("message", c10Recipient("call"), chat(kv("chat", jo()))), msg("control", off, chat()), msg("message", c10Recipient("user", kv("userid", js(c10OffUser))), chat(kv("chat", ji(5))))},
		{msg("message", off, js("chat")), msg("message", off, jnestv(300, ji(1))), msg("control", c10Recipient("room"), jz())},
		{msg("message", c10Recipient("room"), jo(kv("type", js("offer")), kv("payload", jo(kv("sdp", js("not an sdp")))))), msg("message", off, jo(kv("type", js("unshareScreen")), kv("roomType", js("screen"))))},
		{c10Msg("t1", "transient", kv("transient", jo(kv("type", js("set")), kv("key", js("k9")), kv("value", jo(kv("v", ji(1))))))), msg("message", off, jo())},
		{msg("message", off, chat(kv("chat", jo(kv("refresh", jb(true)))))), msg("message", off, chat(kv("chat", jo(kv("refresh", jb(true)))))), msg("message", c10Recipient("room"), chat(kv("chat", jo(kv("refresh", jb(false))))))},
	}
	var out []c10Case
	for gi, g := range groups {
		c := c10Case{}
		for di, d := range g {
			c.Ops = append(c.Ops, c10Step{St: 2, K: "doc", Doc: d, Class: fmt.Sprintf("resume/%d/store-%d", gi, di)})
		}
		c.Ops = append(c.Ops, c10Step{St: 7, K: "resume", Class: fmt.Sprintf("resume/%d/resume", gi)})
		out = append(out, c)
	}
	return out
}

// ---- raw frames -------------------------------------------------------------------------------------------------

type c10RawItem struct {
	class string
	kind  string // bad, bin, over, opaque, doc
	data  []byte
	doc   *vj
	home  []int
}

func c10B64(b []byte) string { return base64.StdEncoding.EncodeToString(b) }

func c10RawItems(r *vrng, thorough bool) []c10RawItem {
	var out []c10RawItem
	every := []int{0, 1, 2, 3, 4, 5}
	add := func(class, kind string, data []byte, home []int) {
		if kind == "bad" {
			// the lexical level is run, not modelled: "bad" is text the real lexer rejects
			// (placeholders do not matter for that); text it accepts is judged without the model
			var m ClientMessage
			if m.UnmarshalJSON(data) == nil {
				kind = "opaque"
			}
		}
		out = append(out, c10RawItem{class: class, kind: kind, data: data, home: home})
	}
	bases := c10Bases()
	// truncations of valid messages: every prefix of three messages, sampled prefixes of the others
	for bi, b := range bases {
		text := c10Text(b.doc)
		step := 1
		if bi != 0 && bi != 12 && bi != 26 && !thorough {
			step = 9
		}
		for n := 0; n < len(text); n += step {
			add(fmt.Sprintf("trunc/%s/%d", b.name, n), "bad", []byte(text[:n]), b.states[:1])
		}
	}
	bye := `{"id":"x","type":"bye"}`
	for i, s := range []string{"", " ", "\n\t ", "\x00", "nul", "{", "[", "\"", "{\"type\"}", "{\"type\":}", "{type:\"bye\"}", "{'type':'bye'}", "NaN", "0x10", "[1,]",
		"{\"type\":\"bye\",}", "// c\n" + bye, bye + "x", bye + bye, bye + " " + bye, bye + ",", "\xef\xbb\xbf" + bye, " " + bye + " \n", bye + "\x00",
		"{\"type\":\"bye\" \"id\":\"x\"}", "{\"type\" \"bye\"}", "{\"type\":\"bye\",\"x\":[1 2]}", "{\"type\":\"bye\",\"x\":{\"a\" 1}}", "{\"type\":\"bye\",\"x\":tru}",
		"{\"type\":\"bye\",\"x\":01}", "{\"type\":\"bye\",\"x\":1.}", "{\"type\":\"bye\",\"x\":\"\\q\"}", "{\"type\":\"bye\",\"x\":\"\\u12\"}", "{\"type\":\"b\\u0079e\"}",
		"{\"type\":\"bye\",\"x\":\"\x01\"}", "{\"id\":\"\\ud800\",\"type\":\"foo\"}", strings.Repeat("[", 5000), strings.Repeat("{\"a\":", 5000), strings.Repeat("[", 30000) + strings.Repeat("]", 30000)} {
		add(fmt.Sprintf("junk/%d", i), "bad", []byte(s), every)
	}
	// invalid UTF-8
	for i, s := range []string{"\xff\xfe", "{\"id\":\"\xff\",\"type\":\"foo\"}", "{\"id\":\"\xc3\x28\",\"type\":\"message\"}", "{\"type\":\"by\xe2\x82e\"}", "{\"\xff\":1,\"type\":\"foo\"}",
		"{\"id\":\"a\xed\xa0\x80b\",\"type\":\"internal\"}", "{\"type\":\"message\",\"message\":{\"recipient\":{\"type\":\"room\"},\"data\":\"\xff\"}}"} {
		add(fmt.Sprintf("utf8/%d", i), "opaque", []byte(s), every)
	}
	// the size limit: exactly maxMessageSize and one more
	pad := func(total int) []byte {
		head := `{"id":"big","type":"message","pad":"`
		return []byte(head + strings.Repeat("a", total-len(head)-2) + `"}`)
	}
	lim := maxMessageSize
	head := `{"id":"big","type":"message","pad":"`
	out = append(out, c10RawItem{class: "size/limit", kind: "doc", doc: jo(kv("id", js("big")), kv("type", js("message")), kv("pad", js(strings.Repeat("a", lim-len(head)-2)))), home: every})
	out = append(out, c10RawItem{class: "size/limit-minus-1", kind: "doc", doc: jo(kv("id", js("big")), kv("type", js("message")), kv("pad", js(strings.Repeat("a", lim-len(head)-3)))), home: []int{2}})
	add("size/limit-plus-1", "over", pad(lim+1), every)
	add("size/limit-times-4", "over", pad(4*lim), []int{2, 0})
	add("size/limit-garbage", "bad", []byte(strings.Repeat("\xff", lim)), []int{2, 0})
	add("size/limit-plus-1-binary", "over", []byte(strings.Repeat("\x00", lim+1)), []int{2})
	// binary and empty frames
	for i, s := range []string{"", bye, "\x00\x01\x02", `{"id":"x","type":"hello","hello":{"version":"1.0","resumeid":"x"}}`, strings.Repeat("\xff", 1000)} {
		add(fmt.Sprintf("binary/%d", i), "bin", []byte(s), every)
	}
	// seeded garbage
	n := 40
	if thorough {
		n = 600
	}
	for i := 0; i < n; i++ {
		b := pick(r, bases)
		text := []byte(c10Text(b.doc))
		switch r.intn(5) {
		case 0:
			k := r.intn(len(text))
			text[k] = byte(r.intn(256))
		case 1:
			k := r.intn(len(text))
			text = append(text[:k:k], text[k+1:]...)
		case 2:
			k := r.intn(len(text))
			text = append(text[:k:k], append([]byte(pick(r, []string{"\"", "{", "}", ",", ":", "\\", "\x00", "\xff", "null", "[", "]"})), text[k:]...)...)
		case 3:
			l := r.intn(200)
			text = make([]byte, l)
			for j := range text {
				text[j] = byte(r.intn(256))
			}
		default:
			k, l := r.intn(len(text)), r.intn(len(text))
			if k > l {
				k, l = l, k
			}
			text = append(text[:k:k], text[l:]...)
		}
		add(fmt.Sprintf("garbage/%d", i), "bad", text, []int{pick(r, b.states)})
	}
	return out
}

// ---- random mutation stream (structured, mostly valid) ------------------------------------------------------------------

func c10RandomValue(r *vrng, depth int) *vj {
	switch n := r.intn(10); {
	case n == 0:
		return jz()
	case n == 1:
		return jb(r.chance(50))
	case n == 2:
		return ji(int64(r.intn(9)) - 2)
	case n == 3:
		return jf(int64(r.intn(40))-5, int64(r.intn(5))-2)
	case n <= 5:
		return js(pick(r, []string{"", "x", c10Sid, c10Bid, c10Pid, c10Room, "room", "session", "dialout", "status", "error", "1.0", "2.0", "internal", "set", "offer", c10Burl, c10Oid, "chat", c10OffUser, c10SelfUser}))
	case n == 6 && depth > 0:
		var l []*vj
		for i := r.intn(3); i > 0; i-- {
			l = append(l, c10RandomValue(r, depth-1))
		}
		return ja(l...)
	case n == 7 && depth > 0:
		o := jo()
		for i := r.intn(3); i > 0; i-- {
			o.O = append(o.O, kv(pick(r, []string{"type", "sessionid", "roomid", "data", "recipient", "dialout", "status", "error", "incall", "key", "id", "chat", "refresh", "userid"}), c10RandomValue(r, depth-1)))
		}
		return o
	}
	return ji(1)
}

func c10Mutate(r *vrng, o *vj, depth int) *vj {
	if o.K != "o" || len(o.O) == 0 {
		return c10RandomValue(r, 2)
	}
	c := o.clone()
	i := r.intn(len(c.O))
	switch r.intn(9) {
	case 0:
		c.O = append(c.O[:i], c.O[i+1:]...)
	case 1:
		c.O[i].V = jz()
	case 2:
		c.O[i].V = c10RandomValue(r, 2)
	case 3:
		c.O = append(c.O, kv(c.O[i].K, c10RandomValue(r, 2)))
	case 4:
		c.O = append(c.O, kv(pick(r, []string{"bogus", "Type", "dialout", "hello", "internal", "message", "status", "error"}), c10RandomValue(r, 2)))
	case 5:
		c.O[i].V = ja(c.O[i].V)
	default:
		if depth > 0 {
			c.O[i].V = c10Mutate(r, c.O[i].V, depth-1)
		} else {
			c.O[i].V = c10RandomValue(r, 1)
		}
	}
	return c
}

func c10RandomItem(r *vrng) (c10Item, int) {
	bases := c10Bases()
	b := pick(r, bases)
	doc := b.doc
	for k := r.intn(3); k > 0; k-- {
		doc = c10Mutate(r, doc, 3)
	}
	st := pick(r, b.states)
	if r.chance(25) {
		st = r.intn(6)
	}
	if st == 2 && r.chance(12) {
		st = 8
	}
	if st == 4 && r.chance(50) && doc.K == "o" {
		doc = doc.with("id", js(c10Pid))
	}
	return c10Item{"random/" + b.name, doc, nil}, st
}
