//go:build verif

package signaling

import (
	"encoding/json"
	"fmt"
	"math"
	"os"
	"reflect"
	"runtime"
	"sort"
	"strconv"
	"strings"
	"sync"
	"sync/atomic"
	"testing"
	"time"
)

// ---- C14: the real TransientData with recording listeners ---------------------
//
// quiet cases : no time passes (time-to-lives are hours); compared step by step
//               with the model and judged by P_C14
// grid cases  : real timers on a grid; operations at half-grid offsets, every
//               deadline on a grid point; each case is executed twice and only
//               emitted when both executions were on time and observed the same
//               (otherwise executed again, never compared)
// late        : an operation executed while the callback of the key's timer is
//               already waiting for the store's mutex (forced with the mutex)
// slow        : forced schedule: a listener whose reception of a message (the initial data
//               of its join, or a notification) takes long, and the next operation of the
//               history issued meanwhile.  Every method is one critical section that includes
//               its notifications, so on the code as it is the second operation waits and the
//               history is the sequential one (compared with the model, judged by P_C14); an
//               operation that gets through during the delivery shows in the trace as it
//               happened (the listener's replica no longer follows the store)
// concurrent  : several goroutines; consistent cuts (log, data) judged by the
//               replica part of the property only; listeners that join meanwhile are slow

// ---- values -------------------------------------------------------------------

var c14Texts = []string{
	`"a"`, `"b"`, `1`, `1.0`, `1e0`, `1.5`, `0`, `-0`, `true`, `false`,
	`[]`, `{}`, `[1,"a"]`, `[1.0,"a"]`,
	`{"x":1,"y":{"z":[true,null]}}`, `{"y":{"z":[true,null]},"x":1.0}`,
	`{"x":1}`, `{"x":1,"y":null}`, `[[1]]`, `[1]`, `"1"`, `""`, `{"x":2,"x":1}`,
	`{"a":"x"}`, `"x"`, `[null]`, `{"x":[1]}`, `{"x":[1.0]}`, `2`,
}

// texts additionally used as json.RawMessage (what the hub hands to the store)
var c14RawTexts = []string{`1`, `1.0`, `{"x":1}`, `{ "x":1}`, `"a"`, `null`}

type c14Value struct {
	v   interface{}
	coq string
}

var (
	c14Strs   = map[string]int{}
	c14Pool   []c14Value
	c14PoolMu sync.Mutex
)

func c14StrId(s string) int {
	c14PoolMu.Lock()
	defer c14PoolMu.Unlock()
	id, ok := c14Strs[s]
	if !ok {
		id = len(c14Strs)
		c14Strs[s] = id
	}
	return id
}

func c14ToCoq(v interface{}) string {
	switch x := v.(type) {
	case nil:
		return "JNull"
	case bool:
		return "(JBool " + coqBool(x) + ")"
	case float64:
		m := x * 1000
		if m != math.Trunc(m) || math.Abs(m) > 1e15 {
			panic(fmt.Sprintf("c14: number %v is not a multiple of 1/1000", x))
		}
		return "(JNum " + coqZ(int64(m)) + ")"
	case string:
		return fmt.Sprintf("(JStr %d)", c14StrId(x))
	case json.RawMessage:
		return fmt.Sprintf("(JRaw %d)", c14StrId(string(x)))
	case []interface{}:
		var items []string
		for _, e := range x {
			items = append(items, c14ToCoq(e))
		}
		return "(jarr " + coqList(items) + ")"
	case map[string]interface{}:
		type kv struct {
			id int
			v  string
		}
		var kvs []kv
		for k, e := range x {
			kvs = append(kvs, kv{c14StrId(k), c14ToCoq(e)})
		}
		sort.Slice(kvs, func(i, j int) bool { return kvs[i].id < kvs[j].id })
		var items []string
		for _, e := range kvs {
			items = append(items, fmt.Sprintf("(%d%%N, %s)", e.id, e.v))
		}
		return "(jobj " + coqList(items) + ")"
	}
	// any other Go type is outside the model: a value equal to nothing else
	return fmt.Sprintf("(JRaw %d)", 900000+c14StrId(fmt.Sprintf("%T:%v", v, v)))
}

func c14InitPool() {
	if len(c14Pool) > 0 {
		return
	}
	for _, txt := range c14Texts {
		var v interface{}
		if err := json.Unmarshal([]byte(txt), &v); err != nil {
			panic(err)
		}
		c14Pool = append(c14Pool, c14Value{v: v, coq: c14ToCoq(v)})
	}
	for _, txt := range c14RawTexts {
		v := json.RawMessage(txt)
		c14Pool = append(c14Pool, c14Value{v: v, coq: c14ToCoq(v)})
	}
}

func c14Val(i int) interface{} {
	if i < 0 {
		return nil
	}
	return c14Pool[i%len(c14Pool)].v
}

func c14OptCoq(i int) string {
	if i < 0 {
		return "None"
	}
	return "(Some " + c14Pool[i%len(c14Pool)].coq + ")"
}

func c14Key(i int) string { return "k" + strconv.Itoa(i) }

func c14KeyId(s string) int {
	if strings.HasPrefix(s, "k") {
		if n, err := strconv.Atoi(s[1:]); err == nil {
			return n
		}
	}
	return 900000 + c14StrId(s)
}

func c14DataCoq(d map[string]interface{}) string {
	type kv struct {
		id int
		v  string
	}
	var kvs []kv
	for k, v := range d {
		kvs = append(kvs, kv{c14KeyId(k), c14ToCoq(v)})
	}
	sort.Slice(kvs, func(i, j int) bool { return kvs[i].id < kvs[j].id })
	var items []string
	for _, e := range kvs {
		items = append(items, fmt.Sprintf("(%d%%N, %s)", e.id, e.v))
	}
	return coqList(items)
}

// ---- recording listeners ---------------------------------------------------------

type c14Rec struct {
	l     int
	m     string
	stamp time.Time
	goid  int64 // goroutine that delivered it (slow pairs only)
}

type c14Recorder struct {
	mu       sync.Mutex
	recs     []c14Rec
	bad      []string
	wantGoid atomic.Bool
}

type c14Listener struct {
	id   int
	rec  *c14Recorder
	left atomic.Bool

	// forced schedule: the next message takes until release is closed
	slowArmed atomic.Bool
	entered   chan struct{}
	release   chan struct{}
	// concurrent runs: the initial data takes this long
	initialDelay time.Duration
}

// id of the calling goroutine ("goroutine 123 [running]:")
func c14Goid() int64 {
	var buf [40]byte
	n := runtime.Stack(buf[:], false)
	f := strings.Fields(string(buf[:n]))
	if len(f) < 2 {
		return -1
	}
	id, err := strconv.ParseInt(f[1], 10, 64)
	if err != nil {
		return -1
	}
	return id
}

func (l *c14Listener) SendMessage(message *ServerMessage) bool {
	var s string
	td := message.TransientData
	switch {
	case message.Type != "transient" || td == nil:
		s = "(MInitial [(999999%N, JNull)])"
	case td.Type == "initial":
		s = "(MInitial " + c14DataCoq(td.Data) + ")"
	case td.Type == "set":
		old := "None"
		if td.OldValue != nil {
			old = "(Some " + c14ToCoq(td.OldValue) + ")"
		}
		s = fmt.Sprintf("(MSet %d %s %s)", c14KeyId(td.Key), old, c14ToCoq(td.Value))
	case td.Type == "remove":
		s = fmt.Sprintf("(MRemove %d %s)", c14KeyId(td.Key), c14ToCoq(td.OldValue))
	default:
		s = "(MInitial [(999998%N, JNull)])"
	}
	now := time.Now()
	var goid int64
	if l.rec.wantGoid.Load() {
		goid = c14Goid()
	}
	// a message counts as received when the delivery begins
	l.rec.mu.Lock()
	l.rec.recs = append(l.rec.recs, c14Rec{l: l.id, m: s, stamp: now, goid: goid})
	if l.left.Load() {
		l.rec.bad = append(l.rec.bad, fmt.Sprintf("listener %d received %s after RemoveListener had returned", l.id, s))
	}
	l.rec.mu.Unlock()
	if l.slowArmed.CompareAndSwap(true, false) {
		close(l.entered)
		select {
		case <-l.release:
		case <-time.After(20 * time.Second):
		}
	} else if l.initialDelay > 0 && td != nil && td.Type == "initial" {
		time.Sleep(l.initialDelay)
	}
	return true
}

func (r *c14Recorder) length() int {
	r.mu.Lock()
	defer r.mu.Unlock()
	return len(r.recs)
}

func (r *c14Recorder) slice(from, to int) []c14Rec {
	r.mu.Lock()
	defer r.mu.Unlock()
	return append([]c14Rec(nil), r.recs[from:to]...)
}

func c14OutsCoq(recs []c14Rec) string {
	s := append([]c14Rec(nil), recs...)
	sort.SliceStable(s, func(i, j int) bool { return s[i].l < s[j].l })
	var items []string
	for _, e := range s {
		items = append(items, fmt.Sprintf("(%d%%N, %s)", e.l, e.m))
	}
	return coqList(items)
}

// ---- operations ---------------------------------------------------------------------

type c14Op struct {
	K   string `json:"k"` // set setnt cas casnt remove casremove addl removel late
	At  int    `json:"at"`
	Key int    `json:"key"`
	V   int    `json:"v"`   // pool index, -1 = nil
	Old int    `json:"old"` // pool index, -1 = nil
	TTL int64  `json:"ttl"` // quiet: nanoseconds; grid: half-grid units (late: whole-grid units)
	L   int    `json:"l"`
	// Slow = n+1: listener n is slow in receiving the first message it is sent during this
	// operation.  slow cases: the next operation of the history is issued while that delivery
	// lasts.  grid cases: the delivery lasts until a fifth of a grid after the next grid point.
	Slow int `json:"slow,omitempty"`
}

type c14Case struct {
	Id   int     `json:"id"`
	Kind string  `json:"kind"` // quiet | grid | slow
	End  int     `json:"end"`  // grid: slot after which the case ends
	Ops  []c14Op `json:"ops"`
	Note string  `json:"note,omitempty"`
}

type c14World struct {
	td        *TransientData
	rec       *c14Recorder
	listeners map[int]*c14Listener
	known     map[*time.Timer]int
	armEnd    map[*time.Timer]time.Time
	ttlOf     map[*time.Timer]time.Duration
	next      int
	pos       int // recorder position already attributed
}

func c14NewWorld() *c14World {
	return &c14World{td: NewTransientData(), rec: &c14Recorder{}, listeners: map[int]*c14Listener{},
		known: map[*time.Timer]int{}, armEnd: map[*time.Timer]time.Time{}, ttlOf: map[*time.Timer]time.Duration{}}
}

func (w *c14World) listener(id int) *c14Listener {
	l, ok := w.listeners[id]
	if !ok {
		l = &c14Listener{id: id, rec: w.rec}
		w.listeners[id] = l
	}
	return l
}

// the model's operation and the duration handed to the implementation
func c14OpCoq(o c14Op, ttl time.Duration) string {
	switch o.K {
	case "set", "setnt", "late":
		return fmt.Sprintf("OSet %d %s %s", o.Key, c14OptCoq(o.V), coqZ(int64(ttl)))
	case "cas", "casnt":
		return fmt.Sprintf("OCas %d %s %s %s", o.Key, c14OptCoq(o.Old), c14OptCoq(o.V), coqZ(int64(ttl)))
	case "remove":
		return fmt.Sprintf("ORemove %d", o.Key)
	case "casremove":
		return fmt.Sprintf("OCasRemove %d %s", o.Key, c14OptCoq(o.Old))
	case "addl":
		return fmt.Sprintf("OAddL %d", o.L)
	case "removel":
		return fmt.Sprintf("ORemoveL %d", o.L)
	}
	return "OAdvance 0 (* unknown op " + o.K + " *)"
}

// exec calls the real method.  Set/CompareAndSet (without TTL argument) are the
// same model operation as SetTTL/CompareAndSetTTL with ttl 0.
func (w *c14World) exec(o c14Op, ttl time.Duration) bool {
	td := w.td
	switch o.K {
	case "set", "late":
		return td.SetTTL(c14Key(o.Key), c14Val(o.V), ttl)
	case "setnt":
		return td.Set(c14Key(o.Key), c14Val(o.V))
	case "cas":
		return td.CompareAndSetTTL(c14Key(o.Key), c14Val(o.Old), c14Val(o.V), ttl)
	case "casnt":
		return td.CompareAndSet(c14Key(o.Key), c14Val(o.Old), c14Val(o.V))
	case "remove":
		return td.Remove(c14Key(o.Key))
	case "casremove":
		return td.CompareAndRemove(c14Key(o.Key), c14Val(o.Old))
	case "addl":
		l := w.listener(o.L)
		l.left.Store(false)
		td.AddListener(l)
	case "removel":
		l := w.listener(o.L)
		td.RemoveListener(l)
		l.left.Store(true)
	}
	return false
}

// new timers get the next id (the model numbers timers in creation order)
func (w *c14World) noteTimers(opEnd time.Time, ttl time.Duration) {
	w.td.mu.Lock()
	defer w.td.mu.Unlock()
	for _, p := range w.td.timers {
		if _, ok := w.known[p]; !ok {
			w.known[p] = w.next
			w.next++
			w.armEnd[p] = opEnd
			w.ttlOf[p] = ttl
		}
	}
}

func (w *c14World) stopAll() {
	for p := range w.known {
		p.Stop()
	}
}

// observation since the last call: messages and GetData()
func (w *c14World) observe(ret bool) (string, []c14Rec) {
	n := w.rec.length()
	recs := w.rec.slice(w.pos, n)
	w.pos = n
	return fmt.Sprintf("(%s, %s, %s)", coqBool(ret), c14OutsCoq(recs), c14DataCoq(w.td.GetData())), recs
}

func c14TTLOf(o c14Op, kind string, grid time.Duration) time.Duration {
	switch o.K {
	case "setnt", "casnt", "remove", "casremove", "addl", "removel":
		return 0
	}
	if kind == "grid" {
		if o.K == "late" {
			return time.Duration(o.TTL) * grid
		}
		return time.Duration(o.TTL) * grid / 2
	}
	return time.Duration(o.TTL)
}

// ---- quiet cases ------------------------------------------------------------------------

func c14RunQuiet(c *c14Case) (trace []string, changes int) {
	w := c14NewWorld()
	defer w.stopAll()
	for _, o := range c.Ops {
		ttl := c14TTLOf(o, "quiet", 0)
		ret := w.exec(o, ttl)
		w.noteTimers(time.Now(), ttl)
		ob, recs := w.observe(ret)
		if ret || len(recs) > 0 {
			changes++
		}
		trace = append(trace, fmt.Sprintf("(%s, %s)", c14OpCoq(o, ttl), ob))
	}
	return
}

var c14QuietTTLs = []int64{0, 0, 0, 0, 0, 0, int64(time.Hour), int64(time.Hour), 2 * int64(time.Hour), int64(30 * time.Minute), 0, -1, -int64(time.Second)}

// generated against a scratch instance so that compare operations mostly name
// the current value
func c14GenQuiet(r *vrng, id int) *c14Case { return c14GenHistory(r, id, "quiet", 0) }

// slowPct > 0: histories for the forced schedule.  That share of the operations (never two
// in a row) is a join of a listener whose reception of the initial data is slow -- the next
// operation is issued meanwhile -- and a tenth of the others have a listener that is slow in
// receiving the notification.
func c14GenHistory(r *vrng, id int, kind string, slowPct int) *c14Case {
	c := &c14Case{Id: id, Kind: kind}
	prevSlow := false
	w := c14NewWorld()
	defer w.stopAll()
	nkeys := 1 + r.intn(4)
	// a small value set per case so that equal values meet often
	var vals []int
	for i := 0; i < 2+r.intn(4); i++ {
		vals = append(vals, r.intn(len(c14Pool)))
	}
	if r.chance(50) {
		// spellings of the same value
		vals = append(vals, pick(r, [][]int{{2, 3, 4}, {12, 13}, {14, 15}, {16, 22}, {26, 27}, {6, 7}}[:])...)
	}
	n := 4 + r.intn(36)
	for i := 0; i < n; i++ {
		o := c14Op{Key: r.intn(nkeys), V: pick(r, vals), Old: -1, L: r.intn(4)}
		cur := w.td.GetData()[c14Key(o.Key)]
		curIdx := -1
		for _, vi := range vals {
			if cur != nil && reflect.DeepEqual(c14Val(vi), cur) {
				curIdx = vi
				if r.chance(50) {
					break
				}
			}
		}
		x := r.intn(100)
		switch {
		case x < 34:
			o.K = "set"
			o.TTL = pick(r, c14QuietTTLs)
			if r.chance(20) && curIdx >= 0 {
				o.V = curIdx // unchanged value (possibly another spelling)
			}
			if r.chance(4) {
				o.V = -1
			}
		case x < 40:
			o.K = "setnt"
		case x < 56:
			o.K = "cas"
			o.TTL = pick(r, c14QuietTTLs)
			if r.chance(65) {
				o.Old = curIdx
			} else if r.chance(25) {
				o.Old = -1 // "only if absent", whether or not the key is present
			} else {
				o.Old = pick(r, vals)
			}
			if r.chance(6) {
				o.V = -1
			}
		case x < 62:
			o.K = "casnt"
			if r.chance(65) {
				o.Old = curIdx
			} else if r.chance(25) {
				o.Old = -1
			} else {
				o.Old = pick(r, vals)
			}
		case x < 72:
			o.K = "remove"
		case x < 80:
			o.K = "casremove"
			if r.chance(65) {
				o.Old = curIdx
			} else {
				o.Old = pick(r, vals)
			}
		case x < 92:
			o.K = "addl"
		default:
			o.K = "removel"
		}
		if slowPct > 0 {
			switch {
			case prevSlow:
				prevSlow = false
			case len(w.td.GetData()) > 0 && r.chance(slowPct):
				l := r.intn(4)
				o = c14Op{K: "addl", Old: -1, L: l, Slow: l + 1}
				prevSlow = true
			case r.chance(10):
				o.Slow = 1 + r.intn(4)
				if o.K == "addl" {
					o.Slow = o.L + 1
				}
				prevSlow = true
			}
		}
		w.exec(o, c14TTLOf(o, "quiet", 0))
		c.Ops = append(c.Ops, o)
	}
	return c
}

// ---- slow cases: an operation issued while a listener is still receiving ----------------

// the store's map as it is now.  Called while the goroutine of an operation is held inside a
// listener: either that goroutine owns the store's mutex (the code as it is), or the mutex
// can be taken.
func (w *c14World) dataNow() (string, bool) {
	free := w.td.mu.TryLock()
	s := c14DataCoq(w.td.data)
	if free {
		w.td.mu.Unlock()
	}
	return s, free
}

// arms listener n: the next message it is sent takes until release is closed
func (w *c14World) armSlow(n int) *c14Listener {
	l := w.listener(n)
	l.entered = make(chan struct{})
	l.release = make(chan struct{})
	l.slowArmed.Store(true)
	return l
}

// Operation p with listener p.Slow-1 slow; x (if any) is issued while the delivery lasts.
// Returns the trace entries in the order in which things happened: p's delivery began before
// x was called.  If x had to wait for p (the store's mutex is held during the delivery, as
// every method of TransientData does), the messages are attributed by the goroutine that
// delivered them, and the history is the sequential one.  If x returned while the delivery
// still lasted, p's entry lists what had been delivered until then and x's entry everything
// that arrived afterwards, in the order of arrival.
func (w *c14World) execSlow(p c14Op, x *c14Op) (entries []string, changes int, blocked, early bool) {
	ttlP := c14TTLOf(p, "quiet", 0)
	L := w.armSlow(p.Slow - 1)
	w.rec.wantGoid.Store(true)
	defer w.rec.wantGoid.Store(false)
	entry := func(o c14Op, ttl time.Duration, ret bool, recs []c14Rec, snap string) {
		if ret || len(recs) > 0 {
			changes++
		}
		entries = append(entries, fmt.Sprintf("(%s, (%s, %s, %s))", c14OpCoq(o, ttl), coqBool(ret), c14OutsCoq(recs), snap))
	}
	var retP, retX bool
	var gX int64
	doneP := make(chan struct{})
	go func() { retP = w.exec(p, ttlP); close(doneP) }()
	select {
	case <-L.entered:
		blocked = true
	case <-doneP:
	}
	if !blocked {
		// nothing was sent to that listener: two ordinary operations
		L.slowArmed.Store(false)
		w.noteTimers(time.Now(), ttlP)
		n := w.rec.length()
		entry(p, ttlP, retP, w.rec.slice(w.pos, n), c14DataCoq(w.td.GetData()))
		w.pos = n
		if x != nil {
			ttlX := c14TTLOf(*x, "quiet", 0)
			retX = w.exec(*x, ttlX)
			w.noteTimers(time.Now(), ttlX)
			n = w.rec.length()
			entry(*x, ttlX, retX, w.rec.slice(w.pos, n), c14DataCoq(w.td.GetData()))
			w.pos = n
		}
		return
	}
	snapP, free := w.dataNow()
	nBlock := w.rec.length()
	var ttlX time.Duration
	snapX := ""
	if x != nil {
		ttlX = c14TTLOf(*x, "quiet", 0)
		doneX := make(chan struct{})
		go func() { gX = c14Goid(); retX = w.exec(*x, ttlX); close(doneX) }()
		// with the mutex held x cannot get anywhere; otherwise give it all the time it needs
		wait := 3 * time.Millisecond
		if free {
			wait = 5 * time.Second
		}
		select {
		case <-doneX:
			early = true
			if w.td.mu.TryLock() {
				snapX = c14DataCoq(w.td.data)
				w.td.mu.Unlock()
			}
		case <-time.After(wait):
		}
		close(L.release)
		<-doneP
		<-doneX
	} else {
		close(L.release)
		<-doneP
	}
	if snapX == "" {
		snapX = c14DataCoq(w.td.GetData())
	}
	w.noteTimers(time.Now(), 0)
	n := w.rec.length()
	recs := w.rec.slice(w.pos, n)
	var recsP, recsX []c14Rec
	if early {
		recsP, recsX = recs[:nBlock-w.pos], recs[nBlock-w.pos:]
	} else {
		for _, e := range recs {
			if x != nil && e.goid == gX {
				recsX = append(recsX, e)
			} else {
				recsP = append(recsP, e)
			}
		}
	}
	w.pos = n
	entry(p, ttlP, retP, recsP, snapP)
	if x != nil {
		entry(*x, ttlX, retX, recsX, snapX)
	}
	return
}

func c14RunSlow(c *c14Case) (trace []string, changes, blocks, early int, bad []string) {
	w := c14NewWorld()
	defer w.stopAll()
	defer func() { bad = append(bad, w.rec.bad...) }()
	for i := 0; i < len(c.Ops); i++ {
		o := c.Ops[i]
		if o.Slow > 0 {
			var x *c14Op
			if i+1 < len(c.Ops) {
				x = &c.Ops[i+1]
				i++
			}
			entries, ch, b, e := w.execSlow(o, x)
			trace = append(trace, entries...)
			changes += ch
			if b {
				blocks++
			}
			if e {
				early++
			}
			continue
		}
		ttl := c14TTLOf(o, "quiet", 0)
		ret := w.exec(o, ttl)
		w.noteTimers(time.Now(), ttl)
		ob, recs := w.observe(ret)
		if ret || len(recs) > 0 {
			changes++
		}
		trace = append(trace, fmt.Sprintf("(%s, %s)", c14OpCoq(o, ttl), ob))
	}
	return
}

// a change of every kind landing in the join of a slow listener, a change landing in the
// delivery of a notification, joins and leaves landing in a join
func c14DirectedSlow() []*c14Case {
	A, B, C := 0, 1, 24
	mk := func(note string, ops ...c14Op) *c14Case { return &c14Case{Kind: "slow", Ops: ops, Note: note} }
	set := func(key, v int) c14Op { return c14Op{K: "setnt", Key: key, V: v, Old: -1} }
	join := func(l int) c14Op { return c14Op{K: "addl", Old: -1, L: l} }
	slowJoin := func(l int) c14Op { return c14Op{K: "addl", Old: -1, L: l, Slow: l + 1} }
	hour := int64(time.Hour)
	return []*c14Case{
		mk("set of another key while a listener joins", set(1, A), slowJoin(2), set(2, B), set(3, C)),
		mk("remove while a listener joins", set(1, A), set(2, B), join(1), slowJoin(2), c14Op{K: "remove", Key: 1}, set(1, B)),
		mk("replace while a listener joins", set(1, A), slowJoin(2), set(1, B), join(1), set(1, A)),
		mk("compare-and-set while a listener joins", set(1, A), slowJoin(2), c14Op{K: "casnt", Key: 1, V: B, Old: A}, c14Op{K: "casremove", Key: 1, Old: B}),
		mk("compare-and-remove while a listener joins", set(1, A), set(2, A), slowJoin(3), c14Op{K: "casremove", Key: 2, Old: A}),
		mk("set with a ttl while a listener joins", set(1, A), slowJoin(0), c14Op{K: "set", Key: 2, V: B, Old: -1, TTL: hour}, c14Op{K: "set", Key: 2, V: B, Old: -1, TTL: 0}),
		mk("unchanged set while a listener joins", set(1, A), slowJoin(2), set(1, A), set(1, B)),
		mk("the joining listener leaves while it joins", set(1, A), slowJoin(2), c14Op{K: "removel", L: 2}, set(2, B)),
		mk("another listener joins while a listener joins", set(1, A), slowJoin(2), join(1), set(2, B)),
		mk("another listener leaves while a listener joins", set(1, A), join(1), slowJoin(2), c14Op{K: "removel", L: 1}, set(2, B)),
		mk("the listener joins again while it joins", set(1, A), slowJoin(2), join(2), set(2, B)),
		mk("two slow joins in a row", set(1, A), slowJoin(1), set(2, B), slowJoin(2), c14Op{K: "remove", Key: 1}, set(3, C)),
		mk("set while the notification of a set is delivered", join(1), join(2), join(3),
			c14Op{K: "setnt", Key: 1, V: A, Old: -1, Slow: 3}, set(1, B), set(1, C)),
		mk("remove while the notification of a set is delivered", set(1, A), join(1), join(2),
			c14Op{K: "setnt", Key: 1, V: B, Old: -1, Slow: 2}, c14Op{K: "remove", Key: 1}),
		mk("join while the notification of a remove is delivered", set(1, A), set(2, B), join(1),
			c14Op{K: "remove", Key: 1, Slow: 2}, join(2), set(1, C)),
		mk("leave while a notification is delivered to that listener", set(1, A), join(1), join(2),
			c14Op{K: "setnt", Key: 2, V: B, Old: -1, Slow: 2}, c14Op{K: "removel", L: 1}, set(3, C)),
	}
}

// ---- grid cases ---------------------------------------------------------------------------

func c14Grid() time.Duration {
	if s := os.Getenv("VERIF_C14_GRID_MS"); s != "" {
		if n, err := strconv.Atoi(s); err == nil && n >= 60 {
			return time.Duration(n) * time.Millisecond
		}
	}
	return 100 * time.Millisecond
}

func c14SleepUntil(t time.Time) {
	if d := time.Until(t); d > 0 {
		time.Sleep(d)
	}
}

// one execution of a grid case; ok = every operation and every message was on time
func c14RunGrid(c *c14Case, grid time.Duration) (trace []string, ok bool, expiries int) {
	w := c14NewWorld()
	defer w.stopAll()
	ok = true
	start := time.Now().Add(5 * time.Millisecond)
	var model time.Duration // the model's clock
	onGrid := func(recs []c14Rec) {
		for _, e := range recs {
			ph := e.stamp.Sub(start) % grid
			if ph < 0 {
				ph += grid
			}
			// a timer fires at its deadline (a grid point, plus the lateness of the arming operation)
			if !(ph < grid*2/5 || ph > grid-time.Millisecond) {
				ok = false
			}
		}
	}
	var advanceAt func(to, at time.Duration)
	advance := func(to time.Duration) { advanceAt(to, to) }
	// the model's clock moves to [to]; the observation is made at [at] (nothing is due in between)
	advanceAt = func(to, at time.Duration) {
		c14SleepUntil(start.Add(at))
		ob, recs := w.observe(false)
		onGrid(recs)
		for _, e := range recs {
			if strings.HasPrefix(e.m, "(MRemove") {
				expiries++
			}
		}
		trace = append(trace, fmt.Sprintf("(OAdvance %s, %s)", coqZ(int64(to-model)), ob))
		model = to
	}
	ops := append([]c14Op(nil), c.Ops...)
	sort.SliceStable(ops, func(i, j int) bool { return ops[i].At < ops[j].At })
	for _, o := range ops {
		ttl := c14TTLOf(o, "grid", grid)
		if o.K == "late" {
			// the callback of the key's pending timer (deadline: grid point o.At) is already
			// waiting for the mutex when this operation runs, but the operation gets it first
			d := time.Duration(o.At) * grid
			w.td.mu.Lock()
			p := w.td.timers[c14Key(o.Key)]
			w.td.mu.Unlock()
			tid, have := w.known[p]
			if p == nil || !have {
				// no pending timer (shrunk case): an ordinary operation, away from grid point and half-grid
				advance(d - grid/4)
				t0 := time.Now()
				ret := w.exec(o, ttl)
				if time.Since(t0) > grid/8 || time.Now().Sub(start.Add(d-grid/4)) > grid/8 {
					ok = false
				}
				w.noteTimers(time.Now(), ttl)
				ob, _ := w.observe(ret)
				trace = append(trace, fmt.Sprintf("(%s, %s)", c14OpCoq(o, ttl), ob))
				continue
			}
			due := w.armEnd[p].Add(w.ttlOf[p]) // the timer fires no later than this (plus latency)
			if due.Sub(start.Add(d)) > grid/4 || due.Before(start.Add(d).Add(-time.Millisecond)) {
				ok = false
			}
			advanceAt(d-1, d-grid/5)
			c14SleepUntil(due.Add(-8 * time.Millisecond))
			w.td.mu.Lock()
			var ret bool
			doneX := make(chan struct{})
			go func() { ret = w.exec(o, ttl); close(doneX) }()
			time.Sleep(2 * time.Millisecond)
			var snapY string
			var nY int
			doneY := make(chan struct{})
			go func() {
				w.td.mu.Lock()
				snapY = c14DataCoq(w.td.data)
				nY = w.rec.length()
				w.td.mu.Unlock()
				close(doneY)
			}()
			c14SleepUntil(due.Add(12 * time.Millisecond))
			w.td.mu.Unlock()
			<-doneX
			<-doneY
			time.Sleep(3 * time.Millisecond)
			w.noteTimers(time.Now(), ttl)
			recsX := w.rec.slice(w.pos, nY)
			w.pos = nY
			trace = append(trace, fmt.Sprintf("(%s, (%s, %s, %s))", c14OpCoq(o, ttl), coqBool(ret), c14OutsCoq(recsX), snapY))
			ob, _ := w.observe(false)
			trace = append(trace, fmt.Sprintf("(OFireLate %d, %s)", tid, ob))
			if time.Now().Sub(start.Add(d)) > grid*2/5 {
				ok = false
			}
			continue
		}
		t := time.Duration(o.At)*grid + grid/2
		advance(t)
		t0 := time.Now()
		if t0.Sub(start.Add(t)) > grid/4 {
			ok = false
		}
		if o.Slow > 0 {
			// the delivery of the first message to that listener lasts until a fifth of a grid
			// after the next grid point: what is due at that grid point happens meanwhile (or,
			// the store's mutex being held during the delivery, right afterwards)
			L := w.armSlow(o.Slow - 1)
			var ret bool
			doneP := make(chan struct{})
			go func() { ret = w.exec(o, ttl); close(doneP) }()
			blocked := false
			select {
			case <-L.entered:
				blocked = true
			case <-doneP:
				L.slowArmed.Store(false)
			}
			if blocked {
				snap, _ := w.dataNow()
				n := w.rec.length()
				recs := w.rec.slice(w.pos, n)
				w.pos = n
				until := start.Add(time.Duration(o.At+1)*grid + grid/5)
				c14SleepUntil(until)
				close(L.release)
				<-doneP
				if time.Since(until) > grid/8 {
					ok = false
				}
				w.noteTimers(time.Now(), ttl)
				trace = append(trace, fmt.Sprintf("(%s, (%s, %s, %s))", c14OpCoq(o, ttl), coqBool(ret), c14OutsCoq(recs), snap))
				continue
			}
			t1 := time.Now()
			if t1.Sub(start.Add(t)) > grid/4 {
				ok = false
			}
			w.noteTimers(t1, ttl)
			ob, _ := w.observe(ret)
			trace = append(trace, fmt.Sprintf("(%s, %s)", c14OpCoq(o, ttl), ob))
			continue
		}
		ret := w.exec(o, ttl)
		t1 := time.Now()
		if t1.Sub(start.Add(t)) > grid/4 {
			ok = false
		}
		w.noteTimers(t1, ttl)
		ob, _ := w.observe(ret)
		trace = append(trace, fmt.Sprintf("(%s, %s)", c14OpCoq(o, ttl), ob))
	}
	advance(time.Duration(c.End)*grid + grid/2)
	if len(w.rec.bad) > 0 {
		ok = false
	}
	return
}

// executes the case twice (concurrently); both executions must be on time and
// agree, otherwise the case is executed again.  Returns nil if that never happens.
func c14RunGridStable(c *c14Case, grid time.Duration, attempts int) ([]string, int, int) {
	for a := 0; a < attempts; a++ {
		var tr [2][]string
		var ok [2]bool
		var ex [2]int
		var wg sync.WaitGroup
		for i := 0; i < 2; i++ {
			wg.Add(1)
			go func(i int) {
				defer wg.Done()
				tr[i], ok[i], ex[i] = c14RunGrid(c, grid)
			}(i)
		}
		wg.Wait()
		if ok[0] && ok[1] && strings.Join(tr[0], ";") == strings.Join(tr[1], ";") {
			return tr[0], ex[0], a
		}
	}
	return nil, 0, attempts
}

func c14GenGrid(r *vrng, id int) *c14Case {
	c := &c14Case{Id: id, Kind: "grid"}
	nkeys := 1 + r.intn(3)
	vals := pick(r, [][]int{{0, 1}, {0, 1, 24}, {2, 3, 5}, {14, 15, 16}, {0, 29, 33}})
	used := map[int]bool{} // grid points that already are some timer's deadline
	slot := 0
	n := 3 + r.intn(9)
	last := 0
	for i := 0; i < n; i++ {
		if i > 0 {
			slot += 1 + r.intn(100)/70 // mostly consecutive slots
		}
		o := c14Op{At: slot, Key: r.intn(nkeys), V: pick(r, vals), Old: pick(r, vals), L: r.intn(3)}
		ttlFor := func() int64 {
			if r.chance(35) {
				return 0
			}
			for try := 0; try < 6; try++ {
				u := int64(1 + 2*r.intn(4)) // 1,3,5,7 half grids
				dl := slot + int(u+1)/2
				if !used[dl] {
					used[dl] = true
					if dl > last {
						last = dl
					}
					return u
				}
			}
			return 0
		}
		x := r.intn(100)
		switch {
		case i == 0 && r.chance(60):
			o.K = "addl"
		case x < 50:
			o.K = "set"
			o.TTL = ttlFor()
		case x < 56:
			o.K = "setnt"
		case x < 70:
			o.K = "cas"
			if r.chance(30) {
				o.Old = -1
			}
			o.TTL = ttlFor()
		case x < 78:
			o.K = "remove"
		case x < 84:
			o.K = "casremove"
		case x < 94:
			o.K = "addl"
		default:
			o.K = "removel"
		}
		c.Ops = append(c.Ops, o)
	}
	c.End = slot + 1
	if last+1 > c.End {
		c.End = last + 1
	}
	if c.End > slot+5 {
		c.End = slot + 5
	}
	return c
}

// the histories that go wrong without fixes/C14/01-stale-ttl-timer.patch, and relatives
func c14Directed() []*c14Case {
	A, B := 0, 1
	mk := func(note string, end int, ops ...c14Op) *c14Case {
		return &c14Case{Kind: "grid", End: end, Ops: ops, Note: note}
	}
	return []*c14Case{
		mk("witness clear: SetTTL(k,A,ttl); SetTTL(k,A,0)", 4,
			c14Op{K: "addl", At: 0, L: 1}, c14Op{K: "set", At: 1, Key: 1, V: A, Old: -1, TTL: 3}, c14Op{K: "set", At: 2, Key: 1, V: A, Old: -1, TTL: 0}),
		mk("witness clear through Set(): SetTTL(k,A,ttl); Set(k,A)", 4,
			c14Op{K: "addl", At: 0, L: 1}, c14Op{K: "set", At: 1, Key: 1, V: A, Old: -1, TTL: 3}, c14Op{K: "setnt", At: 2, Key: 1, V: A, Old: -1}),
		mk("witness aba: SetTTL(k,A,ttl); Set(k,B); Set(k,A)", 5,
			c14Op{K: "addl", At: 0, L: 1}, c14Op{K: "set", At: 1, Key: 1, V: A, Old: -1, TTL: 5}, c14Op{K: "setnt", At: 2, Key: 1, V: B, Old: -1}, c14Op{K: "setnt", At: 3, Key: 1, V: A, Old: -1}),
		mk("witness aba through compare-and-set", 5,
			c14Op{K: "addl", At: 0, L: 1}, c14Op{K: "cas", At: 1, Key: 1, V: A, Old: -1, TTL: 5}, c14Op{K: "casnt", At: 2, Key: 1, V: B, Old: A}, c14Op{K: "casnt", At: 3, Key: 1, V: A, Old: B}),
		mk("witness remove and set again: SetTTL(k,A,ttl); Set(k,B); Remove(k) ... Set(k,A)", 6,
			c14Op{K: "set", At: 0, Key: 1, V: A, Old: -1, TTL: 7}, c14Op{K: "setnt", At: 1, Key: 1, V: B, Old: -1}, c14Op{K: "remove", At: 2, Key: 1}, c14Op{K: "setnt", At: 3, Key: 1, V: A, Old: -1}, c14Op{K: "addl", At: 3, L: 2}),
		mk("witness late: the callback waits for the mutex while SetTTL extends", 5,
			c14Op{K: "addl", At: 0, L: 1}, c14Op{K: "set", At: 1, Key: 1, V: A, Old: -1, TTL: 1}, c14Op{K: "late", At: 2, Key: 1, V: A, Old: -1, TTL: 2}),
		mk("late: the callback waits while Set clears the ttl", 4,
			c14Op{K: "addl", At: 0, L: 1}, c14Op{K: "set", At: 1, Key: 1, V: A, Old: -1, TTL: 1}, c14Op{K: "late", At: 2, Key: 1, V: A, Old: -1, TTL: 0}),
		mk("late: the callback waits while the value is replaced", 4,
			c14Op{K: "addl", At: 0, L: 1}, c14Op{K: "set", At: 1, Key: 1, V: A, Old: -1, TTL: 1}, c14Op{K: "late", At: 2, Key: 1, V: B, Old: -1, TTL: 0}),
		mk("a value expires while a listener joins", 3,
			c14Op{K: "addl", At: 0, L: 1}, c14Op{K: "set", At: 0, Key: 1, V: A, Old: -1, TTL: 3}, c14Op{K: "setnt", At: 0, Key: 2, V: B, Old: -1},
			c14Op{K: "addl", At: 1, L: 2, Slow: 3}),
		mk("two values expire, the second while a listener joins; then a set", 5,
			c14Op{K: "set", At: 0, Key: 1, V: A, Old: -1, TTL: 1}, c14Op{K: "set", At: 0, Key: 2, V: B, Old: -1, TTL: 5}, c14Op{K: "setnt", At: 0, Key: 3, V: A, Old: -1},
			c14Op{K: "addl", At: 1, L: 1}, c14Op{K: "addl", At: 2, L: 2, Slow: 3}, c14Op{K: "setnt", At: 3, Key: 1, V: B, Old: -1}),
		mk("extend, replace with ttl, expire twice", 7,
			c14Op{K: "addl", At: 0, L: 1}, c14Op{K: "set", At: 0, Key: 1, V: A, Old: -1, TTL: 3}, c14Op{K: "set", At: 1, Key: 1, V: A, Old: -1, TTL: 5}, c14Op{K: "set", At: 2, Key: 2, V: B, Old: -1, TTL: 1},
			c14Op{K: "set", At: 4, Key: 1, V: B, Old: -1, TTL: 1}),
	}
}

// ---- concurrent runs ------------------------------------------------------------------------

func c14Concurrent(env verifEnv, sink *caseSink, round int, id int) {
	r := newVrng(env.seed, uint64(7000000+round))
	w := c14NewWorld()
	defer w.stopAll()
	const nl = 3
	workers := 2 + r.intn(4)
	var joined []int
	for l := 0; l < nl; l++ {
		if r.chance(70) {
			w.td.AddListener(w.listener(l))
			joined = append(joined, l)
		}
	}
	vals := []int{0, 1, 2, 3, 14, 15, 29, 30}
	var wg sync.WaitGroup
	opsPer := 12 + r.intn(30)
	var lateJoin []int
	for l := 0; l < nl; l++ {
		found := false
		for _, j := range joined {
			found = found || j == l
		}
		if !found {
			lateJoin = append(lateJoin, l)
		}
	}
	for wk := 0; wk < workers; wk++ {
		wg.Add(1)
		rr := newVrng(env.seed, uint64(7100000+round*16+wk))
		go func(wk int) {
			defer wg.Done()
			for i := 0; i < opsPer; i++ {
				o := c14Op{Key: rr.intn(3), V: pick(rr, vals), Old: pick(rr, vals)}
				var ttl time.Duration
				if rr.chance(40) {
					ttl = time.Duration(200+rr.intn(3000)) * time.Microsecond
				}
				switch x := rr.intn(100); {
				case x < 45:
					o.K = "set"
				case x < 65:
					o.K = "cas"
					if rr.chance(30) {
						o.Old = -1
					}
				case x < 80:
					o.K = "remove"
				default:
					o.K = "casremove"
				}
				w.exec(o, ttl)
				if rr.chance(10) {
					time.Sleep(time.Duration(rr.intn(1500)) * time.Microsecond)
				}
			}
		}(wk)
	}
	// listeners that join while the workers run
	wg.Add(1)
	go func() {
		defer wg.Done()
		for _, l := range lateJoin {
			time.Sleep(time.Duration(300+r.intn(2000)) * time.Microsecond)
			// a receiver that takes a while for the initial data
			w.listener(l).initialDelay = time.Duration(200*(l+1)) * time.Microsecond
			w.td.AddListener(w.listener(l))
		}
	}()
	// consistent cuts: messages are sent while the store's mutex is held
	var cuts []string
	cut := func() {
		w.td.mu.Lock()
		snap := c14DataCoq(w.td.data)
		var ls []string
		for l := range w.td.listeners {
			ls = append(ls, fmt.Sprintf("(OAddL %d, (false, [], []))", l.(*c14Listener).id))
		}
		sort.Strings(ls)
		n := w.rec.length()
		w.td.mu.Unlock()
		cuts = append(cuts, fmt.Sprintf("mkcase %d 2 %s", id+len(cuts), coqList(append(ls, fmt.Sprintf("(OAdvance 0, (false, %s, %s))", c14OutsCoq(w.rec.slice(0, n)), snap)))))
	}
	done := make(chan struct{})
	go func() { wg.Wait(); close(done) }()
	for i := 0; i < 1; i++ {
		time.Sleep(time.Duration(300+r.intn(1500)) * time.Microsecond)
		select {
		case <-done:
		default:
			cut()
		}
	}
	<-done
	time.Sleep(8 * time.Millisecond) // pending timers (at most 3.2 ms) fire
	cut()
	for i, c := range cuts {
		sink.add(c, map[string]interface{}{"id": id + i, "kind": "concurrent", "round": round, "workers": workers, "ops": []int{}}, true, c)
		sink.count("concurrent_cuts")
	}
	for _, b := range w.rec.bad {
		sink.violation(id, b, map[string]interface{}{"kind": "concurrent", "round": round})
	}
}

// ---- the scenario ------------------------------------------------------------------------------

func TestVerifC14(t *testing.T) {
	env := getVerifEnv(t, "C14")
	c14InitPool()
	sink := newCaseSink(t, env, "C14", "corr.Run_C14", 50)
	grid := c14Grid()

	emitQuiet := func(c *c14Case) {
		trace, changes := c14RunQuiet(c)
		sink.count("quiet_cases")
		for _, o := range c.Ops {
			sink.count("quiet_op_" + o.K)
		}
		sink.count(fmt.Sprintf("quiet_len_%02d-%02d", len(trace)/10*10, len(trace)/10*10+9))
		sink.add(fmt.Sprintf("mkcase %d 0 %s", c.Id, coqList(trace)), c, changes >= 3, strings.Join(trace, ";"))
	}
	emitGrid := func(cs []*c14Case, attempts int, must bool) {
		type res struct {
			trace    []string
			expiries int
			tries    int
		}
		out := make([]res, len(cs))
		var wg sync.WaitGroup
		for i := range cs {
			wg.Add(1)
			go func(i int) {
				defer wg.Done()
				// spread the cases over the grid period
				time.Sleep(time.Duration(i%50) * grid / 50)
				tr, ex, tries := c14RunGridStable(cs[i], grid, attempts)
				out[i] = res{tr, ex, tries}
			}(i)
		}
		wg.Wait()
		for i, c := range cs {
			sink.stats.Histogram["grid_reexecutions"] += out[i].tries
			if out[i].trace == nil {
				sink.count("grid_dropped_not_on_time")
				if must {
					t.Errorf("C14: directed case %d (%s) could not be executed on time in %d attempts", c.Id, c.Note, attempts)
				}
				continue
			}
			sink.count("grid_cases")
			for _, o := range c.Ops {
				sink.count("grid_op_" + o.K)
			}
			if out[i].expiries > 0 {
				sink.count("grid_cases_with_expiry")
			}
			sink.add(fmt.Sprintf("mkcase %d 0 %s", c.Id, coqList(out[i].trace)), c, out[i].expiries > 0, strings.Join(out[i].trace, ";"))
		}
	}

	emitSlow := func(cs []*c14Case) {
		type res struct {
			trace                  []string
			changes, blocks, early int
			bad                    []string
		}
		out := make([]res, len(cs))
		var wg sync.WaitGroup
		sem := make(chan struct{}, 8)
		for i := range cs {
			wg.Add(1)
			go func(i int) {
				defer wg.Done()
				sem <- struct{}{}
				defer func() { <-sem }()
				var r res
				r.trace, r.changes, r.blocks, r.early, r.bad = c14RunSlow(cs[i])
				out[i] = r
			}(i)
		}
		wg.Wait()
		for i, c := range cs {
			sink.count("slow_cases")
			sink.stats.Histogram["slow_deliveries_forced"] += out[i].blocks
			sink.stats.Histogram["slow_operation_got_through_during_delivery"] += out[i].early
			for _, o := range c.Ops {
				if o.Slow > 0 {
					sink.count("slow_op_" + o.K)
				}
			}
			sink.add(fmt.Sprintf("mkcase %d 0 %s", c.Id, coqList(out[i].trace)), c, out[i].blocks > 0 && out[i].changes >= 3, strings.Join(out[i].trace, ";"))
			for _, b := range out[i].bad {
				sink.violation(c.Id, b, c)
			}
		}
	}

	if env.replay != "" {
		var cs []c14Case
		readReplay(t, env.replay, &cs)
		var gridCases, slowCases []*c14Case
		for i := range cs {
			switch cs[i].Kind {
			case "quiet":
				emitQuiet(&cs[i])
			case "grid":
				gridCases = append(gridCases, &cs[i])
			case "slow":
				slowCases = append(slowCases, &cs[i])
			}
		}
		emitSlow(slowCases)
		emitGrid(gridCases, 8, false)
		sink.close("replay")
		return
	}

	// reflect.DeepEqual against the model's structural equality, whole pool
	var vals, tbl []string
	for i, a := range c14Pool {
		vals = append(vals, a.coq)
		for j, b := range c14Pool {
			tbl = append(tbl, fmt.Sprintf("(%d%%N, %d%%N, %s)", i, j, coqBool(reflect.DeepEqual(a.v, b.v))))
		}
	}
	sink.extraFile("eq", "From Coq Require Import List ZArith NArith.\nFrom Verif Require Import corr.Run_C14.\nImport ListNotations.\nOpen Scope Z_scope.\n"+
		"Definition result := Eval vm_compute in eq_mismatches "+coqList(vals)+" "+coqList(tbl)+".\nPrint result.\n")
	sink.stats.Histogram["deep_equal_pairs"] = len(tbl)

	nQuiet, nGrid, nConc := 300, 120, 12
	if env.thorough() {
		nQuiet, nGrid, nConc = 5000, 1600, 250
	}
	id := 0
	for i := 0; i < nQuiet; i++ {
		emitQuiet(c14GenQuiet(newVrng(env.seed, uint64(i)), id))
		id++
	}
	// forced schedule: operations issued while a listener is still receiving (ids from 4000000)
	nSlow := 60
	if env.thorough() {
		nSlow = 1000
	}
	slow := c14DirectedSlow()
	for i, c := range slow {
		c.Id = 4000000 + i
	}
	for i := 0; i < nSlow; i++ {
		slow = append(slow, c14GenHistory(newVrng(env.seed, uint64(3000000+i)), 4000100+i, "slow", 22))
	}
	emitSlow(slow)
	directed := c14Directed()
	for _, c := range directed {
		c.Id = id
		id++
	}
	emitGrid(directed, 12, true)
	for base := 0; base < nGrid; base += 400 {
		var cs []*c14Case
		for i := base; i < nGrid && i < base+400; i++ {
			cs = append(cs, c14GenGrid(newVrng(env.seed, uint64(1000000+i)), id))
			id++
		}
		emitGrid(cs, 4, false)
	}
	if d := sink.stats.Histogram["grid_dropped_not_on_time"]; d*4 > nGrid {
		t.Errorf("C14: %d of %d grid cases could not be executed on time (machine too loaded for a %v grid; set VERIF_C14_GRID_MS)", d, nGrid, grid)
	}
	sink.flush()
	for round := 0; round < nConc; round++ {
		c14Concurrent(env, sink, round, 5000000+round*8)
		if round%4 == 3 {
			sink.flush()
		}
	}
	sink.stats.Notes = append(sink.stats.Notes, fmt.Sprintf("grid %v; grid cases executed twice and emitted only when both executions were on time and identical", grid))
	sink.close("slow: a listener whose reception of the initial data / of a notification is held, the next operation of the history issued meanwhile (forced schedule; the trace lists what happened in the order it happened), non-trivial = a delivery was held and at least three changes; quiet: seeded histories of set/cas/remove/listener operations on the real TransientData (ttl none, hours, zero, negative), non-trivial = at least three changes; grid: real timers, operations at half-grid offsets, deadlines on grid points, non-trivial = at least one expiry; late: callback forced to wait for the mutex; concurrent: consistent cuts of several goroutines judged by the replica part; distinct = distinct traces")
}
