//go:build verif

package signaling

import (
	"fmt"
	"strings"
	"testing"
)

// ---- per-property scenarios on the hub driver -----------------------------------

type hdProp struct {
	id       string
	opts     func(i int) hdGenOpts
	quick    int
	thorough int
	minOps   int
	directed func() []*hdCase
	nontrivial func(c *hdCase, trace string) bool
	extra      func(t *testing.T, env verifEnv, sink *caseSink) // further observations on the real code (reported as direct violations)
}

func hdHas(trace, needle string) bool { return strings.Contains(trace, needle) }

func hdRunProperty(t *testing.T, p hdProp) {
	env := getVerifEnv(t, p.id)
	hdQuiet()
	sink := newCaseSink(t, env, p.id, "corr.Run_"+p.id, 10)
	sink.scope = "N_scope"
	var cases []*hdCase
	if env.replay != "" {
		var cs []hdCase
		readReplay(t, env.replay, &cs)
		for i := range cs {
			cases = append(cases, &cs[i])
		}
	} else {
		if p.directed != nil {
			cases = append(cases, p.directed()...)
		}
		n := p.quick
		if env.thorough() {
			n = p.thorough
		}
		for i := 0; i < n; i++ {
			r := newVrng(env.seed, uint64(i)+77*uint64(len(p.id)))
			cases = append(cases, hdGenCase(r, 1000+i, p.opts(i), p.minOps+r.intn(25)))
		}
	}
	for _, c := range cases {
		trace, run := hdRunCase(t, c)
		for _, o := range c.Ops {
			sink.count("op_" + o.K)
		}
		for _, note := range run.notes {
			if strings.HasPrefix(note, "unsettled") || strings.HasPrefix(note, "unknown") {
				sink.count("note_" + strings.Fields(note)[0])
			}
		}
		nt := len(c.Ops) >= 5
		if p.nontrivial != nil {
			nt = p.nontrivial(c, trace)
		}
		if nt {
			sink.count("nontrivial")
		}
		sink.add(hdCaseTerm(c, trace, run), c, nt, trace)
	}
	if p.extra != nil && env.replay == "" {
		p.extra(t, env, sink)
	}
	sink.close(fmt.Sprintf("directed witnesses plus seeded hub histories biased towards %s, executed on the real Hub (real websockets, BackendServer, ClientSession, Room, VirtualSession) with the harness's event bus, fake backend and fake media server; compared step by step with coq/model/Hub.v and judged by the property's trace predicate; distinct = distinct traces", p.id))
}

func hdJoinOp(c, room, rs int) hdOp { return hdOp{K: "join", C: c, R: room, RS: rs, RawRS: true} }
func hdToSession(c int) *hdRecipient {
	return &hdRecipient{T: "session", Id: &hdIdRef{T: "pub", C: c}}
}

// hdHeldJoinCases: the forced schedule "joincut" (the connection is cut while the backend's reply to its room join is
// outstanding; the session is resumed on a new connection before the backend replies; then the backend replies and the
// handler of the cut connection finishes), followed by what must still be true afterwards: the session receives what
// is addressed to it, survives the expiry window with its connection, and can be cut and resumed again.
func hdHeldJoinCases(first int) []*hdCase {
	pre := func() []hdOp {
		return []hdOp{{K: "connect", C: 1}, {K: "connect", C: 2}, {K: "hello", C: 1, B: 0, U: 1}, {K: "hello", C: 2, B: 0, U: 2}, hdJoinOp(1, 1, 1)}
	}
	after := func(c int) []hdOp {
		return []hdOp{{K: "msg", C: 1, To: hdToSession(c), Tag: 41}, {K: "msg", C: 1, To: &hdRecipient{T: "room"}, Tag: 42},
			{K: "tick", O: 15}, {K: "tick", O: 40},
			{K: "msg", C: 1, To: hdToSession(c), Tag: 43}, {K: "msg", C: c, To: &hdRecipient{T: "room"}, Tag: 44},
			{K: "drop", C: c}, {K: "msg", C: 1, To: hdToSession(c), Tag: 45}, {K: "tick", O: 15},
			{K: "connect", C: c + 1}, {K: "hello", C: c + 1, Ht: "resume", Id: &hdIdRef{T: "priv", C: c}},
			{K: "msg", C: 1, To: hdToSession(c + 1), Tag: 46}, {K: "tick", O: 40}, {K: "msg", C: 1, To: hdToSession(c + 1), Tag: 47}}
	}
	mid := []hdOp{{K: "msg", C: 1, To: hdToSession(2), Tag: 31}, {K: "msg", C: 1, To: &hdRecipient{T: "user", U: 2}, Tag: 32}, {K: "ctl", C: 1, To: hdToSession(2), Tag: 33}}
	var out []*hdCase
	add := func(ops []hdOp) {
		out = append(out, &hdCase{Id: first + len(out), Mode: 1, Ops: ops})
	}
	// first join of the session
	add(append(append(pre(), hdOp{K: "joincut", C: 2, C2: 3, R: 1, RS: 2, RawRS: true}), after(3)...))
	// with messages for the session while the join is outstanding (queued, delivered by the resume, in order, once)
	add(append(append(pre(), hdOp{K: "joincut", C: 2, C2: 3, R: 1, RS: 2, RawRS: true, Mid: mid}), after(3)...))
	// a change of rooms, with permissions in the reply
	add(append(append(pre(), hdJoinOp(2, 2, 2), hdOp{K: "joincut", C: 2, C2: 3, R: 1, RS: 2, RawRS: true, HasP: true, Perm: []int{0, 4}, Mid: mid[:1]}), after(3)...))
	// the backend refuses the join: the session stays where it was, with its new connection
	add(append(append(pre(), hdJoinOp(2, 2, 2), hdOp{K: "joincut", C: 2, C2: 3, R: 1, RS: 2, RawRS: true, Err: "not_invited"}), after(3)...))
	// twice in a row, then the second connection is taken over by a third
	add(append(append(pre(), hdOp{K: "joincut", C: 2, C2: 3, R: 1, RS: 2, RawRS: true}, hdOp{K: "joincut", C: 3, C2: 4, R: 2, RS: 2, RawRS: true, Mid: []hdOp{{K: "msg", C: 1, To: hdToSession(3), Tag: 34}}},
		hdOp{K: "connect", C: 5}, hdOp{K: "hello", C: 5, Ht: "resume", Id: &hdIdRef{T: "priv", C: 4}}), after(5)...))
	// joins that do not ask the backend (already in the room; leaving): the same ops one after the other
	add(append(append(pre(), hdJoinOp(2, 1, 2), hdOp{K: "joincut", C: 2, C2: 3, R: 1, RS: 2, RawRS: true}), after(3)...))
	return out
}

// ---- C01 ----
func TestVerifC01(t *testing.T) {
	hdRunProperty(t, hdProp{id: "C01", quick: 90, thorough: 900, minOps: 10,
		opts: func(i int) hdGenOpts { return hdGenOpts{api: i%4 == 0, internal: i%2 == 0, prehello: true, v2: i%3 != 2} },
		nontrivial: func(c *hdCase, tr string) bool { return hdHas(tr, "SHello") && hdHas(tr, "SError") },
		extra:      hdStressResume,
		directed: func() []*hdCase {
			// every request type before hello, then a failing and a succeeding hello of each kind
			pre := []hdOp{{K: "connect", C: 1, Addr: 1},
				hdJoinOp(1, 1, 1), {K: "msg", C: 1, To: &hdRecipient{T: "room"}, Tag: 1}, {K: "ctl", C: 1, To: &hdRecipient{T: "call"}, Tag: 2},
				{K: "internal", C: 1, Ik: "addsession", V: 1, R: 1}, {K: "transient", C: 1, Tk: "set", Key: 1, Tag: 1},
				{K: "media", C: 1, Mk: "offer", Stream: "video", Media: 3, To: &hdRecipient{T: "session", Id: &hdIdRef{T: "other"}}},
				{K: "bye", C: 1}}
			var out []*hdCase
			tails := [][]hdOp{
				{{K: "hello", C: 1, B: 2, U: 1}, {K: "hello", C: 1, B: 0, U: 1, Reject: true}, {K: "hello", C: 1, B: 0, U: 1}, hdJoinOp(1, 1, 1)},
				{{K: "hello", C: 1, Ht: "internal", B: 0, Tok: 1}, {K: "hello", C: 1, Ht: "internal", B: 0, Tok: 2}, {K: "hello", C: 1, Ht: "internal", B: 0, Tok: 3},
					{K: "hello", C: 1, Ht: "internal", B: 3}, {K: "hello", C: 1, Ht: "internal", B: 1}, hdJoinOp(1, 2, 0)},
				{{K: "hello", C: 1, Ht: "resume", Id: &hdIdRef{T: "other", O: 0}}, {K: "hello", C: 1, Ht: "resume", Id: &hdIdRef{T: "other", O: 4}},
					{K: "connect", C: 2}, {K: "hello", C: 2, B: 1, U: 2}, {K: "hello", C: 1, Ht: "resume", Id: &hdIdRef{T: "pub", C: 2}},
					{K: "hello", C: 1, Ht: "resume", Id: &hdIdRef{T: "priv", C: 2, M: 1}}, {K: "hello", C: 1, Ht: "resume", Id: &hdIdRef{T: "priv", C: 2}}},
			}
			for i, tl := range tails {
				out = append(out, &hdCase{Id: i, Mode: 1, Backends: []hdBackendCfg{{}, {}}, Ops: append(append([]hdOp{}, pre...), tl...)})
			}
			// protocol 2.0: four tenants (0 and 3 publish RSA keys, 1 ECDSA, 2 Ed25519); every signing method, every
			// signer, the time claims around the leeway, absent claims; then one good token per tenant
			var v2 []hdOp
			v2 = append(v2, hdOp{K: "connect", C: 1, Addr: 1})
			ip := hdIntp
			for alg := 0; alg < len(hdV2Algs); alg++ {
				for signer := 0; signer <= 4; signer++ {
					v2 = append(v2, hdOp{K: "hello", C: 1, B: 0, U: 1, V2: &hdV2Tok{Alg: alg, Signer: signer, Iat: ip(-10), Exp: ip(300)}})
					if signer == 1 && alg < 3 {
						// accepted: the connection has a session now; end it and go on
						v2 = append(v2, hdOp{K: "bye", C: 1}, hdOp{K: "connect", C: 1, Addr: 1})
					}
				}
			}
			for _, b := range []int{1, 2, 3} {
				v2 = append(v2, hdOp{K: "hello", C: 1, B: b, U: 2, V2: &hdV2Tok{Alg: 0, Signer: 1, Iat: ip(-10), Exp: ip(300)}}) // tenant 0's key for tenant b
			}
			times := []hdV2Tok{
				{Iat: ip(-400), Exp: ip(-70)}, {Iat: ip(-400), Exp: ip(-50)}, {Iat: ip(70), Exp: ip(400)}, {Iat: ip(50), Exp: ip(400)},
				{Iat: ip(-10), Nbf: ip(70), Exp: ip(400)}, {Iat: ip(-10), Nbf: ip(50), Exp: ip(400)}, {Exp: ip(400)}, {Iat: ip(-10)},
				{Iat: ip(-10), Exp: ip(-20)}, {}, {Iat: ip(70), Exp: ip(-70)},
			}
			for _, tm := range times {
				tm.Alg, tm.Signer = 3, 2
				t := tm
				v2 = append(v2, hdOp{K: "hello", C: 1, B: 1, U: 3, V2: &t})
				if t.Iat != nil && t.Exp != nil && *t.Iat <= 60 && *t.Exp > -60 && *t.Iat <= *t.Exp && (t.Nbf == nil || *t.Nbf <= 60) {
					v2 = append(v2, hdOp{K: "bye", C: 1}, hdOp{K: "connect", C: 1, Addr: 1})
				}
			}
			v2 = append(v2, hdOp{K: "hello", C: 1, B: 4, U: 1, V2: &hdV2Tok{Alg: 0, Signer: 1, Iat: ip(-10), Exp: ip(300)}}, // unconfigured URL
				hdOp{K: "hello", C: 1, B: 2, U: 1, V2: &hdV2Tok{Alg: 6, Signer: 3, Iat: ip(-10), Exp: ip(300)}}, hdJoinOp(1, 1, 1))
			out = append(out, &hdCase{Id: len(out), Mode: 1, Backends: []hdBackendCfg{{}, {}, {}, {}}, Ops: v2})
			// a server without an internal secret: no internal client can log in, whatever token it computes
			// (in particular not the one keyed with the empty string); ordinary clients are unaffected
			out = append(out, &hdCase{Id: len(out), Mode: 1, Backends: []hdBackendCfg{{NoInternalSecret: true}, {}}, Ops: []hdOp{
				{K: "connect", C: 1, Addr: 1}, {K: "hello", C: 1, Ht: "internal", B: 0}, {K: "hello", C: 1, Ht: "internal", B: 1, Feat: []string{ClientFeatureInternalInCall}},
				{K: "hello", C: 1, Ht: "internal", B: 0, Tok: 2}, {K: "hello", C: 1, Ht: "internal", B: 3}, hdJoinOp(1, 1, 0),
				{K: "hello", C: 1, B: 0, U: 1}, hdJoinOp(1, 1, 1), {K: "connect", C: 2, Addr: 1}, {K: "hello", C: 2, Ht: "internal", B: 0}}})
			return out
		}})
}

// ---- C03 ----
func TestVerifC03(t *testing.T) {
	hdRunProperty(t, hdProp{id: "C03", quick: 110, thorough: 1100, minOps: 16,
		opts: func(i int) hdGenOpts { return hdGenOpts{api: true, internal: i%3 == 0, media: i%5 == 0, twoTenants: true} },
		nontrivial: func(c *hdCase, tr string) bool { return hdHas(tr, "SHello") && (hdHas(tr, "SMsg") || hdHas(tr, "OApi")) },
		directed: func() []*hdCase {
			base := []hdOp{{K: "connect", C: 1}, {K: "connect", C: 2}, {K: "hello", C: 1, B: 0, U: 1}, {K: "hello", C: 2, B: 1, U: 1}}
			// same room id, same user id, foreign public ids on both tenants: nothing crosses
			clean := append(append([]hdOp{}, base...), hdJoinOp(1, 1, 1), hdJoinOp(2, 1, 2),
				hdOp{K: "msg", C: 1, To: &hdRecipient{T: "room"}, Tag: 1}, hdOp{K: "msg", C: 1, To: &hdRecipient{T: "user", U: 1}, Tag: 2},
				hdOp{K: "msg", C: 1, To: hdToSession(2), Tag: 3}, hdOp{K: "ctl", C: 1, To: hdToSession(2), Tag: 4},
				hdOp{K: "ctl", C: 2, To: &hdRecipient{T: "call"}, Tag: 5}, hdOp{K: "transient", C: 1, Tk: "set", Key: 1, Tag: 1},
				hdOp{K: "api", B: 1, SignAs: 1, R: 1, Api: "message", Tag: 6}, hdOp{K: "api", B: 1, SignAs: 1, R: 1, Api: "incallall", InCall: 1},
				hdOp{K: "api", B: 0, SignAs: 0, R: 1, Api: "delete"})
			// known finding: the room-session map is shared by all backends
			kick := append(append([]hdOp{}, base...), hdJoinOp(1, 1, 5), hdJoinOp(2, 7, 5))
			grant := append(append([]hdOp{}, base...), hdJoinOp(1, 1, 5),
				hdOp{K: "api", B: 1, SignAs: 1, R: 9, Api: "participants", RawRS: true, Users: []hdApiUser{{RS: 5, HasP: true, Perm: []int{4, 3}}}})
			// virtual sessions are reached through their internal client's connection: not from another tenant either
			virt := []hdOp{{K: "connect", C: 1}, {K: "connect", C: 2}, {K: "connect", C: 3},
				{K: "hello", C: 1, Ht: "internal", B: 0}, {K: "hello", C: 2, B: 1, U: 1}, {K: "hello", C: 3, Ht: "internal", B: 1},
				hdJoinOp(1, 1, 0), {K: "internal", C: 1, Ik: "addsession", V: 1, R: 1, U: 2},
				hdJoinOp(2, 1, 4),
				{K: "msg", C: 2, To: &hdRecipient{T: "session", Id: &hdIdRef{T: "vpub", C: 1, V: 1}}, Tag: 11},
				{K: "ctl", C: 2, To: &hdRecipient{T: "session", Id: &hdIdRef{T: "vpub", C: 1, V: 1}}, Tag: 12},
				{K: "ctl", C: 3, To: &hdRecipient{T: "session", Id: &hdIdRef{T: "vpub", C: 1, V: 1}}, Tag: 13},
				{K: "msg", C: 3, To: &hdRecipient{T: "session", Id: &hdIdRef{T: "pub", C: 1}}, Tag: 14},
				{K: "ctl", C: 3, To: &hdRecipient{T: "session", Id: &hdIdRef{T: "pub", C: 1}}, Tag: 15},
				// a participants request of tenant 1 naming public session ids of tenant 0 (that joined with a Nextcloud session id)
				{K: "connect", C: 4}, {K: "hello", C: 4, B: 0, U: 3}, hdJoinOp(4, 1, 6),
				{K: "api", B: 1, SignAs: 1, R: 1, Api: "participants", Users: []hdApiUser{{Id: &hdIdRef{T: "pub", C: 4}, InCall: 1, HasP: true, Perm: []int{4}}}},
				{K: "api", B: 1, SignAs: 1, R: 1, Api: "incall", Users: []hdApiUser{{Id: &hdIdRef{T: "pub", C: 4}, InCall: 7}}},
				{K: "api", B: 1, SignAs: 1, R: 1, Api: "disinvite", Users: []hdApiUser{{Id: &hdIdRef{T: "pub", C: 4}}}}}
			// dial-out requests of the room API go to the dial-out client of the REQUEST'S tenant: tenant 0 has one,
			// tenant 1 asks (nobody gets it); tenant 1 gets its own (that one gets it); malformed requests, a request
			// signed by the other tenant, a client that joined a room / lost its connection / resumed
			dfeat := []string{ClientFeatureStartDialout}
			dial := func(b, room, variant int) hdOp { return hdOp{K: "api", B: b, SignAs: b, R: room, Api: "dialout", Tag: variant} }
			wrong := dial(1, 8, 0)
			wrong.SignAs = 0
			dialout := []hdOp{{K: "connect", C: 1}, {K: "connect", C: 2}, {K: "connect", C: 3},
				{K: "hello", C: 1, Ht: "internal", B: 0, Feat: dfeat}, {K: "hello", C: 3, B: 1, U: 1},
				dial(1, 5, 0), dial(0, 5, 0), dial(0, 5, 1), dial(0, 5, 2), dial(0, 5, 3),
				{K: "hello", C: 2, Ht: "internal", B: 1, Feat: dfeat},
				dial(1, 6, 0), dial(0, 7, 0), wrong,
				hdJoinOp(1, 1, 0), dial(0, 9, 0), dial(1, 9, 0), hdJoinOp(1, 0, 0), dial(0, 10, 0),
				{K: "drop", C: 2}, dial(1, 11, 0),
				{K: "connect", C: 4}, {K: "hello", C: 4, Ht: "resume", Id: &hdIdRef{T: "priv", C: 2}}, dial(1, 12, 0), dial(0, 12, 0),
				{K: "bye", C: 4}, dial(1, 13, 0)}
			// a session of the other tenant that is waiting for a resume (connection lost, no bye) is not addressable either:
			// nothing is queued for it across tenants, by session id or by user id, as message or as control message
			offl := append(append([]hdOp{}, base...), hdOp{K: "connect", C: 3}, hdOp{K: "hello", C: 3, B: 0, U: 3}, hdJoinOp(1, 1, 1), hdJoinOp(2, 1, 2),
				hdOp{K: "drop", C: 2},
				hdOp{K: "msg", C: 1, To: hdToSession(2), Tag: 31}, hdOp{K: "ctl", C: 1, To: hdToSession(2), Tag: 32},
				hdOp{K: "msg", C: 1, To: &hdRecipient{T: "user", U: 1}, Tag: 33}, hdOp{K: "msg", C: 1, To: &hdRecipient{T: "room"}, Tag: 34},
				hdOp{K: "connect", C: 4}, hdOp{K: "hello", C: 4, Ht: "resume", Id: &hdIdRef{T: "priv", C: 2}},
				hdOp{K: "drop", C: 3}, hdOp{K: "msg", C: 1, To: hdToSession(3), Tag: 35},
				hdOp{K: "connect", C: 5}, hdOp{K: "hello", C: 5, Ht: "resume", Id: &hdIdRef{T: "priv", C: 3}})
			return []*hdCase{
				{Id: 0, Mode: 1, Ops: clean},
				{Id: 7, Mode: 1, Ops: offl},
				{Id: 4, Mode: 1, Ops: dialout},
				{Id: 3, Mode: 1, Ops: virt},
				{Id: 1, Mode: 1, Ops: kick, Finding: "C03/room-session-map/global-kick"},
				{Id: 2, Mode: 1, Ops: grant, Finding: "C03/room-session-map/global-api"},
			}
		}})
}

// ---- C04 ----
func TestVerifC04(t *testing.T) {
	hdRunProperty(t, hdProp{id: "C04", quick: 110, thorough: 1100, minOps: 18,
		opts: func(i int) hdGenOpts { return hdGenOpts{api: true, internal: i%4 == 0, rooms: true} },
		nontrivial: func(c *hdCase, tr string) bool { return hdHas(tr, "SJoin") && (hdHas(tr, "SLeave") || hdHas(tr, "SBye")) },
		directed: func() []*hdCase {
			// known finding: cross-subject reordering (room subject before session subject) leaves a ghost member
			// in the joiner's view. A=1, C=2 in the room, B=3 joins; the list for B is computed while C is
			// still there; C leaves; B gets "leave C" (room subject) before "join A,C" (its session subject).
			ghost := []hdOp{{K: "connect", C: 1}, {K: "connect", C: 2}, {K: "connect", C: 3},
				{K: "hello", C: 1, B: 0, U: 1}, {K: "hello", C: 2, B: 0, U: 2}, {K: "hello", C: 3, B: 0, U: 3},
				hdJoinOp(1, 1, 1), {K: "drain"}, hdJoinOp(2, 1, 2), {K: "drain"},
				hdJoinOp(3, 1, 3),
				{K: "deliversubj", Sk: "room"},        // join[B] to everybody
				{K: "deliversubj", Sk: "backendroom"}, // sessionjoined B: the list [A, C] is published to B's session subject
				hdJoinOp(2, 0, 0),                     // C leaves: leave[C] on the room subject
				{K: "deliversubj", Sk: "room"},        // B sees leave[C] first
				{K: "drain"}}
			// second witness (found by the proof of the quiescent case): publication order alone is not enough either.
			// A joins room 1 and switches to room 2 before the "session joined" notice of its first join is processed;
			// that notice then sends A the members of room 1 (it does not name the room), and A's view of room 2 has a ghost.
			stale := []hdOp{{K: "connect", C: 1}, {K: "connect", C: 2},
				{K: "hello", C: 1, B: 0, U: 1}, {K: "hello", C: 2, B: 0, U: 2},
				hdJoinOp(2, 1, 2), {K: "drain"},
				hdJoinOp(1, 1, 1), hdJoinOp(1, 2, 1),
				{K: "drain"}}
			// requests of the backend for one room that overtake each other on the bus: each kind keeps its own
			// "newer than the last one of this kind" rule, so a delete is not dropped because a later message came first
			over := []hdOp{{K: "connect", C: 1}, {K: "connect", C: 2}, {K: "hello", C: 1, B: 0, U: 1}, {K: "hello", C: 2, B: 0, U: 2},
				hdJoinOp(1, 1, 1), {K: "drain"}, hdJoinOp(2, 1, 2), {K: "drain"},
				{K: "api", B: 0, SignAs: 0, R: 1, Api: "delete"},
				{K: "api", B: 0, SignAs: 0, R: 1, Api: "message", Tag: 9},
				{K: "deliver", Subj: 1}, // the message first
				{K: "drain"}}
			over2 := []hdOp{{K: "connect", C: 1}, {K: "connect", C: 2}, {K: "hello", C: 1, B: 0, U: 1}, {K: "hello", C: 2, B: 0, U: 2},
				hdJoinOp(1, 1, 1), {K: "drain"}, hdJoinOp(2, 1, 2), {K: "drain"},
				{K: "api", B: 0, SignAs: 0, R: 1, Api: "update", Tag: 1},
				{K: "api", B: 0, SignAs: 0, R: 1, Api: "incallall", InCall: 7},
				{K: "deliver", Subj: 1},
				{K: "drain"}, {K: "msg", C: 1, To: &hdRecipient{T: "call"}, Tag: 10}, {K: "drain"}}
			// a member whose connection no longer takes writes misses nothing: joins and leaves meanwhile are kept
			// for its resume
			wf := []hdOp{{K: "connect", C: 1}, {K: "connect", C: 2}, {K: "connect", C: 3}, {K: "connect", C: 4},
				{K: "hello", C: 1, B: 0, U: 1}, {K: "hello", C: 2, B: 0, U: 2}, {K: "hello", C: 3, B: 0, U: 3}, {K: "hello", C: 4, B: 0, U: 4},
				hdJoinOp(1, 1, 1), hdJoinOp(2, 1, 2), hdJoinOp(3, 1, 3), {K: "wfail", C: 2},
				hdJoinOp(4, 1, 4), hdJoinOp(3, 0, 0), hdJoinOp(1, 2, 1), hdJoinOp(1, 1, 1),
				{K: "drop", C: 2}, hdJoinOp(3, 1, 3),
				{K: "connect", C: 5}, {K: "hello", C: 5, Ht: "resume", Id: &hdIdRef{T: "priv", C: 2}}, hdJoinOp(4, 0, 0)}
			// a member leaves and joins again while an observer stays; the observer processes the leave only after the member is
			// back (publication order, everything delivered late): it must still end with the member in its view. Twice over,
			// and with the observer's own notices in between.
			late := []hdOp{{K: "connect", C: 1}, {K: "connect", C: 2}, {K: "connect", C: 3},
				{K: "hello", C: 1, B: 0, U: 1}, {K: "hello", C: 2, B: 0, U: 2}, {K: "hello", C: 3, B: 0, U: 3},
				hdJoinOp(1, 1, 1), {K: "drain"}, hdJoinOp(2, 1, 2), {K: "drain"}, hdJoinOp(3, 1, 3), {K: "drain"},
				hdJoinOp(2, 0, 0), hdJoinOp(2, 1, 2), {K: "drain"},
				hdJoinOp(2, 0, 0), hdJoinOp(2, 1, 2), hdJoinOp(3, 0, 0), hdJoinOp(3, 1, 3), {K: "drain"},
				hdJoinOp(2, 2, 2), hdJoinOp(2, 1, 2), {K: "drain"}}
			// the same with the leave delivered first and the join after it, each on its own
			late2 := []hdOp{{K: "connect", C: 1}, {K: "connect", C: 2},
				{K: "hello", C: 1, B: 0, U: 1}, {K: "hello", C: 2, B: 0, U: 2},
				hdJoinOp(1, 1, 1), {K: "drain"}, hdJoinOp(2, 1, 2), {K: "drain"},
				hdJoinOp(2, 0, 0), hdJoinOp(2, 1, 2), {K: "deliversubj", Sk: "room"}, {K: "deliversubj", Sk: "room"}, {K: "drain"},
				{K: "msg", C: 1, To: &hdRecipient{T: "room"}, Tag: 3}, {K: "drain"}}
			// a session that joins later sees everybody who is there: ordinary sessions, the internal client and its virtual
			// sessions, whether they have flags or not
			virtlate := []hdOp{{K: "connect", C: 1}, {K: "connect", C: 2}, {K: "connect", C: 3}, {K: "connect", C: 4},
				{K: "hello", C: 1, Ht: "internal", B: 0}, {K: "hello", C: 2, B: 0, U: 2}, {K: "hello", C: 3, B: 0, U: 3}, {K: "hello", C: 4, B: 0, U: 4},
				hdJoinOp(1, 1, 0), hdJoinOp(2, 1, 2),
				{K: "internal", C: 1, Ik: "addsession", V: 7, R: 1, U: 9},
				{K: "internal", C: 1, Ik: "addsession", V: 8, R: 1, U: 8, Flags: 1},
				hdJoinOp(3, 1, 3),
				{K: "internal", C: 1, Ik: "updatesession", V: 8, R: 1, HasF: true, Flags: 0},
				{K: "internal", C: 1, Ik: "updatesession", V: 7, R: 1, HasF: true, Flags: 2},
				hdJoinOp(4, 1, 4), hdJoinOp(3, 0, 0), hdJoinOp(3, 1, 3)}
			return []*hdCase{{Id: 4, Mode: 1, Ops: wf}, {Id: 2, Mode: 2, Async: true, Ops: over}, {Id: 3, Mode: 2, Async: true, Ops: over2},
				{Id: 5, Mode: 2, Async: true, Ops: late}, {Id: 6, Mode: 2, Async: true, Ops: late2}, {Id: 7, Mode: 1, Ops: virtlate},
				{Id: 0, Mode: 2, Async: true, Ops: ghost, Finding: "C04/observers/cross-subject-reorder"},
				{Id: 1, Mode: 2, Async: true, Ops: stale, Finding: "C04/observers/stale-joined-notice"}}
		}})
}

// ---- C05 ----
func TestVerifC05(t *testing.T) {
	hdRunProperty(t, hdProp{id: "C05", quick: 110, thorough: 1100, minOps: 20,
		opts: func(i int) hdGenOpts { return hdGenOpts{api: i%2 == 0, internal: i%3 == 0, messages: true} },
		nontrivial: func(c *hdCase, tr string) bool { return strings.Count(tr, "SMsg") >= 2 },
		directed: func() []*hdCase {
			// every recipient type after the state it depends on changed: left the call, left the room, came back,
			// second session of the same user, other tenant with the same room and user ids
			all := func(c, tag int) []hdOp {
				return []hdOp{{K: "msg", C: c, To: &hdRecipient{T: "call"}, Tag: tag}, {K: "ctl", C: c, To: &hdRecipient{T: "call"}, Tag: tag + 1},
					{K: "msg", C: c, To: &hdRecipient{T: "room"}, Tag: tag + 2}, {K: "ctl", C: c, To: &hdRecipient{T: "room"}, Tag: tag + 3},
					{K: "msg", C: c, To: &hdRecipient{T: "user", U: 2}, Tag: tag + 4}, {K: "msg", C: c, To: hdToSession(2), Tag: tag + 5},
					{K: "ctl", C: c, To: hdToSession(4), Tag: tag + 6},
					// members the recipient's type does not call for: the type alone decides
					{K: "msg", C: c, To: &hdRecipient{T: "room", SU: 2}, Tag: tag + 7}, {K: "ctl", C: c, To: &hdRecipient{T: "room", SU: 1}, Tag: tag + 8},
					{K: "msg", C: c, To: &hdRecipient{T: "call", SU: 2}, Tag: tag + 9}, {K: "ctl", C: c, To: &hdRecipient{T: "call", SId: &hdIdRef{T: "pub", C: 3}}, Tag: tag + 10},
					{K: "msg", C: c, To: &hdRecipient{T: "room", SId: &hdIdRef{T: "pub", C: 4}}, Tag: tag + 11},
					{K: "msg", C: c, To: &hdRecipient{T: "user", U: 2, SId: &hdIdRef{T: "pub", C: 1}}, Tag: tag + 12},
					{K: "ctl", C: c, To: &hdRecipient{T: "session", Id: &hdIdRef{T: "pub", C: 2}, SU: 1}, Tag: tag + 13}}
			}
			ops := []hdOp{{K: "connect", C: 1}, {K: "connect", C: 2}, {K: "connect", C: 3}, {K: "connect", C: 4},
				{K: "hello", C: 1, B: 0, U: 1}, {K: "hello", C: 2, B: 0, U: 2}, {K: "hello", C: 3, B: 0, U: 2}, {K: "hello", C: 4, B: 1, U: 2},
				hdJoinOp(1, 1, 1), hdJoinOp(2, 1, 2), hdJoinOp(3, 1, 3), hdJoinOp(4, 1, 4)}
			ops = append(ops, all(1, 100)...)
			ops = append(ops, hdOp{K: "api", B: 0, SignAs: 0, R: 1, Api: "incall", RawRS: true, Users: []hdApiUser{{RS: 1, InCall: 1}, {RS: 2, InCall: 1}, {RS: 3, InCall: 3}}})
			ops = append(ops, all(1, 200)...)
			ops = append(ops, hdOp{K: "api", B: 0, SignAs: 0, R: 1, Api: "incall", RawRS: true, Users: []hdApiUser{{RS: 2, InCall: 0}}}) // 2 leaves the call, stays in the room
			ops = append(ops, all(1, 300)...)
			ops = append(ops, all(3, 350)...)
			ops = append(ops, hdJoinOp(3, 2, 3)) // 3 switches to another room
			ops = append(ops, all(1, 400)...)
			ops = append(ops, hdJoinOp(3, 1, 3)) // and comes back: not in the call until the backend says so
			ops = append(ops, all(1, 500)...)
			ops = append(ops, hdOp{K: "api", B: 0, SignAs: 0, R: 1, Api: "incallall", InCall: 0})
			ops = append(ops, all(1, 600)...)
			ops = append(ops, hdJoinOp(2, 0, 0)) // 2 leaves the room
			ops = append(ops, all(1, 700)...)
			// virtual sessions: reached through their internal client's connection with the recipient rewritten, also
			// when the internal client itself is the sender
			vo := []hdOp{{K: "connect", C: 1}, {K: "connect", C: 2}, {K: "hello", C: 1, Ht: "internal", B: 0}, {K: "hello", C: 2, B: 0, U: 5},
				hdJoinOp(2, 1, 1), hdJoinOp(1, 1, 0), {K: "internal", C: 1, Ik: "addsession", V: 7, R: 1, U: 9},
				{K: "msg", C: 1, To: &hdRecipient{T: "session", Id: &hdIdRef{T: "vpub", C: 1, V: 7}}, Tag: 42},
				{K: "ctl", C: 1, To: &hdRecipient{T: "session", Id: &hdIdRef{T: "vpub", C: 1, V: 7}}, Tag: 43},
				{K: "msg", C: 2, To: &hdRecipient{T: "session", Id: &hdIdRef{T: "vpub", C: 1, V: 7}}, Tag: 44},
				{K: "msg", C: 2, To: &hdRecipient{T: "room"}, Tag: 45}, {K: "msg", C: 1, To: &hdRecipient{T: "room"}, Tag: 46}}
			// a guest (no authenticated user id) whose user id comes from the room's session data: that id is the
			// one receivers are shown, for messages and control messages alike
			jsu := hdJoinOp(1, 1, 1)
			jsu.SU = 3
			guest := []hdOp{{K: "connect", C: 1}, {K: "connect", C: 2}, {K: "connect", C: 3}, {K: "connect", C: 4},
				{K: "hello", C: 1, B: 0, U: 0}, {K: "hello", C: 2, B: 0, U: 2}, {K: "hello", C: 3, B: 0, U: 2}, {K: "hello", C: 4, B: 1, U: 2},
				jsu, hdJoinOp(2, 1, 2), hdJoinOp(3, 1, 3), hdJoinOp(4, 1, 4)}
			guest = append(guest, all(1, 800)...)
			guest = append(guest, hdOp{K: "msg", C: 2, To: &hdRecipient{T: "user", U: 3}, Tag: 850}, hdOp{K: "msg", C: 2, To: hdToSession(1), Tag: 851})
			return []*hdCase{{Id: 0, Mode: 1, Ops: ops}, {Id: 1, Mode: 1, Ops: vo}, {Id: 2, Mode: 1, Ops: guest}}
		}})
}

// ---- C06 ----
func TestVerifC06(t *testing.T) {
	hdRunProperty(t, hdProp{id: "C06", quick: 110, thorough: 1100, minOps: 20,
		opts: func(i int) hdGenOpts { return hdGenOpts{api: i%3 == 0, resume: true, messages: true} },
		nontrivial: func(c *hdCase, tr string) bool { return hdHas(tr, "HResume (IdPriv") && hdHas(tr, "ODrop") },
		directed: func() []*hdCase {
			ops := []hdOp{{K: "connect", C: 1}, {K: "connect", C: 2}, {K: "hello", C: 1, B: 0, U: 1}, {K: "hello", C: 2, B: 0, U: 2},
				hdJoinOp(1, 1, 1), hdJoinOp(2, 1, 2), {K: "drop", C: 2}}
			for i := 0; i < 12; i++ {
				to := hdToSession(2)
				if i%3 == 1 {
					to = &hdRecipient{T: "room"}
				} else if i%3 == 2 {
					to = &hdRecipient{T: "user", U: 2}
				}
				k := "msg"
				if i%4 == 3 {
					k = "ctl"
				}
				ops = append(ops, hdOp{K: k, C: 1, To: to, Tag: 100 + i})
			}
			ops = append(ops, hdOp{K: "connect", C: 3}, hdOp{K: "hello", C: 3, Ht: "resume", Id: &hdIdRef{T: "pub", C: 2}},
				hdOp{K: "hello", C: 3, Ht: "resume", Id: &hdIdRef{T: "priv", C: 2}},
				hdOp{K: "msg", C: 1, To: hdToSession(3), Tag: 200},
				hdOp{K: "connect", C: 4}, hdOp{K: "hello", C: 4, Ht: "resume", Id: &hdIdRef{T: "priv", C: 3}}, // takeover
				hdOp{K: "msg", C: 1, To: hdToSession(4), Tag: 201},
				hdOp{K: "bye", C: 4}, hdOp{K: "connect", C: 5}, hdOp{K: "hello", C: 5, Ht: "resume", Id: &hdIdRef{T: "priv", C: 4}},
				hdOp{K: "drop", C: 1}, hdOp{K: "tick", O: 40}, hdOp{K: "hello", C: 5, Ht: "resume", Id: &hdIdRef{T: "priv", C: 1}})
			// the room is deleted (by the backend) while a member is disconnected: after the resume the client must know
			gone := []hdOp{{K: "connect", C: 1}, {K: "connect", C: 2}, {K: "hello", C: 1, B: 0, U: 1}, {K: "hello", C: 2, B: 0, U: 2},
				hdJoinOp(1, 1, 1), hdJoinOp(2, 1, 2), {K: "drop", C: 2},
				{K: "api", B: 0, SignAs: 0, R: 1, Api: "delete"},
				{K: "connect", C: 3}, {K: "hello", C: 3, Ht: "resume", Id: &hdIdRef{T: "priv", C: 2}},
				{K: "msg", C: 3, To: &hdRecipient{T: "room"}, Tag: 7}}
			// chat-refresh notices over two disconnect/resume cycles: merged into one per cycle, never lost
			cr := func(tag int) hdOp { return hdOp{K: "msg", C: 1, To: hdToSession(2), Tag: tag} }
			chat := []hdOp{{K: "connect", C: 1}, {K: "connect", C: 2}, {K: "hello", C: 1, B: 0, U: 1}, {K: "hello", C: 2, B: 0, U: 2},
				hdJoinOp(1, 1, 1), hdJoinOp(2, 1, 2), {K: "drop", C: 2},
				cr(hdChatRefreshTag), cr(301), cr(hdChatRefreshTag), cr(302), cr(hdChatRefreshTag),
				{K: "connect", C: 3}, {K: "hello", C: 3, Ht: "resume", Id: &hdIdRef{T: "priv", C: 2}},
				{K: "drop", C: 3},
				{K: "msg", C: 1, To: hdToSession(3), Tag: 303}, {K: "msg", C: 1, To: hdToSession(3), Tag: hdChatRefreshTag}, {K: "msg", C: 1, To: hdToSession(3), Tag: hdChatRefreshTag},
				{K: "connect", C: 4}, {K: "hello", C: 4, Ht: "resume", Id: &hdIdRef{T: "priv", C: 3}},
				{K: "msg", C: 1, To: hdToSession(4), Tag: hdChatRefreshTag}}
			// a resume whose connection goes away while the hub looks the session up: nothing is attached, the
			// session still expires, and its id is refused afterwards
			lost := []hdOp{{K: "connect", C: 1}, {K: "connect", C: 2}, {K: "hello", C: 1, B: 0, U: 1}, {K: "hello", C: 2, B: 0, U: 2},
				hdJoinOp(1, 1, 1), hdJoinOp(2, 1, 2), {K: "drop", C: 2},
				{K: "connect", C: 3}, {K: "helloabort", C: 3, Ht: "resume", Id: &hdIdRef{T: "priv", C: 2}},
				{K: "msg", C: 1, To: &hdRecipient{T: "room"}, Tag: 5},
				{K: "tick", O: 40},
				{K: "connect", C: 4}, {K: "hello", C: 4, Ht: "resume", Id: &hdIdRef{T: "priv", C: 2}},
				{K: "msg", C: 1, To: &hdRecipient{T: "room"}, Tag: 6}}
			// a disinvite / a bye (kick) waiting in the queue ends the session when the resume delivers it
			dis := []hdOp{{K: "connect", C: 1}, {K: "connect", C: 2}, {K: "hello", C: 1, B: 0, U: 1}, {K: "hello", C: 2, B: 0, U: 2},
				hdJoinOp(1, 1, 1), hdJoinOp(2, 1, 2), {K: "drop", C: 2},
				{K: "msg", C: 1, To: hdToSession(2), Tag: 21},
				{K: "api", B: 0, SignAs: 0, R: 1, Api: "disinvite", RawRS: true, Users: []hdApiUser{{RS: 2}}},
				{K: "msg", C: 1, To: hdToSession(2), Tag: 22},
				{K: "connect", C: 3}, {K: "hello", C: 3, Ht: "resume", Id: &hdIdRef{T: "priv", C: 2}},
				{K: "connect", C: 4}, {K: "hello", C: 4, Ht: "resume", Id: &hdIdRef{T: "priv", C: 2}}}
			kick := []hdOp{{K: "connect", C: 1}, {K: "connect", C: 2}, {K: "hello", C: 1, B: 0, U: 1}, {K: "hello", C: 2, B: 0, U: 2},
				hdJoinOp(1, 1, 1), hdJoinOp(2, 1, 2), {K: "drop", C: 2},
				hdJoinOp(1, 2, 2), // takes over the Nextcloud session id of the disconnected session: it is kicked
				{K: "connect", C: 3}, {K: "hello", C: 3, Ht: "resume", Id: &hdIdRef{T: "priv", C: 2}},
				{K: "connect", C: 4}, {K: "hello", C: 4, Ht: "resume", Id: &hdIdRef{T: "priv", C: 2}}}
			// the connection breaks in a way the server only notices when it writes (its writes fail, it still
			// believes the client connected): what is addressed to the session meanwhile is kept and delivered, in
			// order, by the resume - after the connection finally dropped, or as a takeover while it is still attached
			w := func(take bool) []hdOp {
				o := []hdOp{{K: "connect", C: 1}, {K: "connect", C: 2}, {K: "connect", C: 3}, {K: "hello", C: 1, B: 0, U: 1}, {K: "hello", C: 2, B: 0, U: 2}, {K: "hello", C: 3, B: 0, U: 3},
					hdJoinOp(1, 1, 1), hdJoinOp(2, 1, 2), {K: "wfail", C: 2},
					{K: "msg", C: 1, To: hdToSession(2), Tag: 31}, {K: "msg", C: 1, To: &hdRecipient{T: "room"}, Tag: 32},
					hdJoinOp(3, 1, 3),
					{K: "msg", C: 3, To: &hdRecipient{T: "user", U: 2}, Tag: 33}, {K: "ctl", C: 1, To: hdToSession(2), Tag: 34},
					{K: "msg", C: 1, To: hdToSession(2), Tag: hdChatRefreshTag}, {K: "msg", C: 3, To: hdToSession(2), Tag: hdChatRefreshTag},
					hdJoinOp(3, 0, 0)}
				if !take {
					o = append(o, hdOp{K: "drop", C: 2}, hdOp{K: "msg", C: 1, To: hdToSession(2), Tag: 35})
				}
				o = append(o, hdOp{K: "connect", C: 4}, hdOp{K: "hello", C: 4, Ht: "resume", Id: &hdIdRef{T: "priv", C: 2}},
					hdOp{K: "msg", C: 1, To: hdToSession(4), Tag: 36})
				if take {
					o = append(o, hdOp{K: "drop", C: 2}, hdOp{K: "msg", C: 1, To: hdToSession(4), Tag: 37})
				}
				return o
			}
			// ten failed resumes from one address: further resumes from it are refused (also with a valid id), from
			// another address the session resumes
			thr := []hdOp{{K: "connect", C: 1, Addr: 1}, {K: "hello", C: 1, B: 0, U: 1}, hdJoinOp(1, 1, 1), {K: "drop", C: 1}, {K: "connect", C: 2, Addr: 7}}
			for i := 0; i < 11; i++ {
				thr = append(thr, hdOp{K: "hello", C: 2, Ht: "resume", Id: &hdIdRef{T: "other", O: i % 4}})
			}
			thr = append(thr, hdOp{K: "hello", C: 2, Ht: "resume", Id: &hdIdRef{T: "priv", C: 1}},
				hdOp{K: "hello", C: 2, Ht: "resume", Id: &hdIdRef{T: "pub", C: 1}},
				hdOp{K: "connect", C: 3, Addr: 8}, hdOp{K: "hello", C: 3, Ht: "resume", Id: &hdIdRef{T: "priv", C: 1}},
				hdOp{K: "hello", C: 2, Ht: "resume", Id: &hdIdRef{T: "priv", C: 1}})
			// a resume whose connection is cut (for the server's writes) while the queue is flushed: after the reply and
			// k-1 of the n queued messages. More is addressed to the session while the server still believes it
			// connected; then the connection drops and a third one resumes - or takes the session over, or is itself
			// cut during its flush and a fourth one resumes. The connections together got everything, in order, once.
			cut := func(k int, second string) []hdOp {
				o := []hdOp{{K: "connect", C: 1}, {K: "connect", C: 2}, {K: "connect", C: 9}, {K: "hello", C: 1, B: 0, U: 1}, {K: "hello", C: 2, B: 0, U: 2}, {K: "hello", C: 9, B: 0, U: 3},
					hdJoinOp(1, 1, 1), hdJoinOp(2, 1, 2), hdJoinOp(9, 1, 3), {K: "drop", C: 2},
					{K: "msg", C: 1, To: hdToSession(2), Tag: 51}, {K: "msg", C: 9, To: &hdRecipient{T: "room"}, Tag: 52}, {K: "ctl", C: 1, To: hdToSession(2), Tag: 53},
					{K: "msg", C: 9, To: &hdRecipient{T: "user", U: 2}, Tag: 54}, {K: "msg", C: 1, To: hdToSession(2), Tag: 55},
					{K: "connect", C: 3}, {K: "wfail", C: 3, After: k}, {K: "hello", C: 3, Ht: "resume", Id: &hdIdRef{T: "priv", C: 2}},
					{K: "msg", C: 1, To: hdToSession(2), Tag: 56}, {K: "msg", C: 9, To: &hdRecipient{T: "room"}, Tag: 57}}
				switch second {
				case "drop":
					o = append(o, hdOp{K: "drop", C: 3}, hdOp{K: "msg", C: 1, To: hdToSession(2), Tag: 58},
						hdOp{K: "connect", C: 4}, hdOp{K: "hello", C: 4, Ht: "resume", Id: &hdIdRef{T: "priv", C: 2}})
				case "take":
					o = append(o, hdOp{K: "connect", C: 4}, hdOp{K: "hello", C: 4, Ht: "resume", Id: &hdIdRef{T: "priv", C: 2}}, hdOp{K: "drop", C: 3})
				default: // cut again
					o = append(o, hdOp{K: "drop", C: 3}, hdOp{K: "connect", C: 5}, hdOp{K: "wfail", C: 5, After: 2}, hdOp{K: "hello", C: 5, Ht: "resume", Id: &hdIdRef{T: "priv", C: 2}},
						hdOp{K: "drop", C: 5}, hdOp{K: "connect", C: 4}, hdOp{K: "hello", C: 4, Ht: "resume", Id: &hdIdRef{T: "priv", C: 2}})
				}
				return append(o, hdOp{K: "msg", C: 1, To: hdToSession(4), Tag: 59}, hdOp{K: "msg", C: 4, To: &hdRecipient{T: "room"}, Tag: 60},
					hdOp{K: "drop", C: 4}, hdOp{K: "msg", C: 1, To: hdToSession(2), Tag: 61}, hdOp{K: "connect", C: 6}, hdOp{K: "hello", C: 6, Ht: "resume", Id: &hdIdRef{T: "priv", C: 2}})
			}
			var cuts []*hdCase
			for k := 1; k <= 6; k++ {
				cuts = append(cuts, &hdCase{Id: 40 + k, Mode: 1, Ops: cut(k, []string{"drop", "take", "again"}[k%3])})
			}
			cuts = append(cuts, &hdCase{Id: 48, Mode: 1, Ops: cut(2, "take")}, &hdCase{Id: 49, Mode: 1, Ops: cut(3, "again")}, &hdCase{Id: 50, Mode: 1, Ops: cut(5, "drop")})
			return append(append([]*hdCase{{Id: 0, Mode: 1, Ops: ops}, {Id: 1, Mode: 1, Ops: gone}, {Id: 2, Mode: 1, Ops: chat}, {Id: 3, Mode: 1, Ops: lost},
				{Id: 4, Mode: 1, Ops: dis}, {Id: 5, Mode: 1, Ops: kick}, {Id: 6, Mode: 1, Ops: w(false)}, {Id: 7, Mode: 1, Ops: w(true)}, {Id: 8, Mode: 1, Ops: thr}},
				hdHeldJoinCases(9)...), cuts...)
		}})
}

// ---- C07 ----
func TestVerifC07(t *testing.T) {
	hdRunProperty(t, hdProp{id: "C07", quick: 110, thorough: 1100, minOps: 20,
		opts: func(i int) hdGenOpts { return hdGenOpts{api: true, internal: i%2 == 0, media: i%4 == 0, limits: true, endings: true} },
		nontrivial: func(c *hdCase, tr string) bool { return hdHas(tr, "OBye") || hdHas(tr, "OTick 40") || hdHas(tr, "SBye") },
		extra:      hdStressLimit,
		directed: func() []*hdCase {
			base := []hdOp{{K: "connect", C: 1}, {K: "connect", C: 2}, {K: "connect", C: 3},
				{K: "hello", C: 1, B: 0, U: 1}, {K: "hello", C: 2, B: 0, U: 2}, {K: "hello", C: 3, Ht: "internal", B: 0},
				hdJoinOp(1, 1, 5), hdJoinOp(2, 1, 6), hdJoinOp(3, 1, 0)}
			// the Nextcloud session id of one member is taken over by another member of the same room (no kick on
			// that path), by an internal client (never kicks), then the first holder ends in each possible way
			take := func(end ...hdOp) []hdOp {
				ops := append(append([]hdOp{}, base...), hdJoinOp(2, 1, 5))
				return append(ops, end...)
			}
			takeInt := func(end ...hdOp) []hdOp {
				ops := append(append([]hdOp{}, base...), hdJoinOp(3, 1, 5))
				return append(ops, end...)
			}
			tail := []hdOp{hdJoinOp(2, 2, 5), {K: "bye", C: 2}, {K: "bye", C: 3}, {K: "tick", O: 40}}
			var out []*hdCase
			// hellos abandoned mid-way on a backend with two slots, then the slots are used: none was lost
			ab := []hdOp{{K: "connect", C: 1}, {K: "helloabort", C: 1, B: 0, U: 1, Late: true}, {K: "connect", C: 2}, {K: "helloabort", C: 2, B: 0, U: 2},
				{K: "connect", C: 3}, {K: "helloabort", C: 3, B: 0, U: 3, Late: true},
				{K: "connect", C: 4}, {K: "hello", C: 4, B: 0, U: 1}, {K: "connect", C: 5}, {K: "hello", C: 5, B: 0, U: 2},
				{K: "connect", C: 6}, {K: "hello", C: 6, B: 0, U: 3}, // third one: over the limit
				{K: "drop", C: 5}, {K: "connect", C: 7}, {K: "helloabort", C: 7, Ht: "resume", Id: &hdIdRef{T: "priv", C: 5}},
				{K: "tick", O: 40}, {K: "hello", C: 6, B: 0, U: 3}, // the expired session's slot is free again
				{K: "connect", C: 8}, {K: "helloabort", C: 8, B: 0, U: 1, Late: true}, {K: "bye", C: 4}, {K: "bye", C: 6}}
			out = append(out, &hdCase{Id: 20, Mode: 1, Backends: []hdBackendCfg{{Limit: 2}, {}}, Ops: ab})
			for i, ops := range [][]hdOp{
				take(append([]hdOp{{K: "bye", C: 1}}, tail...)...),
				take(append([]hdOp{{K: "drop", C: 1}, {K: "tick", O: 40}}, tail...)...),
				take(append([]hdOp{hdJoinOp(1, 0, 0), hdJoinOp(1, 1, 5)}, tail...)...),
				take(append([]hdOp{{K: "api", B: 0, SignAs: 0, R: 1, Api: "delete"}}, tail...)...),
				takeInt(append([]hdOp{{K: "bye", C: 1}}, tail...)...),
				takeInt(append([]hdOp{{K: "bye", C: 3}, {K: "bye", C: 1}}, tail...)...),
			} {
				out = append(out, &hdCase{Id: i, Mode: 1, Ops: ops})
			}
			return append(out, hdHeldJoinCases(30)...)
		}})
}

// ---- C08 ----
func TestVerifC08(t *testing.T) {
	hdRunProperty(t, hdProp{id: "C08", quick: 110, thorough: 1100, minOps: 20,
		opts: func(i int) hdGenOpts { return hdGenOpts{api: true, internal: i%4 == 0, media: true, perms: true} },
		nontrivial: func(c *hdCase, tr string) bool { return hdHas(tr, "MCreate") || hdHas(tr, "SError 14") },
		directed: func() []*hdCase {
			// permission names by index: see hdPermNames (0 publish-audio, 1 publish-video, 2 publish-screen, 3 publish-media, 4 control, 5 transient-data)
			base := []hdOp{{K: "connect", C: 1}, {K: "connect", C: 2}, {K: "hello", C: 1, B: 0, U: 1}, {K: "hello", C: 2, B: 0, U: 2}}
			offer := func(c int, stream string, media int) hdOp {
				return hdOp{K: "media", C: c, Mk: "offer", Stream: stream, Media: media, To: hdToSession(c)}
			}
			req := func(c, of int, stream string) hdOp {
				return hdOp{K: "media", C: c, Mk: "requestoffer", Stream: stream, To: hdToSession(of)}
			}
			perms := func(rs int, p ...int) hdOp {
				return hdOp{K: "api", B: 0, SignAs: 0, R: 1, Api: "participants", RawRS: true, Users: []hdApiUser{{RS: rs, InCall: 7, HasP: true, Perm: p}}}
			}
			joinP := func(c, room, rs int, p ...int) hdOp {
				o := hdJoinOp(c, room, rs)
				o.HasP, o.Perm = true, p
				return o
			}
			incall := hdOp{K: "api", B: 0, SignAs: 0, R: 1, Api: "incallall", InCall: 7}
			var out []*hdCase
			id := 0
			add := func(gated bool, ops ...hdOp) {
				all := append(append([]hdOp{}, base...), ops...)
				if gated {
					all = append(all, hdOp{K: "mcuflush"})
				}
				out = append(out, &hdCase{Id: id, Mode: 1, Gated: gated, Ops: all})
				id++
			}
			// every stream type published with full permissions, then each way of losing them
			add(false, hdJoinOp(1, 1, 1), hdJoinOp(2, 1, 2), incall, offer(1, "video", 3), offer(1, "screen", 0), perms(1))                 // everything withdrawn at once
			add(false, hdJoinOp(1, 1, 1), hdJoinOp(2, 1, 2), incall, offer(1, "audio", 1), offer(1, "video", 2), perms(1, 1), perms(1, 0)) // audio only, then video only
			add(false, hdJoinOp(1, 1, 1), hdJoinOp(2, 1, 2), incall, offer(1, "video", 3), perms(1, 3), perms(1, 0, 1), perms(1, 2), offer(1, "video", 1), offer(1, "screen", 0))
			// every media combination of a publisher, published under each permission set that allows it, then every smaller set
			// (each medium needs ITS permission: audio+video with only one of the two left must go), granted again in between
			for _, start := range [][]int{{0, 1}, {3}, {0, 1, 3}} {
				for _, pm := range []struct {
					stream string
					media  int
				}{{"video", 3}, {"video", 2}, {"video", 1}, {"audio", 1}} {
					ops := []hdOp{joinP(1, 1, 1, start...), hdJoinOp(2, 1, 2), incall}
					for _, red := range [][]int{{1}, {0}, {2}, {}, {1, 2}, {0, 4}} {
						ops = append(ops, offer(1, pm.stream, pm.media), perms(1, red...), perms(1, start...))
					}
					add(false, ops...)
				}
			}
			// published before joining, the room does not grant it; an empty permission list in the join reply
			add(false, offer(1, "video", 3), offer(1, "screen", 0), joinP(1, 1, 1, 4), hdJoinOp(2, 1, 2))
			add(false, offer(1, "video", 3), joinP(1, 1, 1), offer(1, "video", 3), offer(1, "screen", 0), hdOp{K: "transient", C: 1, Tk: "set", Key: 1, Tag: 1},
				hdOp{K: "ctl", C: 1, To: &hdRecipient{T: "room"}, Tag: 5})
			// switching to a room with fewer permissions
			add(false, joinP(1, 1, 1, 3, 2), offer(1, "video", 3), offer(1, "screen", 0), joinP(1, 2, 1, 0), offer(1, "video", 2))
			// a creation in progress while the permission is withdrawn
			add(true, hdJoinOp(1, 1, 1), hdJoinOp(2, 1, 2), incall, offer(1, "video", 3), perms(1, 4), hdOp{K: "mcudone", Res: "ok"})
			add(true, hdJoinOp(1, 1, 1), hdJoinOp(2, 1, 2), incall, offer(1, "screen", 0), perms(1, 3), hdOp{K: "mcudone", Res: "ok"})
			// sections with port 0 need the permission like any other
			add(false, joinP(1, 1, 1, 0), hdJoinOp(2, 1, 2), incall, offer(1, "video", 1+16), offer(1, "video", 8), offer(1, "video", 16), offer(1, "video", 2+8),
				perms(1, 1), offer(1, "video", 1+16), offer(1, "video", 16), offer(1, "video", 8))
			// screen permission withdrawn while media stays
			add(false, joinP(1, 1, 1, 3, 2), hdJoinOp(2, 1, 2), incall, offer(1, "video", 3), offer(1, "screen", 0), perms(1, 3), offer(1, "screen", 0), perms(1, 2), perms(1))
			// an internal client in ANOTHER room publishes: its stream cannot be requested from here
			add(false, hdOp{K: "connect", C: 3}, hdOp{K: "hello", C: 3, Ht: "internal", B: 0}, hdJoinOp(3, 2, 0), hdJoinOp(1, 1, 1), hdJoinOp(2, 1, 2), incall,
				hdOp{K: "api", B: 0, SignAs: 0, R: 2, Api: "incallall", InCall: 7}, offer(3, "video", 3), req(1, 3, "video"), hdJoinOp(3, 1, 0), req(1, 3, "video"))
			// requesting a stream: same room and both in the call, in every combination
			add(false, hdJoinOp(1, 1, 1), hdJoinOp(2, 2, 2), offer(1, "video", 3), req(2, 1, "video"), hdJoinOp(2, 1, 2), req(2, 1, "video"), incall, req(2, 1, "video"),
				hdOp{K: "api", B: 0, SignAs: 0, R: 1, Api: "incall", RawRS: true, Users: []hdApiUser{{RS: 2, InCall: 0}}}, req(2, 1, "screen"),
				hdOp{K: "api", B: 0, SignAs: 0, R: 1, Api: "incall", RawRS: true, Users: []hdApiUser{{RS: 2, InCall: 7}, {RS: 1, InCall: 0}}}, req(2, 1, "screen"),
				hdJoinOp(2, 0, 0), hdJoinOp(2, 1, 2), req(2, 1, "video"),
				// both in the call, the requester leaves the room (others stay) and comes back: it is not in the call any more
				hdOp{K: "api", B: 0, SignAs: 0, R: 1, Api: "incall", RawRS: true, Users: []hdApiUser{{RS: 2, InCall: 7}, {RS: 1, InCall: 7}}}, req(2, 1, "video"),
				hdJoinOp(2, 0, 0), hdJoinOp(2, 1, 2), req(2, 1, "screen"), hdJoinOp(2, 2, 2), hdJoinOp(2, 1, 2), req(2, 1, "screen"))
			// the decision table: every message kind that is decided by a publish permission (an offer with an audio
			// section, a video section, both, with sections on port 0, for the screen; a candidate for the own stream,
			// before and after the stream is published) x every stream type x every permission set - given by the join
			// reply and, after everything was granted in between, by the participants API
			cand := func(c int, stream string) hdOp {
				return hdOp{K: "media", C: c, Mk: "candidate", Stream: stream, To: hdToSession(c)}
			}
			// the other kinds decided by IsAllowedToSend: answer / endOfCandidates (for the own stream, as a candidate),
			// sendoffer (to another session: that session subscribes to the sender's stream)
			own := func(mk string, c int, stream string) hdOp {
				return hdOp{K: "media", C: c, Mk: mk, Stream: stream, Media: 3, To: hdToSession(c)}
			}
			sendoffer := func(c, to int, stream string) hdOp {
				return hdOp{K: "media", C: c, Mk: "sendoffer", Stream: stream, To: hdToSession(to)}
			}
			for _, set := range [][]int{{4}, {}, {0}, {1}, {0, 1}, {3}, {2}, {3, 2}, {0, 2}, {1, 2, 4}, {0, 1, 2, 3, 4, 5}} {
				table := func() []hdOp {
					var ops []hdOp
					for _, st := range []string{"screen", "video", "audio"} {
						ops = append(ops, cand(1, st))
						if st == "screen" {
							ops = append(ops, offer(1, st, 0), offer(1, st, 3))
						} else {
							ops = append(ops, offer(1, st, 1), offer(1, st, 2), offer(1, st, 3), offer(1, st, 8), offer(1, st, 16+1))
						}
						ops = append(ops, cand(1, st), own("answer", 1, st), own("endOfCandidates", 1, st),
							sendoffer(1, 2, st), sendoffer(1, 2, st), sendoffer(1, 1, st))
					}
					// a candidate for somebody else's stream is not a matter of publish permissions
					ops = append(ops, own("answer", 2, "screen"), own("endOfCandidates", 2, "video"),
						hdOp{K: "media", C: 1, Mk: "answer", Stream: "screen", Media: 3, To: hdToSession(2)}, hdOp{K: "media", C: 1, Mk: "endOfCandidates", Stream: "video", To: hdToSession(2)},
						// sendoffer the other way round (session 2 has every permission), and to an id that is no session
						sendoffer(2, 1, "screen"), sendoffer(2, 1, "video"),
						hdOp{K: "media", C: 1, Mk: "sendoffer", Stream: "screen", To: &hdRecipient{T: "session", Id: &hdIdRef{T: "other", O: 1}}},
						hdOp{K: "media", C: 1, Mk: "sendoffer", Stream: "video", To: &hdRecipient{T: "session", Id: &hdIdRef{T: "other", O: 1}}})
					return append(ops, cand(2, "screen"), cand(2, "video"),
						hdOp{K: "media", C: 1, Mk: "candidate", Stream: "screen", To: hdToSession(2)}, hdOp{K: "media", C: 1, Mk: "candidate", Stream: "video", To: hdToSession(2)})
				}
				ops := []hdOp{joinP(1, 1, 1, set...), hdJoinOp(2, 1, 2), incall}
				ops = append(ops, table()...)
				ops = append(ops, perms(1, 0, 1, 2, 3, 4, 5), cand(1, "screen"), cand(1, "video"), offer(1, "screen", 0), offer(1, "video", 3), cand(1, "screen"), cand(1, "video"), perms(1, set...))
				ops = append(ops, table()...)
				add(false, ops...)
			}
			// the same table with ONE message kind per case (sendoffer / answer / endOfCandidates), so that a change at one
			// call site of the permission test is reported through that kind: kind x stream type x permission set, the
			// set given by the join reply, then everything granted, then the set again through the participants API
			for _, mk := range []string{"sendoffer", "answer", "endOfCandidates"} {
				for _, set := range [][]int{{4}, {}, {0}, {1}, {0, 1}, {3}, {2}, {3, 2}, {0, 2}, {1, 2, 4}, {0, 1, 2, 3, 4, 5}} {
					one := func() []hdOp {
						var ops []hdOp
						for _, st := range []string{"screen", "video", "audio"} {
							if mk == "sendoffer" {
								ops = append(ops, sendoffer(1, 2, st), sendoffer(1, 2, st), sendoffer(1, 1, st),
									hdOp{K: "media", C: 1, Mk: "sendoffer", Stream: st, To: &hdRecipient{T: "session", Id: &hdIdRef{T: "other", O: 1}}})
							} else {
								ops = append(ops, own(mk, 1, st), hdOp{K: "media", C: 1, Mk: mk, Stream: st, Media: 3, To: hdToSession(2)})
							}
						}
						return ops
					}
					ops := []hdOp{joinP(1, 1, 1, set...), hdJoinOp(2, 1, 2), incall}
					ops = append(ops, one()...)
					ops = append(ops, perms(1, 0, 1, 2, 3, 4, 5))
					ops = append(ops, one()...)
					ops = append(ops, perms(1, set...))
					ops = append(ops, one()...)
					add(false, ops...)
				}
			}
			return out
		}})
}

// ---- C09 ----
func TestVerifC09(t *testing.T) {
	hdRunProperty(t, hdProp{id: "C09", quick: 110, thorough: 1100, minOps: 20,
		opts: func(i int) hdGenOpts { return hdGenOpts{api: true, internal: i%4 == 0, media: true, gatedAlways: i%2 == 0, endings: true} },
		nontrivial: func(c *hdCase, tr string) bool { return hdHas(tr, "MCreate") && (hdHas(tr, "MClose") || hdHas(tr, "MFailed")) },
		directed: func() []*hdCase {
			// a slow media server: the creation completes after the owner left the call / the room / was closed /
			// lost the permission; two requests for one stream; each time for a session that holds nothing yet and
			// for one that already holds another object
			base := []hdOp{{K: "connect", C: 1}, {K: "connect", C: 2}, {K: "hello", C: 1, B: 0, U: 1}, {K: "hello", C: 2, B: 0, U: 2},
				hdJoinOp(1, 1, 1), hdJoinOp(2, 1, 2),
				{K: "api", B: 0, SignAs: 0, R: 1, Api: "incallall", InCall: 7}}
			offer := func(c int, stream string) hdOp {
				return hdOp{K: "media", C: c, Mk: "offer", Stream: stream, Media: 3, To: hdToSession(c)}
			}
			req := func(c, of int, stream string) hdOp {
				return hdOp{K: "media", C: c, Mk: "requestoffer", Stream: stream, To: hdToSession(of)}
			}
			done := hdOp{K: "mcudone", Res: "ok"}
			leaveCall := func(rs int) hdOp {
				return hdOp{K: "api", B: 0, SignAs: 0, R: 1, Api: "incall", RawRS: true, Users: []hdApiUser{{RS: rs, InCall: 0}}}
			}
			del := hdOp{K: "api", B: 0, SignAs: 0, R: 1, Api: "delete"}
			noperm := hdOp{K: "api", B: 0, SignAs: 0, R: 1, Api: "participants", RawRS: true, Users: []hdApiUser{{RS: 1, InCall: 7, HasP: true, Perm: []int{4}}}}
			var out []*hdCase
			id := 0
			add := func(ops ...hdOp) {
				all := append(append([]hdOp{}, base...), ops...)
				all = append(all, hdOp{K: "mcuflush"}, hdOp{K: "bye", C: 1}, hdOp{K: "bye", C: 2})
				out = append(out, &hdCase{Id: id, Mode: 1, Gated: true, Ops: all})
				id++
			}
			// first object of the session
			add(offer(1, "video"), leaveCall(1), done)
			add(offer(1, "video"), del, done)
			add(offer(1, "video"), noperm, done)
			add(offer(1, "screen"), hdOp{K: "api", B: 0, SignAs: 0, R: 1, Api: "incallall", InCall: 0}, done)
			add(offer(1, "video"), hdOp{K: "api", B: 0, SignAs: 0, R: 1, Api: "disinvite", RawRS: true, Users: []hdApiUser{{RS: 1}, {U: 1}}}, done)
			// a publisher exists, the subscriber of the other session is slow
			add(offer(1, "video"), done, req(2, 1, "video"), leaveCall(2), done)
			add(offer(1, "video"), done, req(2, 1, "video"), del, done)
			add(offer(1, "video"), done, offer(2, "screen"), done, req(2, 1, "video"), leaveCall(2), done)
			// failing creations, and the owner gone for good
			add(offer(1, "video"), hdOp{K: "mcudone", Res: "fail"}, offer(1, "video"), done)
			add(offer(1, "video"), hdOp{K: "drop", C: 2}, hdOp{K: "tick", O: 40}, done)
			// losing one publish permission while keeping another closes exactly the publisher that needs it
			permsOf := func(rs int, p ...int) hdOp {
				return hdOp{K: "api", B: 0, SignAs: 0, R: 1, Api: "participants", RawRS: true, Users: []hdApiUser{{RS: rs, InCall: 7, HasP: true, Perm: p}}}
			}
			add(permsOf(1, 3, 2), offer(1, "video"), done, offer(1, "screen"), done, permsOf(1, 3), permsOf(1, 2), permsOf(1))
			add(permsOf(1, 3, 2), offer(1, "screen"), done, offer(1, "video"), done, permsOf(1, 2), offer(1, "video"), permsOf(1, 0, 1, 2), permsOf(1, 0))
			// objects of a session that is in no room (created before joining / after leaving) go with the session
			add(offer(1, "video"), done, hdJoinOp(1, 0, 0), offer(1, "video"), done, hdOp{K: "bye", C: 1})
			add(offer(1, "video"), done, hdJoinOp(1, 0, 0), offer(1, "screen"), done, hdOp{K: "drop", C: 1}, hdOp{K: "tick", O: 40})
			// two creations in flight for one stream of one session: the later one is closed again, the first stays
			// (and is closed when its owner leaves)
			add(offer(1, "video"), done, req(2, 1, "video"), req(2, 1, "video"), done, done, req(2, 1, "video"), leaveCall(2))
			add(offer(1, "video"), done, req(2, 1, "video"), req(2, 1, "video"), hdOp{K: "mcudone", Res: "fail"}, done, del)
			add(offer(1, "video"), hdOp{K: "connect", C: 3}, hdOp{K: "hello", C: 3, Ht: "resume", Id: &hdIdRef{T: "priv", C: 1}},
				offer(3, "video"), done, done, offer(3, "video"), leaveCall(1))
			return out
		}})
}

// ---- C19 ----
func TestVerifC19(t *testing.T) {
	hdRunProperty(t, hdProp{id: "C19", quick: 110, thorough: 1100, minOps: 20,
		opts: func(i int) hdGenOpts { return hdGenOpts{api: i%3 != 2, internal: true, virtual: true, messages: true} },
		nontrivial: func(c *hdCase, tr string) bool { return hdHas(tr, "IAdd") && hdHas(tr, "mksd") && strings.Contains(tr, " 3 ") },
		directed: func() []*hdCase {
			base := []hdOp{{K: "connect", C: 1}, {K: "connect", C: 2}, {K: "connect", C: 3},
				{K: "hello", C: 1, Ht: "internal", B: 0}, {K: "hello", C: 2, B: 0, U: 2}, {K: "hello", C: 3, Ht: "internal", B: 0, Feat: []string{ClientFeatureInternalInCall}},
				hdJoinOp(2, 1, 2), hdJoinOp(1, 1, 0)}
			addv := func(c, v, room, u int) hdOp { return hdOp{K: "internal", C: c, Ik: "addsession", V: v, R: room, U: u} }
			upd := func(c, v, room, fl, ic int) hdOp {
				return hdOp{K: "internal", C: c, Ik: "updatesession", V: v, R: room, HasF: true, Flags: fl, HasIC: true, InCall: ic}
			}
			rem := func(c, v, room int) hdOp { return hdOp{K: "internal", C: c, Ik: "removesession", V: v, R: room} }
			toV := func(c, of, v, tag int) hdOp {
				return hdOp{K: "msg", C: c, To: &hdRecipient{T: "session", Id: &hdIdRef{T: "vpub", C: of, V: v}}, Tag: tag}
			}
			ctlV := func(c, of, v, tag int) hdOp {
				return hdOp{K: "ctl", C: c, To: &hdRecipient{T: "session", Id: &hdIdRef{T: "vpub", C: of, V: v}}, Tag: tag}
			}
			joinPerm := func(c, room, rs int, p ...int) hdOp {
				o := hdJoinOp(c, room, rs)
				o.HasP, o.Perm = true, p
				return o
			}
			var out []*hdCase
			for i, ops := range [][]hdOp{
				// add, update, remove; remove twice; unknown id; room of nobody
				{addv(1, 1, 1, 5), toV(2, 1, 1, 10), upd(1, 1, 1, 2, 9), upd(1, 1, 1, 2, 5), upd(1, 1, 2, 1, 0), rem(1, 1, 1), rem(1, 1, 1), toV(2, 1, 1, 11), rem(1, 2, 1), addv(1, 3, 9, 5)},
				// the same id twice: the first one is replaced and goes away; then one remove removes it
				{addv(1, 1, 1, 5), addv(1, 1, 1, 6), toV(2, 1, 1, 12), upd(1, 1, 1, 1, 9), rem(1, 1, 1), toV(2, 1, 1, 13), rem(1, 1, 1)},
				// the internal client's session ends in each way with virtual sessions alive
				{addv(1, 1, 1, 5), addv(1, 2, 1, 6), {K: "bye", C: 1}, toV(2, 1, 1, 14)},
				{addv(1, 1, 1, 5), addv(1, 2, 1, 6), {K: "drop", C: 1}, {K: "tick", O: 40}, toV(2, 1, 2, 15)},
				{addv(1, 1, 1, 5), {K: "api", B: 0, SignAs: 0, R: 1, Api: "delete"}, toV(2, 1, 1, 16), rem(1, 1, 1)},
				// the backend's in-call list names the virtual sessions; one is removed, one goes with a replaced id; the
				// participants updates that follow (another session added, in-call flags changed, the internal client
				// leaving the call) repeat the backend's list without the sessions that are gone
				{addv(1, 1, 1, 5), addv(1, 2, 1, 6),
					{K: "api", B: 0, SignAs: 0, R: 1, Api: "incall", Users: []hdApiUser{{Id: &hdIdRef{T: "vpub", C: 1, V: 1}, InCall: 7}, {Id: &hdIdRef{T: "vpub", C: 1, V: 2}, InCall: 7}, {RS: 2, InCall: 7}}},
					rem(1, 1, 1), addv(1, 3, 1, 7), upd(1, 3, 1, 1, 0), addv(1, 2, 1, 8), upd(1, 2, 1, 0, 1),
					{K: "internal", C: 1, Ik: "incall", InCall: 1}, {K: "internal", C: 1, Ik: "incall", InCall: 0}, rem(1, 2, 1), rem(1, 3, 1), addv(1, 1, 1, 5)},
				// sessions that join later see the virtual sessions that are there, with flags or without, also after the flags
				// went back to none
				{addv(1, 1, 1, 5), {K: "internal", C: 1, Ik: "addsession", V: 2, R: 1, U: 6, Flags: 1}, {K: "connect", C: 4}, {K: "hello", C: 4, B: 0, U: 4}, hdJoinOp(4, 1, 4),
					upd(1, 2, 1, 0, 9), {K: "connect", C: 5}, {K: "hello", C: 5, B: 0, U: 5}, hdJoinOp(5, 1, 5), hdJoinOp(2, 0, 0), hdJoinOp(2, 1, 2), rem(1, 1, 1), hdJoinOp(4, 0, 0), hdJoinOp(4, 1, 4)},
				// two internal clients with the same chosen id; an ordinary client trying
				{addv(1, 1, 1, 5), hdJoinOp(3, 1, 0), addv(3, 1, 1, 6), rem(3, 1, 1), toV(2, 1, 1, 17), toV(2, 3, 1, 18), addv(2, 1, 1, 7), upd(2, 1, 1, 1, 1), rem(2, 1, 1)},
				// messages and control messages to a virtual session from everybody who can name it: the internal client it
				// belongs to, another internal client (with a virtual session of its own), an ordinary session in its room, one
				// in another room / in no room, one that may not send control messages, a session of the other backend; to each
				// of two virtual sessions of one client and to the one of the other client; the unrelated members of a
				// recipient; then again after the owner changed rooms, after one was replaced (same chosen id) and removed
				{addv(1, 1, 1, 5), addv(1, 2, 1, 6), hdJoinOp(3, 1, 0), addv(3, 1, 1, 7),
					{K: "connect", C: 4}, {K: "hello", C: 4, B: 0, U: 4}, joinPerm(4, 2, 4, 0), {K: "connect", C: 5}, {K: "hello", C: 5, B: 1, U: 5}, hdJoinOp(5, 1, 5),
					{K: "connect", C: 6}, {K: "hello", C: 6, B: 0, U: 6},
					toV(1, 1, 1, 20), ctlV(1, 1, 1, 21), toV(1, 1, 2, 22), ctlV(1, 1, 2, 23), toV(1, 3, 1, 24), ctlV(1, 3, 1, 25),
					toV(3, 1, 1, 26), ctlV(3, 1, 2, 27), toV(3, 3, 1, 28), ctlV(3, 3, 1, 29),
					toV(2, 1, 1, 30), ctlV(2, 1, 2, 31), toV(2, 3, 1, 32), ctlV(2, 3, 1, 33),
					toV(4, 1, 1, 34), ctlV(4, 1, 1, 35), toV(5, 1, 1, 36), ctlV(5, 3, 1, 37), toV(6, 1, 2, 38), ctlV(6, 3, 1, 39),
					{K: "msg", C: 1, To: &hdRecipient{T: "session", Id: &hdIdRef{T: "vpub", C: 1, V: 1}, SU: 2}, Tag: 40},
					{K: "ctl", C: 1, To: &hdRecipient{T: "session", Id: &hdIdRef{T: "vpub", C: 1, V: 2}, SId: &hdIdRef{T: "pub", C: 2}}, Tag: 41},
					{K: "msg", C: 1, To: hdToSession(1), Tag: 42}, {K: "ctl", C: 1, To: hdToSession(3), Tag: 43}, {K: "msg", C: 3, To: hdToSession(1), Tag: 44},
					hdJoinOp(1, 2, 0), toV(1, 1, 1, 45), ctlV(1, 1, 2, 46), toV(2, 1, 1, 47),
					addv(1, 1, 2, 8), toV(1, 1, 1, 48), ctlV(1, 1, 1, 49), ctlV(3, 1, 1, 50), rem(1, 2, 1), toV(1, 1, 2, 51), ctlV(1, 1, 2, 52),
					{K: "bye", C: 3}, toV(1, 3, 1, 53), ctlV(1, 3, 1, 54), toV(1, 1, 1, 55)},
				// the owner is disconnected / resumed on a new connection / its writes fail: what is addressed to its virtual
				// session follows its session
				{addv(1, 1, 1, 5), toV(1, 1, 1, 60), {K: "drop", C: 1}, toV(2, 1, 1, 61), ctlV(2, 1, 1, 62),
					{K: "connect", C: 4}, {K: "hello", C: 4, Ht: "resume", Id: &hdIdRef{T: "priv", C: 1}},
					{K: "msg", C: 4, To: &hdRecipient{T: "session", Id: &hdIdRef{T: "vpub", C: 1, V: 1}}, Tag: 63},
					{K: "ctl", C: 4, To: &hdRecipient{T: "session", Id: &hdIdRef{T: "vpub", C: 1, V: 1}}, Tag: 64}, toV(2, 1, 1, 65)},
			} {
				out = append(out, &hdCase{Id: i, Mode: 1, Ops: append(append([]hdOp{}, base...), ops...)})
			}
			return out
		}})
}

// ---- C14 at the level of rooms and sessions (hub scenario of C14, descriptor props/C14H.json) ----
func TestVerifC14H(t *testing.T) {
	hdRunProperty(t, hdProp{id: "C14H", quick: 110, thorough: 1100, minOps: 22,
		opts: func(i int) hdGenOpts {
			return hdGenOpts{api: true, internal: i%3 == 0, virtual: i%6 == 0, transient: true, resume: i%2 == 0, endings: i%4 == 1}
		},
		nontrivial: func(c *hdCase, tr string) bool { return strings.Count(tr, "STransient") >= 2 },
		directed: func() []*hdCase {
			set := func(c, key, val int) hdOp { return hdOp{K: "transient", C: c, Tk: "set", Key: key, Tag: val} }
			rem := func(c, key int) hdOp { return hdOp{K: "transient", C: c, Tk: "remove", Key: key} }
			bset := func(b, room, key, val int) hdOp {
				return hdOp{K: "api", B: b, SignAs: b, R: room, Api: "transient", Tk: "set", Key: key, Tag: val}
			}
			bdel := func(b, room, key int) hdOp {
				return hdOp{K: "api", B: b, SignAs: b, R: room, Api: "transient", Tk: "delete", Key: key}
			}
			perms := func(b, room, rs int, p ...int) hdOp {
				return hdOp{K: "api", B: b, SignAs: b, R: room, Api: "participants", RawRS: true, Users: []hdApiUser{{RS: rs, InCall: 0, HasP: true, Perm: p}}}
			}
			joinP := func(c, room, rs int, p ...int) hdOp {
				o := hdJoinOp(c, room, rs)
				o.HasP, o.Perm = true, p
				return o
			}
			three := []hdOp{{K: "connect", C: 1}, {K: "connect", C: 2}, {K: "connect", C: 3},
				{K: "hello", C: 1, B: 0, U: 1}, {K: "hello", C: 2, B: 0, U: 2}, {K: "hello", C: 3, B: 0, U: 3}}
			var out []*hdCase
			id := 0
			add := func(ops ...hdOp) {
				out = append(out, &hdCase{Id: id, Mode: 1, Ops: append(append([]hdOp{}, three...), ops...)})
				id++
			}
			// initial data on join; set, the same value again, another value, remove, remove again, a set without value,
			// a type the server does not know
			add(hdJoinOp(1, 1, 1), set(1, 1, 1), set(1, 2, 2), hdJoinOp(2, 1, 2), set(2, 1, 1), set(2, 1, 3), set(1, 0, 2), rem(2, 2), rem(2, 2),
				hdJoinOp(3, 1, 3), set(3, 1, 0), set(3, 1, 0), hdOp{K: "transient", C: 3, Tk: "bogus", Key: 1, Tag: 1}, rem(1, 0), rem(1, 0), hdJoinOp(3, 0, 0), hdJoinOp(3, 1, 3))
			// a session that left the room, in every way, and the data changes afterwards (another session stays):
			// leave, switch, bye, disconnect + expiry, disinvite
			add(hdJoinOp(1, 1, 1), hdJoinOp(2, 1, 2), hdJoinOp(3, 1, 3), set(1, 1, 1), hdJoinOp(2, 0, 0), set(1, 1, 2), set(1, 2, 1), hdJoinOp(2, 1, 2), set(2, 2, 2))
			add(hdJoinOp(1, 1, 1), hdJoinOp(2, 1, 2), set(1, 1, 1), hdJoinOp(2, 2, 2), set(1, 1, 2), set(2, 1, 3), set(2, 2, 1), rem(1, 1), hdJoinOp(2, 1, 2), rem(2, 2), hdJoinOp(1, 2, 1))
			add(hdJoinOp(1, 1, 1), hdJoinOp(2, 1, 2), hdJoinOp(3, 1, 3), set(1, 1, 1), hdOp{K: "bye", C: 2}, set(1, 1, 2), set(3, 2, 2))
			add(hdJoinOp(1, 1, 1), hdJoinOp(2, 1, 2), set(1, 1, 1), hdOp{K: "drop", C: 2}, set(1, 1, 2), hdOp{K: "tick", O: 40}, set(1, 2, 2), rem(1, 1))
			add(hdJoinOp(1, 1, 1), hdJoinOp(2, 1, 2), set(1, 1, 1),
				hdOp{K: "api", B: 0, SignAs: 0, R: 1, Api: "disinvite", RawRS: true, Users: []hdApiUser{{RS: 2}}}, set(1, 1, 2), rem(1, 1))
			add(hdJoinOp(1, 1, 1), hdJoinOp(2, 1, 2), set(1, 1, 1),
				hdOp{K: "api", B: 0, SignAs: 0, R: 1, Api: "disinvite", RawRS: true, Users: []hdApiUser{{U: 2}}}, set(1, 1, 2), rem(1, 1))
			// kicked by a join with its Nextcloud session id
			add(hdJoinOp(1, 1, 1), hdJoinOp(2, 1, 2), set(1, 1, 1), hdJoinOp(3, 1, 2), set(1, 1, 2), set(3, 2, 2))
			// a resumed session: what changed while it was away is in its queue, in order; then it is a listener as before
			add(hdJoinOp(1, 1, 1), hdJoinOp(2, 1, 2), set(1, 1, 1), hdOp{K: "drop", C: 2}, set(1, 1, 2), set(1, 2, 1), rem(1, 1),
				hdOp{K: "connect", C: 4}, hdOp{K: "hello", C: 4, Ht: "resume", Id: &hdIdRef{T: "priv", C: 2}}, set(1, 1, 3), set(4, 2, 2), rem(4, 1))
			// a room that was emptied and created again starts without data; the room deleted by the backend
			add(hdJoinOp(1, 1, 1), set(1, 1, 1), set(1, 2, 2), hdJoinOp(1, 0, 0), hdJoinOp(1, 1, 1), hdJoinOp(2, 1, 2), set(2, 1, 1), hdJoinOp(1, 2, 1), hdJoinOp(2, 2, 2),
				hdJoinOp(1, 1, 1), set(1, 2, 3))
			add(hdJoinOp(1, 1, 1), hdJoinOp(2, 1, 2), set(1, 1, 1), hdOp{K: "api", B: 0, SignAs: 0, R: 1, Api: "delete"}, hdJoinOp(1, 1, 1), set(1, 1, 1), hdJoinOp(2, 1, 2))
			// who may change the data: no room, no permission, the permission granted and withdrawn by the participants API
			add(set(1, 1, 1), rem(1, 1), joinP(1, 1, 1), hdJoinOp(2, 1, 2), set(1, 1, 1), rem(1, 1), set(2, 1, 1), perms(0, 1, 1, 5), set(1, 1, 2), rem(1, 1),
				perms(0, 1, 1, 0), set(1, 1, 3), hdOp{K: "transient", C: 1, Tk: "bogus", Key: 1}, perms(0, 1, 2), set(2, 1, 2), hdJoinOp(1, 0, 0), set(1, 1, 1))
			// the room request: set / the same again / delete / delete again / without value; a room nobody is in; not
			// a request type of the HTTP API
			add(hdJoinOp(1, 1, 1), hdJoinOp(2, 1, 2), bset(0, 1, 1, 11), bset(0, 1, 1, 11), bset(0, 1, 1, 12), bset(0, 1, 2, 13), hdJoinOp(3, 1, 3), bdel(0, 1, 1), bdel(0, 1, 1),
				bset(0, 1, 2, 0), bset(0, 2, 1, 11), bdel(0, 2, 1), hdJoinOp(3, 2, 3), set(1, 1, 1), bset(0, 1, 1, 11), bdel(0, 1, 1),
				hdOp{K: "api", B: 0, SignAs: 1, R: 1, Api: "transient", Tk: "set", Key: 1, Tag: 12},
				hdOp{K: "api", B: 0, SignAs: 0, R: 1, Api: "transienthttp", Tk: "set", Key: 1, Tag: 12}, set(2, 2, 2))
			// known finding: the same JSON value from both origins (the room request carries decoded JSON, a client raw JSON):
			// setting it again from the other side is setting an unchanged value, but reflect.DeepEqual never equates the two
			// and every listener is told "set k v, old value v". The model's values are JSON values (one pool); every other
			// case keeps the two pools apart (1..3 / 11..13).
			add(hdJoinOp(1, 1, 1), hdJoinOp(2, 1, 2), bset(0, 1, 1, 1), set(1, 1, 1))
			out[len(out)-1].Finding = "C14/hub/mixed-origin-equal-value"
			add(hdJoinOp(1, 1, 1), hdJoinOp(2, 1, 2), set(2, 2, 3), bset(0, 1, 2, 3), rem(1, 2))
			out[len(out)-1].Finding = "C14/hub/mixed-origin-equal-value"
			// two rooms with the same name and keys on two backends
			two := []hdOp{{K: "connect", C: 1}, {K: "connect", C: 2}, {K: "connect", C: 3}, {K: "connect", C: 4},
				{K: "hello", C: 1, B: 0, U: 1}, {K: "hello", C: 2, B: 1, U: 1}, {K: "hello", C: 3, B: 0, U: 2}, {K: "hello", C: 4, B: 1, U: 2},
				hdJoinOp(1, 1, 1), hdJoinOp(2, 1, 2), set(1, 1, 1), set(2, 1, 2), hdJoinOp(3, 1, 3), hdJoinOp(4, 1, 4), bset(1, 1, 1, 11), bset(0, 1, 2, 12), rem(3, 1), rem(4, 2), bdel(1, 1, 1),
				hdJoinOp(1, 0, 0), hdJoinOp(3, 0, 0), set(4, 1, 3), hdJoinOp(1, 1, 1)}
			out = append(out, &hdCase{Id: id, Mode: 1, Ops: two})
			id++
			// virtual sessions are no listeners; internal clients are, and may always change the data
			virt := []hdOp{{K: "connect", C: 1}, {K: "connect", C: 2}, {K: "hello", C: 1, Ht: "internal", B: 0}, {K: "hello", C: 2, B: 0, U: 5},
				joinP(2, 1, 1), hdJoinOp(1, 1, 0), {K: "internal", C: 1, Ik: "addsession", V: 7, R: 1, U: 9}, set(1, 1, 1), set(2, 1, 2),
				{K: "internal", C: 1, Ik: "addsession", V: 8, R: 1, U: 8}, rem(1, 1), {K: "internal", C: 1, Ik: "removesession", V: 7, R: 1}, set(1, 2, 2),
				hdJoinOp(1, 2, 0), set(1, 1, 1), hdJoinOp(2, 2, 1)}
			out = append(out, &hdCase{Id: id, Mode: 1, Ops: virt})
			id++
			// the room request travels through the bus: a client's set overtakes it; the session leaves before it arrives;
			// the room is gone when it arrives
			async := append(append([]hdOp{}, three...), hdJoinOp(1, 1, 1), hdOp{K: "drain"}, hdJoinOp(2, 1, 2), hdOp{K: "drain"},
				bset(0, 1, 1, 11), set(1, 1, 1), hdOp{K: "drain"}, bset(0, 1, 2, 12), hdJoinOp(2, 2, 2), hdOp{K: "deliversubj", Sk: "backendroom"}, hdOp{K: "drain"},
				bdel(0, 1, 1), bset(0, 1, 1, 13), hdOp{K: "deliver", Subj: 1}, hdOp{K: "drain"},
				bset(0, 2, 1, 11), hdJoinOp(2, 0, 0), hdOp{K: "drain"}, hdJoinOp(2, 2, 2), hdOp{K: "drain"})
			out = append(out, &hdCase{Id: id, Mode: 2, Async: true, Ops: async})
			id++
			return out
		}})
}
