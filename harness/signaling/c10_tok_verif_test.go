//go:build verif

package signaling

// C10, protocol 2.0 hellos: tokens of every class in the frames of the pre-hello state.
//
// A token depends on the moment it is made and on key pairs that exist per process, so a
// frame names it by a placeholder the child process substitutes when the frame is sent:
//
//	@TOK:<b>:<alg>:<signer>:<iat>:<nbf>:<exp>:<garble>@
//
// b: backend the token is issued for (iss = its URL); alg: index into hdV2Algs; signer: 0 a key
// nobody publishes, k+1 the key pair of backend k (hdV2Token; a signer that cannot sign with the
// method is replaced by a spare key); iat/nbf/exp: seconds relative to the moment of sending, "_"
// absent; garble: what is done to the finished token (below).  For the model the token is
// an opaque non-empty string (it stays the placeholder in the cases file): what the server makes of
// it is the handler's business (model/Hub.v, C01), here the frame is dispatched to processHello and
// the answer must be a hello reply or an error with a code, carrying the id of the request.
//
// The child hubs have two configured backends: 0 publishes an RSA key, 1 (family ECDSA) publishes
// NO key; @BURL1@ is the auth URL of backend 1, @BURLX@ the auth URL of a live application that is
// not configured.

import (
	"encoding/base64"
	"fmt"
	"regexp"
	"strconv"
	"strings"
)

const (
	c10Burl1 = "@BURL1@" // auth URL of the configured backend that publishes no token key
	c10BurlX = "@BURLX@" // auth URL of an application that is not a configured backend
)

var c10TokRe = regexp.MustCompile(`@TOK:(\d+):(\d+):(\d+):(-?\d+|_):(-?\d+|_):(-?\d+|_):([a-z0-9]*)@`)

func c10TokPlaceholder(b int, t *hdV2Tok, garble string) string {
	o := func(p *int) string {
		if p == nil {
			return "_"
		}
		return strconv.Itoa(*p)
	}
	return fmt.Sprintf("@TOK:%d:%d:%d:%s:%s:%s:%s@", b, t.Alg, t.Signer, o(t.Iat), o(t.Nbf), o(t.Exp), garble)
}

func c10B64url(s string) string { return base64.RawURLEncoding.EncodeToString([]byte(s)) }

// what can be done to a finished token: part (h header, p payload, s signature) x
// (b: not base64, j: base64 of something that is not JSON / not a signature, e: empty);
// ax / am / an: the header names an unknown method / no method / a number as method;
// x2 / x4: two / four segments
var c10TokGarbles = []string{"hb", "hj", "he", "pb", "pj", "pe", "sb", "sj", "se", "ax", "am", "an", "x2", "x4"}

func c10Garble(tok, g string) string {
	parts := strings.Split(tok, ".")
	if g == "" || len(parts) != 3 {
		return tok
	}
	switch g {
	case "ax":
		parts[0] = c10B64url(`{"alg":"XX999","typ":"JWT"}`)
	case "am":
		parts[0] = c10B64url(`{"typ":"JWT"}`)
	case "an":
		parts[0] = c10B64url(`{"alg":5,"typ":"JWT"}`)
	case "x2":
		parts = parts[:2]
	case "x4":
		parts = append(parts, "eA")
	default:
		idx := strings.IndexByte("hps", g[0])
		if idx < 0 || len(g) != 2 {
			return tok
		}
		switch g[1] {
		case 'b':
			parts[idx] = "!!!~"
		case 'j':
			parts[idx] = c10B64url("this is not json")
		case 'e':
			parts[idx] = ""
		}
	}
	return strings.Join(parts, ".")
}

// tokenPairs returns the replacer pairs (placeholder, token) for every token placeholder in text
func (f *c10Fix) tokenPairs(text string) []string {
	var pairs []string
	seen := map[string]bool{}
	for _, m := range c10TokRe.FindAllStringSubmatch(text, -1) {
		if seen[m[0]] {
			continue
		}
		seen[m[0]] = true
		num := func(s string) int { n, _ := strconv.Atoi(s); return n }
		opt := func(s string) *int {
			if s == "_" {
				return nil
			}
			return hdIntp(num(s))
		}
		t := &hdV2Tok{Alg: num(m[2]), Signer: num(m[3]), Iat: opt(m[4]), Nbf: opt(m[5]), Exp: opt(m[6])}
		tok, _ := f.sys.hdV2Token(num(m[1]), 3, t)
		pairs = append(pairs, m[0], c10Garble(tok, m[7]))
	}
	return pairs
}

func c10HelloV2(id, authType, url, token string, more ...vjm) *vj {
	auth := []vjm{}
	if authType != "" {
		auth = append(auth, kv("type", js(authType)))
	}
	auth = append(auth, kv("url", js(url)), kv("params", jo(kv("token", js(token)))))
	return c10Msg(id, "hello", kv("hello", jo(append([]vjm{kv("version", js("2.0")), kv("auth", jo(auth...))}, more...)...)))
}

type c10TokClass struct {
	name   string
	b      int
	tok    hdV2Tok
	garble string
}

// the directed token classes: backend 0 publishes an RSA key
func c10TokClasses() []c10TokClass {
	p := hdIntp
	good := hdV2Tok{Alg: 0, Signer: 1, Iat: p(-5), Exp: p(300)}
	with := func(f func(t *hdV2Tok)) hdV2Tok { t := good; f(&t); return t }
	l := []c10TokClass{
		{"good-rs256", 0, good, ""},
		{"good-rs384", 0, with(func(t *hdV2Tok) { t.Alg = 1 }), ""},
		{"good-rs512", 0, with(func(t *hdV2Tok) { t.Alg = 2 }), ""},
		{"good-nbf", 0, with(func(t *hdV2Tok) { t.Nbf = p(-10) }), ""},
		{"good-leeway-iat", 0, with(func(t *hdV2Tok) { t.Iat = p(30) }), ""},
		{"good-leeway-exp", 0, with(func(t *hdV2Tok) { t.Iat, t.Exp = p(-100), p(-30) }), ""},
		// another family than the published key's: the key cannot be loaded for the method
		{"family-es256", 0, with(func(t *hdV2Tok) { t.Alg, t.Signer = 3, 0 }), ""},
		{"family-es384", 0, with(func(t *hdV2Tok) { t.Alg, t.Signer = 4, 0 }), ""},
		{"family-es512", 0, with(func(t *hdV2Tok) { t.Alg, t.Signer = 5, 0 }), ""},
		{"family-eddsa", 0, with(func(t *hdV2Tok) { t.Alg, t.Signer = 6, 0 }), ""},
		{"family-es256-other-backend-key", 0, with(func(t *hdV2Tok) { t.Alg, t.Signer = 3, 2 }), ""},
		{"alg-none", 0, with(func(t *hdV2Tok) { t.Alg = 8 }), ""},
		{"alg-hs256-key-text", 0, with(func(t *hdV2Tok) { t.Alg = 7 }), ""},
		{"key-unpublished-rs256", 0, with(func(t *hdV2Tok) { t.Signer = 0 }), ""},
		{"key-unpublished-rs512", 0, with(func(t *hdV2Tok) { t.Alg, t.Signer = 2, 0 }), ""},
		{"expired", 0, with(func(t *hdV2Tok) { t.Iat, t.Exp = p(-600), p(-500) }), ""},
		{"not-yet-valid", 0, with(func(t *hdV2Tok) { t.Nbf = p(500) }), ""},
		{"issued-in-future", 0, with(func(t *hdV2Tok) { t.Iat, t.Exp = p(500), p(900) }), ""},
		{"no-iat", 0, with(func(t *hdV2Tok) { t.Iat = nil }), ""},
		{"no-exp", 0, with(func(t *hdV2Tok) { t.Exp = nil }), ""},
		{"exp-before-iat", 0, with(func(t *hdV2Tok) { t.Iat, t.Exp = p(-10), p(-40) }), ""},
		{"no-time-claims", 0, with(func(t *hdV2Tok) { t.Iat, t.Exp = nil, nil }), ""},
		// time claims wrong AND a key that cannot be loaded: the first failure decides
		{"expired-family-es256", 0, with(func(t *hdV2Tok) { t.Alg, t.Signer, t.Iat, t.Exp = 3, 0, p(-600), p(-500) }), ""},
	}
	for _, g := range c10TokGarbles {
		l = append(l, c10TokClass{"garbled-" + g, 0, good, g})
	}
	return l
}

// tokens for the configured backend that publishes no key (backend 1; its own key pair is ECDSA)
func c10TokNoKeyClasses() []c10TokClass {
	p := hdIntp
	good := hdV2Tok{Alg: 3, Signer: 2, Iat: p(-5), Exp: p(300)}
	return []c10TokClass{
		{"nokey-own-es256", 1, good, ""},
		{"nokey-rs256", 1, hdV2Tok{Alg: 0, Signer: 0, Iat: p(-5), Exp: p(300)}, ""},
		{"nokey-eddsa", 1, hdV2Tok{Alg: 6, Signer: 0, Iat: p(-5), Exp: p(300)}, ""},
		{"nokey-alg-none", 1, hdV2Tok{Alg: 8, Signer: 0, Iat: p(-5), Exp: p(300)}, ""},
		{"nokey-expired", 1, hdV2Tok{Alg: 3, Signer: 2, Iat: p(-600), Exp: p(-500)}, ""},
		{"nokey-garbled-sj", 1, good, "sj"},
		{"nokey-garbled-hb", 1, good, "hb"},
	}
}

// the frames: every token class as client hello and as federation hello before hello (state 0);
// a sample on connections that have a session (a hello there is ignored)
func (g *c10Gen) tokenItems() {
	add := func(class string, doc *vj, home ...int) {
		g.items = append(g.items, c10Item{class, doc, home})
		g.hist["hello_v2_tokens"] += len(home)
	}
	for _, c := range c10TokClasses() {
		ph := c10TokPlaceholder(c.b, &c.tok, c.garble)
		add("token/client/"+c.name, c10HelloV2("hv2", "", c10Burl, ph), 0)
		add("token/federation/"+c.name, c10HelloV2("hv2f", "federation", c10Burl, ph), 0)
	}
	for _, c := range c10TokNoKeyClasses() {
		ph := c10TokPlaceholder(c.b, &c.tok, c.garble)
		add("token/client/"+c.name, c10HelloV2("hv2n", "", c10Burl1, ph), 0)
		add("token/federation/"+c.name, c10HelloV2("hv2nf", "federation", c10Burl1, ph), 0)
	}
	good := c10TokClasses()[0]
	gph := c10TokPlaceholder(0, &good.tok, "")
	// a good token of backend 0 presented for other backends
	add("token/client/good-for-keyless-backend", c10HelloV2("hv2o", "", c10Burl1, gph), 0)
	add("token/client/unconfigured-backend", c10HelloV2("hv2x", "", c10BurlX, gph), 0)
	add("token/federation/unconfigured-backend", c10HelloV2("hv2xf", "federation", c10BurlX, gph), 0)
	add("token/client/unconfigured-backend-family", c10HelloV2("hv2x", "", c10BurlX, c10TokPlaceholder(0, &hdV2Tok{Alg: 3, Iat: hdIntp(-5), Exp: hdIntp(300)}, "")), 0)
	// without id, with features, with a resume id next to the auth member (the resume id wins)
	es := c10TokPlaceholder(0, &hdV2Tok{Alg: 3, Iat: hdIntp(-5), Exp: hdIntp(300)}, "")
	noId := c10HelloV2("x", "", c10Burl, es)
	noId.O = noId.O[1:]
	add("token/client/family-es256-no-id", noId, 0)
	add("token/client/family-eddsa-features", c10HelloV2("hv2ft", "", c10Burl, c10TokPlaceholder(0, &hdV2Tok{Alg: 6, Iat: hdIntp(-5), Exp: hdIntp(300)}, ""), kv("features", ja(js("f1"), js("f2")))), 0)
	// the version decides, not the token: a 2.0 token in a 1.0 hello is a ticket the backend judges
	add("token/v1-with-token", c10SetPath(c10HelloV2("hv1t", "", c10Burl, gph), []string{"hello", "version"}, js("1.0")), 0)
	// on connections with a session a hello is ignored whatever its token
	add("token/session/good", c10HelloV2("hv2s", "", c10Burl, gph), 1, 2, 3)
	add("token/session/family-es256", c10HelloV2("hv2s", "", c10Burl, c10TokPlaceholder(0, &hdV2Tok{Alg: 3, Iat: hdIntp(-5), Exp: hdIntp(300)}, "")), 1, 2, 3)
	add("token/session/nokey", c10HelloV2("hv2s", "", c10Burl1, c10TokPlaceholder(1, &hdV2Tok{Alg: 3, Signer: 2, Iat: hdIntp(-5), Exp: hdIntp(300)}, "")), 1, 2)
}

// The lifetime claims once more, beyond the classes above: every way a correctly signed token can fail to be
// "currently time-valid" (P_C10: must_refuse_hello - no iat, no exp, exp before iat, exp / iat / nbf beyond twice
// the leeway) and the neighbours that are valid, each as client hello (auth type absent and written out) and as
// federation hello, with the three RSA methods: the server has one code path per auth type (its own claims type),
// so a check that is made for one type only shows here.
func c10TokTimeClasses() []c10TokClass {
	p := hdIntp
	tk := func(alg int, iat, nbf, exp *int) hdV2Tok { return hdV2Tok{Alg: alg, Signer: 1, Iat: iat, Nbf: nbf, Exp: exp} }
	return []c10TokClass{
		{"no-exp-issued-long-ago", 0, tk(0, p(-31536000), nil, nil), ""},
		{"no-exp-rs512", 0, tk(2, p(-5), nil, nil), ""},
		{"no-exp-with-nbf", 0, tk(0, p(-5), p(-5), nil), ""},
		{"no-iat-with-nbf", 0, tk(0, nil, p(-10), p(300)), ""},
		{"no-iat-rs384", 0, tk(1, nil, nil, p(300)), ""},
		{"nbf-only", 0, tk(0, nil, p(-5), nil), ""},
		{"exp-before-iat-both-in-leeway", 0, tk(0, p(30), nil, p(-30)), ""},
		{"exp-before-iat-future", 0, tk(0, p(40), nil, p(20)), ""},
		{"exp-before-iat-by-one", 0, tk(0, p(-5), nil, p(-6)), ""},
		{"exp-equals-iat", 0, tk(0, p(-5), nil, p(-5)), ""},
		{"expired-a-day-ago", 0, tk(0, p(-90000), nil, p(-86400)), ""},
		{"expired-just-beyond", 0, tk(0, p(-600), nil, p(-125)), ""},
		{"issued-just-beyond", 0, tk(0, p(125), nil, p(900)), ""},
		{"nbf-just-beyond", 0, tk(0, p(-5), p(125), p(900)), ""},
		{"valid-long", 0, tk(2, p(-5), p(-5), p(86400)), ""},
	}
}

func (g *c10Gen) tokenTimeItems() {
	for _, c := range c10TokTimeClasses() {
		ph := c10TokPlaceholder(c.b, &c.tok, c.garble)
		for _, ty := range []string{"", "client", "federation"} {
			n := ty
			if n == "" {
				n = "default"
			}
			g.items = append(g.items, c10Item{"token-time/" + n + "/" + c.name, c10HelloV2("hvt", ty, c10Burl, ph), []int{0}})
			g.hist["hello_v2_tokens"]++
		}
	}
}

// one random 2.0 hello for the seeded stream: a good token or a mutation of one (hdV2Mutate: the
// classes of the hub generators), sometimes garbled, for one of the three backends, as client or federation
func c10RandomTokenItem(r *vrng) c10Item {
	b := 0
	url := c10Burl
	switch r.intn(6) {
	case 0:
		b, url = 1, c10Burl1
	case 1:
		url = c10BurlX
	}
	t := hdV2Good(r, b)
	what := "good"
	if r.chance(75) {
		t = hdV2Mutate(r, b, 2, t)
		what = "mutated"
	}
	garble := ""
	if r.chance(20) {
		garble = c10TokGarbles[r.intn(len(c10TokGarbles))]
		what += "-" + garble
	}
	ty := ""
	if r.chance(30) {
		ty = "federation"
	}
	return c10Item{class: fmt.Sprintf("token/random/%s", what), doc: c10HelloV2(fmt.Sprintf("hr%d", r.intn(1000)), ty, url, c10TokPlaceholder(b, t, garble))}
}
