//go:build verif

package signaling

import (
	"fmt"
)

// ---- C17: isolation between (address,kind) records --------------------------
//
// "Failures of one address or kind never throttle another": for every
// (address,kind) of a case the history restricted to it (its own attempts,
// probes, and all clean-ups) is executed on a fresh throttler; the Coq judge
// compares what the key was answered in both runs (corr/Run_C17.v, P_C17_iso,
// verdict code 5).  The restriction is recomputed in Coq from the full trace;
// only the answers of the restricted run are handed over.

func c17OpKey(o c17Op) string {
	if o.K == "cleanup" {
		return ""
	}
	return o.A.keyCoq(o.Act)
}

// keys of a case in order of first occurrence
func c17Keys(c *c17Case) []string {
	var keys []string
	seen := map[string]bool{}
	for _, o := range c.Ops {
		k := c17OpKey(o)
		if k != "" && !seen[k] {
			seen[k] = true
			keys = append(keys, k)
		}
	}
	return keys
}

// c17Projections runs, for every key of the case, the history restricted to
// that key on a fresh throttler and returns the Coq term of type projections.
func c17Projections(c *c17Case) (term string, runs int) {
	keys := c17Keys(c)
	if len(keys) < 2 {
		// a single key: the restricted history is the history
		return "[]", 0
	}
	var items []string
	for _, k := range keys {
		sub := &c17Case{Id: c.Id, Mode: c.Mode}
		for _, o := range c.Ops {
			if ok := c17OpKey(o); ok == "" || ok == k {
				sub.Ops = append(sub.Ops, o)
			}
		}
		_, outs, _, _ := c17Run(sub)
		items = append(items, fmt.Sprintf("(%s, %s)", k, coqList(outs)))
		runs++
	}
	return coqList(items), runs
}

// ---- generator: records of several kinds / addresses with different ages -----
//
// The class: one record (address,kind A) is old enough to be pruned in place by
// the next attempt on it (older than twelve hours and no housekeeping tick in
// between - the tick comes once a minute, attempts come whenever they like),
// while records of other kinds of the same address, of the same kind of other
// addresses and of the other addresses of its /64 are fresh.  Pruning,
// refusing, recording and forgetting on A must leave all of those alone.

func c17GenAging(r *vrng, id int) *c17Case {
	v4 := []c17Addr{{K: 4, N: 0x0a000001}, {K: 4, N: 0xc0a80101}, {K: 4, N: 0x7f000001}}
	v6a := []c17Addr{{K: 6, Hi: 0x20010db800000001, Lo: 1}, {K: 6, Hi: 0x20010db800000001, Lo: 0xffff00000000abcd, F: 1}, {K: 6, Hi: 0x20010db800000001, Lo: 77, F: 2}}
	v6b := c17Addr{K: 6, Hi: 0x20010db800000002, Lo: 1}
	raw := c17Addr{K: 0, N: uint64(r.intn(len(c17Raw)))}

	// the address whose kind A grows old, and the fresh bystanders
	var x c17Addr
	var others []c17Addr // other addresses (other records)
	var same []c17Addr   // other spellings / hosts of the same record
	switch r.intn(4) {
	case 0:
		x = pick(r, v4)
		others = []c17Addr{v6b, raw, {K: 4, N: x.N ^ 1}}
	case 1, 2:
		x = v6a[0]
		same = v6a[1:]
		others = []c17Addr{v6b, pick(r, v4)}
	default:
		x = raw
		others = []c17Addr{pick(r, v4), v6b}
	}
	actA := r.intn(3)
	actB := (actA + 1 + r.intn(2)) % 3

	c := &c17Case{Id: id, Mode: 1}
	t := int64(r.intn(1000)) * c17Sec
	add := func(k string, a c17Addr, act int, fail bool) {
		c.Ops = append(c.Ops, c17Op{K: k, T: t, A: a, Act: act, Fail: fail})
	}
	small := func() { t += c17Steps[r.intn(8)] }
	host := func() c17Addr { // a host of x's record
		if len(same) > 0 && r.chance(50) {
			return pick(r, same)
		}
		return x
	}

	// phase 1: kind A of x fails (1..11 times), sometimes bystanders too
	na := 1 + r.intn(3)
	if r.chance(15) {
		na = 9 + r.intn(3)
	}
	for i := 0; i < na; i++ {
		add("attempt", host(), actA, true)
		small()
		if r.chance(20) {
			add("attempt", pick(r, others), actA, true)
			small()
		}
	}
	// phase 2: the records of phase 1 grow old (on either side of twelve hours), no clean-up
	t += pick(r, []int64{12*c17Hour - 1, 12 * c17Hour, 12*c17Hour + 1, 12*c17Hour + c17Min, 13 * c17Hour, 30 * c17Hour})
	// phase 3: fresh failures of kind B of x (and of bystanders)
	nb := 2 + r.intn(5)
	if r.chance(35) {
		nb = 10 + r.intn(3)
	}
	for i := 0; i < nb; i++ {
		add("attempt", host(), actB, true)
		small()
		if r.chance(25) {
			add("attempt", pick(r, others), pick(r, []int{actA, actB}), true)
			small()
		}
	}
	// phase 4: something happens to kind A of x: an attempt (failing or not), a probe, a clean-up
	for i, n := 0, 1+r.intn(2); i < n; i++ {
		switch {
		case r.chance(70):
			add("attempt", host(), actA, r.chance(50))
		case r.chance(50):
			add("probe", host(), actA, false)
		default:
			c.Ops = append(c.Ops, c17Op{K: "cleanup", T: t})
		}
		small()
	}
	// phase 5: kind B of x again, and the bystanders
	for i, n := 0, 1+r.intn(3); i < n; i++ {
		add("attempt", host(), actB, r.chance(85))
		small()
		if r.chance(30) {
			add("attempt", pick(r, others), pick(r, []int{actA, actB}), true)
			small()
		}
	}
	add("probe", x, actB, false)
	add("probe", x, actA, false)
	return c
}

// directed members of the class (run first on every run)
func c17Directed() []*c17Case {
	a4 := c17Addr{K: 4, N: 0xc0a80009}
	a6 := c17Addr{K: 6, Hi: 0x20010db8000000aa, Lo: 5}
	a6b := c17Addr{K: 6, Hi: 0x20010db8000000aa, Lo: 0xffff, F: 1}
	b4 := c17Addr{K: 4, N: 0xc0a8000a}
	var out []*c17Case
	mk := func(id int, f func(add func(k string, t int64, a c17Addr, act int, fail bool))) {
		c := &c17Case{Id: id, Mode: 1}
		f(func(k string, t int64, a c17Addr, act int, fail bool) {
			c.Ops = append(c.Ops, c17Op{K: k, T: t, A: a, Act: act, Fail: fail})
		})
		out = append(out, c)
	}
	// delays of kind 2 keep growing across the in-place expiry of kind 1 (successful attempt of kind 1)
	mk(1000, func(add func(string, int64, c17Addr, int, bool)) {
		add("attempt", 0, a4, 1, true)
		add("attempt", 5*c17Sec, a4, 1, true)
		t := 12*c17Hour + 6*c17Sec
		for i := 0; i < 4; i++ {
			add("attempt", t+int64(i)*c17Sec, a4, 2, true)
		}
		add("attempt", t+10*c17Sec, a4, 1, false)
		add("attempt", t+11*c17Sec, a4, 2, true)
		add("probe", t+11*c17Sec, a4, 2, false)
	})
	// a /64 refused for kind 0 stays refused when its kind 2 expires in place; another host of the /64 asks
	mk(1001, func(add func(string, int64, c17Addr, int, bool)) {
		add("attempt", 0, a6, 2, true)
		t := 13 * c17Hour
		for i := 0; i < 10; i++ {
			add("attempt", t+int64(i)*7*c17Sec, a6, 0, true)
		}
		add("attempt", t+71*c17Sec, a6b, 0, true) // refused
		add("attempt", t+72*c17Sec, a6b, 2, true) // kind 2: old record goes, this failure is recorded
		add("attempt", t+73*c17Sec, a6, 0, true)  // still refused
		add("attempt", t+31*c17Min, a6, 0, true)  // window has passed for the first failure only
		add("probe", t+31*c17Min, a6b, 0, false)
	})
	// same kind, two addresses: expiry of one address's record leaves the other's alone
	mk(1002, func(add func(string, int64, c17Addr, int, bool)) {
		add("attempt", 0, a4, 0, true)
		t := 12*c17Hour + 1
		for i := 0; i < 3; i++ {
			add("attempt", t+int64(i), b4, 0, true)
		}
		add("attempt", t+5, a4, 0, true)
		add("attempt", t+6, b4, 0, true)
		add("probe", t+6, b4, 0, false)
		add("probe", t+6, a4, 0, false)
	})
	return out
}
