//go:build verif

package signaling

import (
	"context"
	"fmt"
	"strings"
	"sync"
	"time"
)

// ---- C17: attempts while the replies to failed attempts are being delayed ----
//
// Schedules (mode 3) on the real memoryThrottler whose doDelay blocks on a gate
// instead of sleeping: "sleep" = a failing attempt whose delay is held until the
// end of the case.  While any number of such replies are being delayed, every
// attempt, probe and clean-up that concerns ANOTHER (address,kind) has to be
// answered at once (deadline: one second) - "failures of one address or kind
// never throttle another".  An op that is not answered is a direct observation
// ("blocked", verdict code 9) with the schedule as replay.  Answered schedules
// are also compared with the model (a sleep is a check followed by the
// recording of the failure, the held delay is the VDelay).

const c17Deadline = time.Second

type c17GateResult struct {
	trace     []string
	outs      []string
	blockedAt int    // index of the op that was not answered, -1 = none
	what      string // description of the blocked call
	sleeping  []int  // indices of the sleep ops being delayed at that moment
}

func c17Within(d time.Duration, f func()) bool {
	done := make(chan struct{})
	go func() { f(); close(done) }()
	select {
	case <-done:
		return true
	case <-time.After(d):
		return false
	}
}

func c17RunGated(c *c17Case, deadline time.Duration) c17GateResult {
	res := c17GateResult{blockedAt: -1}
	var mu sync.Mutex
	var cur time.Time
	entered := make(chan time.Duration, 64)
	release := make(chan struct{})
	th := &memoryThrottler{
		clients: make(map[string]map[string][]throttleEntry),
		closer:  NewCloser(),
	}
	th.getNow = func() time.Time { mu.Lock(); defer mu.Unlock(); return cur }
	th.doDelay = func(ctx context.Context, d time.Duration) {
		entered <- d
		<-release
	}
	ctx := context.Background()
	var wg sync.WaitGroup
	emit := func(op, v string) {
		res.trace = append(res.trace, fmt.Sprintf("(%s, %s)", op, v))
		res.outs = append(res.outs, v)
	}
	for i, o := range c.Ops {
		mu.Lock()
		cur = c17Epoch.Add(time.Duration(o.T))
		mu.Unlock()
		client, action := o.A.text(), ""
		if o.K != "cleanup" {
			action = c17Actions[o.Act]
		}
		blocked := func(call string) {
			res.blockedAt = i
			res.what = fmt.Sprintf("%s for address %q, kind %q", call, client, action)
		}
		switch o.K {
		case "sleep", "check":
			var f ThrottleFunc
			var err error
			if !c17Within(deadline, func() { f, err = th.CheckBruteforce(ctx, client, action) }) {
				blocked("CheckBruteforce")
				break
			}
			v := "VAllowed"
			if err == ErrBruteforceDetected {
				v = "VBlocked"
			} else if err != nil {
				v = "VNone"
			}
			emit(fmt.Sprintf("OCheck %s %s %d", c17Z(o.T), o.A.coq(), o.Act), v)
			if o.K == "sleep" && err == nil {
				wg.Add(1)
				go func() { defer wg.Done(); f(ctx) }()
				select {
				case d := <-entered:
					emit(fmt.Sprintf("OFail %s %s %d", c17Z(o.T), o.A.coq(), o.Act), "VDelay "+c17Z(int64(d)))
					res.sleeping = append(res.sleeping, i)
				case <-time.After(deadline):
					blocked("recording the failure (throttle function, before its delay)")
				}
			}
		case "cleanup":
			if !c17Within(deadline, func() { th.cleanup(c17Epoch.Add(time.Duration(o.T))) }) {
				blocked("cleanup (housekeeping tick)")
				break
			}
			emit(fmt.Sprintf("OCleanup %s", c17Z(o.T)), "VNone")
		case "probe":
			n := 0
			if !c17Within(deadline, func() { n = len(th.getEntries(client, action)) }) {
				blocked("getEntries")
				break
			}
			emit(fmt.Sprintf("OProbe %s %s %d", c17Z(o.T), o.A.coq(), o.Act), fmt.Sprintf("VCount %d", n))
		}
		if res.blockedAt >= 0 {
			break
		}
	}
	close(release)
	c17Within(5*time.Second, wg.Wait)
	return res
}

// c17GenGated: 1-4 replies being delayed on distinct records, in between and
// afterwards attempts / probes / clean-ups on records none of which is asleep.
func c17GenGated(r *vrng, id int) *c17Case {
	pool := []c17Addr{
		{K: 4, N: 0x0a000001}, {K: 4, N: 0x0a000002}, {K: 4, N: 0x7f000001},
		{K: 6, Hi: 0x20010db800000001, Lo: 1}, {K: 6, Hi: 0x20010db800000001, Lo: 0xabcd, F: 1},
		{K: 6, Hi: 0x20010db800000002, Lo: 1}, {K: 0, N: uint64(r.intn(len(c17Raw)))},
	}
	c := &c17Case{Id: id, Mode: 3}
	asleep := map[string]bool{}
	t := int64(r.intn(1000)) * c17Sec
	// a record that is awake, preferably related to a sleeping one (same address other kind, same kind other address)
	awake := func() (c17Addr, int, bool) {
		for try := 0; try < 20; try++ {
			a, act := pick(r, pool), r.intn(3)
			if !asleep[a.keyCoq(act)] {
				return a, act, true
			}
		}
		return c17Addr{}, 0, false
	}
	n := 3 + r.intn(6)
	sleeps := 0
	for i := 0; i < n; i++ {
		t += c17Steps[r.intn(8)]
		a, act, ok := awake()
		if !ok {
			break
		}
		switch {
		case sleeps == 0 || (sleeps < 4 && r.chance(30)):
			c.Ops = append(c.Ops, c17Op{K: "sleep", T: t, A: a, Act: act})
			asleep[a.keyCoq(act)] = true
			sleeps++
		case r.chance(12):
			c.Ops = append(c.Ops, c17Op{K: "cleanup", T: t})
		case r.chance(20):
			c.Ops = append(c.Ops, c17Op{K: "probe", T: t, A: a, Act: act})
		default:
			c.Ops = append(c.Ops, c17Op{K: "check", T: t, A: a, Act: act})
		}
	}
	return c
}

// smallest schedule that still shows the observation: one of the sleepers plus the op that was not answered
func c17ShrinkGated(c *c17Case, res c17GateResult, deadline time.Duration) (*c17Case, c17GateResult) {
	for _, si := range res.sleeping {
		small := &c17Case{Id: c.Id, Mode: 3, Ops: []c17Op{c.Ops[si], c.Ops[res.blockedAt]}}
		if r2 := c17RunGated(small, deadline); r2.blockedAt == 1 {
			return small, r2
		}
	}
	return &c17Case{Id: c.Id, Mode: 3, Ops: append([]c17Op{}, c.Ops[:res.blockedAt+1]...)}, res
}

func c17GatedWhat(c *c17Case, res c17GateResult) string {
	var s []string
	for _, i := range res.sleeping {
		o := c.Ops[i]
		s = append(s, fmt.Sprintf("(%s, %s)", o.A.text(), c17Actions[o.Act]))
	}
	return fmt.Sprintf("blocked: %s was not answered within %v while the replies to failed attempts of %s were being delayed (none of them concerns that address and kind)",
		res.what, c17Deadline, strings.Join(s, ", "))
}

// c17GatedCase executes one schedule; returns false when the case was reported as a direct violation
func c17GatedCase(c *c17Case, sink *caseSink, shrink bool) bool {
	res := c17RunGated(c, c17Deadline)
	if res.blockedAt >= 0 {
		rc, rres := c, res
		if shrink {
			rc, rres = c17ShrinkGated(c, res, c17Deadline)
		}
		sink.count("gated_blocked")
		sink.violation(c.Id, c17GatedWhat(rc, rres), rc)
		return false
	}
	c.Outs = res.outs
	sink.count("mode3")
	sink.count(fmt.Sprintf("gated_sleepers_%d", len(res.sleeping)))
	// judged like an ordered interleaving (window predicate); every answered op is compared with the model
	sink.add(fmt.Sprintf("mkcase %d 2 %s", c.Id, coqList(res.trace)), c, len(res.sleeping) > 0 && len(res.outs) >= 3, strings.Join(res.outs, ","))
	return true
}
