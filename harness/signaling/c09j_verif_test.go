//go:build verif

// C09 at the level of the real mcuJanus (scenario C09J): histories of NewPublisher / NewSubscriber / Close / loss of
// the gateway / doReconnect on the real mcuJanus and the repository's TestJanusGateway, recorded step by step
// (result of the call, what the listeners were told, a digest of the gateway's handles and rooms with their owners
// and of mcu.clients / mcu.publishers / every client object) for coq/corr/Run_C09J.v.
//
// Failure injection: c09jGateway wraps the TestJanusGateway (same maps, same request processing) and can make
// send fail (gateway unreachable; "destroy" / "detach" / "create" refused); "the gateway restarted" wipes the
// TestJanusGateway's sessions, handles and rooms as the demonstration of the seeded change does.  A reconnect is
// always to a gateway that has forgotten everything: the createJanusGateway hook wipes the maps.
package signaling

import (
	"context"
	"errors"
	"fmt"
	"io"
	"log"
	"sort"
	"strings"
	"sync"
	"testing"
	"time"
)

type c09jOp struct {
	K    string   `json:"k"` // newpub newsub close closeall gwdown gwup reconnect
	O    int      `json:"o,omitempty"`
	S    int      `json:"s,omitempty"`
	T    int      `json:"t,omitempty"`
	C    int      `json:"c,omitempty"`
	Rc   bool     `json:"rc,omitempty"`
	Rd   bool     `json:"rd,omitempty"`
	Rt   bool     `json:"rt,omitempty"`
	Wipe bool     `json:"wipe,omitempty"`
	Fail [][2]int `json:"fail,omitempty"`
}

type c09jCase struct {
	Id      int      `json:"id"`
	Family  string   `json:"family,omitempty"`
	Finding string   `json:"finding,omitempty"`
	Ops     []c09jOp `json:"ops"`
}

const (
	c09jMcuTimeout = 40 * time.Millisecond
	c09jSubTimeout = 25 * time.Millisecond
	c09jNobody     = 999999
)

// ---- the gateway with failure injection ------------------------------------------------------------

type c09jGateway struct {
	*TestJanusGateway
	fmu           sync.Mutex
	unreachable   bool
	refuseDestroy bool
	refuseDetach  bool
	refuseCreate  bool
	refuseKeys    map[string]bool
	requests      int
}

func (g *c09jGateway) Create(ctx context.Context) (*JanusSession, error) {
	s, err := g.TestJanusGateway.Create(ctx)
	if s != nil {
		s.gateway = g
	}
	return s, err
}

func (g *c09jGateway) send(msg map[string]interface{}, t *transaction) (uint64, error) {
	g.fmu.Lock()
	g.requests++
	refuse := g.unreachable
	if !refuse {
		switch msg["janus"] {
		case "detach":
			refuse = g.refuseDetach
		case "message":
			if body, ok := msg["body"].(map[string]interface{}); ok {
				switch body["request"] {
				case "destroy":
					refuse = g.refuseDestroy
				case "create":
					if g.refuseCreate {
						refuse = true
					} else if d, ok := body["description"].(string); ok && g.refuseKeys[d] {
						refuse = true
					}
				}
			}
		}
	}
	g.fmu.Unlock()
	if refuse {
		return 0, errors.New("c09j: the gateway does not answer this request")
	}
	return g.TestJanusGateway.send(msg, t)
}

func (g *c09jGateway) set(f func(g *c09jGateway)) {
	g.fmu.Lock()
	f(g)
	g.fmu.Unlock()
}

func (g *c09jGateway) wipe() {
	g.TestJanusGateway.mu.Lock()
	clear(g.TestJanusGateway.sessions)
	clear(g.TestJanusGateway.handles)
	clear(g.TestJanusGateway.rooms)
	g.TestJanusGateway.mu.Unlock()
}

// ---- one run ------------------------------------------------------------------------------------------

type c09jMeta struct {
	kind, owner, s, t int // kind 0 publisher, 1 subscriber
}

type c09jRun struct {
	mcu         *mcuJanus
	gw          *c09jGateway
	objs        map[int]McuClient
	meta        map[int]c09jMeta
	closedKnown map[int]bool
	handleOwner map[uint64]int
	roomOwner   map[uint64]int
	emu         sync.Mutex
	events      []string
	evClosed    []int
	panics      int
	broken      map[int]bool // clients whose Close panicked or blocked
}

// Close of a client; a panic (possible only on changed code: close of a closed channel, which leaves the
// client's mutex locked so that a later Close blocks) is caught and reported, a blocked Close abandoned
func c09jSafeClose(c McuClient) (failed bool) {
	done := make(chan bool, 1)
	go func() {
		defer func() {
			if r := recover(); r != nil {
				done <- true
			}
		}()
		c.Close(context.Background())
		done <- false
	}()
	select {
	case failed = <-done:
		return failed
	case <-time.After(2 * time.Second):
		return true
	}
}

type c09jListener struct {
	h  *c09jRun
	id string
}

func c09jClientId(c interface{}) int {
	switch v := c.(type) {
	case *mcuJanusPublisher:
		return int(v.mcuJanusClient.id)
	case *mcuJanusSubscriber:
		return int(v.mcuJanusClient.id)
	}
	return c09jNobody
}

func (l *c09jListener) note(kind string, c interface{}, closed bool) {
	id := c09jClientId(c)
	l.h.emu.Lock()
	l.h.events = append(l.h.events, fmt.Sprintf("%s %d", kind, id))
	if closed {
		l.h.evClosed = append(l.h.evClosed, id)
	}
	l.h.emu.Unlock()
}
func (l *c09jListener) PublicId() string                                               { return l.id }
func (l *c09jListener) OnUpdateOffer(client McuClient, offer map[string]interface{})    {}
func (l *c09jListener) OnIceCandidate(client McuClient, candidate interface{})         {}
func (l *c09jListener) OnIceCompleted(client McuClient)                                {}
func (l *c09jListener) SubscriberSidUpdated(subscriber McuSubscriber)                  { l.note("ESidUpdated", subscriber, false) }
func (l *c09jListener) PublisherClosed(publisher McuPublisher)                         { l.note("EPubClosed", publisher, true) }
func (l *c09jListener) SubscriberClosed(subscriber McuSubscriber)                      { l.note("ESubClosed", subscriber, true) }

func c09jStream(t int) StreamType {
	if t == 1 {
		return StreamTypeScreen
	}
	return StreamTypeVideo
}

func c09jNewRun(t *testing.T) *c09jRun {
	mcu, inner := newMcuJanusForTesting(t)
	h := &c09jRun{mcu: mcu, gw: &c09jGateway{TestJanusGateway: inner, refuseKeys: map[string]bool{}},
		objs: map[int]McuClient{}, meta: map[int]c09jMeta{}, closedKnown: map[int]bool{}, broken: map[int]bool{},
		handleOwner: map[uint64]int{}, roomOwner: map[uint64]int{}}
	mcu.settings.(*mcuJanusSettings).setTimeout(c09jMcuTimeout)
	mcu.createJanusGateway = func(ctx context.Context, wsURL string, listener GatewayListener) (JanusGatewayInterface, error) {
		// a connection to a gateway that knows nothing of what was before
		h.gw.wipe()
		h.gw.set(func(g *c09jGateway) { g.unreachable = false })
		return h.gw, nil
	}
	// runs last-in-first-out: before the Stop and the emptiness assertions registered by newMcuJanusForTesting
	t.Cleanup(func() {
		h.gw.set(func(g *c09jGateway) {
			g.unreachable, g.refuseDestroy, g.refuseDetach, g.refuseCreate = false, false, false, false
			g.refuseKeys = map[string]bool{}
		})
		var ids []int
		for id := range h.objs {
			ids = append(ids, id)
		}
		sort.Ints(ids)
		for _, id := range ids {
			if !h.broken[id] {
				c09jSafeClose(h.objs[id])
			}
		}
		mcu.Stop()
		h.gw.wipe()
	})
	// move the MCU onto the wrapped gateway (doReconnect with no clients)
	mcu.doReconnect(context.Background())
	return h
}

func (h *c09jRun) raw() string {
	// learn which handle / room was made for which client
	var ids []int
	for id := range h.objs {
		ids = append(ids, id)
	}
	sort.Ints(ids)
	var rows []string
	for _, id := range ids {
		var jc *mcuJanusClient
		switch v := h.objs[id].(type) {
		case *mcuJanusPublisher:
			jc = &v.mcuJanusClient
		case *mcuJanusSubscriber:
			jc = &v.mcuJanusClient
		}
		// (TryLock: a Close that panicked -- possible only on changed code -- leaves the mutex locked)
		locked := jc.mu.TryLock()
		hid, rid, hasH := jc.handleId, jc.roomId, jc.handle != nil
		if locked {
			jc.mu.Unlock()
		}
		m := h.meta[id]
		if hid != 0 {
			h.handleOwner[hid] = id
		}
		if rid != 0 && m.kind == 0 {
			h.roomOwner[rid] = id
		}
		kind := "Pub"
		if m.kind == 1 {
			kind = "Sub"
		}
		rows = append(rows, fmt.Sprintf("rw %d %s %d %d %d %s %s", id, kind, m.owner, m.s, m.t, coqBool(hasH), coqBool(rid != 0)))
	}
	inner := h.gw.TestJanusGateway
	var hs, rs []int
	up := false
	h.gw.fmu.Lock()
	unreachable := h.gw.unreachable
	h.gw.fmu.Unlock()
	inner.mu.Lock()
	var own uint64
	if mh := h.mcu.handle; mh != nil {
		own = mh.Id
	}
	for hid := range inner.handles {
		if hid == own {
			hs = append(hs, 0)
		} else if c, ok := h.handleOwner[hid]; ok {
			hs = append(hs, c)
		} else {
			hs = append(hs, c09jNobody)
		}
	}
	for rid := range inner.rooms {
		if c, ok := h.roomOwner[rid]; ok {
			rs = append(rs, c)
		} else {
			rs = append(rs, c09jNobody)
		}
	}
	if s := h.mcu.session; s != nil && inner.sessions[s.Id] != nil && !unreachable {
		up = true
	}
	inner.mu.Unlock()
	sort.Ints(hs)
	sort.Ints(rs)
	var cl []int
	h.mcu.muClients.Lock()
	for c := range h.mcu.clients {
		cl = append(cl, c09jClientId(c))
	}
	h.mcu.muClients.Unlock()
	sort.Ints(cl)
	var ps []string
	h.mcu.mu.Lock()
	for key, p := range h.mcu.publishers {
		var s int
		t := 0
		parts := strings.SplitN(key, "|", 2)
		fmt.Sscanf(parts[0], "s%d", &s)
		if len(parts) == 2 && parts[1] == string(StreamTypeScreen) {
			t = 1
		}
		ps = append(ps, fmt.Sprintf("((%d, %d), %d)", s, t, int(p.mcuJanusClient.id)))
	}
	h.mcu.mu.Unlock()
	sort.Strings(ps)
	return fmt.Sprintf("dg %s %s %s %s %s %s", coqBool(up), c09jInts(hs), c09jInts(rs), c09jInts(cl), coqList(ps), coqList(rows))
}

func c09jInts(l []int) string {
	s := make([]string, len(l))
	for i, v := range l {
		s[i] = fmt.Sprint(v)
	}
	return coqList(s)
}

func (h *c09jRun) drainEvents() string {
	h.emu.Lock()
	ev := h.events
	h.events = nil
	for _, c := range h.evClosed {
		h.closedKnown[c] = true
	}
	h.evClosed = nil
	h.emu.Unlock()
	sort.Strings(ev)
	return coqList(ev)
}

// settle waits until the goroutines started by doReconnect have finished: the digest does not change any more
// (and, when a subscriber was registered, the MCU timeout its NotifyReconnected runs into has passed)
func (h *c09jRun) settle(minWait time.Duration) {
	start := time.Now()
	last, same := "", 0
	for time.Since(start) < 5*time.Second {
		time.Sleep(3 * time.Millisecond)
		h.gw.fmu.Lock()
		n := h.gw.requests
		h.gw.fmu.Unlock()
		h.emu.Lock()
		ne := len(h.events)
		h.emu.Unlock()
		cur := fmt.Sprintf("%d %d %s", n, ne, h.raw())
		if cur == last {
			same++
		} else {
			last, same = cur, 0
		}
		if same >= 10 && time.Since(start) >= minWait {
			return
		}
	}
}

func (h *c09jRun) exec(o c09jOp) (opTerm, obTerm, dgTerm string) {
	res := "RNone"
	register := func(c McuClient, m c09jMeta) {
		id := c09jClientId(c)
		h.objs[id] = c
		h.meta[id] = m
		res = fmt.Sprintf("ROk %d", id)
	}
	fail := func(err error) {
		if errors.Is(err, context.DeadlineExceeded) {
			res = "RErrTimeout"
		} else {
			res = "RErrGateway"
		}
	}
	closeOne := func(c int, rd, rt bool) {
		obj, ok := h.objs[c]
		if !ok {
			return
		}
		h.gw.set(func(g *c09jGateway) { g.refuseDestroy, g.refuseDetach = rd, rt })
		if h.broken[c] {
			return
		}
		if c09jSafeClose(obj) {
			h.panics++
			h.broken[c] = true
		}
		h.gw.set(func(g *c09jGateway) { g.refuseDestroy, g.refuseDetach = false, false })
		h.closedKnown[c] = true
	}
	switch o.K {
	case "newpub":
		opTerm = fmt.Sprintf("ONewPub %d %d %s", o.S, o.T, coqBool(o.Rc))
		sid := fmt.Sprintf("s%d", o.S)
		h.gw.set(func(g *c09jGateway) { g.refuseCreate = o.Rc })
		ctx, cancel := context.WithTimeout(context.Background(), 2*time.Second)
		pub, err := h.mcu.NewPublisher(ctx, &c09jListener{h: h, id: sid}, sid, "sid", c09jStream(o.T), NewPublisherSettings{}, &TestMcuInitiator{country: "DE"})
		cancel()
		h.gw.set(func(g *c09jGateway) { g.refuseCreate = false })
		if err != nil {
			fail(err)
		} else {
			register(pub, c09jMeta{0, o.S, o.S, o.T})
		}
	case "newsub":
		opTerm = fmt.Sprintf("ONewSub %d %d %d", o.O, o.S, o.T)
		ctx, cancel := context.WithTimeout(context.Background(), c09jSubTimeout)
		sub, err := h.mcu.NewSubscriber(ctx, &c09jListener{h: h, id: fmt.Sprintf("s%d", o.O)}, fmt.Sprintf("s%d", o.S), c09jStream(o.T), &TestMcuInitiator{country: "DE"})
		cancel()
		if err != nil {
			fail(err)
		} else {
			register(sub, c09jMeta{1, o.O, o.S, o.T})
		}
	case "close":
		opTerm = fmt.Sprintf("OClose %d %s %s", o.C, coqBool(o.Rd), coqBool(o.Rt))
		closeOne(o.C, o.Rd, o.Rt)
	case "closeall":
		opTerm = fmt.Sprintf("OCloseAll %d", o.O)
		var ids []int
		for id, m := range h.meta {
			if m.owner == o.O && !h.closedKnown[id] {
				ids = append(ids, id)
			}
		}
		sort.Ints(ids)
		for _, id := range ids {
			closeOne(id, false, false)
		}
	case "gwdown":
		opTerm = fmt.Sprintf("OGwDown %s", coqBool(o.Wipe))
		if o.Wipe {
			h.gw.wipe()
		} else {
			h.gw.set(func(g *c09jGateway) { g.unreachable = true })
		}
	case "gwup":
		opTerm = "OGwUp"
		h.gw.set(func(g *c09jGateway) { g.unreachable = false })
	case "reconnect":
		var fl []string
		keys := map[string]bool{}
		for _, k := range o.Fail {
			fl = append(fl, fmt.Sprintf("(%d, %d)", k[0], k[1]))
			keys[getStreamId(fmt.Sprintf("s%d", k[0]), c09jStream(k[1]))] = true
		}
		opTerm = fmt.Sprintf("OReconnect %s", coqList(fl))
		minWait := time.Duration(0)
		h.mcu.muClients.Lock()
		for c := range h.mcu.clients {
			if _, ok := c.(*mcuJanusSubscriber); ok {
				minWait = c09jMcuTimeout + 15*time.Millisecond
			}
		}
		h.mcu.muClients.Unlock()
		h.gw.set(func(g *c09jGateway) { g.refuseKeys = keys })
		h.mcu.doReconnect(context.Background())
		h.settle(minWait)
		h.gw.set(func(g *c09jGateway) { g.refuseKeys = map[string]bool{} })
	default:
		opTerm = "OGwUp"
	}
	dgTerm = h.raw()
	obTerm = fmt.Sprintf("ob (%s) %s", res, h.drainEvents())
	return
}

func c09jRunCase(t *testing.T, c *c09jCase) (term string, outs []string, panics int) {
	t.Run(fmt.Sprintf("case%d", c.Id), func(t *testing.T) {
		h := c09jNewRun(t)
		var steps []string
		for _, o := range c.Ops {
			ot, bt, dt := h.exec(o)
			steps = append(steps, fmt.Sprintf("(%s, %s,\n   %s)", ot, bt, dt))
			outs = append(outs, bt+" "+dt)
		}
		term = fmt.Sprintf("mkcase %d [\n  %s]", c.Id, strings.Join(steps, ";\n  "))
		panics = h.panics
	})
	return
}

// ---- generators ---------------------------------------------------------------------------------------

func c09jDirected() []*c09jCase {
	np := func(s, t int) c09jOp { return c09jOp{K: "newpub", S: s, T: t} }
	ns := func(o, s, t int) c09jOp { return c09jOp{K: "newsub", O: o, S: s, T: t} }
	cl := func(c int) c09jOp { return c09jOp{K: "close", C: c} }
	rec := c09jOp{K: "reconnect"}
	return []*c09jCase{
		// the history of the seeded change's demonstration: publisher, gateway restarted, close, reconnect
		{Family: "directed:close-while-restarted-then-reconnect", Ops: []c09jOp{np(1, 0), {K: "gwdown", Wipe: true}, cl(1), rec, {K: "closeall", O: 1}}},
		// the same with a gateway that is unreachable but has not forgotten anything: handle and room stay until the reconnect
		{Family: "directed:close-while-unreachable", Ops: []c09jOp{np(1, 0), ns(2, 1, 0), {K: "gwdown"}, cl(1), cl(2), {K: "gwup"}, np(1, 0), rec, rec}},
		// C09J_second_publisher_refuted: mcuJanus registers a second publisher of the same stream; closing the first
		// takes the key of the second away (a subscriber for the stream then times out)
		{Family: "directed:second-publisher-same-stream", Ops: []c09jOp{np(1, 0), np(1, 0), ns(2, 1, 0), cl(1), ns(3, 1, 0), cl(2), cl(3)}},
		// no subscriber survives a reconnect; nobody can subscribe to a reconnected publisher
		{Family: "directed:subscriber-over-reconnect", Ops: []c09jOp{np(1, 0), ns(2, 1, 0), ns(3, 1, 0), rec, ns(2, 1, 0), cl(1), np(1, 0), ns(2, 1, 0), {K: "closeall", O: 2}, {K: "closeall", O: 1}}},
		// refused destroy / detach with the gateway up: room / handle stay until the gateway forgets them
		{Family: "directed:refused-destroy-detach", Ops: []c09jOp{np(1, 0), np(2, 1), ns(3, 2, 1), {K: "close", C: 1, Rd: true}, {K: "close", C: 2, Rt: true}, {K: "close", C: 3, Rt: true}, rec, np(1, 0)}},
		// the create after a reconnect fails: the publisher stays registered with a stale handle; its close still unregisters
		{Family: "directed:reconnect-create-refused", Ops: []c09jOp{np(1, 0), np(2, 0), {K: "gwdown", Wipe: true}, {K: "reconnect", Fail: [][2]int{{1, 0}}}, cl(1), cl(2), rec}},
		// close twice; close of an id that was never handed out; refused creation
		{Family: "directed:close-twice", Ops: []c09jOp{np(1, 1), ns(2, 1, 1), cl(2), cl(2), cl(1), cl(1), cl(7), {K: "newpub", S: 3, T: 0, Rc: true}, np(3, 0), {K: "gwdown"}, np(3, 1), ns(1, 3, 0), ns(1, 2, 0)}},
	}
}

func c09jGen(r *vrng, id int) *c09jCase {
	c := &c09jCase{Id: id, Family: "random"}
	n := 4 + r.intn(11)
	storm := r.chance(40) // bias towards closes around a loss of the gateway
	if storm {
		c.Family = "random:storm"
	}
	made := 0 // ids handed out, as far as the generator can tell (it follows the gateway's state roughly)
	down := false
	type key struct{ s, t int }
	reg := map[key]bool{} // keys a publisher may be registered for (approximation, for the caller's discipline)
	var keys []key
	for i := 0; i < n; i++ {
		x := r.intn(100)
		if storm && i >= 3 {
			// more closes, losses and reconnects once something exists
			x = 45 + r.intn(55)
		}
		if down && r.chance(35) {
			x = 95 // a lost gateway is soon reconnected to
		}
		switch {
		case x < 28:
			k := key{1 + r.intn(3), r.intn(2)}
			if reg[k] && !r.chance(12) {
				for j := 0; j < 6 && reg[k]; j++ {
					k = key{1 + r.intn(3), r.intn(2)}
				}
			}
			rc := r.chance(8)
			if !down && !rc {
				reg[k] = true
				keys = append(keys, k)
				made++
			}
			c.Ops = append(c.Ops, c09jOp{K: "newpub", S: k.s, T: k.t, Rc: rc})
		case x < 48:
			k := key{1 + r.intn(3), r.intn(2)}
			if len(keys) > 0 && r.chance(85) {
				k = keys[r.intn(len(keys))]
			}
			if !down && reg[k] {
				made++
			}
			c.Ops = append(c.Ops, c09jOp{K: "newsub", O: 1 + r.intn(3), S: k.s, T: k.t})
		case x < 70:
			cid := 1 + r.intn(made+1)
			if r.chance(3) {
				cid = made + 3
			}
			c.Ops = append(c.Ops, c09jOp{K: "close", C: cid, Rd: r.chance(12), Rt: r.chance(12)})
			// which key it frees is not known here; forget all of them now and then
			if r.chance(50) {
				reg = map[key]bool{}
			}
		case x < 76:
			c.Ops = append(c.Ops, c09jOp{K: "closeall", O: 1 + r.intn(3)})
			reg = map[key]bool{}
		case x < 84:
			c.Ops = append(c.Ops, c09jOp{K: "gwdown", Wipe: r.chance(50)})
			down = true
		case x < 87:
			c.Ops = append(c.Ops, c09jOp{K: "gwup"})
		default:
			o := c09jOp{K: "reconnect"}
			if r.chance(25) {
				o.Fail = append(o.Fail, [2]int{1 + r.intn(3), r.intn(2)})
			}
			c.Ops = append(c.Ops, o)
			down = false
			keys = nil // mcu.publishers is emptied
			regOld := reg
			reg = map[key]bool{}
			_ = regOld
		}
	}
	return c
}

func TestVerifC09J(t *testing.T) {
	env := getVerifEnv(t, "C09J")
	log.SetOutput(io.Discard)
	sink := newCaseSink(t, env, "C09J", "corr.Run_C09J", 60)
	sink.scope = "N_scope"
	var cases []*c09jCase
	if env.replay != "" {
		var cs []c09jCase
		readReplay(t, env.replay, &cs)
		for i := range cs {
			cases = append(cases, &cs[i])
		}
	} else {
		for _, c := range c09jDirected() {
			c.Id = len(cases)
			cases = append(cases, c)
		}
		n := 300
		if env.thorough() {
			n = 4000
		}
		for i := 0; i < n; i++ {
			cases = append(cases, c09jGen(newVrng(env.seed, uint64(i)), len(cases)))
		}
	}
	for _, c := range cases {
		term, outs, panics := c09jRunCase(t, c)
		if term == "" {
			t.Fatalf("case %d did not run", c.Id)
		}
		if panics > 0 {
			sink.count("close_panicked")
			sink.violation(c.Id, "Close of a publisher / subscriber panicked (the process would have died)", c)
		}
		fam := c.Family
		if i := strings.Index(fam, ":"); i >= 0 && strings.HasPrefix(fam, "random") {
			fam = fam[:i]
		}
		sink.count("family_" + fam)
		closes, losses, recs := 0, 0, 0
		for i, o := range c.Ops {
			sink.count("op_" + o.K)
			switch o.K {
			case "close", "closeall":
				closes++
				if i < len(outs) && strings.Contains(outs[i], "Closed") {
					sink.count("close_notified")
				}
				if o.Rd || o.Rt {
					sink.count("close_refused_request")
				}
			case "gwdown":
				losses++
			case "reconnect":
				recs++
				if i < len(outs) && strings.Contains(outs[i], "ESubClosed") {
					sink.count("reconnect_closes_subscriber")
				}
			}
			if i < len(outs) {
				for _, e := range []string{"ROk", "RErrGateway", "RErrTimeout"} {
					if strings.Contains(outs[i], e) {
						sink.count("result_" + e)
					}
				}
				if strings.Contains(outs[i], "dg false") {
					sink.count("observed_while_gateway_down")
				}
			}
		}
		sink.count(fmt.Sprintf("len_%02d-%02d", len(c.Ops)/5*5, len(c.Ops)/5*5+4))
		sink.add(term, c, closes > 0 && (losses > 0 || recs > 0), strings.Join(outs, "|"))
	}
	sink.close("directed histories + seeded histories of NewPublisher / NewSubscriber / Close (also with refused destroy / detach) / owner closes everything / gateway unreachable or restarted / reachable again / doReconnect (also with refused create) on the real mcuJanus and the repository's TestJanusGateway; non-trivial = at least one close and one loss of the gateway or reconnect; distinct = distinct sequences of observations and digests")
}
