//go:build verif

package signaling

import (
	"encoding/json"
	"encoding/base64"
	"encoding/hex"
	"fmt"
	"io"
	"log"
	"net/url"
	"os"
	"runtime"
	"sort"
	"strconv"
	"strings"
	"sync"
	"sync/atomic"
	"testing"
	"time"
)

// ---- C20: the real asyncEventsNats over the real LoopbackNatsClient ----------

// A target is what the property calls a subject: kind + id + backend.
//   K: 0 backend room, 1 room, 2 user, 3 session
//   B: "" = nil backend, "!compat" = the compat backend, anything else = Backend.Id()
type c20Target struct {
	K  int    `json:"k"`
	Id string `json:"id"`
	B  string `json:"b,omitempty"`
}

func (t c20Target) backend() *Backend {
	switch t.B {
	case "":
		return nil
	case "!compat":
		return &Backend{id: "compat", compat: true}
	}
	return &Backend{id: t.B}
}

func (t c20Target) subject() string {
	switch t.K {
	case 0:
		return GetSubjectForBackendRoomId(t.Id, t.backend())
	case 1:
		return GetSubjectForRoomId(t.Id, t.backend())
	case 2:
		return GetSubjectForUserId(t.Id, t.backend())
	}
	return GetSubjectForSessionId(t.Id, t.backend())
}

// what the property calls the subject: kind + id + backend (nil and the compat backend are
// the same; a session subject has no backend)
func (t c20Target) identity() string {
	b := t.B
	if b == "!compat" || t.K == 3 {
		b = ""
	}
	return fmt.Sprintf("%d\x00%s\x00%s", t.K, t.Id, b)
}

// inside the side condition of C20_subject_inj (wf_target): no separator in the part after
// the separator -- the backend id, or the whole id when there is no backend
func (t c20Target) wf() bool {
	if t.K == 3 {
		return true
	}
	if t.B == "" || t.B == "!compat" {
		return !strings.Contains(t.Id, "|")
	}
	return !strings.Contains(t.B, "|")
}

var c20KindNames = []string{"KBackendRoom", "KRoom", "KUser", "KSession"}

func (t c20Target) coq() string {
	b := "None"
	if t.B != "" && t.B != "!compat" {
		b = "(Some " + coqStr(t.B) + ")"
	}
	return fmt.Sprintf("(T %s %s %s, %s)", c20KindNames[t.K], coqStr(t.Id), b, coqStr(t.subject()))
}

// ---- events ---------------------------------------------------------------------

type c20Ev struct {
	K     string
	Ti    int
	L     int
	M     int
	Pl    int
	Ok    bool
	Kind  int
	Gated bool
	D     [][3]int
	Lb    [][2]int
}

func (e c20Ev) coq() string {
	switch e.K {
	case "EPub":
		return fmt.Sprintf("EPub %d %d %d %s", e.Ti, e.M, e.Pl, coqBool(e.Ok))
	case "EReg":
		return fmt.Sprintf("EReg %d %d %s", e.Ti, e.L, coqBool(e.Ok))
	case "EUnreg":
		return fmt.Sprintf("EUnreg %d %d", e.Ti, e.L)
	case "ERelease":
		return fmt.Sprintf("ERelease %d", e.L)
	case "ERecv":
		return fmt.Sprintf("ERecv %d %d %d %d %s", e.L, e.Kind, e.M, e.Pl, coqBool(e.Gated))
	case "EDigest":
		var d, lb []string
		for _, x := range e.D {
			d = append(d, fmt.Sprintf("(%d, %d, %d)", x[0], x[1], x[2]))
		}
		for _, x := range e.Lb {
			lb = append(lb, fmt.Sprintf("(%d, %d)", x[0], x[1]))
		}
		return fmt.Sprintf("EDigest %s %s", coqList(d), coqList(lb))
	case "HPubStart":
		return fmt.Sprintf("HPubStart %d %d %d", e.M, e.Ti, e.Pl)
	case "HPubEnd":
		return fmt.Sprintf("HPubEnd %d %s", e.M, coqBool(e.Ok))
	case "HRegStart":
		return fmt.Sprintf("HRegStart %d %d", e.L, e.Ti)
	case "HRegEnd":
		return fmt.Sprintf("HRegEnd %d %d %s", e.L, e.Ti, coqBool(e.Ok))
	case "HUnregStart":
		return fmt.Sprintf("HUnregStart %d %d", e.L, e.Ti)
	case "HUnregEnd":
		return fmt.Sprintf("HUnregEnd %d %d", e.L, e.Ti)
	}
	return "ERelease 999999"
}

// The log: one mutex, append order = real-time order of the logged instants.
type c20Log struct {
	mu  sync.Mutex
	evs []c20Ev
	// bookkeeping for the concurrent scenario (all under mu)
	pubT     map[int]int         // message -> target
	pubStart map[int]int         // message -> position of HPubStart
	donePubs map[int][]int       // target -> messages whose publication returned without error
	regEnd   map[[2]int]int      // (listener, target) -> position of HRegEnd
	recv     map[int]map[int]int // listener -> message -> count
}

func newC20Log() *c20Log {
	return &c20Log{pubT: map[int]int{}, pubStart: map[int]int{}, donePubs: map[int][]int{},
		regEnd: map[[2]int]int{}, recv: map[int]map[int]int{}}
}

func (g *c20Log) add(e c20Ev) {
	g.mu.Lock()
	g.addLocked(e)
	g.mu.Unlock()
}

func (g *c20Log) addPos(e c20Ev) int {
	g.mu.Lock()
	defer g.mu.Unlock()
	g.addLocked(e)
	return len(g.evs) - 1
}

func (g *c20Log) setOk(pos int, ok bool) {
	g.mu.Lock()
	g.evs[pos].Ok = ok
	g.mu.Unlock()
}

func (g *c20Log) addLocked(e c20Ev) {
	pos := len(g.evs)
	g.evs = append(g.evs, e)
	switch e.K {
	case "HPubStart":
		g.pubT[e.M] = e.Ti
		g.pubStart[e.M] = pos
	case "HPubEnd":
		if e.Ok {
			t := g.pubT[e.M]
			g.donePubs[t] = append(g.donePubs[t], e.M)
		}
	case "HRegEnd":
		g.regEnd[[2]int{e.L, e.Ti}] = pos
	case "ERecv":
		if g.recv[e.L] == nil {
			g.recv[e.L] = map[int]int{}
		}
		g.recv[e.L][e.M]++
	}
}

// every publication on target t that returned, and began after l's registration
// on t returned, has reached l (caller holds g.mu)
func (g *c20Log) allReceivedLocked(l, t int) bool {
	re, ok := g.regEnd[[2]int{l, t}]
	if !ok {
		return true
	}
	for _, m := range g.donePubs[t] {
		if g.pubStart[m] > re && g.recv[l][m] == 0 {
			return false
		}
	}
	return true
}

func (g *c20Log) snapshot() []c20Ev {
	g.mu.Lock()
	defer g.mu.Unlock()
	return append([]c20Ev(nil), g.evs...)
}

// ---- listeners ------------------------------------------------------------------

type c20Listener struct {
	id  int
	log *c20Log

	mu    sync.Mutex
	gated bool
	wait  []chan struct{}
}

func c20Payload(m int) int { return (m*7919+13)%99991 + 1 }

// Messages come in three shapes (by m mod 3) so that consecutive publications on one subject differ in which
// optional members they carry: a receiver that lets members of an earlier message show through in a later one
// ("delivered ... unmodified") is seen: 0 no client message, 1 a client message whose sender has a user id and a
// recipient, 2 a client message whose sender has none and no recipient.
func c20Message(m int) *AsyncMessage {
	msg := &AsyncMessage{
		Type: "c20",
		Id:   strconv.Itoa(m),
		AsyncRoom: &AsyncRoomMessage{
			Type:      "verif",
			SessionId: strconv.Itoa(c20Payload(m)),
		},
	}
	switch m % 3 {
	case 1:
		msg.Message = &ServerMessage{Type: "message", Message: &MessageServerMessage{
			Sender:    &MessageServerMessageSender{Type: "session", SessionId: "s" + msg.Id, UserId: "u" + msg.Id},
			Recipient: &MessageClientMessageRecipient{Type: "user", UserId: "r" + msg.Id},
			Data:      json.RawMessage(`{"m":` + msg.Id + `}`)}}
	case 2:
		msg.Message = &ServerMessage{Type: "message", Message: &MessageServerMessage{
			Sender: &MessageServerMessageSender{Type: "session", SessionId: "s" + msg.Id},
			Data:   json.RawMessage(`{"m":` + msg.Id + `}`)}}
	}
	return msg
}

// what arrived: message id and payload; anything unexpected in the message makes the payload 0
func c20Read(msg *AsyncMessage) (int, int) {
	m, err := strconv.Atoi(msg.Id)
	if err != nil {
		return 999999, 0
	}
	if msg.Type != "c20" || msg.AsyncRoom == nil || msg.AsyncRoom.Type != "verif" || msg.AsyncRoom.ClientType != "" ||
		msg.Room != nil || msg.Permissions != nil || msg.SendOffer != nil {
		return m, 0
	}
	switch m % 3 {
	case 0:
		if msg.Message != nil {
			return m, 0
		}
	default:
		sm := msg.Message
		if sm == nil || sm.Type != "message" || sm.Message == nil || sm.Message.Sender == nil || sm.Control != nil || sm.Event != nil || sm.Error != nil ||
			sm.Message.Sender.Type != "session" || sm.Message.Sender.SessionId != "s"+msg.Id || string(sm.Message.Data) != `{"m":`+msg.Id+`}` {
			return m, 0
		}
		if m%3 == 1 {
			if sm.Message.Sender.UserId != "u"+msg.Id || sm.Message.Recipient == nil || sm.Message.Recipient.Type != "user" ||
				sm.Message.Recipient.UserId != "r"+msg.Id || sm.Message.Recipient.SessionId != "" {
				return m, 0
			}
		} else if sm.Message.Sender.UserId != "" || sm.Message.Recipient != nil {
			return m, 0
		}
	}
	pl, err := strconv.Atoi(msg.AsyncRoom.SessionId)
	if err != nil {
		return m, 0
	}
	return m, pl
}

func (l *c20Listener) c20enter(kind int, msg *AsyncMessage) {
	m, pl := c20Read(msg)
	l.mu.Lock()
	gated := l.gated
	l.log.add(c20Ev{K: "ERecv", L: l.id, Kind: kind, M: m, Pl: pl, Gated: gated})
	if !gated {
		l.mu.Unlock()
		return
	}
	ch := make(chan struct{})
	l.wait = append(l.wait, ch)
	l.mu.Unlock()
	c20Blocked(ch)
}

// a callback that does not return until the harness says so
func c20Blocked(ch chan struct{}) { <-ch }

func (l *c20Listener) ProcessBackendRoomRequest(m *AsyncMessage)  { l.c20enter(0, m) }
func (l *c20Listener) ProcessAsyncRoomMessage(m *AsyncMessage)    { l.c20enter(1, m) }
func (l *c20Listener) ProcessAsyncUserMessage(m *AsyncMessage)    { l.c20enter(2, m) }
func (l *c20Listener) ProcessAsyncSessionMessage(m *AsyncMessage) { l.c20enter(3, m) }

func (l *c20Listener) setGated(b bool) {
	l.mu.Lock()
	l.gated = b
	l.mu.Unlock()
}

func (l *c20Listener) release() {
	l.mu.Lock()
	for _, c := range l.wait {
		close(c)
	}
	l.wait = nil
	l.mu.Unlock()
}

func (l *c20Listener) blockedNow() bool {
	l.mu.Lock()
	defer l.mu.Unlock()
	return len(l.wait) > 0
}

// ---- the bus under test ---------------------------------------------------------------

type c20Bus struct {
	events  *asyncEventsNats
	client  *LoopbackNatsClient
	targets []c20Target
	bysubj  map[string][]int
	ls      []*c20Listener
	log     *c20Log
}

func newC20Bus(targets []c20Target, nl int) *c20Bus {
	client, err := NewLoopbackNatsClient()
	if err != nil {
		panic(err)
	}
	ev, err := NewAsyncEventsNats(client)
	if err != nil {
		panic(err)
	}
	b := &c20Bus{events: ev.(*asyncEventsNats), client: client.(*LoopbackNatsClient), targets: targets,
		bysubj: map[string][]int{}, log: newC20Log()}
	for i, t := range targets {
		s := t.subject()
		b.bysubj[s] = append(b.bysubj[s], i)
	}
	for i := 0; i < nl; i++ {
		b.ls = append(b.ls, &c20Listener{id: i, log: b.log})
	}
	return b
}

func (b *c20Bus) publish(ti, m int) error {
	t := b.targets[ti]
	msg := c20Message(m)
	switch t.K {
	case 0:
		return b.events.PublishBackendRoomMessage(t.Id, t.backend(), msg)
	case 1:
		return b.events.PublishRoomMessage(t.Id, t.backend(), msg)
	case 2:
		return b.events.PublishUserMessage(t.Id, t.backend(), msg)
	}
	return b.events.PublishSessionMessage(t.Id, t.backend(), msg)
}

func (b *c20Bus) register(ti, l int) error {
	t := b.targets[ti]
	switch t.K {
	case 0:
		return b.events.RegisterBackendRoomListener(t.Id, t.backend(), b.ls[l])
	case 1:
		return b.events.RegisterRoomListener(t.Id, t.backend(), b.ls[l])
	case 2:
		return b.events.RegisterUserListener(t.Id, t.backend(), b.ls[l])
	}
	return b.events.RegisterSessionListener(t.Id, t.backend(), b.ls[l])
}

func (b *c20Bus) unregister(ti, l int) {
	t := b.targets[ti]
	switch t.K {
	case 0:
		b.events.UnregisterBackendRoomListener(t.Id, t.backend(), b.ls[l])
	case 1:
		b.events.UnregisterRoomListener(t.Id, t.backend(), b.ls[l])
	case 2:
		b.events.UnregisterUserListener(t.Id, t.backend(), b.ls[l])
	default:
		b.events.UnregisterSessionListener(t.Id, t.backend(), b.ls[l])
	}
}

func (b *c20Bus) tiOf(subject string, kind int) int {
	for _, ti := range b.bysubj[subject] {
		if b.targets[ti].K == kind {
			return ti
		}
	}
	return 9999
}

// what the four maps and the loopback client hold
func (b *c20Bus) digest() c20Ev {
	e := c20Ev{K: "EDigest"}
	ev := b.events
	ev.mu.Lock()
	for k, s := range ev.backendRoomSubscriptions {
		s.mu.Lock()
		e.D = append(e.D, [3]int{b.tiOf(k, 0), len(s.listeners), len(s.receiver)})
		s.mu.Unlock()
	}
	for k, s := range ev.roomSubscriptions {
		s.mu.Lock()
		e.D = append(e.D, [3]int{b.tiOf(k, 1), len(s.listeners), len(s.receiver)})
		s.mu.Unlock()
	}
	for k, s := range ev.userSubscriptions {
		s.mu.Lock()
		e.D = append(e.D, [3]int{b.tiOf(k, 2), len(s.listeners), len(s.receiver)})
		s.mu.Unlock()
	}
	for k, s := range ev.sessionSubscriptions {
		s.mu.Lock()
		e.D = append(e.D, [3]int{b.tiOf(k, 3), len(s.listeners), len(s.receiver)})
		s.mu.Unlock()
	}
	ev.mu.Unlock()
	b.client.mu.Lock()
	for subj, subs := range b.client.subscriptions {
		ti := 9999
		if l := b.bysubj[subj]; len(l) > 0 {
			ti = l[0]
		}
		e.Lb = append(e.Lb, [2]int{ti, len(subs)})
	}
	b.client.mu.Unlock()
	sort.Slice(e.D, func(i, j int) bool { return e.D[i][0] < e.D[j][0] })
	sort.Slice(e.Lb, func(i, j int) bool { return e.Lb[i][0] < e.Lb[j][0] })
	return e
}

func (b *c20Bus) close() {
	for _, l := range b.ls {
		l.setGated(false)
		l.release()
	}
	b.events.Close()
}

// ---- quiescence: every goroutine of the bus is parked where it waits for work -----------

var c20StackBuf = make([]byte, 4<<20)
var c20StackMu sync.Mutex

func c20Quiet() bool {
	c20StackMu.Lock()
	defer c20StackMu.Unlock()
	n := runtime.Stack(c20StackBuf, true)
	for _, g := range strings.Split(string(c20StackBuf[:n]), "\n\n") {
		hdr := g
		if i := strings.IndexByte(g, '\n'); i >= 0 {
			hdr = g[:i]
		}
		if strings.Contains(g, "signaling.NewLoopbackNatsClient in goroutine") {
			// the dispatcher: parked in wakeup.Wait()
			if !strings.Contains(hdr, "[sync.Cond.Wait") {
				return false
			}
		} else if strings.Contains(g, "SubscriberNats in goroutine") {
			// a subscriber goroutine: parked in the select of run(), or inside a callback the harness holds
			if strings.Contains(hdr, "[select") && !strings.Contains(g, "c20Blocked") {
				continue
			}
			if strings.Contains(hdr, "[chan receive") && strings.Contains(g, "signaling.c20Blocked") {
				continue
			}
			return false
		}
	}
	return true
}

func c20WaitQuiet(d time.Duration) bool {
	dl := time.Now().Add(d)
	for i := 0; ; i++ {
		if c20Quiet() {
			return true
		}
		if time.Now().After(dl) {
			return false
		}
		if i < 20 {
			runtime.Gosched()
		} else {
			time.Sleep(50 * time.Microsecond)
		}
	}
}

// an API call that must return promptly
func c20Call(f func()) bool {
	done := make(chan struct{})
	go func() {
		f()
		close(done)
	}()
	select {
	case <-done:
		return true
	case <-time.After(5 * time.Second):
		return false
	}
}

// ---- cases ---------------------------------------------------------------------------------

type c20Op struct {
	K    string `json:"k"`
	T    int    `json:"t,omitempty"`
	L    int    `json:"l,omitempty"`
	M    int    `json:"m,omitempty"`
	N    int    `json:"n,omitempty"`
	Seed int    `json:"seed,omitempty"`
	Ts   []int  `json:"ts,omitempty"`
	Ls   []int  `json:"ls,omitempty"`
}

type c20Case struct {
	Id      int         `json:"id"`
	Mode    int         `json:"mode"`
	Gen     string      `json:"gen"`
	Targets []c20Target `json:"targets"`
	NL      int         `json:"nl"`
	Ops     []c20Op     `json:"ops"`
	Finding string      `json:"finding,omitempty"`
}

type c20Result struct {
	evs     []c20Ev
	stalled string
}

// sequential script: one op at a time, the implementation runs to quiescence after each
func c20RunSeq(c *c20Case) c20Result {
	b := newC20Bus(c.Targets, c.NL)
	defer b.close()
	var stalled string
	quiet := func(what string) bool {
		if !c20WaitQuiet(5 * time.Second) {
			stalled = "no quiescence after " + what
			return false
		}
		return true
	}
	okT := func(t int) bool { return t >= 0 && t < len(c.Targets) }
	okL := func(l int) bool { return l >= 0 && l < c.NL }
	curL := map[int]int{}
	regSet := map[[2]int]bool{} // (listener, target) the harness registered and did not unregister
	idleL := map[int][]int{}    // target -> what the last unreg_idle unregistered
	blockedOnM := func(t int) (int, int) {
		// the listener blocked in a callback for a message of target t (lowest id), and the message
		evs := b.log.snapshot()
		pubT := map[int]int{}
		for _, e := range evs {
			if e.K == "EPub" {
				pubT[e.M] = e.Ti
			}
		}
		for _, l := range b.ls {
			if !l.blockedNow() {
				continue
			}
			for i := len(evs) - 1; i >= 0; i-- {
				if evs[i].K == "ERecv" && evs[i].L == l.id {
					if pubT[evs[i].M] == t {
						return l.id, evs[i].M
					}
					break
				}
			}
		}
		return -1, -1
	}
	blockedOn := func(t int) int {
		l, _ := blockedOnM(t)
		return l
	}
	doPub := func(t, m int) bool {
		// logged when the call begins (callbacks may run before it returns); the result is filled in
		var err error
		pos := b.log.addPos(c20Ev{K: "EPub", Ti: t, M: m, Pl: c20Payload(m), Ok: true})
		if !c20Call(func() { err = b.publish(t, m) }) {
			stalled = fmt.Sprintf("publisher blocked: Publish on target %d did not return within 5 s", t)
			return false
		}
		b.log.setOk(pos, err == nil)
		return quiet("publish")
	}
	doReg := func(t, l int) bool {
		var err error
		if !c20Call(func() { err = b.register(t, l) }) {
			stalled = fmt.Sprintf("register blocked: Register on target %d did not return within 5 s", t)
			return false
		}
		b.log.add(c20Ev{K: "EReg", Ti: t, L: l, Ok: err == nil})
		if err == nil {
			regSet[[2]int{l, t}] = true
		}
		return quiet("register")
	}
	doUnreg := func(t, l int) bool {
		if !c20Call(func() { b.unregister(t, l) }) {
			stalled = fmt.Sprintf("unregister blocked: Unregister on target %d did not return within 5 s", t)
			return false
		}
		b.log.add(c20Ev{K: "EUnreg", Ti: t, L: l})
		delete(regSet, [2]int{l, t})
		return quiet("unregister")
	}
loop:
	for _, o := range c.Ops {
		switch o.K {
		case "pub":
			if okT(o.T) && !doPub(o.T, o.M) {
				break loop
			}
		case "pubn":
			for i := 0; i < o.N && okT(o.T); i++ {
				if !doPub(o.T, o.M+i) {
					break loop
				}
			}
		case "reg":
			if okT(o.T) && okL(o.L) && !doReg(o.T, o.L) {
				break loop
			}
		case "unreg":
			if okT(o.T) && okL(o.L) && !doUnreg(o.T, o.L) {
				break loop
			}
		case "unreg_cur":
			if okT(o.T) {
				if l := blockedOn(o.T); l >= 0 {
					curL[o.T] = l
					if !doUnreg(o.T, l) {
						break loop
					}
				}
			}
		case "reg_cur":
			if l, ok := curL[o.T]; ok && okT(o.T) {
				if !doReg(o.T, l) {
					break loop
				}
			}
		case "unreg_idle":
			// while a callback for a message of target T is held: unregister N (default 1) of the
			// listeners of T that the dispatch of that message has not called yet (lowest ids
			// first, M=1: highest first) -- whether the loop has them still ahead or has passed
			// them is the implementation's own order
			if okT(o.T) {
				if cur, m := blockedOnM(o.T); cur >= 0 {
					got := map[int]bool{}
					for _, e := range b.log.snapshot() {
						if e.K == "ERecv" && e.M == m {
							got[e.L] = true
						}
					}
					var cands []int
					for l := 0; l < c.NL; l++ {
						if regSet[[2]int{l, o.T}] && l != cur && !got[l] && !b.ls[l].blockedNow() {
							cands = append(cands, l)
						}
					}
					if o.M == 1 {
						sort.Sort(sort.Reverse(sort.IntSlice(cands)))
					}
					n := o.N
					if n <= 0 {
						n = 1
					}
					if n > len(cands) {
						n = len(cands)
					}
					idleL[o.T] = append([]int(nil), cands[:n]...)
					for _, l := range idleL[o.T] {
						if !doUnreg(o.T, l) {
							break loop
						}
					}
				}
			}
		case "reg_idle":
			if okT(o.T) {
				for _, l := range idleL[o.T] {
					if !doReg(o.T, l) {
						break loop
					}
				}
			}
		case "release_cur":
			if okT(o.T) {
				if l := blockedOn(o.T); l >= 0 {
					b.log.add(c20Ev{K: "ERelease", L: l})
					b.ls[l].release()
					if !quiet(o.K) {
						break loop
					}
				}
			}
		case "gate":
			if okL(o.L) {
				b.ls[o.L].setGated(true)
			}
		case "gate_all":
			// one op, so that a shrunk script does not depend on which listener the loop calls first
			for _, l := range b.ls {
				l.setGated(true)
			}
		case "ungate_all":
			for _, l := range b.ls {
				l.setGated(false)
			}
			for _, l := range b.ls {
				if l.blockedNow() {
					b.log.add(c20Ev{K: "ERelease", L: l.id})
					l.release()
					if !quiet(o.K) {
						break loop
					}
				}
			}
		case "ungate", "release":
			if okL(o.L) {
				if o.K == "ungate" {
					b.ls[o.L].setGated(false)
				}
				b.log.add(c20Ev{K: "ERelease", L: o.L})
				b.ls[o.L].release()
				if !quiet(o.K) {
					break loop
				}
			}
		case "digest":
			b.log.add(b.digest())
		}
	}
	if stalled == "" {
		// let everything drain
		for _, l := range b.ls {
			l.setGated(false)
		}
		for _, l := range b.ls {
			if l.blockedNow() {
				b.log.add(c20Ev{K: "ERelease", L: l.id})
				l.release()
				if !quiet("final release") {
					break
				}
			}
		}
		if stalled == "" {
			b.log.add(b.digest())
		}
	}
	return c20Result{evs: b.log.snapshot(), stalled: stalled}
}

// concurrent run: the ops are workers
func c20RunConc(c *c20Case, seed int64) c20Result {
	b := newC20Bus(c.Targets, c.NL)
	defer b.close()
	g := b.log
	var nextM atomic.Int64
	nextM.Store(int64(c.Id%1000)*100000 + 1)
	budget := make([]atomic.Int64, len(c.Targets))  // publications per target stay below the 64 slots
	unregging := make([]atomic.Int64, len(c.Targets))
	var stallMu sync.Mutex
	stalled := ""
	setStall := func(s string) {
		stallMu.Lock()
		if stalled == "" {
			stalled = s
		}
		stallMu.Unlock()
	}
	pause := func(r *vrng) {
		switch r.intn(4) {
		case 0:
		case 1:
			runtime.Gosched()
		default:
			time.Sleep(time.Duration(r.intn(120)) * time.Microsecond)
		}
	}
	var wg sync.WaitGroup
	for wi, w := range c.Ops {
		w := w
		r := newVrng(seed, uint64(1000+wi)*7+uint64(w.Seed))
		switch w.K {
		case "w_pub":
			wg.Add(1)
			go func() {
				defer wg.Done()
				for i := 0; i < w.N && len(w.Ts) > 0; i++ {
					t := w.Ts[r.intn(len(w.Ts))]
					if t < 0 || t >= len(c.Targets) {
						continue
					}
					if budget[t].Add(1) > 48 {
						continue
					}
					for k := 0; unregging[t].Load() > 0 && k < 100000; k++ {
						time.Sleep(20 * time.Microsecond)
					}
					m := int(nextM.Add(1))
					g.add(c20Ev{K: "HPubStart", M: m, Ti: t, Pl: c20Payload(m)})
					var err error
					if !c20Call(func() { err = b.publish(t, m) }) {
						setStall(fmt.Sprintf("publisher blocked: Publish on target %d did not return within 5 s", t))
						return
					}
					g.add(c20Ev{K: "HPubEnd", M: m, Ok: err == nil})
					pause(r)
				}
			}()
		case "w_lis":
			wg.Add(1)
			go func() {
				defer wg.Done()
				registered := map[[2]int]bool{}
				for i := 0; i < w.N && len(w.Ts) > 0 && len(w.Ls) > 0; i++ {
					l := w.Ls[r.intn(len(w.Ls))]
					t := w.Ts[r.intn(len(w.Ts))]
					if t < 0 || t >= len(c.Targets) || l < 0 || l >= c.NL {
						continue
					}
					key := [2]int{l, t}
					if !registered[key] {
						g.add(c20Ev{K: "HRegStart", L: l, Ti: t})
						var err error
						if !c20Call(func() { err = b.register(t, l) }) {
							setStall("register blocked")
							return
						}
						g.add(c20Ev{K: "HRegEnd", L: l, Ti: t, Ok: err == nil})
						registered[key] = err == nil
					} else {
						// unregistration begins only when everything published so far has arrived
						unregging[t].Add(1)
						dl := time.Now().Add(3 * time.Second)
						for {
							g.mu.Lock()
							if g.allReceivedLocked(l, t) || time.Now().After(dl) {
								g.addLocked(c20Ev{K: "HUnregStart", L: l, Ti: t})
								g.mu.Unlock()
								break
							}
							g.mu.Unlock()
							time.Sleep(30 * time.Microsecond)
						}
						if !c20Call(func() { b.unregister(t, l) }) {
							setStall("unregister blocked")
							unregging[t].Add(-1)
							return
						}
						g.add(c20Ev{K: "HUnregEnd", L: l, Ti: t})
						unregging[t].Add(-1)
						registered[key] = false
					}
					pause(r)
				}
			}()
		}
	}
	done := make(chan struct{})
	go func() { wg.Wait(); close(done) }()
	select {
	case <-done:
	case <-time.After(60 * time.Second):
		setStall("workers did not finish within 60 s")
	}
	if stalled == "" && !c20WaitQuiet(10*time.Second) {
		stalled = "no quiescence after the concurrent run"
	}
	return c20Result{evs: g.snapshot(), stalled: stalled}
}

// ---- generators ----------------------------------------------------------------------------

var c20Ids = []string{"r1", "r2", "room 3", "a|b", "r1|x", "u", "x.y", "t0k3n", "Zz", "1"}
var c20Backends = []string{"", "!compat", "b1", "b2", "x", "backend-3"}
var c20SessionIds = []string{"s1", "s2", "AbC_-9", "bad id", "dot.", "s.t"}

func c20GenTargets(r *vrng, n int, good bool) []c20Target {
	var ts []c20Target
	seen := map[string]bool{}
	for len(ts) < n {
		k := r.intn(4)
		var t c20Target
		if k == 3 {
			t = c20Target{K: 3, Id: pick(r, c20SessionIds), B: pick(r, c20Backends)}
		} else {
			t = c20Target{K: k, Id: pick(r, c20Ids), B: pick(r, c20Backends)}
			// stay outside the known subject-key collision: no separator in the backend part
			if t.B == "" || t.B == "!compat" {
				if strings.Contains(t.Id, "|") {
					continue
				}
			}
		}
		// distinct targets must denote distinct subjects (a session subject ignores the backend;
		// nil and compat backend are the same)
		if subj := t.subject(); good && (strings.HasSuffix(subj, ".") || strings.Contains(subj, " ")) {
			continue // Subscribe would refuse it
		}
		// by what the property calls the subject (kind, id, backend), NOT by the string the
		// implementation computes for it: two different ids the implementation maps to one
		// string must both stay in the table (for the ids of this generator -- all inside the
		// side condition of C20_subject_inj -- the two coincide on the unchanged tree)
		s := t.identity()
		if seen[s] {
			continue
		}
		seen[s] = true
		ts = append(ts, t)
	}
	return ts
}

// mode 1: no blocking callbacks, every call on one (listener, target) alternates
func c20GenPlain(r *vrng, id int) *c20Case {
	c := &c20Case{Id: id, Mode: 1, Gen: "plain", NL: 2 + r.intn(4)}
	c.Targets = c20GenTargets(r, 2+r.intn(4), false)
	n := 12 + r.intn(30)
	reg := map[[2]int]bool{}
	bad := map[int]bool{}
	for i, t := range c.Targets {
		s := t.subject()
		bad[i] = strings.HasSuffix(s, ".") || strings.Contains(s, " ")
	}
	m := 1
	for i := 0; i < n; i++ {
		t := r.intn(len(c.Targets))
		l := r.intn(c.NL)
		x := r.intn(100)
		switch {
		case x < 50:
			c.Ops = append(c.Ops, c20Op{K: "pub", T: t, M: m})
			m++
		case x < 78:
			if !reg[[2]int{l, t}] {
				c.Ops = append(c.Ops, c20Op{K: "reg", T: t, L: l})
				reg[[2]int{l, t}] = !bad[t]
			}
		case x < 95:
			// prefer something that is registered
			for try := 0; try < 4 && !reg[[2]int{l, t}]; try++ {
				t, l = r.intn(len(c.Targets)), r.intn(c.NL)
			}
			if reg[[2]int{l, t}] {
				c.Ops = append(c.Ops, c20Op{K: "unreg", T: t, L: l})
				reg[[2]int{l, t}] = false
			}
		default:
			c.Ops = append(c.Ops, c20Op{K: "digest"})
		}
	}
	return c
}

// mode 1: calls that change nothing between the others -- unregistering a listener that
// is not registered on the subject (never was, or was unregistered already: sessions are
// closed through several paths), registering one that is registered already -- on subjects
// that have few listeners.  The listeners that stay registered must not notice (clause a).
func c20GenUnbalanced(r *vrng, id int) *c20Case {
	c := &c20Case{Id: id, Mode: 1, Gen: "unbalanced", NL: 3 + r.intn(3)}
	c.Targets = c20GenTargets(r, 1+r.intn(3), true)
	n := 14 + r.intn(26)
	reg := map[[2]int]bool{}
	count := func(t int) int {
		k := 0
		for l := 0; l < c.NL; l++ {
			if reg[[2]int{l, t}] {
				k++
			}
		}
		return k
	}
	m := 1
	for i := 0; i < n; i++ {
		t := r.intn(len(c.Targets))
		l := r.intn(c.NL)
		x := r.intn(100)
		switch {
		case x < 30:
			c.Ops = append(c.Ops, c20Op{K: "pub", T: t, M: m})
			m++
		case x < 52:
			// register (a fifth of them for a listener that is registered already); keep the subjects small
			if reg[[2]int{l, t}] && !r.chance(20) || count(t) >= 3 && !reg[[2]int{l, t}] {
				continue
			}
			c.Ops = append(c.Ops, c20Op{K: "reg", T: t, L: l})
			reg[[2]int{l, t}] = true
		case x < 66:
			for try := 0; try < 4 && !reg[[2]int{l, t}]; try++ {
				t, l = r.intn(len(c.Targets)), r.intn(c.NL)
			}
			c.Ops = append(c.Ops, c20Op{K: "unreg", T: t, L: l})
			was := reg[[2]int{l, t}]
			reg[[2]int{l, t}] = false
			if was && r.chance(45) {
				// the same call again (right away, or after a publication)
				if r.chance(40) {
					c.Ops = append(c.Ops, c20Op{K: "pub", T: t, M: m})
					m++
				}
				c.Ops = append(c.Ops, c20Op{K: "unreg", T: t, L: l})
			}
			if count(t) > 0 {
				c.Ops = append(c.Ops, c20Op{K: "pub", T: t, M: m})
				m++
			}
		case x < 92:
			// unregister a listener that is not registered on that subject, preferably on a
			// subject where one or two others are
			for try := 0; try < 6 && (reg[[2]int{l, t}] || count(t) == 0); try++ {
				t, l = r.intn(len(c.Targets)), r.intn(c.NL)
			}
			if reg[[2]int{l, t}] {
				continue
			}
			c.Ops = append(c.Ops, c20Op{K: "unreg", T: t, L: l})
			c.Ops = append(c.Ops, c20Op{K: "pub", T: t, M: m})
			m++
		default:
			c.Ops = append(c.Ops, c20Op{K: "digest"})
		}
	}
	return c
}

// the same, directed: for each of the four subject kinds a subject with one, two and three
// listeners, one of them unregistered twice; then a listener that never was registered; a
// listener registered twice and unregistered once; unregistration after the subscriber is gone
func c20DirectedUnbalanced(id int) []*c20Case {
	var cs []*c20Case
	for k := 0; k < 4; k++ {
		for stay := 1; stay <= 3; stay++ {
			t := c20Target{K: k, Id: "u1", B: "b1"}
			if k == 3 {
				t = c20Target{K: 3, Id: "s1"}
			}
			c := &c20Case{Id: id, Mode: 1, Gen: "unbalanced-directed", NL: stay + 2, Targets: []c20Target{t}}
			id++
			leaver, never := stay, stay+1
			for l := 0; l <= stay; l++ {
				c.Ops = append(c.Ops, c20Op{K: "reg", T: 0, L: l})
			}
			c.Ops = append(c.Ops,
				c20Op{K: "pub", T: 0, M: 1},
				c20Op{K: "unreg", T: 0, L: leaver}, c20Op{K: "pub", T: 0, M: 2},
				c20Op{K: "unreg", T: 0, L: leaver}, c20Op{K: "pub", T: 0, M: 3},
				c20Op{K: "unreg", T: 0, L: never}, c20Op{K: "pub", T: 0, M: 4},
				c20Op{K: "reg", T: 0, L: 0}, c20Op{K: "pub", T: 0, M: 5},
				c20Op{K: "digest"},
				c20Op{K: "unreg", T: 0, L: 0}, c20Op{K: "pub", T: 0, M: 6})
			for l := 1; l < stay; l++ {
				c.Ops = append(c.Ops, c20Op{K: "unreg", T: 0, L: l})
			}
			c.Ops = append(c.Ops,
				c20Op{K: "pub", T: 0, M: 7},
				c20Op{K: "unreg", T: 0, L: 0}, c20Op{K: "digest"},
				c20Op{K: "reg", T: 0, L: leaver}, c20Op{K: "pub", T: 0, M: 8}, c20Op{K: "digest"})
			cs = append(cs, c)
		}
	}
	return cs
}

// mode 4 (compared with the model as in mode 0, and judged by the clauses of P_C20 that hold
// of every history): callbacks that block, anything goes
func c20GenGated(r *vrng, id int) *c20Case {
	c := &c20Case{Id: id, Mode: 4, Gen: "gated", NL: 2 + r.intn(4)}
	c.Targets = c20GenTargets(r, 1+r.intn(4), r.chance(80))
	n := 15 + r.intn(35)
	m := 1
	hot := r.intn(len(c.Targets))
	for i := 0; i < n; i++ {
		t := hot
		if r.chance(35) {
			t = r.intn(len(c.Targets))
		}
		l := r.intn(c.NL)
		x := r.intn(100)
		switch {
		case x < 36:
			c.Ops = append(c.Ops, c20Op{K: "pub", T: t, M: m})
			m++
		case x < 56:
			c.Ops = append(c.Ops, c20Op{K: "reg", T: t, L: l})
		case x < 68:
			c.Ops = append(c.Ops, c20Op{K: "unreg", T: t, L: l})
		case x < 78:
			c.Ops = append(c.Ops, c20Op{K: "gate", L: l})
		case x < 86:
			c.Ops = append(c.Ops, c20Op{K: "release", L: l})
		case x < 92:
			c.Ops = append(c.Ops, c20Op{K: "ungate", L: l})
		case x < 95:
			c.Ops = append(c.Ops, c20Op{K: "unreg_cur", T: t})
			if r.chance(60) {
				c.Ops = append(c.Ops, c20Op{K: "reg_cur", T: t})
			}
		default:
			c.Ops = append(c.Ops, c20Op{K: "digest"})
		}
	}
	return c
}

// the 64-slot channel: a listener that does not return, then more than 64 publications
func c20GenOverflow(r *vrng, id int) *c20Case {
	c := &c20Case{Id: id, Mode: 0, Gen: "overflow", NL: 2}
	c.Targets = c20GenTargets(r, 2, true)
	extra := r.intn(8)
	c.Ops = []c20Op{
		{K: "reg", T: 0, L: 0}, {K: "reg", T: 1, L: 1}, {K: "gate", L: 0},
		{K: "pub", T: 0, M: 1},
		{K: "pubn", T: 0, M: 2, N: 60 + r.intn(5)},
		{K: "pub", T: 1, M: 500},
		{K: "digest"},
		{K: "pubn", T: 0, M: 100, N: extra},
		{K: "digest"},
		{K: "pub", T: 1, M: 501},
		{K: "ungate", L: 0},
		{K: "pub", T: 0, M: 300},
	}
	return c
}

// below the threshold: a listener that does not return while up to 60 further
// messages are published must get all of them afterwards
func c20GenBurst(r *vrng, id int) *c20Case {
	c := &c20Case{Id: id, Mode: 1, Gen: "burst", NL: 3}
	c.Targets = c20GenTargets(r, 2, true)
	n := 40 + r.intn(21)
	c.Ops = []c20Op{
		{K: "reg", T: 0, L: 0}, {K: "reg", T: 0, L: 1}, {K: "reg", T: 1, L: 2}, {K: "gate", L: 0}, {K: "gate", L: 1},
		{K: "pub", T: 0, M: 1},
		{K: "pubn", T: 0, M: 2, N: n},
		{K: "pub", T: 1, M: 500},
		{K: "ungate", L: 0}, {K: "ungate", L: 1},
		{K: "pub", T: 0, M: 300},
	}
	return c
}

// a listener that is unregistered and registered again while the message it
// already got is still being handed to the others must not get it again
func c20GenRereg(r *vrng, id int) *c20Case {
	nl := 3 + r.intn(3)
	c := &c20Case{Id: id, Mode: 1, Gen: "rereg", NL: nl + 1}
	c.Targets = c20GenTargets(r, 1, true)
	for l := 0; l < nl; l++ {
		c.Ops = append(c.Ops, c20Op{K: "reg", T: 0, L: l})
	}
	c.Ops = append(c.Ops, c20Op{K: "unreg", T: 0, L: 1})
	for l := 0; l < nl; l++ {
		c.Ops = append(c.Ops, c20Op{K: "gate", L: l})
	}
	c.Ops = append(c.Ops, c20Op{K: "pub", T: 0, M: 1},
		c20Op{K: "unreg_cur", T: 0}, c20Op{K: "reg", T: 0, L: nl}, c20Op{K: "reg_cur", T: 0})
	for l := 0; l < nl; l++ {
		c.Ops = append(c.Ops, c20Op{K: "ungate", L: l})
	}
	c.Ops = append(c.Ops, c20Op{K: "pub", T: 0, M: 2})
	return c
}

// known finding: a message whose publication had returned before the
// unregistration began is not delivered when it is still on its way
func c20FindingPending(id int) *c20Case {
	return &c20Case{Id: id, Mode: 1, Gen: "finding-pending", NL: 1, Finding: "C20/unregister/pending-lost",
		Targets: []c20Target{{K: 1, Id: "r1", B: "b1"}},
		Ops: []c20Op{{K: "reg", T: 0, L: 0}, {K: "gate", L: 0}, {K: "pub", T: 0, M: 1}, {K: "pub", T: 0, M: 2},
			{K: "unreg", T: 0, L: 0}, {K: "ungate", L: 0}}}
}

// known finding: two different (room, backend) pairs share one subject
func c20FindingCollision(id int, variant int) *c20Case {
	c := &c20Case{Id: id, Mode: 1, Gen: "finding-collision", NL: 1, Finding: "C20/subject/pipe-collision"}
	if variant == 0 {
		c.Targets = []c20Target{{K: 1, Id: "r|x", B: "y"}, {K: 1, Id: "r", B: "x|y"}}
	} else {
		c.Targets = []c20Target{{K: 2, Id: "u|x", B: "!compat"}, {K: 2, Id: "u", B: "x"}}
	}
	c.Ops = []c20Op{{K: "reg", T: 0, L: 0}, {K: "pub", T: 1, M: 1}, {K: "pub", T: 0, M: 2}}
	return c
}

func c20GenConc(r *vrng, id int) *c20Case {
	c := &c20Case{Id: id, Mode: 2, Gen: "concurrent", NL: 4 + r.intn(5)}
	c.Targets = c20GenTargets(r, 2+r.intn(3), true)
	all := make([]int, len(c.Targets))
	for i := range all {
		all[i] = i
	}
	np := 1 + r.intn(3)
	nlw := 1 + r.intn(3)
	for i := 0; i < np; i++ {
		ts := all
		if r.chance(40) {
			ts = []int{r.intn(len(all))}
		}
		c.Ops = append(c.Ops, c20Op{K: "w_pub", Seed: r.intn(1 << 20), Ts: ts, N: 25 + r.intn(50)})
	}
	// listeners are partitioned among the listener workers
	for i := 0; i < nlw; i++ {
		var ls []int
		for l := i; l < c.NL; l += nlw {
			ls = append(ls, l)
		}
		ts := all
		if r.chance(30) {
			ts = []int{r.intn(len(all)), r.intn(len(all))}
		}
		c.Ops = append(c.Ops, c20Op{K: "w_lis", Seed: r.intn(1 << 20), Ts: ts, Ls: ls, N: 20 + r.intn(50)})
	}
	return c
}

// ---- listener changes that fall into the dispatch of one message (directed) -------------------
//
// A callback of the message is held; the harness then changes the listeners the dispatch has
// not called yet; the callback is released.
//   late-unreg: one / all of the others are unregistered (the call returns while the dispatch is
//     inside the held callback): they must not be called for that message any more (P_C20
//     clause (e); the model: the membership check before each callback), the rest must be.
//   late-rereg: one of the others is unregistered, the next callback is held, the listener is
//     registered again, the callback is released.  If the loop had passed the entry while it
//     was not a member it is not called, if the entry was still ahead it is: both are runs of
//     the model (Pick of a non-member / of a member), which one is the implementation's map
//     order.  Both outcomes are counted in the statistics (late_rereg_called / _skipped).
// For each of the four subject kinds, 2-4 listeners.
func c20LateTarget(k int) c20Target {
	if k == 3 {
		return c20Target{K: 3, Id: "late1"}
	}
	return c20Target{K: k, Id: "late", B: "b1"}
}

func c20DirectedLate(id int, reps int) []*c20Case {
	var cs []*c20Case
	start := func(gen string, k, n int) *c20Case {
		c := &c20Case{Id: id, Mode: 4, Gen: gen, NL: n, Targets: []c20Target{c20LateTarget(k)}}
		id++
		for l := 0; l < n; l++ {
			c.Ops = append(c.Ops, c20Op{K: "reg", T: 0, L: l})
		}
		c.Ops = append(c.Ops, c20Op{K: "gate_all"}, c20Op{K: "pub", T: 0, M: 1})
		return c
	}
	finish := func(c *c20Case, n int) {
		for l := 0; l < n; l++ {
			c.Ops = append(c.Ops, c20Op{K: "release_cur", T: 0})
		}
		c.Ops = append(c.Ops, c20Op{K: "ungate_all"})
		c.Ops = append(c.Ops, c20Op{K: "pub", T: 0, M: 2}, c20Op{K: "reg_idle", T: 0}, c20Op{K: "pub", T: 0, M: 3}, c20Op{K: "digest"})
		cs = append(cs, c)
	}
	for k := 0; k < 4; k++ {
		for n := 2; n <= 4; n++ {
			for v := 0; v < 3; v++ {
				if n == 2 && v > 0 {
					continue
				}
				c := start("late-unreg", k, n)
				switch v {
				case 0:
					c.Ops = append(c.Ops, c20Op{K: "unreg_idle", T: 0, N: 1})
				case 1:
					c.Ops = append(c.Ops, c20Op{K: "unreg_idle", T: 0, N: 1, M: 1})
				default:
					c.Ops = append(c.Ops, c20Op{K: "unreg_idle", T: 0, N: n - 1})
				}
				finish(c, n)
			}
		}
		for rep := 0; rep < reps; rep++ {
			for n := 3; n <= 4; n++ {
				c := start("late-rereg", k, n)
				c.Ops = append(c.Ops, c20Op{K: "unreg_idle", T: 0, N: 1, M: rep % 2},
					c20Op{K: "release_cur", T: 0}, c20Op{K: "reg_idle", T: 0})
				finish(c, n)
			}
		}
	}
	return cs
}

// ---- forced schedules on the locks ---------------------------------------------------------------
//
// A phased script (mode 2, judged by P_C20 on the history of call starts, call ends and
// callbacks): calls made one after the other (reg / unreg / pub, the bus quiescent after each),
// and calls that overlap because the harness holds a mutex they need:
//   hold T (N=0: the mutex of the subscriber of target T; N=1: the mutex of the loopback
//     client; N=2: both), go_unreg / go_reg T L: the call is started on a goroutine of its own
//     and the harness waits until that goroutine is parked in Mutex.Lock (or has returned);
//     unhold: the mutexes are released, the overlapping calls must all return (5 s), the bus
//     must become quiescent.
// While the subscriber's mutex is held, an unregistration sits in removeListener, a registration
// for the same subject behind it (in addListener, or at asyncEventsNats.mu): the calls then
// finish in the order the mutexes hand them over -- a schedule in which whatever the
// unregistration does after removeListener happens after the registration, if the code lets it.
func c20AsyncCall(f func(), done chan struct{}) {
	f()
	close(done)
}

// how many goroutines of overlapping calls are parked in Mutex.Lock
func c20AsyncParked() int {
	c20StackMu.Lock()
	defer c20StackMu.Unlock()
	n := runtime.Stack(c20StackBuf, true)
	k := 0
	for _, g := range strings.Split(string(c20StackBuf[:n]), "\n\n") {
		if !strings.Contains(g, "signaling.c20AsyncCall") {
			continue
		}
		hdr := g
		if i := strings.IndexByte(g, '\n'); i >= 0 {
			hdr = g[:i]
		}
		if strings.Contains(hdr, "[sync.Mutex.Lock") || strings.Contains(hdr, "[semacquire") {
			k++
		}
	}
	return k
}

func (b *c20Bus) subscriberMutex(ti int) *sync.Mutex {
	t := b.targets[ti]
	key := t.subject()
	ev := b.events
	ev.mu.Lock()
	defer ev.mu.Unlock()
	switch t.K {
	case 0:
		if s, ok := ev.backendRoomSubscriptions[key]; ok {
			return &s.mu
		}
	case 1:
		if s, ok := ev.roomSubscriptions[key]; ok {
			return &s.mu
		}
	case 2:
		if s, ok := ev.userSubscriptions[key]; ok {
			return &s.mu
		}
	default:
		if s, ok := ev.sessionSubscriptions[key]; ok {
			return &s.mu
		}
	}
	return nil
}

func c20IsPhased(c *c20Case) bool {
	for _, o := range c.Ops {
		if o.K == "w_pub" || o.K == "w_lis" {
			return false
		}
	}
	return true
}

func c20RunPhased(c *c20Case) c20Result {
	b := newC20Bus(c.Targets, c.NL)
	defer b.close()
	g := b.log
	stalled := ""
	var held []*sync.Mutex
	var pending []chan struct{}
	okT := func(t int) bool { return t >= 0 && t < len(c.Targets) }
	okL := func(l int) bool { return l >= 0 && l < c.NL }
	allDone := func() int {
		n := 0
		for _, d := range pending {
			select {
			case <-d:
				n++
			default:
			}
		}
		return n
	}
	unhold := func() bool {
		for _, m := range held {
			m.Unlock()
		}
		held = nil
		dl := time.Now().Add(5 * time.Second)
		for allDone() < len(pending) {
			if time.Now().After(dl) {
				stalled = "register / unregister calls that overlapped did not return within 5 s"
				return false
			}
			time.Sleep(20 * time.Microsecond)
		}
		pending = nil
		if !c20WaitQuiet(5 * time.Second) {
			stalled = "no quiescence after overlapping calls"
			return false
		}
		return true
	}
	async := func(f func()) {
		done := make(chan struct{})
		pending = append(pending, done)
		go c20AsyncCall(f, done)
		// until every overlapping call is parked at a mutex or has returned
		dl := time.Now().Add(2 * time.Second)
		for i := 0; ; i++ {
			if allDone()+c20AsyncParked() >= len(pending) || time.Now().After(dl) {
				return
			}
			if i < 10 {
				runtime.Gosched()
			} else {
				time.Sleep(20 * time.Microsecond)
			}
		}
	}
	quiet := func(what string) bool {
		if !c20WaitQuiet(5 * time.Second) {
			stalled = "no quiescence after " + what
			return false
		}
		return true
	}
loop:
	for _, o := range c.Ops {
		switch o.K {
		case "pub", "reg", "unreg":
			if len(held) > 0 || len(pending) > 0 {
				if !unhold() {
					break loop
				}
			}
		}
		switch o.K {
		case "pub":
			if !okT(o.T) {
				continue
			}
			g.add(c20Ev{K: "HPubStart", M: o.M, Ti: o.T, Pl: c20Payload(o.M)})
			var err error
			if !c20Call(func() { err = b.publish(o.T, o.M) }) {
				stalled = fmt.Sprintf("publisher blocked: Publish on target %d did not return within 5 s", o.T)
				break loop
			}
			g.add(c20Ev{K: "HPubEnd", M: o.M, Ok: err == nil})
			if !quiet("publish") {
				break loop
			}
		case "reg":
			if !okT(o.T) || !okL(o.L) {
				continue
			}
			g.add(c20Ev{K: "HRegStart", L: o.L, Ti: o.T})
			var err error
			if !c20Call(func() { err = b.register(o.T, o.L) }) {
				stalled = "register blocked"
				break loop
			}
			g.add(c20Ev{K: "HRegEnd", L: o.L, Ti: o.T, Ok: err == nil})
			if !quiet("register") {
				break loop
			}
		case "unreg":
			if !okT(o.T) || !okL(o.L) {
				continue
			}
			g.add(c20Ev{K: "HUnregStart", L: o.L, Ti: o.T})
			if !c20Call(func() { b.unregister(o.T, o.L) }) {
				stalled = "unregister blocked"
				break loop
			}
			g.add(c20Ev{K: "HUnregEnd", L: o.L, Ti: o.T})
			if !quiet("unregister") {
				break loop
			}
		case "hold":
			if len(held) > 0 || !okT(o.T) {
				continue
			}
			if o.N == 0 || o.N == 2 {
				if m := b.subscriberMutex(o.T); m != nil {
					m.Lock()
					held = append(held, m)
				}
			}
			if o.N == 1 || o.N == 2 {
				b.client.mu.Lock()
				held = append(held, &b.client.mu)
			}
		case "go_reg":
			if !okT(o.T) || !okL(o.L) {
				continue
			}
			t, l := o.T, o.L
			g.add(c20Ev{K: "HRegStart", L: l, Ti: t})
			async(func() {
				err := b.register(t, l)
				g.add(c20Ev{K: "HRegEnd", L: l, Ti: t, Ok: err == nil})
			})
		case "go_unreg":
			if !okT(o.T) || !okL(o.L) {
				continue
			}
			t, l := o.T, o.L
			g.add(c20Ev{K: "HUnregStart", L: l, Ti: t})
			async(func() {
				b.unregister(t, l)
				g.add(c20Ev{K: "HUnregEnd", L: l, Ti: t})
			})
		case "unhold":
			if !unhold() {
				break loop
			}
		}
	}
	if stalled == "" && (len(held) > 0 || len(pending) > 0) {
		unhold()
	} else {
		for _, m := range held {
			m.Unlock()
		}
		held = nil
	}
	return c20Result{evs: g.snapshot(), stalled: stalled}
}

// For each of the four kinds; the subject has one or two listeners; listener 0 is unregistered
// while listener 2 registers (either call first), behind the subscriber's mutex, the loopback
// client's mutex or both; then a publication: exactly the registered listeners get it (P_C20
// clause (a) for the new and the remaining listener, (c) for the one that left); then the new
// listener leaves, the old one comes back, a publication after each.
func c20DirectedLockGate(id int) []*c20Case {
	var cs []*c20Case
	for k := 0; k < 4; k++ {
		for pre := 1; pre <= 2; pre++ {
			for hold := 0; hold < 3; hold++ {
				for first := 0; first < 2; first++ {
					c := &c20Case{Id: id, Mode: 2, Gen: "lockgate", NL: 3, Targets: []c20Target{c20LateTarget(k), {K: 2, Id: "other", B: "b1"}}}
					id++
					c.Ops = append(c.Ops, c20Op{K: "reg", T: 0, L: 0})
					if pre == 2 {
						c.Ops = append(c.Ops, c20Op{K: "reg", T: 0, L: 1})
					}
					c.Ops = append(c.Ops, c20Op{K: "pub", T: 0, M: 1}, c20Op{K: "hold", T: 0, N: hold})
					if first == 0 {
						c.Ops = append(c.Ops, c20Op{K: "go_unreg", T: 0, L: 0}, c20Op{K: "go_reg", T: 0, L: 2})
					} else {
						c.Ops = append(c.Ops, c20Op{K: "go_reg", T: 0, L: 2}, c20Op{K: "go_unreg", T: 0, L: 0})
					}
					c.Ops = append(c.Ops, c20Op{K: "unhold"}, c20Op{K: "pub", T: 0, M: 2},
						c20Op{K: "unreg", T: 0, L: 2}, c20Op{K: "pub", T: 0, M: 3},
						c20Op{K: "reg", T: 0, L: 0}, c20Op{K: "pub", T: 0, M: 4})
					cs = append(cs, c)
				}
			}
		}
	}
	return cs
}

// ---- the collision pool -----------------------------------------------------------------------
//
// "receives nothing published to other subjects" depends on the function from what the property
// calls a subject (kind, id, backend) to the string the bus subscribes to being injective.  Ids
// drawn independently of that function never collide under any plausible variant of it; the pool
// is built FOR collisions: every id comes with the texts an encoding step could turn it into, as
// ids of their own.
//
//   family of a base id x:
//     level 1:  x,  x + "|" + b for the named backends b (what GetSubjectFor*Id hands to the
//               encoder for (x, b); as an id of its own it is inside the side condition of
//               C20_subject_inj with a named backend and the region of the known finding
//               C20/subject/pipe-collision with a nil/compat backend: only the former is used)
//     level 2:  for every level-1 text y its derivations: base64 (standard and URL-safe
//               alphabet, with and without padding), hex (lower / upper), y with each of the
//               characters a subject cannot carry (blank . | * >) replaced by '_' / '-' or
//               dropped, lower case, upper case, query- and path-escaped
//   cluster of a level-1 text y = y and its derivations: where a collision is plausible.
//   targets of the cluster of x:      every id x {nil | compat, "b1"}, x also with "x"
//   targets of the cluster of x|b:    (x, b) -- the pair whose encoder input y is --, (y, b') for
//                                     the named backends b', every derivation of y with a
//                                     nil | compat backend (with "b1" when it contains '|')
//   (quick tier: the clusters of x|b at one kind per family and backend, the kinds taking turns)
//   all of them inside wf_target (checked again by the judge, mode 3), pairwise different
//   subjects of the property.  Sessions: the cluster of x only (a session subject has no backend).
//
// One case per cluster and kind: listener i registered on target i for every target of the
// table, then one publication per target.  P_C20 clause (c) then decides every ordered pair
// (listener on A, publication for B != A) of the table at once, on the implementation's own
// callbacks; clause (a) that every listener got its own message.  The shrinker reduces a failing
// case to the one registration and the one publication that collide.  Pairs across clusters,
// families and kinds: the whole family in one table at the thorough tier, seeded samples
// (c20GenPoolMixed) at both.

var c20PoolBases = []string{"mary jane", "x.y", "Zz Top", "a*b>c", "café", "ab", "??>???", "r1", "a|b"}
var c20PoolBackends = []string{"b1", "x"}

func c20Derived(y string) []string {
	out := []string{
		base64.StdEncoding.EncodeToString([]byte(y)),
		base64.RawStdEncoding.EncodeToString([]byte(y)),
		base64.URLEncoding.EncodeToString([]byte(y)),
		base64.RawURLEncoding.EncodeToString([]byte(y)),
		hex.EncodeToString([]byte(y)),
		strings.ToUpper(hex.EncodeToString([]byte(y))),
		strings.ToLower(y),
		strings.ToUpper(y),
		url.QueryEscape(y),
		url.PathEscape(y),
	}
	for _, rep := range []string{"_", "-", ""} {
		r := strings.NewReplacer(" ", rep, ".", rep, "|", rep, "*", rep, ">", rep)
		out = append(out, r.Replace(y))
	}
	return out
}

type c20TargetSet struct {
	ts   []c20Target
	seen map[string]bool
}

// only targets inside the side condition, every subject of the property once
func (s *c20TargetSet) add(t c20Target) {
	if s.seen == nil {
		s.seen = map[string]bool{}
	}
	if t.Id == "" || !t.wf() || s.seen[t.identity()] {
		return
	}
	s.seen[t.identity()] = true
	s.ts = append(s.ts, t)
}

// the clusters of the family of base, for one kind
func c20PoolClusters(base string, kind int) [][]c20Target {
	var out [][]c20Target
	nilOrCompat := func(i int) string {
		if i%2 == 1 {
			return "!compat"
		}
		return ""
	}
	if kind == 3 {
		// ids the loopback client refuses stay in (the registration fails: model and
		// implementation must agree on that)
		var s c20TargetSet
		s.add(c20Target{K: 3, Id: base})
		for i, d := range c20Derived(base) {
			s.add(c20Target{K: 3, Id: d, B: []string{"", "b1", "!compat"}[i%3]})
		}
		return [][]c20Target{s.ts}
	}
	{
		var s c20TargetSet
		s.add(c20Target{K: kind, Id: base})
		s.add(c20Target{K: kind, Id: base, B: "b1"})
		s.add(c20Target{K: kind, Id: base, B: "x"})
		for i, d := range c20Derived(base) {
			s.add(c20Target{K: kind, Id: d, B: nilOrCompat(i)})
			s.add(c20Target{K: kind, Id: d, B: "b1"})
		}
		out = append(out, s.ts)
	}
	for _, b := range c20PoolBackends {
		y := base + "|" + b
		var s c20TargetSet
		s.add(c20Target{K: kind, Id: base, B: b})
		for _, b2 := range c20PoolBackends {
			s.add(c20Target{K: kind, Id: y, B: b2})
		}
		for i, d := range c20Derived(y) {
			if strings.Contains(d, "|") {
				s.add(c20Target{K: kind, Id: d, B: "b1"})
			} else {
				s.add(c20Target{K: kind, Id: d, B: nilOrCompat(i)})
			}
		}
		out = append(out, s.ts)
	}
	return out
}

// the whole family in one table
func c20PoolTargets(base string, kind int) []c20Target {
	var s c20TargetSet
	for _, cl := range c20PoolClusters(base, kind) {
		for _, t := range cl {
			s.add(t)
		}
	}
	return s.ts
}

// listener i on target i, then one publication per target: every ordered pair of the table
// is a cross-delivery test
func c20CrossCase(id int, gen string, ts []c20Target) *c20Case {
	c := &c20Case{Id: id, Mode: 3, Gen: gen, NL: len(ts), Targets: ts}
	for i := range ts {
		c.Ops = append(c.Ops, c20Op{K: "reg", T: i, L: i})
	}
	for i := range ts {
		c.Ops = append(c.Ops, c20Op{K: "pub", T: i, M: i + 1})
	}
	return c
}

// quick tier: the cluster of x for every family and kind; the clusters of x|b (collisions across
// backends) for every family and backend at one kind each, the kinds taking turns over the
// families (every kind runs six of them).  thorough: all of them, and the whole families.
func c20DirectedPool(id int, families bool) []*c20Case {
	var cs []*c20Case
	for fi, base := range c20PoolBases {
		for kind := 0; kind < 4; kind++ {
			for ci, cl := range c20PoolClusters(base, kind) {
				if ci > 0 && !families && (fi+ci-1)%3 != kind {
					continue
				}
				cs = append(cs, c20CrossCase(id, "pool-cluster", cl))
				id++
			}
			if families && kind < 3 {
				cs = append(cs, c20CrossCase(id, "pool-family", c20PoolTargets(base, kind)))
				id++
			}
		}
	}
	return cs
}

var c20PoolAll []c20Target

func c20PoolEverything() []c20Target {
	if c20PoolAll == nil {
		for _, base := range c20PoolBases {
			for kind := 0; kind < 4; kind++ {
				c20PoolAll = append(c20PoolAll, c20PoolTargets(base, kind)...)
			}
		}
	}
	return c20PoolAll
}

// seeded: targets from the whole pool (across families and kinds), a listener per target,
// publications in random order, some listeners leaving and coming back in between
func c20GenPoolMixed(r *vrng, id int) *c20Case {
	all := c20PoolEverything()
	n := 6 + r.intn(9)
	var ts []c20Target
	seen := map[string]bool{}
	// half of the table from one family and kind (where collisions are plausible), the rest from anywhere
	base, kind := pick(r, c20PoolBases), r.intn(3)
	fam := c20PoolTargets(base, kind)
	for len(ts) < n {
		var t c20Target
		if len(ts) < n/2 {
			t = pick(r, fam)
		} else {
			t = pick(r, all)
		}
		if seen[t.identity()] {
			continue
		}
		seen[t.identity()] = true
		ts = append(ts, t)
	}
	c := &c20Case{Id: id, Mode: 3, Gen: "pool-mixed", NL: n, Targets: ts}
	for i := range ts {
		c.Ops = append(c.Ops, c20Op{K: "reg", T: i, L: i})
	}
	reg := make([]bool, n)
	for i := range reg {
		reg[i] = true
	}
	m := 1
	for k := 0; k < 2*n; k++ {
		t := r.intn(n)
		switch x := r.intn(100); {
		case x < 70:
			c.Ops = append(c.Ops, c20Op{K: "pub", T: t, M: m})
			m++
		case x < 88:
			if reg[t] {
				c.Ops = append(c.Ops, c20Op{K: "unreg", T: t, L: t})
			} else {
				c.Ops = append(c.Ops, c20Op{K: "reg", T: t, L: t})
			}
			reg[t] = !reg[t]
		default:
			c.Ops = append(c.Ops, c20Op{K: "digest"})
		}
	}
	return c
}

// ---- the scenario ---------------------------------------------------------------------------

func c20Emit(sink *caseSink, c *c20Case, res c20Result) {
	var tts, evs []string
	for _, t := range c.Targets {
		tts = append(tts, t.coq())
	}
	nrecv := 0
	for _, e := range res.evs {
		evs = append(evs, e.coq())
		if e.K == "ERecv" {
			nrecv++
		}
		sink.count("ev_" + e.K)
	}
	sink.count("gen_" + c.Gen)
	if c.Gen == "late-rereg" {
		// was the listener that came back called for the message whose dispatch it left?
		z, called := -1, false
		for _, e := range res.evs {
			if e.K == "EUnreg" && z < 0 {
				z = e.L
			}
			if e.K == "ERecv" && e.L == z && e.M == 1 {
				called = true
			}
		}
		if called {
			sink.count("late_rereg_called")
		} else if z >= 0 {
			sink.count("late_rereg_skipped")
		}
	}
	sink.count(fmt.Sprintf("mode%d", c.Mode))
	sink.count(fmt.Sprintf("events_%03d-%03d", len(evs)/50*50, len(evs)/50*50+49))
	sink.count(fmt.Sprintf("callbacks_%03d-%03d", nrecv/20*20, nrecv/20*20+19))
	if res.stalled != "" {
		sink.violation(c.Id, res.stalled, c)
		return
	}
	term := fmt.Sprintf("mkcase %d %d %s %s", c.Id, c.Mode, coqList(tts), coqList(evs))
	sink.add(term, c, nrecv >= 3, strings.Join(evs, ";"))
}

func c20KeyTable(r *vrng, n int) string {
	bytesOf := func(s string) string {
		var p []string
		for _, c := range []byte(s) {
			p = append(p, strconv.Itoa(int(c)))
		}
		return coqList(p)
	}
	alphabet := []byte("ab|| .=/+\x00\xff\xc3\xa9r1")
	rnd := func() string {
		n := r.intn(9)
		b := make([]byte, n)
		for i := range b {
			if r.chance(80) {
				b[i] = alphabet[r.intn(len(alphabet))]
			} else {
				b[i] = byte(r.intn(256))
			}
		}
		return string(b)
	}
	var rows []string
	for i := 0; i < n; i++ {
		t := c20Target{K: r.intn(4), Id: rnd()}
		bcoq := "None"
		switch r.intn(4) {
		case 0:
		case 1:
			t.B = "!compat"
		default:
			t.B = rnd()
			if t.B == "" || t.B == "!compat" {
				t.B = "b"
			}
			bcoq = "(Some " + bytesOf(t.B) + ")"
		}
		rows = append(rows, fmt.Sprintf("(%d, %s, %s, %s)", t.K, bytesOf(t.Id), bcoq, bytesOf(t.subject())))
	}
	// (the subjects of the collision pool are compared by the judge of their cases: key_mismatch)
	return "From Coq Require Import List Arith NArith String.\nFrom Verif Require Import corr.Run_C20.\nImport ListNotations.\n" +
		"Definition result := Eval vm_compute in key_mismatches [\n" + strings.Join(rows, ";\n") + "\n].\nPrint result.\n"
}

func TestVerifC20(t *testing.T) {
	env := getVerifEnv(t, "C20")
	log.SetOutput(io.Discard)
	defer log.SetOutput(os.Stderr)
	sink := newCaseSink(t, env, "C20", "corr.Run_C20", 12)
	sink.preamble = "Open Scope nat_scope.\n"
	var cases []*c20Case
	if env.replay != "" {
		var cs []c20Case
		readReplay(t, env.replay, &cs)
		for i := range cs {
			cases = append(cases, &cs[i])
		}
	} else {
		nPlain, nGated, nOver, nBurst, nRereg, nConc, nUnbal := 120, 120, 6, 4, 25, 40, 36
		if env.thorough() {
			nPlain, nGated, nOver, nBurst, nRereg, nConc, nUnbal = 1500, 1500, 30, 30, 300, 500, 600
		}
		id := 0
		// listener changes inside the dispatch of one message; forced schedules on the locks
		// (ids from 8000000; directed and deterministic whatever the map order, so they come
		// first: the replay the driver reports is the first failing case)
		reps := 2
		if env.thorough() {
			reps = 12
		}
		cases = append(cases, c20DirectedLate(8000000, reps)...)
		cases = append(cases, c20DirectedLockGate(8100000)...)
		// calls that change nothing (directed, then seeded); ids from 6000000 so that the seeded
		// streams of the other generators stay what they were
		ub := c20DirectedUnbalanced(6000000)
		for i := 0; i < nUnbal; i++ {
			uid := 6000100 + i
			ub = append(ub, c20GenUnbalanced(newVrng(env.seed, uint64(uid)), uid))
		}
		cases = append(cases, ub...)
		for i := 0; i < nPlain; i++ {
			cases = append(cases, c20GenPlain(newVrng(env.seed, uint64(id)), id))
			id++
		}
		for i := 0; i < nGated; i++ {
			cases = append(cases, c20GenGated(newVrng(env.seed, uint64(id)), id))
			id++
		}
		for i := 0; i < nOver; i++ {
			cases = append(cases, c20GenOverflow(newVrng(env.seed, uint64(id)), id))
			id++
		}
		for i := 0; i < nBurst; i++ {
			cases = append(cases, c20GenBurst(newVrng(env.seed, uint64(id)), id))
			id++
		}
		for i := 0; i < nRereg; i++ {
			cases = append(cases, c20GenRereg(newVrng(env.seed, uint64(id)), id))
			id++
		}
		cases = append(cases, c20FindingPending(id), c20FindingCollision(id+1, 0), c20FindingCollision(id+2, 1))
		id += 3
		for i := 0; i < nConc; i++ {
			cases = append(cases, c20GenConc(newVrng(env.seed, uint64(id)), id))
			id++
		}
		// the collision pool (ids from 7000000: the streams above stay what they were)
		cases = append(cases, c20DirectedPool(7000000, env.thorough())...)
		nMixed := 24
		if env.thorough() {
			nMixed = 600
		}
		for i := 0; i < nMixed; i++ {
			pid := 7001000 + i
			cases = append(cases, c20GenPoolMixed(newVrng(env.seed, uint64(pid)), pid))
		}
	}
	t0 := time.Now()
	poolTargets := 0
	for _, c := range cases {
		var res c20Result
		if c.Mode == 2 && c20IsPhased(c) {
			res = c20RunPhased(c)
		} else if c.Mode == 2 {
			res = c20RunConc(c, env.seed)
		} else {
			res = c20RunSeq(c)
		}
		c20Emit(sink, c, res)
		// the large tables are judged in smaller files (the files are evaluated in parallel)
		if c.Gen == "pool-family" {
			sink.flush()
		} else if c.Gen == "pool-cluster" {
			if poolTargets += len(c.Targets); poolTargets >= 200 {
				sink.flush()
				poolTargets = 0
			}
		}
	}
	sink.extraFile("keys", c20KeyTable(newVrng(env.seed, 777777), 150))
	sink.stats.Extra = map[string]float64{"harness_seconds": time.Since(t0).Seconds()}
	sink.close("real asyncEventsNats over the real LoopbackNatsClient: seeded sequential scripts (publish/register/unregister on the four subject kinds, overlapping subjects, blocking callbacks, 64-slot overflow; collision pool: ids with their base64 / hex / separator / case / id|backend derivations as ids of their own, a listener per target and a publication per target, every ordered pair judged by P_C20 clause 3) run to quiescence after each call and replayed on the model; scripts with held callbacks also judged by the clauses of P_C20 that hold of every history (a listener changed inside the dispatch of one message: unregistered -> not called any more, clause 5; registered again -> called or not, both runs of the model); concurrent runs (publishers and registering/unregistering listeners) and phased scripts whose register / unregister calls overlap behind a mutex the harness holds (subscriber mutex, loopback client mutex) judged by P_C20; non-trivial = at least 3 callbacks; distinct = distinct event sequences")
}
