//go:build verif

package signaling

import (
	"bufio"
	"context"
	"encoding/json"
	"fmt"
	"io"
	"log"
	"os"
	"os/exec"
	"path/filepath"
	"strconv"
	"strings"
	"sync"
	"testing"
	"time"
)

// ---- C12: a hostile federation peer against the real Hub ---------------------------
//
// Parent process: generates the cases, hands them in batches to child processes
// (this test binary re-executed), turns what the children recorded into Coq cases.
// Child process: one Hub + hostile peer + two bystander sessions per batch; before
// every operation the (case, op) position is written to a progress file, so a child
// that dies tells the parent which operation killed the server.

func c12WelcomeOk() *c12Shape { return &c12Shape{Tag: "welcome", Id: "other", Wel: "fed"} }
func c12HelloOk(sid, resume bool) *c12Shape {
	return &c12Shape{Tag: "hello", Id: "cur", Hel: &c12Hello{Sid: sid, Resume: resume}}
}
func c12RoomOk() *c12Shape { return &c12Shape{Tag: "room", Id: "other", Room: "remote"} }
func c12Recv(m *c12Shape) c12Op { return c12Op{K: "recv", M: m} }

// the stages of the quantifier: before welcome, hello pending, after hello, after
// the room join, after a resumed reconnect
func c12Prefix(stage string, sid bool) []c12Op {
	switch stage {
	case "S1":
		return []c12Op{c12Recv(c12WelcomeOk())}
	case "S2":
		return []c12Op{c12Recv(c12WelcomeOk()), c12Recv(c12HelloOk(sid, true))}
	case "S3":
		return []c12Op{c12Recv(c12WelcomeOk()), c12Recv(c12HelloOk(sid, true)), c12Recv(c12RoomOk())}
	case "S4":
		return []c12Op{c12Recv(c12WelcomeOk()), c12Recv(c12HelloOk(sid, true)), c12Recv(c12RoomOk()), {K: "drop", N: 1}, {K: "accept"},
			c12Recv(c12WelcomeOk()), c12Recv(c12HelloOk(sid, true))}
	}
	return nil
}

// level 1: every type x (no member | exactly one member | all members)
func c12Level1(full bool) []*c12Shape {
	var out []*c12Shape
	for _, tag := range c12Tags {
		if full {
			for bits := 0; bits < 1<<len(c12Members); bits++ {
				s := &c12Shape{Tag: tag, Id: "other"}
				for i, m := range c12Members {
					if bits&(1<<i) != 0 {
						s.with(m)
					}
				}
				out = append(out, s)
			}
			continue
		}
		out = append(out, &c12Shape{Tag: tag, Id: "other"})
		for _, m := range c12Members {
			s := &c12Shape{Tag: tag, Id: "other"}
			s.with(m)
			out = append(out, s)
		}
		all := &c12Shape{Tag: tag, Id: "other"}
		for _, m := range c12Members {
			all.with(m)
		}
		out = append(out, all)
	}
	return out
}

// level 2: events: every target x type x (no member | one member | all members);
// contents of the other members
func c12Level2Events(full bool) []*c12Shape {
	var out []*c12Shape
	for _, tg := range c12Targets {
		for _, ty := range c12Types {
			mk := func() *c12Shape { return &c12Shape{Tag: "event", Id: "other", Ev: &c12Event{Target: tg, Type: ty}} }
			if full {
				for bits := 0; bits < 1<<len(c12EvMembers); bits++ {
					s := mk()
					for i, m := range c12EvMembers {
						if bits&(1<<i) != 0 {
							s.Ev.with(m)
						}
					}
					out = append(out, s)
				}
				continue
			}
			out = append(out, mk())
			for _, m := range c12EvMembers {
				s := mk()
				s.Ev.with(m)
				out = append(out, s)
			}
			all := mk()
			for _, m := range c12EvMembers {
				all.Ev.with(m)
			}
			out = append(out, all)
		}
	}
	return out
}

func c12Level2Other() []*c12Shape {
	var out []*c12Shape
	for _, sid := range []bool{true, false} {
		for _, res := range []bool{true, false} {
			for _, srv := range []bool{true, false} {
				out = append(out, &c12Shape{Tag: "hello", Id: "cur", Hel: &c12Hello{Sid: sid, Resume: res, Server: srv}})
			}
		}
	}
	for _, w := range []string{"fed", "nofed"} {
		out = append(out, &c12Shape{Tag: "welcome", Id: "other", Wel: w})
	}
	for _, e := range []string{"nss", "aj", "oc"} {
		out = append(out, &c12Shape{Tag: "error", Id: "cur", Err: e}, &c12Shape{Tag: "error", Id: "other", Err: e})
	}
	for _, r := range []string{"empty", "remote", "other"} {
		out = append(out, &c12Shape{Tag: "room", Id: "other", Room: r})
	}
	for _, s := range []bool{true, false} {
		for _, r := range []bool{true, false} {
			out = append(out, &c12Shape{Tag: "message", Id: "other", Msg: &c12SR{Sender: s, Recipient: r}},
				&c12Shape{Tag: "control", Id: "other", Ctl: &c12SR{Sender: s, Recipient: r}})
		}
	}
	out = append(out, &c12Shape{Tag: "other", Empty: true}) // {"type":""}
	return out
}

// level 3: contents of the lists inside events
func c12Level3() []*c12Shape {
	var out []*c12Shape
	users := [][]c12Ent{nil, {3}, {0}, {1}, {2}, {3, 1}, {3, 3}}
	changed := [][]c12Ent{nil, {3}, {2}, {0}}
	for _, tg := range []string{"participants", "roomlist"} {
		for _, u := range users {
			for _, c := range changed {
				out = append(out, &c12Shape{Tag: "event", Id: "other", Ev: &c12Event{Target: tg, Type: "update", Update: &c12Upd{Users: u, Changed: c}}})
			}
		}
	}
	for _, j := range [][]int{{1}, {-1}, {0}, {1, -1}, {-1, 1}, {1, 1}, {2, 0}, {0, -1}, {3, 4, 1}} {
		out = append(out, &c12Shape{Tag: "event", Id: "other", Ev: &c12Event{Target: "room", Type: "join", Join: j}})
		out = append(out, &c12Shape{Tag: "event", Id: "other", Ev: &c12Event{Target: "room", Type: "other", Change: j}})
	}
	for _, l := range [][]int{{0}, {1}, {1, 0}, {2, 3}} {
		out = append(out, &c12Shape{Tag: "event", Id: "other", Ev: &c12Event{Target: "room", Type: "leave", Leave: l}})
	}
	return out
}

// level 2b: contents of the raw members the code decodes on its own (data of message /
// control, details of an already_joined error)
func c12Level2Variants() []*c12Shape {
	var out []*c12Shape
	for v := 1; v < c12Variants; v++ {
		out = append(out, &c12Shape{Tag: "message", Id: "other", Msg: &c12SR{Sender: true, Recipient: v%2 == 0}, V: v},
			&c12Shape{Tag: "control", Id: "other", Ctl: &c12SR{Sender: v%2 == 1, Recipient: true}, V: v},
			&c12Shape{Tag: "error", Id: "other", Err: "aj", V: v})
	}
	return out
}

func c12UpdShape(target string, users, changed []c12Ent) *c12Shape {
	return &c12Shape{Tag: "event", Id: "other", Ev: &c12Event{Target: target, Type: "update", Update: &c12Upd{Users: users, Changed: changed}}}
}

// level 3b: member-level variants of the entries of update.users / update.changed: the
// two members the code reads as a session id ("sessionId" in CheckValid and in the
// session's filterMessage, "sessionId" or else "sessionid" in updateEventUsers), each
// missing / a number / null / the remote id of the federated session / another string,
// and the actor members updateEventUsers rewrites.  Every entry alone in users, behind a
// regular entry in users, and in changed next to a regular users list; the entries about
// the federated session itself also twice per list and once in each list (only the first
// one of a list is given the local id).
func c12Level3Entries(full bool) []*c12Shape {
	var out []*c12Shape
	entries := []c12Ent{0}
	for _, up := range c12SidClasses {
		for _, lo := range c12SidClasses {
			if full {
				for act := 0; act < 5; act++ {
					entries = append(entries, c12UE(up, lo, act))
				}
			} else {
				entries = append(entries, c12UE(up, lo, (2*up+lo)%5))
			}
		}
	}
	good := c12UE(4, 0, 1)
	for _, x := range entries {
		out = append(out, c12UpdShape("participants", []c12Ent{x}, nil),
			c12UpdShape("participants", []c12Ent{good, x}, nil),
			c12UpdShape("participants", []c12Ent{3}, []c12Ent{x}))
	}
	ownLo, ownUp, otherLo := c12UE(0, 3, 0), c12UE(3, 0, 0), c12UE(0, 4, 0)
	for _, pair := range [][2]c12Ent{{ownLo, ownLo}, {ownLo, otherLo}, {ownUp, ownLo}, {ownUp, ownUp}, {c12UE(1, 3, 0), c12UE(2, 3, 0)}} {
		out = append(out, c12UpdShape("participants", []c12Ent{pair[0], pair[1]}, nil),
			c12UpdShape("participants", []c12Ent{pair[0]}, []c12Ent{pair[1]}))
	}
	if full {
		for _, x := range entries {
			if _, up, lo, act := c12UEntry(x); act != 0 || up == 2 || lo == 2 {
				continue
			}
			for _, y := range entries {
				if _, up, lo, act := c12UEntry(y); act == 0 && up != 2 && lo != 2 {
					out = append(out, c12UpdShape("participants", []c12Ent{x, y}, nil))
				}
			}
			out = append(out, c12UpdShape("roomlist", []c12Ent{x}, []c12Ent{x}))
		}
	}
	return out
}

// a random entry of a users list: mostly regular, often a valid one with odd other
// members, sometimes one without a string "sessionId"
func c12RandEntry(r *vrng) c12Ent {
	switch x := r.intn(100); {
	case x < 45:
		return 3
	case x < 85:
		return c12UE(3+r.intn(2), r.intn(5), r.intn(5))
	case x < 90:
		return c12Ent(r.intn(3))
	}
	return c12UE(r.intn(3), r.intn(5), r.intn(5))
}

func c12RandShape(r *vrng) *c12Shape {
	s := &c12Shape{Tag: pick(r, c12Tags), Id: pick(r, []string{"other", "other", "cur", "cur", "empty"})}
	// mostly well-formed: the member of the type is present
	if r.chance(75) {
		s.with(s.Tag)
	}
	for _, m := range c12Members {
		if r.chance(12) {
			s.with(m)
		}
	}
	if s.Err != "" {
		s.Err = pick(r, []string{"nss", "aj", "oc"})
	}
	if s.Wel != "" && r.chance(25) {
		s.Wel = "nofed"
	}
	if s.Room != "" {
		s.Room = pick(r, []string{"empty", "remote", "remote", "other"})
	}
	if s.Hel != nil {
		s.Hel = &c12Hello{Sid: true, Resume: r.chance(80), Server: r.chance(30)}
	}
	if (s.Msg != nil || s.Ctl != nil || s.Err != "") && r.chance(50) {
		s.V = r.intn(c12Variants)
	}
	if s.Ev != nil {
		e := &c12Event{Target: pick(r, c12Targets), Type: pick(r, c12Types)}
		if r.chance(75) {
			e.with(e.Type)
		}
		for _, m := range c12EvMembers {
			if r.chance(10) {
				e.with(m)
			}
		}
		rl := func(max, lo, hi int) []int {
			n := r.intn(max + 1)
			var l []int
			for i := 0; i < n; i++ {
				l = append(l, lo+r.intn(hi-lo+1))
			}
			return l
		}
		if len(e.Join) > 0 {
			e.Join = rl(3, -1, 4)
		}
		if len(e.Leave) > 0 {
			e.Leave = rl(3, 0, 4)
		}
		if e.Update != nil {
			e.Update = &c12Upd{}
			for i, n := 0, r.intn(4); i < n; i++ {
				e.Update.Users = append(e.Update.Users, c12RandEntry(r))
			}
			for i, n := 0, r.intn(3); i < n; i++ {
				e.Update.Changed = append(e.Update.Changed, c12RandEntry(r))
			}
		}
		s.Ev = e
	}
	return s
}

func c12RandOps(r *vrng, n int, allowBye bool) []c12Op {
	var ops []c12Op
	refuses := 0
	for i := 0; i < n; i++ {
		x := r.intn(100)
		switch {
		case x < 66:
			m := c12RandShape(r)
			if m.Tag == "bye" && !allowBye {
				m.Tag = "other"
			}
			ops = append(ops, c12Recv(m))
		case x < 74:
			ops = append(ops, c12Op{K: "junk", N: r.intn(len(c12Junk)), Bin: r.chance(15)})
		case x < 84:
			ops = append(ops, c12Op{K: "drop", N: r.intn(4)})
			if r.chance(25) && refuses < 2 {
				refuses++
				ops = append(ops, c12Op{K: "refuse"})
			}
			ops = append(ops, c12Op{K: "accept"})
			if r.chance(70) {
				ops = append(ops, c12Recv(c12WelcomeOk()))
				if r.chance(70) {
					ops = append(ops, c12Recv(c12HelloOk(true, true)))
				}
			}
		case x < 96:
			ops = append(ops, c12Op{K: "csend"})
		default:
			ops = append(ops, c12Recv(c12WelcomeOk()))
		}
	}
	return ops
}

func c12Generate(env verifEnv) []*c12Case {
	var cases []*c12Case
	id := 0
	add := func(stage string, mode int, chg bool, ops []c12Op) *c12Case {
		c := &c12Case{Id: id, Mode: mode, Chg: chg, Ops: ops, Stage: stage}
		id++
		cases = append(cases, c)
		return c
	}
	cat := func(a []c12Op, b ...c12Op) []c12Op { return append(append([]c12Op{}, a...), b...) }
	thorough := env.thorough()
	r := newVrng(env.seed, 1)

	// -- directed: the witnesses of the refutation theorems ------------------------
	add("W/welcome-without-member", 0, false, []c12Op{c12Recv(&c12Shape{Tag: "welcome"})})
	add("W/hello-without-member", 0, false, []c12Op{c12Recv(c12WelcomeOk()), c12Recv(&c12Shape{Tag: "hello", Id: "cur"})})
	add("W/error-without-member", 0, false, []c12Op{c12Recv(c12WelcomeOk()), c12Recv(&c12Shape{Tag: "error", Id: "cur"})})
	add("W/hello-before-welcome", 0, false, []c12Op{c12Recv(&c12Shape{Tag: "hello"})})
	for _, tag := range []string{"room", "message", "control", "event"} {
		add("W/"+tag+"-without-member", 0, false, cat(c12Prefix("S3", true), c12Recv(&c12Shape{Tag: tag, Id: "other"})))
	}
	add("W/users-without-sessionid", 0, false, cat(c12Prefix("S3", true), c12Recv(&c12Shape{Tag: "event", Id: "other",
		Ev: &c12Event{Target: "participants", Type: "update", Update: &c12Upd{Users: []c12Ent{1}}}})))
	// entries of users / changed: member-level variants (C12_entry_witnesses); a regular
	// update follows, which must still arrive
	okUpd := c12Recv(c12UpdShape("participants", []c12Ent{3, c12UE(3, 4, 1)}, []c12Ent{c12UE(4, 3, 2)}))
	add("W/users-lowercase-sessionid", 0, false, cat(c12Prefix("S3", true), c12Recv(c12UpdShape("participants", []c12Ent{c12UE(0, 4, 0)}, nil)), okUpd))
	add("W/changed-lowercase-sessionid", 0, true, cat(c12Prefix("S3", true), c12Recv(c12UpdShape("participants", []c12Ent{3}, []c12Ent{c12UE(0, 4, 0)})), okUpd))
	add("W/users-lowercase-own-id-unknown", 0, false, cat(c12Prefix("S3", false), c12Recv(c12UpdShape("participants", []c12Ent{c12UE(0, 3, 0)}, nil)), okUpd))
	add("W/users-own-repaired-once-per-list", 0, false, cat(c12Prefix("S3", true), c12Recv(c12UpdShape("participants", []c12Ent{c12UE(1, 3, 0)}, []c12Ent{c12UE(0, 3, 0)})), okUpd))
	add("W/users-lowercase-own-twice", 0, true, cat(c12Prefix("S3", true), c12Recv(c12UpdShape("participants", []c12Ent{c12UE(0, 3, 0), c12UE(0, 3, 0)}, nil)), okUpd))
	add("W/users-sessionid-null", 0, false, cat(c12Prefix("S3", true), c12Recv(c12UpdShape("participants", []c12Ent{3, c12UE(2, 4, 3)}, nil)), okUpd))
	add("W/join-null", 0, false, cat(c12Prefix("S3", true), c12Recv(&c12Shape{Tag: "event", Id: "other",
		Ev: &c12Event{Target: "room", Type: "join", Join: []int{-1}}})))
	// connection reset while the answer is written (coarse: the writes race with the reset)
	wrong := &c12Shape{Tag: "other", Id: "other"}
	add("W/reset-during-hello", 1, false, []c12Op{c12Recv(c12WelcomeOk()), {K: "recvfail", M: wrong}, {K: "accept"}, {K: "expire"}})
	add("W/reset-after-unsupported-welcome", 1, false, []c12Op{{K: "recvfail", M: &c12Shape{Tag: "welcome", Id: "other", Wel: "nofed"}}, {K: "expire"}})
	add("W/reset-after-hello-error", 1, false, []c12Op{c12Recv(c12WelcomeOk()), {K: "recvfail", M: &c12Shape{Tag: "error", Id: "cur", Err: "oc"}}, {K: "expire"}})
	add("W/reset-during-join", 1, false, []c12Op{c12Recv(c12WelcomeOk()), {K: "recvfail", M: c12HelloOk(true, true)}, {K: "accept"}, {K: "expire"}})
	add("W/reset-during-resuming-hello", 1, false, cat(c12Prefix("S3", true), c12Op{K: "drop", N: 1}, c12Op{K: "accept"}, c12Recv(c12WelcomeOk()),
		c12Op{K: "recvfail", M: wrong}, c12Op{K: "accept"}, c12Recv(c12WelcomeOk()), c12Recv(c12HelloOk(true, true))))
	add("W/reset-during-close-on-leave", 1, true, cat(c12Prefix("S3", true), c12Op{K: "cleave"}, c12Op{K: "recvfail", M: &c12Shape{Tag: "room", Id: "other", Room: "empty"}}, c12Op{K: "expire"}))

	// -- drops between any two messages of the normal sequence --------------------
	seq := cat(c12Prefix("S3", true), c12Recv(&c12Shape{Tag: "message", Id: "other", Msg: &c12SR{Sender: true}}))
	hows := []int{0, 1, 2, 3}
	if !thorough {
		hows = []int{int(r.intn(4)), 2}
	}
	for pos := 0; pos <= len(seq); pos++ {
		for _, how := range hows {
			ops := cat(seq[:pos], c12Op{K: "drop", N: how}, c12Op{K: "accept"})
			ops = append(ops, c12Recv(c12WelcomeOk()), c12Recv(c12HelloOk(true, true)))
			ops = append(ops, seq[pos:]...)
			add(fmt.Sprintf("D/drop-at-%d", pos), 0, pos%2 == 0, ops)
		}
	}
	add("D/refuse-twice", 0, false, cat(c12Prefix("S2", true), c12Op{K: "drop", N: 1}, c12Op{K: "refuse"}, c12Op{K: "refuse"}, c12Op{K: "accept"},
		c12Recv(c12WelcomeOk()), c12Recv(c12HelloOk(true, true))))
	add("D/pending-while-disconnected", 0, false, cat(c12Prefix("S3", true), c12Op{K: "drop", N: 2}, c12Op{K: "csend"}, c12Op{K: "csend"}, c12Op{K: "accept"},
		c12Recv(c12WelcomeOk()), c12Recv(c12HelloOk(true, true)), c12Op{K: "csend"}))
	add("D/resume-fails", 0, false, cat(c12Prefix("S3", true), c12Op{K: "drop", N: 0}, c12Op{K: "csend"}, c12Op{K: "accept"},
		c12Recv(c12WelcomeOk()), c12Recv(&c12Shape{Tag: "error", Id: "cur", Err: "nss"}), c12Recv(c12HelloOk(true, true)), c12Recv(c12RoomOk())))
	add("D/leave-confirmed", 0, true, cat(c12Prefix("S3", true), c12Op{K: "cleave"}, c12Recv(&c12Shape{Tag: "room", Id: "other", Room: "empty"})))
	add("D/leave-event", 0, false, cat(c12Prefix("S3", true), c12Op{K: "cleave"}, c12Recv(&c12Shape{Tag: "event", Id: "other", Ev: &c12Event{Target: "room", Type: "leave", Leave: []int{1, 0}}})))

	// -- hello stages: one shape per case ---------------------------------------------
	l1 := c12Level1(false)
	l2e := c12Level2Events(false)
	l2o := c12Level2Other()
	l3 := c12Level3()
	l3e := append(c12Level2Variants(), c12Level3Entries(thorough)...)
	for _, stage := range []string{"S0", "S1"} {
		for _, idk := range []string{"other", "cur", "empty"} {
			for _, s := range l1 {
				m := *s
				m.Id = idk
				tail := c12RandOps(r, r.intn(3), false)
				add(stage, 0, r.chance(50), cat(c12Prefix(stage, true), append([]c12Op{c12Recv(&m)}, tail...)...))
			}
		}
		for _, s := range l2o {
			for _, idk := range []string{s.Id, "other"} {
				m := *s
				m.Id = idk
				add(stage, 0, r.chance(50), cat(c12Prefix(stage, true), c12Recv(&m), c12Recv(c12RoomOk())))
			}
		}
		for i, s := range append(append([]*c12Shape{}, l2e...), l3...) {
			if thorough || i%8 == int(r.intn(8)) {
				m := *s
				m.Id = pick(r, []string{"other", "cur", "empty"})
				add(stage, 0, r.chance(50), cat(c12Prefix(stage, true), c12Recv(&m)))
			}
		}
		// the entry variants matter after the hello; before it a sample (they must be ignored)
		for i, s := range l3e {
			if i%16 == int(r.intn(16)) {
				m := *s
				m.Id = pick(r, []string{"other", "cur", "empty"})
				add(stage, 0, r.chance(50), cat(c12Prefix(stage, true), c12Recv(&m), c12Recv(c12WelcomeOk())))
			}
		}
	}

	// -- after hello: chains of shapes ---------------------------------------------------
	type st struct {
		stage    string
		chg, sid bool
		every    int
	}
	stages := []st{{"S2", false, true, 1}, {"S2", true, false, 1}, {"S3", true, true, 1}, {"S4", false, true, 3}}
	if thorough {
		stages = append(stages, st{"S3", false, false, 1}, st{"S4", true, true, 1}, st{"S2", true, true, 1})
	}
	for _, sg := range stages {
		var pool []*c12Shape
		for _, l := range [][]*c12Shape{l1, l2e, l2o, l3, l3e} {
			pool = append(pool, l...)
		}
		var chain []c12Op
		flush := func() {
			if len(chain) > 0 {
				add(sg.stage, 0, sg.chg, cat(c12Prefix(sg.stage, sg.sid), chain...))
				chain = nil
			}
		}
		for i, s := range pool {
			if sg.every > 1 && i%sg.every != int(r.intn(sg.every)) {
				continue
			}
			m := *s
			if m.Hel != nil {
				h := *m.Hel
				h.Sid = sg.sid
				m.Hel = &h
			}
			if m.Tag == "bye" {
				// the forwarded bye ends the client's connection: own case
				add(sg.stage, 0, sg.chg, cat(c12Prefix(sg.stage, sg.sid), c12Recv(&m)))
				continue
			}
			chain = append(chain, c12Recv(&m))
			if len(chain) >= 6 {
				flush()
			}
		}
		flush()
	}

	// -- thorough: every presence pattern of the members, after the join ------------
	if thorough {
		for _, full := range [][]*c12Shape{c12Level1(true), c12Level2Events(true)} {
			var chain []c12Op
			for i, s := range full {
				if s.Tag == "bye" {
					continue
				}
				chain = append(chain, c12Recv(s))
				if len(chain) >= 24 || i == len(full)-1 {
					add("S3/full", 0, i%2 == 0, cat(c12Prefix("S3", true), chain...))
					chain = nil
				}
			}
		}
	}

	// -- random histories ---------------------------------------------------------------------
	n := 150
	if thorough {
		n = 2500
	}
	for i := 0; i < n; i++ {
		rr := newVrng(env.seed, uint64(1000+i))
		var ops []c12Op
		stage := pick(rr, []string{"S0", "S1", "S2", "S3", "S3"})
		ops = cat(c12Prefix(stage, true), c12RandOps(rr, 3+rr.intn(8), false)...)
		if rr.chance(10) {
			ops = append(ops, c12Op{K: "cleave"}, c12Recv(&c12Shape{Tag: "room", Id: "other", Room: pick(rr, []string{"empty", "remote"})}))
		} else if rr.chance(10) {
			ops = append(ops, c12Recv(&c12Shape{Tag: "bye", Id: "other", Bye: rr.chance(50)}))
		}
		add("R/"+stage, 0, rr.chance(50), ops)
	}
	// random coarse histories: a reset while some message is processed
	n = 20
	if thorough {
		n = 300
	}
	for i := 0; i < n; i++ {
		rr := newVrng(env.seed, uint64(100000+i))
		stage := pick(rr, []string{"S0", "S1", "S1", "S2", "S3"})
		ops := cat(c12Prefix(stage, true), c12RandOps(rr, rr.intn(3), false)...)
		// keep the connection up for the reset
		var keep []c12Op
		for _, o := range ops {
			if o.K == "recv" || o.K == "junk" || o.K == "csend" {
				keep = append(keep, o)
			}
		}
		m := c12RandShape(rr)
		if m.Tag == "bye" {
			m.Tag = "other"
		}
		ops = append(keep, c12Op{K: "recvfail", M: m}, c12Op{K: "accept"})
		if rr.chance(50) {
			ops = append(ops, c12Op{K: "expire"})
		}
		add("F/"+stage, 1, rr.chance(50), ops)
	}
	// stress (a test, not a proof; judged by P_C12 only): answers with unknown ids and a
	// reset while the federated session sends requests, at the two hello stages
	n = 6
	if thorough {
		n = 150
	}
	for i := 0; i < n; i++ {
		rr := newVrng(env.seed, uint64(200000+i))
		var ops []c12Op
		if i%2 == 0 {
			ops = c12Prefix("S1", true)
		} else {
			ops = cat(c12Prefix("S3", true), c12Op{K: "drop", N: rr.intn(3)}, c12Op{K: "accept"}, c12Recv(c12WelcomeOk()))
		}
		ops = append(ops, c12Op{K: "storm", N: 5 + rr.intn(30)}, c12Op{K: "accept"}, c12Recv(c12WelcomeOk()), c12Recv(c12HelloOk(true, true)), c12Op{K: "expire"})
		add("X/storm", 2, rr.chance(50), ops)
	}
	return cases
}

// ---- child ---------------------------------------------------------------------------

func c12Child(t *testing.T) {
	log.SetOutput(io.Discard)
	data, err := os.ReadFile(os.Getenv("VERIF_C12_CHILD"))
	if err != nil {
		t.Fatal(err)
	}
	var cases []*c12Case
	if err := json.Unmarshal(data, &cases); err != nil {
		t.Fatal(err)
	}
	skip, _ := strconv.Atoi(os.Getenv("VERIF_C12_SKIP"))
	res, err := os.OpenFile(os.Getenv("VERIF_C12_OUT"), os.O_APPEND|os.O_CREATE|os.O_WRONLY, 0o644)
	if err != nil {
		t.Fatal(err)
	}
	prog, err := os.OpenFile(os.Getenv("VERIF_C12_PROGRESS"), os.O_APPEND|os.O_CREATE|os.O_WRONLY, 0o644)
	if err != nil {
		t.Fatal(err)
	}
	e := newC12Env(t)
	if ms, _ := strconv.Atoi(os.Getenv("VERIF_C12_TIMEOUT_MS")); ms > 0 {
		e.timeout = time.Duration(ms) * time.Millisecond
	}
	for ci := skip; ci < len(cases); ci++ {
		c := cases[ci]
		// a reset races with the writes of the local side: cases built on one are tried up
		// to three times, the first attempt that shows a problem is the one recorded
		attempts := 1
		if c.Mode != 0 {
			attempts = 3
		}
		for a := 0; a < attempts; a++ {
			if a > 0 {
				fmt.Fprintf(res, "R %d\n", ci)
			}
			fine := true
			e.runCase(c,
				func(i int) { fmt.Fprintf(prog, "P %d %d\n", ci, i) },
				func(i int, ob *c12Obs) {
					if !(ob.Alive && ob.Responsive && ob.Bystander) {
						fine = false
					}
					b, _ := json.Marshal(ob)
					fmt.Fprintf(res, "O %d %d %s\n", ci, i, b)
				})
			if !fine {
				break
			}
		}
		fmt.Fprintf(res, "E %d\n", ci)
	}
	fmt.Fprintf(res, "D\n")
	res.Close()
	prog.Close()
	os.Exit(0) // nothing to clean up: the process ends here
}

// ---- parent --------------------------------------------------------------------------

func c12RunBatch(t *testing.T, env verifEnv, bi int, cases []*c12Case) {
	base := filepath.Join(env.out, fmt.Sprintf("batch_%03d", bi))
	data, _ := json.Marshal(cases)
	os.WriteFile(base+".json", data, 0o644)
	os.Remove(base + ".res")
	os.Remove(base + ".prog")
	skip := 0
	parsed := 0 // lines of the result file already taken over
	for attempt := 0; skip < len(cases) && attempt <= len(cases); attempt++ {
		ctx, cancel := context.WithTimeout(context.Background(), time.Duration(90+3*(len(cases)-skip))*time.Second)
		cmd := exec.CommandContext(ctx, os.Args[0], "-test.run", "^TestVerifC12$", "-test.timeout", "3000s", "-test.count=1")
		cmd.Env = append(os.Environ(), "VERIF_C12_CHILD="+base+".json", "VERIF_C12_OUT="+base+".res", "VERIF_C12_PROGRESS="+base+".prog",
			fmt.Sprintf("VERIF_C12_SKIP=%d", skip))
		errf, _ := os.Create(fmt.Sprintf("%s.%d.err", base, attempt))
		cmd.Stdout = errf
		cmd.Stderr = errf
		runErr := cmd.Run()
		timedOut := ctx.Err() != nil
		cancel()
		errf.Close()

		// what the child recorded
		done := false
		ended := map[int]bool{}
		if f, err := os.Open(base + ".res"); err == nil {
			sc := bufio.NewScanner(f)
			sc.Buffer(make([]byte, 1<<20), 1<<24)
			ln := 0
			for sc.Scan() {
				line := sc.Text()
				ln++
				if ln <= parsed {
					continue
				}
				parsed = ln
				switch {
				case line == "D":
					done = true
				case strings.HasPrefix(line, "R "):
					if ci, _ := strconv.Atoi(line[2:]); ci < len(cases) {
						cases[ci].Obs = nil
					}
				case strings.HasPrefix(line, "E "):
					ci, _ := strconv.Atoi(line[2:])
					ended[ci] = true
				case strings.HasPrefix(line, "O "):
					parts := strings.SplitN(line, " ", 4)
					ci, _ := strconv.Atoi(parts[1])
					oi, _ := strconv.Atoi(parts[2])
					var ob c12Obs
					if json.Unmarshal([]byte(parts[3]), &ob) == nil && ci < len(cases) && oi == len(cases[ci].Obs) {
						cases[ci].Obs = append(cases[ci].Obs, ob)
					}
				}
			}
			f.Close()
		}
		if done {
			return
		}
		// the child died or hung: the progress file names the operation
		ci, oi := skip, 0
		if f, err := os.Open(base + ".prog"); err == nil {
			sc := bufio.NewScanner(f)
			for sc.Scan() {
				var a, b int
				if n, _ := fmt.Sscanf(sc.Text(), "P %d %d", &a, &b); n == 2 {
					ci, oi = a, b
				}
			}
			f.Close()
		}
		if ci >= len(cases) || ended[ci] {
			// died between cases (set-up of the next one): count it against the next case
			ci, oi = ci+1, 0
			if ci >= len(cases) {
				return
			}
		}
		c := cases[ci]
		if len(c.Obs) > oi {
			c.Obs = c.Obs[:oi]
		}
		last := c12State{}
		if len(c.Obs) > 0 {
			last = c.Obs[len(c.Obs)-1].State
		}
		ob := c12Obs{Alive: !timedOut, Responsive: !timedOut, Bystander: false, Client: []string{}, Remote: []string{}, State: last}
		if !timedOut {
			ob.Alive = false
			ob.Responsive = true
		}
		errText, _ := os.ReadFile(fmt.Sprintf("%s.%d.err", base, attempt))
		txt := string(errText)
		if p := strings.Index(txt, "panic:"); p >= 0 {
			txt = txt[p:]
		} else if p := strings.Index(txt, "fatal error:"); p >= 0 {
			txt = txt[p:]
		}
		if len(txt) > 1500 {
			txt = txt[:1500]
		}
		c.Panic = txt
		ob.Note = fmt.Sprintf("child process ended (%v, timed out: %v) while applying this operation", runErr, timedOut)
		if oi < len(c.Ops) {
			c.Obs = append(c.Obs, ob)
		}
		skip = ci + 1
	}
}

func TestVerifC12(t *testing.T) {
	if os.Getenv("VERIF_C12_CHILD") != "" {
		c12Child(t)
		return
	}
	env := getVerifEnv(t, "C12")
	sink := newCaseSink(t, env, "C12", "corr.Run_C12", 60)
	var cases []*c12Case
	if env.replay != "" {
		var cs []c12Case
		readReplay(t, env.replay, &cs)
		for i := range cs {
			cs[i].Obs = nil
			cs[i].Panic = ""
			cases = append(cases, &cs[i])
		}
	} else {
		cases = c12Generate(env)
	}
	// batches run in parallel child processes (each with its own hub and peers)
	batch := 120
	var wg sync.WaitGroup
	slots := make(chan struct{}, 8)
	for bi := 0; bi*batch < len(cases); bi++ {
		hi := (bi + 1) * batch
		if hi > len(cases) {
			hi = len(cases)
		}
		wg.Add(1)
		go func(bi int, cs []*c12Case) {
			defer wg.Done()
			slots <- struct{}{}
			defer func() { <-slots }()
			c12RunBatch(t, env, bi, cs)
		}(bi, cases[bi*batch:hi])
	}
	wg.Wait()
	died := 0
	for _, c := range cases {
		stage := c.Stage
		if i := strings.Index(stage, "/"); i >= 0 && !strings.HasPrefix(stage, "W/") && !strings.HasPrefix(stage, "D/") {
			stage = stage[:i]
		}
		sink.count("cases/" + strings.SplitN(c.Stage, "/", 2)[0])
		effects := 0
		for i := range c.Obs {
			if i >= len(c.Ops) {
				break
			}
			op, ob := &c.Ops[i], &c.Obs[i]
			sink.count("op/" + op.K)
			if op.M != nil {
				sink.count("msg/" + stage + "/" + op.M.Tag)
				if op.M.Ev != nil {
					sink.count("event/" + op.M.Ev.Target + "/" + op.M.Ev.Type)
				}
			}
			if op.K == "junk" {
				sink.count("junk/" + strconv.Itoa(op.N%len(c12Junk)))
			}
			if len(ob.Client) > 0 || len(ob.Remote) > 0 || ob.ConnClosed {
				effects++
			}
			for _, m := range ob.Client {
				sink.count("client-got/" + strings.SplitN(strings.TrimSpace(strings.SplitN(m, "(*", 2)[0]), " [", 2)[0])
			}
			if !ob.Alive {
				died++
				sink.count("server-died")
			}
			if !ob.Responsive {
				sink.count("blocked")
			}
		}
		if len(c.Obs) < len(c.Ops) {
			sink.count("cases-ended-early(connection closed by the local side)")
		}
		key, _ := json.Marshal(c.Ops)
		sink.add(c.coq(), c, effects > len(c12Prefix(strings.SplitN(c.Stage, "/", 2)[0], true)) || len(c.Obs) > 3, c.Stage[:1]+string(key))
	}
	sink.stats.Notes = append(sink.stats.Notes, fmt.Sprintf("operations after which the server process was gone: %d", died))
	sink.close("hostile federation peer (websocket server) against a real Hub in a child process: at every stage (before welcome, hello pending, after hello, after join, after a resumed reconnect) every type x member-presence pattern of ServerMessage / EventServerMessage (none, each single member, all; thorough: all subsets), list contents (join / leave lists; entries of update.users / update.changed with every combination of the members sessionId and sessionid missing / number / null / own id / other string, and actor members), contents of the raw members the code decodes itself, undecodable and binary frames, drops / resets / refusals between any two messages, client requests while disconnected; non-trivial = the case shows an effect beyond its stage prefix; distinct = distinct op lists")
}
