//go:build verif

package signaling

// hubdrv: executes op scripts on a REAL Hub (real websockets, real BackendServer,
// real ClientSession / Room / VirtualSession code) with three harness-controlled
// substitutes for the outside world:
//   - hdEvents   implements AsyncEvents; publications are queued and delivered on the
//                harness's command (in publication order, or in the order a case lists),
//                so bus schedules are ops
//   - hdBackend  a fake Nextcloud backend (httptest) whose answers the case chooses
//   - hdMcu      a fake media server recording open publishers / subscribers, with
//                optional gating of creations
// The real asyncEventsNats / loopback NATS are covered by C20.

import (
	"bytes"
	"context"
	"crypto/hmac"
	"crypto/sha256"
	"encoding/hex"
	"encoding/json"
	"fmt"
	"io"
	"net"
	"net/http"
	"net/http/httptest"
	"net/url"
	"runtime"
	"sort"
	"strings"
	"sync"
	"sync/atomic"
	"testing"
	"time"

	"github.com/dlintw/goconf"
	"github.com/gorilla/mux"
	"github.com/gorilla/websocket"
)

// ---------------------------------------------------------------------------- events

type hdPub struct {
	Seq     int
	Kind    string // backendroom, room, user, session
	Subject string
	Data    []byte
}

type hdListener struct {
	kind string
	l    interface{}
}

type hdEvents struct {
	mu    sync.Mutex
	subs  map[string][]hdListener
	queue []*hdPub
	seq   int
	log   []string
}

func newHdEvents() *hdEvents {
	return &hdEvents{subs: make(map[string][]hdListener)}
}

func (e *hdEvents) Close() {}

func (e *hdEvents) register(kind, subject string, l interface{}) error {
	e.mu.Lock()
	defer e.mu.Unlock()
	for _, x := range e.subs[subject] {
		if x.l == l {
			return nil
		}
	}
	e.subs[subject] = append(e.subs[subject], hdListener{kind, l})
	return nil
}

func (e *hdEvents) unregister(subject string, l interface{}) {
	e.mu.Lock()
	defer e.mu.Unlock()
	cur := e.subs[subject]
	for i, x := range cur {
		if x.l == l {
			cur = append(cur[:i:i], cur[i+1:]...)
			break
		}
	}
	if len(cur) == 0 {
		delete(e.subs, subject)
	} else {
		e.subs[subject] = cur
	}
}

func (e *hdEvents) RegisterBackendRoomListener(roomId string, backend *Backend, listener AsyncBackendRoomEventListener) error {
	return e.register("backendroom", GetSubjectForBackendRoomId(roomId, backend), listener)
}
func (e *hdEvents) UnregisterBackendRoomListener(roomId string, backend *Backend, listener AsyncBackendRoomEventListener) {
	e.unregister(GetSubjectForBackendRoomId(roomId, backend), listener)
}
func (e *hdEvents) RegisterRoomListener(roomId string, backend *Backend, listener AsyncRoomEventListener) error {
	return e.register("room", GetSubjectForRoomId(roomId, backend), listener)
}
func (e *hdEvents) UnregisterRoomListener(roomId string, backend *Backend, listener AsyncRoomEventListener) {
	e.unregister(GetSubjectForRoomId(roomId, backend), listener)
}
func (e *hdEvents) RegisterUserListener(userId string, backend *Backend, listener AsyncUserEventListener) error {
	return e.register("user", GetSubjectForUserId(userId, backend), listener)
}
func (e *hdEvents) UnregisterUserListener(userId string, backend *Backend, listener AsyncUserEventListener) {
	e.unregister(GetSubjectForUserId(userId, backend), listener)
}
func (e *hdEvents) RegisterSessionListener(sessionId string, backend *Backend, listener AsyncSessionEventListener) error {
	return e.register("session", GetSubjectForSessionId(sessionId, backend), listener)
}
func (e *hdEvents) UnregisterSessionListener(sessionId string, backend *Backend, listener AsyncSessionEventListener) {
	e.unregister(GetSubjectForSessionId(sessionId, backend), listener)
}

func (e *hdEvents) publish(kind, subject string, message *AsyncMessage) error {
	message.SendTime = time.Now()
	data, err := json.Marshal(message)
	if err != nil {
		return err
	}
	e.mu.Lock()
	defer e.mu.Unlock()
	if message.Type == "sendoffer" && len(e.subs[subject]) == 0 {
		// a "sendoffer" for an id that is no session of this server: published for a subject nobody
		// listens to.  Discarded at once (the model has no publication for it), delivering it later
		// would hand it to nobody.
		return nil
	}
	e.seq++
	e.queue = append(e.queue, &hdPub{Seq: e.seq, Kind: kind, Subject: subject, Data: data})
	return nil
}

func (e *hdEvents) PublishBackendRoomMessage(roomId string, backend *Backend, message *AsyncMessage) error {
	return e.publish("backendroom", GetSubjectForBackendRoomId(roomId, backend), message)
}
func (e *hdEvents) PublishRoomMessage(roomId string, backend *Backend, message *AsyncMessage) error {
	return e.publish("room", GetSubjectForRoomId(roomId, backend), message)
}
func (e *hdEvents) PublishUserMessage(userId string, backend *Backend, message *AsyncMessage) error {
	return e.publish("user", GetSubjectForUserId(userId, backend), message)
}
func (e *hdEvents) PublishSessionMessage(sessionId string, backend *Backend, message *AsyncMessage) error {
	return e.publish("session", GetSubjectForSessionId(sessionId, backend), message)
}

func (e *hdEvents) pending() int {
	e.mu.Lock()
	defer e.mu.Unlock()
	return len(e.queue)
}

// pendingSubjects lists the queued publications in order (for schedule ops).
func (e *hdEvents) pendingSubjects() []string {
	e.mu.Lock()
	defer e.mu.Unlock()
	var out []string
	for _, p := range e.queue {
		out = append(out, p.Subject)
	}
	return out
}

// deliver takes the first queued publication (of the given subject, any if "")
// and hands it to the listeners registered for the subject at that moment.
func (e *hdEvents) deliver(subject string) (*hdPub, bool) {
	e.mu.Lock()
	idx := -1
	for i, p := range e.queue {
		if subject == "" || p.Subject == subject {
			idx = i
			break
		}
	}
	if idx < 0 {
		e.mu.Unlock()
		return nil, false
	}
	p := e.queue[idx]
	e.queue = append(e.queue[:idx:idx], e.queue[idx+1:]...)
	listeners := append([]hdListener(nil), e.subs[p.Subject]...)
	e.mu.Unlock()

	var msg AsyncMessage
	if err := json.Unmarshal(p.Data, &msg); err != nil {
		return p, true
	}
	for _, l := range listeners {
		// removed while the message is being handed out: skipped, as in the real iteration
		e.mu.Lock()
		still := false
		for _, x := range e.subs[p.Subject] {
			if x.l == l.l {
				still = true
				break
			}
		}
		e.mu.Unlock()
		if !still {
			continue
		}
		switch l.kind {
		case "backendroom":
			l.l.(AsyncBackendRoomEventListener).ProcessBackendRoomRequest(&msg)
		case "room":
			l.l.(AsyncRoomEventListener).ProcessAsyncRoomMessage(&msg)
		case "user":
			l.l.(AsyncUserEventListener).ProcessAsyncUserMessage(&msg)
		case "session":
			l.l.(AsyncSessionEventListener).ProcessAsyncSessionMessage(&msg)
		}
	}
	return p, true
}

func (e *hdEvents) registrations() map[string]int {
	e.mu.Lock()
	defer e.mu.Unlock()
	out := make(map[string]int)
	for s, l := range e.subs {
		out[s] = len(l)
	}
	return out
}

// ---------------------------------------------------------------------------- fake backend

type hdBackendReq struct {
	Backend int    // index of the backend the request was sent to
	Type    string // auth, room, session, ping
	Action  string
	Room    string
	Session string
	User    string
	MacOk   bool
	RndLen  int
}

type hdRoomReply struct {
	Error       string   // error code ("" = ok)
	Permissions []string // nil = none sent
	HasPerm     bool
	SessionUser string // userid in session data
}

type hdBackend struct {
	mu        sync.Mutex
	server    *httptest.Server
	secrets   []string
	reqs      []hdBackendReq
	inflight  atomic.Int32
	roomReply hdRoomReply
	gate      chan struct{} // when non-nil, auth requests wait here
	roomGate  chan struct{} // when non-nil, room join requests wait here (after the reply was chosen)
	held      atomic.Int32  // room join requests waiting at roomGate
	keys      map[int]string // backend index -> hello v2 public key (capabilities)
	features  []string
}

func (b *hdBackend) take() []hdBackendReq {
	b.mu.Lock()
	defer b.mu.Unlock()
	r := b.reqs
	b.reqs = nil
	return r
}

func (b *hdBackend) handler(idx int) http.HandlerFunc {
	return func(w http.ResponseWriter, r *http.Request) {
		b.inflight.Add(1)
		defer b.inflight.Add(-1)
		body, _ := io.ReadAll(r.Body)
		rnd := r.Header.Get(HeaderBackendSignalingRandom)
		checksum := r.Header.Get(HeaderBackendSignalingChecksum)
		secret := "" // idx < 0: an application at an unconfigured URL; it answers whatever it is asked
		if idx >= 0 {
			secret = b.secrets[idx]
		}
		mac := hmac.New(sha256.New, []byte(secret))
		mac.Write([]byte(rnd))
		mac.Write(body)
		macOk := hex.EncodeToString(mac.Sum(nil)) == checksum

		var request BackendClientRequest
		if err := json.Unmarshal(body, &request); err != nil {
			w.WriteHeader(http.StatusBadRequest)
			return
		}
		rec := hdBackendReq{Backend: idx, Type: request.Type, MacOk: macOk, RndLen: len(rnd)}
		if idx < 0 {
			rec.Backend = 99 // a request that reached an unconfigured application
		}
		var response interface{}
		switch request.Type {
		case "auth":
			var params struct {
				U      string `json:"u"`
				Reject bool   `json:"reject"`
			}
			if request.Auth != nil && len(request.Auth.Params) > 0 {
				json.Unmarshal(request.Auth.Params, &params) // nolint
			}
			rec.User = params.U
			if gate := b.gate; gate != nil {
				b.mu.Lock()
				b.reqs = append(b.reqs, hdBackendReq{Backend: rec.Backend, Type: "auth-held", User: params.U, MacOk: macOk, RndLen: len(rnd)})
				b.mu.Unlock()
				<-gate
			}
			if params.Reject {
				response = &BackendClientResponse{Type: "error", Error: &Error{Code: "invalid_user", Message: "rejected by the backend"}}
			} else {
				response = &BackendClientResponse{Type: "auth", Auth: &BackendClientAuthResponse{Version: BackendVersion, UserId: params.U}}
			}
		case "room":
			rec.Action = request.Room.Action
			rec.Room = request.Room.RoomId
			rec.Session = request.Room.SessionId
			rec.User = request.Room.UserId
			if request.Room.Action == "leave" {
				response = map[string]interface{}{"type": "room", "room": map[string]interface{}{"version": BackendVersion, "roomid": request.Room.RoomId}}
				break
			}
			b.mu.Lock()
			reply := b.roomReply
			roomGate := b.roomGate
			if roomGate != nil {
				b.reqs = append(b.reqs, hdBackendReq{Backend: rec.Backend, Type: "room-held", Room: rec.Room, Session: rec.Session, MacOk: macOk, RndLen: len(rnd)})
			}
			b.mu.Unlock()
			if roomGate != nil {
				// the answer to this join is held back until the driver opens the gate
				b.held.Add(1)
				<-roomGate
				b.held.Add(-1)
			}
			if reply.Error != "" {
				response = &BackendClientResponse{Type: "error", Error: &Error{Code: reply.Error, Message: "refused by the backend"}}
			} else {
				rr := &BackendClientRoomResponse{Version: BackendVersion, RoomId: request.Room.RoomId}
				if reply.HasPerm {
					var perms []Permission
					for _, p := range reply.Permissions {
						perms = append(perms, Permission(p))
					}
					if perms == nil {
						perms = []Permission{}
					}
					rr.Permissions = &perms
				}
				if reply.SessionUser != "" {
					rr.Session, _ = json.Marshal(map[string]string{"userid": reply.SessionUser})
				}
				response = &BackendClientResponse{Type: "room", Room: rr}
			}
		case "session":
			rec.Action = request.Session.Action
			rec.Room = request.Session.RoomId
			rec.Session = request.Session.SessionId
			rec.User = request.Session.UserId
			response = &BackendClientResponse{Type: "session", Session: &BackendClientSessionResponse{Version: BackendVersion, RoomId: request.Session.RoomId}}
		case "ping":
			rec.Room = request.Ping.RoomId
			response = &BackendClientResponse{Type: "ping", Ping: &BackendClientRingResponse{Version: BackendVersion, RoomId: request.Ping.RoomId}}
		default:
			response = map[string]string{"type": "unknown"}
		}
		b.mu.Lock()
		b.reqs = append(b.reqs, rec)
		b.mu.Unlock()

		data, _ := json.Marshal(response)
		if r.Header.Get("OCS-APIRequest") != "" {
			ocs := OcsResponse{Ocs: &OcsBody{Meta: OcsMeta{Status: "ok", StatusCode: http.StatusOK, Message: "OK"}, Data: data}}
			data, _ = json.Marshal(ocs)
		}
		w.Header().Set("Content-Type", "application/json")
		w.WriteHeader(http.StatusOK)
		w.Write(data) // nolint
	}
}

func (b *hdBackend) capabilities(idx int) http.HandlerFunc {
	return func(w http.ResponseWriter, r *http.Request) {
		b.inflight.Add(1)
		defer b.inflight.Add(-1)
		signaling := map[string]interface{}{}
		b.mu.Lock()
		if k, ok := b.keys[idx]; ok {
			signaling[ConfigKeyHelloV2TokenKey] = k
		}
		features := append([]string{"foo"}, b.features...)
		b.mu.Unlock()
		spreedCapa, _ := json.Marshal(map[string]interface{}{"features": features, "config": map[string]interface{}{"signaling": signaling}})
		response := &CapabilitiesResponse{Version: CapabilitiesVersion{Major: 20}, Capabilities: map[string]json.RawMessage{"spreed": spreedCapa}}
		data, _ := json.Marshal(response)
		ocs := OcsResponse{Ocs: &OcsBody{Meta: OcsMeta{Status: "ok", StatusCode: http.StatusOK, Message: "OK"}, Data: data}}
		data, _ = json.Marshal(ocs)
		w.Header().Add("Content-Type", "application/json")
		w.WriteHeader(http.StatusOK)
		w.Write(data) // nolint
	}
}

// ---------------------------------------------------------------------------- fake media server

type hdMcuObj struct {
	mcu        *hdMcu
	Tok        int
	Kind       string // pub, sub
	Owner      string // public session id of the session it was created for
	PubOf      string // for subscribers: publisher session id
	Stream     StreamType
	media      atomic.Int32
	closed     atomic.Bool
	listener   McuListener
	sid        string
	id         string
}

func (o *hdMcuObj) Id() string             { return o.id }
func (o *hdMcuObj) Sid() string            { return o.sid }
func (o *hdMcuObj) StreamType() StreamType { return o.Stream }
func (o *hdMcuObj) MaxBitrate() int        { return 0 }
func (o *hdMcuObj) Close(ctx context.Context) {
	if o.closed.CompareAndSwap(false, true) {
		o.mcu.event(fmt.Sprintf("close %s %d", o.Kind, o.Tok))
		// like the Janus objects: tell the listener
		if o.Kind == "pub" {
			o.listener.PublisherClosed(o)
		} else {
			o.listener.SubscriberClosed(o)
		}
	}
}
func (o *hdMcuObj) SendMessage(ctx context.Context, message *MessageClientMessage, data *MessageClientMessageData, callback func(error, map[string]interface{})) {
	o.mcu.event(fmt.Sprintf("msg %s %d %s", o.Kind, o.Tok, data.Type))
	if o.closed.Load() {
		callback(fmt.Errorf("already closed"), nil)
		return
	}
	switch data.Type {
	case "offer":
		callback(nil, map[string]interface{}{"type": "answer", "sdp": "answer"})
	case "requestoffer", "sendoffer":
		callback(nil, map[string]interface{}{"type": "offer", "sdp": "offer"})
	default:
		callback(nil, nil)
	}
}
func (o *hdMcuObj) HasMedia(mt MediaType) bool { return MediaType(o.media.Load())&mt == mt }
func (o *hdMcuObj) SetMedia(mt MediaType)      { o.media.Store(int32(mt)) }
func (o *hdMcuObj) GetStreams(ctx context.Context) ([]PublisherStream, error) {
	return nil, fmt.Errorf("not implemented")
}
func (o *hdMcuObj) PublishRemote(ctx context.Context, remoteId string, hostname string, port int, rtcpPort int) error {
	return fmt.Errorf("not supported")
}
func (o *hdMcuObj) UnpublishRemote(ctx context.Context, remoteId string, hostname string, port int, rtcpPort int) error {
	return fmt.Errorf("not supported")
}
func (o *hdMcuObj) Publisher() string { return o.PubOf }

type hdMcuPending struct {
	tok  int
	done chan string // "ok", "fail"
}

type hdMcu struct {
	mu      sync.Mutex
	tok     int
	objs    []*hdMcuObj
	events  []string
	gated   bool
	pending []*hdMcuPending
}

func (m *hdMcu) event(s string) {
	m.mu.Lock()
	m.events = append(m.events, s)
	m.mu.Unlock()
}
func (m *hdMcu) take() []string {
	m.mu.Lock()
	defer m.mu.Unlock()
	r := m.events
	m.events = nil
	return r
}
func (m *hdMcu) Start(ctx context.Context) error         { return nil }
func (m *hdMcu) Stop()                                   {}
func (m *hdMcu) Reload(config *goconf.ConfigFile)        {}
func (m *hdMcu) SetOnConnected(f func())                 {}
func (m *hdMcu) SetOnDisconnected(f func())              {}
func (m *hdMcu) GetStats() interface{}                   { return nil }
func (m *hdMcu) GetServerInfoSfu() *BackendServerInfoSfu { return nil }

func (m *hdMcu) create(ctx context.Context, o *hdMcuObj) (*hdMcuObj, error) {
	m.mu.Lock()
	m.tok++
	o.Tok = m.tok
	o.id = fmt.Sprintf("%s-%d", o.Kind, o.Tok)
	o.mcu = m
	m.events = append(m.events, fmt.Sprintf("create %s %d %s %s %s", o.Kind, o.Tok, o.Owner, o.Stream, o.PubOf))
	var p *hdMcuPending
	if m.gated {
		p = &hdMcuPending{tok: o.Tok, done: make(chan string, 1)}
		m.pending = append(m.pending, p)
	}
	m.mu.Unlock()
	if p != nil {
		select {
		case r := <-p.done:
			if r != "ok" {
				m.event(fmt.Sprintf("failed %s %d", o.Kind, o.Tok))
				return nil, fmt.Errorf("creation failed")
			}
		case <-ctx.Done():
			m.mu.Lock()
			for i, q := range m.pending {
				if q == p {
					m.pending = append(m.pending[:i:i], m.pending[i+1:]...)
					break
				}
			}
			m.mu.Unlock()
			m.event(fmt.Sprintf("timeout %s %d", o.Kind, o.Tok))
			return nil, ctx.Err()
		}
	}
	m.mu.Lock()
	m.objs = append(m.objs, o)
	m.events = append(m.events, fmt.Sprintf("created %s %d", o.Kind, o.Tok))
	m.mu.Unlock()
	return o, nil
}

func (m *hdMcu) created() int {
	m.mu.Lock()
	defer m.mu.Unlock()
	return m.tok
}

// firstPending returns tok if it is pending, or the oldest pending token for tok == 0.
func (m *hdMcu) firstPending(tok int) int {
	m.mu.Lock()
	defer m.mu.Unlock()
	for _, p := range m.pending {
		if tok == 0 || p.tok == tok {
			return p.tok
		}
	}
	return 0
}

func (m *hdMcu) release(tok int, result string) bool {
	m.mu.Lock()
	defer m.mu.Unlock()
	for i, p := range m.pending {
		if p.tok == tok || tok == 0 {
			m.pending = append(m.pending[:i:i], m.pending[i+1:]...)
			p.done <- result
			return true
		}
	}
	return false
}

func (m *hdMcu) NewPublisher(ctx context.Context, listener McuListener, id string, sid string, streamType StreamType, settings NewPublisherSettings, initiator McuInitiator) (McuPublisher, error) {
	o := &hdMcuObj{Kind: "pub", Owner: id, Stream: streamType, listener: listener, sid: sid}
	o.media.Store(int32(settings.MediaTypes))
	r, err := m.create(ctx, o)
	if err != nil {
		return nil, err
	}
	return r, nil
}

func (m *hdMcu) NewSubscriber(ctx context.Context, listener McuListener, publisher string, streamType StreamType, initiator McuInitiator) (McuSubscriber, error) {
	owner := ""
	if s, ok := listener.(*ClientSession); ok {
		owner = s.PublicId()
	}
	o := &hdMcuObj{Kind: "sub", Owner: owner, PubOf: publisher, Stream: streamType, listener: listener}
	r, err := m.create(ctx, o)
	if err != nil {
		return nil, err
	}
	return r, nil
}

func (m *hdMcu) open() []*hdMcuObj {
	m.mu.Lock()
	defer m.mu.Unlock()
	var out []*hdMcuObj
	for _, o := range m.objs {
		if !o.closed.Load() {
			out = append(out, o)
		}
	}
	return out
}

// ---------------------------------------------------------------------------- websocket client

type hdClient struct {
	idx    int
	conn   *websocket.Conn
	wmu    sync.Mutex // websocket writes: the harness's goroutine and the reader's dial-out answers
	mu     sync.Mutex
	msgs   [][]byte
	closed bool
	half   bool // the server's write half of this connection was shut: the client reads EOF, the server still reads
	autoDialout bool // answer dial-out requests at once (hub property cases; C10 answers them itself)
	gone   chan struct{}
}

func (c *hdClient) reader() {
	defer close(c.gone)
	for {
		_, data, err := c.conn.ReadMessage()
		if err != nil {
			c.mu.Lock()
			if !c.half {
				c.closed = true
			}
			c.mu.Unlock()
			return
		}
		c.mu.Lock()
		c.msgs = append(c.msgs, data)
		auto := c.autoDialout
		c.mu.Unlock()
		if auto {
			c.answerDialout(data)
		}
	}
}

// answerDialout: a dial-out request of the room API ("internal"/"dialout", only ever sent to internal clients
// that announced "start-dialout") is accepted at once, from the reader goroutine, so that the HTTP call that
// waits for the answer returns immediately.
func (c *hdClient) answerDialout(data []byte) {
	if !bytes.Contains(data, []byte(`"internal"`)) {
		return
	}
	var m ServerMessage
	if err := json.Unmarshal(data, &m); err != nil || m.Type != "internal" || m.Internal == nil || m.Internal.Type != "dialout" || m.Id == "" {
		return
	}
	id, _ := json.Marshal(m.Id)
	c.send([]byte(`{"type":"internal","id":` + string(id) + `,"internal":{"type":"dialout","dialout":{"type":"status","status":{"status":"accepted","callid":"c"}}}}`)) // nolint
}

func (c *hdClient) take() ([][]byte, bool) {
	c.mu.Lock()
	defer c.mu.Unlock()
	m := c.msgs
	c.msgs = nil
	return m, c.closed
}

// nmsgs: number of messages read from the connection and not yet taken
func (c *hdClient) nmsgs() int {
	c.mu.Lock()
	defer c.mu.Unlock()
	return len(c.msgs)
}

func (c *hdClient) hasId(id string) bool {
	needle := []byte(`"id":"` + id + `"`)
	c.mu.Lock()
	defer c.mu.Unlock()
	for _, m := range c.msgs {
		if bytes.Contains(m, needle) {
			return true
		}
	}
	return false
}

func (c *hdClient) isClosed() bool {
	c.mu.Lock()
	defer c.mu.Unlock()
	return c.closed
}

func (c *hdClient) send(data []byte) error {
	c.wmu.Lock()
	defer c.wmu.Unlock()
	return c.conn.WriteMessage(websocket.TextMessage, data)
}

// waitFor waits until a message with the given id has arrived (or the connection closed).
func (c *hdClient) waitForId(id string, timeout time.Duration) bool {
	deadline := time.Now().Add(timeout)
	needle := []byte(`"id":"` + id + `"`)
	for time.Now().Before(deadline) {
		c.mu.Lock()
		closed := c.closed
		found := false
		for _, m := range c.msgs {
			if bytes.Contains(m, needle) {
				found = true
				break
			}
		}
		c.mu.Unlock()
		if found {
			return true
		}
		if closed {
			return false
		}
		time.Sleep(100 * time.Microsecond)
	}
	return false
}

// ---------------------------------------------------------------------------- the system under test

type hdBackendCfg struct {
	Limit int `json:"limit,omitempty"`
	// on the first backend of a case: the server is started without an internal secret (no internal client can log in)
	NoInternalSecret bool `json:"nosecret,omitempty"`
}

type hdSystem struct {
	t        *testing.T
	hub      *Hub
	bs       *BackendServer
	events   *hdEvents
	backend  *hdBackend
	mcu      *hdMcu
	server   *httptest.Server // hub websocket + room API
	nb       int
	clients  map[int]*hdClient
	loopBusy atomic.Int32
	quit     chan struct{}
	noSecret bool // started without an internal secret
	loopDone chan struct{}
	baseline map[string]bool // goroutines in "syscall" state at idle start
	unsettled int
	syncSeq  int
	asyncBus bool // cases with explicit Deliver ops
	rpc      *GrpcClients
}

const hdInternalSecret = "the-internal-secret-of-the-harness"

func hdBackendSecret(i int) string { return fmt.Sprintf("secret-of-backend-%d-0123456789", i) }

var hdSetupOnce sync.Once

func newHdSystem(t *testing.T, backends []hdBackendCfg) *hdSystem {
	hdSetupOnce.Do(func() {
		// no periodic housekeeping: Tick ops call performHousekeeping with a chosen time
		housekeepingInterval = 24 * time.Hour
	})
	s := &hdSystem{t: t, nb: len(backends), clients: make(map[int]*hdClient), quit: make(chan struct{}), loopDone: make(chan struct{})}
	s.events = newHdEvents()
	s.backend = &hdBackend{keys: make(map[int]string)}
	br := mux.NewRouter()
	for i := range backends {
		s.backend.secrets = append(s.backend.secrets, hdBackendSecret(i))
		s.backend.keys[i] = hdBackendKey(i).pubText
		p := fmt.Sprintf("/b%d", i)
		br.HandleFunc(p+"/ocs/v2.php/apps/spreed/api/v1/signaling/backend", s.backend.handler(i))
		br.HandleFunc(p+"/ocs/v2.php/cloud/capabilities", s.backend.capabilities(i))
	}
	// live applications at URLs that are NOT configured: a sibling whose path starts with the text of a
	// configured one, and an unrelated one. They would accept any auth request that reached them.
	for _, p := range []string{"/b0x", "/unconfigured"} {
		br.HandleFunc(p+"/ocs/v2.php/apps/spreed/api/v1/signaling/backend", s.backend.handler(-1))
		br.HandleFunc(p+"/ocs/v2.php/cloud/capabilities", s.backend.capabilities(-1))
	}
	s.backend.server = httptest.NewServer(br)

	config := goconf.NewConfigFile()
	var ids []string
	for i, b := range backends {
		id := fmt.Sprintf("backend%d", i)
		ids = append(ids, id)
		config.AddOption(id, "url", fmt.Sprintf("%s/b%d", s.backend.server.URL, i))
		config.AddOption(id, "secret", hdBackendSecret(i))
		if b.Limit > 0 {
			config.AddOption(id, "sessionlimit", fmt.Sprintf("%d", b.Limit))
		}
	}
	config.AddOption("backend", "backends", strings.Join(ids, ", "))
	config.AddOption("backend", "allowhttp", "true")
	config.AddOption("sessions", "hashkey", "12345678901234567890123456789012")
	config.AddOption("sessions", "blockkey", "09876543210987654321098765432109")
	if len(backends) > 0 && backends[0].NoInternalSecret {
		s.noSecret = true
	} else {
		config.AddOption("clients", "internalsecret", hdInternalSecret)
	}
	config.AddOption("geoip", "url", "none")

	r := mux.NewRouter()
	// as in server/main.go the hub always has a (here: empty) set of GRPC clients
	rpcClients, err := NewGrpcClients(config, nil, nil, "verif")
	if err != nil {
		t.Fatal(err)
	}
	s.rpc = rpcClients
	h, err := NewHub(config, s.events, nil, rpcClients, nil, r, "verif")
	if err != nil {
		t.Fatal(err)
	}
	bs, err := NewBackendServer(config, h, "verif")
	if err != nil {
		t.Fatal(err)
	}
	if err := bs.Start(r); err != nil {
		t.Fatal(err)
	}
	s.hub, s.bs = h, bs
	if th, ok := h.throttler.(*memoryThrottler); ok {
		// failed attempts are recorded as usual; only the real sleeping is skipped
		th.doDelay = func(ctx context.Context, d time.Duration) {}
	}
	s.mcu = &hdMcu{}
	h.SetMcu(s.mcu)
	s.server = httptest.NewUnstartedServer(r)
	s.server.Listener = &hdCountListener{Listener: s.server.Listener}
	s.server.Start()

	// the hub's main loop without its tickers
	go func() {
		defer close(s.loopDone)
		for {
			select {
			case m := <-h.roomUpdated:
				s.loopBusy.Add(1)
				h.processRoomUpdated(m)
				s.loopBusy.Add(-1)
			case m := <-h.roomDeleted:
				s.loopBusy.Add(1)
				h.processRoomDeleted(m)
				s.loopBusy.Add(-1)
			case m := <-h.roomInCall:
				s.loopBusy.Add(1)
				h.processRoomInCallChanged(m)
				s.loopBusy.Add(-1)
			case m := <-h.roomParticipants:
				s.loopBusy.Add(1)
				h.processRoomParticipants(m)
				s.loopBusy.Add(-1)
			case <-s.quit:
				return
			}
		}
	}()
	s.baseline = map[string]bool{}
	for i := 0; i < 3; i++ {
		for id, st := range hdGoroutineStates() {
			if strings.HasPrefix(st, "syscall") {
				s.baseline[id] = true
			}
		}
		time.Sleep(time.Millisecond)
	}
	return s
}

func (s *hdSystem) close() {
	for _, c := range s.clients {
		c.conn.Close()
	}
	deadline := time.Now().Add(2 * time.Second)
	for s.hub.readPumpActive.Load() > 0 && time.Now().Before(deadline) {
		time.Sleep(time.Millisecond)
	}
	// close remaining sessions so goroutines and timers do not pile up over thousands of cases
	s.hub.mu.Lock()
	var sessions []Session
	for _, sess := range s.hub.sessions {
		sessions = append(sessions, sess)
	}
	s.hub.mu.Unlock()
	for _, sess := range sessions {
		sess.Close()
	}
	s.settle()
	close(s.quit)
	<-s.loopDone
	s.hub.Stop()
	s.hub.backend.Close()
	s.rpc.Close()
	s.server.Close()
	s.backend.server.Close()
}

// hdGoroutineStates parses a full goroutine dump: id -> state.
func hdGoroutineStates() map[string]string {
	buf := make([]byte, 1<<20)
	for {
		n := runtime.Stack(buf, true)
		if n < len(buf) {
			buf = buf[:n]
			break
		}
		buf = make([]byte, 2*len(buf))
	}
	out := map[string]string{}
	for _, block := range bytes.Split(buf, []byte("\n\n")) {
		line := block
		if i := bytes.IndexByte(block, '\n'); i >= 0 {
			line = block[:i]
		}
		// goroutine 12 [chan receive, 2 minutes]:
		if !bytes.HasPrefix(line, []byte("goroutine ")) {
			continue
		}
		rest := line[len("goroutine "):]
		sp := bytes.IndexByte(rest, ' ')
		lb := bytes.IndexByte(rest, '[')
		rb := bytes.LastIndexByte(rest, ']')
		if sp < 0 || lb < 0 || rb < lb {
			continue
		}
		out[string(rest[:sp])] = string(rest[lb+1 : rb])
	}
	return out
}

func (s *hdSystem) idleDump() bool {
	busy := 0
	for id, st := range hdGoroutineStates() {
		switch {
		case strings.HasPrefix(st, "running"):
			busy++ // the caller itself counts once
		case strings.HasPrefix(st, "runnable"):
			busy += 2
		case strings.HasPrefix(st, "syscall"):
			if !s.baseline[id] {
				busy += 2
			}
		}
	}
	return busy <= 1
}

func (s *hdSystem) openClients() int {
	n := 0
	for _, c := range s.clients {
		if !c.isClosed() {
			n++
		}
	}
	return n
}

// quiesce waits until nothing is running: hub loop idle, fake backend idle, the
// number of server-side read pumps equals the number of connections the harness
// still has open, and three goroutine dumps in a row show no runnable goroutine.
func (s *hdSystem) quiesce() {
	deadline := time.Now().Add(3 * time.Second)
	idle := 0
	for time.Now().Before(deadline) {
		if s.loopBusy.Load() == 0 && s.backend.inflight.Load() == s.backend.held.Load() &&
			int(s.hub.readPumpActive.Load()) == s.openClients() && s.idleDump() {
			idle++
			if idle >= 4 {
				return
			}
		} else {
			idle = 0
		}
		time.Sleep(400 * time.Microsecond)
	}
	s.unsettled++
}

// settle: quiesce, and in the quiescent bus semantics deliver every queued
// publication in publication order, until nothing is left.
func (s *hdSystem) settle() {
	for i := 0; i < 10000; i++ {
		s.quiesce()
		if s.asyncBus || s.events.pending() == 0 {
			return
		}
		s.events.deliver("")
	}
}

func (s *hdSystem) connect(idx int, addr string) *hdClient {
	u := "ws" + strings.TrimPrefix(s.server.URL, "http") + "/spreed"
	hdr := http.Header{}
	hdr.Set("User-Agent", fmt.Sprintf("hdconn-%d", idx))
	if addr != "" {
		hdr.Set("X-Real-IP", addr) // the test server's peer is loopback = trusted by default
	}
	conn, _, err := websocket.DefaultDialer.Dial(u, hdr)
	if err != nil {
		s.t.Fatalf("dial: %v", err)
	}
	c := &hdClient{idx: idx, conn: conn, gone: make(chan struct{})}
	s.clients[idx] = c
	go c.reader()
	return c
}

// sendSync sends a message followed by a marker (an invalid message that is
// answered with an error carrying the marker's id) and waits for the marker's
// reply: messages of one connection are processed sequentially, so the
// synchronous part of the processing of `data` is complete by then.
func (s *hdSystem) sendSync(c *hdClient, data []byte) {
	if err := c.send(data); err != nil {
		return
	}
	s.syncSeq++
	id := fmt.Sprintf("hdsync%d", s.syncSeq)
	if err := c.send([]byte(fmt.Sprintf(`{"id":"%s","type":"message"}`, id))); err != nil {
		return
	}
	c.waitForId(id, 5*time.Second)
}

// syncOnly: the marker alone; everything sent on the connection before is processed when its reply is there
func (s *hdSystem) syncOnly(c *hdClient) {
	s.syncSeq++
	id := fmt.Sprintf("hdsync%d", s.syncSeq)
	if err := c.send([]byte(fmt.Sprintf(`{"id":"%s","type":"message"}`, id))); err != nil {
		return
	}
	c.waitForId(id, 5*time.Second)
}

func hdIsSyncReply(data []byte) bool { return bytes.Contains(data, []byte(`"id":"hdsync`)) }

// foreignRoomSession reports whether id is currently a key of the (server-wide) room-session map
// that belongs to a session of another backend than b.
func (s *hdSystem) foreignRoomSession(id string, b int) bool {
	rs, ok := s.hub.roomSessions.(*BuiltinRoomSessions)
	if !ok || id == "" {
		return false
	}
	rs.mu.RLock()
	sid, found := rs.roomSessionToSessionid[id]
	rs.mu.RUnlock()
	if !found {
		return false
	}
	sess := s.hub.GetSessionByPublicId(sid)
	if sess == nil || sess.Backend() == nil {
		return false
	}
	return sess.Backend().Id() != fmt.Sprintf("backend%d", b)
}

// hdCountConn is the server's end of a client connection: it counts the server's writes so that they can be made to
// fail from the k-th write on (one websocket frame of the sizes used here is one write); at that moment the write half
// of the socket is shut, as breakWrites does at once.
type hdCountConn struct {
	net.Conn
	mu    sync.Mutex
	armed bool
	left  int // writes that still succeed once armed
	dead  bool
}

func (c *hdCountConn) Write(b []byte) (int, error) {
	c.mu.Lock()
	if c.dead {
		c.mu.Unlock()
		return 0, net.ErrClosed
	}
	if c.armed {
		if c.left <= 0 {
			c.dead = true
			c.mu.Unlock()
			if tcp, ok := c.Conn.(*net.TCPConn); ok {
				tcp.CloseWrite() // nolint
			}
			return 0, net.ErrClosed
		}
		c.left--
	}
	c.mu.Unlock()
	return c.Conn.Write(b)
}

type hdCountListener struct{ net.Listener }

func (l *hdCountListener) Accept() (net.Conn, error) {
	c, err := l.Listener.Accept()
	if err != nil {
		return nil, err
	}
	cc := &hdCountConn{Conn: c}
	hdCountConns.Lock()
	if len(hdCountConns.m) > 4096 {
		hdCountConns.m = map[string]*hdCountConn{}
	}
	hdCountConns.m[c.RemoteAddr().String()] = cc
	hdCountConns.Unlock()
	return cc, nil
}

func (s *hdSystem) serverClient(idx int) *Client {
	var target *Client
	s.hub.mu.RLock()
	for _, hc := range s.hub.clients {
		if cl, ok := hc.(*Client); ok && s.connIndex(cl) == idx {
			target = cl
		}
	}
	s.hub.mu.RUnlock()
	return target
}

// failWritesAfter: the server's next k writes to connection idx succeed, every later one fails (the server keeps
// reading: it still believes the client connected). For a connection that has no session yet the server-side client
// is not in the hub's table: it is found among the connections accepted by the listener through the harness's own
// end (local address of the client = remote address of the server's socket).
func (s *hdSystem) failWritesAfter(idx, k int) bool {
	c := s.clients[idx]
	if c == nil {
		return false
	}
	want := c.conn.LocalAddr().String()
	l, _ := s.server.Listener.(*hdCountListener)
	if l == nil {
		return false
	}
	hdCountConns.Lock()
	cc := hdCountConns.m[want]
	hdCountConns.Unlock()
	if cc == nil {
		return false
	}
	c.mu.Lock()
	c.half = true
	c.mu.Unlock()
	cc.mu.Lock()
	cc.armed, cc.left = true, k
	cc.mu.Unlock()
	return true
}

var hdCountConns = struct {
	sync.Mutex
	m map[string]*hdCountConn
}{m: map[string]*hdCountConn{}}

// breakWrites shuts the write half of the server's socket of connection idx: from now on every write of
// the server to it fails, while the server keeps reading (it still believes the client connected).
func (s *hdSystem) breakWrites(idx int) bool {
	c := s.clients[idx]
	if c == nil {
		return false
	}
	var target *Client
	s.hub.mu.RLock()
	for _, hc := range s.hub.clients {
		if cl, ok := hc.(*Client); ok && s.connIndex(cl) == idx {
			target = cl
		}
	}
	s.hub.mu.RUnlock()
	if target == nil {
		return false
	}
	c.mu.Lock()
	c.half = true
	c.mu.Unlock()
	target.mu.Lock()
	defer target.mu.Unlock()
	if target.conn == nil {
		return false
	}
	under := target.conn.UnderlyingConn()
	if cc, ok := under.(*hdCountConn); ok {
		under = cc.Conn
	}
	tcp, ok := under.(*net.TCPConn)
	if !ok {
		return false
	}
	return tcp.CloseWrite() == nil
}

// backendHasRoom: would Backend.AddSession accept one more client session right now?
func (s *hdSystem) backendHasRoom(i int) bool {
	for _, b := range s.hub.backend.GetBackends() {
		if s.backendIndex(b) == i {
			return b.Limit() == 0 || b.Len() < b.Limit()
		}
	}
	return false
}

// backendCounts: Backend.Len() per configured backend
func (s *hdSystem) backendCounts() []int {
	counts := make([]int, s.nb)
	for _, b := range s.hub.backend.GetBackends() {
		if i := s.backendIndex(b); i >= 0 && i < s.nb {
			counts[i] = b.Len()
		}
	}
	return counts
}

func (s *hdSystem) backendUrl(i int) string {
	if i < 0 || i >= s.nb {
		if (i-s.nb)%2 == 0 {
			return fmt.Sprintf("%s/b0x", s.backend.server.URL)
		}
		return fmt.Sprintf("%s/unconfigured", s.backend.server.URL)
	}
	return fmt.Sprintf("%s/b%d", s.backend.server.URL, i)
}

// roomApi posts a signed request to the room API as backend bi.
func (s *hdSystem) roomApi(bi int, signAs int, room string, body []byte) int {
	requestUrl := s.server.URL + "/api/v1/room/" + url.PathEscape(room)
	request, err := http.NewRequest("POST", requestUrl, bytes.NewReader(body))
	if err != nil {
		return -1
	}
	request.Header.Set("Content-Type", "application/json")
	rnd := newRandomString(32)
	check := CalculateBackendChecksum(rnd, body, []byte(hdBackendSecret(signAs)))
	request.Header.Set("Spreed-Signaling-Random", rnd)
	request.Header.Set("Spreed-Signaling-Checksum", check)
	request.Header.Set("Spreed-Signaling-Backend", s.backendUrl(bi))
	resp, err := http.DefaultClient.Do(request)
	if err != nil {
		return -2
	}
	io.Copy(io.Discard, resp.Body) // nolint
	resp.Body.Close()
	return resp.StatusCode
}

// ---------------------------------------------------------------------------- digest of the hub's tables

type hdSessionDigest struct {
	Sid       uint64
	Backend   int
	Kind      string // client, internal, federation, virtual
	User      string
	AuthUser  string
	Room      string // internal room key "" if none
	RoomSess  string
	Conn      int // index of the attached connection, -1 none
	InCall    bool
	Perms     []string
	HasPerms  bool
	Pubs      []string
	PubMedia  int // audio (1) / video (2) carried by the non-screen publishers
	Subs      []string
	Pending   int
	Counted   bool // in Backend.sessions
	Parent    uint64
}

type hdRoomDigest struct {
	Key       string
	Members   []uint64
	InCall    []uint64
	Transient map[string]interface{} // the room's transient data (values as the server holds them)
}

type hdDigest struct {
	Sessions  []hdSessionDigest
	Rooms     []hdRoomDigest
	RS1       map[string]string // public session id -> room session id
	RS2       map[string]string
	Virtual   map[string]uint64
	Expired   []uint64
	Anonymous []uint64
	Federated []uint64
	Dialout   []uint64
	Clients   []uint64
	ExpectHello int
	Subjects  map[string]int
	McuOpen   []string
	McuPending int
	Counts    []int // Backend.Len() per configured backend
}

func (s *hdSystem) backendIndex(b *Backend) int {
	if b == nil {
		return -1
	}
	var i int
	if _, err := fmt.Sscanf(b.Id(), "backend%d", &i); err != nil {
		return -1
	}
	return i
}

func (s *hdSystem) connIndex(c HandlerClient) int {
	// match by the server-side client's session against ours is not possible; use remote address tag
	if c == nil {
		return -1
	}
	var i int
	if _, err := fmt.Sscanf(c.UserAgent(), "hdconn-%d", &i); err == nil {
		return i
	}
	return -2
}

func (s *hdSystem) sidOf(publicId string) uint64 {
	if data := s.hub.decodePublicSessionId(publicId); data != nil {
		return data.Sid
	}
	return 0
}

// hdRoomTransientData reads the room's transient data (unexported fields; this file is only part of the build with
// the tag verif and enters it through -overlay).
func hdRoomTransientData(room *Room) map[string]interface{} {
	t := room.transientData
	t.mu.Lock()
	defer t.mu.Unlock()
	out := make(map[string]interface{}, len(t.data))
	for k, v := range t.data {
		out[k] = v
	}
	return out
}

func (s *hdSystem) digest() *hdDigest {
	h := s.hub
	d := &hdDigest{RS1: map[string]string{}, RS2: map[string]string{}, Virtual: map[string]uint64{}}
	h.mu.RLock()
	var sessions []Session
	for _, sess := range h.sessions {
		sessions = append(sessions, sess)
	}
	for k, v := range h.virtualSessions {
		d.Virtual[k] = v
	}
	for sess := range h.expiredSessions {
		d.Expired = append(d.Expired, sess.Data().Sid)
	}
	for sess := range h.anonymousSessions {
		d.Anonymous = append(d.Anonymous, sess.Data().Sid)
	}
	for sess := range h.federatedSessions {
		d.Federated = append(d.Federated, sess.Data().Sid)
	}
	for sess := range h.dialoutSessions {
		d.Dialout = append(d.Dialout, sess.Data().Sid)
	}
	for sid := range h.clients {
		d.Clients = append(d.Clients, sid)
	}
	d.ExpectHello = len(h.expectHelloClients)
	h.mu.RUnlock()
	for _, sess := range sessions {
		sd := hdSessionDigest{Sid: sess.Data().Sid, Backend: s.backendIndex(sess.Backend()), Kind: sess.ClientType(), User: sess.UserId(), Conn: -1}
		if room := sess.GetRoom(); room != nil {
			sd.Room = getRoomIdForBackend(room.Id(), room.Backend())
			sd.InCall = room.IsSessionInCall(sess)
		}
		switch cs := sess.(type) {
		case *ClientSession:
			sd.AuthUser = cs.AuthUserId()
			sd.RoomSess = cs.RoomSessionId()
			sd.Conn = s.connIndex(cs.GetClient())
			cs.mu.Lock()
			sd.HasPerms = cs.supportsPermissions
			for p, v := range cs.permissions {
				if v {
					sd.Perms = append(sd.Perms, string(p))
				}
			}
			for st, p := range cs.publishers {
				sd.Pubs = append(sd.Pubs, string(st))
				if st != StreamTypeScreen {
					if p.HasMedia(MediaTypeAudio) {
						sd.PubMedia |= 1
					}
					if p.HasMedia(MediaTypeVideo) {
						sd.PubMedia |= 2
					}
				}
			}
			for id := range cs.subscribers {
				sd.Subs = append(sd.Subs, id)
			}
			for _, pm := range cs.pendingClientMessages {
				if !pm.IsParticipantsUpdate() {
					sd.Pending++
				}
			}
			cs.mu.Unlock()
			sort.Strings(sd.Perms)
			sort.Strings(sd.Pubs)
			sort.Strings(sd.Subs)
			if b := cs.Backend(); b != nil {
				b.sessionsLock.Lock()
				_, sd.Counted = b.sessions[cs.PublicId()]
				b.sessionsLock.Unlock()
			}
		case *VirtualSession:
			sd.Parent = cs.Session().Data().Sid
		}
		d.Sessions = append(d.Sessions, sd)
	}
	sort.Slice(d.Sessions, func(i, j int) bool { return d.Sessions[i].Sid < d.Sessions[j].Sid })
	h.ru.RLock()
	for key, room := range h.rooms {
		rd := hdRoomDigest{Key: key}
		room.mu.RLock()
		for _, m := range room.sessions {
			rd.Members = append(rd.Members, m.Data().Sid)
		}
		for m := range room.inCallSessions {
			rd.InCall = append(rd.InCall, m.Data().Sid)
		}
		room.mu.RUnlock()
		rd.Transient = hdRoomTransientData(room)
		sort.Slice(rd.Members, func(i, j int) bool { return rd.Members[i] < rd.Members[j] })
		sort.Slice(rd.InCall, func(i, j int) bool { return rd.InCall[i] < rd.InCall[j] })
		d.Rooms = append(d.Rooms, rd)
	}
	h.ru.RUnlock()
	sort.Slice(d.Rooms, func(i, j int) bool { return d.Rooms[i].Key < d.Rooms[j].Key })
	if rs, ok := h.roomSessions.(*BuiltinRoomSessions); ok {
		rs.mu.RLock()
		for k, v := range rs.sessionIdToRoomSession {
			d.RS1[k] = v
		}
		for k, v := range rs.roomSessionToSessionid {
			d.RS2[k] = v
		}
		rs.mu.RUnlock()
	}
	for _, l := range [][]uint64{d.Expired, d.Anonymous, d.Federated, d.Dialout, d.Clients} {
		sort.Slice(l, func(i, j int) bool { return l[i] < l[j] })
	}
	d.Subjects = s.events.registrations()
	d.Counts = s.backendCounts()
	for _, o := range s.mcu.open() {
		d.McuOpen = append(d.McuOpen, fmt.Sprintf("%s %d %s %s", o.Kind, o.Tok, o.Owner, o.Stream))
	}
	s.mcu.mu.Lock()
	d.McuPending = len(s.mcu.pending)
	s.mcu.mu.Unlock()
	return d
}
