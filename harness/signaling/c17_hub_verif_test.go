//go:build verif

package signaling

import (
	"bytes"
	"context"
	"fmt"
	"net/http"
	"strings"
	"sync"
	"testing"
	"time"
)

// ---- C17 on the real hub: requests while replies to failed attempts are delayed
//
// Mode 4 schedules: a real Hub with its BackendServer (the repository's
// CreateHubForTest), the hub's throttler replaced by a memoryThrottler whose
// doDelay waits on a gate.  All requests come from 127.0.0.1, so the records
// differ in the kind only:
//   hsleep 0  a hello with a resume id that does not decode      (HelloResume)
//   hsleep 1  an internal hello with a wrong token                (HelloInternal)
//   hsleep 2  a room API request with a wrong checksum            (BackendRoomAuth)
//             -> each must reach its delay within the deadline and stays there
//   hok 1     an internal hello with the right token: answered with a session
//   hok 2     a correctly signed room API request: answered
//             -> each must be answered within the deadline although replies to
//                failures of OTHER kinds are being delayed
// A request that does not get there is a direct observation ("blocked").

const c17HubDeadline = 2 * time.Second

var c17HubKinds = []string{"HelloResume", "HelloInternal", "BackendRoomAuth"}

func c17RunHub(t *testing.T, c *c17Case, deadline time.Duration) (blockedAt int, what string, sleeping []int) {
	blockedAt = -1
	hub, _, _, server := CreateHubForTest(t)
	entered := make(chan time.Duration, 16)
	release := make(chan struct{})
	th := &memoryThrottler{
		getNow:  time.Now,
		clients: make(map[string]map[string][]throttleEntry),
		closer:  NewCloser(),
	}
	th.doDelay = func(ctx context.Context, d time.Duration) {
		entered <- d
		select {
		case <-release:
		case <-ctx.Done():
		}
	}
	old := hub.throttler
	hub.throttler = th
	old.Close()

	var clients []*TestClient
	var wg sync.WaitGroup
	// whatever happens below (also a failing helper of the repository): wake the sleepers,
	// then say bye on every connection (in parallel: the repository's Close sleeps 100 ms),
	// so that the hub can be shut down
	defer func() {
		close(release)
		c17Within(10*time.Second, wg.Wait)
		var cw sync.WaitGroup
		for _, cl := range clients {
			cw.Add(1)
			go func(cl *TestClient) { defer cw.Done(); cl.CloseWithBye() }(cl)
		}
		c17Within(10*time.Second, cw.Wait)
	}()
	// a new connection that has been welcomed (the repository's NewTestClient fails the test instead)
	connect := func() (*TestClient, bool) {
		ctx, cancel := context.WithTimeout(context.Background(), deadline)
		defer cancel()
		cl := NewTestClientContext(ctx, t, server, hub)
		clients = append(clients, cl)
		msg, err := cl.RunUntilMessage(ctx)
		return cl, err == nil && msg != nil && msg.Type == "welcome"
	}
	post := func(good bool) chan int {
		res := make(chan int, 1)
		wg.Add(1)
		go func() {
			defer wg.Done()
			body := []byte(`{"type":"update","update":{"userids":["c17"]}}`)
			url := server.URL + "/api/v1/room/c17room"
			if good {
				if resp, err := performBackendRequest(url, body); err == nil {
					resp.Body.Close()
					res <- resp.StatusCode
				} else {
					res <- -1
				}
				return
			}
			req, _ := http.NewRequest("POST", url, bytes.NewReader(body))
			req.Header.Set("Content-Type", "application/json")
			req.Header.Set("Spreed-Signaling-Random", newRandomString(32))
			req.Header.Set("Spreed-Signaling-Checksum", strings.Repeat("0", 64))
			req.Header.Set("Spreed-Signaling-Backend", server.URL)
			if resp, err := (&http.Client{}).Do(req); err == nil {
				resp.Body.Close()
				res <- resp.StatusCode
			} else {
				res <- -1
			}
		}()
		return res
	}
	waitEntered := func() bool {
		select {
		case <-entered:
			return true
		case <-time.After(deadline):
			return false
		}
	}
	for i, o := range c.Ops {
		kind := c17HubKinds[o.Act%3]
		blocked := func(s string) {
			blockedAt = i
			what = fmt.Sprintf("%s (kind %q, from 127.0.0.1)", s, kind)
		}
		switch o.K {
		case "hsleep":
			switch o.Act % 3 {
			case 0:
				cl, ok := connect()
				if !ok {
					blocked("a new connection was not welcomed: the connection")
					break
				}
				cl.SendHelloResume("this-is-invalid") // nolint
			case 1:
				cl, ok := connect()
				if !ok {
					blocked("a new connection was not welcomed: the connection")
					break
				}
				cl.SendHelloParams("", HelloVersionV1, "internal", nil, ClientTypeInternalAuthParams{ // nolint
					Random: newRandomString(48), Token: "this-is-not-the-token", Backend: server.URL})
			case 2:
				post(false)
			}
			if blockedAt >= 0 {
				break
			}
			if !waitEntered() {
				blocked("the failed attempt did not get to its own delay: the request")
			} else {
				sleeping = append(sleeping, i)
			}
		case "hok":
			switch o.Act % 3 {
			case 2:
				select {
				case <-post(true):
				case <-time.After(deadline):
					blocked("a correctly signed room API request was not answered: the request")
				}
			default:
				cl, ok := connect()
				if !ok {
					blocked("a new connection was not welcomed: the connection")
					break
				}
				cl.SendHelloInternal() // nolint
				ctx, cancel := context.WithTimeout(context.Background(), deadline)
				msg, err := cl.RunUntilMessage(ctx)
				cancel()
				if err != nil || msg == nil || msg.Type != "hello" {
					blocked(fmt.Sprintf("an internal hello with the right token was not answered with a session (%v): the request", err))
				}
			}
		}
		if blockedAt >= 0 {
			break
		}
	}
	return
}

func c17GenHub(r *vrng, id int) *c17Case {
	c := &c17Case{Id: id, Mode: 4}
	order := []int{0, 1, 2}
	for i := 2; i > 0; i-- {
		j := r.intn(i + 1)
		order[i], order[j] = order[j], order[i]
	}
	slept := map[int]bool{}
	for i, k := range order {
		c.Ops = append(c.Ops, c17Op{K: "hsleep", Act: k})
		slept[k] = true
		// after the first and sometimes after the second sleeper: a good request of a kind that is awake
		if i == 0 || (i == 1 && r.chance(50)) {
			var awake []int
			for _, g := range []int{1, 2} {
				if !slept[g] {
					awake = append(awake, g)
				}
			}
			if len(awake) > 0 {
				c.Ops = append(c.Ops, c17Op{K: "hok", Act: pick(r, awake)})
			}
		}
	}
	return c
}

func c17HubCase(t *testing.T, c *c17Case, sink *caseSink) bool {
	at, what, sleeping := c17RunHub(t, c, c17HubDeadline)
	sink.count("mode4_hub_schedules")
	if at < 0 {
		return true
	}
	var s []string
	for _, i := range sleeping {
		s = append(s, c17HubKinds[c.Ops[i].Act%3])
	}
	rc := &c17Case{Id: c.Id, Mode: 4, Ops: append([]c17Op{}, c.Ops[:at+1]...)}
	sink.count("hub_blocked")
	sink.violation(c.Id, fmt.Sprintf("blocked (hub): %s did not get there within %v while the replies to failed attempts of kind %s from the same address were being delayed",
		what, c17HubDeadline, strings.Join(s, ", ")), rc)
	return false
}
