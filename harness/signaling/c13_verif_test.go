//go:build verif

package signaling

import (
	"bufio"
	"context"
	"encoding/json"
	"fmt"
	"hash/fnv"
	"io"
	"log"
	"net/url"
	"os"
	"os/exec"
	"path/filepath"
	"runtime"
	"sort"
	"strconv"
	"strings"
	"sync"
	"sync/atomic"
	"testing"
	"time"

	"github.com/dlintw/goconf"
)

// ---- C13: real NewBackendConfiguration / Reload / EtcdKeyUpdated / EtcdKeyDeleted --------
//
// A case is a list of ops applied to ONE running instance (static storage:
// init + reloads; etcd storage: put/delete events called directly on a
// backendStorageEtcd built without an etcd server).  A probe op looks a URL up
// on the running instance and on an instance freshly started from the final
// configuration.  Cases run in a child process (re-exec of the test binary) so
// that a panic inside Reload is an observation, not the end of the run.

type c13Sec struct {
	Id     int    `json:"id"`
	Url    string `json:"url,omitempty"`
	Secret int    `json:"secret,omitempty"` // 0: no own secret
	Limit  string `json:"limit,omitempty"`  // raw option text, "" = option missing
	Stream string `json:"stream,omitempty"`
	Screen string `json:"screen,omitempty"`
}

type c13Config struct {
	AllowAll  bool     `json:"allowall,omitempty"`
	AllowHttp bool     `json:"allowhttp,omitempty"`
	Secret    int      `json:"secret,omitempty"` // common secret
	Limit     string   `json:"limit,omitempty"`
	Allowed   []string `json:"allowed,omitempty"`
	Ids       []int    `json:"ids"` // tokens of the "backends" option, 0 = empty token
	Spaces    bool     `json:"spaces,omitempty"`
	Secs      []c13Sec `json:"secs,omitempty"`
}

type c13EtcdVal struct {
	Url    string `json:"url,omitempty"`
	Secret int    `json:"secret,omitempty"`
	Stream int    `json:"stream,omitempty"`
	Screen int    `json:"screen,omitempty"`
	Limit  uint64 `json:"limit,omitempty"`
}

type c13Op struct {
	K   string      `json:"k"` // init, reload, put, del, probe
	C   *c13Config  `json:"c,omitempty"`
	Key int         `json:"key,omitempty"`
	V   *c13EtcdVal `json:"v,omitempty"`
	Raw string      `json:"raw,omitempty"` // put: literal payload instead of V
	U   string      `json:"u,omitempty"`
	// what the implementation did at this op when the case was recorded (kept with the op so that
	// it stays with it when the driver shrinks a case by deleting ops; not read on replay)
	Out string `json:"out,omitempty"`
}

type c13Case struct {
	Id       int      `json:"id"`
	Kind     int      `json:"kind"` // 0 static, 1 etcd
	Mode     int      `json:"mode"` // 0 compare with the model only, 1 also P_C13
	Stream   string   `json:"stream,omitempty"`
	Finding  string   `json:"finding,omitempty"`
	Edits    []string `json:"edits,omitempty"` // what the generator changed between configurations
	Scenario string   `json:"scenario,omitempty"` // "stress-static" / "stress-etcd": concurrency run instead of ops
	Ops      []c13Op  `json:"ops"`
	Outs     []string `json:"-"` // observations of this run, in step with Ops (JSON: c13Op.Out)
	Panic    string   `json:"panic,omitempty"`
}

func c13SecretText(n int) string {
	if n == 0 {
		return ""
	}
	return fmt.Sprintf("s%d", n)
}

func c13SecretNum(s string) int {
	if s == "" {
		return 0
	}
	if strings.HasPrefix(s, "s") {
		if n, err := strconv.Atoi(s[1:]); err == nil {
			return n
		}
	}
	return 999999
}

func c13IdText(n int) string { return fmt.Sprintf("b%d", n) }

func c13KeyText(n int) string { return fmt.Sprintf("/backends/k%04d", n) }

func c13IdNum(s string) int {
	switch {
	case s == "compat":
		return 0
	case strings.HasPrefix(s, "/backends/k"):
		if n, err := strconv.Atoi(s[len("/backends/k"):]); err == nil {
			return n
		}
	case strings.HasPrefix(s, "b"):
		if n, err := strconv.Atoi(s[1:]); err == nil {
			return n
		}
	}
	return 999999
}

func (c *c13Config) goconf() *goconf.ConfigFile {
	cfg := goconf.NewConfigFile()
	if c.AllowAll {
		cfg.AddOption("backend", "allowall", "true")
	}
	if c.AllowHttp {
		cfg.AddOption("backend", "allowhttp", "true")
	}
	if c.Secret != 0 {
		cfg.AddOption("backend", "secret", c13SecretText(c.Secret))
	}
	if c.Limit != "" {
		cfg.AddOption("backend", "sessionlimit", c.Limit)
	}
	if len(c.Allowed) > 0 {
		cfg.AddOption("backend", "allowed", strings.Join(c.Allowed, ", "))
	}
	var toks []string
	for _, id := range c.Ids {
		t := ""
		if id != 0 {
			t = c13IdText(id)
			if c.Spaces {
				t = " " + t + " "
			}
		}
		toks = append(toks, t)
	}
	if len(toks) > 0 {
		cfg.AddOption("backend", "backends", strings.Join(toks, ","))
	}
	for _, s := range c.Secs {
		sec := c13IdText(s.Id)
		cfg.AddSection(sec)
		if s.Url != "" {
			cfg.AddOption(sec, "url", s.Url)
		}
		if s.Secret != 0 {
			cfg.AddOption(sec, "secret", c13SecretText(s.Secret))
		}
		if s.Limit != "" {
			cfg.AddOption(sec, "sessionlimit", s.Limit)
		}
		if s.Stream != "" {
			cfg.AddOption(sec, "maxstreambitrate", s.Stream)
		}
		if s.Screen != "" {
			cfg.AddOption(sec, "maxscreenbitrate", s.Screen)
		}
	}
	return cfg
}

// ---- Coq printers ---------------------------------------------------------------

func c13OptZ(raw string) string {
	if raw == "" {
		return "None"
	}
	n, err := strconv.Atoi(raw)
	if err != nil {
		return "None"
	}
	return fmt.Sprintf("(Some %s)", coqZ(int64(n)))
}

func c13Str(s string) string {
	var b strings.Builder
	b.WriteByte('"')
	for _, c := range []byte(s) {
		if c == '"' {
			b.WriteString(`""`)
		} else {
			b.WriteByte(c)
		}
	}
	b.WriteByte('"')
	return b.String()
}

func (c *c13Config) coq() string {
	var secs, ids, allowed []string
	for _, s := range c.Secs {
		secs = append(secs, fmt.Sprintf("(%d%%N, mkSec %s %d %s %s %s)", s.Id, c13Str(s.Url), s.Secret, c13OptZ(s.Limit), c13OptZ(s.Stream), c13OptZ(s.Screen)))
	}
	for _, id := range c.Ids {
		ids = append(ids, fmt.Sprintf("%d%%N", id))
	}
	for _, a := range c.Allowed {
		allowed = append(allowed, c13Str(a))
	}
	return fmt.Sprintf("(mkCfg %s %s %d %s %s %s %s)", coqBool(c.AllowAll), coqBool(c.AllowHttp), c.Secret, c13OptZ(c.Limit),
		coqList(allowed), coqList(ids), coqList(secs))
}

// the payload written to etcd and the value the model gets for it
func (o *c13Op) payload() (data []byte, coq string) {
	if o.Raw != "" {
		data = []byte(o.Raw)
	} else {
		m := map[string]interface{}{}
		v := o.V
		if v == nil {
			v = &c13EtcdVal{}
		}
		if v.Url != "" {
			m["url"] = v.Url
		}
		if v.Secret != 0 {
			m["secret"] = c13SecretText(v.Secret)
		}
		if v.Stream != 0 {
			m["maxstreambitrate"] = v.Stream
		}
		if v.Screen != 0 {
			m["maxscreenbitrate"] = v.Screen
		}
		if v.Limit != 0 {
			m["sessionlimit"] = v.Limit
		}
		data, _ = json.Marshal(m)
	}
	// encoding/json is run, not modelled: what it decodes is the model's input
	var info BackendInformationEtcd
	if err := json.Unmarshal(data, &info); err != nil {
		return data, "None"
	}
	return data, fmt.Sprintf("(Some (mkE %s %d %s %s %s))", c13Str(info.Url), c13SecretNum(info.Secret),
		coqZ(int64(info.MaxStreamBitrate)), coqZ(int64(info.MaxScreenBitrate)), coqZ(int64(info.SessionLimit)))
}

func c13AddSlash(u string) string {
	if u == "" || u[len(u)-1] != '/' {
		return u + "/"
	}
	return u
}

// url table of a case: what net/url says about every string the model may ask about
func c13UrlTable(c *c13Case) string {
	seen := map[string]bool{}
	var rows []string
	add := func(s string) {
		if seen[s] {
			return
		}
		seen[s] = true
		u, err := url.Parse(s)
		if err != nil {
			return
		}
		u2 := *u
		u2.Host = u2.Hostname()
		rows = append(rows, fmt.Sprintf("(%s, mkPurl %s %s %s %s %s %s)", c13Str(s), c13Str(u.Scheme), c13Str(u.Host),
			c13Str(u.Hostname()), c13Str(u.Port()), c13Str(u.String()), c13Str(u2.String())))
	}
	for i := range c.Ops {
		o := &c.Ops[i]
		switch o.K {
		case "init", "reload":
			for _, s := range o.C.Secs {
				if s.Url != "" {
					add(c13AddSlash(s.Url))
				}
			}
		case "put":
			data, _ := o.payload()
			var info BackendInformationEtcd
			if json.Unmarshal(data, &info) == nil && info.Url != "" {
				add(info.Url)
				add(c13AddSlash(info.Url)) // the second clause of the predicate reads the slash-terminated URL
			}
		case "probe":
			add(o.U)
		}
	}
	return coqList(rows)
}

// ---- executing a case on the real implementation (child process) ----------------------

func c13Answer(cfg *BackendConfiguration, s string) (ans string) {
	u, err := url.Parse(s)
	if err != nil {
		// the callers refuse URLs that do not parse (IsUrlAllowed(nil) == false)
		if cfg.IsUrlAllowed(nil) {
			return "ASome (999999%N, 0%N, 0, 0, 0, false)"
		}
		return "ANone"
	}
	defer func() {
		if r := recover(); r != nil {
			ans = "APanic"
		}
	}()
	b := cfg.GetBackend(u)
	// IsUrlAllowed and GetSecret must tell the same story
	u2, _ := url.Parse(s)
	allowed := cfg.IsUrlAllowed(u2)
	u3, _ := url.Parse(s)
	secret := cfg.GetSecret(u3)
	if b == nil {
		if allowed || secret != nil {
			return "ASome (999998%N, 0%N, 0, 0, 0, false)"
		}
		return "ANone"
	}
	if !allowed || string(secret) != string(b.Secret()) {
		return "ASome (999997%N, 0%N, 0, 0, 0, false)"
	}
	return fmt.Sprintf("ASome (%d%%N, %d%%N, %s, %s, %s, %s)", c13IdNum(b.Id()), c13SecretNum(string(b.Secret())),
		coqZ(int64(b.Limit())), coqZ(int64(b.maxStreamBitrate)), coqZ(int64(b.maxScreenBitrate)), coqBool(b.IsCompat()))
}

func c13NewEtcdStorage() (*backendStorageEtcd, *BackendConfiguration) {
	s := &backendStorageEtcd{
		backendStorageCommon: backendStorageCommon{
			backends: make(map[string][]*Backend),
		},
		keyPrefix: "/backends",
		keyInfos:  make(map[string]*BackendInformationEtcd),
	}
	return s, &BackendConfiguration{storage: s}
}

// c13Normalise makes any sub-list of ops a valid case (the driver shrinks by
// deleting ops): a static case starts with its first configuration (a reload
// without a running instance is the start), probes before that are dropped.
func c13Normalise(c *c13Case) {
	if c.Kind != 0 || c.Scenario != "" {
		return
	}
	var ops []c13Op
	started := false
	for _, o := range c.Ops {
		switch o.K {
		case "init", "reload":
			if o.C == nil {
				continue
			}
			if !started {
				o.K = "init"
				started = true
			}
			ops = append(ops, o)
		case "probe":
			if started {
				ops = append(ops, o)
			}
		}
	}
	c.Ops = ops
}

// c13Exec runs the ops; `progress` is told before and after every op.
func c13Exec(c *c13Case, progress func(i int, out string)) {
	var running *BackendConfiguration
	var last *c13Config
	var etcd *backendStorageEtcd
	kv := map[int][]byte{}
	if c.Kind == 1 {
		etcd, running = c13NewEtcdStorage()
	}
	for i := range c.Ops {
		o := &c.Ops[i]
		progress(i, "")
		out := "VOk"
		switch o.K {
		case "init":
			cfg, err := NewBackendConfiguration(o.C.goconf(), nil)
			if err != nil {
				out = "VPanic"
			}
			running, last = cfg, o.C
		case "reload":
			running.Reload(o.C.goconf())
			last = o.C
		case "put":
			data, _ := o.payload()
			etcd.EtcdKeyUpdated(nil, c13KeyText(o.Key), data, nil)
			kv[o.Key] = data
		case "del":
			etcd.EtcdKeyDeleted(nil, c13KeyText(o.Key), nil)
			delete(kv, o.Key)
		case "probe":
			var fresh *BackendConfiguration
			if c.Kind == 0 {
				fresh, _ = NewBackendConfiguration(last.goconf(), nil)
			} else {
				var fs *backendStorageEtcd
				fs, fresh = c13NewEtcdStorage()
				var keys []int
				for k := range kv {
					keys = append(keys, k)
				}
				sort.Ints(keys)
				for _, k := range keys {
					fs.EtcdKeyUpdated(nil, c13KeyText(k), kv[k], nil)
				}
			}
			out = fmt.Sprintf("VAns (%s) (%s)", c13Answer(running, o.U), c13Answer(fresh, o.U))
		}
		progress(i, out)
	}
}

// child process: VERIF_C13_CHILD=<batch file>, progress lines to VERIF_C13_PROGRESS
func c13Child(t *testing.T) {
	log.SetOutput(io.Discard)
	data, err := os.ReadFile(os.Getenv("VERIF_C13_CHILD"))
	if err != nil {
		t.Fatal(err)
	}
	var cases []c13Case
	if err := json.Unmarshal(data, &cases); err != nil {
		t.Fatal(err)
	}
	pf, err := os.OpenFile(os.Getenv("VERIF_C13_PROGRESS"), os.O_CREATE|os.O_WRONLY|os.O_APPEND, 0o644)
	if err != nil {
		t.Fatal(err)
	}
	defer pf.Close()
	for i := range cases {
		c := &cases[i]
		if c.Scenario != "" {
			fmt.Fprintf(pf, "S %d\n", c.Id)
			res := c13Stress(c)
			b, _ := json.Marshal(res)
			fmt.Fprintf(pf, "R %d %s\n", c.Id, b)
			continue
		}
		c13Exec(c, func(op int, out string) {
			if out == "" {
				fmt.Fprintf(pf, "B %d %d\n", c.Id, op)
			} else {
				fmt.Fprintf(pf, "O %d %d %s\n", c.Id, op, out)
			}
		})
		fmt.Fprintf(pf, "D %d\n", c.Id)
	}
}

type c13StressResult struct {
	Stalled    bool   `json:"stalled"`
	Lookups    int64  `json:"lookups"`
	Writes     int64  `json:"writes"`
	AfterMs    int64  `json:"after_ms"`
	BlockedR   int    `json:"blocked_rlock"`
	BlockedW   int    `json:"blocked_lock"`
	Goroutines string `json:"goroutines,omitempty"`
}

// parent: run the cases in child processes; a child that dies = VPanic at the op in progress
func c13RunAll(t *testing.T, env verifEnv, cases []*c13Case) map[int]*c13StressResult {
	stress := map[int]*c13StressResult{}
	byId := map[int]*c13Case{}
	for _, c := range cases {
		byId[c.Id] = c
		c.Outs = nil
		c.Panic = ""
		for i := range c.Ops {
			c.Ops[i].Out = ""
		}
		c13Normalise(c)
	}
	rest := cases
	round := 0
	for len(rest) > 0 {
		round++
		batch := filepath.Join(env.out, fmt.Sprintf("c13_batch_%d.json", round))
		prog := filepath.Join(env.out, fmt.Sprintf("c13_progress_%d.txt", round))
		b, _ := json.Marshal(rest)
		os.WriteFile(batch, b, 0o644)
		os.Remove(prog)
		ctx, cancel := context.WithTimeout(context.Background(), 10*time.Minute)
		cmd := exec.CommandContext(ctx, os.Args[0], "-test.run", "^TestVerifC13$", "-test.count=1", "-test.timeout", "900s")
		cmd.Env = append(os.Environ(), "VERIF_C13_CHILD="+batch, "VERIF_C13_PROGRESS="+prog)
		outBytes, runErr := cmd.CombinedOutput()
		cancel()
		done := map[int]bool{}
		cur, curOp := -1, -1
		if f, err := os.Open(prog); err == nil {
			sc := bufio.NewScanner(f)
			sc.Buffer(make([]byte, 1<<20), 1<<26)
			for sc.Scan() {
				parts := strings.SplitN(sc.Text(), " ", 4)
				if len(parts) < 2 {
					continue
				}
				id, _ := strconv.Atoi(parts[1])
				c := byId[id]
				if c == nil {
					continue
				}
				switch parts[0] {
				case "B":
					cur = id
					curOp, _ = strconv.Atoi(parts[2])
				case "O":
					c.Outs = append(c.Outs, parts[3])
					curOp = -1
				case "D":
					done[id] = true
					cur = -1
				case "S":
					cur, curOp = id, 0
				case "R":
					var r c13StressResult
					json.Unmarshal([]byte(strings.Join(parts[2:], " ")), &r)
					stress[id] = &r
					done[id] = true
					cur = -1
				}
			}
			f.Close()
		}
		if runErr == nil {
			break
		}
		// the child died: the op in progress panicked
		if cur < 0 {
			t.Fatalf("C13 child failed outside a case: %v\n%s", runErr, c13Tail(string(outBytes), 3000))
		}
		c := byId[cur]
		if c.Scenario == "" {
			if curOp >= 0 {
				c.Outs = append(c.Outs, "VPanic")
			}
			c.Panic = c13PanicSummary(string(outBytes))
			c.Ops = c.Ops[:len(c.Outs)] // what was executed
		} else {
			stress[cur] = &c13StressResult{Stalled: true, Goroutines: "child died: " + c13PanicSummary(string(outBytes))}
		}
		done[cur] = true
		var next []*c13Case
		for _, r := range rest {
			if !done[r.Id] {
				next = append(next, r)
			}
		}
		rest = next
	}
	return stress
}

func c13Tail(s string, n int) string {
	if len(s) > n {
		return s[len(s)-n:]
	}
	return s
}

func c13PanicSummary(out string) string {
	lines := strings.Split(out, "\n")
	var keep []string
	for i, l := range lines {
		if strings.HasPrefix(l, "panic:") || strings.HasPrefix(l, "fatal error:") {
			keep = append(keep, l)
			for j := i + 1; j < len(lines) && len(keep) < 14; j++ {
				if strings.Contains(lines[j], "signaling.") || strings.HasPrefix(lines[j], "goroutine ") {
					keep = append(keep, strings.TrimSpace(lines[j]))
				}
			}
			break
		}
	}
	if len(keep) == 0 {
		return c13Tail(out, 600)
	}
	return strings.Join(keep, " | ")
}

// ---- concurrency stress: lookups x writers on one storage -------------------------------

func c13Stress(c *c13Case) *c13StressResult {
	dur := 400 * time.Millisecond
	if os.Getenv("VERIF_TIER") == "thorough" {
		dur = 3 * time.Second
	}
	const lookupWorkers = 8
	const writeWorkers = 2
	var lookups, writes int64
	var stop int32
	var wg sync.WaitGroup

	mk := func(n int) *c13Config {
		cfg := &c13Config{Ids: []int{}}
		for i := 1; i <= n; i++ {
			cfg.Ids = append(cfg.Ids, i)
			cfg.Secs = append(cfg.Secs, c13Sec{Id: i, Url: fmt.Sprintf("https://h%d.example/p%d/", 1+i%2, i), Secret: i})
		}
		return cfg
	}
	var running *BackendConfiguration
	var etcd *backendStorageEtcd
	if c.Scenario == "stress-static" {
		running, _ = NewBackendConfiguration(mk(4).goconf(), nil)
	} else {
		etcd, running = c13NewEtcdStorage()
		etcd.EtcdKeyUpdated(nil, c13KeyText(1), []byte(`{"url":"https://h1.example/p1/","secret":"s1"}`), nil)
	}
	probes := []string{"https://h1.example/p2/x", "https://h2.example/p1/x", "https://h2.example/p3", "https://h3.example/"}
	for w := 0; w < lookupWorkers; w++ {
		wg.Add(1)
		go func(w int) {
			defer wg.Done()
			for i := 0; atomic.LoadInt32(&stop) == 0; i++ {
				u, _ := url.Parse(probes[(i+w)%len(probes)])
				switch i % 5 {
				case 0:
					running.GetBackend(u)
				case 1:
					running.IsUrlAllowed(u)
				case 2:
					running.GetSecret(u)
				case 3:
					running.GetCompatBackend()
				default:
					running.GetBackends()
				}
				atomic.AddInt64(&lookups, 1)
			}
		}(w)
	}
	for w := 0; w < writeWorkers; w++ {
		wg.Add(1)
		go func(w int) {
			defer wg.Done()
			cfgs := []*goconf.ConfigFile{mk(4).goconf(), mk(2).goconf(), mk(3).goconf()}
			for i := 0; atomic.LoadInt32(&stop) == 0; i++ {
				if etcd == nil {
					running.Reload(cfgs[(i+w)%len(cfgs)])
				} else if i%3 == 2 {
					etcd.EtcdKeyDeleted(nil, c13KeyText(1+(i+w)%3), nil)
				} else {
					etcd.EtcdKeyUpdated(nil, c13KeyText(1+(i+w)%3), []byte(fmt.Sprintf(`{"url":"https://h%d.example/p%d/","secret":"s1"}`, 1+i%2, 1+i%3)), nil)
				}
				atomic.AddInt64(&writes, 1)
				time.Sleep(50 * time.Microsecond)
			}
		}(w)
	}
	res := &c13StressResult{}
	start := time.Now()
	lastL, lastW := int64(-1), int64(-1)
	lastProgress := time.Now()
	finished := make(chan struct{})
	stopping := false
	for {
		time.Sleep(20 * time.Millisecond)
		if !stopping && time.Since(start) >= dur {
			// ask the workers to stop; they must all come back
			stopping = true
			atomic.StoreInt32(&stop, 1)
			go func() { wg.Wait(); close(finished) }()
		}
		if stopping {
			select {
			case <-finished:
				res.Lookups, res.Writes = atomic.LoadInt64(&lookups), atomic.LoadInt64(&writes)
				return res
			default:
			}
		}
		l, w := atomic.LoadInt64(&lookups), atomic.LoadInt64(&writes)
		if l != lastL || w != lastW {
			lastL, lastW = l, w
			lastProgress = time.Now()
			continue
		}
		if time.Since(lastProgress) > 1500*time.Millisecond {
			break // no worker made progress (or came back) for 1.5 s
		}
	}
	res.Stalled = true
	res.AfterMs = lastProgress.Sub(start).Milliseconds()
	buf := make([]byte, 1<<20)
	n := runtime.Stack(buf, true)
	dump := string(buf[:n])
	for _, g := range strings.Split(dump, "\n\n") {
		switch {
		case strings.Contains(g, "sync.(*RWMutex).RLock"):
			res.BlockedR++
		case strings.Contains(g, "sync.(*RWMutex).Lock"):
			res.BlockedW++
		}
	}
	var fr []string
	for _, l := range strings.Split(dump, "\n") {
		if strings.Contains(l, "signaling.(*backend") || strings.Contains(l, "signaling.(*Backend") {
			fr = append(fr, strings.TrimSpace(strings.SplitN(l, "(0x", 2)[0]))
		}
	}
	sort.Strings(fr)
	var uniq []string
	for i, f := range fr {
		if i == 0 || fr[i-1] != f {
			uniq = append(uniq, f)
		}
	}
	res.Goroutines = strings.Join(uniq, "; ")
	res.Lookups, res.Writes = atomic.LoadInt64(&lookups), atomic.LoadInt64(&writes)
	return res
}

// ---- generators ------------------------------------------------------------------------------

var c13Hosts = []string{"h1.example", "h2.example", "h3.example", "h4.example"}
var c13Paths = []string{"/a", "/b/", "/c/d", "/e/f/", "/g"}
var c13OverlapPaths = []string{"", "/", "/a", "/a/", "/a/b", "/a/b/", "/ab", "/b"}
var c13Nums = []string{"", "", "0", "5", "64", "-3", "abc", "100000"}

type c13Gen struct {
	r       *vrng
	overlap bool
	nextId  int
	urls    map[string]bool // every backend url that was ever configured
}

func (g *c13Gen) hostText(scheme string, h string) string {
	switch g.r.intn(8) {
	case 0:
		if scheme == "https" {
			return h + ":443"
		}
		return h + ":80"
	case 1:
		return h + ":8443"
	case 2:
		if scheme == "https" {
			return h + ":80"
		}
	}
	return h
}

func (g *c13Gen) url(h string) string {
	scheme := "https"
	if g.r.chance(20) {
		scheme = "http"
	}
	paths := c13Paths
	if g.overlap {
		paths = c13OverlapPaths
	}
	u := scheme + "://" + g.hostText(scheme, h) + pick(g.r, paths)
	g.urls[u] = true
	return u
}

func (g *c13Gen) sec(id int, h string) c13Sec {
	s := c13Sec{Id: id, Url: g.url(h), Secret: 1 + g.r.intn(9)}
	if g.r.chance(15) {
		s.Secret = 0 // falls back to the common secret, if any
	}
	s.Limit, s.Stream, s.Screen = pick(g.r, c13Nums), pick(g.r, c13Nums), pick(g.r, c13Nums)
	return s
}

func (g *c13Gen) initial() *c13Config {
	c := &c13Config{Ids: []int{}, Spaces: g.r.chance(30)}
	if g.r.chance(60) {
		c.Secret = 10 + g.r.intn(3)
	}
	nh := 1 + g.r.intn(3)
	for i := 0; i < nh; i++ {
		h := c13Hosts[i]
		n := 1 + g.r.intn(4)
		for j := 0; j < n; j++ {
			g.nextId++
			c.Ids = append(c.Ids, g.nextId)
			c.Secs = append(c.Secs, g.sec(g.nextId, h))
		}
	}
	if g.r.chance(40) {
		g.r.shuffleInts(c.Ids)
	}
	return c
}

func (r *vrng) shuffleInts(l []int) {
	for i := len(l) - 1; i > 0; i-- {
		j := r.intn(i + 1)
		l[i], l[j] = l[j], l[i]
	}
}

func c13HostOf(u string) string {
	p, err := url.Parse(u)
	if err != nil {
		return ""
	}
	return p.Hostname()
}

// next configuration of a chain: a handful of edits of the previous one
func (g *c13Gen) mutate(prev *c13Config) (*c13Config, []string) {
	c := &c13Config{Secret: prev.Secret, Spaces: g.r.chance(30)}
	c.Ids = append([]int{}, prev.Ids...)
	c.Secs = append([]c13Sec{}, prev.Secs...)
	var kinds []string
	n := 1 + g.r.intn(3)
	for e := 0; e < n; e++ {
		k := g.r.intn(13)
		switch {
		case k == 0 && len(c.Ids) > 0: // remove a backend (id and section)
			i := g.r.intn(len(c.Ids))
			id := c.Ids[i]
			c.Ids = append(c.Ids[:i:i], c.Ids[i+1:]...)
			for j := range c.Secs {
				if c.Secs[j].Id == id {
					c.Secs = append(c.Secs[:j:j], c.Secs[j+1:]...)
					break
				}
			}
			kinds = append(kinds, "remove")
		case k == 1 && len(c.Ids) > 0: // remove the id only (section stays)
			i := g.r.intn(len(c.Ids))
			c.Ids = append(c.Ids[:i:i], c.Ids[i+1:]...)
			kinds = append(kinds, "remove-id")
		case k == 2 || k == 3: // add a backend, on an existing or another host
			g.nextId++
			h := pick(g.r, c13Hosts)
			if len(c.Secs) > 0 && g.r.chance(60) {
				if hh := c13HostOf(pick(g.r, c.Secs).Url); hh != "" {
					h = hh
				}
			}
			pos := g.r.intn(len(c.Ids) + 1)
			c.Ids = append(c.Ids[:pos:pos], append([]int{g.nextId}, c.Ids[pos:]...)...)
			c.Secs = append(c.Secs, g.sec(g.nextId, h))
			kinds = append(kinds, "add")
		case k == 4 && len(c.Secs) > 0: // change secret
			j := g.r.intn(len(c.Secs))
			c.Secs[j].Secret = 1 + g.r.intn(9)
			kinds = append(kinds, "secret")
		case k == 5 && len(c.Secs) > 0: // change limits
			j := g.r.intn(len(c.Secs))
			c.Secs[j].Limit, c.Secs[j].Stream, c.Secs[j].Screen = pick(g.r, c13Nums), pick(g.r, c13Nums), pick(g.r, c13Nums)
			kinds = append(kinds, "limits")
		case k == 6 && len(c.Secs) > 0: // url moved within the host
			j := g.r.intn(len(c.Secs))
			if h := c13HostOf(c.Secs[j].Url); h != "" {
				c.Secs[j].Url = g.url(h)
			}
			kinds = append(kinds, "move-path")
		case k == 7 && len(c.Secs) > 0: // url moved to another host
			j := g.r.intn(len(c.Secs))
			c.Secs[j].Url = g.url(pick(g.r, c13Hosts))
			kinds = append(kinds, "move-host")
		case k == 8 && len(c.Ids) > 1: // reorder
			g.r.shuffleInts(c.Ids)
			kinds = append(kinds, "reorder")
		case k == 9 && len(c.Secs) > 0: // same url under a new id
			j := g.r.intn(len(c.Secs))
			old := c.Secs[j].Id
			g.nextId++
			c.Secs[j].Id = g.nextId
			for i := range c.Ids {
				if c.Ids[i] == old {
					c.Ids[i] = g.nextId
				}
			}
			kinds = append(kinds, "rename")
		case k == 10 && len(c.Ids) > 0: // keep only one backend of a host with several (the UpsertHost shape)
			by := map[string][]int{}
			for _, s := range c.Secs {
				by[c13HostOf(s.Url)] = append(by[c13HostOf(s.Url)], s.Id)
			}
			var hs []string
			for h, ids := range by {
				if len(ids) >= 2 {
					hs = append(hs, h)
				}
			}
			sort.Strings(hs)
			if len(hs) > 0 {
				ids := by[pick(g.r, hs)]
				keep := pick(g.r, ids)
				drop := map[int]bool{}
				for _, id := range ids {
					if id != keep {
						drop[id] = true
					}
				}
				var nids []int
				for _, id := range c.Ids {
					if !drop[id] {
						nids = append(nids, id)
					}
				}
				c.Ids = nids
				kinds = append(kinds, "shrink-host")
			}
		case k == 11: // token noise: duplicate id, empty token
			if len(c.Ids) > 0 && g.r.chance(50) {
				c.Ids = append(c.Ids, c.Ids[g.r.intn(len(c.Ids))])
			} else {
				pos := g.r.intn(len(c.Ids) + 1)
				c.Ids = append(c.Ids[:pos:pos], append([]int{0}, c.Ids[pos:]...)...)
			}
			kinds = append(kinds, "token-noise")
		case k == 12: // common secret changed / removed
			c.Secret = []int{0, 10, 11, 12}[g.r.intn(4)]
			kinds = append(kinds, "common-secret")
		}
	}
	if g.r.chance(4) {
		c.Ids = []int{0} // empty list
		kinds = append(kinds, "empty-list")
	}
	if len(c.Ids) == 0 {
		c.Ids = []int{0}
		kinds = append(kinds, "empty-list")
	}
	return c, kinds
}

func (g *c13Gen) probes(extra []string) []string {
	var base []string
	for u := range g.urls {
		base = append(base, u)
	}
	sort.Strings(base)
	var out []string
	add := func(s string) { out = append(out, s) }
	for _, u := range base {
		switch g.r.intn(8) {
		case 0:
			add(u)
		case 1:
			add(c13AddSlash(u) + "x/y")
		case 2:
			add(strings.TrimSuffix(u, "/"))
		case 3: // other scheme
			if strings.HasPrefix(u, "https://") {
				add("http://" + u[8:])
			} else {
				add("https://" + u[7:])
			}
		case 4: // standard port written out / dropped
			if p, err := url.Parse(u); err == nil {
				port := "443"
				if p.Scheme == "http" {
					port = "80"
				}
				if p.Port() == "" {
					p.Host = p.Hostname() + ":" + port
				} else {
					p.Host = p.Hostname()
				}
				add(p.String())
			}
		case 5:
			add(u + "z")
		default:
			// continue the last path segment of the configured URL (written with or without
			// trailing slash): a sibling path, which belongs to another backend or to none
			stem := strings.TrimSuffix(u, "/")
			if p, err := url.Parse(stem); err != nil || p.Path == "" {
				add(stem + "x") // no path: the host would continue
				break
			}
			add(stem + pick(g.r, []string{"-test/ocs/v2.php", "2", "2/", "x/y", "-test", "%2F", ".", "_/"}))
		}
	}
	for len(out) > 12 {
		i := g.r.intn(len(out))
		out = append(out[:i], out[i+1:]...)
	}
	add("https://" + pick(g.r, c13Hosts) + pick(g.r, c13OverlapPaths))
	add("https://unknown.example/a/")
	return append(out, extra...)
}

func c13GenStatic(seed int64, id int, stream string) *c13Case {
	r := newVrng(seed, uint64(id))
	g := &c13Gen{r: r, overlap: stream == "overlap", urls: map[string]bool{}}
	c := &c13Case{Id: id, Kind: 0, Mode: 1, Stream: stream}
	cur := g.initial()
	c.Ops = append(c.Ops, c13Op{K: "init", C: cur})
	n := 1 + r.intn(3)
	for i := 0; i < n; i++ {
		next, kinds := g.mutate(cur)
		c.Edits = append(c.Edits, kinds...)
		c.Ops = append(c.Ops, c13Op{K: "reload", C: next})
		cur = next
		if i == n-1 || r.chance(40) {
			for _, p := range g.probes(nil) {
				c.Ops = append(c.Ops, c13Op{K: "probe", U: p})
			}
		}
	}
	return c
}

// malformed / deprecated configurations: compared with the model only (mode 0)
func c13GenStaticOdd(seed int64, id int) *c13Case {
	r := newVrng(seed, uint64(id))
	g := &c13Gen{r: r, overlap: r.chance(50), urls: map[string]bool{}}
	c := &c13Case{Id: id, Kind: 0, Mode: 0, Stream: "odd"}
	odd := func(cfg *c13Config) {
		switch r.intn(7) {
		case 0:
			cfg.AllowAll = true
			cfg.AllowHttp = r.chance(50)
			cfg.Limit = pick(r, c13Nums)
		case 1:
			cfg.Ids = []int{0}
			cfg.Allowed = []string{pick(r, c13Hosts), pick(r, c13Hosts)}
			cfg.AllowHttp = r.chance(50)
			cfg.Limit = pick(r, c13Nums)
		case 2: // urls that do not parse, have no host, or are missing
			if len(cfg.Secs) > 0 {
				j := r.intn(len(cfg.Secs))
				cfg.Secs[j].Url = pick(r, []string{"", "h1.example/a", "://h1.example", "https://h1.example:x/", "ftp://h1.example/a", "https://[::1/", "/only/path", "HTTPS://H1.example/a"})
			}
		case 3: // section missing
			if len(cfg.Secs) > 0 {
				j := r.intn(len(cfg.Secs))
				cfg.Secs = append(cfg.Secs[:j:j], cfg.Secs[j+1:]...)
			}
		case 4:
			cfg.Secret = 0
			for j := range cfg.Secs {
				if r.chance(50) {
					cfg.Secs[j].Secret = 0
				}
			}
		case 5:
			cfg.Ids = []int{0, 0}
		}
	}
	cur := g.initial()
	if r.chance(50) {
		odd(cur)
	}
	c.Ops = append(c.Ops, c13Op{K: "init", C: cur})
	n := 1 + r.intn(3)
	for i := 0; i < n; i++ {
		next, _ := g.mutate(cur)
		next.AllowAll, next.AllowHttp, next.Allowed, next.Limit = false, false, nil, ""
		if r.chance(60) {
			odd(next)
		}
		c.Ops = append(c.Ops, c13Op{K: "reload", C: next})
		cur = next
	}
	for _, p := range g.probes([]string{"", "/only/path/x", "http://h1.example/a/", "ftp://h1.example/a/", "https://H1.example/a/", "::bad"}) {
		c.Ops = append(c.Ops, c13Op{K: "probe", U: p})
	}
	return c
}

func c13GenEtcd(seed int64, id int, stream string) *c13Case {
	r := newVrng(seed, uint64(id))
	g := &c13Gen{r: r, overlap: stream != "etcd", urls: map[string]bool{}}
	c := &c13Case{Id: id, Kind: 1, Mode: 1, Stream: stream}
	live := map[int]string{} // key -> host of the current value
	n := 3 + r.intn(10)
	rawBad := []string{"not json", "[]", `{"url": 5}`, `{"url":"https://h1.example/a/","secret":"s1","sessionlimit":-1}`, "null", `{"secret":"s1"}`, `{"url":"https://h1.example/a/"}`,
		`{"url":"https://[::1/","secret":"s2"}`, `{"url":"%zz","secret":"s2"}`}
	for i := 0; i < n; i++ {
		key := 1 + r.intn(6)
		k := r.intn(10)
		switch {
		case k <= 4: // put a valid value: new key, same host, or another host
			h := pick(r, c13Hosts[:3])
			if old, ok := live[key]; ok && r.chance(50) {
				h = old
			}
			v := &c13EtcdVal{Url: g.url(h), Secret: 1 + r.intn(9)}
			if r.chance(30) {
				v.Url = c13AddSlash(v.Url)
			}
			if r.chance(40) {
				v.Limit = uint64(r.intn(50))
				v.Stream = r.intn(3) * 1000
				v.Screen = r.intn(3)*500 - 500
			}
			c.Ops = append(c.Ops, c13Op{K: "put", Key: key, V: v})
			live[key] = h
		case k <= 6:
			c.Ops = append(c.Ops, c13Op{K: "del", Key: key})
			delete(live, key)
		default: // invalid value (over nothing or over a valid one)
			if stream == "etcd" && !r.chance(50) {
				c.Ops = append(c.Ops, c13Op{K: "put", Key: key, V: &c13EtcdVal{Url: pick(r, []string{"", "https://h1.example/a/"}), Secret: 0}})
			} else {
				c.Ops = append(c.Ops, c13Op{K: "put", Key: key, Raw: pick(r, rawBad)})
			}
			delete(live, key)
		}
		if i == n-1 || r.chance(25) {
			for _, p := range g.probes(nil) {
				c.Ops = append(c.Ops, c13Op{K: "probe", U: p})
			}
		}
	}
	return c
}

// c13Norm is the text the server compares: url.String() with a written-out standard port dropped.
func c13Norm(s string) string {
	u, err := url.Parse(s)
	if err != nil {
		return ""
	}
	if strings.Contains(u.Host, ":") && ((u.Scheme == "https" && u.Port() == "443") || (u.Scheme == "http" && u.Port() == "80")) {
		u.Host = u.Hostname()
	}
	return u.String()
}

// c13OracleRegular checks the assumption the etcd theorem of the second clause makes about
// net/url (coq/proofs/BackendCfg_owner.v, oracle_regular) on a URL text written to etcd:
// String() of a URL whose standard port is dropped is not empty, and a text that does not
// end in "/" parses with "/" appended, with the same decision about the port and, where
// it is dropped, the same String() up to that slash.  "" = holds (or the text does not parse).
func c13OracleRegular(s string) string {
	u, err := url.Parse(s)
	if err != nil {
		return ""
	}
	normalised := func(u *url.URL) bool {
		return strings.Contains(u.Host, ":") && ((u.Scheme == "https" && u.Port() == "443") || (u.Scheme == "http" && u.Port() == "80"))
	}
	if normalised(u) && c13Norm(s) == "" {
		return fmt.Sprintf("String() of %q with the standard port dropped is empty", s)
	}
	if strings.HasSuffix(s, "/") {
		return ""
	}
	u2, err := url.Parse(s + "/")
	if err != nil {
		return fmt.Sprintf("%q parses, %q does not: %v", s, s+"/", err)
	}
	if normalised(u) != normalised(u2) {
		return fmt.Sprintf("standard port of %q and %q judged differently", s, s+"/")
	}
	if normalised(u) && c13AddSlash(c13Norm(s)) != c13AddSlash(c13Norm(s+"/")) {
		return fmt.Sprintf("String() of %q and %q differ by more than the slash: %q, %q", s, s+"/", c13Norm(s), c13Norm(s+"/"))
	}
	return ""
}

// ---- directed cases: the histories of the confirmed defects and of the open finding -------

func c13Directed() []*c13Case {
	sec := func(id int, u string) c13Sec { return c13Sec{Id: id, Url: u, Secret: id} }
	cfg := func(ids []int, secs ...c13Sec) *c13Config { return &c13Config{Ids: ids, Secs: secs} }
	probe := func(us ...string) []c13Op {
		var ops []c13Op
		for _, u := range us {
			ops = append(ops, c13Op{K: "probe", U: u})
		}
		return ops
	}
	put := func(k int, u string, s int) c13Op { return c13Op{K: "put", Key: k, V: &c13EtcdVal{Url: u, Secret: s}} }
	var cs []*c13Case
	// three backends on one host reloaded to one
	cs = append(cs, &c13Case{Id: 900001, Kind: 0, Mode: 1, Stream: "directed", Ops: append([]c13Op{
		{K: "init", C: cfg([]int{1, 2, 3}, sec(1, "https://h1.example/a/"), sec(2, "https://h1.example/b/"), sec(3, "https://h1.example/c/"))},
		{K: "reload", C: cfg([]int{3}, sec(3, "https://h1.example/c/"))}},
		probe("https://h1.example/a/x", "https://h1.example/b/x", "https://h1.example/c/x")...)})
	// list order with overlapping prefixes: existing [B], new [A;B]
	cs = append(cs, &c13Case{Id: 900002, Kind: 0, Mode: 1, Stream: "directed", Ops: append([]c13Op{
		{K: "init", C: cfg([]int{2}, sec(2, "https://h1.example/a/b/"))},
		{K: "reload", C: cfg([]int{1, 2}, sec(1, "https://h1.example/a/"), sec(2, "https://h1.example/a/b/"))}},
		probe("https://h1.example/a/b/x", "https://h1.example/a/x")...)})
	// reload to an empty list
	cs = append(cs, &c13Case{Id: 900003, Kind: 0, Mode: 1, Stream: "directed", Ops: append([]c13Op{
		{K: "init", C: cfg([]int{1}, sec(1, "https://h1.example/a/"))},
		{K: "reload", C: cfg([]int{0})}},
		probe("https://h1.example/a/x")...)})
	// etcd: key changes host, then is deleted
	cs = append(cs, &c13Case{Id: 900004, Kind: 1, Mode: 1, Stream: "directed", Ops: append(append([]c13Op{
		put(1, "https://h1.example/a/", 1), put(1, "https://h2.example/a/", 2)},
		probe("https://h1.example/a/x", "https://h2.example/a/x")...),
		append([]c13Op{{K: "del", Key: 1}}, probe("https://h1.example/a/x", "https://h2.example/a/x")...)...)})
	// etcd: invalid value over a valid one
	cs = append(cs, &c13Case{Id: 900005, Kind: 1, Mode: 1, Stream: "directed", Ops: append([]c13Op{
		put(1, "https://h1.example/a/", 1), {K: "put", Key: 1, Raw: "not json"}},
		probe("https://h1.example/a/x")...)})
	cs = append(cs, &c13Case{Id: 900006, Kind: 1, Mode: 1, Stream: "directed", Ops: append([]c13Op{
		put(1, "https://h1.example/a/", 1), {K: "put", Key: 1, V: &c13EtcdVal{Url: "https://h1.example/a/"}}},
		probe("https://h1.example/a/x")...)})
	// etcd: same url under two keys, the later key first
	cs = append(cs, &c13Case{Id: 900007, Kind: 1, Mode: 1, Stream: "directed", Ops: append([]c13Op{
		put(2, "https://h1.example/a/", 2), put(1, "https://h1.example/a/", 1)},
		probe("https://h1.example/a/x")...)})
	// two backends on a host reloaded to the second (worked before, must keep working)
	cs = append(cs, &c13Case{Id: 900008, Kind: 0, Mode: 1, Stream: "directed", Ops: append([]c13Op{
		{K: "init", C: cfg([]int{1, 2}, sec(1, "https://h1.example/a/"), sec(2, "https://h1.example/b/"))},
		{K: "reload", C: cfg([]int{2}, sec(2, "https://h1.example/b/"))}},
		probe("https://h1.example/a/x", "https://h1.example/b/x")...)})
	// path-segment boundary: two (three) backends on one host whose paths share a string prefix but
	// not a path prefix, the shorter one listed first and last, with and without trailing slash and
	// with a written-out standard port; every URL must be accepted for its own backend only
	seg := func(ids []int, slash string, port string) *c13Config {
		return cfg(ids, sec(1, "https://cloud.example"+port+"/nextcloud"+slash), sec(2, "https://cloud.example"+port+"/nextcloud-test"+slash),
			sec(3, "https://cloud.example"+port+"/nextcloud2"+slash))
	}
	segProbes := probe("https://cloud.example/nextcloud-test/ocs/v2.php/apps/spreed/api/v1/signaling/backend", "https://cloud.example/nextcloud-test",
		"https://cloud.example/nextcloud/ocs/v2.php", "https://cloud.example/nextcloud", "https://cloud.example/nextcloud2/index.php", "https://cloud.example:443/nextcloud2",
		"https://cloud.example/nextcloudx", "https://cloud.example/nextcloud-tes", "https://cloud.example/nextclou/x", "https://cloud.example/nextcloud-test2/x")
	cs = append(cs, &c13Case{Id: 900009, Kind: 0, Mode: 1, Stream: "directed", Ops: append(append(append([]c13Op{
		{K: "init", C: seg([]int{1, 2, 3}, "", "")}}, segProbes...),
		append([]c13Op{{K: "reload", C: seg([]int{3, 2, 1}, "/", "")}}, segProbes...)...),
		append([]c13Op{{K: "reload", C: seg([]int{2, 1, 3}, "", ":443")}}, segProbes...)...)})
	putSeg := func(k int, path string) c13Op { return put(k, "https://cloud.example"+path, k) }
	cs = append(cs, &c13Case{Id: 900010, Kind: 1, Mode: 1, Stream: "directed", Ops: append(append(append([]c13Op{
		putSeg(1, "/nextcloud/"), putSeg(2, "/nextcloud-test/"), putSeg(3, "/nextcloud2/")}, segProbes...),
		append([]c13Op{{K: "del", Key: 1}, putSeg(4, "/nextcloud/")}, segProbes...)...),
		append([]c13Op{{K: "del", Key: 2}}, segProbes...)...)})
	// the same three siblings in etcd, written WITHOUT trailing slash (the form of the example in
	// server.conf.in), then with a written-out standard port, then slash-terminated
	cs = append(cs, &c13Case{Id: 900011, Kind: 1, Mode: 1, Stream: "directed", Ops: append(append(append([]c13Op{
		putSeg(1, "/nextcloud"), putSeg(2, "/nextcloud-test"), putSeg(3, "/nextcloud2")}, segProbes...),
		append([]c13Op{put(1, "https://cloud.example:443/nextcloud", 1), {K: "del", Key: 3}, put(5, "https://cloud.example:443/nextcloud2", 5)}, segProbes...)...),
		append([]c13Op{putSeg(2, "/nextcloud-test/"), {K: "del", Key: 1}}, segProbes...)...)})
	// the shorter path under the LATER key: the lookup walks the longer one first
	cs = append(cs, &c13Case{Id: 900012, Kind: 1, Mode: 1, Stream: "directed", Ops: append([]c13Op{
		putSeg(1, "/nextcloud-test"), putSeg(2, "/nextcloud"), putSeg(3, "/nextclou")}, segProbes...)})
	// Witnesses of the former finding C13/etcd/url-without-trailing-slash (repaired by fixes/C13/07;
	// the histories of C13_lookup_unrepaired_boundary_refuted / _sibling_secret_refuted and of
	// C13_etcd_owner_nonvacuous): an etcd value whose URL does not end in "/" accepts its own
	// URLs and refuses those of a sibling whose path continues the last segment ...
	cs = append(cs, &c13Case{Id: 900103, Kind: 1, Mode: 1, Stream: "directed", Ops: append([]c13Op{
		putSeg(1, "/nextcloud")},
		probe("https://cloud.example/nextcloud/ocs/v2.php", "https://cloud.example/nextcloud-test/ocs/v2.php",
			"https://cloud.example/nextcloud-test/ocs/v2.php/apps/spreed/api/v1/signaling/backend")...)})
	// ... and with the sibling configured under a later key each URL is answered with its own secret
	cs = append(cs, &c13Case{Id: 900104, Kind: 1, Mode: 1, Stream: "directed", Ops: append([]c13Op{
		putSeg(1, "/nextcloud"), putSeg(2, "/nextcloud-test")},
		probe("https://cloud.example/nextcloud-test/ocs/v2.php", "https://cloud.example/nextcloud/ocs/v2.php")...)})
	// OPEN FINDING: reload into / out of the deprecated modes is ignored
	cs = append(cs, &c13Case{Id: 900101, Kind: 0, Mode: 1, Stream: "directed", Finding: "C13/static/reload/deprecated-mode", Ops: append([]c13Op{
		{K: "init", C: &c13Config{Ids: []int{0}, Allowed: []string{"h1.example"}, Secret: 7}},
		{K: "reload", C: cfg([]int{1}, sec(1, "https://h2.example/a/"))}},
		probe("https://h1.example/x", "https://h2.example/a/x")...)})
	cs = append(cs, &c13Case{Id: 900102, Kind: 0, Mode: 1, Stream: "directed", Finding: "C13/static/reload/deprecated-mode", Ops: append([]c13Op{
		{K: "init", C: cfg([]int{1}, sec(1, "https://h1.example/a/"))},
		{K: "reload", C: &c13Config{AllowAll: true, Secret: 7, Ids: []int{1}, Secs: []c13Sec{sec(1, "https://h1.example/a/")}}}},
		probe("https://h1.example/a/x", "https://h3.example/x")...)})
	return cs
}

// ---- the scenario -----------------------------------------------------------------------------

func (c *c13Case) coqTerm() (string, bool) {
	if len(c.Outs) > len(c.Ops) {
		c.Outs = c.Outs[:len(c.Ops)]
	}
	var items []string
	for i, out := range c.Outs {
		o := &c.Ops[i]
		var op string
		switch o.K {
		case "init":
			op = "OInit " + o.C.coq()
		case "reload":
			op = "OReload " + o.C.coq()
		case "put":
			_, v := o.payload()
			op = fmt.Sprintf("OEvent (EPut %d %s)", o.Key, v)
		case "del":
			op = fmt.Sprintf("OEvent (EDel %d)", o.Key)
		case "probe":
			op = "OProbe " + c13Str(o.U)
		default:
			return "", false
		}
		items = append(items, fmt.Sprintf("(%s, %s)", op, out))
	}
	kind := c.Kind
	if os.Getenv("VERIF_C13_MODEL") == "unrepaired" {
		// validation of the unrepaired model (behind the `_refuted` theorems) against the unrepaired code
		kind += 2
	}
	return fmt.Sprintf("mkcase %d %d %d %s %s", c.Id, kind, c.Mode, c13UrlTable(c), coqList(items)), true
}

func TestVerifC13(t *testing.T) {
	if os.Getenv("VERIF_C13_CHILD") != "" {
		c13Child(t)
		return
	}
	env := getVerifEnv(t, "C13")
	sink := newCaseSink(t, env, "C13", "corr.Run_C13", 60)
	sink.preamble = "Open Scope string_scope.\n"

	var cases []*c13Case
	if env.replay != "" {
		var cs []c13Case
		readReplay(t, env.replay, &cs)
		for i := range cs {
			cases = append(cases, &cs[i])
		}
	} else {
		cases = append(cases, c13Directed()...)
		nStatic, nOverlap, nOdd, nEtcd, nEtcdOverlap := 150, 60, 60, 100, 50
		if env.thorough() {
			nStatic, nOverlap, nOdd, nEtcd, nEtcdOverlap = 2200, 900, 800, 1500, 700
		}
		id := 0
		for i := 0; i < nStatic; i, id = i+1, id+1 {
			cases = append(cases, c13GenStatic(env.seed, id, "static"))
		}
		for i := 0; i < nOverlap; i, id = i+1, id+1 {
			cases = append(cases, c13GenStatic(env.seed, id, "overlap"))
		}
		for i := 0; i < nOdd; i, id = i+1, id+1 {
			cases = append(cases, c13GenStaticOdd(env.seed, id))
		}
		for i := 0; i < nEtcd; i, id = i+1, id+1 {
			cases = append(cases, c13GenEtcd(env.seed, id, "etcd"))
		}
		for i := 0; i < nEtcdOverlap; i, id = i+1, id+1 {
			cases = append(cases, c13GenEtcd(env.seed, id, "etcd-overlap"))
		}
		// concurrency: lookups x reloads / etcd events on one storage, stall detection
		cases = append(cases, &c13Case{Id: 800001, Scenario: "stress-static"}, &c13Case{Id: 800002, Scenario: "stress-etcd"})
		if env.thorough() {
			for i := 0; i < 4; i++ {
				cases = append(cases, &c13Case{Id: 800011 + 2*i, Scenario: "stress-static"}, &c13Case{Id: 800012 + 2*i, Scenario: "stress-etcd"})
			}
		}
	}

	stress := c13RunAll(t, env, cases)

	for _, c := range cases {
		if c.Scenario != "" {
			res := stress[c.Id]
			sink.count(c.Scenario)
			if res == nil {
				sink.violation(c.Id, "concurrency run did not report", c)
				continue
			}
			sink.stats.Histogram["stress_lookups"] += int(res.Lookups)
			sink.stats.Histogram["stress_writes"] += int(res.Writes)
			if res.Stalled {
				sink.count("stress_stalled")
				sink.violation(c.Id, fmt.Sprintf("lookups and reloads running concurrently stopped making progress (%s: 8 lookup workers, 2 writers; no counter moved for 1.5 s after %d ms, %d lookups and %d writes; %d goroutines blocked in RWMutex.RLock, %d in RWMutex.Lock; frames: %s)",
					c.Scenario, res.AfterMs, res.Lookups, res.Writes, res.BlockedR, res.BlockedW, res.Goroutines), c)
			}
			continue
		}
		term, ok := c.coqTerm()
		if !ok {
			t.Fatalf("case %d: unknown op", c.Id)
		}
		// assumption of C13_etcd_owner_trace about net/url, checked on every URL written to etcd
		for i := range c.Ops {
			if o := &c.Ops[i]; o.K == "put" {
				data, _ := o.payload()
				var info BackendInformationEtcd
				if json.Unmarshal(data, &info) == nil && info.Url != "" {
					sink.count("oracle_regular_checked")
					if msg := c13OracleRegular(info.Url); msg != "" {
						t.Fatalf("case %d: net/url does not meet the oracle assumption of the etcd theorem (oracle_regular): %s", c.Id, msg)
					}
				}
			}
		}
		for i := range c.Outs {
			c.Ops[i].Out = c.Outs[i]
		}
		sink.count("stream_" + c.Stream)
		for _, e := range c.Edits {
			sink.count("edit_" + e)
		}
		someYes, someNo, differs := false, false, false
		for i, out := range c.Outs {
			k := c.Ops[i].K
			sink.count("op_" + k)
			switch {
			case out == "VPanic":
				sink.count("obs_panic")
			case strings.HasPrefix(out, "VAns"):
				if strings.HasPrefix(out, "VAns (ASome") {
					someYes = true
					sink.count("obs_accepted")
				} else {
					someNo = true
					sink.count("obs_refused")
				}
				parts := strings.SplitN(out[len("VAns ("):], ") (", 2)
				if len(parts) == 2 && parts[0] != strings.TrimSuffix(parts[1], ")") {
					differs = true
				}
			}
		}
		if differs {
			sink.count("cases_running_differs_from_fresh")
		}
		if c.Panic != "" {
			sink.count("cases_with_panic")
		}
		h := fnv.New64a()
		h.Write([]byte(term[strings.Index(term, "["):]))
		sink.add(term, c, someYes && someNo && len(c.Ops) >= 4, fmt.Sprintf("%x", h.Sum64()))
	}
	sink.close("seeded chains of 2-4 static configurations (init + reloads: backends added, removed, moved between paths and hosts, renamed, reordered, secrets/limits changed, token noise, empty list) and etcd put/delete histories (keys changing host, invalid values) on the real NewBackendConfiguration/Reload/EtcdKeyUpdated/EtcdKeyDeleted in a child process; every probe is answered by the running and by a freshly started instance; non-trivial = at least 4 ops with at least one accepted and one refused probe; distinct = distinct (ops, observations)")
}
