//go:build verif

package signaling

// C10, part 3: the parent.  Builds the cases, runs them in child processes (a dead
// child is an observation for the step that was in flight), writes the cases files.

import (
	"bufio"
	"bytes"
	"encoding/json"
	"fmt"
	"os"
	"os/exec"
	"path/filepath"
	"reflect"
	"strings"
	"sync"
	"testing"
)

type c10Ref struct{ ci, oi int }

// runs the steps refs[lo:hi] in child processes, one after the other
func c10RunChunk(t *testing.T, env verifEnv, cases []*c10Case, refs []c10Ref, lo, hi int, tag string, deaths, blocked *int, mu *sync.Mutex) {
	child := 0
	for start := lo; start < hi; {
		child++
		base := filepath.Join(env.out, fmt.Sprintf("child_%s_%03d", tag, child))
		var items []c10WorkItem
		for k := start; k < hi; k++ {
			items = append(items, c10WorkItem{K: k, Step: cases[refs[k].ci].Ops[refs[k].oi]})
		}
		data, _ := json.Marshal(items)
		if err := os.WriteFile(base+".batch.json", data, 0o644); err != nil {
			t.Fatal(err)
		}
		cmd := exec.Command(os.Args[0], "-test.run", "^TestVerifC10$", "-test.count=1", "-test.timeout", "3000s")
		cmd.Env = append(os.Environ(), "VERIF_C10_CHILD="+base+".batch.json", "VERIF_C10_LOG="+base+".log")
		var out bytes.Buffer
		cmd.Stdout = &out
		cmd.Stderr = &out
		runErr := cmd.Run()
		os.WriteFile(base+".out", out.Bytes(), 0o644)
		last, lastPh, ended, blockedAt := -1, "", false, -1
		if lf, err := os.Open(base + ".log"); err == nil {
			sc := bufio.NewScanner(lf)
			sc.Buffer(make([]byte, 1<<20), 1<<28)
			for sc.Scan() {
				var l c10LogLine
				if json.Unmarshal(sc.Bytes(), &l) != nil {
					continue
				}
				switch l.Ph {
				case "start":
					last, lastPh = l.K, "start"
				case "done":
					lastPh = "done"
					o := &cases[refs[l.K].ci].Ops[refs[l.K].oi]
					doc, raw, class := o.Doc, o.Raw, o.Class
					*o = *l.Obs
					o.Doc, o.Raw, o.Class = doc, raw, class
				case "blocked":
					blockedAt = l.K
				case "end":
					ended = true
				}
			}
			lf.Close()
		}
		os.Remove(base + ".batch.json")
		if ended {
			return
		}
		if blockedAt >= 0 && lastPh == "done" && last == blockedAt {
			// the liveness probe after step blockedAt failed (recorded in that step's observation);
			// the hub of that child was useless from then on: the rest of the list in a new child
			mu.Lock()
			*blocked++
			mu.Unlock()
			start = blockedAt + 1
			continue
		}
		txt := out.String()
		if last < 0 || lastPh != "start" || !(strings.Contains(txt, "panic:") || strings.Contains(txt, "fatal error:")) {
			tail := txt
			if len(tail) > 3000 {
				tail = tail[len(tail)-3000:]
			}
			t.Fatalf("C10 harness: child %s/%d stopped outside a step (err=%v, last step %d phase %q):\n%s", tag, child, runErr, last, lastPh, tail)
		}
		// the process exited while the frame of step `last` was being processed
		o := &cases[refs[last].ci].Ops[refs[last].oi]
		o.Done, o.Alive, o.Replies, o.By, o.ByOk, o.DSame, o.Closed, o.Api, o.Off, o.Live = true, false, []string{}, []string{}, false, false, false, 0, 0, false
		if i := strings.Index(txt, "panic:"); i >= 0 {
			p := txt[i:]
			if len(p) > 1200 {
				p = p[:1200]
			}
			o.Panic = p
		}
		mu.Lock()
		*deaths++
		mu.Unlock()
		start = last + 1
	}
}

var c10Blocked int // children that ended because their hub no longer served anybody (all calls of c10RunAll)

func c10RunAll(t *testing.T, env verifEnv, cases []*c10Case, parallel int) (deaths int) {
	var refs []c10Ref
	for ci, c := range cases {
		for oi := range c.Ops {
			refs = append(refs, c10Ref{ci, oi})
		}
	}
	if len(refs) == 0 {
		return 0
	}
	if parallel > len(cases) {
		parallel = len(cases)
	}
	// chunks end at case boundaries
	var bounds []int
	per := (len(refs) + parallel - 1) / parallel
	bounds = append(bounds, 0)
	for k := 1; k < len(refs); k++ {
		if refs[k].oi == 0 && k-bounds[len(bounds)-1] >= per {
			bounds = append(bounds, k)
		}
	}
	bounds = append(bounds, len(refs))
	var wg sync.WaitGroup
	var mu sync.Mutex
	for i := 0; i+1 < len(bounds); i++ {
		wg.Add(1)
		go func(i int) {
			defer wg.Done()
			c10RunChunk(t, env, cases, refs, bounds[i], bounds[i+1], fmt.Sprintf("%02d", i), &deaths, &c10Blocked, &mu)
		}(i)
	}
	wg.Wait()
	return deaths
}

func TestVerifC10(t *testing.T) {
	if bf := os.Getenv("VERIF_C10_CHILD"); bf != "" {
		c10Child(t, bf, os.Getenv("VERIF_C10_LOG"))
		return
	}
	env := getVerifEnv(t, "C10")
	sink := newCaseSink(t, env, "C10", "corr.Run_C10", 40)
	sink.preamble = "Open Scope string_scope.\n"

	// is the tree under test repaired?  Decided by behaviour: the witness of the
	// confirmed defect in a child process of its own.
	probe := c10Witnesses()
	fixDialout := c10RunAll(t, env, []*c10Case{&probe[0]}, 1) == 0
	fixLabel := c10RunAll(t, env, []*c10Case{&probe[3]}, 1) == 0
	fixed := fixDialout && fixLabel

	var cases []*c10Case
	hist := map[string]int{}
	if env.replay != "" {
		var cs []c10Case
		readReplay(t, env.replay, &cs)
		for i := range cs {
			c := cs[i]
			for j := range c.Ops {
				o := &c.Ops[j]
				*o = c10Step{St: o.St, K: o.K, Doc: o.Doc, Raw: o.Raw, Class: o.Class}
			}
			// The driver matches the verdicts of a replayed case by the id the case has in the
			// replay file (confirmation run of a failing case, shrinking); renumber only when the
			// file does not give distinct ids.
			cases = append(cases, &c)
		}
		seenId := map[int]bool{}
		distinct := true
		for _, c := range cases {
			if seenId[c.Id] {
				distinct = false
			}
			seenId[c.Id] = true
		}
		if !distinct {
			for i, c := range cases {
				c.Id = i
			}
		}
	} else {
		perCase := 12
		var cur [9]*c10Case
		var curOpaque [9]*c10Case
		add := func(st int, s c10Step, opaque bool) {
			slot := &cur[st]
			mode := 0
			if opaque {
				slot = &curOpaque[st]
				mode = 1
			}
			if *slot == nil || len((*slot).Ops) >= perCase {
				*slot = &c10Case{Id: len(cases), Mode: mode}
				cases = append(cases, *slot)
			}
			s.St = st
			(*slot).Ops = append((*slot).Ops, s)
		}
		for _, w := range c10Witnesses() {
			w := w
			w.Id = len(cases)
			cases = append(cases, &w)
		}
		g := &c10Gen{hist: hist}
		depth := 3
		if env.thorough() {
			depth = 4
		}
		g.enumerate(depth)
		g.tokenItems()
		g.sdpItems()
		g.tokenTimeItems()
		sample := newVrng(env.seed, 77)
		for _, it := range g.items {
			home := map[int]bool{}
			for _, st := range it.home {
				home[st] = true
			}
			for st := 0; st < 6; st++ {
				// every shape in its home states; elsewhere a seeded sample (thorough: everywhere)
				if home[st] || env.thorough() || sample.chance(4) {
					add(st, c10Step{K: "doc", Doc: it.doc, Class: it.class}, false)
					hist["shape_steps"]++
				}
			}
			// the state without the control permission: the valid messages and what names it as home
			if home[8] || (strings.HasPrefix(it.class, "valid/") && !strings.HasPrefix(it.class, "valid/hello")) {
				add(8, c10Step{K: "doc", Doc: it.doc, Class: it.class}, false)
				hist["shape_steps"]++
			}
		}
		for _, it := range c10RawItems(newVrng(env.seed, 78), env.thorough()) {
			for _, st := range it.home {
				if it.kind == "doc" {
					add(st, c10Step{K: "doc", Doc: it.doc, Class: it.class}, false)
				} else {
					add(st, c10Step{K: it.kind, Raw: c10B64(it.data), Class: it.class}, it.kind == "opaque")
				}
				hist["raw_steps"]++
			}
		}
		nr := 300
		if env.thorough() {
			nr = 6000
		}
		for i := 0; i < nr; i++ {
			it, st := c10RandomItem(newVrng(env.seed, uint64(1000+i)))
			add(st, c10Step{K: "doc", Doc: it.doc, Class: it.class}, false)
			hist["random_steps"]++
		}
		// seeded protocol 2.0 hellos before hello: good tokens and mutations of good tokens
		nt := 60
		if env.thorough() {
			nt = 1200
		}
		for i := 0; i < nt; i++ {
			it := c10RandomTokenItem(newVrng(env.seed, uint64(500000+i)))
			add(0, c10Step{K: "doc", Doc: it.doc, Class: it.class}, false)
			hist["random_token_steps"]++
		}
	}
	if env.replay == "" {
		// the resume cases spread over the list, so that every child (one hub each) runs one late
		rc := c10ResumeCases()
		n := len(cases)
		var mixed []*c10Case
		next := 0
		for i, c := range cases {
			mixed = append(mixed, c)
			if next < len(rc) && i+1 == (next+1)*n/len(rc) {
				r := rc[next]
				mixed = append(mixed, &r)
				next++
			}
		}
		for i, c := range mixed {
			c.Id = i
		}
		cases = mixed
		hist["resume_cases"] = len(rc)
	}
	for _, c := range cases {
		c.Fixed = fixed
	}
	parallel := 6
	deaths := c10RunAll(t, env, cases, parallel)

	// translator self-test: the schemas of the running package are the generated ones
	var rows []string
	seen := map[string]bool{}
	var addSchema func(t reflect.Type)
	addSchema = func(t reflect.Type) {
		if seen[t.Name()] {
			return
		}
		seen[t.Name()] = true
		rows = append(rows, fmt.Sprintf("(%d%%N, schema_%s, %s)", len(rows), t.Name(), c11CoqSchema(c10OwnFields(t))))
		for i := 0; i < t.NumField(); i++ {
			if st, ok := c10StructOf(t.Field(i).Type); ok && t.Field(i).IsExported() {
				addSchema(st)
			}
		}
	}
	addSchema(reflect.TypeOf(ClientMessage{}))
	for _, x := range []interface{}{HelloV2AuthParams{}, FederationAuthParams{}, ClientTypeInternalAuthParams{}, MessageClientMessageData{}} {
		addSchema(reflect.TypeOf(x))
	}
	sink.extraFile("schema", "From Coq Require Import List ZArith NArith String.\nFrom Verif Require Import gen.Schema corr.Run_C10.\nImport ListNotations.\nOpen Scope string_scope.\n"+
		"Definition result := Eval vm_compute in schema_mismatches "+coqList(rows)+".\nPrint result.\n")
	sink.extraFile("limit", fmt.Sprintf("From Coq Require Import List ZArith NArith.\nFrom Verif Require Import gen.Params.\nImport ListNotations.\nOpen Scope Z_scope.\n"+
		"Definition result := Eval vm_compute in (if Z.eqb c10_maxMessageSize %d then [] else [(0%%N, 4%%N, 0%%N)]).\nPrint result.\n", maxMessageSize))

	for _, c := range cases {
		var key []string
		nontrivial := false
		done := 0
		for i := range c.Ops {
			o := &c.Ops[i]
			if !o.Done {
				continue
			}
			done++
			sink.count(fmt.Sprintf("state/%d", o.St))
			sink.count("input/" + o.K)
			cls := o.Class
			if i := strings.Index(cls, "/"); i >= 0 {
				cls = cls[:i]
			}
			sink.count("class/" + cls)
			switch {
			case !o.Alive:
				sink.count("obs/process-died")
			case len(o.Replies) == 0:
				sink.count("obs/no-reply")
			case len(o.Replies) == 1 && strings.HasPrefix(o.Replies[0], "(RError"):
				sink.count("obs/one-error")
				f := strings.Fields(o.Replies[0])
				sink.count("error/" + strings.Trim(f[1], `"`))
			default:
				sink.count("obs/other-replies")
			}
			if o.K == "bad" && !(len(o.Replies) == 1 && strings.HasPrefix(o.Replies[0], `(RError "invalid_format"`)) {
				sink.count("obs/not-json-but-not-refused")
			}
			if len(o.By) > 0 {
				sink.count("obs/bystander-received")
			}
			if !o.DSame {
				sink.count("obs/digest-changed")
				nontrivial = true
			}
			if o.Closed {
				sink.count("obs/connection-closed")
			}
			if o.Off != 0 {
				sink.count("obs/stored-for-session-without-connection")
			}
			if o.Alive && !o.Live {
				sink.count("obs/hub-blocked")
			}
			if o.Api != 0 {
				sink.count(fmt.Sprintf("obs/dialout-request-ended-%d", o.Api))
			}
			if !strings.HasPrefix(o.Class, "d0") && !strings.HasPrefix(o.Class, "valid") {
				nontrivial = true
			}
			key = append(key, fmt.Sprintf("%d|%s|%v|%v|%v", o.St, o.Class, o.Replies, o.By, o.DSame))
		}
		if done == 0 {
			continue
		}
		k := strings.Join(key, ";")
		if len(k) > 400 {
			k = k[:400] + fmt.Sprint(len(k))
		}
		sink.add(c.coq(fixDialout, fixLabel), c, nontrivial, k)
	}
	for k, v := range hist {
		sink.stats.Histogram["gen/"+k] = v
	}
	sink.stats.Histogram["child_deaths"] = deaths
	sink.stats.Histogram["child_hubs_blocked"] = c10Blocked
	sink.stats.Histogram["tree_has_fix_01_dialout"], sink.stats.Histogram["tree_has_fix_02_label"] = 0, 0
	if fixDialout {
		sink.stats.Histogram["tree_has_fix_01_dialout"] = 1
	}
	if fixLabel {
		sink.stats.Histogram["tree_has_fix_02_label"] = 1
	}
	sink.stats.Notes = append(sink.stats.Notes, "one case = up to 12 independent steps (state, frame, observation); evaluations counts cases, the histogram counts steps",
		"states: 0 no hello yet, 1 authenticated client, 2 client in the bystander's room, 3 internal client in that room, 4 internal client with a pending dialout, 5 client in the room on a resumed session, 8 client in the room whose permissions do not include control; in every hub the room has a bystander (connected) and a member whose connection was interrupted (messages to it are stored for the resume)")
	sink.close("frames sent by real websocket clients to a real Hub in child processes, per session state: shape enumeration over the schema of ClientMessage read by reflection (document / member / sub-member positions x absent, null, wrong kinds, boundary values), repeated names, nesting limit, media payloads, hello parameters, URLs, the pending dialout id on every internal message, chat / arbitrary payloads to a session without connection (by session id, room, user, call); raw frames (truncations, junk, invalid UTF-8, size limit and limit+1, binary, empty); a seeded mutation stream; non-trivial = beyond the valid messages and whole-document shapes, or with a state change; distinct = distinct (state, class, observation) sequences")
}
