//go:build verif

package signaling

import (
	"encoding/json"
	"fmt"
	"strings"
)

// ---- C12: shapes of the messages a hostile federation peer sends ---------------
//
// A shape is the replayable description of one ServerMessage document: type
// tag, id class and, for every pointer / slice member, whether it is present
// and (where the code looks into it) the class of its content.  The same shape
// is printed as a Coq term (model.Federation.server_msg).

type c12Hello struct {
	Sid    bool `json:"sid"`
	Resume bool `json:"resume"`
	Server bool `json:"server,omitempty"`
}

type c12SR struct {
	Sender    bool `json:"s,omitempty"`
	Recipient bool `json:"r,omitempty"`
}

// Entries of update.users / update.changed are numbers so that cases stay compact
// and replayable:
//
//	0 null, 1 {}, 2 {"sessionId":1}, 3 {"sessionId":"s5"}        (the four original classes)
//	100 + 25*up + 5*lo + act                                     (member-level variants)
//
// up = member "sessionId", lo = member "sessionid": 0 missing, 1 a number, 2 null,
// 3 the session id the remote gave the federated session in its hello, 4 another string;
// act = actor members: 0 none, 1 actorType "users" + actorId, 2 actorType
// "federated_users" + actorId of a user of the local server, 3 actorId not a string,
// 4 actorType not a string.  See c12UEntry.
type c12Upd struct {
	Changed []c12Ent `json:"changed,omitempty"`
	Users   []c12Ent `json:"users,omitempty"`
}

// in replay files the original classes stay numbers, the variants are spelled out:
// "sessionId=<class> sessionid=<class> actor=<class>"
type c12Ent int

var c12SidNames = []string{"-", "number", "null", "own", "string"}
var c12ActNames = []string{"-", "user", "fedlocal", "badid", "badtype"}

func (e c12Ent) MarshalJSON() ([]byte, error) {
	if e < 100 {
		return json.Marshal(int(e))
	}
	_, up, lo, act := c12UEntry(e)
	return json.Marshal(fmt.Sprintf("sessionId=%s sessionid=%s actor=%s", c12SidNames[up], c12SidNames[lo], c12ActNames[act]))
}

func (e *c12Ent) UnmarshalJSON(b []byte) error {
	var n int
	if json.Unmarshal(b, &n) == nil {
		*e = c12Ent(n)
		return nil
	}
	var s string
	if err := json.Unmarshal(b, &s); err != nil {
		return err
	}
	idx := func(names []string, v string) int {
		for i, n := range names {
			if n == v {
				return i
			}
		}
		return 0
	}
	var up, lo, act int
	for _, f := range strings.Fields(s) {
		kv := strings.SplitN(f, "=", 2)
		if len(kv) != 2 {
			continue
		}
		switch kv[0] {
		case "sessionId":
			up = idx(c12SidNames, kv[1])
		case "sessionid":
			lo = idx(c12SidNames, kv[1])
		case "actor":
			act = idx(c12ActNames, kv[1])
		}
	}
	*e = c12UE(up, lo, act)
	return nil
}

// c12UE builds the number of an entry from its parts
func c12UE(up, lo, act int) c12Ent { return c12Ent(100 + 25*(up%5) + 5*(lo%5) + act%5) }

// decoded entry: null, or (up, lo, act)
func c12UEntry(e c12Ent) (null bool, up, lo, act int) {
	k := int(e)
	switch {
	case k >= 100 && k < 225:
		k -= 100
		return false, k / 25, (k / 5) % 5, k % 5
	case k == 0:
		return true, 0, 0, 0
	case k == 1:
		return false, 0, 0, 0
	case k == 2:
		return false, 1, 0, 0
	}
	return false, 4, 0, 0
}

// all classes the model distinguishes for the two id members (as numbers 0..4; 1 and 2
// are both "not a string")
var c12SidClasses = []int{0, 1, 2, 3, 4}

type c12Event struct {
	Target    string  `json:"target"` // participants room roomlist other
	Type      string  `json:"type"`   // update flags message join leave invite disinvite other
	Join      []int   `json:"join,omitempty"` // -1 null, n >= 0 session id n (0 = the federated session)
	Leave     []int   `json:"leave,omitempty"`
	Change    []int   `json:"change,omitempty"`
	SwitchTo  bool    `json:"switchto,omitempty"`
	Resumed   bool    `json:"resumed,omitempty"`
	Invite    bool    `json:"invite,omitempty"`
	Disinvite bool    `json:"disinvite,omitempty"`
	Update    *c12Upd `json:"update,omitempty"`
	Flags     bool    `json:"flags,omitempty"`
	Message   bool    `json:"message,omitempty"`
}

type c12Shape struct {
	Tag   string    `json:"t"`            // welcome hello error bye room message control event transient internal dialout other
	Id    string    `json:"id,omitempty"` // cur empty other
	Err   string    `json:"err,omitempty"`  // "" absent; nss aj oc
	Wel   string    `json:"wel,omitempty"`  // "" absent; fed nofed
	Hel   *c12Hello `json:"hel,omitempty"`
	Bye   bool      `json:"bye,omitempty"`
	Room  string    `json:"room,omitempty"` // "" absent; empty remote other
	Msg   *c12SR    `json:"msg,omitempty"`
	Ctl   *c12SR    `json:"ctl,omitempty"`
	Ev    *c12Event `json:"ev,omitempty"`
	Tr    bool      `json:"tr,omitempty"`
	Int   bool      `json:"int,omitempty"`
	Dial  bool      `json:"dial,omitempty"`
	Empty bool      `json:"emptytype,omitempty"` // tag other: "type" is "" instead of "foo"
	// content variant of the raw (json.RawMessage) members the code decodes on its own: data of
	// message / control (answer / offer, forceMute), details of error (already_joined). The code
	// guards all of them, the model does not distinguish them. 0 default; see c12RawData / c12ErrDetails
	V int `json:"v,omitempty"`
}

const c12Variants = 8

// data member of message / control; ok=false: member missing
func c12RawData(v int, control bool, ctx *c12Ctx) (interface{}, bool) {
	own := c12SidStr(0, ctx)
	switch v % c12Variants {
	case 1:
		if control {
			return map[string]interface{}{"action": "forceMute", "peerId": own}, true
		}
		return map[string]interface{}{"type": "offer", "from": own, "to": own, "roomType": "video", "payload": map[string]interface{}{"sdp": "x"}}, true
	case 2:
		if control {
			return map[string]interface{}{"action": "forceMute", "peerId": 5}, true
		}
		return map[string]interface{}{"type": "answer", "from": 5}, true
	case 3:
		if control {
			return map[string]interface{}{"action": "forceMute"}, true
		}
		return map[string]interface{}{"type": "offer", "payload": nil}, true
	case 4:
		return []int{1, 2}, true
	case 5:
		return "str", true
	case 6:
		return nil, false
	case 7:
		return nil, true
	}
	return map[string]interface{}{"type": "x"}, true
}

// details member of error; ok=false: member missing
func c12ErrDetails(v int, ctx *c12Ctx) (interface{}, bool) {
	switch v % c12Variants {
	case 1:
		return map[string]interface{}{}, true
	case 2:
		return map[string]interface{}{"room": nil}, true
	case 3:
		return map[string]interface{}{"room": map[string]interface{}{}}, true
	case 4:
		return "str", true
	case 5:
		return []int{1}, true
	case 6:
		return nil, false
	case 7:
		return nil, true
	}
	return map[string]interface{}{"room": map[string]interface{}{"roomid": ctx.remoteRoom}}, true
}

var c12Tags = []string{"welcome", "hello", "error", "bye", "room", "message", "control", "event", "transient", "internal", "dialout", "other"}
var c12TagCoq = map[string]string{"welcome": "TWelcome", "hello": "THello", "error": "TError", "bye": "TBye", "room": "TRoom",
	"message": "TMessage", "control": "TControl", "event": "TEvent", "transient": "TTransient", "internal": "TInternal",
	"dialout": "TDialout", "other": "TOther"}
var c12Targets = []string{"participants", "room", "roomlist", "other"}
var c12TargetCoq = map[string]string{"participants": "GParticipants", "room": "GRoom", "roomlist": "GRoomlist", "other": "GOther"}
var c12Types = []string{"update", "flags", "message", "join", "leave", "invite", "disinvite", "other"}
var c12TypeCoq = map[string]string{"update": "YUpdate", "flags": "YFlags", "message": "YMessage", "join": "YJoin", "leave": "YLeave",
	"invite": "YInvite", "disinvite": "YDisinvite", "other": "YOther"}
var c12ErrCoq = map[string]string{"nss": "ENoSuchSession", "aj": "EAlreadyJoined", "oc": "EOtherCode"}
var c12ErrCode = map[string]string{"nss": "no_such_session", "aj": "already_joined", "oc": "some_error"}
var c12RoomCoq = map[string]string{"empty": "RidEmpty", "remote": "RidRemote", "other": "RidOther"}

// members of ServerMessage / EventServerMessage the shapes switch on and off
var c12Members = []string{"error", "welcome", "hello", "bye", "room", "message", "control", "event", "transient", "internal", "dialout"}
var c12EvMembers = []string{"join", "leave", "change", "switchto", "resumed", "invite", "disinvite", "update", "flags", "message"}

// context needed to turn a shape into a document
type c12Ctx struct {
	helloId    string // id of the last hello request the local side sent ("" = none yet)
	remoteRoom string
	sidOn      bool // the hello answers of this case carry a session id
	localCloud string // cloud id suffix of users of the local server ("" = unknown)
}

const (
	c12RemoteSid    = "remote-sid"
	c12RemoteResume = "remote-resume"
)

func c12SidStr(n int, ctx *c12Ctx) string {
	if n == 0 {
		if ctx.sidOn {
			return c12RemoteSid
		}
		return ""
	}
	return fmt.Sprintf("s%d", n)
}

func c12Entries(l []int, ctx *c12Ctx) []interface{} {
	out := []interface{}{}
	for _, n := range l {
		if n < 0 {
			out = append(out, nil)
		} else {
			out = append(out, map[string]interface{}{"sessionid": c12SidStr(n, ctx), "userid": "u"})
		}
	}
	return out
}

func c12SidMember(class int, other string, ctx *c12Ctx) (interface{}, bool) {
	switch class {
	case 1:
		return 1, true
	case 2:
		return nil, true
	case 3:
		return c12SidStr(0, ctx), true
	case 4:
		return other, true
	}
	return nil, false
}

func c12Users(l []c12Ent, ctx *c12Ctx) []interface{} {
	out := []interface{}{}
	for _, k := range l {
		null, up, lo, act := c12UEntry(k)
		if null {
			out = append(out, nil)
			continue
		}
		e := map[string]interface{}{}
		if k != 1 {
			e["inCall"] = 1
		}
		if v, ok := c12SidMember(up, "s5", ctx); ok {
			e["sessionId"] = v
		}
		if v, ok := c12SidMember(lo, "s6", ctx); ok {
			e["sessionid"] = v
		}
		switch act {
		case 1:
			e["actorType"], e["actorId"] = "users", "alice"
		case 2:
			e["actorType"], e["actorId"] = "federated_users", "bob@"+ctx.localCloud
		case 3:
			e["actorType"], e["actorId"] = "users", 7
		case 4:
			e["actorType"], e["actorId"] = []interface{}{"users"}, "alice"
		}
		out = append(out, e)
	}
	return out
}

func c12SRDoc(s *c12SR, v int, control bool, ctx *c12Ctx) map[string]interface{} {
	d := map[string]interface{}{}
	if data, ok := c12RawData(v, control, ctx); ok {
		d["data"] = data
	}
	if s.Sender {
		d["sender"] = map[string]interface{}{"type": "session", "sessionid": c12RemoteSid}
	}
	if s.Recipient {
		d["recipient"] = map[string]interface{}{"type": "session", "sessionid": c12RemoteSid}
	}
	return d
}

func (s *c12Shape) doc(ctx *c12Ctx) []byte {
	d := map[string]interface{}{}
	switch s.Tag {
	case "other":
		if s.Empty {
			d["type"] = ""
		} else {
			d["type"] = "foo"
		}
	default:
		d["type"] = s.Tag
	}
	switch s.Id {
	case "cur":
		if ctx.helloId != "" {
			d["id"] = ctx.helloId
		} else {
			d["id"] = "no-hello-yet"
		}
	case "other":
		d["id"] = "x-other"
	}
	if s.Err != "" {
		e := map[string]interface{}{"code": c12ErrCode[s.Err], "message": "m"}
		if det, ok := c12ErrDetails(s.V, ctx); ok {
			e["details"] = det
		}
		d["error"] = e
	}
	switch s.Wel {
	case "fed":
		d["welcome"] = map[string]interface{}{"version": "1.0", "features": []string{"audio-video-permissions", "federation"}}
	case "nofed":
		d["welcome"] = map[string]interface{}{"version": "1.0", "features": []string{"audio-video-permissions"}}
	}
	if s.Hel != nil {
		h := map[string]interface{}{"version": "2.0", "userid": "u", "sessionid": "", "resumeid": ""}
		if s.Hel.Sid {
			h["sessionid"] = c12RemoteSid
		}
		if s.Hel.Resume {
			h["resumeid"] = c12RemoteResume
		}
		if s.Hel.Server {
			h["server"] = map[string]interface{}{"version": "1.0", "features": []string{"federation"}}
		}
		d["hello"] = h
	}
	if s.Bye {
		d["bye"] = map[string]interface{}{"reason": "r"}
	}
	switch s.Room {
	case "empty":
		d["room"] = map[string]interface{}{"roomid": ""}
	case "remote":
		d["room"] = map[string]interface{}{"roomid": ctx.remoteRoom, "properties": map[string]interface{}{"p": 1}}
	case "other":
		d["room"] = map[string]interface{}{"roomid": "some-other-room"}
	}
	if s.Msg != nil {
		d["message"] = c12SRDoc(s.Msg, s.V, false, ctx)
	}
	if s.Ctl != nil {
		d["control"] = c12SRDoc(s.Ctl, s.V, true, ctx)
	}
	if e := s.Ev; e != nil {
		ev := map[string]interface{}{}
		if e.Target == "other" {
			ev["target"] = "foo"
		} else {
			ev["target"] = e.Target
		}
		if e.Type == "other" {
			ev["type"] = "foo"
		} else {
			ev["type"] = e.Type
		}
		if len(e.Join) > 0 {
			ev["join"] = c12Entries(e.Join, ctx)
		}
		if len(e.Leave) > 0 {
			var l []string
			for _, n := range e.Leave {
				l = append(l, c12SidStr(n, ctx))
			}
			ev["leave"] = l
		}
		if len(e.Change) > 0 {
			ev["change"] = c12Entries(e.Change, ctx)
		}
		if e.SwitchTo {
			ev["switchto"] = map[string]interface{}{"roomid": "r2"}
		}
		if e.Resumed {
			ev["resumed"] = true
		}
		if e.Invite {
			ev["invite"] = map[string]interface{}{"roomid": ctx.remoteRoom}
		}
		if e.Disinvite {
			ev["disinvite"] = map[string]interface{}{"roomid": ctx.remoteRoom, "reason": "disinvited"}
		}
		if u := e.Update; u != nil {
			ud := map[string]interface{}{"roomid": ctx.remoteRoom}
			if len(u.Changed) > 0 {
				ud["changed"] = c12Users(u.Changed, ctx)
			}
			if len(u.Users) > 0 {
				ud["users"] = c12Users(u.Users, ctx)
			}
			ev["update"] = ud
		}
		if e.Flags {
			ev["flags"] = map[string]interface{}{"roomid": ctx.remoteRoom, "sessionid": c12RemoteSid, "flags": 1}
		}
		if e.Message {
			ev["message"] = map[string]interface{}{"roomid": ctx.remoteRoom, "data": map[string]interface{}{"type": "chat"}}
		}
		d["event"] = ev
	}
	if s.Tr {
		d["transient"] = map[string]interface{}{"type": "set", "key": "k", "value": 1}
	}
	if s.Int {
		d["internal"] = map[string]interface{}{"type": "x"}
	}
	if s.Dial {
		d["dialout"] = map[string]interface{}{"roomid": "r", "backend": "b"}
	}
	b, _ := json.Marshal(d)
	return b
}

// ---- Coq printing ----------------------------------------------------------------

func c12Opt(present bool, v string) string {
	if present {
		return "(Some " + v + ")"
	}
	return "None"
}

func c12JList(l []int) string {
	var it []string
	for _, n := range l {
		if n < 0 {
			it = append(it, "JNil")
		} else {
			it = append(it, fmt.Sprintf("JSid %d", n))
		}
	}
	return coqList(it)
}

func c12NList(l []int) string {
	var it []string
	for _, n := range l {
		it = append(it, fmt.Sprintf("%d%%N", n))
	}
	return coqList(it)
}

func c12UList(l []c12Ent) string {
	sidv := []string{"VNone", "VBad", "VBad", "VOwn", "VStr"}
	actor := []string{"ANone", "AUser", "AFedLocal", "ABadId", "ABadType"}
	var it []string
	for _, k := range l {
		switch null, up, lo, act := c12UEntry(k); {
		case null:
			it = append(it, "UNil")
		case k == 1:
			it = append(it, "UNoSid")
		case k == 2:
			it = append(it, "UBadSid")
		case k < 100:
			it = append(it, "USid")
		default:
			it = append(it, fmt.Sprintf("UEnt %s %s %s", sidv[up], sidv[lo], actor[act]))
		}
	}
	return coqList(it)
}

func c12SRCoq(s *c12SR) string {
	if s == nil {
		return "None"
	}
	return fmt.Sprintf("(Some (mkSR %s %s))", coqBool(s.Sender), coqBool(s.Recipient))
}

func (s *c12Shape) coq() string {
	id := map[string]string{"cur": "IdCur", "": "IdEmpty", "empty": "IdEmpty", "other": "IdOther"}[s.Id]
	ev := "None"
	if e := s.Ev; e != nil {
		upd := "None"
		if e.Update != nil {
			upd = fmt.Sprintf("(Some (mkU %s %s))", c12UList(e.Update.Changed), c12UList(e.Update.Users))
		}
		ev = fmt.Sprintf("(Some (mkE %s %s %s %s %s %s %s %s %s %s %s %s))", c12TargetCoq[e.Target], c12TypeCoq[e.Type],
			c12JList(e.Join), c12NList(e.Leave), c12JList(e.Change), coqBool(e.SwitchTo), coqBool(e.Resumed),
			coqBool(e.Invite), coqBool(e.Disinvite), upd, coqBool(e.Flags), coqBool(e.Message))
	}
	hel := "None"
	if s.Hel != nil {
		hel = fmt.Sprintf("(Some (mkH %s %s %s))", coqBool(s.Hel.Sid), coqBool(s.Hel.Resume), coqBool(s.Hel.Server))
	}
	return fmt.Sprintf("(mkM %s %s %s %s %s %s %s %s %s %s %s %s %s)", c12TagCoq[s.Tag], id,
		c12Opt(s.Err != "", c12ErrCoq[s.Err]), c12Opt(s.Wel != "", coqBool(s.Wel == "fed")), hel, coqBool(s.Bye),
		c12Opt(s.Room != "", c12RoomCoq[s.Room]), c12SRCoq(s.Msg), c12SRCoq(s.Ctl), ev,
		coqBool(s.Tr), coqBool(s.Int), coqBool(s.Dial))
}

func (s *c12Shape) key() string {
	b, _ := json.Marshal(s)
	return string(b)
}

// a member switched on with harmless content
func (s *c12Shape) with(member string) {
	switch member {
	case "error":
		s.Err = "oc"
	case "welcome":
		s.Wel = "fed"
	case "hello":
		s.Hel = &c12Hello{Sid: true, Resume: true}
	case "bye":
		s.Bye = true
	case "room":
		s.Room = "remote"
	case "message":
		s.Msg = &c12SR{Sender: true}
	case "control":
		s.Ctl = &c12SR{Sender: true}
	case "event":
		s.Ev = &c12Event{Target: "other", Type: "other"}
	case "transient":
		s.Tr = true
	case "internal":
		s.Int = true
	case "dialout":
		s.Dial = true
	}
}

func (e *c12Event) with(member string) {
	switch member {
	case "join":
		e.Join = []int{1}
	case "leave":
		e.Leave = []int{1}
	case "change":
		e.Change = []int{1}
	case "switchto":
		e.SwitchTo = true
	case "resumed":
		e.Resumed = true
	case "invite":
		e.Invite = true
	case "disinvite":
		e.Disinvite = true
	case "update":
		e.Update = &c12Upd{Users: []c12Ent{3}}
	case "flags":
		e.Flags = true
	case "message":
		e.Message = true
	}
}

// documents that do not decode into a ServerMessage (truncated / type-confused);
// index-addressed so that cases stay replayable
var c12Junk = []string{
	`{"type":"welcome"`,
	``,
	`[]`,
	`"hello"`,
	`{"type":5}`,
	`{"type":"welcome","welcome":"yes"}`,
	`{"type":"hello","hello":[1,2]}`,
	`{"type":"event","event":{"target":"room","type":"join","join":{"a":1}}}`,
	`{"type":"event","event":{"target":"participants","type":"update","update":{"users":[1]}}}`,
	`{"type":"error","error":{"code":7}}`,
	`{"id":{},"type":"room"}`,
	`{"type":"room","room":{"roomid":5}}`,
	`{"type":"event","event":{"target":"room","type":"x","resumed":"x"}}`,
	`{"type":"event","event":"room"}`,
	`{"type":"message","message":{"sender":5}}`,
	`{"type":"control","control":{"recipient":[]}}`,
	`{"type":"hello","hello":{"sessionid":{}}}`,
	`{"type":"event","event":{"target":"room","type":"leave","leave":[1,2]}}`,
	`{"type":"event","event":{"target":"room","type":"join","join":[5]}}`,
	`{"type":"welcome","welcome":{"features":"federation"}}`,
	`{"type":"welcome","welcome":{"version":"1.0","features":["federation"]}`,
	`{"type":"event","event":{"target":"participants","type":"flags","flags":{"flags":"x"}}}`,
	"\x00\x01\x02",
	`{"type":"transient","transient":7}`,
}

func c12JunkName(n int) string {
	s := c12Junk[n%len(c12Junk)]
	if len(s) > 40 {
		s = s[:40]
	}
	return strings.ReplaceAll(s, "\x00", "\\0")
}
