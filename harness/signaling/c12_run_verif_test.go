//go:build verif

package signaling

import (
	"context"
	"encoding/json"
	"fmt"
	"net"
	"net/http"
	"net/http/httptest"
	"sort"
	"strings"
	"sync"
	"testing"
	"time"

	"github.com/gorilla/websocket"
)

// ---- C12: ops, cases, observations ------------------------------------------------

type c12Op struct {
	K   string    `json:"k"` // recv recvfail junk drop accept refuse csend cleave expire
	M   *c12Shape `json:"m,omitempty"`
	N   int       `json:"n,omitempty"`   // junk: index; drop: how (0 close frame, 1 tcp close, 2 reset, 3 oversized frame)
	Bin bool      `json:"bin,omitempty"` // junk: as binary frame
}

type c12State struct {
	Connected, Closed, Hello, HelloPending, Resume, Reconnecting bool
	Pending                                                      int
	Delay                                                        int64
	HasMsg, Change, RemoteSid, CloseOnLeave                      bool
	Seen                                                         []int
}

type c12Obs struct {
	Alive      bool     `json:"alive"`
	Responsive bool     `json:"responsive"`
	Bystander  bool     `json:"bystander"`
	Client     []string `json:"client"` // Coq terms of cmsg
	Remote     []string `json:"remote"` // Coq terms of rmsg
	ConnClosed bool     `json:"connclosed"`
	State      c12State `json:"state"`
	Note       string   `json:"note,omitempty"`
}

type c12Case struct {
	Id      int      `json:"id"`
	Mode    int      `json:"mode"` // 0 compare every step, 1 coarse
	Chg     bool     `json:"chg"`  // local room id differs from the remote one
	Ops     []c12Op  `json:"ops"`
	Stage   string   `json:"stage,omitempty"`
	Finding string   `json:"finding,omitempty"`
	Obs     []c12Obs `json:"obs,omitempty"`
	Panic   string   `json:"panic,omitempty"`
}

func (o *c12Op) coq() string {
	switch o.K {
	case "recv":
		return "ORecv " + o.M.coq()
	case "recvfail":
		return "ORecvFail " + o.M.coq()
	case "junk":
		return "OJunk"
	case "drop":
		return "ODrop"
	case "accept":
		return "OAccept"
	case "refuse":
		return "ORefuse"
	case "csend":
		return "OClientSend"
	case "cleave", "expire":
		return "OClientLeave"
	}
	return "OJunk"
}

func (s *c12State) coq() string {
	var seen []string
	for _, n := range s.Seen {
		seen = append(seen, fmt.Sprintf("%d%%N", n))
	}
	return fmt.Sprintf("(mkF %s %s %s %s %s %s %d %d %s %s %s %s %s)", coqBool(s.Connected), coqBool(s.Closed), coqBool(s.Hello),
		coqBool(s.HelloPending), coqBool(s.Resume), coqBool(s.Reconnecting), s.Pending, s.Delay, coqBool(s.HasMsg),
		coqBool(s.Change), coqBool(s.RemoteSid), coqBool(s.CloseOnLeave), coqList(seen))
}

func (o *c12Obs) coq() string {
	return fmt.Sprintf("(mkO %s %s %s %s %s %s %s)", coqBool(o.Alive), coqBool(o.Responsive), coqBool(o.Bystander),
		coqList(o.Client), coqList(o.Remote), coqBool(o.ConnClosed), o.State.coq())
}

func (c *c12Case) coq() string {
	var tr []string
	for i := range c.Obs {
		if i >= len(c.Ops) {
			break
		}
		tr = append(tr, fmt.Sprintf("(%s, %s)", c.Ops[i].coq(), c.Obs[i].coq()))
	}
	return fmt.Sprintf("mkcase %d %d %s %s", c.Id, c.Mode, coqBool(c.Chg), coqList(tr))
}

// ---- the hostile peer: a websocket server playing the remote signaling server -----

type c12Dial struct {
	path   string
	decide chan bool // true: accept (upgrade), false: refuse
	conn   chan *websocket.Conn
}

type c12Hostile struct {
	server *httptest.Server
	dials  chan *c12Dial
}

func newC12Hostile() *c12Hostile {
	h := &c12Hostile{dials: make(chan *c12Dial, 64)}
	up := websocket.Upgrader{}
	h.server = httptest.NewServer(http.HandlerFunc(func(w http.ResponseWriter, r *http.Request) {
		d := &c12Dial{path: r.URL.Path, decide: make(chan bool, 1), conn: make(chan *websocket.Conn, 1)}
		h.dials <- d
		var ok bool
		select {
		case ok = <-d.decide:
		case <-time.After(8 * time.Second):
		}
		if !ok {
			http.Error(w, "refused", http.StatusServiceUnavailable)
			d.conn <- nil
			return
		}
		hd := http.Header{}
		hd.Set("X-Spreed-Signaling-Features", "audio-video-permissions, federation")
		c, err := up.Upgrade(w, r, hd)
		if err != nil {
			d.conn <- nil
			return
		}
		d.conn <- c
	}))
	return h
}

// one accepted federation connection, seen from the hostile side
type c12Frame struct {
	kind string // text pong closed
	data []byte
}

type c12Conn struct {
	ws     *websocket.Conn
	frames chan c12Frame
	wmu    sync.Mutex
}

func newC12Conn(ws *websocket.Conn) *c12Conn {
	c := &c12Conn{ws: ws, frames: make(chan c12Frame, 256)}
	ws.SetPongHandler(func(s string) error {
		c.frames <- c12Frame{kind: "pong", data: []byte(s)}
		return nil
	})
	go func() {
		for {
			mt, data, err := ws.ReadMessage()
			if err != nil {
				c.frames <- c12Frame{kind: "closed", data: []byte(err.Error())}
				return
			}
			if mt == websocket.TextMessage {
				c.frames <- c12Frame{kind: "text", data: data}
			}
		}
	}()
	return c
}

func c12RawFrame(opcode byte, payload []byte) []byte {
	b := []byte{0x80 | opcode}
	n := len(payload)
	switch {
	case n < 126:
		b = append(b, byte(n))
	case n < 65536:
		b = append(b, 126, byte(n>>8), byte(n))
	default:
		b = append(b, 127, 0, 0, 0, 0, byte(n>>24), byte(n>>16), byte(n>>8), byte(n))
	}
	return append(b, payload...)
}

// ---- the local side: a light websocket client of the hub under test ---------------

type c12Client struct {
	ws     *websocket.Conn
	frames chan c12Frame
	wmu    sync.Mutex
	pubId  string
	closed bool
}

func newC12Client(url string) (*c12Client, error) {
	ws, _, err := websocket.DefaultDialer.Dial(getWebsocketUrl(url), nil)
	if err != nil {
		return nil, err
	}
	c := &c12Client{ws: ws, frames: make(chan c12Frame, 1024)}
	go func() {
		for {
			mt, data, err := ws.ReadMessage()
			if err != nil {
				c.frames <- c12Frame{kind: "closed", data: []byte(err.Error())}
				return
			}
			if mt == websocket.TextMessage {
				c.frames <- c12Frame{kind: "text", data: data}
			}
		}
	}()
	return c, nil
}

func (c *c12Client) send(v interface{}) error {
	c.wmu.Lock()
	defer c.wmu.Unlock()
	return c.ws.WriteJSON(v)
}

// next text message within d; nil on timeout / close
func (c *c12Client) next(d time.Duration) map[string]interface{} {
	select {
	case f := <-c.frames:
		if f.kind == "closed" {
			c.closed = true
			return nil
		}
		var m map[string]interface{}
		json.Unmarshal(f.data, &m)
		return m
	case <-time.After(d):
		return nil
	}
}

func (c *c12Client) hello(serverUrl, user string) error {
	if m := c.next(2 * time.Second); m == nil || m["type"] != "welcome" {
		return fmt.Errorf("no welcome: %v", m)
	}
	params, _ := json.Marshal(map[string]string{"userid": user})
	c.send(map[string]interface{}{"id": "h1", "type": "hello", "hello": map[string]interface{}{"version": "1.0",
		"auth": map[string]interface{}{"url": serverUrl, "params": json.RawMessage(params)}}})
	m := c.next(5 * time.Second)
	if m == nil || m["type"] != "hello" {
		return fmt.Errorf("no hello: %v", m)
	}
	c.pubId, _ = m["hello"].(map[string]interface{})["sessionid"].(string)
	return nil
}

// ---- one batch environment: hub, hostile peer, bystanders ----------------------------

type c12Env struct {
	t       *testing.T
	hub     *Hub
	server  *httptest.Server
	hostile *c12Hostile
	byA     *c12Client
	byB     *c12Client
	byRoom  *Room
	seq     int
	caseSeq int
	timeout time.Duration
}

func newC12Env(t *testing.T) *c12Env {
	hub, _, _, server := CreateHubForTest(t)
	e := &c12Env{t: t, hub: hub, server: server, hostile: newC12Hostile(), timeout: 2 * time.Second}
	var err error
	for i, p := range []**c12Client{&e.byA, &e.byB} {
		if *p, err = newC12Client(server.URL); err != nil {
			t.Fatal(err)
		}
		if err = (*p).hello(server.URL, fmt.Sprintf("bystander%d", i)); err != nil {
			t.Fatal(err)
		}
		(*p).send(map[string]interface{}{"id": "j", "type": "room", "room": map[string]interface{}{"roomid": "by-room", "sessionid": fmt.Sprintf("by-rs-%d", i)}})
	}
	// drain join traffic
	deadline := time.Now().Add(2 * time.Second)
	for time.Now().Before(deadline) {
		if e.byRoom = hub.getRoom("by-room"); e.byRoom != nil && len(e.roomIds()) == 2 {
			break
		}
		time.Sleep(time.Millisecond)
	}
	time.Sleep(20 * time.Millisecond)
	for _, c := range []*c12Client{e.byA, e.byB} {
		for len(c.frames) > 0 {
			<-c.frames
		}
	}
	return e
}

// bystander A sends a message to B; B must get exactly it, and the hub's view
// of the bystanders' room must still be {A, B}
func (e *c12Env) bystanderOk() bool {
	e.seq++
	n := e.seq
	e.byA.send(map[string]interface{}{"id": fmt.Sprintf("b%d", n), "type": "message", "message": map[string]interface{}{
		"recipient": map[string]interface{}{"type": "session", "sessionid": e.byB.pubId}, "data": map[string]interface{}{"n": n}}})
	deadline := time.Now().Add(e.timeout)
	for {
		m := e.byB.next(time.Until(deadline))
		if m == nil {
			return false
		}
		if m["type"] != "message" {
			continue // e.g. room events of the bystander room
		}
		mm, _ := m["message"].(map[string]interface{})
		snd, _ := mm["sender"].(map[string]interface{})
		data, _ := mm["data"].(map[string]interface{})
		if snd["sessionid"] != e.byA.pubId || data["n"] != float64(n) {
			return false
		}
		break
	}
	ids := e.roomIds()
	want := []string{e.byA.pubId, e.byB.pubId}
	sort.Strings(want)
	return len(ids) == 2 && ids[0] == want[0] && ids[1] == want[1] && e.hub.getRoom("by-room") == e.byRoom
}

func (e *c12Env) roomIds() []string {
	var ids []string
	e.byRoom.mu.RLock()
	for id := range e.byRoom.sessions {
		ids = append(ids, id)
	}
	e.byRoom.mu.RUnlock()
	sort.Strings(ids)
	return ids
}

func c12LockWithin(mu *sync.Mutex, d time.Duration) bool {
	deadline := time.Now().Add(d)
	for !mu.TryLock() {
		if time.Now().After(deadline) {
			return false
		}
		time.Sleep(100 * time.Microsecond)
	}
	return true
}

// state of the real FederationClient, read through its own locks; ok=false if a
// lock cannot be obtained (someone blocks while holding it)
func c12ReadState(fc *FederationClient, sess *ClientSession, d time.Duration) (st c12State, ok bool) {
	if fc == nil {
		return st, false
	}
	if !c12LockWithin(&fc.helloMu, d) {
		return st, false
	}
	defer fc.helloMu.Unlock()
	if !c12LockWithin(&fc.mu, d) {
		return st, false
	}
	defer fc.mu.Unlock()
	st.Connected = fc.conn != nil
	st.Closed = fc.closer.IsClosed()
	h := fc.hello.Load()
	st.Hello = h != nil
	st.RemoteSid = h != nil && h.SessionId != ""
	st.HelloPending = fc.helloMsgId != ""
	st.Resume = fc.resumeId != ""
	st.Reconnecting = fc.reconnecting
	st.Pending = len(fc.pendingMessages)
	st.Delay = int64(fc.reconnectDelay)
	st.HasMsg = fc.message.Load() != nil
	st.Change = fc.changeRoomId.Load()
	st.CloseOnLeave = fc.closeOnLeave.Load()
	sess.seenJoinedLock.Lock()
	for k := range sess.seenJoinedEvents {
		switch {
		case k == sess.PublicId() || k == "" || k == c12RemoteSid:
			st.Seen = append(st.Seen, 0)
		case strings.HasPrefix(k, "s"):
			n := 0
			fmt.Sscanf(k[1:], "%d", &n)
			st.Seen = append(st.Seen, n)
		default:
			st.Seen = append(st.Seen, 999999)
		}
	}
	sess.seenJoinedLock.Unlock()
	sort.Ints(st.Seen)
	return st, true
}

// ---- classification of what the two ends receive ------------------------------------

func c12ClientMsg(m map[string]interface{}, localId string) string {
	t, _ := m["type"].(string)
	switch t {
	case "error":
		e, ok := m["error"].(map[string]interface{})
		if !ok {
			return "CErr CNoError"
		}
		switch e["code"] {
		case "federation_unsupported":
			return "CErr CFedUnsupported"
		case "not_connected":
			return "CErr CNotConnected"
		case "no_such_session":
			return "CErr (CRemote ENoSuchSession)"
		case "already_joined":
			return "CErr (CRemote EAlreadyJoined)"
		case "some_error":
			return "CErr (CRemote EOtherCode)"
		}
		return "CFwd TOther (* unknown error code " + fmt.Sprint(e["code"]) + " *)"
	case "event":
		e, _ := m["event"].(map[string]interface{})
		if e != nil && e["target"] == "room" {
			switch e["type"] {
			case "federation_interrupted":
				return "CInterrupted"
			case "federation_resumed":
				return "CResumed " + coqBool(e["resumed"] == true)
			case "join":
				var ids []string
				l, _ := e["join"].([]interface{})
				for _, j := range l {
					jm, _ := j.(map[string]interface{})
					sid, _ := jm["sessionid"].(string)
					switch {
					case sid == localId || sid == "" || sid == c12RemoteSid:
						ids = append(ids, "0%N")
					case strings.HasPrefix(sid, "s"):
						n := 0
						fmt.Sscanf(sid[1:], "%d", &n)
						ids = append(ids, fmt.Sprintf("%d%%N", n))
					default:
						ids = append(ids, "999999%N")
					}
				}
				return "CJoin " + coqList(ids)
			}
		}
		return "CFwd TEvent"
	}
	if c, ok := c12TagCoq[t]; ok && t != "other" {
		return "CFwd " + c
	}
	return "CFwd TOther"
}

func c12RemoteMsg(data []byte) (string, string) {
	var m struct {
		Id    string `json:"id"`
		Type  string `json:"type"`
		Hello *struct {
			ResumeId string `json:"resumeid"`
		} `json:"hello"`
		Room *struct {
			RoomId string `json:"roomid"`
		} `json:"room"`
	}
	json.Unmarshal(data, &m)
	switch m.Type {
	case "hello":
		return "RHello " + coqBool(m.Hello != nil && m.Hello.ResumeId != ""), m.Id
	case "room":
		if m.Room != nil && m.Room.RoomId == "" {
			return "RLeave", ""
		}
		return "RRoom", ""
	case "bye":
		return "RBye", ""
	}
	return "RProxied", ""
}

// ---- running one case -------------------------------------------------------------------

type c12Runner struct {
	e       *c12Env
	c       *c12Case
	client  *c12Client
	sess    *ClientSession
	fc      *FederationClient
	conn    *c12Conn  // current hostile connection (nil: none)
	held    *c12Dial  // a dial of the local side waiting for accept / refuse
	ctx     c12Ctx
	path    string
	pingSeq int
	syncSeq int
	last    c12State
}

func (r *c12Runner) waitDial(d time.Duration) bool {
	if r.held != nil {
		return true
	}
	deadline := time.After(d)
	for {
		select {
		case dl := <-r.e.hostile.dials:
			if dl.path != r.path {
				dl.decide <- false // a late reconnect of an earlier case
				continue
			}
			r.held = dl
			return true
		case <-deadline:
			return false
		}
	}
}

func (r *c12Runner) accept() bool {
	if r.held == nil {
		return false
	}
	r.held.decide <- true
	var ws *websocket.Conn
	select {
	case ws = <-r.held.conn:
	case <-time.After(r.e.timeout):
	}
	r.held = nil
	if ws == nil {
		return false
	}
	r.conn = newC12Conn(ws)
	return true
}

// collect what the remote end received until the pong of a fresh ping (or close)
func (r *c12Runner) syncRemote(ob *c12Obs) {
	if r.conn == nil {
		return
	}
	r.pingSeq++
	tag := fmt.Sprintf("p%d", r.pingSeq)
	r.conn.wmu.Lock()
	r.conn.ws.WriteControl(websocket.PingMessage, []byte(tag), time.Now().Add(time.Second))
	r.conn.wmu.Unlock()
	deadline := time.Now().Add(r.e.timeout)
	for {
		select {
		case f := <-r.conn.frames:
			switch f.kind {
			case "text":
				term, id := c12RemoteMsg(f.data)
				if id != "" && strings.HasPrefix(term, "RHello") {
					r.ctx.helloId = id
				}
				ob.Remote = append(ob.Remote, term)
			case "pong":
				if string(f.data) == tag {
					return
				}
			case "closed":
				ob.ConnClosed = true
				r.conn.ws.Close()
				r.conn = nil
				return
			}
		case <-time.After(time.Until(deadline)):
			ob.Responsive = false
			ob.Note += "no pong from the federation read pump; "
			return
		}
	}
}

// collect what the federated client received: everything up to the answer to an
// invalid request (answered by the hub itself, after all earlier requests)
func (r *c12Runner) syncClient(ob *c12Obs) {
	if r.client.closed {
		return
	}
	r.syncSeq++
	id := fmt.Sprintf("sync-%d", r.syncSeq)
	r.client.send(map[string]interface{}{"id": id, "type": "message"})
	deadline := time.Now().Add(r.e.timeout)
	for {
		m := r.client.next(time.Until(deadline))
		if m == nil {
			if !r.client.closed {
				ob.Responsive = false
				ob.Note += "client sync timed out; "
			}
			return
		}
		if m["id"] == id {
			return
		}
		ob.Client = append(ob.Client, c12ClientMsg(m, r.client.pubId))
	}
}

func (r *c12Runner) readState(ob *c12Obs) {
	st, ok := c12ReadState(r.fc, r.sess, r.e.timeout)
	if !ok {
		ob.Responsive = false
		ob.Note += "federation client locks are held; "
		st = r.last
	}
	r.last = st
	ob.State = st
}

func (r *c12Runner) dialWait() time.Duration {
	d := 2*time.Duration(r.last.Delay) + r.e.timeout
	if d > 12*time.Second {
		d = 12 * time.Second
	}
	return d
}

func (r *c12Runner) hostileClose(how int) {
	if r.conn == nil {
		return
	}
	ws := r.conn.ws
	switch how % 4 {
	case 0:
		r.conn.wmu.Lock()
		ws.WriteControl(websocket.CloseMessage, websocket.FormatCloseMessage(websocket.CloseNormalClosure, ""), time.Now().Add(time.Second))
		r.conn.wmu.Unlock()
		ws.Close()
	case 1:
		ws.Close()
	case 2:
		if tc, ok := ws.UnderlyingConn().(*net.TCPConn); ok {
			tc.SetLinger(0)
		}
		ws.Close()
	case 3:
		r.conn.wmu.Lock()
		ws.UnderlyingConn().Write(c12RawFrame(1, []byte(`{"type":"`+strings.Repeat("x", 70000)+`"}`)))
		r.conn.wmu.Unlock()
		// the local side closes; wait for it, then close our end
		deadline := time.After(r.e.timeout)
	loop:
		for {
			select {
			case f := <-r.conn.frames:
				if f.kind == "closed" {
					break loop
				}
			case <-deadline:
				break loop
			}
		}
		ws.Close()
	}
	r.conn = nil
}

// returns false when the case cannot continue (the federation connection is gone for good)
func (r *c12Runner) exec(i int, op *c12Op) (ob c12Obs, cont bool) {
	ob = c12Obs{Alive: true, Responsive: true, Bystander: true, Client: []string{}, Remote: []string{}}
	cont = true
	switch op.K {
	case "recv", "junk":
		if r.conn == nil {
			ob.Note = "no connection: op skipped"
			return ob, false
		}
		var payload []byte
		opcode := byte(1)
		if op.K == "recv" {
			if r.last.Hello {
				// "the session id the remote gave": what the client holds now (a later
				// hello-shaped message is only forwarded and does not change it)
				r.ctx.sidOn = r.last.RemoteSid
			}
			payload = op.M.doc(&r.ctx)
			if op.M.Hel != nil && op.M.Tag == "hello" && !r.last.Hello {
				r.ctx.sidOn = op.M.Hel.Sid
			}
		} else {
			payload = []byte(c12Junk[op.N%len(c12Junk)])
			if op.Bin {
				opcode = 2
				payload = []byte(`{"type":"welcome"}`)
			}
		}
		pumps := r.e.hub.readPumpActive.Load()
		r.conn.wmu.Lock()
		r.conn.ws.UnderlyingConn().Write(c12RawFrame(opcode, payload))
		r.conn.wmu.Unlock()
		r.syncRemote(&ob)
		if ob.ConnClosed {
			// the local side closed the connection while handling the message: it is
			// done with the message when its read pump has ended
			deadline := time.Now().Add(r.e.timeout)
			for r.e.hub.readPumpActive.Load() >= pumps && time.Now().Before(deadline) {
				time.Sleep(100 * time.Microsecond)
			}
		}
		r.syncClient(&ob)
		// a forwarded "bye" closes the session asynchronously, which leaves the federated room
		for _, m := range ob.Client {
			if m == "CFwd TBye" {
				deadline := time.Now().Add(r.e.timeout)
				for !r.fc.closeOnLeave.Load() && time.Now().Before(deadline) {
					time.Sleep(200 * time.Microsecond)
				}
				time.Sleep(2 * time.Millisecond)
				r.syncRemote(&ob)
			}
		}
	case "recvfail":
		if r.conn == nil {
			ob.Note = "no connection: op skipped"
			return ob, false
		}
		ws := r.conn.ws
		r.conn.wmu.Lock()
		nc := ws.UnderlyingConn()
		nc.Write(c12RawFrame(1, op.M.doc(&r.ctx)))
		if tc, ok := nc.(*net.TCPConn); ok {
			tc.SetLinger(0)
		}
		nc.Close()
		r.conn.wmu.Unlock()
		r.conn = nil
		// the client must get over it: either it reconnects or it has closed itself
		deadline := time.Now().Add(r.dialWait())
		for {
			if r.waitDial(20 * time.Millisecond) {
				break
			}
			if st, ok := c12ReadState(r.fc, r.sess, 50*time.Millisecond); ok && st.Closed {
				break
			}
			if time.Now().After(deadline) {
				ob.Responsive = false
				ob.Note += "neither reconnected nor closed after the reset; "
				break
			}
		}
		r.syncClient(&ob)
	case "storm":
		// many answers with unknown ids in one segment, then a reset, while the federated
		// session sends requests of its own: the read pump and the client's goroutine
		// compete for the locks of the FederationClient
		if r.conn == nil {
			ob.Note = "no connection: op skipped"
			return ob, false
		}
		n := op.N
		if n <= 0 {
			n = 10
		}
		done := make(chan struct{})
		go func() {
			for i := 0; i < n; i++ {
				r.client.send(map[string]interface{}{"id": "m", "type": "message", "message": map[string]interface{}{
					"recipient": map[string]interface{}{"type": "room"}, "data": map[string]interface{}{"x": i}}})
			}
			close(done)
		}()
		var buf []byte
		for i := 0; i < n; i++ {
			buf = append(buf, c12RawFrame(1, []byte(fmt.Sprintf(`{"id":"storm-%d","type":"foo"}`, i)))...)
		}
		r.conn.wmu.Lock()
		nc := r.conn.ws.UnderlyingConn()
		nc.Write(buf)
		if tc, ok := nc.(*net.TCPConn); ok {
			tc.SetLinger(0)
		}
		nc.Close()
		r.conn.wmu.Unlock()
		r.conn = nil
		<-done
		deadline := time.Now().Add(r.dialWait())
		for {
			if r.waitDial(20 * time.Millisecond) {
				break
			}
			if st, ok := c12ReadState(r.fc, r.sess, 50*time.Millisecond); ok && st.Closed {
				break
			}
			if time.Now().After(deadline) {
				ob.Responsive = false
				ob.Note += "neither reconnected nor closed after the storm; "
				break
			}
		}
		r.syncClient(&ob)
		ob.Client = []string{} // not compared
	case "drop":
		if r.conn == nil {
			ob.Note = "no connection: op skipped"
			return ob, false
		}
		r.hostileClose(op.N)
		if !r.waitDial(r.dialWait()) {
			ob.Responsive = false
			ob.Note += "no reconnect after the connection was dropped; "
		}
		r.syncClient(&ob)
	case "accept":
		if r.held != nil {
			if !r.accept() {
				ob.Responsive = false
				ob.Note += "accept failed; "
			} else {
				r.syncRemote(&ob)
			}
		}
		r.syncClient(&ob)
	case "refuse":
		if r.held != nil {
			r.held.decide <- false
			<-r.held.conn
			r.held = nil
			if !r.waitDial(r.dialWait()) {
				ob.Responsive = false
				ob.Note += "no reconnect after a refused connection; "
			}
		}
		r.syncClient(&ob)
	case "csend":
		before := r.last
		r.client.send(map[string]interface{}{"id": "m", "type": "message", "message": map[string]interface{}{
			"recipient": map[string]interface{}{"type": "room"}, "data": map[string]interface{}{"x": 1}}})
		r.syncClient(&ob)
		if before.Connected && r.conn != nil {
			// wait for the proxied message, then sync
			deadline := time.Now().Add(r.e.timeout)
			for len(r.conn.frames) == 0 && time.Now().Before(deadline) {
				time.Sleep(100 * time.Microsecond)
			}
			r.syncRemote(&ob)
		}
	case "cleave":
		r.client.send(map[string]interface{}{"id": "l", "type": "room", "room": map[string]interface{}{"roomid": ""}})
		r.syncClient(&ob)
		r.syncRemote(&ob)
	case "expire":
		// the client's connection is lost, its session expires and the hub's housekeeping closes it
		r.client.ws.Close()
		r.client.closed = true
		deadline := time.Now().Add(r.e.timeout)
		for time.Now().Before(deadline) {
			r.e.hub.mu.Lock()
			_, found := r.e.hub.expiredSessions[r.sess]
			r.e.hub.mu.Unlock()
			if found {
				break
			}
			time.Sleep(time.Millisecond)
		}
		done := make(chan struct{})
		go func() {
			r.e.hub.performHousekeeping(time.Now().Add(sessionExpireDuration + time.Second))
			close(done)
		}()
		select {
		case <-done:
		case <-time.After(r.e.timeout):
			ob.Responsive = false
			ob.Note += "the hub's housekeeping blocks while closing the expired federated session; "
		}
		r.syncRemote(&ob)
	}
	r.readState(&ob)
	ob.Bystander = r.e.bystanderOk()
	if r.c.Mode != 1 && !(ob.Responsive) {
		cont = false
	}
	if ob.State.Closed && r.conn == nil && r.held == nil {
		cont = false
	}
	if r.client.closed && op.K != "expire" {
		cont = false // nothing the session is sent can be observed any more
	}
	return ob, cont
}

// progress(i) is called before op i is applied
func (e *c12Env) runCase(c *c12Case, progress func(i int), emit func(i int, ob *c12Obs)) {
	r := &c12Runner{e: e, c: c}
	cl, err := newC12Client(e.server.URL)
	if err != nil {
		e.t.Fatal(err)
	}
	r.client = cl
	if err := cl.hello(e.server.URL, fmt.Sprintf("fed%d", c.Id)); err != nil {
		e.t.Fatal(err)
	}
	sess, _ := e.hub.GetSessionByPublicId(cl.pubId).(*ClientSession)
	if sess == nil {
		e.t.Fatal("no session")
	}
	r.sess = sess
	room, remoteRoom := "fed-room", "fed-room"
	if c.Chg {
		room = "fed-room@remote"
	}
	r.ctx.remoteRoom = remoteRoom
	r.ctx.localCloud = getCloudUrl(sess.BackendUrl())
	e.caseSeq++
	prefix := fmt.Sprintf("/c%d-%d/", c.Id, e.caseSeq)
	r.path = prefix + "spreed"
	cl.send(map[string]interface{}{"id": "join-fed", "type": "room", "room": map[string]interface{}{"roomid": room, "sessionid": "rs-" + cl.pubId,
		"federation": map[string]interface{}{"signaling": e.hostile.server.URL + prefix, "url": e.hostile.server.URL, "roomid": remoteRoom, "token": "tok"}}})
	if !r.waitDial(5*time.Second) || !r.accept() {
		e.t.Fatal("the hub did not connect to the hostile peer")
	}
	deadline := time.Now().Add(2 * time.Second)
	for r.fc == nil && time.Now().Before(deadline) {
		if r.fc = sess.GetFederationClient(); r.fc == nil {
			time.Sleep(100 * time.Microsecond)
		}
	}
	if r.fc == nil {
		e.t.Fatal("no federation client")
	}
	r.last, _ = c12ReadState(r.fc, sess, time.Second)

	for i := range c.Ops {
		progress(i)
		ob, cont := r.exec(i, &c.Ops[i])
		if ob.Note != "" && strings.Contains(ob.Note, "op skipped") {
			break
		}
		emit(i, &ob)
		if !cont {
			break
		}
	}

	// clean up without waiting for anything that may block
	fc := r.fc
	go fc.Close()
	if r.held != nil {
		r.held.decide <- false
	}
	if r.conn != nil {
		r.conn.ws.Close()
	}
	if !cl.closed {
		cl.send(map[string]interface{}{"id": "bye", "type": "bye", "bye": map[string]interface{}{}})
		go func() {
			time.Sleep(50 * time.Millisecond)
			cl.ws.Close()
		}()
	}
	_ = context.Background
}
