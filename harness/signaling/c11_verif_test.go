//go:build verif

package signaling

import (
	"bufio"
	"bytes"
	"context"
	"encoding/json"
	"fmt"
	"io"
	"log"
	"math/big"
	"net/http"
	"net/http/httptest"
	"os"
	"os/exec"
	"path/filepath"
	"reflect"
	"sort"
	"strings"
	"testing"
	"time"
)

// ---- C11: correctly signed room API requests of any shape, through the real
// BackendServer + Hub, every batch in a child process ----------------------------

const (
	c11Sid  = "@SID@" // placeholder for the public session id of the fixture client (the observer)
	c11User = "c11-user"
	c11Rs   = "c11-rs"
	// the session ELSEWHERE: always in a room that is neither the addressed one nor the observer's
	c11Sid2  = "@SID2@"
	c11User2 = "c11-user2"
	c11Rs2   = "c11-rs2"
	// the session in NO room (it also is the one that joins and leaves the addressed room as a probe)
	c11Sid3  = "@SID3@"
	c11User3 = "c11-user3"
	c11Rs3   = "c11-rs3-probe" // only registered while the probe is inside the room
	// a client that connects, says hello and good-bye after every request
	c11User4 = "c11-user4"
	c11Room2 = "99000000" // the room of the session elsewhere
)

// public session ids of the second and third fixture session in this (child) process
var c11Sid2Val, c11Sid3Val string

// ---- JSON trees (mirror of lib/Json.v) ------------------------------------------

type vj struct {
	K   string // z null, b bool, n integer literal, f other number literal, s string, a array, o object, r array of Rep copies of A[0], d A[0] wrapped in Rep arrays
	B   bool
	N   *big.Int
	E   int64
	S   string
	A   []*vj
	O   []vjm
	Rep int
}

type vjm struct {
	K string
	V *vj
}

func jz() *vj          { return &vj{K: "z"} }
func jb(b bool) *vj    { return &vj{K: "b", B: b} }
func ji(n int64) *vj   { return &vj{K: "n", N: big.NewInt(n)} }
func js(s string) *vj  { return &vj{K: "s", S: s} }
func ja(l ...*vj) *vj  { return &vj{K: "a", A: l} }
func jo(l ...vjm) *vj  { return &vj{K: "o", O: l} }
func kv(k string, v *vj) vjm { return vjm{K: k, V: v} }
func jf(m, e int64) *vj { return &vj{K: "f", N: big.NewInt(m), E: e} }
func jbig(s string) *vj {
	n, _ := new(big.Int).SetString(s, 10)
	return &vj{K: "n", N: n}
}
func jrepv(n int, x *vj) *vj  { return &vj{K: "r", Rep: n, A: []*vj{x}} }
func jnestv(n int, x *vj) *vj { return &vj{K: "d", Rep: n, A: []*vj{x}} }

func (j *vj) clone() *vj {
	c := *j
	if j.N != nil {
		c.N = new(big.Int).Set(j.N)
	}
	c.A = nil
	for _, x := range j.A {
		c.A = append(c.A, x.clone())
	}
	c.O = nil
	for _, m := range j.O {
		c.O = append(c.O, vjm{m.K, m.V.clone()})
	}
	return &c
}

func c11JsonString(s, sid string) string {
	if strings.Contains(s, "@SID") {
		s = strings.ReplaceAll(s, c11Sid, sid)
		if c11Sid2Val != "" {
			s = strings.ReplaceAll(s, c11Sid2, c11Sid2Val)
		}
		if c11Sid3Val != "" {
			s = strings.ReplaceAll(s, c11Sid3, c11Sid3Val)
		}
	}
	b, _ := json.Marshal(s)
	return string(b)
}

func (j *vj) write(b *strings.Builder, sid string) {
	switch j.K {
	case "z":
		b.WriteString("null")
	case "b":
		if j.B {
			b.WriteString("true")
		} else {
			b.WriteString("false")
		}
	case "n":
		b.WriteString(j.N.String())
	case "f":
		fmt.Fprintf(b, "%se%d", j.N.String(), j.E)
	case "s":
		b.WriteString(c11JsonString(j.S, sid))
	case "a":
		b.WriteByte('[')
		for i, x := range j.A {
			if i > 0 {
				b.WriteByte(',')
			}
			x.write(b, sid)
		}
		b.WriteByte(']')
	case "o":
		b.WriteByte('{')
		for i, m := range j.O {
			if i > 0 {
				b.WriteByte(',')
			}
			b.WriteString(c11JsonString(m.K, sid))
			b.WriteByte(':')
			m.V.write(b, sid)
		}
		b.WriteByte('}')
	case "r":
		b.WriteByte('[')
		var one strings.Builder
		j.A[0].write(&one, sid)
		for i := 0; i < j.Rep; i++ {
			if i > 0 {
				b.WriteByte(',')
			}
			b.WriteString(one.String())
		}
		b.WriteByte(']')
	case "d":
		b.WriteString(strings.Repeat("[", j.Rep))
		j.A[0].write(b, sid)
		b.WriteString(strings.Repeat("]", j.Rep))
	}
}

func (j *vj) text(sid string) string {
	var b strings.Builder
	j.write(&b, sid)
	return b.String()
}

func c11CoqStr(s string) string {
	return `"` + strings.ReplaceAll(s, `"`, `""`) + `"`
}

func c11CoqZ(n *big.Int) string {
	if n.Sign() < 0 {
		return "(" + n.String() + ")"
	}
	return n.String()
}

func (j *vj) coq() string {
	switch j.K {
	case "z":
		return "JNull"
	case "b":
		return "(JBool " + coqBool(j.B) + ")"
	case "n":
		return "(JNum " + c11CoqZ(j.N) + ")"
	case "f":
		return "(JFloat " + c11CoqZ(j.N) + " " + coqZ(j.E) + ")"
	case "s":
		return "(JStr " + c11CoqStr(j.S) + ")"
	case "a":
		var l []string
		for _, x := range j.A {
			l = append(l, x.coq())
		}
		return "(JArr " + coqList(l) + ")"
	case "o":
		var l []string
		for _, m := range j.O {
			l = append(l, "("+c11CoqStr(m.K)+", "+m.V.coq()+")")
		}
		return "(JObj " + coqList(l) + ")"
	case "r":
		return fmt.Sprintf("(JArr (jrep %d %s))", j.Rep, j.A[0].coq())
	case "d":
		return fmt.Sprintf("(jnest %d %s)", j.Rep, j.A[0].coq())
	}
	return "JNull"
}

// replay encoding: ["z"] ["b",true] ["n","123"] ["f","15",-1] ["s","x"] ["a",[..]] ["o",[["k",v],..]] ["r",n,v] ["d",n,v]
func (j *vj) MarshalJSON() ([]byte, error) {
	switch j.K {
	case "z":
		return []byte(`["z"]`), nil
	case "b":
		return json.Marshal([]interface{}{"b", j.B})
	case "n":
		return json.Marshal([]interface{}{"n", j.N.String()})
	case "f":
		return json.Marshal([]interface{}{"f", j.N.String(), j.E})
	case "s":
		return json.Marshal([]interface{}{"s", j.S})
	case "a":
		l := j.A
		if l == nil {
			l = []*vj{}
		}
		return json.Marshal([]interface{}{"a", l})
	case "o":
		l := [][]interface{}{}
		for _, m := range j.O {
			l = append(l, []interface{}{m.K, m.V})
		}
		return json.Marshal([]interface{}{"o", l})
	case "r", "d":
		return json.Marshal([]interface{}{j.K, j.Rep, j.A[0]})
	}
	return nil, fmt.Errorf("bad tree")
}

func (j *vj) UnmarshalJSON(data []byte) error {
	var parts []json.RawMessage
	if err := json.Unmarshal(data, &parts); err != nil || len(parts) == 0 {
		return fmt.Errorf("bad tree encoding: %s", string(data))
	}
	if err := json.Unmarshal(parts[0], &j.K); err != nil {
		return err
	}
	switch j.K {
	case "z":
	case "b":
		return json.Unmarshal(parts[1], &j.B)
	case "n", "f":
		var s string
		if err := json.Unmarshal(parts[1], &s); err != nil {
			return err
		}
		n, ok := new(big.Int).SetString(s, 10)
		if !ok {
			return fmt.Errorf("bad number %q", s)
		}
		j.N = n
		if j.K == "f" {
			return json.Unmarshal(parts[2], &j.E)
		}
	case "s":
		return json.Unmarshal(parts[1], &j.S)
	case "a":
		return json.Unmarshal(parts[1], &j.A)
	case "o":
		var ms [][]json.RawMessage
		if err := json.Unmarshal(parts[1], &ms); err != nil {
			return err
		}
		for _, m := range ms {
			var k string
			if err := json.Unmarshal(m[0], &k); err != nil {
				return err
			}
			v := &vj{}
			if err := json.Unmarshal(m[1], v); err != nil {
				return err
			}
			j.O = append(j.O, vjm{k, v})
		}
	case "r", "d":
		if err := json.Unmarshal(parts[1], &j.Rep); err != nil {
			return err
		}
		v := &vj{}
		if err := json.Unmarshal(parts[2], v); err != nil {
			return err
		}
		j.A = []*vj{v}
	default:
		return fmt.Errorf("bad tree kind %q", j.K)
	}
	return nil
}

// with returns a copy of the object j with member k replaced (all occurrences
// removed, v appended); v == nil removes it.
func (j *vj) with(k string, v *vj) *vj {
	c := &vj{K: "o"}
	for _, m := range j.O {
		if m.K != k {
			c.O = append(c.O, m)
		}
	}
	if v != nil {
		c.O = append(c.O, vjm{k, v})
	}
	return c
}

// ---- cases ---------------------------------------------------------------------------

type c11Op struct {
	Doc *vj     `json:"doc,omitempty"`
	Raw *string `json:"raw,omitempty"` // a body that is not a JSON document
	// observations
	Status     int      `json:"status"`
	Died       bool     `json:"died,omitempty"`
	Responsive bool     `json:"responsive"`
	Closed     bool     `json:"closed,omitempty"`
	Events     []string `json:"events,omitempty"`
	Events2    []string `json:"events2,omitempty"` // received by the session elsewhere
	Blocked    string   `json:"blocked,omitempty"` // which liveness probe was not answered within the bound
	Done       bool     `json:"done,omitempty"`
}

type c11Case struct {
	Id      int     `json:"id"`
	Exists  bool    `json:"exists"`
	Numeric bool    `json:"numeric"`
	Class   string  `json:"class,omitempty"`
	Finding string  `json:"finding,omitempty"`
	Fixed   bool    `json:"fixed"`
	Ops     []c11Op `json:"ops"`
	Panic   string  `json:"panic,omitempty"`
}

func (o *c11Op) bodyText(sid string) string {
	if o.Raw != nil {
		return *o.Raw
	}
	return o.Doc.text(sid)
}

func (o *c11Op) coqBody() string {
	if o.Raw != nil {
		return "BadSyntax"
	}
	return "(Doc " + o.Doc.coq() + ")"
}

func (c *c11Case) coq() string {
	var tr []string
	for i := range c.Ops {
		o := &c.Ops[i]
		if !o.Done {
			break
		}
		tr = append(tr, fmt.Sprintf("(%s, mkobs2 %d %s %s %s %s %s)", o.coqBody(), o.Status, coqBool(o.Died), coqBool(o.Responsive), coqBool(o.Closed), coqList(o.Events), coqList(o.Events2)))
	}
	return fmt.Sprintf("mkcase %d %s %s %s %s", c.Id, coqBool(c.Fixed), coqBool(c.Exists), coqBool(c.Numeric), coqList(tr))
}

// ---- the schema, read from the running package -----------------------------------------

type c11Field struct {
	Go, Json, Type string
	Omit           bool
	T              reflect.Type
}

func c11TypeText(t reflect.Type) string {
	s := t.String()
	s = strings.ReplaceAll(s, "signaling.", "")
	s = strings.ReplaceAll(s, "interface {}", "interface{}")
	return s
}

func c11Schema(t reflect.Type) []c11Field {
	var out []c11Field
	for i := 0; i < t.NumField(); i++ {
		f := t.Field(i)
		if !f.IsExported() {
			continue
		}
		tag := f.Tag.Get("json")
		parts := strings.Split(tag, ",")
		if parts[0] == "-" {
			continue
		}
		name := parts[0]
		if name == "" {
			name = f.Name
		}
		omit := false
		for _, p := range parts[1:] {
			if p == "omitempty" {
				omit = true
			}
		}
		out = append(out, c11Field{Go: f.Name, Json: name, Type: c11TypeText(f.Type), Omit: omit, T: f.Type})
	}
	return out
}

func c11CoqSchema(fs []c11Field) string {
	var l []string
	for _, f := range fs {
		l = append(l, fmt.Sprintf("(%s, %s, %s, %s)", c11CoqStr(f.Go), c11CoqStr(f.Json), c11CoqStr(f.Type), coqBool(f.Omit)))
	}
	return coqList(l)
}

// ---- shapes --------------------------------------------------------------------------------

type c11Shape struct {
	name string
	v    *vj // nil = member absent
}

func c11U(kvs ...vjm) *vj { return jo(kvs...) }

var c11RawType = reflect.TypeOf(json.RawMessage{})

func c11WrongKinds(except string) []c11Shape {
	all := []c11Shape{
		{"bool", jb(true)}, {"num", ji(5)}, {"float", jf(15, -1)}, {"str", js("abc")},
		{"arr", ja()}, {"arr1", ja(js("x"))}, {"obj", jo()}, {"obj1", jo(kv("a", ji(1)))},
	}
	var out []c11Shape
	for _, s := range all {
		if !strings.HasPrefix(s.name, except) || except == "" {
			out = append(out, s)
		}
	}
	return out
}

func c11UserEntries() []c11Shape {
	u := func(kvs ...vjm) *vj { return ja(c11U(kvs...)) }
	sid := func(v *vj) vjm { return kv("sessionId", v) }
	return []c11Shape{
		{"u-null", ja(jz())}, {"u-empty", ja(jo())}, {"u-num", ja(ji(5))}, {"u-str", ja(js("x"))}, {"u-arr", ja(ja())}, {"u-bool", ja(jb(false))},
		{"u-nosid", u(kv("userId", js("x")), kv("inCall", ji(1)))},
		{"u-sid-rs", u(sid(js(c11Rs)))},
		{"u-sid-rs-incall1", u(sid(js(c11Rs)), kv("inCall", ji(1)))},
		{"u-sid-rs-incall0", u(sid(js(c11Rs)), kv("inCall", ji(0)))},
		{"u-sid-rs-incall7", u(sid(js(c11Rs)), kv("inCall", ji(7)))},
		{"u-sid-rs-incallT", u(sid(js(c11Rs)), kv("inCall", jb(true)))},
		{"u-sid-rs-incallF", u(sid(js(c11Rs)), kv("inCall", jb(false)))},
		{"u-sid-rs-incallS", u(sid(js(c11Rs)), kv("inCall", js("1")))},
		{"u-sid-rs-incallN", u(sid(js(c11Rs)), kv("inCall", jz()))},
		{"u-sid-rs-incallA", u(sid(js(c11Rs)), kv("inCall", ja(ji(1))))},
		{"u-sid-rs-incallFl", u(sid(js(c11Rs)), kv("inCall", jf(35, -1)))},
		{"u-sid-rs-incallHuge", u(sid(js(c11Rs)), kv("inCall", jf(1, 400)))},
		{"u-sid-rs-incallBig", u(sid(js(c11Rs)), kv("inCall", jbig("36893488147419103233")))},
		{"u-sid-unknown", u(sid(js("nobody")))},
		{"u-sid-zero", u(sid(js("0")))},
		{"u-sid-emptystr", u(sid(js("")))},
		{"u-sid-num", u(sid(ji(5)))},
		{"u-sid-null", u(sid(jz()))},
		{"u-sid-bool", u(sid(jb(true)))},
		{"u-sid-arr", u(sid(ja(js(c11Rs))))},
		{"u-sid-obj", u(sid(jo()))},
		{"u-sid-dup", u(sid(ji(5)), sid(js(c11Rs)))},
		{"u-sid-dup2", u(sid(js(c11Rs)), sid(ji(5)))},
		{"u-sid-lower", u(kv("sessionid", js(c11Rs)), kv("inCall", ji(1)))},
		{"u-sid-userid", u(sid(js(c11Rs)), kv("userId", js("someone")))},
		{"u-sid-userid-empty", u(sid(js(c11Rs)), kv("userId", js("")))},
		{"u-sid-userid-num", u(sid(js(c11Rs)), kv("userId", ji(3)))},
		{"u-perm-list", u(sid(js(c11Rs)), kv("permissions", ja(js("publish-media"), js("control"))))},
		{"u-perm-empty", u(sid(js(c11Rs)), kv("permissions", ja()))},
		{"u-perm-str", u(sid(js(c11Rs)), kv("permissions", js("control")))},
		{"u-perm-null", u(sid(js(c11Rs)), kv("permissions", jz()))},
		{"u-perm-nums", u(sid(js(c11Rs)), kv("permissions", ja(ji(1))))},
		{"u-perm-mixed", u(sid(js(c11Rs)), kv("permissions", ja(js("control"), jz())))},
		{"u-perm-nosid", u(kv("permissions", ja(js("control"))))},
		{"u-perm-numsid", u(sid(ji(7)), kv("permissions", ja(js("control"))))},
		{"u-two", ja(c11U(sid(js(c11Rs))), c11U(sid(js("nobody"))))},
		{"u-twice", ja(c11U(sid(js(c11Rs))), c11U(sid(js(c11Rs)), kv("x", ji(1))))},
		{"u-mixed", ja(c11U(sid(js(c11Rs))), jz(), jo(), c11U(sid(ji(1))))},
		{"u-huge", jrepv(10000, c11U(sid(js("n"))))},
		{"u-huge-rs", jrepv(300, c11U(sid(js(c11Rs)), kv("inCall", ji(1))))},
	}
}

func c11ShapesFor(t reflect.Type) []c11Shape {
	base := []c11Shape{{"absent", nil}, {"null", jz()}}
	switch {
	case t == c11RawType:
		return append(base, []c11Shape{
			{"true", jb(true)}, {"false", jb(false)}, {"0", ji(0)}, {"1", ji(1)}, {"7", ji(7)}, {"-1", ji(-1)}, {"2", ji(2)},
			{"float", jf(15, -1)}, {"float1e0", jf(1, 0)}, {"big", jbig("18446744073709551617")}, {"max", jbig("9223372036854775807")}, {"max1", jbig("9223372036854775808")},
			{"str", js("abc")}, {"str1", js("1")}, {"arr", ja()}, {"arr1", ja(ji(1))}, {"obj", jo()}, {"obj1", jo(kv("a", js("b")))},
			{"sameprops", jo(kv("prop1", js("value1")))}, {"nested", jo(kv("a", ja(jo(kv("b", jz())))))},
			{"deep", jnestv(500, ji(1))},
		}...)
	case t.Kind() == reflect.String:
		return append(append(base, []c11Shape{{"empty", js("")}, {"x", js("x")}, {"plus", js("+4912345678")}, {"plus1", js("+4")}, {"digits", js("4912345")}, {"plusalpha", js("+49abc")}, {"plusnl", js("+4912345\n")}, {"set", js("set")}}...), c11WrongKinds("str")...)
	case t.Kind() == reflect.Bool:
		return append(append(base, []c11Shape{{"true", jb(true)}, {"false", jb(false)}}...), c11WrongKinds("bool")...)
	case t.Kind() == reflect.Int64:
		return append(base, []c11Shape{
			{"0", ji(0)}, {"1", ji(1)}, {"-1", ji(-1)}, {"max", jbig("9223372036854775807")}, {"max1", jbig("9223372036854775808")},
			{"min", jbig("-9223372036854775808")}, {"min1", jbig("-9223372036854775809")}, {"float", jf(10, -1)}, {"exp", jf(1, 2)},
			{"str", js("1")}, {"bool", jb(true)}, {"arr", ja()}, {"obj", jo()},
		}...)
	case t.Kind() == reflect.Slice && t.Elem().Kind() == reflect.String:
		return append(append(base, []c11Shape{
			{"empty", ja()}, {"other", ja(js("someone"))}, {"user", ja(js(c11User))}, {"user2", ja(js(c11User), js(c11User))}, {"user-other", ja(js(c11User), js("o2"))},
			{"rs", ja(js(c11Rs))}, {"rs-unknown", ja(js(c11Rs), js("nobody"), js("0"), js(""))}, {"sid", ja(js(c11Sid))}, {"sid-bad", ja(js(c11Sid), js("a b"), js(""), js("x."))},
			{"emptystr", ja(js(""))}, {"elem-null", ja(jz())}, {"elem-num", ja(ji(5))}, {"elem-bool", ja(js("a"), jb(true))}, {"elem-arr", ja(ja())}, {"elem-obj", ja(jo())},
			{"huge", jrepv(10000, js("someone"))}, {"many-user", jrepv(20, js(c11User))},
		}...), c11WrongKinds("arr")...)
	case t.Kind() == reflect.Slice && t.Elem().Kind() == reflect.Map:
		return append(append(base, []c11Shape{{"empty", ja()}}...), append(c11UserEntries(), c11WrongKinds("arr")...)...)
	case t.Kind() == reflect.Map:
		return append(append(base, []c11Shape{
			{"empty", jo()}, {"sid-null", jo(kv(c11Sid, jz()))}, {"sid-obj", jo(kv(c11Sid, jo(kv("a", ji(1)))))}, {"other", jo(kv("nobody", ji(1)))},
			{"sid-dup", jo(kv(c11Sid, ji(1)), kv(c11Sid, ji(2)))}, {"badkeys", jo(kv("a b", ji(1)), kv("", ji(2)))},
		}...), c11WrongKinds("obj")...)
	case t.Kind() == reflect.Interface:
		return append(base, []c11Shape{{"num", ji(1)}, {"str", js("v")}, {"bool", jb(false)}, {"arr", ja(ji(1), jz())}, {"obj", jo(kv("a", jo()))}, {"overflow", jf(1, 400)}, {"overflow-nested", ja(jo(kv("x", jf(1, 309))))}, {"underflow", jf(1, -400)}, {"almost", jf(17976931348623157, 292)}, {"over", jf(17976931348623159, 292)}}...)
	}
	return base
}

// sub-object shapes at the level of the request
func c11SubShapes(valid *vj) []c11Shape {
	return []c11Shape{
		{"absent", nil}, {"null", jz()}, {"bool", jb(true)}, {"num", ji(5)}, {"float", jf(5, -1)}, {"str", js("abc")},
		{"arr", ja()}, {"arr-of-obj", ja(valid)}, {"empty", jo()}, {"valid", valid},
	}
}

var c11Types = []string{"invite", "disinvite", "update", "delete", "incall", "participants", "message", "switchto", "dialout", "transient"}

func c11Default(ty string) *vj {
	urs := c11U(kv("sessionId", js(c11Rs)), kv("inCall", ji(1)))
	switch ty {
	case "invite":
		return jo(kv("userids", ja(js(c11User))), kv("alluserids", ja(js(c11User), js("other"))), kv("properties", jo(kv("k", js("v")))))
	case "disinvite":
		return jo(kv("userids", ja(js(c11User))), kv("sessionids", ja(js(c11Rs))), kv("alluserids", ja(js(c11User), js("other"))), kv("properties", jo(kv("k", js("v")))))
	case "update":
		return jo(kv("userids", ja(js(c11User))), kv("properties", jo(kv("name", js("n")))))
	case "delete":
		return jo(kv("userids", ja(js(c11User))))
	case "incall":
		return jo(kv("incall", ji(1)), kv("changed", ja(urs)), kv("users", ja(urs)))
	case "participants":
		return jo(kv("changed", ja(c11U(kv("sessionId", js(c11Rs)), kv("permissions", ja(js("publish-media")))))), kv("users", ja(urs)))
	case "message":
		return jo(kv("data", jo(kv("type", js("chat")))))
	case "switchto":
		return jo(kv("roomid", js("target")), kv("sessions", ja(js(c11Rs))))
	case "dialout":
		return jo(kv("number", js("+4912345678")), kv("options", jo()))
	case "transient":
		return jo(kv("action", js("set")), kv("key", js("k")), kv("value", ji(1)), kv("ttl", ji(5)))
	}
	return jo()
}

func c11Req(ty string, members ...vjm) *vj {
	return jo(append([]vjm{kv("type", js(ty))}, members...)...)
}

type c11Gen struct {
	cases []*c11Case
	hist  map[string]int
}

func (g *c11Gen) add(class string, exists, numeric bool, docs ...*vj) *c11Case {
	c := &c11Case{Id: len(g.cases), Exists: exists, Numeric: numeric, Class: class}
	for _, d := range docs {
		if n := len(d.text("S")); n+200 > maxBodySize {
			panic(fmt.Sprintf("C11 generator: body of class %s has %d bytes (limit %d)", class, n, maxBodySize))
		}
		c.Ops = append(c.Ops, c11Op{Doc: d})
	}
	g.cases = append(g.cases, c)
	g.hist[class]++
	return c
}

func (g *c11Gen) both(class string, doc *vj) {
	g.add(class, true, true, doc)
	g.add(class, false, true, doc)
}

// the shape enumeration: every position of the request schema down to the
// members of the sub-objects (depth 3), each position with every shape of its
// type, the rest of the request valid; plus the entries of the user lists.
func (g *c11Gen) enumerate() int {
	n0 := len(g.cases)
	top := c11Schema(reflect.TypeOf(BackendServerRoomRequest{}))
	// depth 1: the document itself
	for _, s := range []c11Shape{{"null", jz()}, {"true", jb(true)}, {"num", ji(0)}, {"float", jf(1, 1)}, {"str", js("invite")}, {"arr", ja()}, {"arr-obj", ja(c11Req("invite", kv("invite", c11Default("invite"))))}, {"empty", jo()}} {
		g.both("d1/"+s.name, s.v)
	}
	// depth 2: "type"
	for _, s := range []c11Shape{{"absent", nil}, {"null", jz()}, {"empty", js("")}, {"unknown", js("foo")}, {"case", js("Invite")}, {"space", js("invite ")},
		{"bool", jb(true)}, {"num", ji(1)}, {"arr", ja(js("invite"))}, {"obj", jo()}} {
		doc := jo(kv("invite", c11Default("invite")), kv("update", c11Default("update")))
		if s.v != nil {
			doc = jo(kv("type", s.v), kv("invite", c11Default("invite")), kv("update", c11Default("update")))
		}
		g.both("d2/type/"+s.name, doc)
	}
	g.both("d2/type/key-case", jo(kv("Type", js("invite")), kv("invite", c11Default("invite"))))
	g.both("d2/type/key-case2", jo(kv("type", js("invite")), kv("Invite", c11Default("invite"))))
	// depth 2: the sub-object of every type; sub-objects of other types
	for _, ty := range c11Types {
		for _, s := range c11SubShapes(c11Default(ty)) {
			var doc *vj
			if s.v == nil {
				doc = c11Req(ty)
			} else {
				doc = c11Req(ty, kv(ty, s.v))
			}
			g.both("d2/"+ty+"/sub-"+s.name, doc)
			if ty == "dialout" {
				g.add("d2/"+ty+"/sub-"+s.name+"/nonnumeric", true, false, doc)
			}
		}
		for _, other := range c11Types {
			if other == ty {
				continue
			}
			g.both("d2/"+ty+"/only-"+other, c11Req(ty, kv(other, c11Default(other))))
			g.add("d2/"+ty+"/plus-"+other+"-wrong", true, true, c11Req(ty, kv(ty, c11Default(ty)), kv(other, js("x"))))
		}
		g.both("d2/"+ty+"/received", c11Req(ty, kv(ty, c11Default(ty)), kv("received", ji(1))))
		g.add("d2/"+ty+"/received-wrong", true, true, c11Req(ty, kv(ty, c11Default(ty)), kv("received", js("1"))))
		g.add("d2/"+ty+"/received-float", true, true, c11Req(ty, kv(ty, c11Default(ty)), kv("received", jf(1, 3))))
		g.add("d2/"+ty+"/unknown-key", true, true, c11Req(ty, kv(ty, c11Default(ty)), kv("bogus", jo(kv("a", ja(ji(1), jz()))))))
	}
	// depth 3: every member of every sub-object with every shape of its type
	for _, f := range top {
		if f.T.Kind() != reflect.Ptr || f.T.Elem().Kind() != reflect.Struct {
			continue
		}
		ty := f.Json
		for _, sf := range c11Schema(f.T.Elem()) {
			for _, s := range c11ShapesFor(sf.T) {
				doc := c11Req(ty, kv(ty, c11Default(ty).with(sf.Json, s.v)))
				g.both("d3/"+ty+"/"+sf.Json+"/"+s.name, doc)
				if ty == "dialout" {
					g.add("d3/"+ty+"/"+sf.Json+"/"+s.name+"/nonnumeric", true, false, doc)
				}
			}
			// the member alone, and with a changed case of its name
			g.add("d3/"+ty+"/"+sf.Json+"/alone", true, true, c11Req(ty, kv(ty, jo(kv(sf.Json, c11membervalue(c11Default(ty), sf.Json))))))
			g.add("d3/"+ty+"/"+sf.Json+"/key-case", true, true, c11Req(ty, kv(ty, c11Default(ty).with(sf.Json, nil).with(strings.ToUpper(sf.Json), c11membervalue(c11Default(ty), sf.Json)))))
		}
		g.add("d3/"+ty+"/unknown-member", true, true, c11Req(ty, kv(ty, c11Default(ty).with("bogus", jrepv(2000, jo(kv("a", jz())))))))
	}
	// "incall" with all = true and every raw value of the flags, room in both call states
	for _, s := range c11ShapesFor(c11RawType) {
		doc := c11Req("incall", kv("incall", jo(kv("all", jb(true))).with("incall", s.v)))
		g.both("d3/incall-all/"+s.name, doc)
		join := c11Req("incall", kv("incall", jo(kv("all", jb(true)), kv("incall", ji(1)))))
		g.add("d3/incall-all/after-join/"+s.name, true, true, join, doc)
	}
	// switchto: "sessions" as list / map / string / number ... and the internal members
	for _, s := range []c11Shape{
		{"list-rs", ja(js(c11Rs))}, {"list-empty", ja()}, {"list-unknown", ja(js("nobody"), js("0"))}, {"list-null", ja(jz())}, {"list-rs-null", ja(js(c11Rs), jz())},
		{"list-num", ja(ji(1), ji(2))}, {"list-mixed", ja(js(c11Rs), ji(2))}, {"list-obj", ja(jo())}, {"list-list", ja(ja(js(c11Rs)))}, {"list-huge", jrepv(10000, js("nobody"))}, {"list-many-rs", jrepv(20, js(c11Rs))},
		{"map-rs", jo(kv(c11Rs, jo(kv("k", js("v")))))}, {"map-rs-null", jo(kv(c11Rs, jz()))}, {"map-empty", jo()}, {"map-unknown", jo(kv("nobody", ji(1)), kv("0", ji(2)))},
		{"map-dup", jo(kv(c11Rs, ji(1)), kv(c11Rs, ji(2)))}, {"map-huge", c11HugeMap(1200)},
		{"str", js("abc")}, {"str-bracket", js("[")}, {"num", ji(7)}, {"float", jf(7, -1)}, {"true", jb(true)}, {"false", jb(false)},
	} {
		g.both("d3/switchto-sessions/"+s.name, c11Req("switchto", kv("switchto", jo(kv("roomid", js("t")), kv("sessions", s.v)))))
	}
	g.both("d3/switchto/internal-list", c11Req("switchto", kv("switchto", jo(kv("roomid", js("t")), kv("sessionslist", ja(js(c11Sid), js("a b"), js(""))))))) // client supplied internal member
	g.both("d3/switchto/internal-map", c11Req("switchto", kv("switchto", jo(kv("roomid", js("t")), kv("sessionsmap", jo(kv(c11Sid, jz()), kv("other", ji(1))))))))
	g.both("d3/switchto/internal-both", c11Req("switchto", kv("switchto", jo(kv("roomid", js("t")), kv("sessions", ja(js(c11Rs))), kv("sessionslist", ja(js("x"))), kv("sessionsmap", jo(kv(c11Sid, jz())))))))
	// repeated member names
	for _, ty := range c11Types {
		d := c11Default(ty)
		g.both("dup/"+ty+"/valid-null", c11Req(ty, kv(ty, d), kv(ty, jz())))
		g.both("dup/"+ty+"/null-valid", c11Req(ty, kv(ty, jz()), kv(ty, d)))
		g.add("dup/"+ty+"/valid-empty", true, true, c11Req(ty, kv(ty, d), kv(ty, jo())))
		g.add("dup/"+ty+"/valid-wrong", true, true, c11Req(ty, kv(ty, d), kv(ty, js("x"))))
		g.add("dup/"+ty+"/wrong-valid", true, true, c11Req(ty, kv(ty, ji(1)), kv(ty, d)))
		g.add("dup/"+ty+"/type-twice", true, true, jo(kv("type", js("foo")), kv("type", js(ty)), kv(ty, d)))
		g.add("dup/"+ty+"/type-twice2", true, true, jo(kv("type", js(ty)), kv(ty, d), kv("type", js("foo"))))
		g.add("dup/"+ty+"/type-null-last", true, true, jo(kv("type", js(ty)), kv(ty, d), kv("type", jz())))
	}
	g.both("dup/invite/merge", c11Req("invite", kv("invite", jo(kv("userids", ja(js(c11User))))), kv("invite", jo(kv("alluserids", ja(js(c11User), js("x")))))))
	g.both("dup/invite/replace", c11Req("invite", kv("invite", jo(kv("userids", ja(js(c11User))))), kv("invite", jo(kv("userids", ja(js("x")))))))
	g.both("dup/invite/member", c11Req("invite", kv("invite", jo(kv("userids", ja(js("x"))), kv("userids", ja(js(c11User), js(c11User)))))))
	g.both("dup/switchto/sessions", c11Req("switchto", kv("switchto", jo(kv("roomid", js("t")), kv("sessions", js("abc")), kv("sessions", ja(js(c11Rs)))))))
	g.both("dup/switchto/sessions2", c11Req("switchto", kv("switchto", jo(kv("roomid", js("t")), kv("sessions", ja(js(c11Rs))))), kv("switchto", jo(kv("sessions", js("abc"))))))
	// nesting limit of encoding/json (object, object, k arrays)
	// (the internal messages wrap the request once more: depth 10000 cannot be published.
	// Room absent: the consumers' own publications of deep values are not modelled.)
	deep := func(k int) *vj { return c11Req("message", kv("message", jo(kv("data", jnestv(k, ji(1)))))) }
	g.add("depth/9000", false, true, deep(8998))
	g.add("depth/9999", false, true, deep(9997))
	g.add("depth/10000", false, true, deep(9998)).Finding = "C11/nesting-limit-500"
	g.add("depth/10000-update", false, true, c11Req("update", kv("update", jo(kv("properties", jnestv(9998, jz())))))).Finding = "C11/nesting-limit-500"
	g.add("depth/10000-users", false, true, c11Req("participants", kv("participants", jo(kv("users", ja(c11U(kv("sessionId", js(c11Rs)), kv("x", jnestv(9996, jz()))))))))).Finding = "C11/nesting-limit-500"
	g.add("depth/10000-invite", false, true, c11Req("invite", kv("invite", jo(kv("properties", jnestv(9998, jz()))))))
	g.both("depth/10001", deep(9999))
	g.both("depth/unknown-10000", c11Req("message", kv("message", jo(kv("data", ji(1)))), kv("bogus", jnestv(9999, jz()))))
	g.both("depth/unknown-10001", c11Req("message", kv("message", jo(kv("data", ji(1)))), kv("bogus", jnestv(10000, jz()))))
	// sequences that depend on state
	up := func(p *vj) *vj { return c11Req("update", kv("update", jo(kv("properties", p)))) }
	g.add("seq/update-same", true, true, up(jo(kv("prop1", js("value1")))), up(jo(kv("a", ji(1)))), up(jo(kv("a", ji(1)))), c11Req("update", kv("update", jo())), c11Req("update", kv("update", jo())))
	g.add("seq/delete-then", true, true, c11Req("delete", kv("delete", jo())), up(jo(kv("a", ji(1)))), c11Req("message", kv("message", c11Default("message"))), c11Req("switchto", kv("switchto", c11Default("switchto"))))
	g.add("seq/incall", true, true,
		c11Req("incall", kv("incall", jo(kv("all", jb(true)), kv("incall", ji(0))))),
		c11Req("incall", kv("incall", jo(kv("all", jb(true)), kv("incall", ji(7))))),
		c11Req("incall", kv("incall", jo(kv("all", jb(true)), kv("incall", ji(3))))),
		c11Req("incall", kv("incall", jo(kv("all", jb(true)), kv("incall", jb(false))))),
		c11Req("incall", kv("incall", jo(kv("all", jb(true)), kv("incall", ji(0))))),
		c11Req("incall", kv("incall", jo(kv("changed", ja(c11U(kv("sessionId", js(c11Rs)), kv("inCall", ji(1)))))))),
		c11Req("incall", kv("incall", jo(kv("all", jb(true)), kv("incall", ji(1))))),
		c11Req("incall", kv("incall", jo(kv("changed", ja(c11U(kv("sessionId", js(c11Rs)), kv("inCall", jb(false)))))))),
		c11Req("incall", kv("incall", jo(kv("all", jb(true)), kv("incall", ji(2))))))
	g.nobody()
	g.elsewhere()
	return len(g.cases) - n0
}

// Requests whose entries name sessions ELSEWHERE: the session of another room (its room session id
// resolves), the session in no room (only a public id, which is no room session id), next to / instead
// of the observer (in the addressed room when it exists) - in every combination, in "users", in
// "changed", in both, with every kind of call state; then the other request types that name sessions
// or users (disinvite, switchto, invite, update, delete).  What the session elsewhere receives is
// observed like the observer's events; after every request the liveness probes run.
func (g *c11Gen) elsewhere() {
	ent := func(id string, extra ...vjm) *vj { return c11U(append([]vjm{kv("sessionId", js(id))}, extra...)...) }
	type who struct {
		name string
		ids  []string
	}
	combos := []who{
		{"T", []string{c11Rs}}, {"O", []string{c11Rs2}}, {"N", []string{c11Sid3}}, {"Opub", []string{c11Sid2}},
		{"TO", []string{c11Rs, c11Rs2}}, {"OT", []string{c11Rs2, c11Rs}}, {"ON", []string{c11Rs2, c11Sid3}},
		{"TON", []string{c11Rs, c11Rs2, c11Sid3}}, {"OO", []string{c11Rs2, c11Rs2}},
	}
	states := []c11Shape{{"7", ji(7)}, {"1", ji(1)}, {"0", ji(0)}, {"true", jb(true)}, {"false", jb(false)}, {"absent", nil}, {"str", js("1")}}
	list := func(w who, st *vj, extra ...vjm) *vj {
		var l []*vj
		for _, id := range w.ids {
			kvs := append([]vjm{}, extra...)
			if st != nil {
				kvs = append(kvs, kv("inCall", st))
			}
			l = append(l, ent(id, kvs...))
		}
		return ja(l...)
	}
	for _, w := range combos {
		for _, st := range states {
			for _, where := range []string{"users", "changed", "both"} {
				var ms []vjm
				if where != "users" {
					ms = append(ms, kv("changed", list(w, st.v)))
				}
				if where != "changed" {
					ms = append(ms, kv("users", list(w, st.v)))
				}
				doc := c11Req("incall", kv("incall", jo(append([]vjm{kv("incall", ji(7))}, ms...)...)))
				class := "d5/elsewhere/incall/" + where + "/" + w.name + "/" + st.name
				g.add(class, true, true, doc)
				if where == "both" && (st.name == "7" || st.name == "0") {
					g.add(class, false, true, doc)
				}
				if st.name == "7" || st.name == "absent" {
					pdoc := c11Req("participants", kv("participants", jo(ms...)))
					g.add("d5/elsewhere/participants/"+where+"/"+w.name+"/"+st.name, true, true, pdoc)
				}
			}
		}
		// permissions of a session elsewhere, changed through this room
		g.both("d5/elsewhere/participants/perm/"+w.name, c11Req("participants", kv("participants",
			jo(kv("changed", list(w, nil, kv("permissions", ja(js("publish-media"), js("control"))))), kv("users", list(w, ji(1)))))))
	}
	// the call state of the room in sequences: a session elsewhere never is in this room's call
	all := func(fl int64) *vj { return c11Req("incall", kv("incall", jo(kv("all", jb(true)), kv("incall", ji(fl))))) }
	chg := func(es ...*vj) *vj { return c11Req("incall", kv("incall", jo(kv("incall", ji(7)), kv("changed", ja(es...)), kv("users", ja(es...))))) }
	in := func(id string, fl int64) *vj { return ent(id, kv("inCall", ji(fl))) }
	g.add("d5/elsewhere/seq/other-joins-all-leave", true, true, chg(in(c11Rs2, 7)), all(0), all(1), all(0))
	g.add("d5/elsewhere/seq/all-join-other-leaves", true, true, all(1), chg(in(c11Rs2, 0)), all(1), all(0))
	g.add("d5/elsewhere/seq/both-join-other-leaves", true, true, chg(in(c11Rs, 7), in(c11Rs2, 7)), chg(in(c11Rs2, 0)), all(0), all(0))
	g.add("d5/elsewhere/seq/member-leaves-other-joins", true, true, all(1), chg(in(c11Rs, 0), in(c11Rs2, 7)), all(0), all(1))
	g.add("d5/elsewhere/seq/other-joins-member-joins", true, true, chg(in(c11Rs2, 1)), chg(in(c11Rs, 1)), all(1), all(0), all(0))
	g.add("d5/elsewhere/seq/nobody-joins", true, true, chg(in(c11Sid3, 7), in(c11Sid2, 7)), all(0))
	g.add("d5/elsewhere/seq/absent", false, true, chg(in(c11Rs2, 7)), chg(in(c11Rs, 7), in(c11Rs2, 7)), all(0))
	// other request types that name sessions / users elsewhere
	g.both("d5/elsewhere/disinvite/sessions-O", c11Req("disinvite", kv("disinvite", jo(kv("sessionids", ja(js(c11Rs2)))))))
	g.both("d5/elsewhere/disinvite/sessions-O-pub", c11Req("disinvite", kv("disinvite", jo(kv("sessionids", ja(js(c11Sid2), js(c11Sid3)))))))
	g.both("d5/elsewhere/disinvite/sessions-OT", c11Req("disinvite", kv("disinvite", jo(kv("sessionids", ja(js(c11Rs2), js(c11Rs)))))))
	g.both("d5/elsewhere/disinvite/users-O", c11Req("disinvite", kv("disinvite", jo(kv("userids", ja(js(c11User2), js(c11User3))), kv("alluserids", ja(js(c11User), js(c11User2)))))))
	g.both("d5/elsewhere/invite/users-O", c11Req("invite", kv("invite", jo(kv("userids", ja(js(c11User2))), kv("alluserids", ja(js(c11User), js(c11User2), js(c11User3)))))))
	g.both("d5/elsewhere/invite/users-TO", c11Req("invite", kv("invite", jo(kv("userids", ja(js(c11User), js(c11User2), js(c11User2)))))))
	g.both("d5/elsewhere/update/users-O", c11Req("update", kv("update", jo(kv("userids", ja(js(c11User2), js(c11User))), kv("properties", jo(kv("name", js("n"))))))))
	g.both("d5/elsewhere/delete/users-O", c11Req("delete", kv("delete", jo(kv("userids", ja(js(c11User2)))))))
	g.both("d5/elsewhere/message", c11Req("message", kv("message", c11Default("message"))))
	for _, sh := range []c11Shape{
		{"list-O", ja(js(c11Rs2))}, {"list-TO", ja(js(c11Rs), js(c11Rs2))}, {"list-pub", ja(js(c11Sid2), js(c11Sid3))},
		{"map-O", jo(kv(c11Rs2, jo(kv("k", js("v")))))}, {"map-TO", jo(kv(c11Rs, ji(1)), kv(c11Rs2, ji(2)))}, {"map-pub", jo(kv(c11Sid2, ji(1)))},
	} {
		g.both("d5/elsewhere/switchto/"+sh.name, c11Req("switchto", kv("switchto", jo(kv("roomid", js("t")), kv("sessions", sh.v)))))
	}
	g.both("d5/elsewhere/switchto/internal-list", c11Req("switchto", kv("switchto", jo(kv("roomid", js("t")), kv("sessionslist", ja(js(c11Sid2), js(c11Sid3)))))))
	g.both("d5/elsewhere/switchto/internal-map", c11Req("switchto", kv("switchto", jo(kv("roomid", js("t")), kv("sessionsmap", jo(kv(c11Sid2, jz()), kv(c11Sid3, ji(1))))))))
}

// user entries that reference no session: what fixupUserSessions drops (no
// "sessionId", one that is not a string, the "not in the meeting" id, an id no
// session is known for, the public session id in place of the room session id)
// and what is not an entry at all
func c11NobodyEntries() []c11Shape {
	sid := func(v *vj) *vj { return c11U(kv("sessionId", v), kv("inCall", ji(7))) }
	return []c11Shape{
		{"empty", jo()}, {"null", jz()},
		{"nosid", c11U(kv("userId", js("foo")), kv("inCall", ji(7)))},
		{"lower", c11U(kv("sessionid", js(c11Rs)), kv("inCall", ji(1)))},
		{"num", sid(ji(12345))}, {"float", sid(jf(15, -1))}, {"bool", sid(jb(true))}, {"sid-null", sid(jz())},
		{"arr", sid(ja(js(c11Rs)))}, {"obj", sid(jo(kv("id", js(c11Rs))))},
		{"zero", sid(js("0"))}, {"unknown", sid(js("nobody"))}, {"emptystr", sid(js(""))},
		{"public", sid(js(c11Sid))}, {"rs-prefix", sid(js(c11Rs + "x"))},
		{"perm", c11U(kv("sessionId", js("nobody")), kv("permissions", ja(js("control"))))},
	}
}

// "incall" (all not true) and "participants" requests whose entries all resolve to
// nobody - alone in "users", in "changed", in both, several together, with the room
// existing or not and with the client in the call or not - must reach no client;
// the same entries next to one valid entry must still produce the update.
func (g *c11Gen) nobody() {
	valid := c11U(kv("sessionId", js(c11Rs)), kv("inCall", ji(1)))
	entries := c11NobodyEntries()
	var all []*vj
	for _, e := range entries {
		all = append(all, e.v)
	}
	for _, ty := range []string{"incall", "participants"} {
		req := func(members ...vjm) *vj {
			if ty == "incall" {
				members = append([]vjm{kv("incall", ji(7))}, members...)
			}
			return c11Req(ty, kv(ty, jo(members...)))
		}
		var silent []*vj
		for _, e := range entries {
			u, c, b := req(kv("users", ja(e.v))), req(kv("changed", ja(e.v))), req(kv("changed", ja(e.v)), kv("users", ja(e.v)))
			g.add("d4/nobody/"+ty+"/users/"+e.name, true, true, u)
			g.add("d4/nobody/"+ty+"/changed/"+e.name, true, true, c)
			g.both("d4/nobody/"+ty+"/both/"+e.name, b)
			silent = append(silent, u, c)
			// next to one valid entry the request is a real one
			g.add("d4/nobody/"+ty+"/mixed-users/"+e.name, true, true, req(kv("users", ja(e.v, valid))))
			g.add("d4/nobody/"+ty+"/mixed-changed/"+e.name, true, true, req(kv("changed", ja(valid, e.v)), kv("users", ja(e.v))))
		}
		g.both("d4/nobody/"+ty+"/all-entries", req(kv("changed", ja(all[2:]...)), kv("users", ja(all[2:]...))))
		g.add("d4/nobody/"+ty+"/all-entries-valid", true, true, req(kv("changed", ja(all[2:]...)), kv("users", ja(append(append([]*vj{}, all[2:]...), valid)...))))
		g.add("d4/nobody/"+ty+"/all-false", true, true, req(kv("all", jb(false)), kv("users", ja(all[2], all[10]))))
		g.add("d4/nobody/"+ty+"/all-null", true, true, req(kv("all", jz()), kv("changed", ja(all[4], all[11]))))
		g.add("d4/nobody/"+ty+"/users-null", true, true, req(kv("users", jz()), kv("changed", ja(all[0]))))
		g.add("d4/nobody/"+ty+"/users-twice", true, true, req(kv("users", ja(valid)), kv("users", ja(all[10]))))
		g.add("d4/nobody/"+ty+"/users-twice2", true, true, req(kv("users", ja(all[10])), kv("users", ja(valid))))
		g.add("d4/nobody/"+ty+"/many", true, true, req(kv("users", jrepv(500, all[11])), kv("changed", jrepv(500, all[10]))))
		// the same with the client in the call (a request that is wrongly published
		// with empty lists then also shows as a participants update in that state):
		// everybody joins, the requests that name nobody, a real one at the end
		join := c11Req("incall", kv("incall", jo(kv("all", jb(true)), kv("incall", ji(1)))))
		for i := 0; i < len(silent); i += 8 {
			j := i + 8
			if j > len(silent) {
				j = len(silent)
			}
			docs := append([]*vj{join}, silent[i:j]...)
			docs = append(docs, req(kv("changed", ja(c11U(kv("sessionId", js(c11Rs)), kv("inCall", ji(0))))), kv("users", ja(all[3]))))
			g.add("d4/nobody/"+ty+"/in-call", true, true, docs...)
		}
	}
}

func c11membervalue(obj *vj, k string) *vj {
	for _, m := range obj.O {
		if m.K == k {
			return m.V
		}
	}
	return jo()
}

func c11HugeMap(n int) *vj {
	o := &vj{K: "o"}
	for i := 0; i < n; i++ {
		o.O = append(o.O, kv(fmt.Sprintf("n%d", i), ji(int64(i))))
	}
	return o
}

// the three confirmed defects of the unrepaired tree (DESIGN.md section 6) and the
// witnesses of the *_refuted theorems
func (g *c11Gen) witnesses() {
	g.add("witness/invite-no-sub", true, true, c11Req("invite"))
	g.add("witness/switchto-sessions-str", true, true, c11Req("switchto", kv("switchto", jo(kv("roomid", js("x")), kv("sessions", js("abc"))))))
	g.add("witness/update-no-sub", true, true, c11Req("update"))
	g.add("witness/update-no-sub-absent", false, true, c11Req("update"))
}

// ---- random stream ------------------------------------------------------------------------------

func c11RandomValue(r *vrng, depth int) *vj {
	switch n := r.intn(12); {
	case n == 0:
		return jz()
	case n == 1:
		return jb(r.chance(50))
	case n == 2:
		return ji(int64(r.intn(9)) - 2)
	case n == 3:
		return jf(int64(r.intn(40))-5, int64(r.intn(5))-2)
	case n == 4:
		return js(pick(r, []string{"", "x", c11Rs, c11User, c11Sid, "0", "nobody", "invite", "+49123", c11Rs2, c11User2, c11Sid2, c11Sid3}))
	case n == 5 && depth > 0:
		var l []*vj
		for i := r.intn(3); i > 0; i-- {
			l = append(l, c11RandomValue(r, depth-1))
		}
		return ja(l...)
	case n == 6 && depth > 0:
		o := jo()
		for i := r.intn(3); i > 0; i-- {
			o.O = append(o.O, kv(pick(r, []string{"sessionId", "inCall", "userId", "permissions", "a", "type", "sessions"}), c11RandomValue(r, depth-1)))
		}
		return o
	case n == 7:
		return ja(js(c11Rs))
	case n == 8:
		return ja(js(c11User))
	case n == 9:
		return ja(c11U(kv("sessionId", js(pick(r, []string{c11Rs, c11Rs, c11Rs2}))), kv("inCall", ji(int64(r.intn(3))))))
	case n == 10:
		return jo(kv(c11Rs, jo()))
	}
	return ji(1)
}

func c11Mutate(r *vrng, o *vj, depth int) *vj {
	if o.K != "o" || len(o.O) == 0 {
		return c11RandomValue(r, 2)
	}
	c := o.clone()
	i := r.intn(len(c.O))
	switch r.intn(9) {
	case 0: // drop
		c.O = append(c.O[:i], c.O[i+1:]...)
	case 1:
		c.O[i].V = jz()
	case 2:
		c.O[i].V = c11RandomValue(r, 2)
	case 3: // duplicate with another value
		c.O = append(c.O, kv(c.O[i].K, c11RandomValue(r, 2)))
	case 4:
		c.O = append(c.O, kv(pick(r, []string{"bogus", "Type", "users", "received", "sessionslist", "all"}), c11RandomValue(r, 2)))
	case 5:
		if len(c.O[i].K) > 0 {
			c.O[i].K = strings.ToUpper(c.O[i].K[:1]) + c.O[i].K[1:]
		}
	case 6:
		c.O[i].V = ja(c.O[i].V)
	case 7, 8: // go deeper
		if depth > 0 {
			c.O[i].V = c11Mutate(r, c.O[i].V, depth-1)
		} else {
			c.O[i].V = c11RandomValue(r, 1)
		}
	}
	return c
}

func (g *c11Gen) random(r *vrng) {
	exists := r.chance(70)
	n := 1 + r.intn(4)
	var docs []*vj
	class := "random"
	for i := 0; i < n; i++ {
		ty := pick(r, c11Types[:9])
		if r.chance(4) {
			ty = pick(r, []string{"transient", "foo", ""})
		}
		doc := c11Req(ty, kv(ty, c11Default(ty)))
		if ty == "incall" && r.chance(40) {
			doc = c11Req(ty, kv(ty, jo(kv("all", jb(true)), kv("incall", ji(int64(r.intn(4)))))))
		}
		if (ty == "incall" || ty == "participants") && r.chance(35) {
			// user lists drawn from the entries that reference nobody, now and then a valid one
			pool := c11NobodyEntries()
			list := func() *vj {
				var l []*vj
				for k := r.intn(4); k > 0; k-- {
					if r.chance(15) {
						l = append(l, c11U(kv("sessionId", js(c11Rs)), kv("inCall", ji(int64(r.intn(3))))))
					} else if r.chance(12) {
						l = append(l, c11U(kv("sessionId", js(c11Rs2)), kv("inCall", ji(int64(r.intn(3))))))
					} else {
						l = append(l, pool[r.intn(len(pool))].v)
					}
				}
				return ja(l...)
			}
			sub := jo()
			if ty == "incall" {
				sub.O = append(sub.O, kv("incall", ji(int64(r.intn(8)))))
			}
			if r.chance(80) {
				sub.O = append(sub.O, kv("users", list()))
			}
			if r.chance(80) {
				sub.O = append(sub.O, kv("changed", list()))
			}
			if r.chance(15) {
				sub.O = append(sub.O, kv("all", pick(r, []*vj{jb(false), jz()})))
			}
			doc = c11Req(ty, kv(ty, sub))
			if r.chance(60) {
				docs = append(docs, doc)
				continue
			}
		}
		for k := r.intn(4); k > 0; k-- {
			doc = c11Mutate(r, doc, 2)
		}
		docs = append(docs, doc)
	}
	c := g.add(class, exists, !r.chance(10), docs...)
	_ = c
}

// bodies that are not JSON documents
func (g *c11Gen) malformedText(r *vrng) {
	ty := pick(r, c11Types[:9])
	text := c11Req(ty, kv(ty, c11Default(ty))).text("SID")
	var raw string
	switch r.intn(8) {
	case 0:
		raw = text[:r.intn(len(text))]
	case 1:
		raw = text + pick(r, []string{"x", "}", "{}", ",", "\x00"})
	case 2:
		i := r.intn(len(text))
		raw = text[:i] + pick(r, []string{"\x01", "'", "\\", ",,", "nul", "tru", "01", "-", "+1", ".5", "1.", "1e", "\"\\x\"", "\"\\u12\""}) + text[i:]
	case 3:
		raw = pick(r, []string{"", " ", "nul", "{", "[", "\"", "{\"type\"}", "{\"type\":}", "{type:\"invite\"}", "{'type':'invite'}", "\xff\xfe", "NaN", "Infinity", "0x10", "[1,]", "{\"a\":1,}", "// c\n{}", "{\"type\":\"invite\",\"invite\":{\"userids\":[\"a\" \"b\"]}}"})
	case 4:
		raw = strings.Replace(text, ":", "=", 1)
	case 5:
		raw = strings.Replace(text, "\"", "", 1)
	case 6:
		raw = text[:len(text)-1]
	default:
		raw = strings.Repeat("[", 10+r.intn(100))
	}
	if json.Valid([]byte(raw)) {
		return
	}
	c := &c11Case{Id: len(g.cases), Exists: r.chance(70), Numeric: true, Class: "badsyntax"}
	c.Ops = []c11Op{{Raw: &raw}}
	g.cases = append(g.cases, c)
	g.hist["badsyntax"]++
}

// ---- the child process: fixture and execution --------------------------------------------------------

type c11LogLine struct {
	C          int      `json:"c"`
	O          int      `json:"o"`
	Ph         string   `json:"ph"`
	Status     int      `json:"status,omitempty"`
	Responsive bool     `json:"responsive,omitempty"`
	Closed     bool     `json:"closed,omitempty"`
	Events     []string `json:"events,omitempty"`
	Events2    []string `json:"events2,omitempty"`
	Blocked    string   `json:"blocked,omitempty"`
	Sid        string   `json:"sid,omitempty"`
}

type c11Fixture struct {
	t        *testing.T
	server   string
	client   *TestClient
	sid      string
	sentinel int
	httpc    *http.Client
	joinN    int
	srv      *httptest.Server
	hub      *Hub
	// the session elsewhere, the session in no room (and probe), see the constants
	client2, client3 *TestClient
	sid2, sid3       string
	probeN           int
	blocked          string // set by settle when the hub's main loop / a room's lock stands
}

// ---- liveness ("leaves the server running and responsive") -------------------------------------------
// Every wait of the harness on the server is bounded by c11LiveBound; a miss is the direct observation
// "blocked" (responsive = false with a note saying which probe was not answered): the process lives,
// but a lock is held for ever or the hub's main loop stands.  The hub of this child is then useless:
// the child reports the step and ends, the parent continues the list in a new child.
const c11LiveBound = 10 * time.Second

func c11Within(bound time.Duration, fn func()) bool {
	done := make(chan struct{})
	go func() {
		defer close(done)
		fn()
	}()
	select {
	case <-done:
		return true
	case <-time.After(bound):
		return false
	}
}

// observerRoom reads from the hub (not guessed from a missing answer) whether the observer's session
// still is in a room; ok = false: the hub's tables could not be read within the bound.
func (f *c11Fixture) observerRoom() (room *Room, ok bool) {
	ok = c11Within(c11LiveBound, func() {
		if s := f.hub.GetSessionByPublicId(f.sid); s != nil {
			room = s.GetRoom()
		}
	})
	return
}

// locksStand: some Room object's lock cannot be taken at any of 100 attempts spread over half a second
// (the server holds these locks for microseconds): somebody holds it for good, there is no point in
// waiting for the rest of the bound.
func (f *c11Fixture) locksStand() bool {
	stand := false
	c11Within(2*time.Second, func() {
		var rooms []*Room
		f.hub.ru.RLock()
		for _, r := range f.hub.rooms {
			rooms = append(rooms, r)
		}
		f.hub.ru.RUnlock()
		for _, r := range rooms {
			free := false
			for i := 0; i < 100 && !free; i++ {
				if r.mu.TryLock() {
					r.mu.Unlock()
					free = true
				} else {
					time.Sleep(5 * time.Millisecond)
				}
			}
			if !free {
				stand = true
				return
			}
		}
	})
	return stand
}

// await reads what client c receives until pred says stop; false = bound reached or connection closed
func c11Await(c *TestClient, bound time.Duration, pred func(m *ServerMessage) bool) bool {
	ctx, cancel := context.WithTimeout(context.Background(), bound)
	defer cancel()
	for {
		m, err := c.RunUntilMessage(ctx)
		if err != nil {
			return false
		}
		if m != nil && pred(m) {
			return true
		}
	}
}

// settle2: the probes that delimit what the session elsewhere received, which at the same time are the
// "further room request": a participants request for ITS room (Room object -> hub main loop -> event to
// the room) and an invite for its user.  note != "": not answered within the bound.
func (f *c11Fixture) settle2() (events []string, note string) {
	f.sentinel++
	n := f.sentinel
	if st := f.post(c11Room2, []byte(fmt.Sprintf(`{"type":"participants","participants":{"users":[{"sessionId":%q,"c11sentinel":%d}]}}`, c11Rs2, n))); st != 200 {
		return nil, fmt.Sprintf("a participants request for another room was answered %d", st)
	}
	if st := f.post(c11Room2, []byte(fmt.Sprintf(`{"type":"invite","invite":{"userids":[%q],"properties":{"c11sentinel":%d}}}`, c11User2, n))); st != 200 {
		return nil, fmt.Sprintf("an invite request for another room was answered %d", st)
	}
	gotI, gotP := false, false
	start := time.Now()
	checked := false
	for !(gotI && gotP) {
		wait := time.Until(start.Add(c11LiveBound))
		if !checked {
			wait = time.Until(start.Add(time.Second))
		}
		if wait <= 0 {
			if !checked {
				checked = true
				if f.locksStand() {
					return events, "a further room request (participants, for the room of the session elsewhere) was answered 200 but not processed (1.5 s; the lock of a Room object was held all the time)"
				}
				continue
			}
			return events, fmt.Sprintf("a further room request for the room of the session elsewhere was answered 200 but its event did not arrive within the bound (invite %v, participants %v)", gotI, gotP)
		}
		ctx, cancel := context.WithTimeout(context.Background(), wait)
		m, err := f.client2.RunUntilMessage(ctx)
		timedOut := err != nil && ctx.Err() != nil
		cancel()
		if timedOut {
			continue
		}
		if err != nil {
			return append(events, "(KOther 7)"), "the connection of the session elsewhere was closed"
		}
		kind, s, which := c11Kind(m)
		switch {
		case which == "join":
		case s == n && which == "I":
			gotI = true
		case s == n && which == "P":
			gotP = true
		case s != 0:
		default:
			events = append(events, kind)
		}
	}
	return events, ""
}

// probeLive: (3) a session can join the addressed room and leave it again, (4) a new client can connect,
// say hello and good-bye, (5) the tables of the hub and of every room can be read.
func (f *c11Fixture) probeLive(target string) string {
	f.probeN++
	id := fmt.Sprintf("c11probe%d", f.probeN)
	if err := f.client3.WriteJSON(&ClientMessage{Id: id, Type: "room", Room: &RoomClientMessage{RoomId: target, SessionId: c11Rs3}}); err != nil {
		return "the session in no room could not send: " + err.Error()
	}
	joined := false
	if !c11Await(f.client3, c11LiveBound, func(m *ServerMessage) bool {
		if m.Id != id {
			return false
		}
		joined = m.Type == "room" && m.Room != nil && m.Room.RoomId == target
		return true
	}) {
		return "a session could not join the addressed room within the bound"
	}
	if joined {
		if err := f.client3.WriteJSON(&ClientMessage{Id: id + "l", Type: "room", Room: &RoomClientMessage{RoomId: ""}}); err != nil {
			return "the session in no room could not send: " + err.Error()
		}
		if !c11Await(f.client3, c11LiveBound, func(m *ServerMessage) bool { return m.Id == id+"l" }) {
			return "a session could not leave the addressed room within the bound"
		}
	}
	// a new client
	note := ""
	if !c11Within(3*c11LiveBound, func() {
		ctx, cancel := context.WithTimeout(context.Background(), c11LiveBound)
		defer cancel()
		c := NewTestClientContext(ctx, f.t, f.srv, f.hub)
		defer c.conn.Close()
		if !c11Await(c, c11LiveBound, func(m *ServerMessage) bool { return m.Type == "welcome" }) {
			note = "a new connection did not get the welcome message within the bound"
			return
		}
		if err := c.SendHello(c11User4); err != nil {
			note = "a new client could not send hello: " + err.Error()
			return
		}
		if !c11Await(c, c11LiveBound, func(m *ServerMessage) bool { return m.Type == "hello" }) {
			note = "a new client did not get the answer to hello within the bound"
			return
		}
		if err := c.SendBye(); err != nil {
			note = "a new client could not send bye: " + err.Error()
			return
		}
		if !c11Await(c, c11LiveBound, func(m *ServerMessage) bool { return m.Type == "bye" }) {
			note = "a new client did not get the answer to bye within the bound"
		}
	}) {
		return "a new client was not served within the bound"
	}
	if note != "" {
		return note
	}
	// the tables
	if !c11Within(c11LiveBound, func() {
		f.hub.mu.RLock()
		_ = len(f.hub.sessions)
		f.hub.mu.RUnlock()
		var rooms []*Room
		f.hub.ru.RLock()
		for _, r := range f.hub.rooms {
			rooms = append(rooms, r)
		}
		f.hub.ru.RUnlock()
		for _, r := range rooms {
			r.mu.RLock()
			_ = len(r.sessions) + len(r.inCallSessions)
			r.mu.RUnlock()
		}
	}) {
		return "the tables of the hub and its rooms could not be read within the bound"
	}
	return ""
}

// connectExtra connects one more fixture session (hello only)
func (f *c11Fixture) connectExtra(user string) (*TestClient, string, error) {
	client := NewTestClient(f.t, f.srv, f.hub)
	if err := client.SendHello(user); err != nil {
		return nil, "", err
	}
	ctx, cancel := context.WithTimeout(context.Background(), 10*time.Second)
	defer cancel()
	hello, err := client.RunUntilHello(ctx)
	if err != nil {
		return nil, "", err
	}
	return client, hello.Hello.SessionId, nil
}

func (f *c11Fixture) setupOthers() error {
	var err error
	if f.client2, f.sid2, err = f.connectExtra(c11User2); err != nil {
		return err
	}
	if f.client3, f.sid3, err = f.connectExtra(c11User3); err != nil {
		return err
	}
	c11Sid2Val, c11Sid3Val = f.sid2, f.sid3
	if err := f.client2.WriteJSON(&ClientMessage{Id: "c11join2", Type: "room", Room: &RoomClientMessage{RoomId: c11Room2, SessionId: c11Rs2}}); err != nil {
		return err
	}
	ok := false
	if !c11Await(f.client2, c11LiveBound, func(m *ServerMessage) bool {
		if m.Id != "c11join2" {
			return false
		}
		ok = m.Type == "room" && m.Room != nil && m.Room.RoomId == c11Room2
		return true
	}) || !ok {
		return fmt.Errorf("the session elsewhere could not join its room")
	}
	if _, note := f.settle2(); note != "" {
		return fmt.Errorf("fixture: %s", note)
	}
	return nil
}

func (f *c11Fixture) post(room string, body []byte) int {
	req, err := http.NewRequest("POST", f.server+"/api/v1/room/"+room, bytes.NewReader(body))
	if err != nil {
		return -1
	}
	req.Header.Set("Content-Type", "application/json")
	rnd := newRandomString(32)
	req.Header.Set(HeaderBackendSignalingRandom, rnd)
	req.Header.Set(HeaderBackendSignalingChecksum, CalculateBackendChecksum(rnd, body, testBackendSecret))
	req.Header.Set(HeaderBackendServer, f.server)
	res, err := f.httpc.Do(req)
	if err != nil {
		return 0 // connection closed without a reply
	}
	io.Copy(io.Discard, res.Body)
	res.Body.Close()
	return res.StatusCode
}

// projection of what the client reads; sentinel > 0 for the probes of the harness
func c11Kind(m *ServerMessage) (kind string, sentinel int, which string) {
	switch m.Type {
	case "room":
		if m.Room != nil && m.Room.RoomId == "" {
			return "KRoomLeft", 0, ""
		}
		return "KRoomProps", 0, ""
	case "event":
		ev := m.Event
		if ev == nil {
			return "(KOther 1)", 0, ""
		}
		switch ev.Target {
		case "roomlist":
			switch ev.Type {
			case "invite":
				if ev.Invite != nil && bytes.Contains(ev.Invite.Properties, []byte("c11sentinel")) {
					var p struct {
						N int `json:"c11sentinel"`
					}
					json.Unmarshal(ev.Invite.Properties, &p)
					return "", p.N, "I"
				}
				return "KInvite", 0, ""
			case "disinvite":
				return "KDisinvite", 0, ""
			case "update":
				return "KRoomlistUpdate", 0, ""
			}
			return "(KOther 2)", 0, ""
		case "participants":
			if ev.Type == "update" && ev.Update != nil {
				if ev.Update.All {
					var fl int64
					json.Unmarshal(ev.Update.InCall, &fl)
					return fmt.Sprintf("(KInCallAll %s)", coqZ(fl)), 0, ""
				}
				for _, u := range ev.Update.Users {
					if n, ok := u["c11sentinel"].(float64); ok {
						return "", int(n), "P"
					}
				}
				return fmt.Sprintf("(KParticipants %d)", len(ev.Update.Users)), 0, ""
			}
			return "(KOther 3)", 0, ""
		case "room":
			switch ev.Type {
			case "message":
				return "KRoomMessage", 0, ""
			case "switchto":
				return "KSwitchTo", 0, ""
			case "join":
				return "", 0, "join" // own join after entering the room of the case: not an effect of a request
			case "leave":
				// the probe session leaving the addressed room again: not an effect of a request
				if len(ev.Leave) == 1 && c11Sid3Val != "" && ev.Leave[0] == c11Sid3Val {
					return "", 0, "join"
				}
			}
			return "(KOther 4)", 0, ""
		}
		return "(KOther 5)", 0, ""
	}
	return "(KOther 6)", 0, ""
}

// settle sends the probes and collects everything the client received before they
// came back: a participants probe through the Room object and the hub main loop
// (only while the client is in a room) and an invite probe through the user
// subject.  responsive = the invite probe came back.  closed = the server closed
// the client's connection (a disinvite for the room the session is in does that, by
// design); the fixture then connects a fresh client and probes again.
func (f *c11Fixture) settle(room string, inRoom *bool) (events []string, responsive, closed bool) {
	f.sentinel++
	n := f.sentinel
	wantP := *inRoom
	if wantP {
		f.post(room, []byte(fmt.Sprintf(`{"type":"participants","participants":{"users":[{"sessionId":%q,"c11sentinel":%d}]}}`, c11Rs, n)))
	}
	st := f.post(room, []byte(fmt.Sprintf(`{"type":"invite","invite":{"userids":[%q],"properties":{"c11sentinel":%d}}}`, c11User, n)))
	if st != 200 {
		return nil, false, false
	}
	gotI, gotP := false, false
	deadline := time.Now().Add(10 * time.Second)
	var pDeadline time.Time
	pExtended := false
	for {
		var wait time.Duration
		switch {
		case !gotI:
			wait = time.Until(deadline)
		case wantP && !gotP:
			if pDeadline.IsZero() {
				pDeadline = time.Now().Add(300 * time.Millisecond)
			}
			wait = time.Until(pDeadline)
		default:
			wait = 5 * time.Millisecond
		}
		var m *ServerMessage
		var err error
		timedOut := wait <= 0
		if !timedOut {
			ctx, cancel := context.WithTimeout(context.Background(), wait)
			m, err = f.client.RunUntilMessage(ctx)
			timedOut = err != nil && ctx.Err() != nil
			cancel()
		}
		if timedOut {
			if !gotI {
				f.blocked = "the invite probe for the observer was answered 200 but its event did not arrive within the bound"
				return events, false, false
			}
			if wantP && !gotP {
				// Is the observer still in a room?  Read from the hub: when the room is gone (deleted),
				// there are no further probes through it.  When it is not, the probe has to come: it
				// waits in the Room object's goroutine or in the hub's main loop.
				r, ok := f.observerRoom()
				if !ok {
					f.blocked = "the hub's session table could not be read within the bound"
					return events, false, false
				}
				if r == nil {
					*inRoom = false
					wantP = false
					continue
				}
				if !pExtended {
					pExtended = true
					if f.locksStand() {
						f.blocked = "a further room request (participants, for the room of the observer) was answered 200 but not processed (0.8 s; the lock of a Room object was held all the time)"
						return events, false, false
					}
					pDeadline = time.Now().Add(c11LiveBound)
					continue
				}
				f.blocked = "a further room request (participants, for the room of the observer) was answered 200 but its event did not arrive within the bound although the observer is in the room"
				return events, false, false
			}
			return events, true, false
		}
		if err != nil {
			// connection closed by the server
			*inRoom = false
			if rerr := f.connect(); rerr != nil {
				return events, false, true
			}
			f.sentinel++
			n2 := f.sentinel
			if f.post(room, []byte(fmt.Sprintf(`{"type":"invite","invite":{"userids":[%q],"properties":{"c11sentinel":%d}}}`, c11User, n2))) != 200 {
				return events, false, true
			}
			ctx, cancel := context.WithTimeout(context.Background(), 10*time.Second)
			defer cancel()
			for {
				m, err := f.client.RunUntilMessage(ctx)
				if err != nil {
					return events, false, true
				}
				if _, s, which := c11Kind(m); s == n2 && which == "I" {
					return events, true, true
				}
			}
		}
		kind, s, which := c11Kind(m)
		switch {
		case which == "join":
		case s == n && which == "I":
			gotI = true
		case s == n && which == "P":
			gotP = true
		case s != 0:
			// a probe of an earlier step: ignore
		default:
			events = append(events, kind)
		}
	}
}

func (f *c11Fixture) connect() error {
	client := NewTestClient(f.t, f.srv, f.hub)
	if err := client.SendHello(c11User); err != nil {
		return err
	}
	ctx, cancel := context.WithTimeout(context.Background(), 10*time.Second)
	defer cancel()
	hello, err := client.RunUntilHello(ctx)
	if err != nil {
		return err
	}
	f.client = client
	f.sid = hello.Hello.SessionId
	f.joinN = 0
	return nil
}

func (f *c11Fixture) join(room string) error {
	f.joinN++
	id := fmt.Sprintf("c11join%d", f.joinN)
	if f.joinN > 1 {
		// leave first: joining with a room session id that is still registered closes the session
		if err := f.client.WriteJSON(&ClientMessage{Id: id + "leave", Type: "room", Room: &RoomClientMessage{RoomId: ""}}); err != nil {
			return err
		}
	}
	msg := &ClientMessage{Id: id, Type: "room", Room: &RoomClientMessage{RoomId: room, SessionId: c11Rs}}
	if err := f.client.WriteJSON(msg); err != nil {
		return err
	}
	ctx, cancel := context.WithTimeout(context.Background(), 10*time.Second)
	defer cancel()
	for {
		m, err := f.client.RunUntilMessage(ctx)
		if err != nil {
			return err
		}
		if m.Type == "room" && m.Id == id {
			if m.Room == nil || m.Room.RoomId != room {
				return fmt.Errorf("join of %s answered with %+v", room, m.Room)
			}
			return nil
		}
		if m.Type == "error" && m.Id == id {
			return fmt.Errorf("join of %s failed: %+v", room, m.Error)
		}
	}
}

func c11RoomId(c *c11Case) (target, own string) {
	if c.Numeric {
		target = fmt.Sprintf("77%06d", c.Id)
	} else {
		target = fmt.Sprintf("c11room%06d", c.Id)
	}
	if c.Exists {
		return target, target
	}
	return target, "88" + fmt.Sprintf("%06d", c.Id)
}

func c11Child(t *testing.T, batchFile, logFile string) {
	data, err := os.ReadFile(batchFile)
	if err != nil {
		t.Fatal(err)
	}
	var cases []*c11Case
	if err := json.Unmarshal(data, &cases); err != nil {
		t.Fatal(err)
	}
	lf, err := os.Create(logFile)
	if err != nil {
		t.Fatal(err)
	}
	w := bufio.NewWriter(lf)
	emit := func(l c11LogLine) {
		b, _ := json.Marshal(l)
		w.Write(append(b, '\n'))
		w.Flush()
		lf.Sync()
	}
	log.SetOutput(io.Discard)
	_, _, _, hub, _, server := CreateBackendServerForTest(t)
	f := &c11Fixture{t: t, server: server.URL, srv: server, hub: hub,
		httpc: &http.Client{Transport: &http.Transport{DisableKeepAlives: true}, Timeout: 30 * time.Second}}
	if err := f.connect(); err != nil {
		t.Fatal(err)
	}
	if err := f.setupOthers(); err != nil {
		t.Fatal(err)
	}
	emit(c11LogLine{C: -1, Ph: "ready", Sid: f.sid})
	for ci, c := range cases {
		target, own := c11RoomId(c)
		if err := f.join(own); err != nil {
			t.Fatalf("case %d: %v", c.Id, err)
		}
		inRoom := true
		if _, ok, closed := f.settle(own, &inRoom); !ok || !inRoom || closed {
			t.Fatalf("case %d: fixture not responsive after joining %s", c.Id, own)
		}
		for oi := range c.Ops {
			emit(c11LogLine{C: ci, O: oi, Ph: "start"})
			st := f.post(target, []byte(c.Ops[oi].bodyText(f.sid)))
			emit(c11LogLine{C: ci, O: oi, Ph: "reply", Status: st})
			f.blocked = ""
			evs, ok, closed := f.settle(own, &inRoom)
			sort.Strings(evs)
			// the session elsewhere: what it received; then the liveness probes
			var evs2 []string
			note := f.blocked
			if ok {
				evs2, note = f.settle2()
				sort.Strings(evs2)
				if note == "" {
					note = f.probeLive(target)
				}
			} else if note == "" {
				note = "the probes for the observer were not answered"
			}
			emit(c11LogLine{C: ci, O: oi, Ph: "done", Status: st, Responsive: ok && note == "", Closed: closed, Events: evs, Events2: evs2, Blocked: note})
			if note != "" {
				// blocked: this hub serves nobody any more; the parent goes on with a new one
				emit(c11LogLine{C: ci, O: oi, Ph: "blocked", Blocked: note})
				w.Flush()
				lf.Close()
				os.Exit(0)
			}
			if closed {
				break // the client of this case is gone: the rest of the history is not executed
			}
		}
	}
	emit(c11LogLine{C: len(cases), Ph: "end"})
	w.Flush()
	lf.Close()
	os.Exit(0) // no clean-up: the parent only reads the log
}

// ---- the parent: batches, children, judging ----------------------------------------------------------

// c11RunChunk runs one chunk of the case list in child processes, one after the other: a child that
// died (process exit = observation for the request in flight) or reported "blocked" (the hub serves
// nobody any more = observation for that request) is replaced by a new one for the rest of the chunk.
func c11RunChunk(env verifEnv, chunk int, batch []*c11Case) (children, deaths, blocked int, err error) {
	for start := 0; start < len(batch); {
		rest := batch[start:]
		children++
		base := filepath.Join(env.out, fmt.Sprintf("child_%04d_%02d", chunk, children))
		data, _ := json.Marshal(rest)
		if werr := os.WriteFile(base+".batch.json", data, 0o644); werr != nil {
			return children, deaths, blocked, werr
		}
		cmd := exec.Command(os.Args[0], "-test.run", "^TestVerifC11$", "-test.count=1", "-test.timeout", "1200s")
		cmd.Env = append(os.Environ(), "VERIF_C11_CHILD="+base+".batch.json", "VERIF_C11_LOG="+base+".log")
		var out bytes.Buffer
		cmd.Stdout = &out
		cmd.Stderr = &out
		runErr := cmd.Run()
		os.WriteFile(base+".out", out.Bytes(), 0o644)
		// read the log
		lastC, lastO, lastPh, lastStatus, ended, wasBlocked := -1, -1, "", 0, false, false
		if lf, oerr := os.Open(base + ".log"); oerr == nil {
			sc := bufio.NewScanner(lf)
			sc.Buffer(make([]byte, 1<<20), 1<<26)
			for sc.Scan() {
				var l c11LogLine
				if json.Unmarshal(sc.Bytes(), &l) != nil {
					continue
				}
				switch l.Ph {
				case "start":
					lastC, lastO, lastPh = l.C, l.O, "start"
				case "reply":
					lastPh, lastStatus = "reply", l.Status
				case "done":
					lastPh = "done"
					op := &rest[l.C].Ops[l.O]
					op.Status, op.Responsive, op.Closed, op.Events, op.Events2, op.Blocked, op.Done = l.Status, l.Responsive, l.Closed, l.Events, l.Events2, l.Blocked, true
				case "blocked":
					wasBlocked = true
				case "end":
					ended = true
				}
			}
			lf.Close()
		}
		if ended {
			return
		}
		if wasBlocked && lastC >= 0 {
			// the rest of that case's history is not executed (the judge stops at the step)
			blocked++
			start += lastC + 1
			continue
		}
		// the child did not finish: a process exit is an observation for the request that was in flight
		txt := out.String()
		if lastC < 0 || lastPh == "done" || lastPh == "" || !(strings.Contains(txt, "panic:") || strings.Contains(txt, "fatal error:")) {
			tail := txt
			if len(tail) > 3000 {
				tail = tail[len(tail)-3000:]
			}
			return children, deaths, blocked, fmt.Errorf("C11 harness: child %d of chunk %d stopped outside a request (err=%v, last case %d op %d phase %q):\n%s", children, chunk, runErr, lastC, lastO, lastPh, tail)
		}
		deaths++
		c := rest[lastC]
		op := &c.Ops[lastO]
		op.Done, op.Died, op.Responsive = true, true, false
		if lastPh == "reply" {
			op.Status = lastStatus
		}
		if i := strings.Index(txt, "panic:"); i >= 0 {
			p := txt[i:]
			if len(p) > 1500 {
				p = p[:1500]
			}
			c.Panic = p
		}
		start += lastC + 1
	}
	return
}

// the chunks are independent (every child has its own server, hub and event bus): three at a time
func c11RunBatches(t *testing.T, env verifEnv, cases []*c11Case, batchSize int) (children, deaths, blocked int) {
	type res struct {
		children, deaths, blocked int
		err                       error
	}
	var chunks [][]*c11Case
	for start := 0; start < len(cases); start += batchSize {
		end := start + batchSize
		if end > len(cases) {
			end = len(cases)
		}
		chunks = append(chunks, cases[start:end])
	}
	results := make([]res, len(chunks))
	sem := make(chan struct{}, 3)
	done := make(chan int)
	for i := range chunks {
		go func(i int) {
			sem <- struct{}{}
			r := &results[i]
			r.children, r.deaths, r.blocked, r.err = c11RunChunk(env, i, chunks[i])
			<-sem
			done <- i
		}(i)
	}
	for range chunks {
		<-done
	}
	for _, r := range results {
		if r.err != nil {
			t.Fatal(r.err)
		}
		children += r.children
		deaths += r.deaths
		blocked += r.blocked
	}
	return
}

func TestVerifC11(t *testing.T) {
	if bf := os.Getenv("VERIF_C11_CHILD"); bf != "" {
		c11Child(t, bf, os.Getenv("VERIF_C11_LOG"))
		return
	}
	env := getVerifEnv(t, "C11")
	sink := newCaseSink(t, env, "C11", "corr.Run_C11", 60)
	sink.preamble = "Open Scope string_scope.\n"
	_, fixed := reflect.TypeOf(&BackendServerRoomRequest{}).MethodByName("CheckValid")

	g := &c11Gen{hist: map[string]int{}}
	enumerated := 0
	if env.replay != "" {
		var cs []c11Case
		readReplay(t, env.replay, &cs)
		for i := range cs {
			c := cs[i]
			for j := range c.Ops {
				c.Ops[j].Done, c.Ops[j].Died, c.Ops[j].Closed, c.Ops[j].Events, c.Ops[j].Status = false, false, false, nil, 0
				c.Ops[j].Events2, c.Ops[j].Blocked, c.Ops[j].Responsive = nil, "", false
			}
			// The ids of the replay file are kept: the driver re-runs failing cases to confirm
			// them and matches the verdicts by case id (renumbering them here made every
			// confirmation miss, so that genuine failures were dropped as "did not reproduce").
			// Only a file without usable ids (all zero or repeated) is numbered by position.
			g.cases = append(g.cases, &c)
		}
		seenId := map[int]bool{}
		for _, c := range g.cases {
			if seenId[c.Id] {
				for i, c2 := range g.cases {
					c2.Id = i
				}
				break
			}
			seenId[c.Id] = true
		}
	} else {
		g.witnesses()
		enumerated = g.enumerate()
		nr, nb := 250, 80
		if env.thorough() {
			nr, nb = 6000, 1500
		}
		for i := 0; i < nr; i++ {
			g.random(newVrng(env.seed, uint64(1000+i)))
		}
		for i := 0; i < nb; i++ {
			g.malformedText(newVrng(env.seed, uint64(900000+i)))
		}
	}
	for _, c := range g.cases {
		c.Fixed = fixed
	}
	children, deaths, blockedHubs := c11RunBatches(t, env, g.cases, 150)

	// translator self-test: the schema of the running package is the generated one
	var rows []string
	idx := 0
	addSchema := func(name string, t reflect.Type) {
		rows = append(rows, fmt.Sprintf("(%d%%N, schema_%s, %s)", idx, name, c11CoqSchema(c11Schema(t))))
		idx++
	}
	addSchema("BackendServerRoomRequest", reflect.TypeOf(BackendServerRoomRequest{}))
	for _, f := range c11Schema(reflect.TypeOf(BackendServerRoomRequest{})) {
		if f.T.Kind() == reflect.Ptr && f.T.Elem().Kind() == reflect.Struct {
			addSchema(f.T.Elem().Name(), f.T.Elem())
		}
	}
	sink.extraFile("schema", "From Coq Require Import List ZArith NArith String.\nFrom Verif Require Import gen.Schema corr.Run_C11.\nImport ListNotations.\nOpen Scope string_scope.\n"+
		"Definition result := Eval vm_compute in schema_mismatches "+coqList(rows)+".\nPrint result.\n")

	for _, c := range g.cases {
		statuses := []string{}
		nontrivial := false
		for i := range c.Ops {
			o := &c.Ops[i]
			if !o.Done {
				break
			}
			switch {
			case o.Died:
				sink.count("obs/process-died")
			case o.Blocked != "":
				sink.count("obs/hub-blocked")
			case o.Status == 0:
				sink.count("obs/no-reply")
			default:
				sink.count(fmt.Sprintf("obs/status-%d", o.Status))
			}
			if len(o.Events) > 0 {
				sink.count("obs/with-events")
				nontrivial = true
			}
			if len(o.Events2) > 0 {
				sink.count("obs/with-events-elsewhere")
				nontrivial = true
			}
			statuses = append(statuses, fmt.Sprintf("%d%v%v%v%v", o.Status, o.Died, o.Events, o.Events2, o.Blocked != ""))
		}
		cls := c.Class
		if i := strings.Index(cls, "/"); i >= 0 {
			cls = cls[:i]
		}
		sink.count("class/" + cls)
		if c.Exists {
			sink.count("room/exists")
		} else {
			sink.count("room/absent")
		}
		key := c.Ops[0].bodyText("S") + strings.Join(statuses, "|")
		if len(key) > 300 {
			key = key[:300] + fmt.Sprint(len(key))
		}
		sink.add(c.coq(), c, nontrivial || !strings.HasPrefix(c.Class, "d1"), fmt.Sprintf("%v|%s", c.Exists, key))
	}
	sink.stats.Histogram["shape_enumeration_cases"] = enumerated
	sink.stats.Histogram["child_processes"] = children
	sink.stats.Histogram["child_deaths"] = deaths
	sink.stats.Histogram["child_hubs_blocked"] = blockedHubs
	if fixed {
		sink.stats.Histogram["tree_has_CheckValid"] = 1
	} else {
		sink.stats.Histogram["tree_has_CheckValid"] = 0
	}
	sink.stats.Notes = append(sink.stats.Notes, "events are those received by one client session (user c11-user, room session c11-rs) that is in the addressed room (room/exists) or in another room (room/absent)")
	sink.close("signed bodies through the real BackendServer + Hub, each batch in a child process: shape enumeration over the request schema read by reflection (document / type / sub-object / member / user-entry positions x shapes, room exists or not), repeated member names, nesting limit, state-dependent sequences, a random mutation stream (1-4 requests per case) and a stream of bodies that are not JSON; non-trivial = beyond depth 1 or with events; distinct = distinct (room, first body, observations)")
}
