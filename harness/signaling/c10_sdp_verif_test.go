//go:build verif

package signaling

// C10, media signalling whose SDP does not parse - with hostile bytes where the parser quotes the input.
//
// The server answers an offer / answer it cannot parse with the error "invalid_sdp" and puts the parser's
// message into the details of the error.  The pion parser has two families of failures: syntax errors, reported
// by position with the offending byte quoted in ASCII, and "invalid value" failures that ECHO the offending
// field or line verbatim (origin / connection network and address types, bandwidth lines, repeat times, time
// zone offsets, media name / port / port range / protocol, the same lines at media level).  Whatever the
// client wrote there comes back to it inside a JSON string of the reply: "the sender gets a well-formed reply"
// then depends on how the server writes strings it did not choose.  Every failing branch of the parser
// (c10SdpTemplates; "@" marks the echoed position) is combined with every hostile value (c10SdpHostile: control
// characters, NUL, ESC, DEL, the characters JSON escapes, U+2028, NEL, runes above U+FFFF - printable and not -,
// invalid UTF-8, a lone surrogate, HTML), as offer and as answer, to the recipients for which the media data
// is validated (a session - the own one, a connected one, one without connection -, the room, the call), in
// every state with a session.  The generator asks the real parser which texts fail and whether the message
// quotes the value (histogram gen/sdp_hostile_*): the class is defined by the parser, not by this list.

import (
	"bytes"
	"fmt"

	"github.com/pion/sdp/v3"
)

type c10SdpTemplate struct {
	name string
	text string // "@" is replaced by the hostile value
}

func c10SdpTemplates() []c10SdpTemplate {
	pre := "v=0\r\no=- 1 1 IN IP4 127.0.0.1\r\ns=-\r\n"
	tm := pre + "t=0 0\r\n"
	media := tm + "m=audio 9 UDP/TLS/RTP/SAVPF 111\r\n"
	return []c10SdpTemplate{
		// failures that echo the value
		{"origin-nettype", "v=0\r\no=- 1 1 @ IP4 127.0.0.1\r\n"},
		{"origin-addrtype", "v=0\r\no=- 1 1 IN @ 127.0.0.1\r\n"},
		{"conn-nettype", pre + "c=@ IP4 127.0.0.1\r\n"},
		{"conn-addrtype", pre + "c=IN @ 127.0.0.1\r\n"},
		{"bandwidth-no-colon", pre + "b=@\r\n"},
		{"bandwidth-type", pre + "b=@:1\r\n"},
		{"bandwidth-value", pre + "b=AS:@\r\n"},
		{"repeat-interval", tm + "r=@ 1 0\r\n"},
		{"repeat-duration", tm + "r=1 @ 0\r\n"},
		{"repeat-offset", tm + "r=1 1 @\r\n"},
		{"zone-offset", tm + "z=0 @\r\n"},
		{"media-name", tm + "m=@ 9 UDP/TLS/RTP/SAVPF 96\r\n"},
		{"media-port", tm + "m=audio @ UDP/TLS/RTP/SAVPF 96\r\n"},
		{"media-port-range", tm + "m=audio 9/@ UDP/TLS/RTP/SAVPF 96\r\n"},
		{"media-proto", tm + "m=audio 9 UDP/@ 96\r\n"},
		{"media-conn-addrtype", media + "c=IN @ 1.1.1.1\r\n"},
		{"media-conn-nettype", media + "c=@ IP4 1.1.1.1\r\n"},
		{"media-bandwidth", media + "b=@:5\r\n"},
		// after a valid description of two media sections (what a browser sends, then the hostile line)
		{"full-media-bandwidth", hdSdp(3) + "b=AS:@\r\n"},
		// syntax errors (reported by position)
		{"version", "v=@\r\n"},
		{"origin-session-id", "v=0\r\no=- @ 1 IN IP4 127.0.0.1\r\n"},
		{"timing", pre + "t=@ 0\r\n"},
		{"zone-time", tm + "z=@ 0\r\n"},
		{"line-key", tm + "@=1\r\n"},
	}
}

type c10SdpValue struct {
	name string
	val  string // bytes; no space, CR, LF, "/" or ":" (they would end the field)
}

func c10SdpHostile() []c10SdpValue {
	return []c10SdpValue{
		{"ctl-del", "\x01X\x7f"},
		{"nul", "a\x00b"},
		{"esc", "\x1b[31m"},
		{"bell-vt-bs-ff", "\x07\x0b\x08\x0c"},
		{"tab", "a\tb"},
		{"quote", `a"b`},
		{"backslash", `a\b`},
		{"backslash-x", `\x41A\"`},
		{"u2028", "a\u2028b"},
		{"nel", "a\u0085b"},
		{"astral-tag", "a\U000e0001b"},
		{"astral-emoji", "\U0001f600"},
		{"invalid-utf8", "a\xff\xfeb"},
		{"surrogate-half", "a\xed\xa0\x80b"},
		{"truncated-rune", "ab\xe2\x82"},
		{"html", "<script>&amp;'"},
		{"del-only", "\x7f"},
	}
}

// the SDP parser's verdict on a text: does it fail, and does its message contain the value?
func c10SdpFails(text, value string) (fails, echoed bool) {
	var sd sdp.SessionDescription
	err := sd.Unmarshal([]byte(text))
	if err == nil {
		return false, false
	}
	return true, bytes.Contains([]byte(err.Error()), []byte(value))
}

func c10SdpMessage(id, ty, roomType string, rc *vj, text string) *vj {
	data := jo(kv("type", js(ty)), kv("sid", js("1")), kv("roomType", js(roomType)),
		kv("payload", jo(kv("type", js(ty)), kv("sdp", js(c10Bytes([]byte(text)))))))
	return c10Msg(id, "message", kv("message", jo(kv("recipient", rc), kv("data", data))))
}

func (g *c10Gen) sdpItems() {
	type rcpt struct {
		n       string
		v       *vj
		session bool
	}
	rcpts := []rcpt{
		{"self", c10Recipient("session", kv("sessionid", js(c10Sid))), true},
		{"room", c10Recipient("room"), false},
		{"other", c10Recipient("session", kv("sessionid", js(c10Bid))), true},
		{"call", c10Recipient("call"), false},
		{"offline", c10Recipient("session", kv("sessionid", js(c10Oid))), true},
	}
	types := []string{"offer", "answer"}
	roomTypes := []string{"video", "screen", "audio"}
	sessionStates := []int{1, 2, 3, 4, 5, 8} // a message to a session id is validated wherever the sender has a session
	roomStates := []int{2, 3, 5, 8}          // ... to the room / the call when the sender is in a room
	add := func(class string, doc *vj, home ...int) {
		g.items = append(g.items, c10Item{class, doc, home})
		g.hist["sdp_hostile"] += len(home)
	}
	tpls, vals := c10SdpTemplates(), c10SdpHostile()
	sub := func(t c10SdpTemplate, v c10SdpValue) string {
		return string(bytes.ReplaceAll([]byte(t.text), []byte("@"), []byte(v.val)))
	}
	// every branch x every value; type, recipient and state rotate so that each of them meets every branch and every value
	for ti, t := range tpls {
		for vi, v := range vals {
			text := sub(t, v)
			fails, echoed := c10SdpFails(text, v.val)
			if !fails {
				g.hist["sdp_hostile_parsed_anyway"]++
			}
			if echoed {
				g.hist["sdp_hostile_echoed"]++
			}
			ty := types[(ti+vi)%2]
			rc := rcpts[(ti+vi/2)%len(rcpts)]
			states := roomStates
			if rc.session {
				states = sessionStates
			}
			st := states[(2*ti+vi)%len(states)]
			add(fmt.Sprintf("sdp/%s/%s/%s-%s", t.name, v.name, ty, rc.n), c10SdpMessage("sd1", ty, roomTypes[(ti+vi)%3], rc.v, text), st)
		}
	}
	// two of them in every combination of type x recipient x state
	for _, p := range [][2]int{{0, 0}, {17, 10}, {6, 12}} {
		t, v := tpls[p[0]], vals[p[1]]
		text := sub(t, v)
		for _, ty := range types {
			for _, rc := range rcpts[:4] {
				states := roomStates
				if rc.session {
					states = sessionStates
				}
				add(fmt.Sprintf("sdp-all/%s/%s/%s-%s", t.name, v.name, ty, rc.n), c10SdpMessage("sd2", ty, "video", rc.v, text), states...)
			}
		}
	}
}
