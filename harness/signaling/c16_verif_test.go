//go:build verif

package signaling

import (
	"bufio"
	"encoding/hex"
	"encoding/json"
	"fmt"
	"io"
	"log"
	"math/big"
	"net"
	"net/http"
	"net/http/httptest"
	"sort"
	"strings"
	"sync"
	"testing"
	"time"
	"unicode/utf8"

	"github.com/dlintw/goconf"
	"github.com/gorilla/mux"
)

// ---- C16: the real GetRealUserIP / AllowedIps / stats gate against RealIP.v ----
//
// Every op is self-contained (it names its own configuration), so every
// sub-list of the ops of a case is a valid case.

// c16Str is a string that survives JSON even when it is not valid UTF-8.
type c16Str string

func c16Plain(s string) bool {
	for i := 0; i < len(s); i++ {
		if s[i] < 0x20 || s[i] > 0x7e {
			return false
		}
	}
	return true
}

func (s c16Str) MarshalJSON() ([]byte, error) {
	if utf8.ValidString(string(s)) {
		return json.Marshal(string(s))
	}
	return json.Marshal(map[string]string{"hex": hex.EncodeToString([]byte(s))})
}

func (s *c16Str) UnmarshalJSON(b []byte) error {
	var plain string
	if err := json.Unmarshal(b, &plain); err == nil {
		*s = c16Str(plain)
		return nil
	}
	var m map[string]string
	if err := json.Unmarshal(b, &m); err != nil {
		return err
	}
	raw, err := hex.DecodeString(m["hex"])
	if err != nil {
		return err
	}
	*s = c16Str(raw)
	return nil
}

type c16Op struct {
	// realip: GetRealUserIP(r, ParseAllowedIps(trusted)) (trusted absent: nil list)
	// hub:    hub.getRealUserIP(r) of a hub configured with app.trustedproxies = trusted
	// stats:  GET on the gated endpoint through the hub's router (handler called directly)
	// socket: the same over a real TCP connection (peer is 127.0.0.1)
	// allowed: ParseAllowedIps(trusted).Allowed(ip)
	// defaults: DefaultTrustedProxies / DefaultAllowedIps()
	// parse:   ParseAllowedIps(trusted): refused, or the list as net.IPNet.Contains reads it
	// Configurations are handed to the model as the texts they are (the model parses them).
	K        string   `json:"k"`
	Trusted  *string  `json:"trusted,omitempty"`
	Allow    string   `json:"allow,omitempty"`
	Endpoint int      `json:"endpoint,omitempty"`
	Peer     c16Str   `json:"peer,omitempty"`
	XR       []c16Str `json:"xr,omitempty"`
	XFF      []c16Str `json:"xff,omitempty"`
	Ip       string   `json:"ip,omitempty"`   // allowed: textual address
	Ip16     bool     `json:"ip16,omitempty"` // allowed: pass IPv4 in its 16-byte form
	// histhub / histstats: a server started with Hist[0] and then reloaded with Hist[1:] in turn
	// (hub.Reload and server.Reload with the same file, what server/main.go does on SIGHUP);
	// the request is made after the last reload.  The op carries its whole history.
	Hist []c16Conf `json:"hist,omitempty"`
}

// the two options of a configuration file: absent (nil) or present with a text
type c16Conf struct {
	Trusted *string `json:"t,omitempty"` // [app] trustedproxies
	Allow   *string `json:"a,omitempty"` // [stats] allowed_ips
	NoSec   bool    `json:"nosec,omitempty"` // an absent option takes its (otherwise empty) section with it
}

func c16OptText(o *string) string {
	if o == nil {
		return ""
	}
	return *o
}

func c16OptEq(a, b *string) bool {
	return (a == nil) == (b == nil) && c16OptText(a) == c16OptText(b)
}

func c16CoqOpt(o *string) string {
	if o == nil {
		return "None"
	}
	return "(Some " + c16CoqStr(*o) + ")"
}

type c16Case struct {
	Id      int      `json:"id"`
	Ops     []c16Op  `json:"ops"`
	Outs    []string `json:"outs,omitempty"`
	Finding string   `json:"finding,omitempty"`
}

// ---- Coq printers -------------------------------------------------------------

func c16CoqStr(s string) string {
	if c16Plain(s) {
		return `"` + strings.ReplaceAll(s, `"`, `""`) + `"`
	}
	var parts []string
	for i := 0; i < len(s); i++ {
		parts = append(parts, fmt.Sprint(int(s[i])))
	}
	return "(bytes [" + strings.Join(parts, ";") + "])"
}

func c16CoqStrs(l []c16Str) string {
	var items []string
	for _, s := range l {
		items = append(items, c16CoqStr(string(s)))
	}
	return coqList(items)
}

// the number and family of an address the way net.IPNet.Contains sees it
func c16IpNum(ip net.IP) (int, *big.Int) {
	if v4 := ip.To4(); v4 != nil {
		return 4, new(big.Int).SetBytes(v4)
	}
	return 6, new(big.Int).SetBytes(ip.To16())
}

// numbers in hexadecimal: Coq reads a 39-digit decimal number many times slower, and reading
// the numbers is a large part of the time a cases file takes
func c16Hex(n *big.Int) string {
	if n.BitLen() <= 3 {
		return n.String()
	}
	return "0x" + n.Text(16)
}

func c16CoqIp(ip net.IP) string {
	fam, n := c16IpNum(ip)
	return fmt.Sprintf("(V%d %s)", fam, c16Hex(n))
}

// a *net.IPNet as (base, prefix length), following networkNumberAndMask
func c16CoqNet(n *net.IPNet) string {
	mask := n.Mask
	if v4 := n.IP.To4(); v4 != nil {
		if len(mask) == 16 {
			mask = mask[12:]
		}
		ones, _ := mask.Size()
		return fmt.Sprintf("n4 %s %d", c16Hex(new(big.Int).SetBytes(v4)), ones)
	}
	ones, _ := mask.Size()
	return fmt.Sprintf("n6 %s %d", c16Hex(new(big.Int).SetBytes(n.IP.To16())), ones)
}

func c16CoqNets(a *AllowedIps) string {
	var items []string
	for _, n := range a.allowed {
		items = append(items, c16CoqNet(n))
	}
	return coqList(items)
}

// ---- oracle tables: what Go's net package says about the strings of a case -------

type c16Tables struct {
	parse map[string]net.IP
	split map[string]string
	cidr  map[string]*net.IPNet
}

// seeConfig records what the library says about the entries of a configuration string:
// net.ParseCIDR for entries with a "/", net.ParseIP for the others.  (The splitting at
// commas and the trimming are the model's own.)
func (tb *c16Tables) seeConfig(cfg string) {
	for _, e := range strings.Split(cfg, ",") {
		for _, t := range []string{e, strings.TrimSpace(e)} {
			if strings.Contains(t, "/") {
				if _, n, err := net.ParseCIDR(t); err == nil {
					tb.cidr[t] = n
				}
			} else {
				tb.see(t)
			}
		}
	}
}

func (tb *c16Tables) coqCidr() string {
	var ks []string
	for k := range tb.cidr {
		ks = append(ks, k)
	}
	sort.Strings(ks)
	var items []string
	for _, k := range ks {
		items = append(items, fmt.Sprintf("(%s, %s)", c16CoqStr(k), c16CoqNet(tb.cidr[k])))
	}
	return coqList(items)
}

func (tb *c16Tables) see(s string) {
	if ip := net.ParseIP(s); len(ip) > 0 {
		tb.parse[s] = ip
	}
	if host, _, err := net.SplitHostPort(s); err == nil {
		tb.split[s] = host
		if ip := net.ParseIP(host); len(ip) > 0 {
			tb.parse[host] = ip
		}
	}
}

func (tb *c16Tables) seeRequest(peer string, xr, xff []string) {
	tb.see("")
	tb.see(peer)
	for _, v := range xr {
		tb.see(v)
	}
	for _, hop := range strings.Split(strings.Join(xff, ","), ",") {
		tb.see(hop)
		tb.see(strings.TrimSpace(hop))
	}
}

func (tb *c16Tables) coq() (string, string) {
	var pk, sk []string
	for k := range tb.parse {
		pk = append(pk, k)
	}
	for k := range tb.split {
		sk = append(sk, k)
	}
	sort.Strings(pk)
	sort.Strings(sk)
	var p, s []string
	for _, k := range pk {
		p = append(p, fmt.Sprintf("(%s, %s)", c16CoqStr(k), c16CoqIp(tb.parse[k])))
	}
	for _, k := range sk {
		s = append(s, fmt.Sprintf("(%s, %s)", c16CoqStr(k), c16CoqStr(tb.split[k])))
	}
	return coqList(p), coqList(s)
}

// ---- the servers -----------------------------------------------------------------

type c16Server struct {
	hub     *Hub
	backend *BackendServer
	router  *mux.Router
	config  *goconf.ConfigFile
	allow   string
	trusted string // reload server: the trusted proxies last loaded
	// socket front: records what net/http handed to the handlers
	front  *httptest.Server
	mu     sync.Mutex
	seen   bool
	sPeer  string
	sXR    []string
	sXFF   []string
}

type c16Env struct {
	t       *testing.T
	servers map[string]*c16Server
	startup map[string]bool // configurations a server is started with
	reloads int
	// the server of the history ops: started with hist[0], reloaded with hist[1:]
	hist        *c16Server
	histApplied []c16Conf
	histRpc     *GrpcClients // one (empty) set of RPC clients for all history servers
	histStarts  int
	histReloads int
}

func c16SetOption(config *goconf.ConfigFile, section, option string, v *string, nosec bool) {
	config.RemoveOption(section, option)
	if v != nil {
		config.AddOption(section, option, *v)
	} else if nosec && len(mustOptions(config, section)) == 0 {
		config.RemoveSection(section)
	}
}

func mustOptions(config *goconf.ConfigFile, section string) []string {
	opts, err := config.GetOptions(section)
	if err != nil {
		return nil
	}
	return opts
}

// histServer: a server that has gone through exactly this history.  The server of the
// previous op is used again when its history is a prefix of the wanted one (requests do not
// change the configuration), otherwise a new server is started.
func (e *c16Env) histServer(hist []c16Conf) *c16Server {
	reuse := e.hist != nil && len(e.histApplied) <= len(hist)
	if reuse {
		for i, c := range e.histApplied {
			if !c16OptEq(c.Trusted, hist[i].Trusted) || !c16OptEq(c.Allow, hist[i].Allow) || c.NoSec != hist[i].NoSec {
				reuse = false
				break
			}
		}
	}
	if !reuse {
		config := goconf.NewConfigFile()
		c16SetOption(config, "app", "trustedproxies", hist[0].Trusted, hist[0].NoSec)
		c16SetOption(config, "stats", "allowed_ips", hist[0].Allow, hist[0].NoSec)
		cfg, b, _, hub, r, _ := CreateBackendServerForTestFromConfig(e.t, config)
		// Hub.Reload also reloads the RPC clients; the test helper creates hubs without (the server never does)
		if e.histRpc == nil {
			e.histRpc, _ = NewGrpcClientsForTestWithConfig(e.t, goconf.NewConfigFile(), nil)
		}
		hub.rpcClients = e.histRpc
		e.hist = &c16Server{hub: hub, backend: b, router: r, config: cfg}
		e.histApplied = []c16Conf{hist[0]}
		e.histStarts++
	}
	s := e.hist
	for _, c := range hist[len(e.histApplied):] {
		c16SetOption(s.config, "app", "trustedproxies", c.Trusted, c.NoSec)
		c16SetOption(s.config, "stats", "allowed_ips", c.Allow, c.NoSec)
		// server/main.go on SIGHUP
		s.hub.Reload(s.config)
		s.backend.Reload(s.config)
		e.histApplied = append(e.histApplied, c)
		e.histReloads++
	}
	return s
}

// serverFor: a server started with the configuration when it is one of the start-up
// configurations of the run, otherwise the one server whose trusted proxies are switched with
// the real Hub.Reload (both paths parse the text with ParseAllowedIps).
func (e *c16Env) serverFor(trusted string) *c16Server {
	if e.startup[trusted] {
		return e.server(trusted)
	}
	s := e.serverKey("\x00reload", "")
	if s.hub.rpcClients == nil {
		// Hub.Reload also reloads the RPC clients; the test helper creates hubs without (the server never does)
		s.hub.rpcClients, _ = NewGrpcClientsForTestWithConfig(e.t, goconf.NewConfigFile(), nil)
	}
	if s.trusted != trusted {
		s.config.RemoveOption("app", "trustedproxies")
		if trusted != "" {
			s.config.AddOption("app", "trustedproxies", trusted)
		}
		s.hub.Reload(s.config)
		s.trusted = trusted
		e.reloads++
	}
	return s
}

func (e *c16Env) server(trusted string) *c16Server { return e.serverKey(trusted, trusted) }

func (e *c16Env) serverKey(key, trusted string) *c16Server {
	if s, ok := e.servers[key]; ok {
		return s
	}
	config := goconf.NewConfigFile()
	if trusted != "" {
		config.AddOption("app", "trustedproxies", trusted)
	}
	cfg, b, _, hub, r, _ := CreateBackendServerForTestFromConfig(e.t, config)
	s := &c16Server{hub: hub, backend: b, router: r, config: cfg}
	s.front = httptest.NewServer(http.HandlerFunc(func(w http.ResponseWriter, req *http.Request) {
		s.mu.Lock()
		s.seen = true
		s.sPeer = req.RemoteAddr
		s.sXR = append([]string(nil), req.Header.Values("X-Real-Ip")...)
		s.sXFF = append([]string(nil), req.Header.Values("X-Forwarded-For")...)
		s.mu.Unlock()
		r.ServeHTTP(w, req)
	}))
	e.t.Cleanup(s.front.Close)
	e.servers[key] = s
	return s
}

// the real reload path of the backend server for stats.allowed_ips
func (s *c16Server) setAllow(allow string) {
	if s.allow == allow && s.backend.statsAllowedIps.Load() != nil && allow != "\x00unset" {
		return
	}
	config := goconf.NewConfigFile()
	if allow != "" {
		config.AddOption("stats", "allowed_ips", allow)
	}
	s.backend.Reload(config)
	s.allow = allow
}

var c16Paths = []string{"/api/v1/stats", "/api/v1/serverinfo", "/metrics"}

var (
	c16RealKeys = []string{"X-Real-IP", "X-Real-Ip", "x-real-ip", "X-REAL-IP"}
	c16FwdKeys  = []string{"X-Forwarded-For", "x-forwarded-for", "X-FORWARDED-FOR", "X-forwarded-FOR"}
)

func c16Header(xr, xff []c16Str) http.Header {
	h := http.Header{}
	// lines of other headers that must not matter
	h.Add("Forwarded", "for=127.0.0.1")
	h.Add("X-Forwarded-Host", "127.0.0.1")
	h.Add("X-Real-Ip2", "127.0.0.1")
	n := len(xr)
	if len(xff) > n {
		n = len(xff)
	}
	for i := 0; i < n; i++ { // interleaved; per name the order is kept
		if i < len(xff) {
			h.Add(c16FwdKeys[(i+len(xff[i]))%len(c16FwdKeys)], string(xff[i]))
		}
		if i < len(xr) {
			h.Add(c16RealKeys[(i+len(xr[i]))%len(c16RealKeys)], string(xr[i]))
		}
	}
	return h
}

func c16Strs(l []c16Str) []string {
	var r []string
	for _, s := range l {
		r = append(r, string(s))
	}
	return r
}

func c16FromStrs(l []string) []c16Str {
	var r []c16Str
	for _, s := range l {
		r = append(r, c16Str(s))
	}
	return r
}

// c16Run executes the ops on the real code; returns the Coq trace and outputs.
func c16Run(e *c16Env, c *c16Case, sink *caseSink) (trace []string, outs []string, tb *c16Tables, nontrivial bool) {
	tb = &c16Tables{parse: map[string]net.IP{}, split: map[string]string{}, cidr: map[string]*net.IPNet{}}
	tb.see("")
	classify := func(o c16Op, trustedNets *AllowedIps, peer string, xr, xff []string, res string) {
		host := peer
		if h, _, err := net.SplitHostPort(peer); err == nil {
			host = h
		}
		ip := net.ParseIP(host)
		hdr := len(xr)+len(xff) > 0
		switch {
		case len(ip) == 0:
			sink.count("path_peer_not_an_address")
			if hdr {
				nontrivial = true
			}
		case trustedNets == nil || !trustedNets.Allowed(ip):
			if hdr {
				sink.count("path_untrusted_peer_with_headers")
				nontrivial = true
			} else {
				sink.count("path_untrusted_peer_no_headers")
			}
		case !hdr:
			sink.count("path_trusted_peer_no_headers")
		default:
			nontrivial = true
			switch {
			case len(xr) > 0 && res == xr[0]:
				sink.count("path_trusted_peer_result_x_real_ip")
			case res == host:
				sink.count("path_trusted_peer_result_peer")
			default:
				sink.count("path_trusted_peer_result_xff_hop")
			}
		}
	}
	// a configuration the real ParseAllowedIps refuses: the op becomes "this text is refused"
	rejected := func(cfg string) bool {
		if _, err := ParseAllowedIps(cfg); err != nil {
			sink.count("config_rejected")
			tb.seeConfig(cfg)
			trace = append(trace, fmt.Sprintf("(OCfgParse %s, VReject)", c16CoqStr(cfg)))
			outs = append(outs, "rejected")
			nontrivial = true
			return true
		}
		return false
	}
	for _, o := range c.Ops {
		sink.count("op_" + o.K)
		cfg := ""
		if o.Trusted != nil {
			cfg = *o.Trusted
		}
		tb.seeConfig(cfg)
		tb.seeConfig(o.Allow)
		c16CountConfig(sink, cfg)
		switch o.K {
		case "realip":
			var trusted *AllowedIps
			tcoq := "None"
			if o.Trusted != nil {
				if rejected(cfg) {
					continue
				}
				trusted, _ = ParseAllowedIps(cfg)
				tcoq = "(Some " + c16CoqStr(cfg) + ")"
			}
			req := &http.Request{RemoteAddr: string(o.Peer), Header: c16Header(o.XR, o.XFF)}
			res := GetRealUserIP(req, trusted)
			tb.seeRequest(string(o.Peer), c16Strs(o.XR), c16Strs(o.XFF))
			tb.see(res)
			classify(o, trusted, string(o.Peer), c16Strs(o.XR), c16Strs(o.XFF), res)
			trace = append(trace, fmt.Sprintf("(OCfgRealIP %s %s %s %s, VAddr %s)", tcoq, c16CoqStr(string(o.Peer)),
				c16CoqStrs(o.XR), c16CoqStrs(o.XFF), c16CoqStr(res)))
			outs = append(outs, "addr:"+res)
		case "hub":
			if rejected(cfg) {
				continue
			}
			s := e.serverFor(cfg)
			trusted := s.hub.trustedProxies.Load()
			req := &http.Request{RemoteAddr: string(o.Peer), Header: c16Header(o.XR, o.XFF)}
			res := s.hub.getRealUserIP(req)
			tb.seeRequest(string(o.Peer), c16Strs(o.XR), c16Strs(o.XFF))
			tb.see(res)
			classify(o, trusted, string(o.Peer), c16Strs(o.XR), c16Strs(o.XFF), res)
			trace = append(trace, fmt.Sprintf("(OCfgHub %s %s %s %s, VAddr %s)", c16CoqStr(cfg), c16CoqStr(string(o.Peer)),
				c16CoqStrs(o.XR), c16CoqStrs(o.XFF), c16CoqStr(res)))
			outs = append(outs, "addr:"+res)
		case "stats", "socket":
			if rejected(cfg) || rejected(o.Allow) {
				continue
			}
			s := e.serverFor(cfg)
			s.setAllow(o.Allow)
			trusted := s.hub.trustedProxies.Load()
			ep := o.Endpoint % len(c16Paths)
			peer, xr, xff := string(o.Peer), c16Strs(o.XR), c16Strs(o.XFF)
			status := 0
			if o.K == "stats" {
				req := httptest.NewRequest("GET", c16Paths[ep], nil)
				req.RemoteAddr = peer
				req.Header = c16Header(o.XR, o.XFF)
				rec := httptest.NewRecorder()
				s.router.ServeHTTP(rec, req)
				status = rec.Code
			} else {
				var ok bool
				status, ok = c16Socket(s, c16Paths[ep], o)
				if !ok {
					sink.count("socket_request_not_delivered")
					continue
				}
				s.mu.Lock()
				peer, xr, xff = s.sPeer, s.sXR, s.sXFF
				s.mu.Unlock()
				// what net/http delivers: every line, in order, without surrounding blanks
				if len(xr) == len(o.XR) && len(xff) == len(o.XFF) {
					same := true
					for i := range xr {
						same = same && xr[i] == strings.Trim(string(o.XR[i]), " \t")
					}
					for i := range xff {
						same = same && xff[i] == strings.Trim(string(o.XFF[i]), " \t")
					}
					if same {
						sink.count("socket_headers_delivered_as_sent")
					} else {
						sink.count("socket_headers_delivered_changed")
					}
				} else {
					sink.count("socket_headers_delivered_changed")
				}
			}
			tb.seeRequest(peer, xr, xff)
			// the address the gate parses is one of the strings already seen
			classify(o, trusted, peer, xr, xff, "\x00")
			sink.count(fmt.Sprintf("status_%s_%d", c16Paths[ep], status))
			trace = append(trace, fmt.Sprintf("(OCfgStats %d %s %s %s %s %s, VStatus %d)", ep, c16CoqStr(cfg), c16CoqStr(o.Allow),
				c16CoqStr(peer), c16CoqStrs(c16FromStrs(xr)), c16CoqStrs(c16FromStrs(xff)), status))
			outs = append(outs, fmt.Sprintf("status:%d", status))
		case "histhub", "histstats":
			if len(o.Hist) == 0 {
				continue
			}
			for _, c := range o.Hist {
				tb.seeConfig(c16OptText(c.Trusted))
				tb.seeConfig(c16OptText(c.Allow))
			}
			// a server cannot be started with a text that is refused
			if rejected(c16OptText(o.Hist[0].Trusted)) || rejected(c16OptText(o.Hist[0].Allow)) {
				continue
			}
			s := e.histServer(o.Hist)
			sink.count(fmt.Sprintf("hist_reloads_%d", len(o.Hist)-1))
			last := o.Hist[len(o.Hist)-1]
			if len(o.Hist) > 1 {
				for _, kv := range [][2]interface{}{{"trusted", last.Trusted}, {"allow", last.Allow}} {
					v := kv[1].(*string)
					switch {
					case v == nil:
						sink.count(fmt.Sprintf("hist_last_reload_%s_removed", kv[0]))
					case strings.TrimSpace(*v) == "":
						sink.count(fmt.Sprintf("hist_last_reload_%s_empty", kv[0]))
					default:
						if _, err := ParseAllowedIps(*v); err != nil {
							sink.count(fmt.Sprintf("hist_last_reload_%s_refused", kv[0]))
						} else {
							sink.count(fmt.Sprintf("hist_last_reload_%s_text", kv[0]))
						}
					}
				}
			}
			peer, xr, xff := string(o.Peer), c16Strs(o.XR), c16Strs(o.XFF)
			tb.seeRequest(peer, xr, xff)
			nontrivial = true
			if o.K == "histhub" {
				req := &http.Request{RemoteAddr: peer, Header: c16Header(o.XR, o.XFF)}
				res := s.hub.getRealUserIP(req)
				tb.see(res)
				var rl []string
				for _, c := range o.Hist[1:] {
					rl = append(rl, c16CoqOpt(c.Trusted))
				}
				trace = append(trace, fmt.Sprintf("(OHistHub %s %s %s %s %s, VAddr %s)", c16CoqOpt(o.Hist[0].Trusted), coqList(rl),
					c16CoqStr(peer), c16CoqStrs(o.XR), c16CoqStrs(o.XFF), c16CoqStr(res)))
				outs = append(outs, "addr:"+res)
			} else {
				ep := o.Endpoint % len(c16Paths)
				req := httptest.NewRequest("GET", c16Paths[ep], nil)
				req.RemoteAddr = peer
				req.Header = c16Header(o.XR, o.XFF)
				rec := httptest.NewRecorder()
				s.router.ServeHTTP(rec, req)
				sink.count(fmt.Sprintf("hist_status_%d", rec.Code))
				var rl []string
				for _, c := range o.Hist[1:] {
					rl = append(rl, fmt.Sprintf("(%s, %s)", c16CoqOpt(c.Trusted), c16CoqOpt(c.Allow)))
				}
				trace = append(trace, fmt.Sprintf("(OHistStats %d (%s, %s) %s %s %s %s, VStatus %d)", ep, c16CoqOpt(o.Hist[0].Trusted), c16CoqOpt(o.Hist[0].Allow),
					coqList(rl), c16CoqStr(peer), c16CoqStrs(o.XR), c16CoqStrs(o.XFF), rec.Code))
				outs = append(outs, fmt.Sprintf("status:%d", rec.Code))
			}
		case "allowed":
			ip := net.ParseIP(o.Ip)
			if ip == nil {
				sink.count("probe_not_an_address")
				continue
			}
			if rejected(cfg) {
				continue
			}
			nets, _ := ParseAllowedIps(cfg)
			arg := ip
			if v4 := ip.To4(); v4 != nil && !o.Ip16 {
				arg = v4
			}
			res := nets.Allowed(arg)
			if res {
				sink.count("allowed_true")
				nontrivial = true
			} else {
				sink.count("allowed_false")
			}
			trace = append(trace, fmt.Sprintf("(OCfgAllowed %s %s, VBool %s)", c16CoqStr(cfg), c16CoqIp(ip), coqBool(res)))
			outs = append(outs, fmt.Sprintf("allowed:%v", res))
		case "parse":
			if rejected(cfg) {
				continue
			}
			nets, _ := ParseAllowedIps(cfg)
			sink.count("config_parsed")
			nontrivial = nontrivial || !nets.Empty()
			trace = append(trace, fmt.Sprintf("(OCfgParse %s, VParsed %s)", c16CoqStr(cfg), c16CoqNets(nets)))
			outs = append(outs, "parsed:"+nets.String())
		case "defaults":
			trace = append(trace, fmt.Sprintf("(ODefaults, VNets %s %s)", c16CoqNets(DefaultTrustedProxies), c16CoqNets(DefaultAllowedIps())))
			outs = append(outs, "defaults")
		}
	}
	return
}

// what kinds of entries the configurations of the run contain (evidence)
func c16CountConfig(sink *caseSink, cfg string) {
	for _, e := range strings.Split(cfg, ",") {
		e = strings.TrimSpace(e)
		if e == "" {
			continue
		}
		switch ip := net.ParseIP(e); {
		case strings.Contains(e, "/"):
			sink.count("cfg_entry_subnet")
		case ip == nil:
			sink.count("cfg_entry_invalid")
		case strings.Contains(e, ".") && strings.Contains(e, ":"):
			sink.count("cfg_entry_bare_v4_mapped")
		case ip.To4() != nil:
			sink.count("cfg_entry_bare_v4")
		default:
			sink.count("cfg_entry_bare_v6")
		}
	}
}

// c16Socket sends the request over TCP to the recording front of the server.
func c16Socket(s *c16Server, path string, o c16Op) (int, bool) {
	s.mu.Lock()
	s.seen = false
	s.mu.Unlock()
	conn, err := net.DialTimeout("tcp", s.front.Listener.Addr().String(), 5*time.Second)
	if err != nil {
		return 0, false
	}
	defer conn.Close()
	conn.SetDeadline(time.Now().Add(10 * time.Second))
	var b strings.Builder
	fmt.Fprintf(&b, "GET %s HTTP/1.1\r\nHost: verif\r\nConnection: close\r\n", path)
	n := len(o.XR)
	if len(o.XFF) > n {
		n = len(o.XFF)
	}
	for i := 0; i < n; i++ {
		if i < len(o.XFF) {
			fmt.Fprintf(&b, "%s: %s\r\n", c16FwdKeys[(i+len(o.XFF[i]))%len(c16FwdKeys)], string(o.XFF[i]))
		}
		if i < len(o.XR) {
			fmt.Fprintf(&b, "%s:%s\r\n", c16RealKeys[(i+len(o.XR[i]))%len(c16RealKeys)], string(o.XR[i]))
		}
	}
	b.WriteString("\r\n")
	if _, err := io.WriteString(conn, b.String()); err != nil {
		return 0, false
	}
	resp, err := http.ReadResponse(bufio.NewReader(conn), nil)
	if err != nil {
		return 0, false
	}
	io.Copy(io.Discard, resp.Body)
	resp.Body.Close()
	s.mu.Lock()
	seen := s.seen
	s.mu.Unlock()
	return resp.StatusCode, seen
}

// ---- generators --------------------------------------------------------------------

var c16TrustedConfigs = []string{
	"", "", "1.2.3.4", "192.168.0.0/16", "10.0.0.0/8, 172.16.0.0/12", "2001:db8::/48",
	"2001:db8::/32, 192.168.1.0/24", "fd00::/8,10.1.0.0/16", "::1, 127.0.0.1", "0.0.0.0/0", "::/0",
	"203.0.113.7/32", "::ffff:10.0.0.0/104", "10.1.2.3/8", "2001:db8:1:2:3:4:5:6/64",
	" 10.0.0.1 ,, 10.0.0.2 ", "0.0.0.0/1", "128.0.0.0/1", "10.0.0.0/31", "fe80::/10", "2001:db8::1",
	"::ffff:192.168.0.1", "::ffff:0:0/96", "198.51.100.0/25,198.51.100.128/26", "2001:db8::/127",
	// single addresses of both families next to subnets; IPv4-mapped spellings; zero-length and full-length prefixes
	"2001:db8:1234::5", "10.0.0.7, 2001:db8:0:1::5", "fd00::1,::1", "2606:4700:4700::1111 , 8.8.8.8", "fe80::1, 2001:db8::/48",
	"::ffff:10.0.0.7", "::ffff:a00:7", "::ffff:10.0.0.7/128", "::ffff:10.0.0.0/120", "10.0.0.7/32", "2001:db8::1/128", "2001:db8:0:1::5/128",
	"::/0, 0.0.0.0/0", "::", "0.0.0.0", "255.255.255.255", "ffff:ffff:ffff:ffff:ffff:ffff:ffff:ffff", "2001:db8::1/0", "1.2.3.4/0",
	// blanks that strings.TrimSpace removes (and three that it does not)
	"\t10.0.0.7\t,\u00a02001:db8:0:1::5\u00a0", "10.0.0.7 \t, \u200310.0.0.8\u2028,\u3000192.168.0.0/16\u0085", "\v::1\f,\r127.0.0.1\n", "10.0.0.7,\u200b10.0.0.8", "\ufeff10.0.0.7", "10.0.0.7\u180e",
}

// configurations ParseAllowedIps refuses (and two it accepts that look as if it should not)
var c16RefusedConfigs = []string{
	"10.0.0.1/33", "2001:db8::/129", "10.0.0.1/", "/8", "10.0.0.1/8/8", "10.0.0.1, nonsense", "fe80::1%eth0", "10.0.0.1/08", "10.0.0.1/+8", "[::1]", "1.2.3.4:80",
}

// configurations a hub is created for (quick); thorough adds more
var c16HubConfigs = []string{"", "1.2.3.4", "192.168.0.0/16", "2001:db8::/32, 192.168.1.0/24", "0.0.0.0/0", "fd00::/8,10.1.0.0/16", "::ffff:10.0.0.0/104", "::1, 127.0.0.1"}
var c16HubConfigsMore = []string{"::/0", "10.1.2.3/8", "0.0.0.0/1", "fe80::/10", "2001:db8::1", "198.51.100.0/25,198.51.100.128/26", "203.0.113.7/32", "10.0.0.0/31"}

var c16AllowConfigs = []string{
	"", "", "127.0.0.1, 192.168.0.1, 192.168.1.1/24", "0.0.0.0/0", "::/0", "8.8.8.8", "2001:db8::/32",
	"10.0.0.0/8,::1", "203.0.113.0/24, 2001:db8:5::/48", "127.0.0.0/8", "::ffff:8.8.8.8",
	"127.0.0.1, 2001:db8::100", "2001:db8:5::9", "fd00::1, 10.1.2.3", "::1", "2001:db8::100/128, 8.8.8.8/32", "::ffff:127.0.0.1",
}

var c16PublicV4 = []string{"8.8.8.8", "1.1.1.1", "203.0.113.7", "198.51.100.77", "198.51.100.130", "198.51.100.200", "100.64.0.1", "172.32.0.1", "172.15.255.255", "192.169.0.1", "11.0.0.1", "9.255.255.255", "126.255.255.255", "128.0.0.1", "1.2.3.4", "1.2.3.5", "6.6.6.6", "255.255.255.255", "0.0.0.0"}
var c16PublicV6 = []string{"2001:db8::1", "2001:db8:0:1::5", "2001:db9::1", "2001:db8:1:2::1", "2001:db8:5::9", "2002:db8::1", "fe80::1", "fec0::1", "fd00::1", "fc00::1", "::1", "::2", "::", "2606:4700:4700::1111", "ffff:ffff:ffff:ffff:ffff:ffff:ffff:ffff", "64:ff9b::808:808"}

var c16Junk = []string{"", "", "unknown", "_hidden", "garbage", "1.2.3.4.5", "300.1.1.1", "01.2.3.4", "1.2.3.4:", ":80", "fe80::1%eth0",
	"1.2.3.4:80:90", "[::1]:", "1.2.3.4 :80", "1.2.3 .4", "::ffff:7f00:1", "[::ffff:10.0.0.1]:443", "１.２.３.４", "1.2.3.4\x00",
	"10.0.0.1/8", "[10.0.0.1]", "[2001:db8::1]", "localhost", "localhost:80", "0x7f.0.0.1", "127.1", "2130706433", "::ffff:127.0.0.1", "[]:80", "[:80",
	"1.2.3.4]:80", "10.0.0.1%eth0", "-", "*", "for=10.0.0.1", "\"10.0.0.1\"", "10.0.0.1;", "10.0.0.1.", ".10.0.0.1", "::1::", "1:2:3:4:5:6:7:8:9", "1::2::3",
	"\xff10.0.0.1", "10.0.0.1\xff", "\xc2", "\xe2\x80"}

var c16Spaces = []string{" ", " ", " ", " ", "  ", "\t", " \t ", "\u00a0", "\u0085", "\u3000", "\u2003", "\u2028", "\u2029", "\u202f", "\u205f", "\u1680", "\u2000", "\u200a", "\v", "\f", "\u200b", "\ufeff", "\u180e", "\u00a0 ", " \u2003"}

// The generators' own reading of a configuration text (which addresses are interesting
// relative to it).  Deliberately NOT the server's ParseAllowedIps: the neighbours of an entry
// must not move when the server reads the entry differently.
func c16ConfigNets(cfg string) []*net.IPNet {
	var nets []*net.IPNet
	for _, e := range strings.Split(cfg, ",") {
		e = strings.TrimSpace(e)
		if e == "" {
			continue
		}
		if strings.Contains(e, "/") {
			if _, n, err := net.ParseCIDR(e); err == nil {
				nets = append(nets, n)
			}
			continue
		}
		if ip := net.ParseIP(e); ip != nil {
			if v4 := ip.To4(); v4 != nil {
				nets = append(nets, &net.IPNet{IP: v4, Mask: net.CIDRMask(32, 32)})
			} else {
				nets = append(nets, &net.IPNet{IP: ip, Mask: net.CIDRMask(128, 128)})
			}
		}
	}
	return nets
}

func c16ParseConfig(cfg string) []*net.IPNet {
	nets := c16ConfigNets(cfg)
	if len(nets) == 0 {
		return c16ConfigNets("127.0.0.0/8,10.0.0.0/8,172.16.0.0/12,192.168.0.0/16")
	}
	return nets
}

func c16RandBytes(r *vrng, n int) []byte {
	b := make([]byte, n)
	for i := range b {
		b[i] = byte(r.next())
	}
	return b
}

// an address inside the network (base with random low bits)
func c16AddrIn(r *vrng, n *net.IPNet) net.IP {
	base := n.IP
	mask := n.Mask
	if v4 := base.To4(); v4 != nil {
		base = v4
		if len(mask) == 16 {
			mask = mask[12:]
		}
	}
	ip := make(net.IP, len(base))
	rnd := c16RandBytes(r, len(base))
	for i := range base {
		ip[i] = (base[i] & mask[i]) | (rnd[i] &^ mask[i])
	}
	return ip
}

// an address that agrees with the network up to some bit of the prefix and differs there:
// the last prefix bit (half of the time), or any bit of the prefix - in particular the bits
// 8, 16, 24, 32, 64, 96 where a mask of another length would end
func c16AddrJustOutside(r *vrng, n *net.IPNet) net.IP {
	ip := c16AddrIn(r, n)
	mask := n.Mask
	if len(ip) == 4 && len(mask) == 16 {
		mask = mask[12:]
	}
	ones, _ := mask.Size()
	if ones == 0 {
		return net.ParseIP(pick(r, c16PublicV4))
	}
	bit := ones - 1
	if r.chance(50) {
		bit = r.intn(ones)
		if b := pick(r, []int{8, 16, 24, 31, 32, 33, 48, 64, 96, 104, 120}); b < ones && r.chance(50) {
			bit = b
		}
		// the bits below the differing one are free
		rnd := c16RandBytes(r, len(ip))
		for i := bit + 1; i < len(ip)*8; i++ {
			if r.chance(50) {
				ip[i/8] = (ip[i/8] &^ (0x80 >> (i % 8))) | (rnd[i/8] & (0x80 >> (i % 8)))
			}
		}
	}
	ip[bit/8] ^= 0x80 >> (bit % 8)
	return ip
}

func c16RandNet(r *vrng) string {
	if r.chance(35) {
		// a single address, no prefix length
		if r.chance(40) {
			b := c16RandBytes(r, 4)
			return c16TextOf(r, net.IP(b))
		}
		b := c16RandBytes(r, 16)
		if r.chance(50) {
			copy(b, []byte{0x20, 0x01, 0x0d, 0xb8})
		}
		return c16TextOf(r, net.IP(b))
	}
	if r.chance(60) {
		b := c16RandBytes(r, 4)
		return fmt.Sprintf("%d.%d.%d.%d/%d", b[0], b[1], b[2], b[3], pick(r, []int{0, 1, 7, 8, 9, 12, 15, 16, 17, 23, 24, 25, 30, 31, 32, r.intn(33)}))
	}
	b := c16RandBytes(r, 16)
	if r.chance(50) {
		copy(b, []byte{0x20, 0x01, 0x0d, 0xb8})
	}
	return fmt.Sprintf("%s/%d", net.IP(b).String(), pick(r, []int{0, 1, 7, 8, 10, 32, 33, 47, 48, 63, 64, 65, 96, 97, 104, 120, 127, 128, r.intn(129)}))
}

func c16TextOf(r *vrng, ip net.IP) string {
	if v4 := ip.To4(); v4 != nil {
		switch {
		case r.chance(8):
			return "::ffff:" + v4.String()
		case r.chance(3):
			return fmt.Sprintf("::ffff:%02x%02x:%02x%02x", v4[0], v4[1], v4[2], v4[3])
		}
		return v4.String()
	}
	switch {
	case r.chance(12): // fully expanded
		var parts []string
		for i := 0; i < 16; i += 2 {
			parts = append(parts, fmt.Sprintf("%02x%02x", ip[i], ip[i+1]))
		}
		return strings.Join(parts, ":")
	case r.chance(10):
		return strings.ToUpper(ip.String())
	}
	return ip.String()
}

type c16World struct {
	r       *vrng
	trusted []*net.IPNet
	allow   []*net.IPNet
	sink    *caseSink
	wire    bool // strings must be sendable in an HTTP/1.1 header line
}

// an address text chosen relative to the trusted and allowed networks
func (w *c16World) addr(kindHint string) (string, bool) {
	r := w.r
	var ip net.IP
	k := r.intn(100)
	switch {
	case k < 34 && len(w.trusted) > 0:
		ip = c16AddrIn(r, pick(r, w.trusted))
		w.sink.count(kindHint + "_in_trusted_net")
	case k < 44 && len(w.trusted) > 0:
		ip = c16AddrJustOutside(r, pick(r, w.trusted))
		w.sink.count(kindHint + "_next_to_trusted_net")
	case k < 56 && len(w.allow) > 0:
		ip = c16AddrIn(r, pick(r, w.allow))
		w.sink.count(kindHint + "_in_allowed_net")
	case k < 62 && len(w.allow) > 0:
		ip = c16AddrJustOutside(r, pick(r, w.allow))
		w.sink.count(kindHint + "_next_to_allowed_net")
	case k < 82:
		ip = net.ParseIP(pick(r, c16PublicV4))
		w.sink.count(kindHint + "_public_v4")
	default:
		ip = net.ParseIP(pick(r, c16PublicV6))
		w.sink.count(kindHint + "_v6")
	}
	return c16TextOf(r, ip), ip.To4() == nil
}

func (w *c16World) hop() string {
	r := w.r
	var s string
	if r.chance(18) {
		s = pick(r, c16Junk)
		w.sink.count("hop_junk")
	} else {
		text, v6 := w.addr("hop")
		switch k := r.intn(100); {
		case k < 62:
			s = text
		case k < 76:
			if v6 || strings.Contains(text, ":") {
				s = fmt.Sprintf("[%s]:%d", text, 1+r.intn(65535))
			} else {
				s = fmt.Sprintf("%s:%d", text, 1+r.intn(65535))
			}
			w.sink.count("hop_with_port")
		case k < 82:
			s = fmt.Sprintf("[%s]:%d", text, 1+r.intn(65535))
			w.sink.count("hop_bracketed_with_port")
		case k < 88:
			s = "[" + text + "]"
			w.sink.count("hop_bracketed_no_port")
		case k < 92:
			s = text + "%eth0"
			w.sink.count("hop_zone")
		case k < 96:
			s = text + ":" // empty port
		default:
			s = text + ":http"
		}
	}
	if r.chance(30) {
		s = pick(r, c16Spaces) + s
		w.sink.count("hop_leading_space")
	}
	if r.chance(12) {
		s = s + pick(r, c16Spaces)
		w.sink.count("hop_trailing_space")
	}
	return w.wireSafe(s)
}

func (w *c16World) wireSafe(s string) string {
	if !w.wire {
		return s
	}
	// an HTTP/1.1 header line cannot carry control characters
	var b strings.Builder
	for i := 0; i < len(s); i++ {
		if (s[i] < 0x20 && s[i] != '\t') || s[i] == 0x7f {
			continue
		}
		b.WriteByte(s[i])
	}
	return b.String()
}

// many hops: 0..40 entries (with emphasis on the neighbourhood of 8, 16, 32: where a bound on
// the number of entries, or a buffer, would sit) spread over 1..6 header lines.  The client
// writes as many entries as it likes; each proxy on the way appends one, to the last line or
// as a line of its own.
func (w *c16World) xffLong() []c16Str {
	r := w.r
	total := pick(r, []int{7, 8, 9, 15, 16, 16, 17, 17, 18, 20, 24, 31, 32, 33, 40, r.intn(41), r.intn(41), r.intn(41)})
	nlines := 1 + r.intn(6)
	if r.chance(40) {
		nlines = pick(r, []int{1, 2})
	}
	lines := make([][]string, nlines)
	// with one client-chosen address repeated (what somebody filling the list would send), or all hops random
	fill := ""
	if r.chance(50) {
		fill, _ = w.addr("hop")
	}
	for j := 0; j < total; j++ {
		h := fill
		// the last entries are what the proxies appended; the others the client's
		if fill == "" || j >= total-1-r.intn(3) || r.chance(10) {
			h = w.hop()
		}
		// entries are laid out in order: the line index never decreases
		li := j * nlines / total
		lines[li] = append(lines[li], h)
	}
	if nlines > 1 && r.chance(50) && total > 1 {
		// the last entry alone on the last line
		for li := nlines - 1; li >= 0; li-- {
			if k := len(lines[li]); k > 0 {
				last := lines[li][k-1]
				lines[li] = lines[li][:k-1]
				lines = append(lines, []string{last})
				break
			}
		}
	}
	var out []c16Str
	sep := pick(r, []string{", ", ", ", ",", " , "})
	for _, l := range lines {
		if len(l) == 0 {
			continue
		}
		out = append(out, c16Str(strings.Join(l, sep)))
	}
	w.sink.count("xff_long")
	w.sink.count(fmt.Sprintf("xff_long_entries_%02d_and_more", total/8*8))
	w.sink.count(fmt.Sprintf("xff_lines_%d", len(out)))
	return out
}

func (w *c16World) xff() []c16Str {
	r := w.r
	if r.chance(c16LongPercent) {
		return w.xffLong()
	}
	n := pick(r, []int{0, 1, 1, 1, 2, 2, 3})
	var lines []c16Str
	for i := 0; i < n; i++ {
		k := pick(r, []int{0, 1, 1, 2, 2, 3, 3, 4, 5})
		var hops []string
		for j := 0; j < k; j++ {
			hops = append(hops, w.hop())
		}
		sep := pick(r, []string{", ", ", ", ",", " , ", ",  "})
		lines = append(lines, c16Str(strings.Join(hops, sep)))
		w.sink.count(fmt.Sprintf("xff_line_hops_%d", k))
	}
	w.sink.count(fmt.Sprintf("xff_lines_%d", n))
	return lines
}

func (w *c16World) xr() []c16Str {
	r := w.r
	n := pick(r, []int{0, 0, 0, 1, 1, 1, 2, 3})
	var lines []c16Str
	for i := 0; i < n; i++ {
		switch k := r.intn(100); {
		case k < 60:
			text, _ := w.addr("xreal")
			lines = append(lines, c16Str(text))
		case k < 75:
			lines = append(lines, c16Str(w.hop()))
		case k < 85:
			lines = append(lines, "")
		default:
			lines = append(lines, c16Str(w.wireSafe(pick(r, c16Junk))))
		}
	}
	w.sink.count(fmt.Sprintf("xreal_lines_%d", n))
	return lines
}

func (w *c16World) peer() c16Str {
	r := w.r
	if r.chance(8) {
		w.sink.count("peer_junk")
		return c16Str(pick(r, []string{"", "@", "garbage", "1.2.3.4.5:80", "[fe80::1%eth0]:1234", "fe80::1%eth0", ":80", "localhost:80", "300.1.1.1:1", "[::1]", "pipe", "10.0.0.1:80:90", "[10.0.0.1]:80 "}))
	}
	var ip net.IP
	k := r.intn(100)
	switch {
	case k < 58 && len(w.trusted) > 0:
		ip = c16AddrIn(r, pick(r, w.trusted))
		w.sink.count("peer_in_trusted_net")
	case k < 68 && len(w.trusted) > 0:
		ip = c16AddrJustOutside(r, pick(r, w.trusted))
		w.sink.count("peer_next_to_trusted_net")
	case k < 78 && len(w.allow) > 0:
		ip = c16AddrIn(r, pick(r, w.allow))
		w.sink.count("peer_in_allowed_net")
	case k < 90:
		ip = net.ParseIP(pick(r, c16PublicV4))
		w.sink.count("peer_public_v4")
	default:
		ip = net.ParseIP(pick(r, c16PublicV6))
		w.sink.count("peer_v6")
	}
	text := c16TextOf(r, ip)
	switch k := r.intn(100); {
	case k < 8:
		w.sink.count("peer_without_port")
		return c16Str(text)
	case k < 12 && !strings.Contains(text, ":"):
		return c16Str(fmt.Sprintf("[%s]:%d", text, 1+r.intn(65535)))
	}
	if strings.Contains(text, ":") {
		return c16Str(fmt.Sprintf("[%s]:%d", text, 1+r.intn(65535)))
	}
	return c16Str(fmt.Sprintf("%s:%d", text, 1+r.intn(65535)))
}

// share of the requests with a long X-Forwarded-For list
const c16LongPercent = 6

// ---- configuration histories ---------------------------------------------------------
//
// A server is started with a configuration file and reloaded with changed files: options are
// added, changed, emptied, removed (with or without their section) and set to texts that are
// refused; the requests come from addresses of the lists that were configured at some point of
// the history (the stale ones in particular) and of the defaults.

func c16GenConfText(r *vrng, pool []string, allowRefused bool) *string {
	var v string
	switch k := r.intn(100); {
	case k < 30:
		return nil // the option is not in the file
	case k < 40:
		v = pick(r, []string{"", "", " ", ",", " , "}) // present, nothing configured
	case k < 48 && allowRefused:
		v = pick(r, c16RefusedConfigs)
	case k < 60:
		v = c16RandNet(r)
		if r.chance(30) {
			v += ", " + c16RandNet(r)
		}
	default:
		v = pick(r, pool)
	}
	return &v
}

func c16GenHistCase(r *vrng, id int, sink *caseSink) *c16Case {
	c := &c16Case{Id: id}
	nreload := pick(r, []int{1, 1, 2, 2, 3, 4})
	var hist []c16Conf
	for i := 0; i <= nreload; i++ {
		cf := c16Conf{NoSec: r.chance(50)}
		if i > 0 && r.chance(35) {
			// only one of the two options changes
			cf = hist[i-1]
			if r.chance(50) {
				cf.Trusted = c16GenConfText(r, c16TrustedConfigs, true)
			} else {
				cf.Allow = c16GenConfText(r, c16AllowConfigs, true)
			}
		} else {
			cf.Trusted = c16GenConfText(r, c16TrustedConfigs, i > 0 || r.chance(5))
			cf.Allow = c16GenConfText(r, c16AllowConfigs, i > 0 || r.chance(5))
		}
		hist = append(hist, cf)
	}
	// the class this generator is for: something was configured and the option is then taken out
	if r.chance(50) {
		i := 1 + r.intn(nreload)
		if r.chance(70) {
			if hist[i-1].Allow == nil || strings.TrimSpace(*hist[i-1].Allow) == "" {
				v := pick(r, c16AllowConfigs[2:])
				hist[i-1].Allow = &v
			}
			hist[i].Allow = nil
		} else {
			if hist[i-1].Trusted == nil || strings.TrimSpace(*hist[i-1].Trusted) == "" {
				v := pick(r, c16TrustedConfigs[2:])
				hist[i-1].Trusted = &v
			}
			hist[i].Trusted = nil
		}
	}
	// addresses of every list of the history and of the defaults
	trusted := c16ConfigNets("127.0.0.0/8,10.0.0.0/8,172.16.0.0/12,192.168.0.0/16")
	allow := c16ConfigNets("127.0.0.1")
	nops := 2 + r.intn(3)
	for i := 0; i < nops; i++ {
		// requests after a growing part of the history (the server is used again), the last ones after all of it
		upto := len(hist)
		if i < nops-2 {
			upto = 1 + r.intn(len(hist))
		}
		h := hist[:upto]
		w := &c16World{r: r, sink: sink}
		w.trusted = append(w.trusted, trusted...)
		w.allow = append(w.allow, allow...)
		for j, cf := range h {
			// the list loaded last counts several times
			reps := 1
			if j == len(h)-1 {
				reps = 2
			}
			for ; reps > 0; reps-- {
				w.trusted = append(w.trusted, c16ConfigNets(c16OptText(cf.Trusted))...)
				w.allow = append(w.allow, c16ConfigNets(c16OptText(cf.Allow))...)
			}
		}
		o := c16Op{K: "histstats", Hist: append([]c16Conf(nil), h...), Endpoint: r.intn(3)}
		if r.chance(25) {
			o.K = "histhub"
		}
		if o.K == "histstats" && r.chance(45) {
			// a direct request from an address of one of the allow-lists
			ip := c16AddrIn(r, pick(r, w.allow))
			if r.chance(15) {
				ip = c16AddrJustOutside(r, pick(r, w.allow))
			}
			text := c16TextOf(r, ip)
			if strings.Contains(text, ":") {
				text = "[" + text + "]"
			}
			o.Peer = c16Str(fmt.Sprintf("%s:%d", text, 1+r.intn(65535)))
			if r.chance(30) {
				o.XR = w.xr()
			}
		} else {
			o.Peer = w.peer()
			o.XR = w.xr()
			if r.chance(50) {
				o.XFF = w.xff()
			}
		}
		c.Ops = append(c.Ops, o)
	}
	sink.count("case_history")
	return c
}

const c16Alphabet = "0123456789abcdefABCDEF.:[]%, \t/-_xyz"

func c16Malformed(r *vrng, wire bool) string {
	n := pick(r, []int{0, 1, 2, 3, 5, 8, 13, 24})
	b := make([]byte, 0, n)
	for i := 0; i < n; i++ {
		switch {
		case r.chance(6) && !wire:
			b = append(b, pick(r, []byte{0x00, 0x0a, 0x0d, 0x7f}))
		case r.chance(8):
			b = append(b, pick(r, []byte{0xc2, 0xa0, 0xe2, 0x80, 0xa8, 0xff, 0x85, 0xe3}))
		case r.chance(10):
			b = append(b, []byte(pick(r, []string{"10.0.0.1", "::1", "8.8.8.8", "127.0.0.1", " ", " "}))...)
		default:
			b = append(b, c16Alphabet[r.intn(len(c16Alphabet))])
		}
	}
	return string(b)
}

func c16GenCase(r *vrng, id int, hubConfigs []string, sink *caseSink) *c16Case {
	c := &c16Case{Id: id}
	malformed := r.chance(12)
	if malformed {
		sink.count("case_malformed_stream")
	}
	nops := 1 + r.intn(4)
	// one configuration per case, used by most of its ops
	trustedCfg := pick(r, c16TrustedConfigs)
	if r.chance(4) {
		trustedCfg = pick(r, c16RefusedConfigs)
		if r.chance(50) {
			trustedCfg = pick(r, c16TrustedConfigs) + "," + trustedCfg
		}
	} else if r.chance(25) {
		trustedCfg = c16RandNet(r)
		if r.chance(40) {
			trustedCfg += ", " + c16RandNet(r)
		}
	}
	if r.chance(15) {
		// blanks around the entries
		parts := strings.Split(trustedCfg, ",")
		for i := range parts {
			if r.chance(60) {
				parts[i] = pick(r, c16Spaces) + strings.TrimSpace(parts[i])
			}
			if r.chance(40) {
				parts[i] += pick(r, c16Spaces)
			}
		}
		trustedCfg = strings.Join(parts, ",")
		sink.count("config_with_blanks")
	}
	// hub / stats ops: a start-up configuration, or (through the reload path) the case's own
	hubCfg := pick(r, hubConfigs)
	if r.chance(35) {
		hubCfg = trustedCfg
	}
	allowCfg := pick(r, c16AllowConfigs)
	if r.chance(20) {
		allowCfg = c16RandNet(r)
		if r.chance(30) {
			allowCfg += "," + c16RandNet(r)
		}
	}
	for i := 0; i < nops; i++ {
		k := r.intn(100)
		var o c16Op
		switch {
		case k < 38:
			o.K = "realip"
			t := trustedCfg
			o.Trusted = &t
			if r.chance(3) {
				o.Trusted = nil
			}
		case k < 52:
			o.K = "hub"
			t := hubCfg
			o.Trusted = &t
		case k < 84:
			o.K = "stats"
			t := hubCfg
			o.Trusted = &t
			o.Allow = allowCfg
			o.Endpoint = r.intn(3)
		case k < 88:
			o.K = "socket"
			t := hubCfg
			o.Trusted = &t
			o.Allow = allowCfg
			o.Endpoint = r.intn(3)
		case k < 96:
			o.K = "allowed"
			t := trustedCfg
			if r.chance(25) {
				t = allowCfg
			}
			o.Trusted = &t
		case k < 99:
			o.K = "parse"
			t := pick(r, []string{trustedCfg, allowCfg, hubCfg})
			o.Trusted = &t
		default:
			o.K = "defaults"
		}
		cfgT := ""
		if o.Trusted != nil {
			cfgT = *o.Trusted
		}
		w := &c16World{r: r, trusted: c16ParseConfig(cfgT), sink: sink, wire: o.K == "socket"}
		if o.K == "stats" || o.K == "socket" {
			w.allow = c16ConfigNets(o.Allow)
			if len(w.allow) == 0 {
				w.allow = c16ConfigNets("127.0.0.1")
			}
		}
		switch o.K {
		case "realip", "hub", "stats", "socket":
			if malformed {
				o.Peer = c16Str(c16Malformed(r, false))
				if r.chance(50) {
					o.Peer = w.peer()
				}
				for j := r.intn(3); j > 0; j-- {
					o.XR = append(o.XR, c16Str(c16Malformed(r, w.wire)))
				}
				for j := r.intn(4); j > 0; j-- {
					o.XFF = append(o.XFF, c16Str(c16Malformed(r, w.wire)))
				}
			} else {
				o.Peer = w.peer()
				o.XR = w.xr()
				o.XFF = w.xff()
			}
		case "allowed":
			text, _ := w.addr("probe")
			o.Ip = text
			o.Ip16 = r.chance(50)
		}
		c.Ops = append(c.Ops, o)
	}
	return c
}

// directed cases: the shapes the property text names, one by one
func c16Directed() []*c16Case {
	s := func(v string) *string { return &v }
	l := func(v ...string) []c16Str { return c16FromStrs(v) }
	var cs []*c16Case
	add := func(ops ...c16Op) { cs = append(cs, &c16Case{Ops: ops}) }
	// a direct client claims to be loopback in every way
	for ep := 0; ep < 3; ep++ {
		add(c16Op{K: "stats", Trusted: s(""), Allow: "", Endpoint: ep, Peer: "8.8.8.8:4711", XR: l("127.0.0.1"), XFF: l("127.0.0.1")},
			c16Op{K: "stats", Trusted: s(""), Allow: "", Endpoint: ep, Peer: "127.0.0.1:4711"},
			c16Op{K: "stats", Trusted: s(""), Allow: "", Endpoint: ep, Peer: "127.0.0.1:4711", XFF: l("8.8.8.8")},
			c16Op{K: "stats", Trusted: s(""), Allow: "", Endpoint: ep, Peer: "10.0.0.5:80", XFF: l("127.0.0.1, 8.8.8.8")},
			c16Op{K: "stats", Trusted: s(""), Allow: "", Endpoint: ep, Peer: "[2001:db8::1]:80", XR: l("127.0.0.1"), XFF: l("127.0.0.1")})
	}
	add(c16Op{K: "hub", Trusted: s(""), Peer: "8.8.8.8:4711", XR: l("127.0.0.1", "10.0.0.1"), XFF: l("127.0.0.1", "10.0.0.1, 192.168.0.1")},
		c16Op{K: "hub", Trusted: s(""), Peer: "10.0.0.5:80", XFF: l("6.6.6.6, 8.8.8.8", " 10.0.0.5:80 ,unknown")},
		c16Op{K: "hub", Trusted: s(""), Peer: "10.0.0.5:80", XR: l("garbage", "6.6.6.6"), XFF: l("127.0.0.1, 192.168.1.50")},
		c16Op{K: "hub", Trusted: s(""), Peer: "10.0.0.5:80", XR: l("6.6.6.6"), XFF: l("8.8.8.8")},
		c16Op{K: "hub", Trusted: s(""), Peer: "10.0.0.5:80", XFF: l("unknown")},
		c16Op{K: "hub", Trusted: s(""), Peer: "10.0.0.5:80", XFF: l("6.6.6.6, [2001:db8::1]")},
		c16Op{K: "hub", Trusted: s(""), Peer: "10.0.0.5:80", XFF: l("6.6.6.6, [2001:db8::1]:443")},
		c16Op{K: "hub", Trusted: s(""), Peer: "[::ffff:10.0.0.5]:80", XFF: l("6.6.6.6")},
		c16Op{K: "hub", Trusted: s(""), Peer: "10.0.0.5:80", XFF: l("6.6.6.6, ::ffff:10.1.1.1")},
		c16Op{K: "defaults"})
	add(c16Op{K: "realip", Peer: "10.0.0.5:80", XR: l("6.6.6.6"), XFF: l("6.6.6.6")}, // nil list
		c16Op{K: "realip", Trusted: s(""), Peer: "10.0.0.5:80", XR: l("6.6.6.6"), XFF: l("6.6.6.6")}, // empty list: nobody trusted
		c16Op{K: "realip", Trusted: s("::ffff:10.0.0.0/104"), Peer: "10.0.0.5:80", XR: l("6.6.6.6")},
		c16Op{K: "realip", Trusted: s("::ffff:0:0/96"), Peer: "8.8.8.8:80", XR: l("6.6.6.6")},
		c16Op{K: "realip", Trusted: s("2001:db8::/48"), Peer: "[2001:db8::1]:23456", XFF: l("2002:db8::1, 2001:db8::2")},
		c16Op{K: "realip", Trusted: s("192.168.0.0/16"), Peer: "192.168.1.2:23456", XFF: l("1.1.1.1,, 2.2.2.2 , , 192.168.3.4 ")})
	// the repository's own table, as a cross-check of the harness mapping
	add(c16Op{K: "realip", Trusted: s("192.168.0.0/16"), Peer: "192.168.1.2:23456", XFF: l("11.12.13.14, 192.168.30.32")},
		c16Op{K: "realip", Trusted: s("192.168.0.0/16"), Peer: "10.11.12.13:23456", XR: l("1.2.3.4")})
	// address arithmetic at the edges of a prefix
	for _, p := range [][2]string{{"10.0.0.0/8", "10.255.255.255"}, {"10.0.0.0/8", "11.0.0.0"}, {"10.0.0.0/8", "9.255.255.255"},
		{"172.16.0.0/12", "172.31.255.255"}, {"172.16.0.0/12", "172.32.0.0"}, {"0.0.0.0/0", "255.255.255.255"}, {"::/0", "10.0.0.1"},
		{"0.0.0.0/0", "::1"}, {"10.0.0.0/8", "::ffff:10.1.2.3"}, {"::ffff:10.0.0.0/104", "10.1.2.3"}, {"2001:db8::/127", "2001:db8::1"},
		{"2001:db8::/127", "2001:db8::2"}, {"10.0.0.0/31", "10.0.0.1"}, {"10.0.0.0/31", "10.0.0.2"}, {"10.0.0.7", "10.0.0.7"}, {"10.0.0.7", "10.0.0.6"},
		{"2001:db8::1", "2001:db8::1"}, {"::ffff:0:0/96", "1.2.3.4"}, {"::ffff:0:0/90", "1.2.3.4"}} {
		add(c16Op{K: "allowed", Trusted: s(p[0]), Ip: p[1]}, c16Op{K: "allowed", Trusted: s(p[0]), Ip: p[1], Ip16: true})
	}
	// single addresses in the lists: the address itself, and addresses that share its first 8 / 16 / 32 / 64 / 127 bits
	for _, p := range [][2]string{{"2001:db8:0:1::5", "2001:db8:0:1::5"}, {"2001:db8:0:1::5", "2001:db8:0:1::4"}, {"2001:db8:0:1::5", "2001:db8:0:1:8000::5"},
		{"2001:db8:0:1::5", "2001:db8:8000:1::5"}, {"2001:db8:0:1::5", "2001:db9:0:1::5"}, {"2001:db8:0:1::5", "2081:db8:0:1::5"},
		{"10.0.0.7", "10.0.0.135"}, {"10.0.0.7", "10.0.128.7"}, {"10.0.0.7", "10.128.0.7"}, {"10.0.0.7", "::ffff:10.0.0.7"}, {"::ffff:10.0.0.7", "10.0.0.7"},
		{"::ffff:10.0.0.7", "10.0.0.6"}, {"::ffff:10.0.0.7/128", "10.0.0.7"}, {"::ffff:10.0.0.7/128", "10.0.0.6"}, {"::ffff:10.0.0.0/120", "10.0.0.200"},
		{"2001:db8::1/128", "2001:db8::1"}, {"2001:db8::1/128", "2001:db8::"}, {"10.0.0.7/32", "10.0.0.6"}, {"2001:db8::1/0", "::1"}, {"2001:db8::1/0", "1.2.3.4"},
		{"1.2.3.4/0", "9.9.9.9"}, {"::", "::"}, {"::", "::1"}, {"0.0.0.0", "0.0.0.0"}, {"0.0.0.0", "::"}, {"::, 0.0.0.0", "0.0.0.1"}} {
		add(c16Op{K: "allowed", Trusted: s(p[0]), Ip: p[1]}, c16Op{K: "allowed", Trusted: s(p[0]), Ip: p[1], Ip16: true})
	}
	// a direct client next to a single trusted IPv6 proxy / a single allowed IPv6 address
	add(c16Op{K: "realip", Trusted: s("2001:db8:0:1::5"), Peer: "[2001:db8:0:1::5]:443", XR: l("9.9.9.9")},
		c16Op{K: "realip", Trusted: s("2001:db8:0:1::5"), Peer: "[2001:db8:0:1::6]:443", XR: l("9.9.9.9"), XFF: l("9.9.9.9")},
		c16Op{K: "realip", Trusted: s("2001:db8:0:1::5"), Peer: "[2001:db8:77::6]:443", XFF: l("127.0.0.1")},
		c16Op{K: "hub", Trusted: s("fd00::1,::1"), Peer: "[fd00::2]:80", XR: l("127.0.0.1")},
		c16Op{K: "hub", Trusted: s("fd00::1,::1"), Peer: "[fd00:0:1::1]:80", XFF: l("127.0.0.1")},
		c16Op{K: "hub", Trusted: s("fd00::1,::1"), Peer: "[fd00::1]:80", XFF: l("127.0.0.1")})
	for ep := 0; ep < 3; ep++ {
		add(c16Op{K: "stats", Trusted: s("fd00::1,::1"), Allow: "127.0.0.1, 2001:db8::100", Endpoint: ep, Peer: "[2001:db8::100]:1234"},
			c16Op{K: "stats", Trusted: s("fd00::1,::1"), Allow: "127.0.0.1, 2001:db8::100", Endpoint: ep, Peer: "[2001:db8::101]:1234"},
			c16Op{K: "stats", Trusted: s("fd00::1,::1"), Allow: "127.0.0.1, 2001:db8::100", Endpoint: ep, Peer: "[2001:db8:ffff::100]:1234", XR: l("127.0.0.1")},
			c16Op{K: "stats", Trusted: s("fd00::1,::1"), Allow: "127.0.0.1, 2001:db8::100", Endpoint: ep, Peer: "[fd00::1]:1234", XR: l("2001:db8::100")},
			c16Op{K: "stats", Trusted: s("fd00::1,::1"), Allow: "127.0.0.1, 2001:db8::100", Endpoint: ep, Peer: "[fd00::1]:1234", XR: l("2001:db8::99")})
	}
	// long X-Forwarded-For lists: the client fills the list with an address of its choice, the
	// trusted proxy appends the real one (to the line, or as a line of its own)
	{
		var rops, hops, sops []c16Op
		for _, count := range []int{40, 33, 17, 8, 15, 16} {
			entries := make([]string, count)
			for i := range entries {
				entries[i] = "10.1.2.3"
			}
			one := strings.Join(entries, ", ") + ", 5.6.7.8"
			rops = append(rops, c16Op{K: "realip", Trusted: s("192.168.0.0/16"), Peer: "192.168.1.2:23456", XFF: l(one)},
				c16Op{K: "realip", Trusted: s("192.168.0.0/16"), Peer: "192.168.1.2:23456", XFF: l(strings.Join(entries, ","), "5.6.7.8")},
				c16Op{K: "realip", Trusted: s("192.168.0.0/16"), Peer: "192.168.1.2:23456", XFF: l(strings.Join(entries[:count/2], ", "), strings.Join(entries[count/2:], ", "), "5.6.7.8, 192.168.7.7")})
			hops = append(hops, c16Op{K: "hub", Trusted: s(""), Peer: "10.0.0.5:80", XFF: l(strings.ReplaceAll(one, "10.1.2.3", "6.6.6.6"))})
			sops = append(sops, c16Op{K: "stats", Trusted: s("192.168.0.0/16"), Allow: "10.1.2.3", Endpoint: count % 3, Peer: "192.168.1.2:23456", XFF: l(one)},
				c16Op{K: "stats", Trusted: s("192.168.0.0/16"), Allow: "5.6.7.8", Endpoint: count % 3, Peer: "192.168.1.2:23456", XFF: l(strings.Join(entries, ", "), "5.6.7.8")})
		}
		add(rops...)
		add(hops...)
		add(sops...)
	}
	// configuration histories: an allow-list / a trusted proxy is configured, changed, emptied, removed
	{
		o := func(v string) *string { return &v }
		var none *string
		type step struct{ t, a *string }
		hist := func(nosec bool, steps ...step) []c16Conf {
			var h []c16Conf
			for _, st := range steps {
				h = append(h, c16Conf{Trusted: st.t, Allow: st.a, NoSec: nosec})
			}
			return h
		}
		// one change of the allow-list after start: removed, emptied, changed, refused, added
		for _, nosec := range []bool{false, true} {
			for _, tr := range [][2]*string{{o("127.0.0.1, 10.9.9.9"), none}, {o("10.9.9.9"), none}, {o("10.9.9.9"), o("")}, {o("10.9.9.9"), o("10.1.2.3")},
				{o("10.9.9.9"), o("10.1.2.3/33")}, {none, o("10.9.9.9")}, {o(""), o("10.9.9.9")}, {none, none}} {
				h := hist(nosec, step{none, tr[0]}, step{none, tr[1]})
				add(c16Op{K: "histstats", Hist: h, Peer: "10.9.9.9:12345"}, c16Op{K: "histstats", Hist: h, Endpoint: 1, Peer: "127.0.0.1:12345"},
					c16Op{K: "histstats", Hist: h, Endpoint: 2, Peer: "10.1.2.3:12345"}, c16Op{K: "histstats", Hist: h[:1], Peer: "10.9.9.9:12345"})
			}
		}
		for _, nosec := range []bool{false, true} {
			full := hist(nosec, step{o("127.0.0.1"), o("127.0.0.1, 10.1.2.3")}, step{o("127.0.0.1"), o("127.0.0.1, 10.9.9.9")},
				step{o("127.0.0.1"), none}, step{o("127.0.0.1"), o("10.9.9.9")}, step{o("127.0.0.1"), o("")},
				step{o("127.0.0.1"), o("10.1.2.3")}, step{o("127.0.0.1"), o("nonsense")}, step{none, none})
			var ops []c16Op
			for n := 1; n <= len(full); n++ {
				for _, addr := range []string{"10.1.2.3", "10.9.9.9", "127.0.0.1"} {
					ops = append(ops, c16Op{K: "histstats", Hist: full[:n], Endpoint: n % 3, Peer: c16Str(addr + ":12345")},
						c16Op{K: "histstats", Hist: full[:n], Endpoint: (n + 1) % 3, Peer: "127.0.0.1:4711", XR: l(addr)})
				}
			}
			add(ops...)
			// nothing configured at start, configured by a reload, taken out again
			h2 := hist(nosec, step{none, none}, step{none, o("2001:db8::100, 8.8.8.8")}, step{none, none})
			add(c16Op{K: "histstats", Hist: h2[:2], Peer: "8.8.8.8:1"}, c16Op{K: "histstats", Hist: h2[:2], Peer: "127.0.0.1:1"},
				c16Op{K: "histstats", Hist: h2, Peer: "8.8.8.8:1"}, c16Op{K: "histstats", Hist: h2, Endpoint: 1, Peer: "[2001:db8::100]:1"},
				c16Op{K: "histstats", Hist: h2, Endpoint: 2, Peer: "127.0.0.1:1"})
			// trusted proxies: a public proxy is configured, then the option is removed (the private networks are trusted again)
			h3 := hist(nosec, step{o("8.8.8.8"), none}, step{none, none}, step{o("1.2.3.4/31"), none}, step{o("1.2.3.4/33"), none}, step{o(" "), none})
			var hops []c16Op
			for n := 1; n <= len(h3); n++ {
				var th []c16Conf
				th = append(th, h3[:n]...)
				for _, peer := range []string{"8.8.8.8:7", "10.0.0.5:80", "1.2.3.5:9"} {
					hops = append(hops, c16Op{K: "histhub", Hist: th, Peer: c16Str(peer), XR: l("127.0.0.1")},
						c16Op{K: "histstats", Hist: th, Endpoint: n % 3, Peer: c16Str(peer), XFF: l("6.6.6.6, 127.0.0.1")})
				}
			}
			add(hops...)
		}
	}
	// every fixed configuration text: refused, or the list it means
	for _, cfg := range append(append([]string{}, c16TrustedConfigs...), c16RefusedConfigs...) {
		add(c16Op{K: "parse", Trusted: s(cfg)})
	}
	return cs
}

func TestVerifC16(t *testing.T) {
	env := getVerifEnv(t, "C16")
	prevOut, prevFlags := log.Writer(), log.Flags()
	log.SetOutput(io.Discard)
	defer func() { log.SetOutput(prevOut); log.SetFlags(prevFlags) }()

	sink := newCaseSink(t, env, "C16", "corr.Run_C16", 80)
	sink.preamble = "Open Scope string_scope.\nOpen Scope N_scope.\nDefinition n4 (a l : N) : net := (V4 a, l).\nDefinition n6 (a l : N) : net := (V6 a, l).\n"
	e := &c16Env{t: t, servers: map[string]*c16Server{}, startup: map[string]bool{}}

	if ip := net.ParseIP(""); ip != nil {
		t.Fatal("net.ParseIP(\"\") is not nil")
	}
	if _, _, err := net.SplitHostPort(""); err == nil {
		t.Fatal("net.SplitHostPort(\"\") succeeds")
	}

	n, nhist := 1500, 100
	hubConfigs := c16HubConfigs
	if env.thorough() {
		n, nhist = 24000, 1800
		hubConfigs = append(append([]string{}, c16HubConfigs...), c16HubConfigsMore...)
	}
	for _, cfg := range hubConfigs {
		e.startup[cfg] = true
	}
	var cases []*c16Case
	if env.replay != "" {
		var cs []c16Case
		readReplay(t, env.replay, &cs)
		for i := range cs {
			cases = append(cases, &cs[i])
		}
	} else {
		for i, c := range c16Directed() {
			c.Id = i
			cases = append(cases, c)
		}
		base := len(cases)
		for i := 0; i < n; i++ {
			cases = append(cases, c16GenCase(newVrng(env.seed, uint64(i)), base+i, hubConfigs, sink))
		}
		base = len(cases)
		for i := 0; i < nhist; i++ {
			cases = append(cases, c16GenHistCase(newVrng(env.seed, uint64(1000000+i)), base+i, sink))
		}
	}
	for _, c := range cases {
		trace, outs, tb, nontrivial := c16Run(e, c, sink)
		c.Outs = outs
		ptbl, stbl := tb.coq()
		term := fmt.Sprintf("mkcase_cfg %d %s %s %s %s", c.Id, ptbl, stbl, tb.coqCidr(), coqList(trace))
		sink.count(fmt.Sprintf("ops_per_case_%d", len(trace)))
		sink.add(term, c, nontrivial, term)
	}
	sink.stats.Histogram["servers_created"] = len(e.servers)
	sink.stats.Histogram["trusted_proxies_reloaded"] = e.reloads
	sink.stats.Histogram["history_servers_started"] = e.histStarts
	sink.stats.Histogram["history_reloads"] = e.histReloads
	sink.close("seeded requests (peer, X-Real-IP lines, X-Forwarded-For lines, trusted-proxy and allow-list configuration given as text and parsed by the model) on the real ParseAllowedIps, GetRealUserIP, Hub.getRealUserIP, AllowedIps.Allowed and the stats / serverinfo / metrics handlers of a BackendServer; non-trivial = headers present (trusted peer: header logic decides; untrusted peer: forged headers must be ignored) or an address inside a configured network; distinct = distinct (inputs, outputs)")
}
