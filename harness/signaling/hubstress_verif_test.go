//go:build verif

package signaling

import (
	"fmt"
	"sync"
	"testing"
)

// hdStressLimit: registrations racing for the last free slot of a limited backend, with real parallelism.
// In the model Backend.AddSession is one atomic step (it holds sessionsLock from the check to the
// insert); this exercises that assumption on the real object: K goroutines call AddSession at the same
// instant on a backend with `limit` slots of which limit-1 are taken, many rounds; after each round the
// backend must count at most `limit` sessions and exactly one of the K must have been accepted.
// A test, not a proof; a failing round is reported as a direct violation with the round as replay.
func hdStressLimit(t *testing.T, env verifEnv, sink *caseSink) {
	rounds := 12000
	if env.thorough() {
		rounds = 40000
	}
	const limit, racers = 3, 4
	sys := newHdSystem(t, []hdBackendCfg{{Limit: limit}, {}})
	defer sys.close()
	var backend *Backend
	for _, b := range sys.hub.backend.GetBackends() {
		if sys.backendIndex(b) == 0 {
			backend = b
		}
	}
	if backend == nil {
		t.Fatal("no backend")
	}
	mk := func(id string) *ClientSession {
		return &ClientSession{publicId: id, privateId: "p" + id, clientType: HelloClientTypeClient}
	}
	bad := 0
	for round := 0; round < rounds && bad < 3; round++ {
		var held []*ClientSession
		for i := 0; i < limit-1; i++ {
			s := mk(fmt.Sprintf("held-%d-%d", round, i))
			if err := backend.AddSession(s); err != nil {
				t.Fatalf("round %d: could not fill the backend: %v", round, err)
			}
			held = append(held, s)
		}
		var wg sync.WaitGroup
		start := make(chan struct{})
		accepted := make([]bool, racers)
		sessions := make([]*ClientSession, racers)
		for i := 0; i < racers; i++ {
			sessions[i] = mk(fmt.Sprintf("racer-%d-%d", round, i))
			wg.Add(1)
			go func(i int) {
				defer wg.Done()
				<-start
				accepted[i] = backend.AddSession(sessions[i]) == nil
			}(i)
		}
		close(start)
		wg.Wait()
		n, acc := backend.Len(), 0
		for _, a := range accepted {
			if a {
				acc++
			}
		}
		if n > limit || acc != 1 {
			bad++
			sink.violation(7000000+round, fmt.Sprintf("racing registrations: backend with limit %d counts %d sessions after %d simultaneous registrations for the last slot (%d accepted)", limit, n, racers, acc),
				map[string]interface{}{"limit": limit, "held": limit - 1, "racers": racers, "round": round, "counted": n, "accepted": acc})
		}
		for i, s := range sessions {
			if accepted[i] {
				backend.RemoveSession(s)
			}
		}
		for _, s := range held {
			backend.RemoveSession(s)
		}
		if backend.Len() != 0 {
			sink.violation(7100000+round, fmt.Sprintf("racing registrations: %d slots still taken after every session was removed", backend.Len()), map[string]interface{}{"round": round})
			break
		}
	}
	sink.count("stress_limit_rounds")
}
