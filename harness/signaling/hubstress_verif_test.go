//go:build verif

package signaling

import (
	"encoding/json"
	"fmt"
	"os"
	"sync"
	"testing"
	"time"
)

// hdStressLimit: registrations racing for the last free slot of a limited backend, with real parallelism.
// In the model Backend.AddSession is one atomic step (it holds sessionsLock from the check to the
// insert); this exercises that assumption on the real object: K goroutines call AddSession at the same
// instant on a backend with `limit` slots of which limit-1 are taken, many rounds; after each round the
// backend must count at most `limit` sessions and exactly one of the K must have been accepted.
// A test, not a proof; a failing round is reported as a direct violation with the round as replay.
func hdStressLimit(t *testing.T, env verifEnv, sink *caseSink) {
	rounds := 12000
	if env.thorough() {
		rounds = 40000
	}
	const limit, racers = 3, 4
	sys := newHdSystem(t, []hdBackendCfg{{Limit: limit}, {}})
	defer sys.close()
	var backend *Backend
	for _, b := range sys.hub.backend.GetBackends() {
		if sys.backendIndex(b) == 0 {
			backend = b
		}
	}
	if backend == nil {
		t.Fatal("no backend")
	}
	mk := func(id string) *ClientSession {
		return &ClientSession{publicId: id, privateId: "p" + id, clientType: HelloClientTypeClient}
	}
	bad := 0
	for round := 0; round < rounds && bad < 3; round++ {
		var held []*ClientSession
		for i := 0; i < limit-1; i++ {
			s := mk(fmt.Sprintf("held-%d-%d", round, i))
			if err := backend.AddSession(s); err != nil {
				t.Fatalf("round %d: could not fill the backend: %v", round, err)
			}
			held = append(held, s)
		}
		var wg sync.WaitGroup
		start := make(chan struct{})
		accepted := make([]bool, racers)
		sessions := make([]*ClientSession, racers)
		for i := 0; i < racers; i++ {
			sessions[i] = mk(fmt.Sprintf("racer-%d-%d", round, i))
			wg.Add(1)
			go func(i int) {
				defer wg.Done()
				<-start
				accepted[i] = backend.AddSession(sessions[i]) == nil
			}(i)
		}
		close(start)
		wg.Wait()
		n, acc := backend.Len(), 0
		for _, a := range accepted {
			if a {
				acc++
			}
		}
		if n > limit || acc != 1 {
			bad++
			sink.violation(7000000+round, fmt.Sprintf("racing registrations: backend with limit %d counts %d sessions after %d simultaneous registrations for the last slot (%d accepted)", limit, n, racers, acc),
				map[string]interface{}{"limit": limit, "held": limit - 1, "racers": racers, "round": round, "counted": n, "accepted": acc})
		}
		for i, s := range sessions {
			if accepted[i] {
				backend.RemoveSession(s)
			}
		}
		for _, s := range held {
			backend.RemoveSession(s)
		}
		if backend.Len() != 0 {
			sink.violation(7100000+round, fmt.Sprintf("racing registrations: %d slots still taken after every session was removed", backend.Len()), map[string]interface{}{"round": round})
			break
		}
	}
	sink.count("stress_limit_rounds")
}

// hdStressResume: a resume hello on a new connection racing with the end of the session, with real parallelism.
// In the model a hello is one atomic step: the hub looks the session up and attaches the connection in one critical
// section, so a session that ends concurrently ends either before (the resume is refused, the connection stays
// without session) or after (the session was attached and is then closed like any other). This exercises that
// assumption on the real hub: many rounds of "processHello(resume) on connection 2" against
//   kind 0: housekeeping at a time at which the (disconnected) session is due,
//   kind 1: a bye on the connection the session still has (the resume is a takeover),
//   kind 2: a disinvite of the session by its backend (room API),
// both released at the same instant, the second after a delay that is steered towards the point where the two
// outcomes are equally likely. Each round is judged on the hub's own tables after both have finished:
//   * no entry of the clients table names a session that is not in the session table (C07: nothing left behind);
//   * the new connection holds no session that is not in the session table - a hello reply for such a session
//     authenticates the connection for a session that does not exist (C01: "the private id of a LIVE session");
//   * a refused resume leaves the connection without session; an accepted one names the session that was resumed,
//     and when that session is still there it is attached to exactly the new connection, in the clients table,
//     not in the expiry list.
// Outcomes in which the session was attached and then closed by the racing end (which had already begun) are
// counted, not judged. A test, not a proof; a failing round is a direct violation with the round as replay.
func hdStressResume(t *testing.T, env verifEnv, sink *caseSink) {
	rounds := 480
	if env.thorough() {
		rounds = 6000
	}
	if v := os.Getenv("VERIF_STRESS_ROUNDS"); v != "" {
		fmt.Sscanf(v, "%d", &rounds)
	}
	sys := newHdSystem(t, []hdBackendCfg{{}, {}})
	defer sys.close()
	sys.asyncBus = true
	hub := sys.hub
	serverClient := func(idx int) HandlerClient {
		for deadline := time.Now().Add(2 * time.Second); time.Now().Before(deadline); time.Sleep(50 * time.Microsecond) {
			var found HandlerClient
			hub.mu.RLock()
			for c := range hub.expectHelloClients {
				if sys.connIndex(c) == idx {
					found = c
				}
			}
			hub.mu.RUnlock()
			if found != nil {
				return found
			}
		}
		return nil
	}
	waitIdle := func() {
		n := 0
		for deadline := time.Now().Add(2 * time.Second); time.Now().Before(deadline) && n < 2; {
			if sys.backend.inflight.Load() == 0 && sys.idleDump() {
				n++
			} else {
				n = 0
				time.Sleep(100 * time.Microsecond)
			}
		}
	}
	spin := func(d time.Duration) {
		for end := time.Now().Add(d); time.Now().Before(end); {
		}
	}
	type verdict struct {
		bad  string
		info map[string]interface{}
	}
	// delay of the ender relative to the resume (negative: the resume is delayed), steered per kind
	delay := []time.Duration{0, 0, 0}
	step := []time.Duration{40 * time.Microsecond, 40 * time.Microsecond, 40 * time.Microsecond}
	bad, maxBad := 0, 3
	if v := os.Getenv("VERIF_STRESS_MAXBAD"); v != "" {
		fmt.Sscanf(v, "%d", &maxBad) // development: measure the hit rate
	}
	outcomes := map[string]int{}
	for round := 0; round < rounds && bad < maxBad; round++ {
		kind := round % 3
		i1, i2 := 2*round+1, 2*round+2
		addr := fmt.Sprintf("10.%d.%d.%d", 1+round/62500, (round/250)%250, 1+round%250)
		c1 := sys.connect(i1, addr)
		hello, _ := json.Marshal(map[string]interface{}{"id": "h", "type": "hello", "hello": map[string]interface{}{"version": "1.0",
			"auth": map[string]interface{}{"url": sys.backendUrl(0) + "/ocs/v2.php/apps/spreed/api/v1/signaling/backend", "params": map[string]interface{}{"u": hdUser(1 + round%3), "reject": false}}}})
		if c1.send(hello) != nil || !c1.waitForId("h", 5*time.Second) {
			t.Fatalf("resume stress round %d: no hello reply", round)
		}
		var resumeId, publicId string
		msgs, _ := c1.take()
		for _, m := range msgs {
			var sm ServerMessage
			if json.Unmarshal(m, &sm) == nil && sm.Type == "hello" && sm.Hello != nil {
				resumeId, publicId = sm.Hello.ResumeId, sm.Hello.SessionId
			}
		}
		if resumeId == "" {
			t.Fatalf("resume stress round %d: hello refused", round)
		}
		sess, _ := hub.GetSessionByPublicId(publicId).(*ClientSession)
		if sess == nil {
			t.Fatalf("resume stress round %d: session not found", round)
		}
		sid := sess.Data().Sid
		sc1 := sess.GetClient()
		c2 := sys.connect(i2, addr)
		sc2 := serverClient(i2)
		if sc2 == nil || sc1 == nil {
			t.Fatalf("resume stress round %d: server side of the connection not found", round)
		}
		var ender func()
		switch kind {
		case 0:
			c1.conn.Close()
			<-c1.gone
			for deadline := time.Now().Add(2 * time.Second); time.Now().Before(deadline); time.Sleep(50 * time.Microsecond) {
				hub.mu.RLock()
				_, waiting := hub.expiredSessions[sess]
				hub.mu.RUnlock()
				if waiting && sess.GetClient() == nil {
					break
				}
			}
			ender = func() { hub.performHousekeeping(time.Now().Add(sessionExpireDuration + time.Second)) }
		case 1:
			ender = func() { hub.OnMessageReceived(sc1, []byte(`{"id":"b","type":"bye","bye":{}}`)) }
		default:
			sys.backend.mu.Lock()
			sys.backend.roomReply = hdRoomReply{}
			sys.backend.mu.Unlock()
			rs := fmt.Sprintf("ncsession%d", 500000+round)
			join, _ := json.Marshal(map[string]interface{}{"id": "j", "type": "room", "room": map[string]interface{}{"roomid": hdRoom(1 + round%2), "sessionid": rs}})
			if c1.send(join) != nil || !c1.waitForId("j", 5*time.Second) {
				t.Fatalf("resume stress round %d: no reply to the join", round)
			}
			for sys.events.pending() > 0 {
				sys.events.deliver("")
			}
			body, _ := json.Marshal(map[string]interface{}{"type": "disinvite", "disinvite": map[string]interface{}{"userids": []string{}, "sessionids": []string{rs}, "alluserids": []string{}}})
			if code := sys.roomApi(0, 0, hdRoom(1+round%2), body); code != 200 {
				t.Fatalf("resume stress round %d: room API answered %d", round, code)
			}
			// the request is on the bus now: its delivery tells the session and closes it
			ender = func() {
				for sys.events.pending() > 0 {
					sys.events.deliver("")
				}
			}
		}
		// the housekeeping of kind 0 runs at a time in the future: the new connection is not to be timed out by it
		hub.mu.Lock()
		if _, ok := hub.expectHelloClients[sc2]; ok {
			hub.expectHelloClients[sc2] = time.Now().Add(time.Hour)
		}
		hub.mu.Unlock()
		waitIdle()
		resume, _ := json.Marshal(map[string]interface{}{"id": "r", "type": "hello", "hello": map[string]interface{}{"version": "1.0", "resumeid": resumeId}})
		start := make(chan struct{})
		var wg sync.WaitGroup
		wg.Add(2)
		d := delay[kind]
		go func() {
			defer wg.Done()
			<-start
			if d < 0 {
				spin(-d)
			}
			hub.OnMessageReceived(sc2, resume)
		}()
		go func() {
			defer wg.Done()
			<-start
			if d > 0 {
				spin(d)
			}
			ender()
		}()
		close(start)
		wg.Wait()
		// the hello was processed synchronously: its reply, if one was written, is on the wire
		c2.waitForId("r", 150*time.Millisecond)
		waitIdle()
		// what the new connection was told
		var gotSid, gotErr string
		m2, _ := c2.take()
		for _, m := range m2 {
			var sm ServerMessage
			if json.Unmarshal(m, &sm) != nil || sm.Id != "r" {
				continue
			}
			if sm.Type == "hello" && sm.Hello != nil {
				gotSid = sm.Hello.SessionId
			} else if sm.Type == "error" && sm.Error != nil {
				gotErr = sm.Error.Code
			}
		}
		judge := func() *verdict {
			hub.mu.RLock()
			defer hub.mu.RUnlock()
			info := map[string]interface{}{"round": round, "kind": []string{"housekeeping with the session due", "bye on the session's connection", "disinvite by the backend"}[kind],
				"delay_us": d.Microseconds(), "hello_reply_sid": gotSid != "", "error": gotErr}
			for csid := range hub.clients {
				if _, ok := hub.sessions[csid]; !ok {
					info["stale_clients_entry"] = csid
					if csid == sid && gotSid != "" {
						return &verdict{fmt.Sprintf("the hello reply of the resume names session %d, which was not a live session any more when the connection was attached: it is not in the session table, and the clients table keeps an entry for it", csid), info}
					}
					return &verdict{fmt.Sprintf("the clients table has an entry for session %d which is not in the session table (a connection was attached to a session that had ended)", csid), info}
				}
			}
			live, isLive := hub.sessions[sid]
			bound := sc2.GetSession()
			if bound != nil {
				if cur, ok := hub.sessions[bound.Data().Sid]; !ok || cur != bound {
					return &verdict{"the connection that asked to resume holds a session that is not in the hub's session table (hello reply for a session that is not live)", info}
				}
			}
			switch {
			case gotErr != "":
				if gotErr != "no_such_session" {
					return &verdict{"resume refused with " + gotErr, info}
				}
				if bound != nil {
					return &verdict{"the resume was refused and the connection has a session", info}
				}
			case gotSid != "":
				if gotSid != publicId {
					return &verdict{"the hello reply of the resume names another session", info}
				}
				if isLive {
					_, expiring := hub.expiredSessions[live]
					if bound != live || hub.clients[sid] != sc2 || expiring || live.(*ClientSession).GetClient() != sc2 {
						info["bound"], info["in_clients"], info["expiring"] = bound == live, hub.clients[sid] == sc2, expiring
						return &verdict{"the resumed session is live and not attached to exactly the new connection (connection, clients table, expiry list)", info}
					}
				}
			default:
				// no reply: the session was attached and ended before the hello reply was written (the reply went into
				// the queue of the closed session). The connection must be without session then.
				if bound != nil {
					return &verdict{"the resume was not answered and the connection has a session", info}
				}
			}
			return nil
		}
		v := judge()
		if v != nil {
			// a goroutine of the server may still be finishing the end of the session: judge again after a pause
			time.Sleep(30 * time.Millisecond)
			waitIdle()
			v = judge()
		}
		_, isLive := func() (Session, bool) { hub.mu.RLock(); defer hub.mu.RUnlock(); s, ok := hub.sessions[sid]; return s, ok }()
		out := "refused"
		if gotSid == "" && gotErr == "" {
			out = "attached_then_ended_unanswered"
		} else if gotSid != "" && isLive {
			out = "resumed"
		} else if gotSid != "" {
			out = "resumed_then_ended"
		}
		outcomes[fmt.Sprintf("%d_%s", kind, out)]++
		if v != nil {
			bad++
			sink.violation(7200000+round, "resume racing the end of the session: "+v.bad, v.info)
			outcomes[fmt.Sprintf("%d_VIOLATION", kind)]++
			if maxBad > 3 {
				hub.mu.Lock()
				for csid := range hub.clients {
					if _, ok := hub.sessions[csid]; !ok {
						delete(hub.clients, csid)
					}
				}
				hub.mu.Unlock()
			}
		}
		// steer towards the boundary between "the end came first" and "the resume came first"
		if gotSid == "" {
			delay[kind] += step[kind] // the end won: start it later
		} else {
			delay[kind] -= step[kind]
		}
		if round%60 == 59 && step[kind] > 2*time.Microsecond {
			step[kind] = step[kind] * 3 / 4
		}
		if round > 600 && round%7 == 0 {
			// leave the boundary now and then: other schedules
			delay[kind] += time.Duration(round%41-20) * time.Microsecond
		}
		c1.conn.Close()
		c2.conn.Close()
		delete(sys.clients, i1)
		delete(sys.clients, i2)
		// the bus is not delivered in this scenario: forget what was published
		for sys.events.pending() > 0 {
			sys.events.deliver("")
		}
		if round%50 == 49 {
			// sessions left over (resumed ones whose connection was closed above) end here
			waitIdle()
			hub.performHousekeeping(time.Now().Add(sessionExpireDuration + time.Second))
		}
	}
	for k, n := range outcomes {
		for i := 0; i < n; i++ {
			sink.count("stress_resume_" + k)
		}
	}
	sink.count("stress_resume_rounds")
}

// TestVerifHubResumeStress: the resume stress alone (development aid; VERIF_STRESS_ROUNDS chooses the number of rounds)
func TestVerifHubResumeStress(t *testing.T) {
	env := getVerifEnv(t, "C01")
	hdQuiet()
	sink := newCaseSink(t, env, "C01", "corr.Run_C01", 10)
	sink.scope = "N_scope"
	start := time.Now()
	hdStressResume(t, env, sink)
	t.Logf("took %s; histogram %v; violations %d", time.Since(start), sink.stats.Histogram, len(sink.stats.DirectViolations))
	for _, v := range sink.stats.DirectViolations {
		t.Logf("violation %d: %s %v", v.Id, v.What, v.Case)
	}
	sink.close("resume stress alone")
}
