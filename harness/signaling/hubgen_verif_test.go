//go:build verif

package signaling

import (
	"sort"
	"fmt"
	"io"
	"log"
	"strings"
	"testing"
)

// ---- generator of hub histories (quiescent semantics) ----------------------------

type hdGenOpts struct {
	internal       bool // internal clients and virtual sessions
	media          bool
	api            bool
	multiBackendRS bool // allow the same Nextcloud session id on different backends (known finding region of C03)
	prehello       bool // requests on connections that have not said hello
	twoTenants     bool
	rooms          bool
	messages       bool
	resume         bool
	limits         bool
	endings        bool
	perms          bool
	gatedAlways    bool
	virtual        bool
	v2             bool // protocol 2.0 hellos (good tokens and mutated ones)
	transient      bool // more transient-data requests (clients and the room request), permissions granted and withdrawn
}

type hdGen struct {
	r         *vrng
	opts      hdGenOpts
	conns     []int       // open connection numbers (as far as the generator knows)
	auth      map[int]int // conn -> backend (authenticated, as far as the generator knows)
	intern    map[int]bool
	next      int
	rsOf      map[int]int // conn -> nc session id in use
	rsBackend map[int]int
	gated     bool
	blocked   map[int]bool
	tag       int
	dropped   []int // connections whose session may still be resumable
	nb        int   // configured backends
	// two-tenant cases: backend -> connection of the one internal client that announced "start-dialout" for it.
	// The server picks the dial-out client of a backend by walking a Go map, so with two connected ones the
	// choice is not determined; a case has at most one per backend (ever, so a resume cannot make a second).
	dial map[int]int
	// (internal client's connection, chosen id) -> room of the last addsession sent for it
	vroom map[[2]int]int
}

func (g *hdGen) pickConn() int {
	if len(g.conns) == 0 {
		return 1
	}
	return pick(g.r, g.conns)
}

// a connection that sent an offer to a gated media server handles nothing else until the
// creation completed: the generator sends nothing more on it until the next flush
func (g *hdGen) pickFreeConn() (int, bool) {
	var free []int
	for _, c := range g.conns {
		if !g.blocked[c] {
			free = append(free, c)
		}
	}
	if len(free) == 0 {
		return 0, false
	}
	return pick(g.r, free), true
}

func (g *hdGen) idref(priv bool) *hdIdRef {
	x := g.r.intn(100)
	c := g.pickConn()
	if !priv && (g.opts.internal || g.opts.virtual) && g.r.chance(18) {
		// the public id of a virtual session (number 1..3) of some internal client, whichever backend it is on
		var ic []int
		for k, v := range g.intern {
			if v {
				ic = append(ic, k)
			}
		}
		if len(ic) > 0 {
			sort.Ints(ic)
			return &hdIdRef{T: "vpub", C: pick(g.r, ic), V: 1 + g.r.intn(3)}
		}
	}
	if priv && len(g.dropped) > 0 && g.r.chance(60) {
		c = pick(g.r, g.dropped)
	}
	switch {
	case x < 70:
		if priv {
			return &hdIdRef{T: "priv", C: c}
		}
		return &hdIdRef{T: "pub", C: c}
	case x < 80:
		if priv {
			return &hdIdRef{T: "pub", C: c}
		}
		return &hdIdRef{T: "priv", C: c}
	case x < 90:
		t := "pub"
		if priv {
			t = "priv"
		}
		return &hdIdRef{T: t, C: c, M: 1 + g.r.intn(3)}
	}
	return &hdIdRef{T: "other", O: g.r.intn(6)}
}

func (g *hdGen) recipient() *hdRecipient {
	to := g.recipientPlain()
	// now and then members the type does not call for (they must not matter)
	if g.r.intn(5) == 0 {
		if g.r.intn(2) == 0 {
			to.SU = 1 + g.r.intn(3)
		} else {
			to.SId = &hdIdRef{T: "pub", C: g.pickConn()}
		}
	}
	return to
}

func (g *hdGen) recipientPlain() *hdRecipient {
	switch g.r.intn(10) {
	case 0, 1, 2:
		return &hdRecipient{T: "session", Id: g.idref(false)}
	case 3, 4:
		return &hdRecipient{T: "user", U: 1 + g.r.intn(3)}
	case 5, 6, 7:
		return &hdRecipient{T: "room"}
	}
	return &hdRecipient{T: "call"}
}

func (g *hdGen) freshRS(c int, backend int) int {
	for tries := 0; tries < 20; tries++ {
		rs := 1 + g.r.intn(8)
		if !g.opts.multiBackendRS {
			if b, used := g.rsBackend[rs]; used && b != backend {
				continue
			}
		}
		return rs
	}
	return 0
}

func (g *hdGen) nextTag() int { g.tag++; return g.tag }

func (g *hdGen) message(c int) hdOp {
	k := "msg"
	if g.r.chance(35) {
		k = "ctl"
	}
	o := hdOp{K: k, C: c, To: g.recipient(), Tag: g.nextTag()}
	if g.opts.virtual && len(g.vroom) > 0 && g.r.chance(30) {
		// to a virtual session that was added (it may have been removed or replaced since), half of the time from the
		// internal client it belongs to, otherwise from whoever is sending: another internal client, an ordinary session
		var keys [][2]int
		for k := range g.vroom {
			keys = append(keys, k)
		}
		sort.Slice(keys, func(i, j int) bool { return keys[i][0] < keys[j][0] || (keys[i][0] == keys[j][0] && keys[i][1] < keys[j][1]) })
		key := pick(g.r, keys)
		o.To = &hdRecipient{T: "session", Id: &hdIdRef{T: "vpub", C: key[0], V: key[1]}}
		if _, ok := g.auth[key[0]]; ok && !g.blocked[key[0]] && g.r.chance(50) {
			o.C = key[0]
		}
	}
	if g.r.chance(15) {
		o.FS = g.pickConn()
	}
	if k == "msg" && g.opts.resume && g.r.chance(22) {
		o.Tag = hdChatRefreshTag
	}
	return o
}

func (g *hdGen) join(c, b int, authed bool) hdOp {
	r := g.r
	room := 1 + r.intn(3)
	if r.chance(12) {
		room = 0
	}
	o := hdOp{K: "join", C: c, R: room}
	if room != 0 {
		// internal clients join without a Nextcloud session id (their virtual sessions are closed by a
		// goroutine of their own when they get kicked, which races with the kicker's join)
		if r.chance(80) && !g.intern[c] {
			o.RS = g.freshRS(c, b)
			if o.RS != 0 && authed {
				g.rsOf[c] = o.RS
				g.rsBackend[o.RS] = b
			}
		}
		if r.chance(10) {
			o.Err = pick(r, []string{"no_such_room", "not_invited", "refused"})
		} else {
			pp := 35
			if g.opts.perms {
				pp = 75
			}
			if g.opts.transient {
				pp = 55
			}
			if r.chance(pp) {
				o.HasP = true
				n := r.intn(5)
				for i := 0; i < n; i++ {
					o.Perm = append(o.Perm, r.intn(len(hdPermNames)))
				}
				if g.opts.transient && r.chance(50) {
					o.Perm = append(o.Perm, 5) // transient-data
				}
			}
			if r.chance(15) {
				o.SU = 1 + r.intn(3)
			}
		}
	}
	return o
}

func (g *hdGen) apiOp(bk int) hdOp {
	r := g.r
	o := hdOp{K: "api", B: bk, SignAs: bk, R: 1 + r.intn(3)}
	if r.chance(5) {
		o.SignAs = 1 - bk
	}
	users := func() []hdApiUser {
		var l []hdApiUser
		n := 1 + r.intn(3)
		used := map[int]bool{}
		for i := 0; i < n; i++ {
			u := hdApiUser{RS: 1 + r.intn(8), InCall: pick(r, []int{0, 1, 3, 7})}
			if r.chance(18) {
				// a signaling session id where a Nextcloud session id belongs (resolves to nobody)
				u = hdApiUser{Id: g.idref(false), InCall: u.InCall}
				if r.chance(50) {
					u.HasP, u.Perm = true, []int{r.intn(len(hdPermNames))}
				}
				l = append(l, u)
				continue
			}
			if used[u.RS] {
				// the server handles the entries of one request concurrently: two entries for one session race
				continue
			}
			used[u.RS] = true
			if !g.opts.multiBackendRS {
				if ob, used := g.rsBackend[u.RS]; used && ob != bk {
					continue
				}
			}
			if r.chance(50) || g.opts.perms {
				u.HasP = true
				m := r.intn(5)
				for j := 0; j < m; j++ {
					u.Perm = append(u.Perm, r.intn(len(hdPermNames)))
				}
				if g.opts.transient && r.chance(50) {
					u.Perm = append(u.Perm, 5) // transient-data granted through the participants API
				}
			}
			l = append(l, u)
		}
		return l
	}
	x := r.intn(10)
	if g.opts.perms && r.chance(50) {
		x = 3
	}
	if tc := map[bool]int{false: 7, true: 35}[g.opts.transient]; r.chance(tc) {
		// the room request "transient" (values 11..13: what arrives from the bus is decoded JSON, what a client sets
		// is raw JSON - the server never takes the two for equal, so the value pools are kept apart)
		o.Api = "transient"
		o.R = 1 + r.intn(2)
		o.Tk = pick(r, []string{"set", "set", "set", "delete"})
		o.Key = r.intn(3)
		o.Tag = 11 + r.intn(3)
		if r.chance(6) {
			o.Tag = 0
		}
		return o
	}
	if g.opts.transient && r.chance(40) {
		x = 3
	}
	if g.opts.virtual && r.chance(50) {
		// the backend's in-call list names virtual sessions too (Nextcloud knows them: it was told when they were
		// added) - the room keeps the list it was sent last and repeats it in later participants updates
		var keys [][2]int
		for k := range g.vroom {
			keys = append(keys, k)
		}
		if len(keys) > 0 {
			sort.Slice(keys, func(i, j int) bool { return keys[i][0] < keys[j][0] || (keys[i][0] == keys[j][0] && keys[i][1] < keys[j][1]) })
			first := pick(r, keys)
			o.Api = "incall"
			o.R = g.vroom[first]
			if b, ok := g.auth[first[0]]; ok {
				o.B, o.SignAs = b, b
			}
			for _, k := range keys {
				// the others that were added to the same room, most of the time
				if k == first || (g.vroom[k] == o.R && r.chance(70)) {
					o.Users = append(o.Users, hdApiUser{Id: &hdIdRef{T: "vpub", C: k[0], V: k[1]}, InCall: pick(r, []int{0, 1, 3, 7})})
				}
			}
			if r.chance(50) {
				o.Users = append(o.Users, hdApiUser{RS: 1 + r.intn(8), InCall: pick(r, []int{0, 1, 7})})
			}
			return o
		}
	}
	if g.opts.twoTenants && r.chance(14) {
		// a dial-out request: well-formed most of the time; never while the backend's dial-out client is busy
		// with a held-back creation (it could not answer before the request times out)
		o.Api = "dialout"
		o.R = 1 + r.intn(9)
		if dc, have := g.dial[bk]; r.chance(15) || (have && g.blocked[dc]) {
			o.Tag = 1 + r.intn(3)
		}
		return o
	}
	switch x {
	case 0:
		o.Api = "delete"
	case 1:
		o.Api = "disinvite"
		o.Users = users()
		if r.chance(50) {
			o.Users = append(o.Users, hdApiUser{U: 1 + r.intn(3)})
		}
	case 2:
		o.Api = "update"
		o.Tag = r.intn(3)
	case 3, 4, 5:
		o.Api = "participants"
		o.Users = users()
	case 6, 7:
		o.Api = "incall"
		o.Users = users()
	case 8:
		o.Api = "incallall"
		o.InCall = pick(r, []int{0, 1, 7})
	default:
		o.Api = "message"
		o.Tag = g.nextTag()
	}
	return o
}

func (g *hdGen) mediaOp(c int) hdOp {
	r := g.r
	k := r.intn(12)
	if k >= 10 {
		if !g.gated {
			// sendoffer: the recipient's session subscribes to the sender's stream.  Not with a gated media server:
			// the creation runs under the SENDER's context, which the model does not follow (notes/hub-sendoffer.md)
			return hdOp{K: "media", C: c, Mk: "sendoffer", Stream: pick(r, []string{"video", "screen", "screen", "audio"}),
				To: &hdRecipient{T: "session", Id: &hdIdRef{T: "pub", C: g.pickConn()}}}
		}
		k = 4 + r.intn(3)
	}
	switch k {
	case 0, 1, 2, 3:
		if g.gated {
			g.blocked[c] = true
		}
		return hdOp{K: "media", C: c, Mk: "offer", Stream: pick(r, []string{"video", "video", "screen", "audio"}), Media: pick(r, []int{1, 2, 3, 1, 2, 3, 8, 16, 9, 17, 10, 24, 4, 12}),
			To: &hdRecipient{T: "session", Id: &hdIdRef{T: "pub", C: c}}}
	case 4, 5, 6:
		return hdOp{K: "media", C: c, Mk: "requestoffer", Stream: pick(r, []string{"video", "screen"}),
			To: &hdRecipient{T: "session", Id: &hdIdRef{T: "pub", C: g.pickConn()}}}
	case 7:
		// candidate, answer, endOfCandidates: one path in the server
		o := hdOp{K: "media", C: c, Mk: pick(r, []string{"candidate", "candidate", "answer", "endOfCandidates"}), Stream: pick(r, []string{"video", "screen"}),
			To: &hdRecipient{T: "session", Id: &hdIdRef{T: "pub", C: g.pickConn()}}}
		if g.opts.perms && r.chance(60) {
			// for its own stream (that is the one the publish permissions decide), any stream type
			o.To = &hdRecipient{T: "session", Id: &hdIdRef{T: "pub", C: c}}
			o.Stream = pick(r, []string{"video", "screen", "screen", "audio"})
		}
		return o
	default:
		if g.gated {
			return hdOp{K: "mcudone", Tok: 0, Res: pick(r, []string{"ok", "ok", "ok", "fail"})}
		}
		b := g.auth[c]
		return hdOp{K: "api", B: b, SignAs: b, R: 1 + r.intn(3), Api: "incallall", InCall: pick(r, []int{0, 1, 7})}
	}
}

func (g *hdGen) internalOp(c int) hdOp {
	r := g.r
	switch r.intn(8) {
	case 0, 1, 2:
		o := hdOp{K: "internal", C: c, Ik: "addsession", V: 1 + r.intn(3), R: 1 + r.intn(3), U: r.intn(4)}
		g.vroom[[2]int{c, o.V}] = o.R
		if r.chance(40) {
			o.HasF, o.Flags = true, r.intn(4)
		}
		if r.chance(40) {
			o.HasIC, o.InCall = true, pick(r, []int{0, 1, 5, 9})
		}
		return o
	case 3, 4:
		o := hdOp{K: "internal", C: c, Ik: "updatesession", V: 1 + r.intn(3), R: 1 + r.intn(3)}
		if r.chance(60) {
			o.HasF, o.Flags = true, r.intn(4)
		}
		if r.chance(60) {
			o.HasIC, o.InCall = true, pick(r, []int{0, 1, 5, 9})
		}
		return o
	case 5, 6:
		return hdOp{K: "internal", C: c, Ik: "removesession", V: 1 + r.intn(3), R: 1 + r.intn(3)}
	default:
		return hdOp{K: "internal", C: c, Ik: "incall", InCall: pick(r, []int{0, 1, 3})}
	}
}

func (g *hdGen) hello(c int) hdOp {
	r := g.r
	x := r.intn(100)
	internalShare := 0
	if g.opts.internal {
		internalShare = 30
	}
	if g.opts.virtual {
		internalShare = 55
	}
	resumeShare := 15
	if g.opts.resume && len(g.dropped) > 0 {
		resumeShare = 45
	}
	switch {
	case x < internalShare:
		bk := r.intn(2)
		tok := 0
		if r.chance(12) {
			tok = 1 + r.intn(3)
		}
		if r.chance(5) {
			bk = 2
		}
		var feat []string
		if r.chance(40) {
			feat = append(feat, ClientFeatureInternalInCall)
		}
		if r.chance(20) {
			if _, have := g.dial[bk]; !g.opts.twoTenants || !have {
				feat = append(feat, ClientFeatureStartDialout)
				if g.opts.twoTenants {
					g.dial[bk] = c
				}
			}
		}
		if tok == 0 && bk < 2 {
			g.auth[c] = bk
			g.intern[c] = true
		}
		return hdOp{K: "hello", C: c, Ht: "internal", B: bk, Tok: tok, Feat: feat}
	case x < internalShare+resumeShare:
		return hdOp{K: "hello", C: c, Ht: "resume", Id: g.idref(true)}
	default:
		bk := r.intn(2)
		if r.chance(6) {
			bk = 2 + r.intn(2)
		}
		if g.opts.v2 && r.chance(70) {
			nb := g.nb
			bk = r.intn(nb)
			if r.chance(6) {
				bk = nb + r.intn(2)
			}
			tb := bk
			if tb >= nb {
				tb = r.intn(nb)
			}
			tok := hdV2Good(r, tb)
			good := bk < nb
			if r.chance(55) {
				tok = hdV2Mutate(r, tb, nb, tok)
				good = false
			}
			if good {
				g.auth[c] = bk
			}
			return hdOp{K: "hello", C: c, B: bk, U: r.intn(4), V2: tok}
		}
		rej := r.chance(8)
		if bk < 2 && !rej {
			g.auth[c] = bk
		}
		return hdOp{K: "hello", C: c, B: bk, U: r.intn(4), Reject: rej}
	}
}

func (g *hdGen) transientOp(c int) hdOp {
	r := g.r
	o := hdOp{K: "transient", C: c, Tk: pick(r, []string{"set", "set", "set", "set", "remove", "remove"}), Key: r.intn(3), Tag: 1 + r.intn(3)}
	if r.chance(5) {
		o.Tk = "bogus"
	}
	if o.Tk == "set" && r.chance(6) {
		o.Tag = 0 // a set without value
	}
	return o
}

func (g *hdGen) removeConn(c int) {
	for i, x := range g.conns {
		if x == c {
			g.conns = append(g.conns[:i:i], g.conns[i+1:]...)
			return
		}
	}
}

func (g *hdGen) op() hdOp {
	r := g.r
	maxConns := 5
	if g.opts.limits {
		maxConns = 7
	}
	if len(g.conns) == 0 || (len(g.conns) < maxConns && r.chance(10)) {
		g.next++
		g.conns = append(g.conns, g.next)
		return hdOp{K: "connect", C: g.next, Addr: 1 + r.intn(3)}
	}
	c, okc := g.pickFreeConn()
	if !okc || (g.gated && len(g.blocked) > 0 && r.chance(15)) {
		g.blocked = map[int]bool{}
		return hdOp{K: "mcuflush"}
	}
	b, authed := g.auth[c]
	if !authed {
		if g.opts.prehello && r.chance(45) {
			switch r.intn(6) {
			case 0:
				return g.join(c, 0, false)
			case 1:
				return g.message(c)
			case 2:
				return g.internalOp(c)
			case 3:
				return g.mediaOp(c)
			case 4:
				return hdOp{K: "transient", C: c, Tk: "set", Key: 1, Tag: 1}
			default:
				return hdOp{K: "tick", O: 1}
			}
		}
		if (g.opts.limits || g.opts.endings || g.opts.resume) && r.chance(14) {
			// the connection goes away while its hello is being processed
			g.removeConn(c)
			if len(g.dropped) > 0 && r.chance(50) {
				return hdOp{K: "helloabort", C: c, Ht: "resume", Id: &hdIdRef{T: "priv", C: pick(r, g.dropped)}}
			}
			return hdOp{K: "helloabort", C: c, B: r.intn(2), U: r.intn(4), Late: r.chance(60)}
		}
		if r.chance(80) {
			return g.hello(c)
		}
	}
	// weights of the op classes for an authenticated connection
	w := map[string]int{"join": 22, "msg": 24, "bye": 5, "drop": 7, "tick": 6, "resume": 3, "transient": 4, "api": 12, "internal": 0, "media": 0, "kick": 3}
	if !g.opts.api {
		w["api"] = 0
	}
	if g.opts.internal && g.intern[c] {
		w["internal"] = 25
		if g.opts.virtual {
			w["internal"] = 45
		}
	}
	if g.opts.media {
		w["media"] = 30
	}
	if g.opts.messages {
		w["msg"] = 45
	}
	if g.opts.rooms {
		w["join"] = 40
		w["kick"] = 8
	}
	if g.opts.resume {
		w["drop"] = 14
	}
	if g.opts.endings {
		w["bye"], w["drop"], w["tick"], w["kick"] = 8, 9, 9, 8
	}
	if g.opts.perms {
		w["api"] = 25
	}
	if g.opts.virtual && g.opts.api {
		w["api"] = 22
	}
	if g.opts.transient {
		w["transient"], w["join"], w["api"], w["msg"], w["drop"], w["resume"] = 30, 30, 18, 8, 10, 6
	}
	if (g.opts.resume || g.opts.endings) && !g.gated && authed && !g.intern[c] {
		// the connection is cut while the backend's reply to its room join is outstanding, the session is resumed
		// on a new connection before the backend replies (forced schedule, see "joincut" in hubops)
		w["joincut"] = 5
	}
	total := 0
	order := []string{"join", "msg", "bye", "drop", "tick", "resume", "transient", "api", "internal", "media", "kick", "joincut"}
	for _, k := range order {
		total += w[k]
	}
	x := r.intn(total)
	var cls string
	for _, k := range order {
		if x < w[k] {
			cls = k
			break
		}
		x -= w[k]
	}
	switch cls {
	case "join":
		return g.join(c, b, authed)
	case "kick":
		// join with the Nextcloud session id another connection of the same backend is using
		o := g.join(c, b, authed)
		for oc, rs := range g.rsOf {
			if oc != c && g.rsBackend[rs] == b && o.R != 0 {
				o.RS = rs
				g.rsOf[c] = rs
				break
			}
		}
		return o
	case "joincut":
		o := g.join(c, b, authed)
		if o.R == 0 {
			return o
		}
		g.next++
		c2 := g.next
		o.K, o.C2, o.Addr = "joincut", c2, 1+r.intn(3)
		if r.chance(55) {
			// while the join is outstanding somebody writes to the session (or to its room, or to whomever)
			var others []int
			for _, x := range g.conns {
				if _, ok := g.auth[x]; ok && x != c && !g.blocked[x] {
					others = append(others, x)
				}
			}
			for k := 0; len(others) > 0 && k < 1+r.intn(2); k++ {
				m := g.message(pick(r, others))
				if r.chance(60) {
					m.To = hdToSession(c)
				}
				o.Mid = append(o.Mid, m)
			}
		}
		g.removeConn(c)
		delete(g.auth, c)
		g.conns = append(g.conns, c2)
		g.auth[c2] = b
		if rs, ok := g.rsOf[c]; ok {
			g.rsOf[c2] = rs
			delete(g.rsOf, c)
		}
		return o
	case "msg":
		return g.message(c)
	case "bye":
		delete(g.auth, c)
		g.removeConn(c)
		return hdOp{K: "bye", C: c}
	case "drop":
		delete(g.auth, c)
		g.removeConn(c)
		g.dropped = append(g.dropped, c)
		return hdOp{K: "drop", C: c}
	case "tick":
		return hdOp{K: "tick", O: pick(r, []int{1, 5, 15, 15, 40, 40})}
	case "resume":
		return hdOp{K: "hello", C: c, Ht: "resume", Id: g.idref(true)}
	case "transient":
		return g.transientOp(c)
	case "api":
		return g.apiOp(r.intn(2))
	case "internal":
		return g.internalOp(c)
	case "media":
		return g.mediaOp(c)
	}
	return g.message(c)
}

func hdGenCase(r *vrng, id int, opts hdGenOpts, n int) *hdCase {
	g := &hdGen{r: r, opts: opts, blocked: map[int]bool{}, auth: map[int]int{}, intern: map[int]bool{}, rsOf: map[int]int{}, rsBackend: map[int]int{}, dial: map[int]int{}, vroom: map[[2]int]int{}}
	c := &hdCase{Id: id, Mode: 1, Backends: []hdBackendCfg{{}, {}}}
	g.nb = 2
	if opts.v2 && r.chance(40) {
		// four tenants: backends 0 and 3 publish keys of the same family
		c.Backends = append(c.Backends, hdBackendCfg{}, hdBackendCfg{})
		g.nb = 4
	}
	if (opts.media && r.chance(40)) || opts.gatedAlways {
		c.Gated = true
		g.gated = true
	}
	if r.chance(25) || opts.limits {
		c.Backends[0].Limit = 1 + r.intn(3)
	}
	if opts.messages || opts.twoTenants || opts.virtual || opts.perms || opts.transient {
		// a populated system first: several sessions of both backends in a few rooms, some in the call
		k := 3 + r.intn(3)
		for i := 1; i <= k; i++ {
			g.next = i
			g.conns = append(g.conns, i)
			bk := r.intn(2)
			c.Ops = append(c.Ops, hdOp{K: "connect", C: i, Addr: 1 + r.intn(3)})
			if opts.virtual && i == 1 {
				c.Ops = append(c.Ops, hdOp{K: "hello", C: i, Ht: "internal", B: bk})
				g.intern[i] = true
			} else {
				c.Ops = append(c.Ops, hdOp{K: "hello", C: i, B: bk, U: r.intn(4)})
			}
			g.auth[i] = bk
			rs := 1 + r.intn(8)
			if g.intern[i] {
				rs = 0
			}
			c.Ops = append(c.Ops, hdOp{K: "join", C: i, R: 1 + r.intn(2), RS: rs})
			if rs != 0 {
				g.rsOf[i] = rs
				g.rsBackend[rs] = bk
			}
		}
		for b := 0; b < 2; b++ {
			if r.chance(70) {
				c.Ops = append(c.Ops, hdOp{K: "api", B: b, SignAs: b, R: 1 + r.intn(2), Api: "incallall", InCall: 1})
			}
		}
		if opts.twoTenants {
			// dial-out clients (internal clients that announced "start-dialout", in no room), for one tenant, both or none
			for b := 0; b < 2; b++ {
				if r.chance(45) {
					g.next++
					i := g.next
					g.conns = append(g.conns, i)
					c.Ops = append(c.Ops, hdOp{K: "connect", C: i, Addr: 1 + r.intn(3)}, hdOp{K: "hello", C: i, Ht: "internal", B: b, Feat: []string{ClientFeatureStartDialout}})
					g.auth[i], g.intern[i], g.dial[b] = b, true, i
				}
			}
		}
	}
	for i := 0; i < n; i++ {
		c.Ops = append(c.Ops, g.op())
	}
	if g.gated {
		c.Ops = append(c.Ops, hdOp{K: "mcuflush"})
	}
	return c
}

func hdCaseTerm(c *hdCase, trace string, run *hdRun) string {
	var lim []string
	backends := c.Backends
	if len(backends) == 0 {
		backends = []hdBackendCfg{{}, {}}
	}
	for _, b := range backends {
		lim = append(lim, fmt.Sprintf("%d", b.Limit))
	}
	var infl []string
	for _, i := range run.inflight {
		infl = append(infl, fmt.Sprintf("%d", i))
	}
	return fmt.Sprintf("mkcasef %d %d %s %s %s %s", c.Id, c.Mode, coqList(lim), coqBool(c.Gated), trace, coqList(infl))
}

func hdQuiet() { log.SetOutput(io.Discard) }

func TestVerifHub(t *testing.T) {
	env := getVerifEnv(t, "HUB")
	hdQuiet()
	sink := newCaseSink(t, env, "HUB", "corr.Run_HubAll", 10)
	sink.scope = "N_scope"
	n := 150
	if env.thorough() {
		n = 1500
	}
	var cases []*hdCase
	if env.replay != "" {
		var cs []hdCase
		readReplay(t, env.replay, &cs)
		for i := range cs {
			cases = append(cases, &cs[i])
		}
	} else {
		for i := 0; i < n; i++ {
			r := newVrng(env.seed, uint64(i))
			opts := hdGenOpts{api: true, internal: i%2 == 1, media: i%3 == 0}
			cases = append(cases, hdGenCase(r, i, opts, 12+r.intn(28)))
		}
	}
	for _, c := range cases {
		trace, run := hdRunCase(t, c)
		for _, o := range c.Ops {
			sink.count("op_" + o.K)
		}
		for _, note := range run.notes {
			if strings.HasPrefix(note, "unsettled") || strings.HasPrefix(note, "unknown") {
				sink.count("note_" + strings.Fields(note)[0])
			}
		}
		sink.add(hdCaseTerm(c, trace, run), c, len(c.Ops) >= 5, trace)
	}
	sink.close("seeded hub histories (connect, hello v1/internal/resume, join/leave, message/control of all recipient types, bye, drop, housekeeping ticks, room API, virtual sessions) on the real Hub in the quiescent bus semantics; non-trivial = at least 5 ops; distinct = distinct traces")
}
