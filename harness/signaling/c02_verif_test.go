//go:build verif

package signaling

import (
	"bytes"
	"context"
	"crypto/hmac"
	"crypto/sha256"
	"encoding/hex"
	"encoding/json"
	"fmt"
	"io"
	"log"
	"net"
	"net/http"
	"net/http/httptest"
	"net/url"
	"os"
	"strings"
	"sync"
	"testing"
	"time"

	"github.com/dlintw/goconf"
	"github.com/gorilla/mux"
)

// ---- C02: the real BackendServer + Hub, requests to the room API in both directions ----
//
// Header names, the room API path and the MAC construction are written here from the
// protocol description, not taken from the constants of the package under test.

const (
	c02HdrRandom   = "Spreed-Signaling-Random"
	c02HdrChecksum = "Spreed-Signaling-Checksum"
	c02HdrBackend  = "Spreed-Signaling-Backend"
	c02Room        = "c02room"
	c02MaxBody     = 256 * 1024
	// backend.timeout (seconds) of the servers of the outgoing scenario: what a "slow" fault has to outlast
	c02BackendTimeout = 2
)

func c02Mac(secret string, rnd string, body []byte) string {
	m := hmac.New(sha256.New, []byte(secret))
	m.Write([]byte(rnd))
	m.Write(body)
	return hex.EncodeToString(m.Sum(nil))
}

// ---- configurations ------------------------------------------------------------

type c02B struct {
	Host   int    `json:"host"` // 0 = the host of the signaling server itself, k = k-th extra host
	Path   string `json:"path"` // "" = root
	Secret string `json:"secret"`
}

type c02Cfg struct {
	Name      string `json:"name"`
	Compat    bool   `json:"compat"`
	PingLimit int    `json:"pinglimit,omitempty"`
	Backends  []c02B `json:"backends"`
	// outgoing scenario only: the configuration is changed between the requests (secrets changed,
	// URLs exchanged, a backend removed and added again) - by BackendClient.Reload, or, with Etcd,
	// by put / delete events on an etcd backend storage
	Reload bool `json:"reload,omitempty"`
	Etcd   bool `json:"etcd,omitempty"`
}

func (c c02Cfg) key() string { b, _ := json.Marshal(c); return string(b) }

func c02Secret(r *vrng, n int) string {
	const al = "abcdefghijklmnopqrstuvwxyzABCDEFGHIJKLMNOPQRSTUVWXYZ0123456789"
	b := make([]byte, n)
	for i := range b {
		b[i] = al[r.intn(len(al))]
	}
	return string(b)
}

func c02Catalog(r *vrng) []c02Cfg {
	s := func() string { return c02Secret(r, 12+r.intn(24)) }
	near := s()
	return []c02Cfg{
		{Name: "single", Backends: []c02B{{0, "", s()}}},
		{Name: "shared3", Backends: []c02B{{0, "/one", s()}, {0, "/two", s()}, {0, "/three", s()}}},
		{Name: "hosts2", Backends: []c02B{{1, "", s()}, {2, "", s()}}},
		{Name: "mixed3", Backends: []c02B{{0, "/one", s()}, {0, "/two", s()}, {1, "/nc", s()}}},
		{Name: "compat", Compat: true, Backends: []c02B{{0, "", s()}}},
		// secrets that differ in the last character / where one is a prefix of the other
		{Name: "near3", Backends: []c02B{{0, "/a", near + "x"}, {0, "/b", near + "y"}, {1, "", near}}},
		// one host, paths that are string prefixes of each other without being path prefixes: the
		// longer one listed before the shorter one (1, 2) and after it (2, 3).  A request that names
		// one of these backends is that backend's and nobody else's, in both directions.
		{Name: "prefix3", Backends: []c02B{{0, "/nextcloud-test", s()}, {0, "/nextcloud", s()}, {0, "/nextcloud2", s()}}},
	}
}

// ---- fake Nextcloud backend: records every request it receives ------------------

type c02OutRec struct {
	Backend int    // id of the backend (1..n) whose endpoint received the request
	Kind    string // auth, room/join, room/leave, ping, session/add, session/remove
	Rnd     string
	Chk     string
	NRnd    int
	NChk    int
	Body    []byte
	// the configuration in force when the request was received
	Phase string  // which step of the configuration history
	Cur   *string // secret the generator configured for the backend at this endpoint's URL now (nil: none)
	Look  *string // secret of hub.backend.GetBackend(request URL) now (nil: none); oracle for the model
	// what the fake backend did with this request after having read and recorded it ("": answered)
	Fault string
	Spec  *c02FaultSpec // the step of the schedule the fault belongs to
	Path  string        // request path
}

// Faults of the fake backend.  The request has been read completely and recorded (the backend "has
// seen and may have processed it") when the fault strikes:
//
//	drop            the connection is closed without a single response byte
//	partial-status  the connection is closed in the middle of the status line
//	partial-body    status line and headers are sent (Content-Length of the full answer), half of the body, then the connection is closed
//	500-text        500 Internal Server Error, text/plain
//	500-json        500 with an OCS envelope reporting failure and no data
//	slow            no answer until the client has given up (its timeout for backend requests expired); the answer after
//	                timeout + 0.5 s when it has not
//
// In every case the server's request failed; whatever the server does about it (give up, report
// the error, try again) a request that arrives here is a request it sent, and is recorded.
var c02FaultModes = []string{"drop", "partial-body", "500-text", "partial-status", "500-json"}

type c02FaultKey struct {
	id   int
	kind string
}

// one injected fault (for the replay file)
type c02FaultSpec struct {
	Endpoint int    `json:"endpoint"`
	Kind     string `json:"kind"`
	Phase    string `json:"phase"`
	Nth      int    `json:"nth"` // the Nth step of this kind in this phase of the world's history (0 = first)
	Mode     string `json:"mode"`
}

type c02Fake struct {
	mu        sync.Mutex
	recs      []c02OutRec
	caps      int
	pingLimit int
	// endpoint id -> secret of the backend that is configured at that endpoint's URL now,
	// from the harness's own bookkeeping of what it configured (absent: no backend there)
	cur    map[int]string
	phase  string
	lookup func(u *url.URL) *string
	// armed faults: the next request of that kind arriving at that endpoint is treated that way
	armed  map[c02FaultKey][]c02FaultSpec
	busy   int // requests being handled (a slow one stays here until the client gives up)
	faults int
}

// arm makes the next request of kind `kind` that arrives at endpoint id fail in the given way.
func (f *c02Fake) arm(id int, kind string, spec c02FaultSpec) {
	f.mu.Lock()
	defer f.mu.Unlock()
	if f.armed == nil {
		f.armed = map[c02FaultKey][]c02FaultSpec{}
	}
	k := c02FaultKey{id, kind}
	f.armed[k] = append(f.armed[k], spec)
}

// spent: every fault armed for (id, kind) has struck and no request is being handled any more.
func (f *c02Fake) spent(id int, kind string) bool {
	f.mu.Lock()
	defer f.mu.Unlock()
	return len(f.armed[c02FaultKey{id, kind}]) == 0 && f.busy == 0
}

// strike applies a fault to a request that was read and recorded.  data is the answer a healthy
// backend would have given.
func (f *c02Fake) strike(mode string, w http.ResponseWriter, r *http.Request, data []byte) {
	hijack := func(send string) {
		hj, ok := w.(http.Hijacker)
		if !ok {
			panic("c02: cannot hijack the connection of the fake backend")
		}
		conn, _, err := hj.Hijack()
		if err != nil {
			return
		}
		if send != "" {
			conn.Write([]byte(send)) // nolint
		}
		conn.Close() // nolint
	}
	switch mode {
	case "drop":
		hijack("")
	case "partial-status":
		hijack("HTTP/1.1 2")
	case "partial-body":
		hijack(fmt.Sprintf("HTTP/1.1 200 OK\r\nContent-Type: application/json\r\nContent-Length: %d\r\n\r\n%s", len(data), data[:len(data)/2]))
	case "500-text":
		http.Error(w, "Internal Server Error", http.StatusInternalServerError)
	case "500-json":
		w.Header().Set("Content-Type", "application/json")
		w.WriteHeader(http.StatusInternalServerError)
		w.Write([]byte(`{"ocs":{"meta":{"status":"failure","statuscode":500,"message":"Internal Server Error"},"data":[]}}`)) // nolint
	case "slow":
		// the connection is closed by the client when its timeout expires: the request context ends.
		// (The notification that a user left a room is sent without timeout - context.Background() in
		// ClientSession.doUnsubscribeRoomEvents: there the answer comes, half a second after any timeout.)
		select {
		case <-r.Context().Done():
		case <-time.After(c02BackendTimeout*time.Second + 500*time.Millisecond):
			w.Header().Set("Content-Type", "application/json")
			w.WriteHeader(http.StatusOK)
			w.Write(data) // nolint
		}
	default:
		panic("c02: unknown fault " + mode)
	}
}

// setCur replaces the table of secrets in force (after the configuration of the server was changed).
func (f *c02Fake) setCur(phase string, cur map[int]string) {
	f.mu.Lock()
	defer f.mu.Unlock()
	f.phase = phase
	f.cur = cur
}

func (f *c02Fake) count() int { f.mu.Lock(); defer f.mu.Unlock(); return len(f.recs) }

func (f *c02Fake) handler(t *testing.T, id int) http.HandlerFunc {
	return func(w http.ResponseWriter, r *http.Request) {
		body, _ := io.ReadAll(r.Body)
		var req BackendClientRequest
		_ = json.Unmarshal(body, &req)
		kind := req.Type
		switch {
		case req.Room != nil:
			a := req.Room.Action
			if a == "" {
				a = "join"
			}
			kind += "/" + a
		case req.Session != nil:
			kind += "/" + req.Session.Action
		}
		// the backend the running server resolves the URL of this request to, now
		var look *string
		if f.lookup != nil {
			if u, err := url.Parse("http://" + r.Host + r.URL.Path); err == nil {
				look = f.lookup(u)
			}
		}
		f.mu.Lock()
		var cur *string
		if s, ok := f.cur[id]; ok {
			cur = &s
		}
		fault := ""
		var spec *c02FaultSpec
		if l := f.armed[c02FaultKey{id, kind}]; len(l) > 0 {
			sp := l[0]
			fault, spec = sp.Mode, &sp
			f.armed[c02FaultKey{id, kind}] = l[1:]
			f.faults++
		}
		f.busy++
		f.recs = append(f.recs, c02OutRec{Backend: id, Kind: kind,
			Rnd: r.Header.Get(c02HdrRandom), Chk: r.Header.Get(c02HdrChecksum),
			NRnd: len(r.Header.Values(c02HdrRandom)), NChk: len(r.Header.Values(c02HdrChecksum)),
			Body: body, Phase: f.phase, Cur: cur, Look: look, Fault: fault, Spec: spec, Path: r.URL.Path})
		f.mu.Unlock()
		defer func() { f.mu.Lock(); f.busy--; f.mu.Unlock() }()
		var resp *BackendClientResponse
		switch req.Type {
		case "auth":
			resp = processAuthRequest(t, w, r, &req)
		case "room":
			resp = &BackendClientResponse{Type: "room", Room: &BackendClientRoomResponse{Version: BackendVersion, RoomId: req.Room.RoomId, Properties: testRoomProperties}}
		case "session":
			resp = &BackendClientResponse{Type: "session", Session: &BackendClientSessionResponse{Version: BackendVersion, RoomId: req.Session.RoomId}}
		case "ping":
			resp = &BackendClientResponse{Type: "ping", Ping: &BackendClientRingResponse{Version: BackendVersion, RoomId: req.Ping.RoomId}}
		default:
			http.Error(w, "unsupported", http.StatusBadRequest)
			return
		}
		data, _ := json.Marshal(resp)
		if r.Header.Get("OCS-APIRequest") != "" {
			data, _ = json.Marshal(OcsResponse{Ocs: &OcsBody{Meta: OcsMeta{Status: "ok", StatusCode: http.StatusOK, Message: "OK"}, Data: data}})
		}
		if fault != "" {
			f.strike(fault, w, r, data)
			return
		}
		w.Header().Set("Content-Type", "application/json")
		w.WriteHeader(http.StatusOK)
		w.Write(data) // nolint
	}
}

func (f *c02Fake) capabilities(w http.ResponseWriter, r *http.Request) {
	f.mu.Lock()
	f.caps++
	f.mu.Unlock()
	signaling := map[string]interface{}{"foo": "bar"}
	if f.pingLimit > 0 {
		signaling["session-ping-limit"] = f.pingLimit
	}
	spreed, _ := json.Marshal(map[string]interface{}{"features": []string{"foo"}, "config": map[string]interface{}{"signaling": signaling}})
	data, _ := json.Marshal(&CapabilitiesResponse{Version: CapabilitiesVersion{Major: 20}, Capabilities: map[string]json.RawMessage{"spreed": spreed}})
	data, _ = json.Marshal(OcsResponse{Ocs: &OcsBody{Meta: OcsMeta{Status: "ok", StatusCode: http.StatusOK, Message: "OK"}, Data: data}})
	w.Header().Set("Content-Type", "application/json")
	w.WriteHeader(http.StatusOK)
	w.Write(data) // nolint
}

// ---- a running server ("world") for one configuration ------------------------------

type c02World struct {
	t       *testing.T
	cfg     c02Cfg
	hub     *Hub
	router  *mux.Router
	server  *httptest.Server
	extra   []*httptest.Server // extra[0] is never configured
	base    []string           // base[i-1] = URL of backend i
	clients []*TestClient      // clients[i-1] has joined c02Room through backend i
	actual  []int              // actual[i-1] = the backend the server made that session a session of (i on a correct server)
	fake    *c02Fake
	cur     time.Time
	last    time.Duration
	seq     int
	http    *http.Client
	layout  []c02Entry          // what is configured now (outgoing scenario with reloads)
	etcd    *backendStorageEtcd // Etcd configurations
	plan    *c02FaultPlan       // outgoing scenario: which requests the fake backends let fail (nil: none)
	// what the callers of failed requests saw, where a client of the server can see it (hello, room join)
	outcomes []c02Outcome
}

type c02Outcome struct {
	Spec c02FaultSpec
	Ok   bool // the client was answered as if the backend had answered
}

// backend<Name> is configured at the URL of endpoint Endpoint (base[Endpoint-1]) with Secret
type c02Entry struct {
	Name     int
	Endpoint int
	Secret   string
}

// the secret in force per endpoint
func c02CurOf(layout []c02Entry) map[int]string {
	m := map[int]string{}
	for _, e := range layout {
		m[e.Endpoint] = e.Secret
	}
	return m
}

// backendStorageEtcd.Close needs the etcd client the harness does not have
type c02EtcdStorage struct{ *backendStorageEtcd }

func (c02EtcdStorage) Close() {}

// serverConfig writes the configuration file for a layout (everything but the backends is constant).
func (w *c02World) serverConfig(layout []c02Entry) *goconf.ConfigFile {
	config := goconf.NewConfigFile()
	if w.cfg.Compat {
		u, _ := url.Parse(w.server.URL)
		config.AddOption("backend", "allowed", u.Host)
		config.AddOption("backend", "secret", w.cfg.Backends[0].Secret)
	} else if !w.cfg.Etcd {
		var ids []string
		for _, e := range layout {
			name := fmt.Sprintf("backend%d", e.Name)
			ids = append(ids, name)
			config.AddOption(name, "url", w.base[e.Endpoint-1])
			config.AddOption(name, "secret", e.Secret)
		}
		config.AddOption("backend", "backends", strings.Join(ids, ", "))
	}
	config.AddOption("backend", "allowhttp", "true")
	config.AddOption("sessions", "hashkey", "12345678901234567890123456789012")
	config.AddOption("sessions", "blockkey", "09876543210987654321098765432109")
	config.AddOption("clients", "internalsecret", string(testInternalSecret))
	config.AddOption("geoip", "url", "none")
	return config
}

func (w *c02World) etcdPut(e c02Entry) {
	data, _ := json.Marshal(map[string]string{"url": w.base[e.Endpoint-1], "secret": e.Secret})
	w.etcd.EtcdKeyUpdated(nil, fmt.Sprintf("/backends/backend%d", e.Name), data, nil)
}

// reconfigure changes the configuration of the running server to layout: BackendClient.Reload with
// the new configuration file (what SIGHUP does), or the etcd events that lead from the present
// keys to the new ones (puts for new and changed keys, deletes for removed ones).  The server is
// quiet when this is called; from here on the fake backend judges every request it receives
// against the new table.
func (w *c02World) reconfigure(phase string, layout []c02Entry) {
	if w.etcd != nil {
		old := map[int]c02Entry{}
		for _, e := range w.layout {
			old[e.Name] = e
		}
		for _, e := range layout {
			if o, ok := old[e.Name]; !ok || o != e {
				w.etcdPut(e)
			}
			delete(old, e.Name)
		}
		for name := range old {
			w.etcd.EtcdKeyDeleted(nil, fmt.Sprintf("/backends/backend%d", name), nil)
		}
	} else {
		w.hub.backend.Reload(w.serverConfig(layout))
	}
	w.layout = layout
	w.fake.setCur(phase, c02CurOf(layout))
}

var c02Epoch = time.Unix(1700000000, 0)

func (w *c02World) hostURL(h int) string {
	if h == 0 {
		return w.server.URL
	}
	return w.extra[h].URL
}

func (w *c02World) resetThrottler() {
	old := w.hub.throttler
	th := &memoryThrottler{
		getNow:  func() time.Time { return w.cur },
		clients: make(map[string]map[string][]throttleEntry),
		closer:  NewCloser(),
	}
	th.doDelay = func(ctx context.Context, d time.Duration) { w.last = d }
	w.hub.throttler = th
	if old != nil {
		old.Close()
	}
}

func c02NewWorld(t *testing.T, cfg c02Cfg, join bool) *c02World {
	w := &c02World{t: t, cfg: cfg, fake: &c02Fake{pingLimit: cfg.PingLimit}, cur: c02Epoch, http: &http.Client{}}
	w.router = mux.NewRouter()
	w.server = httptest.NewServer(w.router)
	t.Cleanup(w.server.Close)
	routers := []*mux.Router{w.router}
	w.extra = []*httptest.Server{nil}
	maxHost := 0
	for _, b := range cfg.Backends {
		if b.Host > maxHost {
			maxHost = b.Host
		}
	}
	for h := 1; h <= maxHost; h++ {
		r := mux.NewRouter()
		s := httptest.NewServer(r)
		t.Cleanup(s.Close)
		routers = append(routers, r)
		w.extra = append(w.extra, s)
	}
	// a host that exists but is not configured
	unconf := httptest.NewServer(http.NotFoundHandler())
	t.Cleanup(unconf.Close)
	w.extra[0] = unconf

	for i, b := range cfg.Backends {
		id := i + 1
		base := w.hostURL(b.Host) + b.Path
		w.base = append(w.base, base)
		r := routers[b.Host]
		p := b.Path
		if p == "" {
			r.HandleFunc("/", w.fake.handler(t, id))
		} else {
			r.HandleFunc(p, w.fake.handler(t, id))
			r.HandleFunc(p+"/", w.fake.handler(t, id))
		}
		r.HandleFunc(p+"/ocs/v2.php/cloud/capabilities", w.fake.capabilities)
		r.HandleFunc(p+"/ocs/v2.php/apps/spreed/api/v1/signaling/backend", w.fake.handler(t, id))
		w.layout = append(w.layout, c02Entry{Name: id, Endpoint: id, Secret: w.secret(id)})
	}
	config := w.serverConfig(w.layout)
	if !join {
		// outgoing scenario: the server gives up on a backend that does not answer after this many seconds
		config.AddOption("backend", "timeout", fmt.Sprint(c02BackendTimeout))
	}
	w.fake.setCur("initial", c02CurOf(w.layout))
	events := getAsyncEventsForTest(t)
	hub, err := NewHub(config, events, nil, nil, nil, w.router, "no-version")
	if err != nil {
		t.Fatal(err)
	}
	if cfg.Etcd {
		// an etcd backend storage without etcd server: the events are called directly (as for C13);
		// installed before the hub runs and before any lookup
		w.etcd = &backendStorageEtcd{
			backendStorageCommon: backendStorageCommon{backends: make(map[string][]*Backend)},
			keyPrefix:            "/backends",
			keyInfos:             make(map[string]*BackendInformationEtcd),
		}
		hub.backend.backends = &BackendConfiguration{storage: c02EtcdStorage{w.etcd}}
		for _, e := range w.layout {
			w.etcdPut(e)
		}
	}
	w.fake.lookup = func(u *url.URL) *string {
		if b := hub.backend.GetBackend(u); b != nil {
			s := string(b.Secret())
			return &s
		}
		return nil
	}
	bs, err := NewBackendServer(config, hub, "no-version")
	if err != nil {
		t.Fatal(err)
	}
	if err := bs.Start(w.router); err != nil {
		t.Fatal(err)
	}
	w.hub = hub
	w.resetThrottler()
	go hub.Run()
	t.Cleanup(func() {
		ctx, cancel := context.WithTimeout(context.Background(), testTimeout)
		defer cancel()
		WaitForHub(ctx, t, hub)
	})
	if join {
		for i := range cfg.Backends {
			c := w.newClient(i+1, fmt.Sprintf("user%d", i+1))
			w.clients = append(w.clients, c)
			t.Cleanup(c.CloseWithBye)
		}
		// join events arrive on other subjects than room messages: wait until the clients are quiet
		for quiet := 0; quiet < 3; {
			time.Sleep(15 * time.Millisecond)
			n := 0
			for i := range w.clients {
				n += w.collect(i + 1)
			}
			if n == 0 {
				quiet++
			} else {
				quiet = 0
			}
		}
	}
	return w
}

// newClient connects a websocket client, authenticates it (hello v1) against backend id and joins the room.
func (w *c02World) newClient(id int, user string) *TestClient {
	ctx, cancel := context.WithTimeout(context.Background(), testTimeout)
	defer cancel()
	c := NewTestClient(w.t, w.server, w.hub)
	if err := c.SendHelloParams(w.base[id-1], HelloVersionV1, "", nil, TestBackendClientAuthParams{UserId: user}); err != nil {
		w.t.Fatal(err)
	}
	hello, err := c.RunUntilHello(ctx)
	if err != nil {
		w.t.Fatalf("hello for backend %d: %v", id, err)
	}
	if _, err := c.JoinRoom(ctx, c02Room); err != nil {
		w.t.Fatalf("join for backend %d: %v", id, err)
	}
	// The harness must keep observing when the server's URL lookup is wrong: the markers that
	// delimit what a request caused are signed for the backend the server really attached this
	// session to (read from the session, not assumed).
	act := id
	if sess := w.hub.GetSessionByPublicId(hello.Hello.SessionId); sess != nil && sess.Backend() != nil {
		if b := sess.Backend(); b.IsCompat() {
			act = 1
		} else {
			fmt.Sscanf(b.Id(), "backend%d", &act)
		}
	}
	for len(w.actual) < id {
		w.actual = append(w.actual, len(w.actual)+1)
	}
	w.actual[id-1] = act
	return c
}

func (w *c02World) secret(id int) string {
	if w.cfg.Compat {
		return w.cfg.Backends[0].Secret
	}
	return w.cfg.Backends[id-1].Secret
}

// collect sends a correctly signed marker message to the room of backend id (from an
// address that never fails) and returns the number of events the client of that
// backend received before the marker: room subjects deliver in order, so this is
// everything earlier requests caused.
func (w *c02World) collect(id int) int {
	n, _ := w.collectEvents(id)
	return n
}

func (w *c02World) collectEvents(id int) (int, []string) {
	w.seq++
	marker := fmt.Sprintf("c02-marker-%d", w.seq)
	body := []byte(fmt.Sprintf(`{"type":"message","message":{"data":{"marker":"%s"}}}`, marker))
	rnd := fmt.Sprintf("%064x", w.seq)
	req := httptest.NewRequest("POST", "/api/v1/room/"+c02Room, bytes.NewReader(body))
	req.RemoteAddr = "192.0.2.250:4711"
	req.Header.Set("Content-Type", "application/json")
	req.Header.Set(c02HdrRandom, rnd)
	act := id
	if id-1 < len(w.actual) {
		act = w.actual[id-1]
	}
	req.Header.Set(c02HdrChecksum, c02Mac(w.secret(act), rnd, body))
	req.Header.Set(c02HdrBackend, w.base[id-1])
	rec := httptest.NewRecorder()
	w.router.ServeHTTP(rec, req)
	if rec.Code != http.StatusOK {
		w.t.Fatalf("marker request for backend %d (session attached to backend %d) refused: %d %s", id, act, rec.Code, rec.Body.String())
	}
	ctx, cancel := context.WithTimeout(context.Background(), testTimeout)
	defer cancel()
	n := 0
	var texts []string
	for {
		msg, err := w.clients[id-1].RunUntilMessage(ctx)
		if err != nil {
			w.t.Fatalf("waiting for marker of backend %d: %v", id, err)
		}
		if msg.Type == "event" && msg.Event != nil && msg.Event.Message != nil && strings.Contains(string(msg.Event.Message.Data), marker) {
			return n, texts
		}
		if msg.Type == "event" && msg.Event != nil && msg.Event.Message != nil && strings.Contains(string(msg.Event.Message.Data), "c02-marker-") {
			continue // the marker of another client that the server put into the same room
		}
		n++
		js, _ := json.Marshal(msg)
		texts = append(texts, string(js))
	}
}

// ---- operations ---------------------------------------------------------------------

type c02Op struct {
	Class      string   `json:"class"`
	Via        int      `json:"via"` // 0 = real HTTP connection, 1 = router called directly
	T          int64    `json:"t"`   // ns on the injected clock
	Addr       string   `json:"addr"`
	Method     string   `json:"method"`
	Clen       int      `json:"clen"` // -2 = actual length, -1 = unknown (chunked), else declared (direct only)
	Ctype      string   `json:"ctype"`
	Rnd        string   `json:"rnd"` // hex of the header value; "" with RndAbsent = header missing, else empty header
	Chk        string   `json:"chk"`
	RndAbsent  bool     `json:"rnd_absent,omitempty"`
	ChkAbsent  bool     `json:"chk_absent,omitempty"`
	Bhdr       string   `json:"bhdr"` // template: {B1}.. base URL of backend i, {U} unconfigured host, {H} host of the server
	BhdrFlips  [][2]int `json:"bhdr_flips,omitempty"`
	BhdrAbsent bool     `json:"bhdr_absent,omitempty"`
	Body       string   `json:"body"`            // hex
	Claim      *int     `json:"claim,omitempty"` // backend the header is meant to name, -1 = none, absent = unknown

	Status    int      `json:"status"`
	Delivered []int    `json:"delivered"`
	Delay     int64    `json:"delay"`
	Events    []string `json:"events,omitempty"` // what the clients received (diagnostics only)
}

type c02Case struct {
	Id      int     `json:"id"`
	Cfg     c02Cfg  `json:"cfg"`
	Finding string  `json:"finding,omitempty"`
	Ops     []c02Op `json:"ops,omitempty"`
	// a request the server sent to a backend (outgoing direction); replayed by running the
	// outgoing scenario of this configuration again
	Outgoing *c02OutJson `json:"outgoing,omitempty"`
	// outgoing: the faults of the fake backends under which the request was sent.  A replay with this
	// member runs the history of the configuration with exactly these faults (none when empty);
	// without it, with the whole fault schedule.
	Faults *[]c02FaultSpec `json:"faults,omitempty"`
}

type c02OutRef struct {
	Id      int    `json:"id"`
	Backend int    `json:"backend"`
	Kind    string `json:"kind"`
	Phase   string `json:"phase,omitempty"`
	Fault   string `json:"fault,omitempty"`
}

type c02OutJson struct {
	Backend int    `json:"backend"`
	Kind    string `json:"kind"`
	Rnd     string `json:"rnd"`
	Chk     string `json:"chk"`
	Body    string `json:"body"`
	// the step of the configuration history after which the request was sent ("initial": none yet),
	// hex of the secret the generator configured for the receiving endpoint's URL at that time (absent:
	// no backend there), hex of the secret of the server's own GetBackend(url) at that time
	Phase  string  `json:"phase,omitempty"`
	Secret *string `json:"secret_in_force,omitempty"`
	Lookup *string `json:"secret_of_lookup,omitempty"`
	// what the fake backend did to this request after recording it ("": it answered)
	Fault string `json:"fault,omitempty"`
	Path  string `json:"path,omitempty"`
	// an earlier request of the same world that carried the same random
	SameRandomAs *c02OutRef `json:"same_random_as,omitempty"`
}

func unhexS(s string) string { b, _ := hex.DecodeString(s); return string(b) }
func hexS(s string) string   { return hex.EncodeToString([]byte(s)) }

func (w *c02World) expand(o *c02Op) string {
	s := o.Bhdr
	for i := range w.base {
		s = strings.ReplaceAll(s, fmt.Sprintf("{B%d}", i+1), w.base[i])
	}
	s = strings.ReplaceAll(s, "{U}", w.extra[0].URL)
	s = strings.ReplaceAll(s, "{H}", w.server.URL)
	b := []byte(s)
	for _, f := range o.BhdrFlips {
		if len(b) > 0 {
			b[((f[0]%len(b))+len(b))%len(b)] ^= byte(f[1])
		}
	}
	return string(b)
}

func c02AddrCoq(a string) string {
	ip := net.ParseIP(a)
	if ip4 := ip.To4(); ip4 != nil {
		return fmt.Sprintf("(A4 %d)", uint32(ip4[0])<<24|uint32(ip4[1])<<16|uint32(ip4[2])<<8|uint32(ip4[3]))
	}
	var hi, lo uint64
	for i := 0; i < 8; i++ {
		hi = hi<<8 | uint64(ip[i])
		lo = lo<<8 | uint64(ip[8+i])
	}
	return fmt.Sprintf("(A6 %d %d)", hi, lo)
}

func c02Kind(body []byte) string {
	var req BackendServerRoomRequest
	if err := json.Unmarshal(body, &req); err != nil {
		return "KBadJson"
	}
	if err := req.CheckValid(); err != nil {
		// refused by the validation of the room API (400, nothing published), see C11
		return "KBadJson"
	}
	switch req.Type {
	case "message":
		if req.Message != nil && len(req.Message.Data) > 0 {
			return "KMessage"
		}
		return "KMessageNoData"
	case "invite", "disinvite", "update", "delete", "incall", "participants", "switchto", "dialout":
		return "" // other request types are the business of C11/C03; never sent by this harness
	}
	return "KUnsupported"
}

func c02HeaderSendable(v string) bool {
	for i := 0; i < len(v); i++ {
		c := v[i]
		if (c < 0x20 && c != '\t') || c == 0x7f {
			return false
		}
	}
	return v == strings.Trim(v, " \t")
}

// exec runs one request against the real server and returns the Coq term of the
// executed op (with the library oracles for exactly its strings), or "" when the
// op must not be sent.
func (w *c02World) exec(o *c02Op) string {
	rnd, chk, body := unhexS(o.Rnd), unhexS(o.Chk), []byte(unhexS(o.Body))
	bhdr := ""
	if !o.BhdrAbsent {
		bhdr = w.expand(o)
	}
	if o.RndAbsent {
		rnd, o.Rnd = "", ""
	}
	if o.ChkAbsent {
		chk, o.Chk = "", ""
	}
	kind := c02Kind(body)
	if kind == "" {
		return ""
	}
	via := o.Via
	if via == 0 && !(c02HeaderSendable(rnd) && c02HeaderSendable(chk) && c02HeaderSendable(bhdr) && c02HeaderSendable(o.Ctype)) {
		via = 1 // net/http refuses to send such a value; hand it to the router directly
	}
	if via == 0 && (o.Clen >= 0 || net.ParseIP(o.Addr) == nil) {
		via = 1
	}
	o.Via = via
	w.cur = c02Epoch.Add(time.Duration(o.T))
	w.last = 0
	setHeaders := func(h http.Header) {
		if o.Ctype != "" {
			h.Set("Content-Type", o.Ctype)
		}
		if !o.RndAbsent {
			h[c02HdrRandom] = []string{rnd}
		}
		if !o.ChkAbsent {
			h[c02HdrChecksum] = []string{chk}
		}
		if !o.BhdrAbsent {
			h[c02HdrBackend] = []string{bhdr}
		}
	}
	clen := int64(len(body))
	status := 0
	if via == 0 {
		var rd io.Reader = bytes.NewReader(body)
		if o.Clen == -1 {
			rd = io.NopCloser(bytes.NewReader(body)) // unknown length: chunked
			clen = -1
		}
		req, err := http.NewRequest(o.Method, w.server.URL+"/api/v1/room/"+c02Room, rd)
		if err != nil {
			w.t.Fatal(err)
		}
		setHeaders(req.Header)
		req.Header.Set("X-Real-IP", o.Addr) // the test connection comes from 127.0.0.1, a trusted proxy by default
		resp, err := w.http.Do(req)
		if err != nil {
			w.t.Fatalf("http: %v", err)
		}
		io.Copy(io.Discard, resp.Body)
		resp.Body.Close()
		status = resp.StatusCode
	} else {
		req := httptest.NewRequest(o.Method, "/api/v1/room/"+c02Room, bytes.NewReader(body))
		if o.Clen != -2 {
			clen = int64(o.Clen)
			req.ContentLength = clen
		}
		if strings.Contains(o.Addr, ":") {
			req.RemoteAddr = "[" + o.Addr + "]:4000"
		} else {
			req.RemoteAddr = o.Addr + ":4000"
		}
		setHeaders(req.Header)
		rec := httptest.NewRecorder()
		w.router.ServeHTTP(rec, req)
		status = rec.Code
	}
	o.Status = status
	o.Delay = int64(w.last)
	o.Delivered = []int{}
	for i := range w.clients {
		n, texts := w.collectEvents(i + 1)
		o.Events = append(o.Events, texts...)
		if n > 0 {
			o.Delivered = append(o.Delivered, i+1)
			if n > 1 {
				o.Delivered = append(o.Delivered, i+1) // more than one event: makes the observation differ from any prediction
			}
		}
	}
	// oracles, computed by the real libraries for exactly the strings of this request
	var macs []string
	n := len(w.cfg.Backends)
	for i := 1; i <= n; i++ {
		macs = append(macs, fmt.Sprintf("(%d%%N, \"%s\"%%string)", i, c02Mac(w.secret(i), rnd, body)))
	}
	parse, lookup := "false", "None"
	if bhdr != "" {
		if u, err := url.Parse(bhdr); err == nil {
			parse = "true"
			if b := w.hub.backend.GetBackend(u); b != nil {
				id := 0
				if b.IsCompat() {
					id = 1
				} else {
					fmt.Sscanf(b.Id(), "backend%d", &id)
				}
				lookup = fmt.Sprintf("(Some %d%%N)", id)
			}
		}
	}
	claim := "None"
	if o.Claim != nil {
		if *o.Claim < 0 {
			claim = "(Some None)"
		} else {
			claim = fmt.Sprintf("(Some (Some %d%%N))", *o.Claim)
		}
	}
	var dl []string
	for _, d := range o.Delivered {
		dl = append(dl, fmt.Sprintf("%d%%N", d))
	}
	ctype := o.Ctype
	return fmt.Sprintf("mkop %s %s %s %s %s \"%s\" \"%s\" \"%s\" \"%s\" %s %s %s %s %s %d %s %s",
		coqZ(o.T), c02AddrCoq(o.Addr), coqBool(o.Method == "POST"), coqZ(clen), coqStr(ctype),
		hexS(rnd), hexS(chk), hexS(bhdr), hex.EncodeToString(body), kind, coqList(macs), parse, lookup, claim,
		status, coqList(dl), coqZ(o.Delay))
}

func (w *c02World) cfgCoq() string {
	if w.cfg.Compat {
		return fmt.Sprintf("(cfg_compat_of \"%s\")", hexS(w.cfg.Backends[0].Secret))
	}
	var l []string
	for _, b := range w.cfg.Backends {
		l = append(l, "\""+hexS(b.Secret)+"\"%string")
	}
	return "(cfg_list_of " + coqList(l) + ")"
}

// ---- generators -----------------------------------------------------------------------

type c02Gen struct {
	r    *vrng
	w    *c02World
	t    int64
	addr int
	ops  []c02Op
}

var c02Bodies = []string{
	`{"type":"message","message":{"data":{"k":%d}}}`,
	`{"type":"message","message":{"data":{"type":"chat","chat":{"refresh":true},"n":%d}}}`,
	`{"type":"message","message":{"data":"%d"}}`,
	`{"type":"message","message":{"data":[%d,null]}}`,
	` {"type": "message", "message": {"data": {"pad": "%d"}}}`,
}

var c02OtherBodies = []string{
	`{"type":"message","message":{}}`, `{"type":"message"}`, `{"type":"nonsense"}`, `{}`, `{"type":`, ``, `[]`, `null`,
	`{"type":"message","message":5}`, `{"type":"MESSAGE","message":{"data":{"k":1}}}`,
}

func (g *c02Gen) n() int { return len(g.w.cfg.Backends) }

func (g *c02Gen) body() string {
	if g.r.chance(85) {
		return fmt.Sprintf(pick(g.r, c02Bodies), g.r.intn(100000))
	}
	return pick(g.r, c02OtherBodies)
}

func (g *c02Gen) random(n int) string {
	const hexd = "0123456789abcdef"
	b := make([]byte, n)
	for i := range b {
		b[i] = hexd[g.r.intn(16)]
	}
	return string(b)
}

func (g *c02Gen) randomLen() int {
	if g.r.chance(70) {
		return 64
	}
	return pick(g.r, []int{1, 2, 8, 16, 31, 32, 33, 48, 100, 128})
}

func (g *c02Gen) newAddr() string {
	g.addr++
	if g.r.chance(15) {
		return fmt.Sprintf("2001:db8:%x:%x::%x", g.r.intn(65536), g.addr, 1+g.r.intn(1000))
	}
	return fmt.Sprintf("198.51.%d.%d", g.r.intn(250), 1+(g.addr%250))
}

var c02Suffixes = []string{"", "", "/", "/ocs/v2.php/apps/spreed/api/v1/signaling/backend", "/index.php/apps/spreed"}

// hdr returns the backend header template that names backend id, and the claim.
func (g *c02Gen) hdr(id int) (string, *int) {
	c := id
	return fmt.Sprintf("{B%d}", id) + pick(g.r, c02Suffixes), &c
}

// unknown returns a backend header that names no configured backend.
func (g *c02Gen) unknown() (string, *int) {
	c := -1
	l := []string{"{U}", "{U}/", "https://unconfigured.example.org/", "http://127.0.0.1:9/x", "ftp://127.0.0.1/"}
	hasRoot0 := false
	for _, b := range g.w.cfg.Backends {
		if b.Host == 0 && b.Path == "" {
			hasRoot0 = true
		}
	}
	if !hasRoot0 && !g.w.cfg.Compat {
		l = append(l, "{H}/four", "{H}/", "{H}")
	}
	return pick(g.r, l), &c
}

type c02Req struct {
	target               int
	rnd, chk, bhdr, body string
	bhdrAbsent           bool
	rndAbsent, chkAbsent bool
	claim                *int
	flips                [][2]int
	method, ctype        string
	clen                 int
}

// valid builds a correctly signed request of backend id; header chooses whether the backend header is sent.
func (g *c02Gen) valid(id int, header bool) c02Req {
	q := c02Req{target: id, method: "POST", ctype: "application/json", clen: -2}
	q.body = g.body()
	q.rnd = g.random(g.randomLen())
	q.chk = c02Mac(g.w.secret(id), q.rnd, []byte(q.body))
	if header {
		q.bhdr, q.claim = g.hdr(id)
	} else {
		q.bhdrAbsent = true
	}
	if g.r.chance(10) {
		q.ctype = pick(g.r, []string{"application/json; charset=utf-8", "application/json;x", "application/jsonp"})
	}
	return q
}

func (g *c02Gen) emit(class string, q c02Req, addr string) {
	via := 1
	if g.r.chance(30) {
		via = 0
	}
	g.t += int64(1+g.r.intn(20)) * int64(time.Second)
	g.ops = append(g.ops, c02Op{Class: class, Via: via, T: g.t, Addr: addr, Method: q.method, Clen: q.clen, Ctype: q.ctype,
		Rnd: hexS(q.rnd), Chk: hexS(q.chk), RndAbsent: q.rndAbsent, ChkAbsent: q.chkAbsent,
		Bhdr: q.bhdr, BhdrFlips: q.flips, BhdrAbsent: q.bhdrAbsent, Body: hexS(q.body), Claim: q.claim})
}

func flipBit(s string, pos, bit int) string {
	b := []byte(s)
	b[pos] ^= 1 << uint(bit)
	return string(b)
}

// mutate returns a changed copy of a valid request and the name of the mutation class.
func (g *c02Gen) mutate(q c02Req) (c02Req, string) {
	r := g.r
	n := g.n()
	other := func() int {
		if n == 1 {
			return q.target
		}
		o := 1 + r.intn(n-1)
		if o >= q.target {
			o++
		}
		return o
	}
	switch k := r.intn(20); k {
	case 0, 1:
		if len(q.body) == 0 {
			return q, "valid"
		}
		q.body = flipBit(q.body, r.intn(len(q.body)), r.intn(8))
		return q, "flip_body"
	case 2, 3:
		q.rnd = flipBit(q.rnd, r.intn(len(q.rnd)), r.intn(8))
		return q, "flip_random"
	case 4, 5:
		q.chk = flipBit(q.chk, r.intn(len(q.chk)), r.intn(8))
		return q, "flip_checksum"
	case 6:
		if r.chance(50) {
			q.chk = strings.ToUpper(q.chk)
			return q, "checksum_upper"
		}
		// one letter in upper case (a single-bit change of a hex letter)
		idx := strings.IndexAny(q.chk, "abcdef")
		if idx >= 0 {
			q.chk = q.chk[:idx] + strings.ToUpper(q.chk[idx:idx+1]) + q.chk[idx+1:]
		}
		return q, "checksum_one_upper"
	case 7:
		switch r.intn(4) {
		case 0:
			q.chk = q.chk[:len(q.chk)-1]
		case 1:
			q.chk = q.chk + pick(r, []string{"0", "a", " ", "\x00"})
		case 2:
			q.chk = q.chk[1:]
		default:
			q.chk = q.chk[:32]
		}
		return q, "checksum_length"
	case 8:
		// checksum made with another backend's secret, header still names the target
		o := other()
		q.chk = c02Mac(g.w.secret(o), q.rnd, []byte(q.body))
		if o == q.target {
			return q, "valid"
		}
		return q, "other_secret"
	case 9:
		// header names another backend, checksum is the target's
		o := other()
		q.bhdr, q.claim = g.hdr(o)
		q.bhdrAbsent = false
		if o == q.target {
			return q, "valid"
		}
		return q, "other_header"
	case 10:
		q.bhdr, q.claim = g.unknown()
		q.bhdrAbsent = false
		return q, "unknown_backend"
	case 11:
		switch r.intn(7) {
		case 6:
			// no random at all, checksum = MAC over the body alone: the equation holds for the
			// empty random, the protocol still demands the header
			q.rnd = ""
			q.rndAbsent = r.chance(50)
			q.chk = c02Mac(g.w.secret(q.target), "", []byte(q.body))
		case 0:
			q.rnd, q.rndAbsent = "", true
		case 1:
			q.chk, q.chkAbsent = "", true
		case 2:
			q.rnd, q.chk, q.rndAbsent, q.chkAbsent = "", "", true, true
		case 3:
			q.rnd = ""
		case 4:
			q.chk = ""
		default:
			q.rnd, q.chk = "", ""
		}
		return q, "missing_header"
	case 12:
		// the body is changed and signed again: a valid request
		if len(q.body) > 0 && r.chance(60) {
			q.body = flipBit(q.body, r.intn(len(q.body)), r.intn(8))
		} else {
			q.body = g.body()
		}
		q.chk = c02Mac(g.w.secret(q.target), q.rnd, []byte(q.body))
		return q, "resigned"
	case 13:
		// drop the backend header (old Talk): still valid, found by trying the secrets
		if q.bhdrAbsent {
			q.bhdr, q.claim = g.hdr(q.target)
			q.bhdrAbsent = false
			return q, "valid"
		}
		q.bhdr, q.claim, q.bhdrAbsent = "", nil, true
		return q, "valid_noheader"
	case 14:
		// empty backend header counts as absent
		q.bhdr, q.claim, q.bhdrAbsent = "", nil, false
		return q, "valid_emptyheader"
	case 15:
		if q.bhdrAbsent {
			return q, "valid"
		}
		q.flips = [][2]int{{r.intn(64), 1 << uint(r.intn(8))}}
		q.claim = nil
		return q, "flip_backend_header"
	case 16:
		q.bhdrAbsent, q.claim = false, nil
		c := -1
		q.claim = &c
		q.bhdr = pick(r, []string{"http://[::1", "%zz", ":", "http://a b/", "\x7f", "://", "http://%41:80/"})
		return q, "unparsable_backend_header"
	case 17:
		// random of another length, signed
		q.rnd = g.random(pick(r, []int{1, 2, 7, 16, 31, 33, 200}))
		q.chk = c02Mac(g.w.secret(q.target), q.rnd, []byte(q.body))
		return q, "valid_random_length"
	case 18:
		// swap random and checksum / checksum of random only / of body only
		switch r.intn(3) {
		case 0:
			q.rnd, q.chk = q.chk, q.rnd
		case 1:
			q.chk = c02Mac(g.w.secret(q.target), q.rnd, nil)
		default:
			q.chk = c02Mac(g.w.secret(q.target), "", []byte(q.body))
		}
		return q, "wrong_mac_input"
	default:
		return q, "valid"
	}
}

func (g *c02Gen) malformed(q c02Req) (c02Req, string) {
	r := g.r
	switch r.intn(6) {
	case 0:
		q.ctype = pick(r, []string{"", "text/plain", "application/xml", "Application/JSON", " application/json", "application/jso"})
		return q, "content_type"
	case 1:
		q.clen = -1
		return q, "no_length"
	case 2:
		q.clen = pick(r, []int{c02MaxBody + 1, c02MaxBody * 4, c02MaxBody, c02MaxBody - 1, 0})
		return q, "declared_length"
	case 3:
		q.method = pick(r, []string{"GET", "PUT", "DELETE", "PATCH"})
		return q, "method"
	case 4:
		q.rnd = pick(r, []string{" ", "\t", "\x00", strings.Repeat("r", 1000), "r\xffnd", " " + q.rnd, q.rnd + " "})
		if r.chance(50) {
			q.chk = c02Mac(g.w.secret(q.target), q.rnd, []byte(q.body))
		}
		return q, "odd_random"
	default:
		q.chk = pick(r, []string{"x", strings.Repeat("z", 64), strings.Repeat("0", 64), "\xff", q.chk + q.chk})
		return q, "odd_checksum"
	}
}

func c02GenCase(r *vrng, w *c02World, id int) *c02Case {
	g := &c02Gen{r: r, w: w, t: int64(r.intn(3600)) * int64(time.Second)}
	n := g.n()
	kind := r.intn(100)
	switch {
	case kind < 45: // mutation walk
		addr := g.newAddr()
		fails := 0
		k := 3 + r.intn(7)
		base := g.valid(1+r.intn(n), r.chance(75))
		for i := 0; i < k; i++ {
			if r.chance(20) {
				base = g.valid(1+r.intn(n), r.chance(75))
			}
			q, class := g.mutate(base)
			if fails >= 7 { // stay below the throttle threshold (ten) for this address
				addr, fails = g.newAddr(), 0
			}
			g.emit(class, q, addr)
			if !strings.HasPrefix(class, "valid") && class != "resigned" {
				fails++
			}
		}
		g.emit("valid", base, addr)
	case kind < 58: // every pairing of header and secret
		addr := g.newAddr()
		body, rnd := g.body(), g.random(64)
		cnt := 0
		for s := 1; s <= n; s++ {
			for h := 0; h <= n+1; h++ {
				if n > 2 && r.chance(40) {
					continue
				}
				q := c02Req{target: s, method: "POST", ctype: "application/json", clen: -2, body: body, rnd: rnd}
				q.chk = c02Mac(w.secret(s), rnd, []byte(body))
				switch {
				case h == 0:
					q.bhdrAbsent = true
				case h <= n:
					q.bhdr, q.claim = g.hdr(h)
				default:
					q.bhdr, q.claim = g.unknown()
				}
				if cnt >= 7 {
					addr, cnt = g.newAddr(), 0
				}
				cnt++
				g.emit("pair_"+[]string{"noheader", "same", "other", "unknown"}[sgn(h, s, n)], q, addr)
			}
		}
	case kind < 68: // headers absent / empty
		addr := g.newAddr()
		base := g.valid(1+r.intn(n), r.chance(60))
		for i := 0; i < 5; i++ {
			q := base
			switch i {
			case 0:
				q.rnd, q.rndAbsent = "", true
			case 1:
				q.chk, q.chkAbsent = "", true
			case 2:
				q.rnd = ""
			case 3:
				q.chk = ""
			default:
				q.rnd, q.chk, q.rndAbsent, q.chkAbsent = "", "", true, true
			}
			g.emit("missing_header", q, addr)
		}
		g.emit("valid", base, addr)
	case kind < 78: // one address fails repeatedly: the throttle of C17 takes over
		addr, other := g.newAddr(), g.newAddr()
		base := g.valid(1+r.intn(n), r.chance(75))
		k := 8 + r.intn(6)
		for i := 0; i < k; i++ {
			q, class := g.mutate(base)
			for strings.HasPrefix(class, "valid") || class == "resigned" || class == "missing_header" {
				q, class = g.mutate(base)
			}
			g.emit(class, q, addr)
		}
		g.emit("valid_after_failures", base, addr)
		g.emit("valid_other_address", base, other)
		g.t += 31 * int64(time.Minute)
		g.emit("valid_after_window", base, addr)
	case kind < 88: // malformed stream
		addr := g.newAddr()
		for i := 0; i < 4; i++ {
			base := g.valid(1+r.intn(n), r.chance(75))
			if r.chance(35) {
				base, _ = g.mutate(base)
			}
			q, class := g.malformed(base)
			g.emit(class, q, addr)
		}
	default: // valid requests of every backend, with and without header, odd random lengths
		addr := g.newAddr()
		for i := 1; i <= n; i++ {
			q := g.valid(i, r.chance(50))
			if r.chance(50) {
				q.rnd = g.random(pick(r, []int{1, 5, 31, 32, 64, 65}))
				q.chk = c02Mac(w.secret(i), q.rnd, []byte(q.body))
			}
			g.emit("valid", q, addr)
		}
	}
	return &c02Case{Id: id, Cfg: w.cfg, Ops: g.ops}
}

// Directed cases, run first for every configuration with several backends: the complete matrix
// of (backend named by the header) x (backend whose secret signed the request), split so that a
// failure shrinks to the request that shows it:
//
//	0  header names h, signed with the secret of another backend s: every one must be refused
//	1  header names h, signed with h's secret: accepted, event to h's clients only
//	2  no header, signed with s's secret: accepted as s
//
// The header is sent in the forms a Nextcloud instance uses (base URL, with "/", with the OCS path).
func c02Directed(w *c02World, id int, part int) *c02Case {
	g := &c02Gen{r: newVrng(7, uint64(1000+part)), w: w}
	n := g.n()
	addr, cnt := g.newAddr(), 0
	emit := func(class string, h, s int, suffix string) {
		q := c02Req{target: s, method: "POST", ctype: "application/json", clen: -2}
		q.body = fmt.Sprintf(`{"type":"message","message":{"data":{"h":%d,"s":%d}}}`, h, s)
		q.rnd = g.random(64)
		q.chk = c02Mac(w.secret(s), q.rnd, []byte(q.body))
		if h == 0 {
			q.bhdrAbsent = true
		} else {
			c := h
			q.bhdr, q.claim = fmt.Sprintf("{B%d}", h)+suffix, &c
		}
		if cnt >= 7 {
			addr, cnt = g.newAddr(), 0
		}
		cnt++
		g.emit(class, q, addr)
	}
	switch part {
	case 0:
		for h := n; h >= 1; h-- {
			for s := 1; s <= n; s++ {
				if s != h {
					emit("named_foreign_secret", h, s, c02Suffixes[(h+s)%len(c02Suffixes)])
				}
			}
		}
	case 1:
		for h := 1; h <= n; h++ {
			for _, suffix := range []string{"", "/", "/ocs/v2.php/apps/spreed/api/v1/signaling/backend"} {
				emit("named_own_secret", h, h, suffix)
			}
		}
	default:
		for s := 1; s <= n; s++ {
			emit("noheader_own_secret", 0, s, "")
		}
	}
	return &c02Case{Id: id, Cfg: w.cfg, Ops: g.ops}
}

// sgn classifies a (header, secret) pairing for the histogram: 0 no header, 1 same backend, 2 other backend, 3 unknown
func sgn(h, s, n int) int {
	switch {
	case h == 0:
		return 0
	case h == s:
		return 1
	case h <= n:
		return 2
	}
	return 3
}

// exhaustive single-bit flips of body, random and checksum of one valid request
func c02GenFlips(r *vrng, w *c02World, id int, field string, stride, offset int) *c02Case {
	g := &c02Gen{r: r, w: w}
	base := g.valid(1+r.intn(g.n()), r.chance(75))
	for base.body == "" {
		base = g.valid(1+r.intn(g.n()), true)
	}
	addr, cnt := g.newAddr(), 0
	var src string
	switch field {
	case "body":
		src = base.body
	case "random":
		src = base.rnd
	default:
		src = base.chk
	}
	for p := offset; p < len(src)*8; p += stride {
		q := base
		m := flipBit(src, p/8, p%8)
		switch field {
		case "body":
			q.body = m
		case "random":
			q.rnd = m
		default:
			q.chk = m
		}
		if cnt >= 7 {
			addr, cnt = g.newAddr(), 0
		}
		cnt++
		g.emit("flip_"+field+"_sweep", q, addr)
	}
	g.emit("valid", base, addr)
	return &c02Case{Id: id, Cfg: w.cfg, Ops: g.ops}
}

// The known finding: the MAC input is the unframed concatenation random||body, so a
// request whose random took over the first bytes of the body carries the same checksum.
func c02BoundaryShift(w *c02World, id int) *c02Case {
	g := &c02Gen{r: newVrng(1, 4242), w: w}
	base := g.valid(1, true)
	base.body = `{"type":"message","message":{"data":{"k":7}}}`
	base.rnd = g.random(64)
	base.chk = c02Mac(w.secret(1), base.rnd, []byte(base.body))
	shifted := base
	shifted.rnd = base.rnd + base.body[:1]
	shifted.body = base.body[1:]
	addr := "198.51.100.77"
	g.emit("valid", base, addr)
	g.emit("boundary_shift", shifted, addr)
	return &c02Case{Id: id, Cfg: w.cfg, Finding: "C02/boundary-shift", Ops: g.ops}
}

// ---- the scenario ---------------------------------------------------------------------------

func TestVerifC02(t *testing.T) {
	env := getVerifEnv(t, "C02")
	if os.Getenv("C02_DEBUG") == "" {
		log.SetOutput(io.Discard)
		t.Cleanup(func() { log.SetOutput(os.Stderr) }) // registered first: runs after the servers are shut down
	}
	sink := newCaseSink(t, env, "C02", "corr.Run_C02", 40)
	worlds := map[string]*c02World{}
	world := func(cfg c02Cfg) *c02World {
		k := cfg.key()
		if w, ok := worlds[k]; ok {
			return w
		}
		w := c02NewWorld(t, cfg, true)
		worlds[k] = w
		return w
	}
	run := func(c *c02Case) {
		w := world(c.Cfg)
		w.resetThrottler()
		var terms []string
		var sig []string
		acc, rej := 0, 0
		executed := c.Ops[:0:0]
		for i := range c.Ops {
			o := c.Ops[i]
			term := w.exec(&o)
			if term == "" {
				sink.count("skipped_other_request_type")
				continue
			}
			executed = append(executed, o)
			terms = append(terms, term)
			sink.count("class_" + o.Class)
			sink.count(fmt.Sprintf("status_%d", o.Status))
			sink.count(fmt.Sprintf("via_%d", o.Via))
			if len(o.Delivered) > 0 {
				sink.count("ops_with_event")
			}
			if o.Status == 200 {
				acc++
			} else if o.Status == 403 {
				rej++
			}
			sig = append(sig, fmt.Sprintf("%s:%d:%v", o.Class, o.Status, o.Delivered))
		}
		c.Ops = executed
		sink.count("cfg_" + c.Cfg.Name)
		sink.add(fmt.Sprintf("mkcase %d %s %s", c.Id, w.cfgCoq(), coqList(terms)), c, acc > 0 && rej > 0, c.Cfg.Name+"|"+strings.Join(sig, ","))
	}

	if env.replay != "" {
		var cs []c02Case
		readReplay(t, env.replay, &cs)
		var outCfgs []c02Cfg
		seen := map[string]bool{}
		scripts := map[string][]c02FaultSpec{}
		for i := range cs {
			if cs[i].Outgoing != nil {
				k := cs[i].Cfg.key()
				if !seen[k] {
					seen[k] = true
					outCfgs = append(outCfgs, cs[i].Cfg)
				}
				if cs[i].Faults != nil {
					scripts[k] = append(scripts[k], *cs[i].Faults...)
				}
				continue
			}
			run(&cs[i])
		}
		if len(outCfgs) > 0 {
			c02Outgoing(t, env, sink, outCfgs, scripts)
		}
		sink.close("replay")
		return
	}

	catalog := c02Catalog(newVrng(env.seed, 999999))
	perCfg := 45
	if env.thorough() {
		perCfg = 700
	}
	id := 0
	// directed matrices first (their verdicts come first in the report): ids 800000 + 10*configuration + part
	for ci, cfg := range catalog {
		if len(cfg.Backends) < 2 {
			continue
		}
		for part := 0; part < 3; part++ {
			run(c02Directed(world(cfg), 800000+10*ci+part, part))
		}
	}
	for ci, cfg := range catalog {
		w := world(cfg)
		nCases := perCfg
		if cfg.Name == "prefix3" {
			// the same code paths as shared3 unless the URL lookup is wrong; the directed matrices
			// above carry the class, the random walk gets half the volume (run time)
			nCases = perCfg / 2
		}
		for i := 0; i < nCases; i++ {
			run(c02GenCase(newVrng(env.seed, uint64(ci*100000+i)), w, id))
			id++
		}
		if cfg.Name == "prefix3" && !env.thorough() {
			continue // bit-flip sweeps: thorough tier only for this configuration
		}
		// sweeps of single-bit flips: every bit position in the thorough tier, a stride in the quick tier
		stride, reps := 29, 1
		if env.thorough() {
			stride, reps = 1, 2
		}
		for rep := 0; rep < reps; rep++ {
			for fi, field := range []string{"body", "random", "checksum"} {
				if stride == 1 {
					// all positions, split over several cases
					for off := 0; off < 16; off++ {
						run(c02GenFlips(newVrng(env.seed, uint64(ci*100000+90000+rep*10+fi)), w, id, field, 16, off))
						id++
					}
				} else {
					run(c02GenFlips(newVrng(env.seed, uint64(ci*100000+90000+fi)), w, id, field, stride, int(env.seed)%stride))
					id++
				}
			}
		}
	}
	// directed witness of the known finding (first configuration)
	run(c02BoundaryShift(world(catalog[0]), 900000))

	c02Oversize(t, world(catalog[1]), sink)
	c02Concurrent(t, env, world(catalog[1]), sink)
	c02SharedSecretNote(t, env, sink)
	var outCfgs []c02Cfg
	for ci, cfg := range catalog {
		if cfg.Name == "single" || cfg.Name == "near3" {
			continue
		}
		cfg.Name = "out_" + cfg.Name
		if ci%2 == 1 {
			cfg.PingLimit = 2 // this backend lets pings be combined
		}
		outCfgs = append(outCfgs, cfg)
	}
	// configuration histories: the backend table changes between the requests (static reload / etcd events)
	for _, cfg := range catalog {
		static := cfg.Name == "shared3" || cfg.Name == "hosts2"
		etcd := cfg.Name == "mixed3"
		if env.thorough() {
			static = !cfg.Compat && len(cfg.Backends) >= 2
			etcd = static
		}
		if static {
			c := cfg
			c.Name, c.Reload = "out_reload_"+cfg.Name, true
			outCfgs = append(outCfgs, c)
		}
		if etcd {
			c := cfg
			c.Name, c.Reload, c.Etcd = "out_etcd_"+cfg.Name, true, true
			outCfgs = append(outCfgs, c)
		}
	}
	c02Outgoing(t, env, sink, outCfgs, nil)

	sink.close("seeded requests to /api/v1/room/{id} of the real BackendServer+Hub (real HTTP connection or router call) over six configurations; " +
		"non-trivial = the case contains an accepted (200) and a refused (403) request; distinct = distinct (configuration, class, status, delivery) sequences")
}

// A body that really is larger than the limit, over a real connection (too large for a cases file:
// judged here).
func c02Oversize(t *testing.T, w *c02World, sink *caseSink) {
	w.resetThrottler()
	body := append([]byte(`{"type":"message","message":{"data":{"pad":"`), bytes.Repeat([]byte("x"), c02MaxBody)...)
	body = append(body, []byte(`"}}}`)...)
	rnd := strings.Repeat("ab", 32)
	req, _ := http.NewRequest("POST", w.server.URL+"/api/v1/room/"+c02Room, bytes.NewReader(body))
	req.Header.Set("Content-Type", "application/json")
	req.Header.Set(c02HdrRandom, rnd)
	req.Header.Set(c02HdrChecksum, c02Mac(w.secret(1), rnd, body))
	req.Header.Set(c02HdrBackend, w.base[0])
	resp, err := w.http.Do(req)
	if err != nil {
		t.Fatal(err)
	}
	resp.Body.Close()
	got := 0
	for i := range w.clients {
		got += w.collect(i + 1)
	}
	sink.count("oversize_real_body")
	if resp.StatusCode != http.StatusRequestEntityTooLarge || got != 0 {
		sink.violation(900100, fmt.Sprintf("a correctly signed body of %d bytes (limit %d) was answered %d and caused %d events", len(body), c02MaxBody, resp.StatusCode, got), nil)
	}
}

// Concurrent requests (real goroutines, real connections): valid and tampered requests of all
// backends interleaved; every answer must be the one the checksum dictates and the clients
// must receive no more events than requests were accepted.  A test, not a proof.
func c02Concurrent(t *testing.T, env verifEnv, w *c02World, sink *caseSink) {
	w.resetThrottler()
	workers, per := 8, 40
	if env.thorough() {
		per = 400
	}
	n := len(w.cfg.Backends)
	type res struct{ want, got, backend int }
	results := make([][]res, workers)
	var wg sync.WaitGroup
	for wk := 0; wk < workers; wk++ {
		wg.Add(1)
		go func(wk int) {
			defer wg.Done()
			r := newVrng(env.seed, uint64(5000000+wk))
			client := &http.Client{}
			fails := 0
			addrN := 0
			for i := 0; i < per; i++ {
				b := 1 + r.intn(n)
				body := []byte(fmt.Sprintf(`{"type":"message","message":{"data":{"w":%d,"i":%d}}}`, wk, i))
				rnd := fmt.Sprintf("%032x%032x", r.next(), r.next())
				chk := c02Mac(w.secret(b), rnd, body)
				hdr := w.base[b-1]
				want := 200
				switch r.intn(6) {
				case 0:
					chk = flipBit(chk, r.intn(len(chk)), r.intn(4))
					want = 403
				case 1:
					body[len(body)-3] ^= 1
					want = 403
				case 2:
					if n > 1 {
						hdr = w.base[b%n] // another backend's URL
						want = 403
					}
				case 3:
					hdr = "" // no header: found by trying the secrets
				}
				if fails >= 7 {
					fails = 0
					addrN++
				}
				if want == 403 {
					fails++
				}
				req, _ := http.NewRequest("POST", w.server.URL+"/api/v1/room/"+c02Room, bytes.NewReader(body))
				req.Header.Set("Content-Type", "application/json")
				req.Header.Set(c02HdrRandom, rnd)
				req.Header.Set(c02HdrChecksum, chk)
				if hdr != "" {
					req.Header.Set(c02HdrBackend, hdr)
				}
				req.Header.Set("X-Real-IP", fmt.Sprintf("203.0.%d.%d", wk, 1+addrN%250))
				resp, err := client.Do(req)
				if err != nil {
					t.Errorf("concurrent: %v", err)
					return
				}
				io.Copy(io.Discard, resp.Body)
				resp.Body.Close()
				results[wk] = append(results[wk], res{want, resp.StatusCode, b})
			}
		}(wk)
	}
	wg.Wait()
	wantEvents := make([]int, n+1)
	bad := 0
	for _, rs := range results {
		for _, x := range rs {
			if x.got != x.want {
				bad++
				if bad == 1 {
					sink.violation(900200, fmt.Sprintf("concurrent requests: a request that must be answered %d was answered %d", x.want, x.got), nil)
				}
			}
			if x.want == 200 {
				wantEvents[x.backend]++
			}
		}
	}
	for b := 1; b <= n; b++ {
		// an accepted request may be dropped by the room as stale when a request received later
		// overtook it (Room.lastRoomRequests): fewer events are fine, more are not
		got := w.collect(b)
		if got > wantEvents[b] {
			sink.violation(900201, fmt.Sprintf("concurrent requests: the client of backend %d received %d events for %d accepted requests", b, got, wantEvents[b]), nil)
		}
		sink.stats.Histogram["concurrent_accepted"] += wantEvents[b]
		sink.stats.Histogram["concurrent_events_received"] += got
	}
	sink.stats.Histogram["concurrent_requests"] = workers * per
	sink.stats.Histogram["concurrent_wrong_answers"] = bad
}

// Outside the property's quantifier (it asks for distinct secrets), recorded as an observation:
// two backends with the SAME secret and a request without backend header.  The server tries
// the backends in the order of a Go map iteration, so the backend (tenant) whose clients
// receive the event is not determined by the request.
func c02SharedSecretNote(t *testing.T, env verifEnv, sink *caseSink) {
	secret := "shared-secret-of-both"
	t.Run("sharedsecret", func(t *testing.T) {
		w := c02NewWorld(t, c02Cfg{Name: "same_secret2", Backends: []c02B{{1, "", secret}, {2, "", secret}}}, true)
		n := 60
		got := []int{0, 0}
		for i := 0; i < n; i++ {
			body := []byte(fmt.Sprintf(`{"type":"message","message":{"data":{"i":%d}}}`, i))
			rnd := fmt.Sprintf("%064x", i+1000)
			req := httptest.NewRequest("POST", "/api/v1/room/"+c02Room, bytes.NewReader(body))
			req.RemoteAddr = "192.0.2.10:4000"
			req.Header.Set("Content-Type", "application/json")
			req.Header.Set(c02HdrRandom, rnd)
			req.Header.Set(c02HdrChecksum, c02Mac(secret, rnd, body))
			rec := httptest.NewRecorder()
			w.router.ServeHTTP(rec, req)
			if rec.Code != http.StatusOK {
				sink.violation(900300, fmt.Sprintf("correctly signed request without backend header refused with %d", rec.Code), nil)
			}
			got[0] += w.collect(1)
			got[1] += w.collect(2)
		}
		sink.stats.Histogram["same_secret_noheader_requests"] = n
		sink.stats.Histogram["same_secret_noheader_delivered_to_backend1"] = got[0]
		sink.stats.Histogram["same_secret_noheader_delivered_to_backend2"] = got[1]
		if got[0]+got[1] != n {
			sink.violation(900301, fmt.Sprintf("%d requests without backend header caused %d+%d events", n, got[0], got[1]), nil)
		}
	})
}

// ---- outgoing direction -------------------------------------------------------------------------

func c02WaitFor(t *testing.T, what string, f func() bool) {
	deadline := time.Now().Add(testTimeout)
	for !f() {
		if time.Now().After(deadline) {
			t.Fatalf("timeout waiting for %s", what)
		}
		time.Sleep(time.Millisecond)
	}
}

func (w *c02World) kinds() map[string]int {
	w.fake.mu.Lock()
	defer w.fake.mu.Unlock()
	m := map[string]int{}
	for _, r := range w.fake.recs {
		m[fmt.Sprintf("%d:%s", r.Backend, r.Kind)]++
	}
	return m
}

// drive makes the server send every kind of backend request for backend id.
func (w *c02World) drive(id int, round int) {
	w.driveStart(id, round).rest()
}

// A driven backend in the middle of its history: a user session in a room and an internal client
// exist (auth and room join were sent); ping, virtual sessions and the leave are still to come.
// The configuration may be changed between the two halves: the sessions then "straddle" the change.
type c02Drive struct {
	w      *c02World
	id     int
	room   string
	c, ic  *TestClient
	before map[string]int
}

func (d *c02Drive) key(k string) string { return fmt.Sprintf("%d:%s", d.id, k) }
func (d *c02Drive) grew(k string) func() bool {
	return func() bool { return d.w.kinds()[d.key(k)] > d.before[d.key(k)] }
}

// ---- fault schedule of the outgoing scenario ------------------------------------------------------
//
// Steps of a drive, by the request they make the server send.  "v..." are the room join / leave
// requests for a virtual session (same request kind on the wire as a user's join / leave).
var c02StepKinds = []string{"auth", "room/join", "ping", "session/add", "session/remove", "vroom/join", "vroom/leave", "room/leave"}

func c02WireKind(step string) string { return strings.TrimPrefix(step, "v") }

// Which step meets which fault.  Counted per (phase of the configuration history, kind of step):
// the first step of every kind in every phase loses its connection before a response byte was
// written, the following ones go through the other faults and healthy answers (rotation by seed
// and kind); `slow` kinds get one answer that never comes in the initial phase.  A replay file
// can name the faults instead (script): then exactly those strike.
type c02FaultPlan struct {
	offset   int
	slow     map[string]bool
	count    map[string]int
	scripted bool
	script   []c02FaultSpec
	struck   []c02FaultSpec
}

func c02NewFaultPlan(seed int64, world int, script []c02FaultSpec, scripted bool) *c02FaultPlan {
	p := &c02FaultPlan{offset: int(uint64(seed)%1000) + world, slow: map[string]bool{}, count: map[string]int{}, script: script, scripted: scripted}
	// one kind per world waits for the client's timeout (it costs the timeout): over the eight worlds of a run every kind does
	p.slow[c02StepKinds[(world+int(uint64(seed)%8))%len(c02StepKinds)]] = true
	return p
}

func (p *c02FaultPlan) next(endpoint int, phase, step string) *c02FaultSpec {
	if p == nil {
		return nil
	}
	key := phase + "|" + step
	n := p.count[key]
	p.count[key]++
	mode := ""
	if p.scripted {
		for _, f := range p.script {
			if f.Endpoint == endpoint && f.Kind == step && f.Phase == phase && f.Nth == n {
				mode = f.Mode
			}
		}
	} else {
		ki := 0
		for i, k := range c02StepKinds {
			if k == step {
				ki = i
			}
		}
		cyc := []string{"partial-body", "500-text", "", "partial-status", "500-json", "drop", ""}
		switch {
		case n == 0:
			mode = "drop"
		case n == 1 && phase == "initial" && p.slow[step]:
			mode = "slow"
		default:
			mode = cyc[(n-1+p.offset+ki)%len(cyc)]
		}
	}
	if mode == "" {
		return nil
	}
	p.struck = append(p.struck, c02FaultSpec{Endpoint: endpoint, Kind: step, Phase: phase, Nth: n, Mode: mode})
	return &p.struck[len(p.struck)-1]
}

// done: a replay named faults and all of them have struck: the rest of the history is not needed.
func (p *c02FaultPlan) done() bool {
	if p == nil || !p.scripted || len(p.script) == 0 {
		return false
	}
	for _, f := range p.script {
		hit := false
		for _, g := range p.struck {
			hit = hit || f == g
		}
		if !hit {
			return false
		}
	}
	return true
}

// arm: the fault the schedule has for this step (if any) is armed at the endpoint of this drive.
func (d *c02Drive) arm(step string) bool {
	w := d.w
	w.fake.mu.Lock()
	phase := w.fake.phase
	w.fake.mu.Unlock()
	spec := w.plan.next(d.id, phase, step)
	if spec == nil {
		return false
	}
	w.fake.arm(d.id, c02WireKind(step), *spec)
	return true
}

// outcome notes what the client saw of the step whose fault was armed last.
func (d *c02Drive) outcome(ok bool) {
	p := d.w.plan
	d.w.outcomes = append(d.w.outcomes, c02Outcome{Spec: p.struck[len(p.struck)-1], Ok: ok})
}

// struck waits until the armed fault has hit a request and the backend is done with it (a slow
// request: until the server gave up), then a little longer: whatever the server sends because of
// the failure belongs to this step (and to the configuration in force now).
func (d *c02Drive) struck(step string) {
	c02WaitFor(d.w.t, "fault at "+step, func() bool { return d.w.fake.spent(d.id, c02WireKind(step)) })
	time.Sleep(12 * time.Millisecond)
}

func (w *c02World) driveStart(id int, round int) *c02Drive {
	t := w.t
	ctx, cancel := context.WithTimeout(context.Background(), testTimeout)
	defer cancel()
	d := &c02Drive{w: w, id: id, before: w.kinds(), room: fmt.Sprintf("out-room-%d-%d", id, round)}
	// auth + room join
	if d.arm("auth") {
		// the backend fails while this client says hello: the client is told so and goes away; the next one gets through
		fc := NewTestClient(t, w.server, w.hub)
		if err := fc.SendHelloParams(w.base[id-1], HelloVersionV1, "", nil, TestBackendClientAuthParams{UserId: fmt.Sprintf("out%d", round)}); err != nil {
			t.Fatal(err)
		}
		msg, err := fc.RunUntilMessage(ctx)
		if err != nil {
			t.Fatalf("outgoing: hello backend %d while the backend fails: %v", id, err)
		}
		d.struck("auth")
		// the model says the client is told about the error; a server that gets the client through
		// nevertheless is kept under observation (judged in Coq, code 5)
		d.outcome(msg.Type == "hello")
		if msg.Type == "hello" {
			d.c = fc
		} else {
			fc.CloseWithBye()
		}
	}
	if d.c == nil {
		d.c = NewTestClient(t, w.server, w.hub)
		if err := d.c.SendHelloParams(w.base[id-1], HelloVersionV1, "", nil, TestBackendClientAuthParams{UserId: fmt.Sprintf("out%d", round)}); err != nil {
			t.Fatal(err)
		}
		if _, err := d.c.RunUntilHello(ctx); err != nil {
			t.Fatalf("outgoing: hello backend %d: %v", id, err)
		}
	}
	joined := false
	if d.arm("room/join") {
		_, err := d.c.JoinRoom(ctx, d.room)
		joined = err == nil
		d.struck("room/join")
		d.outcome(joined)
	}
	if !joined {
		if _, err := d.c.JoinRoom(ctx, d.room); err != nil {
			t.Fatalf("outgoing: join backend %d: %v", id, err)
		}
	}
	c02WaitFor(t, "auth", d.grew("auth"))
	c02WaitFor(t, "room/join", d.grew("room/join"))
	// an internal client of this backend
	d.ic = NewTestClient(t, w.server, w.hub)
	rnd := newRandomString(48)
	mac := hmac.New(sha256.New, testInternalSecret)
	mac.Write([]byte(rnd))
	if err := d.ic.SendHelloParams("", HelloVersionV1, "internal", nil, ClientTypeInternalAuthParams{Random: rnd, Token: hex.EncodeToString(mac.Sum(nil)), Backend: w.base[id-1]}); err != nil {
		t.Fatal(err)
	}
	if _, err := d.ic.RunUntilHello(ctx); err != nil {
		t.Fatalf("outgoing: internal hello backend %d: %v", id, err)
	}
	return d
}

// pingNow makes the room of this drive and the combined-ping queue send their pings (synchronously).
func (d *c02Drive) pingNow() {
	w := d.w
	w.hub.ru.RLock()
	var rooms []*Room
	for _, r := range w.hub.rooms {
		rooms = append(rooms, r)
	}
	w.hub.ru.RUnlock()
	for _, r := range rooms {
		if r.Id() == d.room {
			_, wg := r.publishActiveSessions()
			wg.Wait()
		}
	}
	w.hub.roomPing.publishActiveSessions()
}

func (d *c02Drive) rest() {
	w, t, room := d.w, d.w.t, d.room
	ic, c := d.ic, d.c
	// ping (direct, or queued and sent combined when the backend announces a ping limit)
	if d.arm("ping") {
		d.before = w.kinds()
		c02WaitFor(t, "ping", func() bool {
			d.pingNow()
			return d.grew("ping")()
		})
		d.struck("ping")
	}
	d.before = w.kinds()
	c02WaitFor(t, "ping", func() bool {
		d.pingNow()
		return d.grew("ping")()
	})
	common := func(sid string) CommonSessionInternalClientMessage {
		return CommonSessionInternalClientMessage{SessionId: sid, RoomId: room}
	}
	// virtual sessions through the internal client; without options: session add / remove.
	// A failing backend: the session is not added (the internal client is told "add_failed") and is added again;
	// a removal happens in the server whether the backend hears of it or not.
	arrived := func(kind string) func() bool {
		n := w.kinds()[d.key(kind)]
		return func() bool { return w.kinds()[d.key(kind)] > n }
	}
	add1 := func() func() bool {
		f := arrived("session/add")
		if err := ic.SendInternalAddSession(&AddSessionInternalClientMessage{CommonSessionInternalClientMessage: common("v1"), UserId: "vuser1"}); err != nil {
			t.Fatal(err)
		}
		return f
	}
	if d.arm("session/add") {
		c02WaitFor(t, "session/add (backend fails)", add1())
		d.struck("session/add")
	}
	c02WaitFor(t, "session/add", add1())
	failing := d.arm("session/remove")
	f := arrived("session/remove")
	if err := ic.SendInternalRemoveSession(&RemoveSessionInternalClientMessage{CommonSessionInternalClientMessage: common("v1"), UserId: "vuser1"}); err != nil {
		t.Fatal(err)
	}
	c02WaitFor(t, "session/remove", f)
	if failing {
		d.struck("session/remove")
	}
	// with options: room join / leave for the virtual session
	add2 := func() func() bool {
		f := arrived("room/join")
		if err := ic.SendInternalAddSession(&AddSessionInternalClientMessage{CommonSessionInternalClientMessage: common("v2"), UserId: "vuser2",
			Options: &AddSessionOptions{ActorId: "actor", ActorType: "type"}}); err != nil {
			t.Fatal(err)
		}
		return f
	}
	if d.arm("vroom/join") {
		c02WaitFor(t, "virtual room/join (backend fails)", add2())
		d.struck("vroom/join")
	}
	c02WaitFor(t, "virtual room/join", add2())
	failing = d.arm("vroom/leave")
	f = arrived("room/leave")
	if err := ic.SendInternalRemoveSession(&RemoveSessionInternalClientMessage{CommonSessionInternalClientMessage: common("v2"), UserId: "vuser2"}); err != nil {
		t.Fatal(err)
	}
	c02WaitFor(t, "virtual room/leave", f)
	if failing {
		d.struck("vroom/leave")
	}
	ic.CloseWithBye()
	// the client leaves the room: room leave
	failing = d.arm("room/leave")
	f = arrived("room/leave")
	c.CloseWithBye()
	c02WaitFor(t, "room/leave", f)
	if failing {
		d.struck("room/leave")
	}
}

// restRemoved: the second half for sessions whose backend is no longer configured.  The server has
// nobody to send their pings and leaves to: whatever arrives at the old endpoint is recorded (with
// no secret in force) and judged; nothing is waited for.
func (d *c02Drive) restRemoved() {
	w := d.w
	for i := 0; i < 2; i++ {
		d.pingNow()
	}
	d.ic.CloseWithBye()
	d.c.CloseWithBye()
	// the leave request is sent (or not) while the session is closed: wait until the room is gone
	c02WaitFor(w.t, "room of the removed backend closed", func() bool {
		w.hub.ru.RLock()
		defer w.hub.ru.RUnlock()
		for _, r := range w.hub.rooms {
			if r.Id() == d.room {
				return false
			}
		}
		return true
	})
	time.Sleep(10 * time.Millisecond)
}

// c02ReloadHistory: outgoing requests of every kind, a change of the configuration, outgoing
// requests of every kind again (from sessions that existed before the change and from new ones,
// all to URLs that were used before), for: changed secrets (one backend keeps its secret),
// exchanged URLs, a removed backend, the backend added again with another secret.
func (w *c02World) reloadHistory(r *vrng) {
	n := len(w.cfg.Backends)
	all := func() []int {
		var l []int
		for i := 1; i <= n; i++ {
			l = append(l, i)
		}
		return l
	}
	startAll := func(ids []int, round int) []*c02Drive {
		var ds []*c02Drive
		for _, id := range ids {
			ds = append(ds, w.driveStart(id, round))
		}
		return ds
	}
	clone := func() []c02Entry { return append([]c02Entry(nil), w.layout...) }
	fresh := func() string { return c02Secret(r, 12+r.intn(24)) }

	// every URL is used under the initial secrets
	for _, id := range all() {
		w.drive(id, 100)
	}
	// 1. secrets changed; the last backend keeps its secret when there are several
	ds := startAll(all(), 101)
	l := clone()
	for i := range l {
		if n == 1 || i < n-1 {
			l[i].Secret = fresh()
		}
	}
	w.reconfigure("secret-changed", l)
	for _, d := range ds {
		d.rest()
	}
	for _, id := range all() {
		w.drive(id, 102)
	}
	// 2. the URLs of the first two backends exchanged (each keeps its name and secret)
	if n >= 2 {
		ds = startAll([]int{1, 2}, 103)
		l = clone()
		l[0].Endpoint, l[1].Endpoint = l[1].Endpoint, l[0].Endpoint
		w.reconfigure("urls-exchanged", l)
		for _, d := range ds {
			d.rest()
		}
		w.drive(1, 104)
		w.drive(2, 104)
	}
	// 3. the backend at the first endpoint removed
	ds = startAll([]int{1}, 105)
	l = nil
	var gone c02Entry
	for _, e := range w.layout {
		if e.Endpoint == 1 {
			gone = e
		} else {
			l = append(l, e)
		}
	}
	w.reconfigure("backend-removed", l)
	ds[0].restRemoved()
	if n >= 2 {
		w.drive(2, 106)
	}
	// 4. and configured again, with another secret
	gone.Secret = fresh()
	w.reconfigure("backend-added-again", append(clone(), gone))
	w.drive(1, 107)
}

// the fate of a request in model/OutReq.v
func c02FateCoq(mode string) string {
	switch {
	case mode == "drop":
		return "(fate_of 1)"
	case strings.HasPrefix(mode, "partial"):
		return "(fate_of 2)"
	case strings.HasPrefix(mode, "500"):
		return "(fate_of 3)"
	case mode == "slow":
		return "(fate_of 4)"
	}
	return "(fate_of 0)"
}

// scripts: configuration key -> the faults a replay file names for that world (present, possibly
// empty: exactly these; absent: the fault schedule of the run)
func c02Outgoing(t *testing.T, env verifEnv, sink *caseSink, cfgs []c02Cfg, scripts map[string][]c02FaultSpec) {
	rounds := 2
	if env.thorough() {
		rounds = 12
	}
	terms := make([][]string, len(cfgs))
	fates := make([][]string, len(cfgs))
	total := 0
	kinds := map[string]bool{}
	faulted := map[string]bool{}
	seenRnd := map[string]int{}
	// every configuration has its own server, fake backends and clients: the histories run side by
	// side (they mostly wait for the network), the records are collected one world at a time
	var collect sync.Mutex
	t.Run("out", func(t *testing.T) {
		for ci, cfg := range cfgs {
			ci, cfg := ci, cfg
			t.Run(fmt.Sprintf("out%d", ci), func(t *testing.T) {
				t.Parallel()
				id := 700000 + 4000*ci
				w := c02NewWorld(t, cfg, false)
				script, scripted := scripts[cfg.key()]
				w.plan = c02NewFaultPlan(env.seed, ci, script, scripted)
				if cfg.Reload {
					w.reloadHistory(newVrng(env.seed, uint64(880000+ci)))
					if env.thorough() {
						// a second pass over the changed configuration: more changes of the same kinds
						w.reloadHistory(newVrng(env.seed, uint64(890000+ci)))
					}
				} else {
					for round := 0; round < rounds; round++ {
						for b := range cfg.Backends {
							if w.plan.done() {
								break // replay of named faults: the history ends with the drive in which the last one struck
							}
							w.drive(b+1, round)
						}
					}
				}
				time.Sleep(20 * time.Millisecond)
				collect.Lock()
				defer collect.Unlock()
				w.fake.mu.Lock()
				defer w.fake.mu.Unlock()
				if w.fake.busy != 0 {
					sink.violation(id, fmt.Sprintf("%s: %d requests still being handled at the end of the history (harness)", cfg.Name, w.fake.busy), nil)
				}
				for k, l := range w.fake.armed {
					if len(l) > 0 {
						sink.violation(id, fmt.Sprintf("%s: a fault armed for %s at endpoint %d never struck (harness)", cfg.Name, k.kind, k.id), nil)
					}
				}
				inWorld := map[string]int{} // random -> index of the first record of this world that carried it
				first := id + 1
				for ri, r := range w.fake.recs {
					id++
					if r.NRnd != 1 || r.NChk != 1 {
						sink.violation(id, fmt.Sprintf("request %s to backend %d carries %d random and %d checksum headers", r.Kind, r.Backend, r.NRnd, r.NChk), nil)
					}
					if prev, dup := seenRnd[r.Rnd]; dup {
						sink.violation(id, fmt.Sprintf("outgoing requests %d and %d carry the same random %q (statistical freshness test over the whole run)", prev, id, r.Rnd), nil)
					}
					seenRnd[r.Rnd] = id
					// the secret in force when the request was received (not the one of the end of the scenario)
					optHex := func(s *string) (string, string, *string) {
						if s == nil {
							return "None", "", nil
						}
						h := hexS(*s)
						return fmt.Sprintf("(Some \"%s\"%%string)", h), c02Mac(*s, r.Rnd, r.Body), &h
					}
					curCoq, curMac, curHex := optHex(r.Cur)
					lookCoq, lookMac, lookHex := optHex(r.Look)
					terms[ci] = append(terms[ci], fmt.Sprintf("mkout %d%%N %s %s \"%s\" \"%s\" \"%s\" \"%s\" \"%s\"", id, curCoq, lookCoq, hexS(r.Rnd), hexS(r.Chk),
						hex.EncodeToString(r.Body), curMac, lookMac))
					total++
					oj := &c02OutJson{Backend: r.Backend, Kind: r.Kind, Rnd: hexS(r.Rnd), Chk: hexS(r.Chk), Body: hex.EncodeToString(r.Body),
						Phase: r.Phase, Secret: curHex, Lookup: lookHex, Fault: r.Fault, Path: r.Path}
					// the faults this request was sent under, for the replay: the one that struck the earlier
					// request with the same random, or the one that struck this request
					var under *[]c02FaultSpec
					if r.Spec != nil {
						under = &[]c02FaultSpec{*r.Spec}
					}
					if pi, dup := inWorld[r.Rnd]; dup {
						pr := w.fake.recs[pi]
						oj.SameRandomAs = &c02OutRef{Id: first + pi, Backend: pr.Backend, Kind: pr.Kind, Phase: pr.Phase, Fault: pr.Fault}
						if pr.Spec != nil {
							under = &[]c02FaultSpec{*pr.Spec}
						}
					} else {
						inWorld[r.Rnd] = ri
					}
					js, _ := json.Marshal(c02Case{Id: id, Cfg: cfg, Outgoing: oj, Faults: under})
					sink.jsonl.Write(append(js, '\n'))
					if r.Spec != nil {
						for _, o := range w.outcomes {
							if o.Spec == *r.Spec {
								fates[ci] = append(fates[ci], fmt.Sprintf("(%d%%N, %s, %s)", id, c02FateCoq(r.Fault), coqBool(o.Ok)))
								sink.count(fmt.Sprintf("outgoing_fault_outcome_ok_%v", o.Ok))
							}
						}
					}
					if r.Fault != "" {
						sink.count("outgoing_fault_" + r.Fault)
						sink.count("outgoing_fault_kind_" + r.Kind)
						faulted[r.Kind+"|"+r.Fault] = true
						if cfg.Reload {
							sink.count("outgoing_fault_after_" + r.Phase)
						}
					}
					sink.stats.Evaluations++
					sink.count("outgoing_" + r.Kind)
					sink.count("outgoing_" + cfg.Name)
					if cfg.Reload {
						sink.count("outgoing_after_" + r.Phase)
					}
					kinds[r.Kind] = true
				}
				sink.stats.Histogram["capabilities_requests_without_checksum"] += w.fake.caps
			})
		}
	})
	for _, k := range []string{"auth", "room/join", "room/leave", "ping", "session/add", "session/remove"} {
		if !kinds[k] {
			sink.violation(800000, "the outgoing scenario did not make the server send a request of kind "+k+" (harness)", nil)
		}
	}
	if scripts == nil {
		// every kind of request met a connection that was closed without an answer; every other fault struck somewhere
		for _, k := range []string{"auth", "room/join", "room/leave", "ping", "session/add", "session/remove"} {
			if !faulted[k+"|drop"] {
				sink.violation(800001, "the outgoing scenario never closed the connection of a request of kind "+k+" without answering (harness)", nil)
			}
		}
		for _, m := range append([]string{"slow"}, c02FaultModes...) {
			n := 0
			for k := range faulted {
				if strings.HasSuffix(k, "|"+m) {
					n++
				}
			}
			if n == 0 {
				sink.violation(800002, "the outgoing scenario never injected the fault "+m+" (harness)", nil)
			}
		}
	}
	sink.stats.Histogram["outgoing_requests"] = total
	// one file per world, in the order the requests arrived: P_out is about all requests a server sent
	// (each on its own, and no random twice); worlds with many requests are also judged in overlapping halves
	for ci := range cfgs {
		if len(terms[ci]) == 0 {
			continue
		}
		sink.extraFile(fmt.Sprintf("out_%03d", ci), "From Coq Require Import List ZArith NArith String.\nFrom Verif Require Import corr.Run_C02.\nImport ListNotations.\n"+
			"Definition result := Eval vm_compute in (judge_out_world "+coqList(terms[ci])+" ++ judge_fates "+coqList(fates[ci])+")%list.\nPrint result.\n")
	}
	sink.stats.Notes = append(sink.stats.Notes,
		"outgoing: every request that arrives at a fake backend is recorded before the backend answers or fails (connection closed without / in the middle of the answer, 500, no answer until the server's timeout); the records of a world are judged together by P_out (each request signed for the backend in force, no random used twice), the randoms of the whole run are compared by the harness as well",
		"capabilities GET requests carry no checksum by protocol and are outside the statement")
}
