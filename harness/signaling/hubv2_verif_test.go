//go:build verif

// Protocol 2.0 hello tokens for the hub driver: key pairs per backend (published through the fake
// backend's capabilities), token construction from the abstract description the model sees.
package signaling

import (
	"crypto/ecdsa"
	"crypto/ed25519"
	"crypto/elliptic"
	"crypto/rand"
	"crypto/rsa"
	"crypto/x509"
	"encoding/base64"
	"encoding/pem"
	"fmt"
	"sync"
	"time"

	"github.com/golang-jwt/jwt/v5"
)

// hdV2Tok is the token of a hello 2.0 op as the model sees it (Coq: v2tok).
type hdV2Tok struct {
	Alg    int  `json:"alg"`           // index into hdV2Algs
	Signer int  `json:"signer"`        // 0: a key no backend publishes; b+1: the key pair whose public half backend b publishes
	Iat    *int `json:"iat,omitempty"` // seconds relative to the moment the hello is sent
	Nbf    *int `json:"nbf,omitempty"`
	Exp    *int `json:"exp,omitempty"`
}

var hdV2Algs = []string{"RS256", "RS384", "RS512", "ES256", "ES384", "ES512", "EdDSA", "HS256", "none"}

// family of keys a signing method needs: 0 RSA, 1 ECDSA, 2 Ed25519, 3 none of them
func hdV2Family(alg int) int {
	switch {
	case alg < 3:
		return 0
	case alg < 6:
		return 1
	case alg == 6:
		return 2
	}
	return 3
}

type hdKeyPair struct {
	priv    interface{}
	pubText string // what the backend publishes as hello-v2-token-key
}

var (
	hdKeyMu       sync.Mutex
	hdBackendKeys = map[int]*hdKeyPair{}
	hdSpareKeys   = map[int]interface{}{}
)

func hdPemPublic(pub interface{}) string {
	der, err := x509.MarshalPKIXPublicKey(pub)
	if err != nil {
		panic(err)
	}
	return string(pem.EncodeToMemory(&pem.Block{Type: "PUBLIC KEY", Bytes: der}))
}

// hdBackendKey returns the key pair of backend b (family b mod 3), generated once per process.
func hdBackendKey(b int) *hdKeyPair {
	hdKeyMu.Lock()
	defer hdKeyMu.Unlock()
	if k, ok := hdBackendKeys[b]; ok {
		return k
	}
	k := &hdKeyPair{}
	switch b % 3 {
	case 0:
		priv, err := rsa.GenerateKey(rand.Reader, 2048)
		if err != nil {
			panic(err)
		}
		k.priv, k.pubText = priv, hdPemPublic(&priv.PublicKey)
	case 1:
		priv, err := ecdsa.GenerateKey(elliptic.P256(), rand.Reader)
		if err != nil {
			panic(err)
		}
		k.priv, k.pubText = priv, hdPemPublic(&priv.PublicKey)
	default:
		pub, priv, err := ed25519.GenerateKey(rand.Reader)
		if err != nil {
			panic(err)
		}
		// Nextcloud publishes Ed25519 keys as base64 of the raw public key
		k.priv, k.pubText = priv, base64.StdEncoding.EncodeToString(pub)
	}
	hdBackendKeys[b] = k
	return k
}

// hdSpareKey returns a private key for the method that no backend publishes.
func hdSpareKey(alg int) interface{} {
	hdKeyMu.Lock()
	defer hdKeyMu.Unlock()
	if k, ok := hdSpareKeys[alg]; ok {
		return k
	}
	var k interface{}
	var err error
	switch alg {
	case 0, 1, 2:
		if k0, ok := hdSpareKeys[0]; ok {
			k = k0
		} else {
			k, err = rsa.GenerateKey(rand.Reader, 2048)
			hdSpareKeys[0] = k
		}
	case 3:
		k, err = ecdsa.GenerateKey(elliptic.P256(), rand.Reader)
	case 4:
		k, err = ecdsa.GenerateKey(elliptic.P384(), rand.Reader)
	case 5:
		k, err = ecdsa.GenerateKey(elliptic.P521(), rand.Reader)
	case 6:
		_, k, err = ed25519.GenerateKey(rand.Reader)
	}
	if err != nil {
		panic(err)
	}
	hdSpareKeys[alg] = k
	return k
}

// can the key pair of backend b sign with this method?
func hdV2CanSign(b, alg int) bool {
	if hdV2Family(alg) != b%3 {
		return false
	}
	return alg != 4 && alg != 5 // the ECDSA pairs are P-256
}

// hdV2Token builds the token for a hello naming backend b and user u. It returns the token and
// the signer that was actually used (a signer that cannot sign with the method is replaced by a
// key nobody publishes, and the term given to the model says so).
func (s *hdSystem) hdV2Token(b, u int, t *hdV2Tok) (string, int) {
	now := time.Now()
	claims := jwt.MapClaims{"iss": s.backendUrl(b), "sub": hdUser(u)}
	if t.Iat != nil {
		claims["iat"] = now.Add(time.Duration(*t.Iat) * time.Second).Unix()
	}
	if t.Nbf != nil {
		claims["nbf"] = now.Add(time.Duration(*t.Nbf) * time.Second).Unix()
	}
	if t.Exp != nil {
		claims["exp"] = now.Add(time.Duration(*t.Exp) * time.Second).Unix()
	}
	alg := t.Alg
	if alg < 0 || alg >= len(hdV2Algs) {
		alg = 8
	}
	signer := t.Signer
	var key interface{}
	switch {
	case alg == 8:
		key, signer = jwt.UnsafeAllowNoneSignatureType, 0
	case alg == 7:
		// the classic confusion: HMAC keyed with the text of the published public key
		key, signer = []byte(hdBackendKey(b).pubText), 0
	case signer > 0 && hdV2CanSign(signer-1, alg):
		key = hdBackendKey(signer - 1).priv
	default:
		key, signer = hdSpareKey(alg), 0
	}
	tok := jwt.NewWithClaims(jwt.GetSigningMethod(hdV2Algs[alg]), claims)
	str, err := tok.SignedString(key)
	if err != nil {
		panic(fmt.Sprintf("cannot sign %s: %v", hdV2Algs[alg], err))
	}
	return str, signer
}

func coqOptZ(p *int) string {
	if p == nil {
		return "None"
	}
	return fmt.Sprintf("(Some (%d)%%Z)", *p)
}

func (t *hdV2Tok) coq(signer int) string {
	alg := t.Alg
	if alg < 0 || alg >= len(hdV2Algs) {
		alg = 8
	}
	return fmt.Sprintf("(mkv2 %d %d %s %s %s)", alg, signer, coqOptZ(t.Iat), coqOptZ(t.Nbf), coqOptZ(t.Exp))
}

func hdIntp(v int) *int { return &v }

// a token the server must accept for backend b
func hdV2Good(r *vrng, b int) *hdV2Tok {
	algs := [][]int{{0, 1, 2}, {3}, {6}}[b%3]
	t := &hdV2Tok{Alg: algs[r.intn(len(algs))], Signer: b + 1, Iat: hdIntp(-r.intn(50)), Exp: hdIntp(30 + r.intn(600))}
	if r.chance(30) {
		t.Nbf = hdIntp(-r.intn(50))
	}
	if r.chance(15) {
		// inside the leeway on either side
		t.Iat = hdIntp(5 + r.intn(45))
	}
	if r.chance(10) {
		t.Exp = hdIntp(-5 - r.intn(45))
		t.Iat = hdIntp(-100 - r.intn(100))
	}
	return t
}

// one mutation of a good token (the classes of the property text: algorithm, key material, clock offsets, absent claims)
func hdV2Mutate(r *vrng, b, nb int, t *hdV2Tok) *hdV2Tok {
	m := *t
	switch r.intn(12) {
	case 0: // symmetric / none
		m.Alg = 7 + r.intn(2)
	case 1: // another method of another family
		m.Alg = (m.Alg + 3) % 7
		if !hdV2CanSign(b, m.Alg) {
			m.Signer = 0
		}
	case 2: // key nobody publishes
		m.Signer = 0
	case 3: // key of another backend
		if nb > 1 {
			o := (b + 1 + r.intn(nb-1)) % nb
			m.Signer = o + 1
			algs := [][]int{{0, 1, 2}, {3}, {6}}[o%3]
			m.Alg = algs[r.intn(len(algs))]
		} else {
			m.Signer = 0
		}
	case 4: // expired beyond the leeway
		m.Exp = hdIntp(-70 - r.intn(1000))
		m.Iat = hdIntp(*m.Exp - 10 - r.intn(100))
	case 5: // issued in the future beyond the leeway
		m.Iat = hdIntp(70 + r.intn(1000))
		m.Exp = hdIntp(*m.Iat + 100)
	case 6: // not valid yet
		m.Nbf = hdIntp(70 + r.intn(1000))
	case 7:
		m.Iat = nil
	case 8:
		m.Exp = nil
	case 9: // expires before it was issued
		m.Iat = hdIntp(-10)
		m.Exp = hdIntp(-20 - r.intn(30))
	case 10: // ES384 / ES512 with a key of the right family but the wrong curve
		m.Alg = 4 + r.intn(2)
		m.Signer = 0
	default: // everything absent
		m.Iat, m.Nbf, m.Exp = nil, nil, nil
	}
	return &m
}
