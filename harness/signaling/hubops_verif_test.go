//go:build verif

package signaling

// hubops: the op alphabet of the hub model, its execution on the real hub
// (hubdrv_verif_test.go) and the projection of what the implementation did into
// the observation terms of coq/model/Hub.v.

import (
	"crypto/hmac"
	"crypto/sha256"
	"encoding/hex"
	"encoding/json"
	"fmt"
	"sort"
	"strings"
	"net/url"
	"testing"
	"time"
)

type hdIdRef struct {
	T string `json:"t"`           // priv, pub (session of connection C), vpub (virtual session V of connection C), sid (explicit), other
	C int    `json:"c,omitempty"` // connection whose session is meant
	V int    `json:"v,omitempty"` // virtual session number (as chosen by the internal client)
	S uint64 `json:"s,omitempty"` // explicit hub sid (T = sidpub / sidpriv)
	O int    `json:"o,omitempty"` // which non-id string (T = other)
	M int    `json:"m,omitempty"` // mutation of the string: 0 none, 1 last char changed, 2 truncated, 3 upper-cased
}

type hdRecipient struct {
	T  string   `json:"t"` // session, user, room, call
	Id *hdIdRef `json:"id,omitempty"`
	U  int      `json:"u,omitempty"`
	// members the recipient's type does not call for (validation accepts them; the type alone decides who is addressed,
	// so the model's term does not carry them): a user id on a session / room / call recipient, a session id on a
	// user / room / call recipient
	SU  int      `json:"su,omitempty"`
	SId *hdIdRef `json:"sid,omitempty"`
}

const hdChatRefreshTag = 77

type hdOp struct {
	K string `json:"k"`
	C int    `json:"c,omitempty"`

	// connect
	Addr int `json:"addr,omitempty"`

	// hello
	Ht     string   `json:"ht,omitempty"` // v1, internal, resume
	B      int      `json:"b,omitempty"`
	U      int      `json:"u,omitempty"`
	Reject bool     `json:"reject,omitempty"`
	Feat   []string `json:"feat,omitempty"`
	Tok    int      `json:"tok,omitempty"` // internal: 0 valid, 1 random too short, 2 wrong token, 3 token of other random
	Id     *hdIdRef `json:"id,omitempty"`
	V2     *hdV2Tok `json:"v2,omitempty"` // protocol 2.0 hello with this token (Ht = "")
	Late   bool     `json:"late,omitempty"` // helloabort: the connection goes away after the session was entered into the backend's list

	// join
	R     int    `json:"r,omitempty"`  // room number, 0 = leave
	RS    int    `json:"rs,omitempty"` // Nextcloud session id number, 0 = none (made disjoint per backend unless RawRS)
	RawRS bool   `json:"rawrs,omitempty"`
	Err   string `json:"err,omitempty"`
	Perm  []int  `json:"perm,omitempty"` // permission indices
	HasP  bool   `json:"hasp,omitempty"`
	SU    int    `json:"su,omitempty"` // user id in the room session data

	// joincut: the reply of the backend to this join is held back, the connection is cut while the join is outstanding,
	// the ops of Mid run (messages of other connections), a new connection C2 resumes the session, the backend replies
	C2  int    `json:"c2,omitempty"`
	Mid []hdOp `json:"mid,omitempty"`

	// message / control
	To  *hdRecipient `json:"to,omitempty"`
	Tag int          `json:"tag,omitempty"`
	FS  int          `json:"fs,omitempty"` // forged sender fields in the client message (ignored by the server)

	// tick: housekeeping at now + O seconds
	O int `json:"o,omitempty"`

	// room API
	Api    string     `json:"api,omitempty"` // delete, disinvite, update, participants, incall, incallall, message, dialout (Tag: 0 well-formed, 1 number not E.164, 2 room id not numeric, 3 no number), transient (published on the bus), transienthttp (over HTTP: refused)
	SignAs int        `json:"signas,omitempty"`
	Users  []hdApiUser `json:"users,omitempty"`
	InCall int        `json:"incall,omitempty"`

	// internal client requests
	Ik    string `json:"ik,omitempty"` // addsession, updatesession, removesession, incall
	V     int    `json:"v,omitempty"`
	Flags int    `json:"flags,omitempty"`
	HasF  bool   `json:"hasf,omitempty"`
	HasIC bool   `json:"hasic,omitempty"`

	After int `json:"after,omitempty"` // wfail on a connection without a session: the server's writes fail after this many more frames

	// media
	Mk     string `json:"mk,omitempty"`     // offer, requestoffer, candidate, sendoffer, answer, unshareScreen
	Stream string `json:"stream,omitempty"` // video, screen, audio
	Media  int    `json:"media,omitempty"`  // bit 1 audio, bit 2 video m-lines in the offer SDP
	Res    string `json:"res,omitempty"`    // mcudone: ok, fail

	// transient: client message (Tk = set, remove, or anything else = a type the server does not know; Tag = value,
	// 0 = a set without value) and the room request "transient" (K = api, Api = transient: Tk = set / delete)
	Tk  string `json:"tk,omitempty"`
	Key int    `json:"key,omitempty"`

	// deliver
	Subj int    `json:"subj,omitempty"` // index into the pending list
	Sk   string `json:"sk,omitempty"`   // deliversubj: kind of the subject (room, backendroom, session, user)
	// raw
	Raw string `json:"raw,omitempty"`
}

type hdApiUser struct {
	Id     *hdIdRef `json:"id,omitempty"`
	RS     int      `json:"rs,omitempty"` // Nextcloud session id number (for participants)
	InCall int      `json:"incall,omitempty"`
	Perm   []int    `json:"perm,omitempty"`
	HasP   bool     `json:"hasp,omitempty"`
	U      int      `json:"u,omitempty"`
}

type hdCase struct {
	Id       int            `json:"id"`
	Mode     int            `json:"mode"`
	Backends []hdBackendCfg `json:"backends"`
	Ops      []hdOp         `json:"ops"`
	Finding  string         `json:"finding,omitempty"`
	Async    bool           `json:"async,omitempty"`
	Gated    bool           `json:"gated,omitempty"`
}

var hdPermNames = []string{"publish-audio", "publish-video", "publish-screen", "publish-media", "control", "transient-data", "hide-displaynames"}

var hdOtherIds = []string{"not-a-session-id", "", "AAAA", "....", "MTIzNDU2Nzg5MA", "x|y|z"}

var hdErrorCodes = []string{"", "hello_expected", "invalid_format", "auth_failed", "room_join_failed", "invalid_client_type", "invalid_backend",
	"invalid_token", "no_such_session", "token_not_valid_yet", "token_expired", "too_many_requests", "invalid_hello_version", "already_joined",
	"not_allowed", "client_not_found", "processing_failed", "not_in_room", "ignored", "invalid_user", "no_such_room", "session_limit_exceeded",
	"invalid_request", "add_failed", "remove_failed", "unsupported_protocol", "invalid_sdp", "federation_error", "not_invited", "refused"}

func hdErrCode(code string) int {
	for i, c := range hdErrorCodes {
		if c == code {
			return i
		}
	}
	return 99
}

var hdByeReasons = []string{"", "hello_timeout", "room_join_timeout", "session_resumed", "room_session_reconnected", "session_expired", "disinvited"}

func hdByeReason(r string) int {
	for i, c := range hdByeReasons {
		if c == r {
			return i
		}
	}
	return 99
}

func hdUser(u int) string {
	if u == 0 {
		return ""
	}
	return fmt.Sprintf("user%d", u)
}

func hdUserNum(u string) int {
	var n int
	if u == "" {
		return 0
	}
	if _, err := fmt.Sscanf(u, "user%d", &n); err == nil {
		return n
	}
	return 999
}

func hdRoom(r int) string {
	if r == 0 {
		return ""
	}
	return fmt.Sprintf("room%d", r)
}

func hdRoomNum(r string) int {
	var n int
	if r == "" {
		return 0
	}
	if _, err := fmt.Sscanf(r, "room%d", &n); err == nil {
		return n
	}
	return 999
}

func hdRoomSession(n int) string {
	if n == 0 {
		return ""
	}
	return fmt.Sprintf("ncsession%d", n)
}

// ---- execution ---------------------------------------------------------------

type hdRun struct {
	sys *hdSystem
	// last known session ids per connection
	pub    map[int]string
	priv   map[int]string
	vpub   map[string]string // "conn|v" -> public id of the virtual session
	coq    []string          // executed steps as Coq terms
	notes  []string
	// a room join held at the fake backend (forced schedule "joincut"): the gate, and the join as the model's op has it
	held     *hdHeldJoin
	inflight []int  // indices of the recorded steps that lie inside the held request
	insert   []hdOp // ops to run next (set by an op whose forced schedule could not be set up)
}

type hdHeldJoin struct {
	sess *ClientSession // the session whose join is held
	cut  int            // its connection, cut while the join is outstanding
	gate chan struct{}
	room int
	rs   int
	rep  string
}

func (r *hdRun) resolve(id *hdIdRef) (string, string) {
	if id == nil {
		return "", "(IdOther 1)"
	}
	var s, term string
	switch id.T {
	case "priv":
		s = r.priv[id.C]
		if s == "" {
			return "no-session-of-conn", "(IdOther 0)"
		}
		term = fmt.Sprintf("(IdPriv %d)", r.sys.privSid(s))
	case "pub":
		s = r.pub[id.C]
		if s == "" {
			return "no-session-of-conn", "(IdOther 0)"
		}
		term = fmt.Sprintf("(IdPub %d)", r.sys.sidOf(s))
	case "vpub":
		s = r.vpub[fmt.Sprintf("%d|%d", id.C, id.V)]
		if s == "" {
			return "no-virtual-session", "(IdOther 0)"
		}
		term = fmt.Sprintf("(IdPub %d)", r.sys.sidOf(s))
	default:
		s = hdOtherIds[id.O%len(hdOtherIds)]
		if s == "" {
			s = "-"
		}
		return s, fmt.Sprintf("(IdOther %d)", 1+id.O%len(hdOtherIds))
	}
	switch id.M {
	case 1:
		b := []byte(s)
		if b[len(b)-3] == 'A' {
			b[len(b)-3] = 'B'
		} else {
			b[len(b)-3] = 'A'
		}
		return string(b), "(IdOther 20)"
	case 2:
		return s[:len(s)-4], "(IdOther 21)"
	case 3:
		return strings.ToUpper(s), "(IdOther 22)"
	}
	return s, term
}

// backendOfConn: the backend of the session currently attached to the connection (0 if none)
func (r *hdRun) backendOfConn(c int) int {
	pub := r.pub[c]
	if pub == "" {
		return 0
	}
	if sess := r.sys.hub.GetSessionByPublicId(pub); sess != nil {
		if b := r.sys.backendIndex(sess.Backend()); b >= 0 {
			return b
		}
	}
	return 0
}

func (s *hdSystem) privSid(privateId string) uint64 {
	if data := s.hub.decodePrivateSessionId(privateId); data != nil {
		return data.Sid
	}
	return 0
}

func (r *hdRun) recipient(to *hdRecipient) (map[string]interface{}, string) {
	rec, term := r.recipientPlain(to)
	if to.SU > 0 && to.T != "user" {
		rec["userid"] = hdUser(to.SU)
	}
	if to.SId != nil && to.T != "session" {
		rec["sessionid"], _ = r.resolve(to.SId)
	}
	return rec, term
}

func (r *hdRun) recipientPlain(to *hdRecipient) (map[string]interface{}, string) {
	switch to.T {
	case "session":
		s, term := r.resolve(to.Id)
		return map[string]interface{}{"type": "session", "sessionid": s}, "(RSession " + term + ")"
	case "user":
		return map[string]interface{}{"type": "user", "userid": hdUser(to.U)}, fmt.Sprintf("(RUser %d)", to.U)
	case "call":
		return map[string]interface{}{"type": "call"}, "RCall"
	}
	return map[string]interface{}{"type": "room"}, "RRoom"
}

func hdPermList(idx []int) []string {
	out := []string{}
	for _, i := range idx {
		out = append(out, hdPermNames[i%len(hdPermNames)])
	}
	return out
}

func hdPermBits(idx []int) int {
	b := 0
	for _, i := range idx {
		b |= 1 << (i % len(hdPermNames))
	}
	return b
}

func hdPermBitsOfNames(names []string) int {
	b := 0
	for _, n := range names {
		for i, p := range hdPermNames {
			if p == n {
				b |= 1 << i
			}
		}
	}
	return b
}

func hdSdp(media int) string {
	s := "v=0\r\no=- 1 1 IN IP4 127.0.0.1\r\ns=-\r\nt=0 0\r\n"
	if media&1 != 0 {
		s += "m=audio 9 UDP/TLS/RTP/SAVPF 111\r\nc=IN IP4 0.0.0.0\r\na=rtpmap:111 opus/48000/2\r\n"
	}
	if media&2 != 0 {
		s += "m=video 9 UDP/TLS/RTP/SAVPF 96\r\nc=IN IP4 0.0.0.0\r\na=rtpmap:96 VP8/90000\r\n"
	}
	if media&4 != 0 {
		s += "m=application 9 UDP/DTLS/SCTP webrtc-datachannel\r\nc=IN IP4 0.0.0.0\r\n"
	}
	// sections with port 0 and a=bundle-only (what browsers send with the max-bundle policy): the track is active
	if media&8 != 0 {
		s += "m=audio 0 UDP/TLS/RTP/SAVPF 111\r\nc=IN IP4 0.0.0.0\r\na=bundle-only\r\na=rtpmap:111 opus/48000/2\r\n"
	}
	if media&16 != 0 {
		s += "m=video 0 UDP/TLS/RTP/SAVPF 96\r\nc=IN IP4 0.0.0.0\r\na=bundle-only\r\na=rtpmap:96 VP8/90000\r\n"
	}
	return s
}

// exec performs one op on the real system and returns its Coq term.
// joinRequest: the room message of a join op, the Nextcloud session id number and the reply as the model's op has
// them; the fake backend is told what to answer.
func (r *hdRun) joinRequest(o *hdOp) ([]byte, int, string) {
	s := r.sys
	s.backend.mu.Lock()
	s.backend.roomReply = hdRoomReply{Error: o.Err, Permissions: hdPermList(o.Perm), HasPerm: o.HasP, SessionUser: hdUser(o.SU)}
	s.backend.mu.Unlock()
	room := map[string]interface{}{"roomid": hdRoom(o.R)}
	rs := o.RS
	if rs > 0 && !o.RawRS {
		// Nextcloud session ids of different backends never coincide (the shared map is a known finding of C03)
		rs += 10 * (1 + r.backendOfConn(o.C))
	}
	if rs > 0 {
		room["sessionid"] = hdRoomSession(rs)
	}
	data, _ := json.Marshal(map[string]interface{}{"id": "j", "type": "room", "room": room})
	rep := "RepOk None 0"
	if o.Err != "" {
		rep = fmt.Sprintf("RepErr %d", hdErrCode(o.Err))
	} else {
		p := "None"
		if o.HasP {
			p = fmt.Sprintf("(Some %d)", hdPermBits(o.Perm))
		}
		rep = fmt.Sprintf("RepOk %s %d", p, o.SU)
	}
	return data, rs, rep
}

func s_connIndexOf(s *hdSystem, sess *ClientSession) int { return s.connIndex(sess.GetClient()) }

// canHold: the join of this op will ask the backend (so its reply can be held back) and the session can be resumed
// on the new connection: a client session attached to connection C that is not already in the room, C2 unused.
func (r *hdRun) canHold(o *hdOp) bool {
	s := r.sys
	if r.held != nil || s.clients[o.C] == nil || s.clients[o.C2] != nil || o.C2 == o.C || o.R == 0 || r.pub[o.C] == "" || r.priv[o.C] == "" {
		return false
	}
	sess, ok := s.hub.GetSessionByPublicId(r.pub[o.C]).(*ClientSession)
	if !ok || sess == nil || sess.ClientType() == HelloClientTypeInternal || s.connIndex(sess.GetClient()) != o.C {
		return false
	}
	if room := s.hub.GetRoomForBackend(hdRoom(o.R), sess.Backend()); room != nil && room.HasSession(sess) {
		return false
	}
	return true
}

func (r *hdRun) exec(o *hdOp) string {
	s := r.sys
	c := s.clients[o.C]
	switch o.K {
	case "connect":
		addr := ""
		if o.Addr > 0 {
			addr = fmt.Sprintf("198.51.100.%d", o.Addr%250)
		}
		if hc := s.connect(o.C, addr); hc != nil {
			hc.mu.Lock()
			hc.autoDialout = true
			hc.mu.Unlock()
		}
		return fmt.Sprintf("OConnect %d %d", o.C, o.Addr)
	case "hello":
		if c == nil {
			return ""
		}
		msg := map[string]interface{}{"id": "h", "type": "hello"}
		hello := map[string]interface{}{"version": "1.0"}
		var term string
		switch o.Ht {
		case "internal":
			rnd := newRandomString(64)
			if o.Tok == 1 {
				rnd = rnd[:20]
			}
			secret, tokNum := hdInternalSecret, o.Tok
			if s.noSecret {
				// no secret is configured: the only token one could try is the one computed with the empty key
				secret, tokNum = "", 4
				if o.Tok == 1 {
					rnd = newRandomString(64)
				}
			}
			mac := hmac.New(sha256.New, []byte(secret))
			mac.Write([]byte(rnd))
			token := hex.EncodeToString(mac.Sum(nil))
			switch o.Tok {
			case 2:
				token = strings.Repeat("0", len(token))
			case 3:
				mac2 := hmac.New(sha256.New, []byte(hdInternalSecret))
				mac2.Write([]byte(newRandomString(64)))
				token = hex.EncodeToString(mac2.Sum(nil))
			}
			hello["auth"] = map[string]interface{}{"type": "internal", "params": map[string]interface{}{"random": rnd, "token": token, "backend": s.backendUrl(o.B)}}
			if len(o.Feat) > 0 {
				hello["features"] = o.Feat
			}
			incall, dialout := false, false
			for _, f := range o.Feat {
				if f == ClientFeatureInternalInCall {
					incall = true
				}
				if f == ClientFeatureStartDialout {
					dialout = true
				}
			}
			term = fmt.Sprintf("OHello %d (HInternal %d %d %s %s)", o.C, o.B, tokNum, coqBool(incall), coqBool(dialout))
		case "resume":
			id, t := r.resolve(o.Id)
			hello["resumeid"] = id
			term = fmt.Sprintf("OHello %d (HResume %s)", o.C, t)
		default:
			if o.V2 != nil {
				token, signer := s.hdV2Token(o.B, o.U, o.V2)
				hello["version"] = "2.0"
				hello["auth"] = map[string]interface{}{"url": s.backendUrl(o.B) + "/ocs/v2.php/apps/spreed/api/v1/signaling/backend", "params": map[string]interface{}{"token": token}}
				term = fmt.Sprintf("OHello %d (HV2 %d %d %s)", o.C, o.B, o.U, o.V2.coq(signer))
				break
			}
			hello["auth"] = map[string]interface{}{"url": s.backendUrl(o.B) + "/ocs/v2.php/apps/spreed/api/v1/signaling/backend", "params": map[string]interface{}{"u": hdUser(o.U), "reject": o.Reject}}
			term = fmt.Sprintf("OHello %d (HV1 %d %d %s)", o.C, o.B, o.U, coqBool(o.Reject))
		}
		msg["hello"] = hello
		data, _ := json.Marshal(msg)
		c.mu.Lock()
		half := c.half
		c.mu.Unlock()
		if half && r.pub[o.C] == "" {
			// the server's writes to this connection fail from some frame on (see "wfail" with After): no marker can
			// be answered; the hello is processed when the server hit the failing write (the harness's end reads EOF)
			// and nothing runs any more
			if err := c.send(data); err == nil {
				idle := func(need int, d time.Duration) {
					deadline := time.Now().Add(d)
					for n := 0; time.Now().Before(deadline) && n < need; {
						if s.idleDump() {
							n++
						} else {
							n = 0
						}
						time.Sleep(300 * time.Microsecond)
					}
				}
				select {
				case <-c.gone:
				case <-time.After(30 * time.Millisecond):
					// fewer frames than allowed were written so far: wait until nothing runs any more
					idle(10, 2*time.Second)
				}
				idle(3, 2*time.Second)
				// "from some frame on" ends here at the latest: the next write fails
				s.failWritesAfter(o.C, 0)
			}
			return term
		}
		s.sendSync(c, data)
		return term
	case "helloabort":
		// The connection is closed while its hello is being processed. Only the forms the model knows are
		// forced; everything else is sent as an ordinary hello.
		if c == nil {
			return ""
		}
		plain := *o
		plain.K = "hello"
		if r.pub[o.C] != "" {
			return r.exec(&plain)
		}
		idle := func() {
			deadline := time.Now().Add(2 * time.Second)
			n := 0
			for time.Now().Before(deadline) && n < 3 {
				if s.idleDump() {
					n++
				} else {
					n = 0
				}
				time.Sleep(300 * time.Microsecond)
			}
		}
		dropHeld := func() {
			s.backend.mu.Lock()
			var keep []hdBackendReq
			for _, q := range s.backend.reqs {
				if q.Type != "auth-held" {
					keep = append(keep, q)
				}
			}
			s.backend.reqs = keep
			s.backend.mu.Unlock()
		}
		switch {
		case o.Ht == "resume":
			id, t := r.resolve(o.Id)
			if !strings.HasPrefix(t, "(IdPriv") {
				return r.exec(&plain)
			}
			data, _ := json.Marshal(map[string]interface{}{"id": "h", "type": "hello", "hello": map[string]interface{}{"version": "1.0", "resumeid": id}})
			// the hub looks the session up under its lock: hold it, let the hello run into it, cut the connection
			s.hub.mu.Lock()
			err := c.send(data)
			idle()
			c.conn.Close()
			<-c.gone
			idle()
			s.hub.mu.Unlock()
			if err != nil {
				return ""
			}
			return fmt.Sprintf("OHelloAborted %d (HResume %s) false", o.C, t)
		case o.Ht == "" && o.V2 == nil && !o.Reject && o.B >= 0 && o.B < s.nb:
			late := o.Late && s.backendHasRoom(o.B)
			data, _ := json.Marshal(map[string]interface{}{"id": "h", "type": "hello", "hello": map[string]interface{}{"version": "1.0",
				"auth": map[string]interface{}{"url": s.backendUrl(o.B) + "/ocs/v2.php/apps/spreed/api/v1/signaling/backend", "params": map[string]interface{}{"u": hdUser(o.U), "reject": false}}}})
			gate := make(chan struct{})
			s.backend.mu.Lock()
			s.backend.gate = gate
			s.backend.mu.Unlock()
			release := func() {
				s.backend.mu.Lock()
				s.backend.gate = nil
				s.backend.mu.Unlock()
				close(gate)
			}
			if err := c.send(data); err != nil {
				release()
				return ""
			}
			held := false
			for deadline := time.Now().Add(2 * time.Second); time.Now().Before(deadline) && !held; time.Sleep(200 * time.Microsecond) {
				s.backend.mu.Lock()
				for _, q := range s.backend.reqs {
					if q.Type == "auth-held" {
						held = true
					}
				}
				s.backend.mu.Unlock()
			}
			if !held {
				// the request never reached the backend (refused before): an ordinary hello then
				release()
				dropHeld()
				s.sendSync(c, []byte(`{"id":"x","type":"bye","bye":{}}`))
				return fmt.Sprintf("OHello %d (HV1 %d %d false)", o.C, o.B, o.U)
			}
			if late {
				// the answer arrives while the connection is still there; the session is entered into the backend's
				// list and then waits for the hub's lock; meanwhile the connection goes away
				s.hub.mu.Lock()
				release()
				idle()
				c.conn.Close()
				<-c.gone
				idle()
				s.hub.mu.Unlock()
			} else {
				c.conn.Close()
				<-c.gone
				idle()
				release()
			}
			dropHeld()
			return fmt.Sprintf("OHelloAborted %d (HV1 %d %d false) %s", o.C, o.B, o.U, coqBool(late))
		}
		return r.exec(&plain)
	case "join":
		if c == nil {
			return ""
		}
		data, rs, rep := r.joinRequest(o)
		s.sendSync(c, data)
		return fmt.Sprintf("OJoin %d %d %d (%s)", o.C, o.R, rs, rep)
	case "joinhold":
		// First part of the forced schedule "joincut" (hdRunCase expands it): the join is sent, its request waits at the
		// fake backend, the connection is cut. The server-side connection is closed (read pump gone) and not yet
		// unregistered: its handler is inside the join. The model's op for this step is the cut.
		if c == nil || r.held != nil {
			return ""
		}
		data, rs, rep := r.joinRequest(o)
		gate := make(chan struct{})
		s.backend.mu.Lock()
		s.backend.roomGate = gate
		s.backend.mu.Unlock()
		if err := c.send(data); err != nil {
			s.backend.mu.Lock()
			s.backend.roomGate = nil
			s.backend.mu.Unlock()
			close(gate)
			return ""
		}
		isHeld := false
		for deadline := time.Now().Add(2 * time.Second); time.Now().Before(deadline) && !isHeld; time.Sleep(200 * time.Microsecond) {
			isHeld = s.backend.held.Load() > 0
		}
		s.backend.mu.Lock()
		s.backend.roomGate = nil // only this request waits; later joins are answered at once
		s.backend.mu.Unlock()
		if !isHeld {
			// the join never asked the backend (answered before): an ordinary join, then the cut as an ordinary drop
			close(gate)
			s.syncOnly(c)
			r.notes = append(r.notes, "unknown joinhold-not-held")
			r.insert = []hdOp{{K: "drop", C: o.C}}
			return fmt.Sprintf("OJoin %d %d %d (%s)", o.C, o.R, rs, rep)
		}
		sess, _ := s.hub.GetSessionByPublicId(r.pub[o.C]).(*ClientSession)
		r.held = &hdHeldJoin{sess: sess, cut: o.C, gate: gate, room: o.R, rs: rs, rep: rep}
		c.conn.Close()
		<-c.gone
		c.mu.Lock()
		c.closed = true
		c.mu.Unlock()
		return fmt.Sprintf("ODrop %d", o.C)
	case "joinrelease":
		// Last part of "joincut": the backend answers the held join; the handler of the cut connection completes the
		// join for the session (which connection C has resumed meanwhile) and the cut connection is unregistered.
		if r.held == nil {
			return ""
		}
		h := r.held
		r.held = nil
		close(h.gate)
		s.quiesce()
		if c != nil {
			s.syncOnly(c)
			s.quiesce()
		}
		return fmt.Sprintf("OJoin %d %d %d (%s)", o.C, h.room, h.rs, h.rep)
	case "msg", "ctl":
		if c == nil {
			return ""
		}
		rec, rterm := r.recipient(o.To)
		payload := map[string]interface{}{"tag": o.Tag}
		if o.Tag == hdChatRefreshTag {
			// a chat-refresh notice (Coq: CHAT_REFRESH_TAG): repeated ones are merged while the receiver is disconnected
			payload["type"] = "chat"
			payload["chat"] = map[string]interface{}{"refresh": true}
		}
		inner := map[string]interface{}{"recipient": rec, "data": payload}
		if o.FS > 0 {
			inner["sender"] = map[string]interface{}{"type": "session", "sessionid": r.pub[o.FS], "userid": "forged"}
		}
		kind, ctor := "message", "OMsg"
		if o.K == "ctl" {
			kind, ctor = "control", "OCtl"
		}
		data, _ := json.Marshal(map[string]interface{}{"id": "m", "type": kind, kind: inner})
		s.sendSync(c, data)
		return fmt.Sprintf("%s %d %s %d", ctor, o.C, rterm, o.Tag)
	case "bye":
		if c == nil {
			return ""
		}
		s.sendSync(c, []byte(`{"id":"b","type":"bye","bye":{}}`))
		return fmt.Sprintf("OBye %d", o.C)
	case "wfail":
		// The server's writes to this connection fail from now on (it still believes the client connected).
		// The model has no such state: the op is written as OConnect on the existing connection (a no-op of
		// the model), from which on only the predicates judge the case (see Run_Hub.v is_wfail).
		if c != nil && o.After > 0 && r.pub[o.C] == "" {
			// a connection that has not said hello: the server's writes to it fail after o.After more frames (a resume
			// on it: the reply, then o.After-1 messages of the queue, then the connection is cut for the server's
			// writes while it flushes the rest). Same marker; the predicates know the connection has no session.
			if !s.failWritesAfter(o.C, o.After) {
				return ""
			}
			return fmt.Sprintf("OConnect %d 0", o.C)
		}
		if c == nil || r.pub[o.C] == "" || !s.breakWrites(o.C) {
			return ""
		}
		<-c.gone
		return fmt.Sprintf("OConnect %d 0", o.C)
	case "drop":
		if c == nil {
			return ""
		}
		c.conn.Close()
		<-c.gone
		c.mu.Lock()
		c.closed = true
		c.mu.Unlock()
		return fmt.Sprintf("ODrop %d", o.C)
	case "tick":
		s.hub.performHousekeeping(time.Now().Add(time.Duration(o.O) * time.Second))
		return fmt.Sprintf("OTick %d", o.O)
	case "api":
		var body map[string]interface{}
		var term string
		users := func(withPerm bool) ([]map[string]interface{}, string) {
			var l []map[string]interface{}
			var terms []string
			for _, u := range o.Users {
				id, t := r.resolve(u.Id)
				if u.Id != nil && !o.RawRS && s.foreignRoomSession(id, o.B) {
					// the string is, right now, the room-session id of a session of another backend: that is the
					// region of the known finding C03/room-session-map/global-api (witnessed by its own directed
					// case); generated cases stay outside it
					r.notes = append(r.notes, "api user replaced: foreign room session id")
					id, t = "no-such-room-session", "(IdOther 30)"
				}
				e := map[string]interface{}{"sessionId": id, "inCall": u.InCall}
				if u.RS > 0 {
					urs := u.RS
					if !o.RawRS {
						urs += 10 * (1 + o.B)
					}
					e["sessionId"] = hdRoomSession(urs)
					t = fmt.Sprintf("(IdRS %d)", urs)
				}
				pt := "None"
				if u.HasP {
					e["permissions"] = hdPermList(u.Perm)
					pt = fmt.Sprintf("(Some %d)", hdPermBits(u.Perm))
				}
				if u.U > 0 {
					e["userId"] = hdUser(u.U)
				}
				l = append(l, e)
				terms = append(terms, fmt.Sprintf("(%s, %d, %s)", t, u.InCall, pt))
			}
			if l == nil {
				l = []map[string]interface{}{}
			}
			return l, coqList(terms)
		}
		if o.Api == "transient" || o.Api == "transienthttp" {
			return r.execApiTransient(o)
		}
		switch o.Api {
		case "delete":
			body = map[string]interface{}{"type": "delete", "delete": map[string]interface{}{"userids": []string{}}}
			term = "ADelete"
		case "disinvite":
			var sessions []string
			var terms []string
			for _, u := range o.Users {
				if u.RS > 0 {
					urs := u.RS
					if !o.RawRS {
						urs += 10 * (1 + o.B)
					}
					sessions = append(sessions, hdRoomSession(urs))
					terms = append(terms, fmt.Sprintf("%d", urs))
				}
			}
			var uids []string
			var uterms []string
			for _, u := range o.Users {
				if u.U > 0 {
					uids = append(uids, hdUser(u.U))
					uterms = append(uterms, fmt.Sprintf("%d", u.U))
				}
			}
			if uids == nil {
				uids = []string{}
			}
			body = map[string]interface{}{"type": "disinvite", "disinvite": map[string]interface{}{"userids": uids, "alluserids": []string{}, "sessionids": sessions}}
			term = fmt.Sprintf("(ADisinvite %s %s)", coqList(uterms), coqList(terms))
		case "update":
			body = map[string]interface{}{"type": "update", "update": map[string]interface{}{"userids": []string{}, "properties": map[string]interface{}{"p": o.Tag}}}
			term = fmt.Sprintf("(AUpdate %d)", o.Tag)
		case "participants":
			l, t := users(true)
			body = map[string]interface{}{"type": "participants", "participants": map[string]interface{}{"changed": l, "users": l}}
			term = "(AParticipants " + t + ")"
		case "incall":
			l, t := users(false)
			body = map[string]interface{}{"type": "incall", "incall": map[string]interface{}{"incall": o.InCall, "changed": l, "users": l}}
			term = "(AInCall " + t + ")"
		case "incallall":
			body = map[string]interface{}{"type": "incall", "incall": map[string]interface{}{"incall": o.InCall, "all": true}}
			term = fmt.Sprintf("(AInCallAll %d)", o.InCall)
		case "dialout":
			// The request is handed to the connected dial-out client of THIS backend (the driver's clients accept
			// it at once, see hdClient.answerDialout), 404 when there is none. The server picks the client by
			// walking a Go map: the generators keep at most one connected dial-out client per backend.
			number := "+4930123456"
			switch o.Tag {
			case 1:
				number = "030123456"
			case 3:
				number = ""
			}
			body = map[string]interface{}{"type": "dialout", "dialout": map[string]interface{}{"number": number}}
			term = fmt.Sprintf("(ADialout %s)", coqBool(o.Tag == 0))
		default:
			body = map[string]interface{}{"type": "message", "message": map[string]interface{}{"data": map[string]interface{}{"tag": o.Tag}}}
			term = fmt.Sprintf("(AMessage %d)", o.Tag)
		}
		data, _ := json.Marshal(body)
		roomName := hdRoom(o.R)
		if o.Api == "dialout" && o.Tag != 2 {
			roomName = fmt.Sprintf("%d", o.R) // dial-out wants a numeric room id (Nextcloud's conversation id)
		}
		status := s.roomApi(o.B, o.SignAs, roomName, data)
		r.notes = append(r.notes, fmt.Sprintf("api status %d", status))
		return fmt.Sprintf("OApi %d %d %d %s", o.B, o.SignAs, o.R, term)
	case "internal":
		if c == nil {
			return ""
		}
		var inner map[string]interface{}
		var term string
		switch o.Ik {
		case "addsession":
			add := map[string]interface{}{"sessionid": fmt.Sprintf("v%d", o.V), "roomid": hdRoom(o.R), "userid": hdUser(o.U)}
			ft, it := "None", "None"
			if o.HasF {
				add["flags"] = o.Flags
				ft = fmt.Sprintf("(Some %d)", o.Flags)
			}
			if o.HasIC {
				add["incall"] = o.InCall
				it = fmt.Sprintf("(Some %d)", o.InCall)
			}
			inner = map[string]interface{}{"type": "addsession", "addsession": add}
			term = fmt.Sprintf("(IAdd %d %d %d %s %s)", o.V, o.R, o.U, ft, it)
		case "updatesession":
			upd := map[string]interface{}{"sessionid": fmt.Sprintf("v%d", o.V), "roomid": hdRoom(o.R)}
			ft, it := "None", "None"
			if o.HasF {
				upd["flags"] = o.Flags
				ft = fmt.Sprintf("(Some %d)", o.Flags)
			}
			if o.HasIC {
				upd["incall"] = o.InCall
				it = fmt.Sprintf("(Some %d)", o.InCall)
			}
			inner = map[string]interface{}{"type": "updatesession", "updatesession": upd}
			term = fmt.Sprintf("(IUpdate %d %d %s %s)", o.V, o.R, ft, it)
		case "removesession":
			inner = map[string]interface{}{"type": "removesession", "removesession": map[string]interface{}{"sessionid": fmt.Sprintf("v%d", o.V), "roomid": hdRoom(o.R)}}
			term = fmt.Sprintf("(IRemove %d %d)", o.V, o.R)
		default:
			inner = map[string]interface{}{"type": "incall", "incall": map[string]interface{}{"incall": o.InCall}}
			term = fmt.Sprintf("(IInCall %d)", o.InCall)
		}
		data, _ := json.Marshal(map[string]interface{}{"id": "i", "type": "internal", "internal": inner})
		s.sendSync(c, data)
		return fmt.Sprintf("OInternal %d %s", o.C, term)
	case "media":
		if c == nil {
			return ""
		}
		rec, rterm := r.recipient(o.To)
		payload := map[string]interface{}{"type": o.Mk, "roomType": o.Stream}
		switch o.Mk {
		case "offer", "answer":
			payload["payload"] = map[string]interface{}{"sdp": hdSdp(o.Media), "type": o.Mk}
		case "candidate":
			payload["payload"] = map[string]interface{}{"candidate": map[string]interface{}{"candidate": "c"}}
		}
		data, _ := json.Marshal(map[string]interface{}{"id": "m", "type": "message", "message": map[string]interface{}{"recipient": rec, "data": payload}})
		if s.mcu.gated && o.Mk == "offer" {
			// an offer is handled in the connection's own goroutine: with a gated media server the
			// connection stays busy until the creation completes, so no marker can be answered
			// (an offer for a stream that already has a publisher is answered without a creation: the answer
			// carries no id, so anything that arrives on the connection ends the wait - otherwise it lasts the
			// whole 2 s, in which a connection that has not said hello yet runs into its timeout)
			before := s.mcu.created()
			had := c.nmsgs()
			if err := c.send(data); err == nil {
				deadline := time.Now().Add(2 * time.Second)
				for time.Now().Before(deadline) && s.mcu.created() == before && !c.hasId("m") && c.nmsgs() == had {
					time.Sleep(200 * time.Microsecond)
				}
			}
		} else {
			s.sendSync(c, data)
		}
		st := map[string]int{"audio": 0, "video": 1, "screen": 2}[o.Stream]
		mk := map[string]int{"offer": 0, "requestoffer": 1, "candidate": 2, "sendoffer": 3, "answer": 4, "unshareScreen": 5, "selectStream": 6, "endOfCandidates": 7}[o.Mk]
		return fmt.Sprintf("OMedia %d %s %d %d %d", o.C, rterm, mk, st, o.Media)
	case "mcudone":
		tok := s.mcu.firstPending(o.Tok)
		if tok == 0 {
			return ""
		}
		s.mcu.release(tok, o.Res)
		return fmt.Sprintf("OMcuDone %d %s", tok, coqBool(o.Res == "ok"))
	case "transient":
		if c == nil {
			return ""
		}
		inner := map[string]interface{}{"type": o.Tk, "key": hdTransientKey(o.Key)}
		if o.Tk == "set" && o.Tag > 0 {
			// Tag = 0: a set without value (the server removes the key)
			inner["value"] = hdTransientValue(o.Tag)
		}
		data, _ := json.Marshal(map[string]interface{}{"id": "t", "type": "transient", "transient": inner})
		s.sendSync(c, data)
		tk := 2
		switch o.Tk {
		case "set":
			tk = 0
		case "remove":
			tk = 1
		}
		return fmt.Sprintf("OTransient %d %d %d %d", o.C, tk, o.Key, o.Tag)
	case "deliver":
		subs := s.events.pendingSubjects()
		if len(subs) == 0 {
			return ""
		}
		subj := subs[o.Subj%len(subs)]
		// position of the first pending publication of that subject
		pos := 0
		for i, x := range subs {
			if x == subj {
				pos = i
				break
			}
		}
		s.events.deliver(subj)
		return fmt.Sprintf("ODeliver %d", pos)
	case "raw":
		if c == nil {
			return ""
		}
		s.sendSync(c, []byte(o.Raw))
		return ""
	}
	return ""
}

// ---- transient data ----------------------------------------------------------------

func hdTransientKey(k int) string   { return fmt.Sprintf("k%d", k) }
func hdTransientValue(v int) string { return fmt.Sprintf("v%d", v) }

func hdTransientKeyNum(k string) int {
	var n int
	if _, err := fmt.Sscanf(k, "k%d", &n); err == nil && hdTransientKey(n) == k {
		return n
	}
	return 999
}

// hdTransientValueNum maps a value as the server holds it (json.RawMessage from a client, decoded JSON from the bus)
// or as a client reads it (decoded JSON) back to its number.
func hdTransientValueNum(v interface{}) int {
	var str string
	switch x := v.(type) {
	case string:
		str = x
	case json.RawMessage:
		if err := json.Unmarshal(x, &str); err != nil {
			return 998
		}
	case *json.RawMessage:
		if x == nil || json.Unmarshal(*x, &str) != nil {
			return 998
		}
	default:
		return 997
	}
	var n int
	if _, err := fmt.Sscanf(str, "v%d", &n); err == nil && hdTransientValue(n) == str {
		return n
	}
	return 999
}

func hdTransientDataTerm(data map[string]interface{}) string {
	type kv struct{ k, v int }
	var l []kv
	for k, v := range data {
		l = append(l, kv{hdTransientKeyNum(k), hdTransientValueNum(v)})
	}
	sort.Slice(l, func(i, j int) bool { return l[i].k < l[j].k })
	var terms []string
	for _, e := range l {
		terms = append(terms, fmt.Sprintf("(%d, %d)", e.k, e.v))
	}
	return coqList(terms)
}

// execApiTransient: the room request "transient".  It is not a request type of the HTTP room API (Api =
// transienthttp sends it there: 400, nothing happens, no model step); the server publishes it itself on the room's
// backend subject for a dial-out status (hub.go), and it arrives the same way from another server of a cluster.  The
// driver publishes it exactly like hub.go does (no receive time, no time-to-live), through the hub's AsyncEvents -
// the harness bus, so its delivery is scheduled like that of every other room request.
func (r *hdRun) execApiTransient(o *hdOp) string {
	s := r.sys
	action := TransientActionSet
	if o.Tk == "delete" || o.Tk == "remove" {
		action = TransientActionDelete
	}
	req := &BackendRoomTransientRequest{Action: action, Key: hdTransientKey(o.Key)}
	if action == TransientActionSet && o.Tag > 0 {
		req.Value = hdTransientValue(o.Tag)
	}
	if o.Api == "transienthttp" {
		body, _ := json.Marshal(map[string]interface{}{"type": "transient", "transient": req})
		status := s.roomApi(o.B, o.SignAs, hdRoom(o.R), body)
		r.notes = append(r.notes, fmt.Sprintf("api transient over http: status %d", status))
		if status == 200 {
			r.notes = append(r.notes, "unknown: the room API accepted a transient request")
		}
		return ""
	}
	term := fmt.Sprintf("OApi %d %d %d (ATransient %s %d %d)", o.B, o.SignAs, o.R, coqBool(action == TransientActionDelete), o.Key, o.Tag)
	if o.SignAs != o.B || o.B < 0 || o.B >= s.nb {
		// not a request of that backend: nothing is published (the model's OApi does nothing either)
		return term
	}
	u, err := url.Parse(s.backendUrl(o.B))
	if err != nil {
		return ""
	}
	backend := s.hub.backend.GetBackend(u)
	if backend == nil {
		return ""
	}
	msg := &AsyncMessage{Type: "room", Room: &BackendServerRoomRequest{Type: "transient", Transient: req}}
	if err := s.hub.events.PublishBackendRoomMessage(hdRoom(o.R), backend, msg); err != nil {
		r.notes = append(r.notes, "unknown: publish failed: "+err.Error())
	}
	return term
}

// ---- projection of what clients received ----------------------------------------

func (r *hdRun) sidTerm(publicId string) string {
	if publicId == "" {
		return "0"
	}
	if sid := r.sys.sidOf(publicId); sid != 0 {
		return fmt.Sprintf("%d", sid)
	}
	return "0"
}

func hdTagOf(data json.RawMessage) (int, string) {
	var p struct {
		Tag  *int   `json:"tag"`
		Type string `json:"type"`
		From string `json:"from"`
	}
	if err := json.Unmarshal(data, &p); err != nil {
		return -1, ""
	}
	if p.Tag != nil {
		return *p.Tag, ""
	}
	return -1, p.Type
}

func (r *hdRun) project(conn int, data []byte) string {
	var m ServerMessage
	if err := json.Unmarshal(data, &m); err != nil {
		return "(SOther 1)"
	}
	switch m.Type {
	case "welcome":
		return "SWelcome"
	case "hello":
		if m.Hello == nil {
			return "(SOther 2)"
		}
		r.pub[conn] = m.Hello.SessionId
		r.priv[conn] = m.Hello.ResumeId
		sid := r.sys.sidOf(m.Hello.SessionId)
		if r.sys.privSid(m.Hello.ResumeId) != sid {
			return "(SOther 3)"
		}
		return fmt.Sprintf("(SHello %d %d)", sid, hdUserNum(m.Hello.UserId))
	case "error":
		if m.Error == nil {
			return "(SOther 4)"
		}
		if hdErrCode(m.Error.Code) == 99 {
			r.notes = append(r.notes, "unknown error code: "+string(data))
		}
		return fmt.Sprintf("(SError %d)", hdErrCode(m.Error.Code))
	case "bye":
		reason := ""
		if m.Bye != nil {
			reason = m.Bye.Reason
		}
		return fmt.Sprintf("(SBye %d)", hdByeReason(reason))
	case "room":
		if m.Room == nil {
			return "(SOther 5)"
		}
		return fmt.Sprintf("(SRoom %d)", hdRoomNum(m.Room.RoomId))
	case "message", "control":
		var sender *MessageServerMessageSender
		var recipient *MessageClientMessageRecipient
		var payload json.RawMessage
		kind := 0
		if m.Type == "message" && m.Message != nil {
			sender, recipient, payload = m.Message.Sender, m.Message.Recipient, m.Message.Data
		} else if m.Control != nil {
			kind = 1
			sender, recipient, payload = m.Control.Sender, m.Control.Recipient, m.Control.Data
		} else {
			return "(SOther 6)"
		}
		tag, mtype := hdTagOf(payload)
		if tag < 0 {
			// media message produced by the server (answer / offer / candidate)
			mt := map[string]int{"answer": 1, "offer": 2, "candidate": 3}[mtype]
			from := "0"
			if sender != nil {
				from = r.sidTerm(sender.SessionId)
			}
			return fmt.Sprintf("(SMedia %d %s)", mt, from)
		}
		st, ssid, suser := 9, "0", 0
		if sender != nil {
			st = map[string]int{"session": 0, "user": 1, "room": 2, "call": 3}[sender.Type]
			ssid = r.sidTerm(sender.SessionId)
			suser = hdUserNum(sender.UserId)
		}
		rec := "None"
		if recipient != nil {
			switch recipient.Type {
			case "session":
				var v int
				if _, err := fmt.Sscanf(recipient.SessionId, "v%d", &v); err == nil {
					rec = fmt.Sprintf("(Some (RcptVirtual %d))", v)
				} else if sid := r.sys.sidOf(recipient.SessionId); sid != 0 {
					rec = fmt.Sprintf("(Some (RcptSid %d))", sid)
				} else {
					rec = "(Some RcptOther)"
				}
			default:
				rec = "(Some RcptOther)"
			}
		}
		return fmt.Sprintf("(SMsg %d %d %s %d %s %d)", kind, st, ssid, suser, rec, tag)
	case "event":
		if m.Event == nil {
			return "(SOther 7)"
		}
		switch m.Event.Target {
		case "room":
			switch m.Event.Type {
			case "join":
				type je struct {
					sid  uint64
					user int
				}
				var l []je
				for _, e := range m.Event.Join {
					l = append(l, je{r.sys.sidOf(e.SessionId), hdUserNum(e.UserId)})
				}
				sort.Slice(l, func(i, j int) bool { return l[i].sid < l[j].sid })
				var terms []string
				for _, e := range l {
					terms = append(terms, fmt.Sprintf("(%d, %d)", e.sid, e.user))
				}
				return "(SJoin " + coqList(terms) + ")"
			case "leave":
				var l []uint64
				for _, e := range m.Event.Leave {
					l = append(l, r.sys.sidOf(e))
				}
				sort.Slice(l, func(i, j int) bool { return l[i] < l[j] })
				var terms []string
				for _, e := range l {
					terms = append(terms, fmt.Sprintf("%d", e))
				}
				return "(SLeave " + coqList(terms) + ")"
			case "delete":
				return "SRoomDeleted"
			case "message":
				tag := -1
				if m.Event.Message != nil {
					tag, _ = hdTagOf(m.Event.Message.Data)
				}
				return fmt.Sprintf("(SRoomMsg %d)", tag)
			}
		case "roomlist":
			switch m.Event.Type {
			case "disinvite":
				room := ""
				if m.Event.Disinvite != nil {
					room = m.Event.Disinvite.RoomId
				}
				return fmt.Sprintf("(SDisinvite %d)", hdRoomNum(room))
			case "update":
				return "(SRoomlist 1)"
			case "invite":
				return "(SRoomlist 2)"
			}
		case "participants":
			switch m.Event.Type {
			case "update":
				// the room the update is for and the signaling sessions its user list names (sorted; entries whose
				// session id is not a session id of this server would be 0 and are left out)
				all, room := 0, 0
				var ids []uint64
				if u := m.Event.Update; u != nil {
					if u.All {
						all = 1
					}
					room = hdRoomNum(u.RoomId)
					for _, e := range u.Users {
						if id, ok := e["sessionId"].(string); ok {
							if sid := r.sys.sidOf(id); sid != 0 {
								ids = append(ids, sid)
							}
						}
					}
				}
				sort.Slice(ids, func(i, j int) bool { return ids[i] < ids[j] })
				var terms []string
				for _, e := range ids {
					terms = append(terms, fmt.Sprintf("%d", e))
				}
				return fmt.Sprintf("(SPartL %d %d %s)", all, room, coqList(terms))
			case "flags":
				if m.Event.Flags != nil {
					return fmt.Sprintf("(SFlags %d %d)", r.sys.sidOf(m.Event.Flags.SessionId), m.Event.Flags.Flags)
				}
			}
		}
		return "(SOther 8)"
	case "internal":
		if m.Internal == nil || m.Internal.Type != "dialout" || m.Internal.Dialout == nil {
			return "(SOther 12)"
		}
		var rn int
		if _, err := fmt.Sscanf(m.Internal.Dialout.RoomId, "%d", &rn); err != nil || fmt.Sprintf("%d", rn) != m.Internal.Dialout.RoomId {
			return "(SOther 13)"
		}
		return fmt.Sprintf("(SDialout %d)", rn)
	case "transient":
		if m.TransientData == nil {
			return "(SOther 9)"
		}
		td := m.TransientData
		opt := func(v interface{}) string {
			if v == nil {
				return "None"
			}
			return fmt.Sprintf("(Some %d)", hdTransientValueNum(v))
		}
		switch td.Type {
		case "initial":
			return "(STransient (TInit " + hdTransientDataTerm(td.Data) + "))"
		case "set":
			if td.Value == nil {
				return "(SOther 14)"
			}
			return fmt.Sprintf("(STransient (TSet %d %d %s))", hdTransientKeyNum(td.Key), hdTransientValueNum(td.Value), opt(td.OldValue))
		case "remove":
			return fmt.Sprintf("(STransient (TRemove %d %s))", hdTransientKeyNum(td.Key), opt(td.OldValue))
		}
		return "(SOther 10)"
	}
	return "(SOther 11)"
}

// observe collects everything the op caused, as a Coq term of type `obs`.
func (r *hdRun) observe() string {
	s := r.sys
	var conns []int
	for i := range s.clients {
		conns = append(conns, i)
	}
	sort.Ints(conns)
	var recv []string
	var closed []string
	for _, i := range conns {
		c := s.clients[i]
		msgs, isClosed := c.take()
		var terms []string
		for _, m := range msgs {
			if hdIsSyncReply(m) {
				continue
			}
			terms = append(terms, r.project(i, m))
		}
		if len(terms) > 0 {
			recv = append(recv, fmt.Sprintf("(%d, %s)", i, coqList(terms)))
		}
		if isClosed {
			closed = append(closed, fmt.Sprintf("%d", i))
			delete(s.clients, i)
		}
	}
	// backend requests, canonical order
	var breqs []string
	for _, q := range s.backend.take() {
		if q.Type == "room-held" {
			continue
		}
		kind := map[string]int{"auth": 0, "room": 1, "session": 2, "ping": 3, "auth-held": 4}[q.Type]
		action := map[string]int{"": 0, "join": 0, "leave": 1, "add": 2, "remove": 3}[q.Action]
		sess := "0"
		var rs int
		if _, err := fmt.Sscanf(q.Session, "ncsession%d", &rs); err == nil {
			sess = fmt.Sprintf("%d", 1000000+rs)
		} else if sid := s.sidOf(q.Session); sid != 0 {
			if q.Type == "room" {
				sess = fmt.Sprintf("%d", 2000000+sid) // the session's own public id used as room session id
			} else {
				sess = fmt.Sprintf("%d", sid)
			}
		}
		ok := 1
		if !q.MacOk || q.RndLen < 32 {
			ok = 0
		}
		breqs = append(breqs, fmt.Sprintf("(%d, %d, %d, %d, %s, %d)", q.Backend, kind, action, hdRoomNum(q.Room), sess, ok))
	}
	sort.Strings(breqs)
	// media server calls
	var mcu []string
	for _, e := range s.mcu.take() {
		f := strings.Fields(e)
		switch f[0] {
		case "create":
			kind := 0
			if f[1] == "sub" {
				kind = 1
			}
			st := map[string]int{"audio": 0, "video": 1, "screen": 2}[f[4]]
			of := "0"
			if len(f) > 5 {
				of = r.sidTerm(f[5])
			}
			mcu = append(mcu, fmt.Sprintf("(MCreate %d %s %s %d %s)", kind, f[2], r.sidTerm(f[3]), st, of))
		case "created":
			mcu = append(mcu, fmt.Sprintf("(MCreated %s)", f[2]))
		case "close":
			mcu = append(mcu, fmt.Sprintf("(MClose %s)", f[2]))
		case "failed", "timeout":
			mcu = append(mcu, fmt.Sprintf("(MFailed %s)", f[2]))
		}
	}
	sort.Strings(mcu)
	return fmt.Sprintf("(mkobs %s %s %s %s)", coqList(recv), coqList(closed), coqList(breqs), coqList(mcu))
}

// digestTerm prints the hub's tables as a Coq term of type `digest`.
func (r *hdRun) digestTerm() string {
	s := r.sys
	d := s.digest()
	kindNum := map[string]int{HelloClientTypeClient: 0, HelloClientTypeInternal: 1, HelloClientTypeFederation: 2, HelloClientTypeVirtual: 3}
	roomKey := func(key string) string {
		if key == "" {
			return "None"
		}
		var b, rn int
		if _, err := fmt.Sscanf(key, "backend%d|room%d", &b, &rn); err != nil {
			return "(Some (99, 99))"
		}
		return fmt.Sprintf("(Some (%d, %d))", b, rn)
	}
	var sess []string
	for _, x := range d.Sessions {
		rs := 0
		if x.RoomSess != "" {
			if _, err := fmt.Sscanf(x.RoomSess, "ncsession%d", &rs); err != nil {
				if sid := s.sidOf(x.RoomSess); sid != 0 {
					rs = 2000000 + int(sid)
				} else {
					rs = 999999
				}
			} else {
				rs += 1000000
			}
		}
		perms := "None"
		if x.HasPerms {
			perms = fmt.Sprintf("(Some %d)", hdPermBitsOfNames(x.Perms))
		}
		conn := "None"
		if x.Conn >= 0 {
			conn = fmt.Sprintf("(Some %d)", x.Conn)
		}
		pubs := 0
		for _, p := range x.Pubs {
			pubs |= 1 << map[string]int{"audio": 0, "video": 1, "screen": 2}[p]
		}
		sess = append(sess, fmt.Sprintf("(mksd %d %d %d %d %d %s %d %s %s %s %d %d %d %s %d %d)", x.Sid, x.Backend, kindNum[x.Kind], hdUserNum(x.User), hdUserNum(x.AuthUser),
			roomKey(x.Room), rs, conn, coqBool(x.InCall), perms, pubs, len(x.Subs), x.Pending, coqBool(x.Counted), x.Parent, x.PubMedia))
	}
	var rooms, tdata []string
	for _, x := range d.Rooms {
		var b, rn int
		fmt.Sscanf(x.Key, "backend%d|room%d", &b, &rn) // nolint
		var ms, ic []string
		for _, m := range x.Members {
			ms = append(ms, fmt.Sprintf("%d", m))
		}
		for _, m := range x.InCall {
			ic = append(ic, fmt.Sprintf("%d", m))
		}
		rooms = append(rooms, fmt.Sprintf("((%d, %d), %s, %s)", b, rn, coqList(ms), coqList(ic)))
		tdata = append(tdata, fmt.Sprintf("((%d, %d), %s)", b, rn, hdTransientDataTerm(x.Transient)))
	}
	nums := func(l []uint64) string {
		var t []string
		for _, x := range l {
			t = append(t, fmt.Sprintf("%d", x))
		}
		return coqList(t)
	}
	var vt []string
	for k, v := range d.Virtual {
		// key = parent public id | client-chosen id
		i := strings.LastIndex(k, "|")
		var vn int
		fmt.Sscanf(k[i+1:], "v%d", &vn) // nolint
		vt = append(vt, fmt.Sprintf("(%d, %d, %d)", s.sidOf(k[:i]), vn, v))
	}
	sort.Strings(vt)
	// room-session map, both directions, as (sid, room session number)
	rsnum := func(v string) int {
		var n int
		if _, err := fmt.Sscanf(v, "ncsession%d", &n); err == nil {
			return 1000000 + n
		}
		if sid := s.sidOf(v); sid != 0 {
			return 2000000 + int(sid)
		}
		return 999999
	}
	var rs1, rs2 []string
	for k, v := range d.RS1 {
		rs1 = append(rs1, fmt.Sprintf("(%d, %d)", s.sidOf(k), rsnum(v)))
	}
	for k, v := range d.RS2 {
		rs2 = append(rs2, fmt.Sprintf("(%d, %d)", rsnum(k), s.sidOf(v)))
	}
	sort.Strings(rs1)
	sort.Strings(rs2)
	// bus registrations: count per kind
	kinds := map[string]int{}
	for subj, n := range d.Subjects {
		k := subj
		if i := strings.Index(subj, "."); i >= 0 {
			k = subj[:i]
		}
		kinds[k] += n
	}
	var counts []string
	for _, n := range d.Counts {
		counts = append(counts, fmt.Sprintf("%d", n))
	}
	return fmt.Sprintf("(mkdigest %s %s %s %s %s %s %s %s %s %d %d %d %d %d %d %d %s %s)", coqList(sess), coqList(rooms), coqList(rs1), coqList(rs2), coqList(vt),
		nums(d.Expired), nums(d.Anonymous), nums(d.Dialout), nums(d.Clients), d.ExpectHello,
		kinds["backend"], kinds["room"], kinds["user"], kinds["session"], len(d.McuOpen), d.McuPending, coqList(counts), coqList(tdata))
}

// runCase executes a case and returns the Coq term of its trace.
func hdRunCase(t *testing.T, c *hdCase) (string, *hdRun) {
	backends := c.Backends
	if len(backends) == 0 {
		backends = []hdBackendCfg{{}, {}}
	}
	sys := newHdSystem(t, backends)
	defer sys.close()
	sys.asyncBus = c.Async
	sys.mcu.gated = c.Gated
	r := &hdRun{sys: sys, pub: map[int]string{}, priv: map[int]string{}, vpub: map[string]string{}}
	var steps []string
	var ops []hdOp
	for _, o := range c.Ops {
		ops = append(ops, o)
	}
	for i := 0; i < len(ops); i++ {
		o := &ops[i]
		if o.K == "drain" {
			// deliver every queued publication in publication order, one step each
			if sys.events.pending() > 0 {
				rest := append([]hdOp{{K: "deliver", Subj: 0}, {K: "drain"}}, ops[i+1:]...)
				ops = append(ops[:i+1:i+1], rest...)
			}
			continue
		}
		if o.K == "deliversubj" {
			prefix := map[string]string{"room": "room.", "backendroom": "backend.room.", "session": "session.", "user": "user."}[o.Sk]
			for j, subj := range sys.events.pendingSubjects() {
				if strings.HasPrefix(subj, prefix) {
					rest := append([]hdOp{{K: "deliver", Subj: j}}, ops[i+1:]...)
					ops = append(ops[:i+1:i+1], rest...)
					break
				}
			}
			continue
		}
		if o.K == "joincut" {
			// forced schedule inside one request: join held at the backend, connection cut, (messages), resume on a new
			// connection, the backend answers. Where the join cannot be held (it does not ask the backend) the same ops
			// run one after the other.
			j := *o
			j.Mid = nil
			var rest []hdOp
			resume := []hdOp{{K: "connect", C: o.C2, Addr: o.Addr}, {K: "hello", C: o.C2, Ht: "resume", Id: &hdIdRef{T: "priv", C: o.C}}}
			if r.canHold(o) {
				j.K = "joinhold"
				rest = append(append(append([]hdOp{j}, o.Mid...), resume...), hdOp{K: "joinrelease", C: o.C2})
			} else {
				j.K = "join"
				rest = append(append([]hdOp{j, {K: "drop", C: o.C}}, o.Mid...), resume...)
			}
			ops = append(ops[:i+1:i+1], append(rest, ops[i+1:]...)...)
			continue
		}
		if o.K == "mcuflush" {
			// complete every pending creation, oldest first, one step each
			if sys.mcu.firstPending(0) != 0 {
				rest := append([]hdOp{{K: "mcudone", Res: "ok"}, {K: "mcuflush"}}, ops[i+1:]...)
				ops = append(ops[:i+1:i+1], rest...)
			}
			continue
		}
		term := r.exec(o)
		sys.settle()
		obs := r.observe()
		if o.K == "internal" && o.Ik == "addsession" {
			// learn the public id of the new virtual session from the table
			parent := r.pub[o.C]
			sys.hub.mu.RLock()
			if sid, ok := sys.hub.virtualSessions[parent+"|"+fmt.Sprintf("v%d", o.V)]; ok {
				if vs := sys.hub.sessions[sid]; vs != nil {
					r.vpub[fmt.Sprintf("%d|%d", o.C, o.V)] = vs.PublicId()
				}
			}
			sys.hub.mu.RUnlock()
		}
		if len(r.insert) > 0 {
			ops = append(ops[:i+1:i+1], append(r.insert, ops[i+1:]...)...)
			r.insert = nil
		}
		if term == "" {
			continue
		}
		if r.held != nil && r.held.sess != nil && s_connIndexOf(sys, r.held.sess) == r.held.cut {
			// the cut connection is still attached to its session (its handler is inside the held join): the model has
			// detached it with the cut; once the session is resumed the tables agree again
			r.inflight = append(r.inflight, len(steps))
		}
		steps = append(steps, fmt.Sprintf("(%s, %s, %s)", term, obs, r.digestTerm()))
	}
	if r.held != nil {
		close(r.held.gate)
		r.held = nil
	}
	if sys.unsettled > 0 {
		r.notes = append(r.notes, fmt.Sprintf("unsettled %d", sys.unsettled))
	}
	return coqList(steps), r
}

func TestVerifHubProbe(t *testing.T) {
	if testing.Short() {
		t.Skip()
	}
	c := &hdCase{Ops: []hdOp{
		{K: "connect", C: 1}, {K: "connect", C: 2},
		{K: "hello", C: 1, B: 0, U: 1}, {K: "hello", C: 2, B: 0, U: 2},
		{K: "join", C: 1, R: 1, RS: 1}, {K: "join", C: 2, R: 1, RS: 2},
		{K: "msg", C: 1, To: &hdRecipient{T: "room"}, Tag: 7},
		{K: "msg", C: 1, To: &hdRecipient{T: "session", Id: &hdIdRef{T: "pub", C: 2}}, Tag: 8},
		{K: "drop", C: 2},
		{K: "msg", C: 1, To: &hdRecipient{T: "session", Id: &hdIdRef{T: "pub", C: 2}}, Tag: 9},
		{K: "connect", C: 3}, {K: "hello", C: 3, Ht: "resume", Id: &hdIdRef{T: "priv", C: 2}},
		{K: "bye", C: 1},
		{K: "tick", O: 40},
	}}
	start := time.Now()
	term, r := hdRunCase(t, c)
	t.Logf("took %s notes %v", time.Since(start), r.notes)
	for _, s := range strings.Split(term, "); (O") {
		t.Log(s)
	}
}
