//go:build verif

package signaling

import (
	"context"
	"fmt"
	"net"
	"strings"
	"sync"
	"testing"
	"time"
)

// ---- C17: the real memoryThrottler driven with an injected clock -------------

type c17Addr struct {
	K  int    `json:"k"` // 4, 6, 0 (raw)
	N  uint64 `json:"n,omitempty"`
	Hi uint64 `json:"hi,omitempty"`
	Lo uint64 `json:"lo,omitempty"`
	F  int    `json:"f,omitempty"` // textual form of a v6 address
}

var c17Raw = []string{"", "not-an-ip", "1.2.3", "1.2.3.4.5", "::g", "300.1.1.1", "1.2.3.4:80"}

func (a c17Addr) text() string {
	switch a.K {
	case 4:
		return net.IPv4(byte(a.N>>24), byte(a.N>>16), byte(a.N>>8), byte(a.N)).String()
	case 6:
		ip := make(net.IP, 16)
		for i := 0; i < 8; i++ {
			ip[i] = byte(a.Hi >> (56 - 8*i))
			ip[8+i] = byte(a.Lo >> (56 - 8*i))
		}
		switch a.F {
		case 1: // fully expanded
			var parts []string
			for i := 0; i < 16; i += 2 {
				parts = append(parts, fmt.Sprintf("%02x%02x", ip[i], ip[i+1]))
			}
			return strings.Join(parts, ":")
		case 2:
			return strings.ToUpper(ip.String())
		}
		return ip.String()
	}
	return c17Raw[int(a.N)%len(c17Raw)]
}

// numbers of the cases files in hexadecimal: Coq reads a 15-digit decimal number several
// times slower, and reading the numbers is most of the time a cases file takes
func c17Z(v int64) string {
	switch {
	case v < 0:
		return fmt.Sprintf("(-0x%x)", -v)
	case v < 10:
		return fmt.Sprintf("%d", v)
	}
	return fmt.Sprintf("0x%x", v)
}

func (a c17Addr) coq() string {
	switch a.K {
	case 4:
		return fmt.Sprintf("(A4 0x%x)", a.N)
	case 6:
		return fmt.Sprintf("(A6 0x%x 0x%x)", a.Hi, a.Lo)
	}
	return fmt.Sprintf("(ARaw %d)", int(a.N)%len(c17Raw))
}

// key of the throttler record an op on (address, action) belongs to, as the Coq term of type key
func (a c17Addr) keyCoq(act int) string {
	switch a.K {
	case 4:
		return fmt.Sprintf("(K4 0x%x, %d%%N)", a.N, act)
	case 6:
		return fmt.Sprintf("(K6 0x%x, %d%%N)", a.Hi, act)
	}
	return fmt.Sprintf("(KRaw %d, %d%%N)", int(a.N)%len(c17Raw), act)
}

type c17Op struct {
	K    string  `json:"k"` // check, fail, cleanup, probe, attempt (sequential: check + fail when allowed); mode 3: sleep (failing attempt whose delay is held), check, cleanup, probe
	T    int64   `json:"t"`
	A    c17Addr `json:"a"`
	Act  int     `json:"act"`
	Fail bool    `json:"fail,omitempty"`
}

type c17Case struct {
	Id   int     `json:"id"`
	Mode int     `json:"mode"`
	Ops  []c17Op `json:"ops"`
	Outs []string `json:"outs,omitempty"`
}

var c17Actions = []string{"HelloResume", "HelloInternal", "BackendRoomAuth"}

func c17NewThrottler(cur *time.Time, last *time.Duration) *memoryThrottler {
	th := &memoryThrottler{
		getNow:  func() time.Time { return *cur },
		clients: make(map[string]map[string][]throttleEntry),
		closer:  NewCloser(),
	}
	th.doDelay = func(ctx context.Context, d time.Duration) { *last = d }
	return th
}

var c17Epoch = time.Unix(1700000000, 0)

// run executes the ops on a fresh throttler and returns the executed op-level
// trace as Coq terms (an "attempt" expands into check [+ fail]).
func c17Run(c *c17Case) (trace []string, outs []string, blockedSeen int, failures int) {
	var cur time.Time
	var last time.Duration
	th := c17NewThrottler(&cur, &last)
	ctx := context.Background()
	check := func(o c17Op) (ThrottleFunc, bool) {
		cur = c17Epoch.Add(time.Duration(o.T))
		f, err := th.CheckBruteforce(ctx, o.A.text(), c17Actions[o.Act])
		v := "VAllowed"
		if err == ErrBruteforceDetected {
			v = "VBlocked"
			blockedSeen++
		} else if err != nil {
			v = "VNone"
		}
		trace = append(trace, fmt.Sprintf("(OCheck %s %s %d, %s)", c17Z(o.T), o.A.coq(), o.Act, v))
		outs = append(outs, v)
		return f, err == nil
	}
	fail := func(o c17Op, f ThrottleFunc) {
		last = -1
		f(ctx)
		failures++
		trace = append(trace, fmt.Sprintf("(OFail %s %s %d, VDelay %s)", c17Z(o.T), o.A.coq(), o.Act, c17Z(int64(last))))
		outs = append(outs, "VDelay "+c17Z(int64(last)))
	}
	pending := map[string]ThrottleFunc{}
	pkey := func(o c17Op) string { return fmt.Sprintf("%d|%s|%d", o.T, o.A.text(), o.Act) }
	for _, o := range c.Ops {
		switch o.K {
		case "attempt":
			f, ok := check(o)
			if ok && o.Fail {
				fail(o, f)
			}
		case "check":
			f, ok := check(o)
			if ok {
				pending[pkey(o)] = f
			}
		case "fail":
			// the throttle function of an earlier allowed check with the same (t, addr, action);
			// without one, obtain an equivalent closure from a scratch throttler sharing the state
			f, ok := pending[pkey(o)]
			if !ok {
				saved := cur
				cur = c17Epoch.Add(time.Duration(o.T))
				now := cur
				client, action := o.A.text(), c17Actions[o.Act]
				f = func(ctx context.Context) { th.throttle(ctx, client, action, now) }
				cur = saved
			}
			fail(o, f)
		case "cleanup":
			th.cleanup(c17Epoch.Add(time.Duration(o.T)))
			trace = append(trace, fmt.Sprintf("(OCleanup %s, VNone)", c17Z(o.T)))
			outs = append(outs, "VNone")
		case "probe":
			n := len(th.getEntries(o.A.text(), c17Actions[o.Act]))
			trace = append(trace, fmt.Sprintf("(OProbe %s %s %d, VCount %d)", c17Z(o.T), o.A.coq(), o.Act, n))
			outs = append(outs, fmt.Sprintf("VCount %d", n))
		}
	}
	// no empty maps may be left behind (records are forgotten, not kept as empty shells)
	for k, actions := range th.clients {
		if len(actions) == 0 {
			trace = append(trace, fmt.Sprintf("(OProbe 0 (ARaw 99) 0, VCount (-1)) (* empty map left for %q *)", k))
		}
		for a, e := range actions {
			if len(e) == 0 {
				trace = append(trace, fmt.Sprintf("(OProbe 0 (ARaw 99) 0, VCount (-2)) (* empty list left for %q/%q *)", k, a))
			}
		}
	}
	return
}

const (
	c17Sec  = int64(time.Second)
	c17Min  = int64(time.Minute)
	c17Hour = int64(time.Hour)
)

var c17Steps = []int64{0, 0, 1, 1000, c17Sec, c17Sec, 7 * c17Sec, c17Min, c17Min, 3 * c17Min, 3 * c17Min, 10 * c17Min,
	30*c17Min - 1, 30 * c17Min, 30*c17Min + 1, c17Hour, 12*c17Hour - 1, 12 * c17Hour, 12*c17Hour + 1, 13 * c17Hour}

func c17Gen(r *vrng, id int) *c17Case {
	pool := []c17Addr{
		{K: 4, N: 0x0a000001}, {K: 4, N: 0x0a000002}, {K: 4, N: 0xc0a80101},
		{K: 6, Hi: 0x20010db800000001, Lo: 1}, {K: 6, Hi: 0x20010db800000001, Lo: 0xffff00000000abcd, F: 1},
		{K: 6, Hi: 0x20010db800000001, Lo: 77, F: 2}, {K: 6, Hi: 0x20010db800000002, Lo: 1},
		{K: 6, Hi: 0xfe80000000000000, Lo: 0x1234, F: 1},
		{K: 0, N: uint64(r.intn(len(c17Raw)))}, {K: 0, N: uint64(r.intn(len(c17Raw)))},
	}
	mode := 1
	if r.chance(25) {
		mode = 2
	} else if r.chance(10) {
		mode = 0
	}
	c := &c17Case{Id: id, Mode: mode}
	n := 6 + r.intn(40)
	hot := pick(r, pool)
	hotAct := r.intn(3)
	// bias of this case towards small time steps (so that ten failures accumulate)
	small := r.chance(70)
	t := int64(r.intn(1000)) * c17Sec
	type pend struct{ o c17Op }
	var pending []c17Op
	for i := 0; i < n; i++ {
		var dt int64
		if small && r.chance(85) {
			dt = c17Steps[r.intn(11)]
		} else {
			dt = pick(r, c17Steps)
		}
		t += dt
		a, act := hot, hotAct
		if r.chance(30) {
			a, act = pick(r, pool), r.intn(3)
		}
		switch {
		case r.chance(6):
			c.Ops = append(c.Ops, c17Op{K: "cleanup", T: t})
		case r.chance(8):
			c.Ops = append(c.Ops, c17Op{K: "probe", T: t, A: a, Act: act})
		case mode == 1:
			c.Ops = append(c.Ops, c17Op{K: "attempt", T: t, A: a, Act: act, Fail: r.chance(88)})
		case mode == 2:
			// ordered time stamps: checks may overlap only at one instant
			if r.chance(50) {
				c.Ops = append(c.Ops, c17Op{K: "attempt", T: t, A: a, Act: act, Fail: r.chance(88)})
			} else {
				k := 2 + r.intn(3)
				for j := 0; j < k; j++ {
					c.Ops = append(c.Ops, c17Op{K: "check", T: t, A: a, Act: act})
				}
				for j := 0; j < k; j++ {
					if r.chance(85) {
						c.Ops = append(c.Ops, c17Op{K: "fail", T: t, A: a, Act: act})
					}
				}
			}
		default:
			// free interleaving: failures recorded late, compared with the model only
			if len(pending) > 0 && r.chance(40) {
				j := r.intn(len(pending))
				o := pending[j]
				pending = append(pending[:j], pending[j+1:]...)
				c.Ops = append(c.Ops, c17Op{K: "fail", T: o.T, A: o.A, Act: o.Act})
			} else {
				o := c17Op{K: "check", T: t, A: a, Act: act}
				c.Ops = append(c.Ops, o)
				pending = append(pending, o)
			}
		}
	}
	// probe the hot key at the end
	c.Ops = append(c.Ops, c17Op{K: "probe", T: t, A: hot, Act: hotAct})
	return c
}

// "fail" ops whose check was refused must not be executed: filter after the fact.
func c17Sanitize(c *c17Case) {
	// executed lazily in c17Run: a fail without pending closure still records (models a
	// caller that kept the function); in mode 2 that would break the premise "recorded
	// failures are failures of allowed attempts" only in spirit, the predicate does not need it.
}

func TestVerifC17(t *testing.T) {
	env := getVerifEnv(t, "C17")
	sink := newCaseSink(t, env, "C17", "corr.Run_C17", 45)
	n, nAging, nGated, nHub := 400, 60, 40, 1
	if env.thorough() {
		n, nAging, nGated, nHub = 6000, 900, 600, 8
	}
	var cases []*c17Case
	if env.replay != "" {
		var cs []c17Case
		readReplay(t, env.replay, &cs)
		for i := range cs {
			cases = append(cases, &cs[i])
		}
	} else {
		// directed members of the classes first, then the seeded generators
		cases = append(cases, c17Directed()...)
		for i := 0; i < n; i++ {
			cases = append(cases, c17Gen(newVrng(env.seed, uint64(i)), i))
		}
		for i := 0; i < nAging; i++ {
			cases = append(cases, c17GenAging(newVrng(env.seed, uint64(1100+i)), 1100+i))
		}
		for i := 0; i < nGated; i++ {
			cases = append(cases, c17GenGated(newVrng(env.seed, uint64(20000+i)), 20000+i))
		}
		for i := 0; i < nHub; i++ {
			cases = append(cases, c17GenHub(newVrng(env.seed, uint64(30000+i)), 30000+i))
		}
	}
	gatedViolations, hubViolations := 0, 0
	for _, c := range cases {
		if c.Mode == 4 {
			if hubViolations < 1 && !c17HubCase(t, c, sink) {
				hubViolations++
			}
			continue
		}
		if c.Mode == 3 {
			// at most two blocked observations per run (each costs its deadline)
			if gatedViolations < 2 && !c17GatedCase(c, sink, env.replay == "") {
				gatedViolations++
			}
			continue
		}
		trace, outs, blocked, failures := c17Run(c)
		c.Outs = outs
		proj, runs := c17Projections(c)
		term := fmt.Sprintf("mkcase_iso %d %d %s %s", c.Id, c.Mode, coqList(trace), proj)
		sink.count(fmt.Sprintf("mode%d", c.Mode))
		sink.stats.Histogram["restricted_runs"] += runs
		if blocked > 0 {
			sink.count("cases_with_refusal")
		}
		sink.count(fmt.Sprintf("len_%02d-%02d", len(trace)/10*10, len(trace)/10*10+9))
		// non-trivial: at least one refusal or at least three recorded failures
		sink.add(term, c, blocked > 0 || failures >= 3, strings.Join(outs, ","))
	}

	// getDelay for every count a caller can reach (and beyond)
	var tbl []string
	th := &memoryThrottler{}
	for c := 0; c <= 70; c++ {
		tbl = append(tbl, fmt.Sprintf("(%d, %d)", c, int64(th.getDelay(c))))
	}
	sink.extraFile("delay", "From Coq Require Import List ZArith NArith.\nFrom Verif Require Import corr.Run_C17.\nImport ListNotations.\nOpen Scope Z_scope.\n"+
		"Definition result := Eval vm_compute in delay_mismatches "+coqList(tbl)+".\nPrint result.\n")

	if env.replay == "" {
		c17Concurrent(t, env, sink)
	}
	sink.close("seeded sequential / ordered / free histories of check, fail, cleanup, probe on the real memoryThrottler with injected clock, each also restricted to every one of its (address,kind) records and run again; histories with records of different ages on one address; schedules with held delays; non-trivial = at least one refusal or >= 3 recorded failures; distinct = distinct output sequences")
}

// Concurrent attempts (real goroutines): N failing attempts at one instant on a
// key that holds prunable records; every allowed attempt that failed must be
// counted.  This is the lost-update schedule; it is a test, not a proof.
func c17Concurrent(t *testing.T, env verifEnv, sink *caseSink) {
	rounds := 1500
	if env.thorough() {
		rounds = 20000
	}
	lost := 0
	const workers = 8
	for round := 0; round < rounds; round++ {
		var cur time.Time
		var mu sync.Mutex
		th := &memoryThrottler{
			clients: make(map[string]map[string][]throttleEntry),
			closer:  NewCloser(),
		}
		th.getNow = func() time.Time { mu.Lock(); defer mu.Unlock(); return cur }
		th.doDelay = func(ctx context.Context, d time.Duration) {}
		ctx := context.Background()
		// three records older than 12 h
		for i := 0; i < 3; i++ {
			cur = c17Epoch.Add(time.Duration(i) * time.Second)
			f, _ := th.CheckBruteforce(ctx, "10.9.8.7", "HelloResume")
			f(ctx)
		}
		mu.Lock()
		cur = c17Epoch.Add(13 * time.Hour)
		mu.Unlock()
		var wg sync.WaitGroup
		start := make(chan struct{})
		allowed := make([]bool, workers)
		for w := 0; w < workers; w++ {
			wg.Add(1)
			go func(w int) {
				defer wg.Done()
				<-start
				f, err := th.CheckBruteforce(ctx, "10.9.8.7", "HelloResume")
				if err == nil {
					allowed[w] = true
					f(ctx)
				}
			}(w)
		}
		close(start)
		wg.Wait()
		want := 0
		for _, a := range allowed {
			if a {
				want++
			}
		}
		got := len(th.getEntries("10.9.8.7", "HelloResume"))
		if got != want {
			lost++
			if lost == 1 {
				sink.violation(100000+round, fmt.Sprintf("concurrent failing attempts: %d allowed attempts failed at the same instant on a key holding 3 records older than 12 h, but only %d failures are recorded afterwards (a recorded failure was overwritten by a stale pruned list)", want, got),
					map[string]interface{}{"scenario": "c17Concurrent", "round": round, "workers": workers})
			}
		}
	}
	sink.stats.Histogram["concurrent_rounds"] = rounds
	sink.stats.Histogram["concurrent_rounds_with_lost_failure"] = lost
}
